#!/bin/sh
# setup_cmd: build the framework from files on disk only (offline).
set -e
cd "$(dirname "$0")"
export CARGO_NET_OFFLINE=true
python3 tools/translate.py > /dev/null
(cd lean && lake build cldrv CLModel 2>&1 | tail -3)
cd harness
cargo build --offline --release --features ossl --target-dir target/ossl 2>&1 | tail -1
cargo build --offline --profile checked --features ossl --target-dir target/ossl 2>&1 | tail -1
cargo build --offline --release --target-dir target/rust 2>&1 | tail -1
cargo build --offline --profile checked --target-dir target/rust 2>&1 | tail -1
./target/ossl/release/clh mkfixtures
echo setup done
