import CLModel.Model.Basic
import CLModel.Gen.Index
import CLModel.Gen.Merge
/-!
# Revocation registry, deltas, witnesses, tails — exponent form (import-free)

A prime-order bilinear group is written additively in the exponent: the G2 element
`g'^a` is represented by `a : F`.  `γ` is the registry secret, `tail k = γ^k`.
Every function mirrors one Rust function (name in the doc-comment); u32 index arithmetic
goes through the expressions extracted by the translator into `Gen.Index`.

Executable instance: `F = Nat` with arithmetic modulo the BN254 group order (driver).
Proof instance: any `CommRing` (`Proofs/Registry.lean`).
-/
namespace CL

structure RingOps (F : Type) where
  add : F → F → F
  sub : F → F → F
  mul : F → F → F
  zero : F
  one : F
  pow : F → Nat → F

namespace Reg

variable {F : Type}

/-! ## u32 helpers driven by `Gen.Index` -/

/-- `Issuer::_get_index(max_cred_num, rev_idx)` -/
def getIndex (m : OvfMode) (L idx : Nat) : Outcome Nat :=
  (Gen.getIndexExpr.eval m [(L : Int), (idx : Int)]).map Int.toNat

/-- `max_cred_num + 1 - j + rev_idx` in `Witness::new` / `Witness::update` -/
def witnessIndexNew (m : OvfMode) (L j i : Nat) : Outcome Nat :=
  (Gen.witnessNewIndexExpr.eval m [(L : Int), (j : Int), (i : Int)]).map Int.toNat

def witnessIndexUpdate (m : OvfMode) (L j i : Nat) : Outcome Nat :=
  (Gen.witnessUpdateIndexExpr.eval m [(L : Int), (j : Int), (i : Int)]).map Int.toNat

/-- `2 * max_cred_num + 1` in `RevocationTailsGenerator::new` -/
def tailsSize (m : OvfMode) (L : Nat) : Outcome Nat :=
  (Gen.tailsSizeExpr.eval m [(L : Int)]).map Int.toNat

/-- `(self.size / 2) + 1` in `RevocationTailsGenerator::try_next` -/
def suppressedIndex (m : OvfMode) (size : Nat) : Outcome Nat :=
  (Gen.suppressedIndexExpr.eval m [(size : Int)]).map Int.toNat

/-- an extracted range guard evaluated on `(max_cred_num, idx)`; `ok true` = reject -/
def guard (g : BExpr) (m : OvfMode) (L idx : Nat) : Outcome Bool := g.eval m [(L : Int), (idx : Int)]

/-! ## Tail sums -/

/-- `Tail::index_pow` -/
def indexPow (o : RingOps F) (γ : F) (k : Nat) : F := o.pow γ k

/-- loop of `Tail::accum_range`: `n` further steps from power `pow`, accumulator `acc` -/
def accumRangeLoop (o : RingOps F) (γ : F) : Nat → F → F → F
  | 0, _, acc => acc
  | n + 1, pow, acc =>
    let pow' := o.mul pow γ
    accumRangeLoop o γ n pow' (o.add acc pow')

/-- `Tail::accum_range(g', γ, a..=b)` (swaps a reversed range) -/
def accumRange (o : RingOps F) (γ : F) (a b : Nat) : F :=
  let s := if a > b then b else a
  let e := if a > b then a else b
  let p := indexPow o γ s
  accumRangeLoop o γ (e - s) p p

/-- loop of `Tail::accum_indexes` over the ascending index list; state `(acc, base, pow)` -/
def accumIndexesLoop (o : RingOps F) (γ : F) : List Nat → F → F → Nat → F
  | [], acc, _, _ => acc
  | idx :: rest, acc, base, pow =>
    if idx == 0 then accumIndexesLoop o γ rest acc base pow
    else if idx != pow then
      let diff := idx - pow
      let base' := if diff == 1 then o.mul base γ else o.mul base (indexPow o γ diff)
      accumIndexesLoop o γ rest (o.add acc base') base' idx
    else accumIndexesLoop o γ rest (o.add acc base) base pow

/-- `Tail::accum_indexes(g', γ, indexes)`; `idxs` is the BTreeSet in ascending order -/
def accumIndexes (o : RingOps F) (γ : F) (idxs : List Nat) : F :=
  accumIndexesLoop o γ idxs o.zero γ 1

/-- `RevocationRegistry::initial_state`: `if issuance_by_default && max_cred_num > 0` (the
    second conjunct was added in /repo: `accum_range(1..=0)` reads the empty range as `0..=1`) -/
def initialState (o : RingOps F) (γ : F) (L : Nat) (byDefault : Bool) : F :=
  if byDefault && L > 0 then accumRange o γ 1 L else o.zero

/-- insertion into an ascending duplicate-free list (BTreeSet) -/
def insertAsc (x : Nat) : List Nat → List Nat
  | [] => [x]
  | y :: ys => if x < y then x :: y :: ys else if x == y then y :: ys else y :: insertAsc x ys

def sortAsc (l : List Nat) : List Nat := l.foldr insertAsc []

/-- `RevocationRegistry::for_issued` (indices mirrored to tail positions `L+1-j`);
    `issued` ascending. First/last range checks as in the source. -/
def forIssued (o : RingOps F) (γ : F) (m : OvfMode) (L : Nat) (issued : List Nat) : Outcome F :=
  if issued.head? == some 0 then .err            -- "Invalid revocation index, 0."
  else if (issued.getLast?.map fun last => decide (last > L)).getD false then .err
  else if Gen.forIssuedMirrors then
    (mirror issued).map fun ms => accumIndexes o γ (sortAsc ms)
  else .ok (accumIndexes o γ issued)
where
  mirror : List Nat → Outcome (List Nat)
    | [] => .ok []
    | j :: js => (getIndex m L j).bind fun k => (mirror js).map (k :: ·)

/-! ## Accumulator updates -/

/-- `Issuer::_update_revocation_accumulator`: list of `(rev_idx, remove?)`; returns the
    exponent to add to the accumulator. Range guard first (fix), then `_get_index`. -/
def updatePow (o : RingOps F) (γ : F) (m : OvfMode) (L : Nat) :
    List (Nat × Bool) → F → Outcome F
  | [], acc => .ok acc
  | (idx, remove) :: rest, acc =>
    (guard Gen.updateAccGuard m L idx).guardThen fun _ =>
    (getIndex m L idx).bind fun k =>
      let t := indexPow o γ k
      updatePow o γ m L rest (if remove then o.sub acc t else o.add acc t)

structure Delta (F : Type) where
  prev : Option F
  acc : F
  issued : List Nat
  revoked : List Nat

/-- `Issuer::revoke_credential` -/
def revoke (o : RingOps F) (γ : F) (m : OvfMode) (L : Nat) (acc : F) (i : Nat) :
    Outcome (F × Delta F) :=
  (updatePow o γ m L [(i, true)] o.zero).map fun p =>
    let a := o.add acc p; (a, ⟨some acc, a, [], [i]⟩)

/-- `Issuer::unrevoke_credential` -/
def unrevoke (o : RingOps F) (γ : F) (m : OvfMode) (L : Nat) (acc : F) (i : Nat) :
    Outcome (F × Delta F) :=
  (updatePow o γ m L [(i, false)] o.zero).map fun p =>
    let a := o.add acc p; (a, ⟨some acc, a, [i], []⟩)

/-- `Issuer::update_revocation_registry(issued, revoked)` (both BTreeSets, ascending) -/
def update (o : RingOps F) (γ : F) (m : OvfMode) (L : Nat) (acc : F) (iss rev : List Nat) :
    Outcome (F × Delta F) :=
  (updatePow o γ m L (iss.map (·, false) ++ rev.map (·, true)) o.zero).map fun p =>
    let a := o.add acc p; (a, ⟨some acc, a, iss, rev⟩)

/-- registry part of `Issuer::_new_non_revocation_credential`:
    returns new accumulator, optional delta, issuer-side witness -/
def issue (o : RingOps F) (γ : F) (m : OvfMode) (L : Nat) (byDefault : Bool) (acc : F) (i : Nat) :
    Outcome (F × Option (Delta F) × F) :=
  (guard Gen.issueGuard m L i).guardThen fun _ =>
  (getIndex m L i).bind fun k =>
    let tail := indexPow o γ k
    let γi := indexPow o γ i
    if byDefault then
      .ok (acc, none, o.mul (o.sub acc tail) γi)
    else
      let a := o.add acc tail
      .ok (a, some ⟨some acc, a, [i], []⟩, o.mul acc γi)

/-! ## Histories -/

inductive Op where
  | issue (i : Nat)
  | revoke (i : Nat)
  | unrevoke (i : Nat)
  | update (iss rev : List Nat)
deriving Repr

structure StepOut (F : Type) where
  acc : F
  delta : Option (Delta F)
  witness : Option F

/-- one operation of the `Issuer` API on the registry -/
def step (o : RingOps F) (γ : F) (m : OvfMode) (L : Nat) (byDefault : Bool) (acc : F) :
    Op → Outcome (StepOut F)
  | .issue i => (issue o γ m L byDefault acc i).map fun r => ⟨r.1, r.2.1, some r.2.2⟩
  | .revoke i => (revoke o γ m L acc i).map fun r => ⟨r.1, some r.2, none⟩
  | .unrevoke i => (unrevoke o γ m L acc i).map fun r => ⟨r.1, some r.2, none⟩
  | .update iss rev => (update o γ m L acc iss rev).map fun r => ⟨r.1, some r.2, none⟩

/-- a history in which every operation is accepted -/
def run (o : RingOps F) (γ : F) (m : OvfMode) (L : Nat) (byDefault : Bool) :
    F → List Op → Outcome F
  | acc, [] => .ok acc
  | acc, op :: ops =>
    (step o γ m L byDefault acc op).bind fun s => run o γ m L byDefault s.acc ops

/-! ## Delta merge, interpreted from `Gen.Merge` -/

def setMem (x : Nat) (l : List Nat) : Bool := l.contains x
def setUnionDiff (a b c : List Nat) : List Nat :=      -- a.extend(b.difference(c))
  a ++ (b.filter fun x => !setMem x c && !setMem x a)
def setRemoveAll (a b : List Nat) : List Nat :=        -- for x in b { a.remove(x) }
  a.filter fun x => !setMem x b

/-- run the extracted statement list on `(selfIssued, selfRevoked)` -/
def runMerge (otherIssued otherRevoked : List Nat) :
    List Gen.MergeStmt → List Nat × List Nat → List Nat × List Nat
  | [], s => s
  | st :: rest, (si, sr) =>
    let src (f : Gen.MField) := match f with
      | .selfIssued => si | .selfRevoked => sr
      | .otherIssued => otherIssued | .otherRevoked => otherRevoked
    let s' := match st with
      | .extendDiff .selfIssued b c => (setUnionDiff si (src b) (src c), sr)
      | .extendDiff .selfRevoked b c => (si, setUnionDiff sr (src b) (src c))
      | .removeEach .selfIssued b => (setRemoveAll si (src b), sr)
      | .removeEach .selfRevoked b => (si, setRemoveAll sr (src b))
      | _ => (si, sr)
    runMerge otherIssued otherRevoked rest s'

/-- `RevocationRegistryDelta::merge`; `eqF` is accumulator equality -/
def merge (eqF : F → F → Bool) (d1 d2 : Delta F) : Outcome (Delta F) :=
  match d2.prev with
  | none => .err
  | some p =>
    if !eqF d1.acc p then .err else
    let (i, r) := runMerge d2.issued d2.revoked Gen.mergeBody (d1.issued, d1.revoked)
    .ok ⟨d1.prev, d2.acc, i, r⟩

/-! ## Tails and witnesses -/

/-- What `SimpleTailsAccessor` built from the generator holds at position `k`
    (`Err` beyond the `2L+1` stored tails); position `L+1` holds `g'`. -/
def tailAt (o : RingOps F) (γ : F) (L k : Nat) : Outcome F :=
  if k ≥ 2 * L + 1 then .err
  else if k == L + 1 then .ok o.one
  else .ok (indexPow o γ k)

/-- loop of `Witness::new` over the issued indices (any order: the sum is commutative) -/
def witnessNewLoop (o : RingOps F) (γ : F) (m : OvfMode) (L i : Nat) :
    List Nat → F → Outcome F
  | [], ω => .ok ω
  | j :: js, ω =>
    (guard Gen.witnessNewLoopGuard m L j).guardThen fun _ =>
    (witnessIndexNew m L j i).bind fun k =>
    (tailAt o γ L k).bind fun t =>
      witnessNewLoop o γ m L i js (o.add ω t)

/-- `Witness::issued_indices` -/
def issuedIndices (L : Nat) (byDefault : Bool) (d : Delta F) : List Nat :=
  if byDefault then (List.range' 1 L).filter fun j => !setMem j d.revoked
  else sortAsc d.issued

/-- `Witness::new(rev_idx, max_cred_num, issuance_by_default, delta, tails)` -/
def witnessNew (o : RingOps F) (γ : F) (m : OvfMode) (L : Nat) (byDefault : Bool) (i : Nat)
    (d : Delta F) : Outcome F :=
  (guard Gen.witnessNewGuard m L i).guardThen fun _ =>
    witnessNewLoop o γ m L i ((issuedIndices L byDefault d).filter (· != i)) o.zero

/-- loop of `Witness::update` over `(j, add?)` -/
def witnessUpdateLoop (o : RingOps F) (γ : F) (m : OvfMode) (L i : Nat) :
    List (Nat × Bool) → F → Outcome F
  | [], ω => .ok ω
  | (j, add) :: js, ω =>
    if i == j then witnessUpdateLoop o γ m L i js ω else
    (guard Gen.witnessUpdateLoopGuard m L j).guardThen fun _ =>
    (witnessIndexUpdate m L j i).bind fun k =>
    (tailAt o γ L k).bind fun t =>
      witnessUpdateLoop o γ m L i js (if add then o.add ω t else o.sub ω t)

/-- the `BTreeMap<u32,bool>` built by `Witness::update`: issued inserted first (true), then
    revoked (false) overriding -/
def updateEntries (d : Delta F) : List (Nat × Bool) :=
  let revs := sortAsc d.revoked
  let iss := (sortAsc d.issued).filter fun j => !setMem j revs
  (iss.map (·, true)) ++ (revs.map (·, false))

/-- `Witness::update(rev_idx, max_cred_num, delta, tails)` -/
def witnessUpdate (o : RingOps F) (γ : F) (m : OvfMode) (L i : Nat) (ω : F) (d : Delta F) :
    Outcome F :=
  (guard Gen.witnessUpdateGuard m L i).guardThen fun _ =>
    witnessUpdateLoop o γ m L i (updateEntries d) ω

/-- `RevocationTailsGenerator` -/
structure TailsGen (F : Type) where
  size : Nat
  idx : Nat
  cur : Option F

def TailsGen.new (m : OvfMode) (L : Nat) : Outcome (TailsGen F) :=
  (tailsSize m L).map fun s => ⟨s, 0, none⟩

def TailsGen.count (g : TailsGen F) : Nat := g.size - g.idx

/-- `try_next`: `(new state, Some tail | None)` -/
def TailsGen.tryNext (o : RingOps F) (γ : F) (m : OvfMode) (g : TailsGen F) :
    Outcome (TailsGen F × Option F) :=
  if g.idx ≥ g.size then .ok (g, none) else
  let res := match g.cur with
    | some c => o.mul c γ
    | none => o.one
  (suppressedIndex m g.size).map fun s =>
    let out := if g.idx == s then o.one else res
    (⟨g.size, g.idx + 1, some res⟩, some out)

/-- drain the generator (fuel = number of calls) -/
def TailsGen.drain (o : RingOps F) (γ : F) (m : OvfMode) :
    Nat → TailsGen F → List F → Outcome (List F)
  | 0, _, acc => .ok acc.reverse
  | n + 1, g, acc =>
    match g.tryNext o γ m with
    | .ok (g', some t) => drain o γ m n g' (t :: acc)
    | .ok (_, none) => .ok acc.reverse
    | .err => .err
    | .panic => .panic

end Reg
end CL
