import CLModel.Model.Primary
/-!
# Issuance handshake — RSA side (import-free)

`Issuer::_check_blinded_credential_secrets_correctness_proof`,
`Prover::_check_credential_key_correctness_proof`,
`Prover::_check_signature_correctness_proof`, their provers, and
`Issuer::_gen_credential_context`.  Same conventions as `Model/Primary.lean`; every hash is
`hash_list_to_bignum(&[values])` over ONE concatenated byte vector, modelled as
`H [concat]`.
-/
namespace CL.Iss
open CL.Pri

variable {G : Type}

def cat (bs : List ByteArray) : ByteArray := bs.foldl (fun acc b => acc ++ b) ByteArray.empty

/-! ## blinded credential secrets -/

/-- `BlindedCredentialSecrets` (primary part) -/
structure Blinded (G : Type) where
  u : G
  hidden : List String                 -- BTreeSet
  committed : List (String × G)        -- BTreeMap

/-- `BlindedCredentialSecretsCorrectnessProof` -/
structure BlindedProof where
  c : Int
  vDashCap : Int
  mCaps : List (String × Int)
  rCaps : List (String × Int)

/-- the fold over `hidden_attributes`: `acc · Π R_attr^{m_caps[attr]}`;
    `pk.r.get` is `ok_or_else(err)`, `m_caps.get` is `ok_or_else(err)` -/
def hiddenFold (o : GroupOps G) (pk : PubKey G) (mCaps : List (String × Int)) :
    List String → G → Outcome G
  | [], acc => .ok acc
  | a :: as, acc =>
    (getOrErr a pk.r).bind fun r =>
    (getOrErr a mCaps).bind fun mc =>
    (o.pow r mc).bind fun p =>
      hiddenFold o pk mCaps as (o.mul acc p)

/-- the loop over `committed_attributes`: appends `comm_att_cap ‖ value` per entry -/
def committedLoop (o : GroupOps G) (pk : PubKey G) (p : BlindedProof) :
    List (String × G) → Outcome (List ByteArray)
  | [] => .ok []
  | (k, value) :: rest =>
    (getOrErr k p.mCaps).bind fun mc =>
    (getOrErr k p.rCaps).bind fun rc =>
    (o.inv value).bind fun vi =>
    (o.pow vi p.c).bind fun vic =>
    (o.pow pk.z mc).bind fun zm =>
    (o.pow pk.s rc).bind fun sr =>
    (committedLoop o pk p rest).map fun bs =>
      o.enc (o.mul vic (o.mul zm sr)) :: o.enc value :: bs

/-- bytes hashed by issuer and prover for the blinded-secrets proof, given `Û` -/
def blindedTranscript (o : GroupOps G) (commBytes : List ByteArray) (u uCap : G)
    (nonce : ByteArray) : ByteArray :=
  cat (commBytes ++ [o.enc u, o.enc uCap, nonce])

/-- `Issuer::_check_blinded_credential_secrets_correctness_proof`: `ok true` = accepted,
    `ok false` = "Invalid BlindedCredentialSecrets correctness proof" -/
def checkBlinded (o : GroupOps G) (H : List ByteArray → Int) (pk : PubKey G) (b : Blinded G)
    (p : BlindedProof) (nonce : ByteArray) : Outcome Bool :=
  (o.inv b.u).bind fun ui =>
  (o.pow ui p.c).bind fun uic =>
  (o.pow pk.s p.vDashCap).bind fun sv =>
  (hiddenFold o pk p.mCaps b.hidden (o.mul uic sv)).bind fun uCap =>
  (committedLoop o pk p b.committed).bind fun cb =>
    .ok (H [blindedTranscript o cb b.u uCap nonce] == p.c)

/-- tape of `_new_blinded_credential_secrets_correctness_proof` -/
structure BlindTape where
  vDashTilde : Int
  mTilde : String → Int

/-- `Ũ = S^{ṽ'} · Π_hidden R^{m̃}` -/
def uTilde (o : GroupOps G) (pk : PubKey G) (tp : BlindTape) : List String → G → Outcome G
  | [], acc => .ok acc
  | a :: as, acc =>
    (getOrErr a pk.r).bind fun r =>
    (o.pow r (tp.mTilde a)).bind fun p =>
      uTilde o pk tp as (o.mul acc p)

/-- `Prover::_new_blinded_credential_secrets_correctness_proof` without committed attributes -/
def newBlindedProof (o : GroupOps G) (H : List ByteArray → Int) (pk : PubKey G) (u : G)
    (hidden : List (String × Int)) (vPrime : Int) (tp : BlindTape) (nonce : ByteArray) :
    Outcome BlindedProof :=
  (o.pow pk.s tp.vDashTilde).bind fun sv =>
  (uTilde o pk tp (keys hidden) sv).map fun ut =>
    let c := H [blindedTranscript o [] u ut nonce]
    ⟨c, c * vPrime + tp.vDashTilde, hidden.map (fun (k, v) => (k, tp.mTilde k + c * v)), []⟩

/-! ## key correctness proof -/

/-- `CredentialKeyCorrectnessProof` -/
structure KeyProof where
  c : Int
  xzCap : Int
  xrCap : List (String × Int)          -- Vec of pairs, order matters

/-- per entry of `xr_cap`: `(R_key, R_key^{-c} · S^{x̂r})` -/
def keyProofLoop (o : GroupOps G) (pk : PubKey G) (c : Int) :
    List (String × Int) → Outcome (List G × List G)
  | [] => .ok ([], [])
  | (k, xr) :: rest =>
    (getOrPanic k pk.r).bind fun r =>          -- `pr_pub_key.r[key]` (guarded by the name check)
    (o.inv r).bind fun ri =>
    (o.pow ri c).bind fun ric =>
    (o.pow pk.s xr).bind fun sx =>
    (keyProofLoop o pk c rest).map fun (rs, caps) => (r :: rs, o.mul ric sx :: caps)

/-- `Prover::_check_credential_key_correctness_proof` -/
def checkKeyProof (o : GroupOps G) (H : List ByteArray → Int) (pk : PubKey G) (p : KeyProof) :
    Outcome Bool :=
  let names := keys p.xrCap
  -- every key attribute is covered, except the legacy exemption for "master_secret"
  if (keys pk.r).any (fun k => !names.contains k && k != "master_secret") then .err
  else if names.any (fun k => (lookup k pk.r).isNone) then .err
  else
    -- S must be invertible (repaired in /repo: for S = 0 every recomputed commitment vanishes)
    (o.inv pk.s).bind fun _ =>
    (o.inv pk.z).bind fun zi =>
    (o.pow zi p.c).bind fun zic =>
    (o.pow pk.s p.xzCap).bind fun sx =>
    (keyProofLoop o pk p.c p.xrCap).bind fun (rs, caps) =>
      let bytes := cat ([o.enc pk.z] ++ rs.map o.enc ++ [o.enc (o.mul zic sx)] ++ caps.map o.enc)
      if H [bytes] == p.c then .ok true else .err

/-- first messages of the key proof for the covered generators: `(R_k, S^{x̃r_k})` -/
def keyProofTildes (o : GroupOps G) (pk : PubKey G) :
    List (String × Int × Int) → Outcome (List G × List G)
  | [] => .ok ([], [])
  | (k, _, xt) :: rest =>
    (getOrErr k pk.r).bind fun r =>
    (o.pow pk.s xt).bind fun rt =>
    (keyProofTildes o pk rest).map fun (rs, rts) => (r :: rs, rt :: rts)

/-- `Issuer::_new_credential_key_correctness_proof` for a key built from chosen exponents
    (`Z = S^{xz}`, `R_k = S^{xr_k}`): `covered` lists `(name, xr, x̃r)` for the generators the
    proof speaks about, in the order of `xr_cap` -/
def newKeyProof (o : GroupOps G) (H : List ByteArray → Int) (pk : PubKey G) (xz xzTilde : Int)
    (covered : List (String × Int × Int)) : Outcome KeyProof :=
  (o.pow pk.s xzTilde).bind fun zt =>
  (keyProofTildes o pk covered).map fun (rs, rts) =>
    let c := H [cat ([o.enc pk.z] ++ rs.map o.enc ++ [o.enc zt] ++ rts.map o.enc)]
    ⟨c, xzTilde + c * xz, covered.map fun (k, xr, xt) => (k, xt + c * xr)⟩

/-! ## signature correctness proof -/

inductive Kind where
  | known | hidden | commitment
deriving BEq, Repr

/-- `CredentialValues` as the holder sees them -/
abbrev KValues := List (String × Kind × Int)

/-- `Prover::_check_signature_correctness_proof` (the signature's `v` already includes `v'`) -/
def checkSignatureCorrectness (o : GroupOps G) (H : List ByteArray → Int) (isPrime : Int → Bool)
    (pk : PubKey G) (sig : Signature G) (vals : KValues) (se c : Int) (nonce : ByteArray) :
    Outcome Bool :=
  if !isPrime sig.e then .err
  -- e ∈ [2^LARGE_E_START, 2^LARGE_E_START + 2^LARGE_E_END_RANGE)
  else if sig.e < (2 : Int) ^ Gen.LARGE_E_START ∨
          sig.e ≥ (2 : Int) ^ Gen.LARGE_E_START + (2 : Int) ^ Gen.LARGE_E_END_RANGE then .err
  else if vals.any (fun (a, k, _) => (k == .known || k == .hidden) && (lookup a pk.r).isNone) then .err
  else if (keys pk.r).any (fun a => (lookup a vals).isNone) then .err
  else
    let used : List (String × Int) :=
      (vals.filter fun (_, k, _) => k == .known || k == .hidden).map fun (a, _, v) => (a, v)
    (o.pow pk.s sig.v).bind fun sv =>
    (o.pow pk.rctxt sig.m2).bind fun rc =>
    (mulPows o pk.r used (keys used) (o.mul sv rc)).bind fun rx =>
    (o.inv rx).bind fun rxi =>
    let q := o.mul pk.z rxi
    (o.pow sig.a sig.e).bind fun ae =>
    if !o.beq q ae then .err else
    (o.pow sig.a (c + se * sig.e)).bind fun aCap =>
      if H [cat [o.enc q, o.enc sig.a, o.enc aCap, nonce]] == c then .ok true else .err

/-- `Issuer::_new_signature_correctness_proof`; `N = p'q'`, `r` the random exponent,
    `einv = e⁻¹ mod N` -/
def newSignatureCorrectness (o : GroupOps G) (H : List ByteArray → Int) (a q : G)
    (einv r N : Int) (nonce : ByteArray) : Outcome (Int × Int) :=
  (o.pow q r).map fun aCap =>
    let c := H [cat [o.enc q, o.enc a, o.enc aCap, nonce]]
    ((r - (c * einv) % N) % N, c)

end CL.Iss

namespace CL.Iss

/-- `Issuer::_gen_credential_context(prover_id, rev_idx)`:
    `H( to_bytes(LE(sha(prover_id))) ‖ to_bytes(LE(sha(dec(rev_idx as i32 or -1)))) )`.
    `sha` is SHA-256, `ofBytes` reads big-endian, `enc` is `to_bytes` of a non-negative number,
    `decStr` prints a decimal integer. -/
def genCredentialContext (sha : ByteArray → ByteArray) (ofBytes : ByteArray → Nat)
    (enc : Nat → ByteArray) (decStr : Int → String) (proverId : String) (revIdx : Option Nat) :
    Nat :=
  let idx : Int := match revIdx with
    | some i => IntTy.i32.wrap (i : Int)          -- `i as i32`
    | none => -1
  let rev (b : ByteArray) : ByteArray := ⟨b.data.reverse⟩
  let a := ofBytes (rev (sha proverId.toUTF8))
  let b := ofBytes (rev (sha (decStr idx).toUTF8))
  ofBytes (sha (enc a ++ enc b))

end CL.Iss
