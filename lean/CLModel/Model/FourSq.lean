import CLModel.Model.Basic
/-!
# `helpers::four_squares` — import-free model

```rust
let d = delta as usize;
let mut roots = [largest_square_less_than(d), 0, 0, 0];
'outer: for i in (1..=roots[0]).rev() { roots[0] = i; if d == i² {..; break 'outer}
  if !is_sum_of_three_squares(d - i²) { continue; }      // while n != 0 && n % 4 == 0 { n /= 4 }; n % 8 != 7
  roots[1] = lslt(d - i²);
  for j in (1..=roots[1]).rev() { roots[1] = j; if d == i² + j² {..; break 'outer}
    roots[2] = lslt(d - i² - j²);
    for k in (1..=roots[2]).rev() { roots[2] = k; if d == i² + j² + k² {..; break 'outer}
      roots[3] = lslt(d - i² - j² - k²);
      if d == i² + j² + k² + roots[3]² { break 'outer } } } }
Ok(roots)
```

The three loops are structural recursion on the loop counter.  The `roots` array is threaded
through, so that the model returns exactly what the code returns even on the path where no
`break` is taken (the stale contents of `roots`); that this path is never taken is theorem
`CL.C19.four_squares_sum`, not a modelling decision.

`usize` arithmetic is explicit: every `pow(2)`, `+` and `-` goes through `UMode`
(`ideal` = unbounded naturals, used for the statement without a bound on `delta`;
`u64 checked|wrapping` = the two Rust profiles on a 64-bit target).  A subtraction below zero
has no unbounded meaning and is a `panic` in `ideal`.

`largest_square_less_than(x) = (x as f64).sqrt().floor() as usize` is modelled by the integer
square root `Nat.sqrt`; that the `f64` computation equals it on the range of interest is the
IEEE-754 assumption named in the trusted base and is pinned by the breakpoint stream of the
correspondence check.
-/
namespace CL.FourSq

inductive UMode where
  | ideal
  | u64 (m : OvfMode)
deriving Repr, BEq, DecidableEq

def two64 : Nat := 18446744073709551616

/-- result of a `usize` operation whose mathematical value is `v ≥ 0` -/
@[inline] def fitU : UMode → Nat → Outcome Nat
  | .ideal, v => .ok v
  | .u64 .checked, v => if v < two64 then .ok v else .panic
  | .u64 .wrapping, v => .ok (v % two64)

/-- `x.pow(2)` -/
@[inline] def sq (um : UMode) (x : Nat) : Outcome Nat := fitU um (x * x)

/-- `a + b` -/
@[inline] def uadd (um : UMode) (a b : Nat) : Outcome Nat := fitU um (a + b)

/-- `a - b` -/
@[inline] def usub (um : UMode) (a b : Nat) : Outcome Nat :=
  if b ≤ a then .ok (a - b) else
  match um with
  | .ideal => .panic
  | .u64 .checked => .panic
  | .u64 .wrapping => .ok ((a + two64 - b % two64) % two64)

/-- `largest_square_less_than` (despite its name: the largest `s` with `s² ≤ x`) -/
@[inline] def lslt (x : Nat) : Nat := Nat.sqrt x

/-- `roots[0].pow(2) + roots[1].pow(2)` -/
@[inline] def sum2 (um : UMode) (i j : Nat) : Outcome Nat :=
  (sq um i).bind fun a => (sq um j).bind fun b => uadd um a b

/-- `roots[0].pow(2) + roots[1].pow(2) + roots[2].pow(2)` -/
@[inline] def sum3 (um : UMode) (i j k : Nat) : Outcome Nat :=
  (sum2 um i j).bind fun ab => (sq um k).bind fun c => uadd um ab c

@[inline] def sum4 (um : UMode) (i j k l : Nat) : Outcome Nat :=
  (sum3 um i j k).bind fun abc => (sq um l).bind fun e => uadd um abc e

/-- `d - roots[0].pow(2)` -/
@[inline] def rem1 (um : UMode) (d i : Nat) : Outcome Nat :=
  (sq um i).bind fun a => usub um d a

@[inline] def rem2 (um : UMode) (d i j : Nat) : Outcome Nat :=
  (rem1 um d i).bind fun x => (sq um j).bind fun b => usub um x b

@[inline] def rem3 (um : UMode) (d i j k : Nat) : Outcome Nat :=
  (rem2 um d i j).bind fun x => (sq um k).bind fun c => usub um x c

/-- the `while n != 0 && n % 4 == 0 { n /= 4; }` of `is_sum_of_three_squares`; the first
argument is fuel (the loop runs at most `log₄ n ≤ n` times) -/
def strip4 : Nat → Nat → Nat
  | 0, n => n
  | fuel + 1, n => if n != 0 && n % 4 == 0 then strip4 fuel (n / 4) else n

/-- `is_sum_of_three_squares` (Legendre's criterion: not of the form `4^a (8b + 7)`); `/`, `%`
cannot overflow -/
def isSum3 (n : Nat) : Bool := strip4 n n % 8 != 7

/-- state of a loop when it is left: `(broke, roots...)` -/
abbrev KState := Bool × Nat × Nat
abbrev JState := Bool × Nat × Nat × Nat
abbrev IState := Bool × Nat × Nat × Nat × Nat

/-- innermost loop, counter from `n` down to 1; `r2 r3` = current `roots[2]`, `roots[3]` -/
def loopK (um : UMode) (d i j : Nat) : Nat → Nat → Nat → Outcome KState
  | 0, r2, r3 => .ok (false, r2, r3)
  | k + 1, _, _ =>
    (sum3 um i j (k + 1)).bind fun s3 =>
    if d == s3 then .ok (true, k + 1, 0) else
    (rem3 um d i j (k + 1)).bind fun rm =>
    (sum4 um i j (k + 1) (lslt rm)).bind fun s4 =>
    if d == s4 then .ok (true, k + 1, lslt rm) else loopK um d i j k (k + 1) (lslt rm)

def afterK (j : Nat) (next : Nat → Nat → Outcome JState) : KState → Outcome JState
  | (true, r2, r3) => .ok (true, j, r2, r3)
  | (false, r2, r3) => next r2 r3

/-- middle loop -/
def loopJ (um : UMode) (d i : Nat) : Nat → Nat → Nat → Nat → Outcome JState
  | 0, r1, r2, r3 => .ok (false, r1, r2, r3)
  | j + 1, _, _, r3 =>
    (sum2 um i (j + 1)).bind fun s2 =>
    if d == s2 then .ok (true, j + 1, 0, 0) else
    (rem2 um d i (j + 1)).bind fun rm =>
    (loopK um d i (j + 1) (lslt rm) (lslt rm) r3).bind
      (afterK (j + 1) fun r2 r3' => loopJ um d i j (j + 1) r2 r3')

def afterJ (i : Nat) (next : Nat → Nat → Nat → Outcome IState) : JState → Outcome IState
  | (true, r1, r2, r3) => .ok (true, i, r1, r2, r3)
  | (false, r1, r2, r3) => next r1 r2 r3

/-- outer loop; a first root whose remainder fails Legendre's criterion is skipped (`continue`:
`roots[1..3]` keep their contents) -/
def loopI (um : UMode) (d : Nat) : Nat → Nat → Nat → Nat → Nat → Outcome IState
  | 0, r0, r1, r2, r3 => .ok (false, r0, r1, r2, r3)
  | i + 1, _, r1, r2, r3 =>
    (sq um (i + 1)).bind fun s1 =>
    if d == s1 then .ok (true, i + 1, 0, 0, 0) else
    (rem1 um d (i + 1)).bind fun rm0 =>
    if !isSum3 rm0 then loopI um d i (i + 1) r1 r2 r3 else
    (rem1 um d (i + 1)).bind fun rm =>
    (loopJ um d (i + 1) (lslt rm) (lslt rm) r2 r3).bind
      (afterJ (i + 1) fun r1' r2' r3' => loopI um d i (i + 1) r1' r2' r3')

/-- `four_squares(delta)`: negative input is refused; the result is the final content of
`roots` whether or not a `break` was taken -/
def fourSquaresU (um : UMode) (delta : Int) : Outcome (Nat × Nat × Nat × Nat) :=
  if delta < 0 then .err else
  (loopI um delta.toNat (lslt delta.toNat) (lslt delta.toNat) 0 0 0).map fun st => st.2

/-- did the search leave through a `break`? (not observable on the code; used by theorems) -/
def brokeU (um : UMode) (delta : Int) : Outcome Bool :=
  if delta < 0 then .err else
  (loopI um delta.toNat (lslt delta.toNat) (lslt delta.toNat) 0 0 0).map fun st => st.1

/-- unbounded `usize` -/
def fourSquares (delta : Int) : Outcome (Nat × Nat × Nat × Nat) := fourSquaresU .ideal delta

end CL.FourSq
