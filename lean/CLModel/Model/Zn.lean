import CLModel.Model.Primary
import CLModel.Model.Sha256
/-!
# The executable group of the driver: integers modulo `n` (import-free)

`znOps n` is the `GroupOps` instance the driver `cldrv` runs (`Driver/PrimaryOps.lean`
re-exports it).  It is written with structural / well-founded recursion so that its laws are
theorems (`Proofs/Zn.lean`): `modPowNat` is square-and-multiply from the least significant
bit, `egcdGo` is the extended Euclidean algorithm on integers.
-/
namespace CL.Zn
open CL CL.Pri

/-- square-and-multiply loop: `result · base^ex` modulo `m` -/
def powLoop (m : Nat) (result base ex : Nat) : Nat :=
  if h : ex = 0 then result
  else powLoop m (if ex % 2 = 1 then result * base % m else result) (base * base % m) (ex / 2)
termination_by ex
decreasing_by omega

def modPowNat (b e m : Nat) : Nat :=
  if m = 1 then 0 else powLoop m 1 (b % m) e

/-- extended Euclid: remainders `r0, r1`, cofactors `t0, t1` (of the first argument) -/
def egcdGo (r0 r1 t0 t1 : Int) : Int × Int :=
  if h : r1 = 0 then (r0, t0)
  else egcdGo r1 (r0 % r1) t1 (t0 - (r0 / r1) * t1)
termination_by r1.natAbs
decreasing_by
  have h0 := Int.emod_nonneg r0 h
  rcases Int.lt_or_gt_of_ne h with hn | hp
  · have := Int.emod_lt_of_pos r0 (b := -r1) (by omega)
    rw [Int.emod_neg] at this
    omega
  · have := Int.emod_lt_of_pos r0 hp
    omega

/-- `(g, x)` with `a·x ≡ g (mod n)` -/
def egcd (a n : Int) : Int × Int := egcdGo (a % n) n 1 0

def modInv (a n : Int) : Outcome Int :=
  if n ≤ 1 then .err else
  let gx := egcd (a % n) n
  if gx.1 == 1 then .ok (gx.2 % n) else .err

/-- `to_bytes`: big-endian magnitude, zero is the empty string on both backends -/
def encInt (x : Int) : ByteArray := Sha.natToBytes x.natAbs

def znOps (n : Int) : GroupOps Int :=
  { mul := fun a b => (a * b) % n
    pow := fun b e =>
      if n == 0 then .err
      else if e < 0 then
        match modInv b n with
        | .ok bi => .ok (modPowNat bi.toNat e.natAbs n.natAbs)
        | .err => .err
        | .panic => .panic
      else .ok (modPowNat (b % n).toNat e.toNat n.natAbs)
    inv := fun a => modInv a n
    one := 1
    enc := encInt
    beq := fun a b => a == b }

end CL.Zn
