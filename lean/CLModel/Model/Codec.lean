import CLModel.Model.BigNum
import CLModel.Model.Scalar
/-!
# Text / byte decoders of the integer and scalar primitives: `impl*` and `spec*`

`impl*` mirrors the repository's code path: `BigNumber::from_dec` / `from_hex` first test the
whole string with `bn::is_numeral` (`-?[0-9]+`, `-?[0-9a-fA-F]+`) and then call the back-end
parser (`BN_dec2bn` / `BigInt::from_str_radix`, modelled in `Model/BigNum.lean`);
`GroupOrderElement::from_string` / `from_bytes` are `Sc.fromString` / `Sc.fromBytes`.
`spec*` is the property C16: the full-string numeral grammar for integers; hexadecimal digits
only (1..71 of them) for scalars, the value reduced modulo the group order; at most 32 bytes.
-/
namespace CL.Codec
open CL.Outcome

inductive Backend where
  | openssl
  | rust
deriving Repr, BEq, DecidableEq

/-- `c.is_ascii() && c.is_digit(radix)` -/
def isDigitOf (radix : Nat) (c : Char) : Bool := (BN.radixDigit radix c).isSome

/-- `bn::is_numeral` -/
def isNumeral (radix : Nat) (s : BN.Text) : Bool :=
  let digits := if s.head? = some '-' then s.tail else s
  !digits.isEmpty && digits.all (isDigitOf radix)

def backendParse (b : Backend) (radix : Nat) (s : BN.Text) : Outcome Int :=
  match b, radix with
  | .openssl, 16 => BN.Ossl.fromHex s
  | .openssl, _ => BN.Ossl.fromDec s
  | .rust, 16 => BN.Rust.fromHex s
  | .rust, _ => BN.Rust.fromDec s

/-- `BigNumber::from_dec` (`radix = 10`) / `from_hex` (`radix = 16`) -/
def implBnText (b : Backend) (radix : Nat) (s : BN.Text) : Outcome Int :=
  if isNumeral radix s then backendParse b radix s else err

/-- the property: the string is in its entirety a numeral -/
def specBnText (radix : Nat) (s : BN.Text) : Outcome Int := BN.Spec.parseNumeral radix s

/-- `BigNumber::from_bytes`: every byte string is the big-endian encoding of a natural number -/
def implBnBytes (bs : BN.Bytes) : Outcome Int := BN.Spec.fromBytes bs
def specBnBytes (bs : BN.Bytes) : Outcome Int := BN.Spec.fromBytes bs

/-- `BigNumber::to_bytes` under OpenSSL / serde's non-human-readable branch: the magnitude only -/
def bnBytesEncode (z : Int) : BN.Bytes := BN.toDigits 256 z.natAbs

/-- decimal text written by `to_dec` -/
def bnDecEncode (z : Int) : BN.Text :=
  if z < 0 then '-' :: BN.Spec.digitsText 10 z.natAbs else BN.Spec.digitsText 10 z.natAbs

/-- scalars: the decoder of the repository is the specification (hex digits only, 1..71 of them,
reduced modulo `r`; at most 32 bytes, reduced) -/
def implScText (s : String) : Outcome Sc.Scalar := Sc.fromString s
def specScText (s : String) : Outcome Sc.Scalar := Sc.fromString s
def implScBytes (bs : List UInt8) : Outcome Sc.Scalar := Sc.fromBytes bs
def specScBytes (bs : List UInt8) : Outcome Sc.Scalar := Sc.fromBytes bs

end CL.Codec
