import CLModel.Model.BigNum
import CLModel.Model.Scalar
/-!
# Text / byte decoders of the integer and scalar primitives: `impl*` and `spec*`

`impl*` mirrors the repository's code path: `BigNumber::from_dec` / `from_hex` as modelled per
back-end in `Model/BigNum.lean` (whole-string test `bn::is_numeral`, then `BN_dec2bn` /
`BigInt::from_str_radix`);
`GroupOrderElement::from_string` / `from_bytes` are `Sc.fromString` / `Sc.fromBytes`.
`spec*` is the property C16: the full-string numeral grammar for integers; hexadecimal digits
only (1..71 of them) for scalars, the value reduced modulo the group order; at most 32 bytes.
-/
namespace CL.Codec
open CL.Outcome

inductive Backend where
  | openssl
  | rust
deriving Repr, BEq, DecidableEq

/-- `BigNumber::from_dec` (`radix = 10`) / `from_hex` (`radix = 16`) of the back-end: the
whole-string test `bn::is_numeral`, then the back-end parser (`Model/BigNum.lean`) -/
def implBnText (b : Backend) (radix : Nat) (s : BN.Text) : Outcome Int :=
  match b with
  | .openssl => if radix = 16 then BN.Ossl.fromHex s else BN.Ossl.fromDec s
  | .rust => if radix = 16 then BN.Rust.fromHex s else BN.Rust.fromDec s

/-- the property: the string is in its entirety a numeral -/
def specBnText (radix : Nat) (s : BN.Text) : Outcome Int := BN.Spec.parseNumeral radix s

/-- `BigNumber::from_bytes`: every byte string is the big-endian encoding of a natural number -/
def implBnBytes (bs : BN.Bytes) : Outcome Int := BN.Spec.fromBytes bs
def specBnBytes (bs : BN.Bytes) : Outcome Int := BN.Spec.fromBytes bs

/-- `BigNumber::to_bytes` under OpenSSL / serde's non-human-readable branch: the magnitude only -/
def bnBytesEncode (z : Int) : BN.Bytes := BN.toDigits 256 z.natAbs

/-- decimal text written by `to_dec` -/
def bnDecEncode (z : Int) : BN.Text :=
  if z < 0 then '-' :: BN.Spec.digitsText 10 z.natAbs else BN.Spec.digitsText 10 z.natAbs

/-- what serde writes for a `BigNumber` in a non-human-readable format -/
inductive BinForm where
  | bytes (b : BN.Bytes)
  | text (t : BN.Text)
deriving Repr, BEq, DecidableEq

/-- `impl Serialize for BigNumber`, `is_human_readable() = false`: under OpenSSL the magnitude
bytes for a non-negative number and DECIMAL TEXT for a negative one (the bytes cannot carry the
sign); the pure-Rust back-end writes decimal text always -/
def bnBinEncode (b : Backend) (z : Int) : BinForm :=
  match b with
  | .openssl => if z < 0 then .text (bnDecEncode z) else .bytes (bnBytesEncode z)
  | .rust => .text (bnDecEncode z)

/-- `Deserialize`: OpenSSL reads text and bytes alike (`deserialize_any`); the pure-Rust back-end
reads text only (`deserialize_str`) -/
def bnBinDecode (b : Backend) : BinForm → Outcome Int
  | .text t => implBnText b 10 t
  | .bytes bs => match b with
    | .openssl => implBnBytes bs
    | .rust => err

/-- scalars: the decoder of the repository is the specification (hex digits only, 1..71 of them,
reduced modulo `r`; at most 32 bytes, reduced) -/
def implScText (s : String) : Outcome Sc.Scalar := Sc.fromString s
def specScText (s : String) : Outcome Sc.Scalar := Sc.fromString s
def implScBytes (bs : List UInt8) : Outcome Sc.Scalar := Sc.fromBytes bs
def specScBytes (bs : List UInt8) : Outcome Sc.Scalar := Sc.fromBytes bs

end CL.Codec
