import CLModel.Model.Basic
import CLModel.Gen.Constants
import CLModel.Gen.Predicate
/-!
# CL signatures: issuance, presentation, verification — RSA side (import-free)

Every function mirrors one Rust function of `/repo/src/{helpers,issuer,prover,verifier}.rs`
(name in the doc-comment).  The algebra goes through a `GroupOps` record:

* executable instance (driver): `Int` with arithmetic modulo the key's `n`;
* proof instance (`Proofs/Primary.lean`): any `AddCommGroup`, `pow g k = k • g`.

Maps (`HashMap`/`BTreeMap<String, _>`) are association lists; `HashSet` iteration order is
whatever order the caller supplies (the group is commutative, so the order is irrelevant for
the values; that irrelevance is a lemma, not an assumption).  Randomness is an explicit
argument of every prover/issuer function.  The Fiat–Shamir hash is a parameter
`H : List ByteArray → Int`; the driver instantiates the model's own SHA-256.
-/
namespace CL.Pri

structure GroupOps (G : Type) where
  /-- `mod_mul` -/
  mul : G → G → G
  /-- `mod_exp(base, exponent, n)`; a negative exponent inverts the base first -/
  pow : G → Int → Outcome G
  /-- `inverse(n)` -/
  inv : G → Outcome G
  one : G
  /-- `to_bytes()` of a (reduced) group element -/
  enc : G → ByteArray
  /-- equality test `==` on BigNumbers holding group elements -/
  beq : G → G → Bool

variable {G : Type}

/-! ## maps -/

def lookup {α : Type} (k : String) : List (String × α) → Option α
  | [] => none
  | (k', v) :: t => if k == k' then some v else lookup k t

/-- `map.get(k).ok_or_else(|| err)` -/
def getOrErr {α : Type} (k : String) (m : List (String × α)) : Outcome α :=
  match lookup k m with
  | some v => .ok v
  | none => .err

/-- `map[k]` (panics when absent) -/
def getOrPanic {α : Type} (k : String) (m : List (String × α)) : Outcome α :=
  match lookup k m with
  | some v => .ok v
  | none => .panic

def keys {α : Type} (m : List (String × α)) : List String := m.map (·.1)

/-! ## keys, credentials, requests, proofs -/

structure PubKey (G : Type) where
  s : G
  z : G
  rctxt : G
  r : List (String × G)

/-- `PrimaryCredentialSignature` -/
structure Signature (G : Type) where
  m2 : Int
  a : G
  e : Int
  v : Int

/-- `Predicate` (`value` is an i32) -/
structure Pred where
  attr : String
  ptype : Gen.PType
  value : Int
deriving BEq, Repr

structure SubProofRequest where
  revealed : List String
  predicates : List Pred

/-- `PrimaryEqualProof` -/
structure EqProof (G : Type) where
  revealed : List (String × Int)
  aPrime : G
  e : Int
  v : Int
  m : List (String × Int)
  m2 : Int

/-- `PrimaryPredicateInequalityProof` -/
structure NeProof (G : Type) where
  u : List (String × Int)
  r : List (String × Int)
  mj : Int
  alpha : Int
  t : List (String × G)
  pred : Pred

/-! ## predicate arithmetic through `Gen.Predicate` -/

/-- `Predicate::get_delta[_wide](attr_value)` -/
def getDelta (m : OvfMode) (p : Pred) (attrValue : Int) : Outcome Int :=
  (Gen.getDeltaArm p.ptype).eval m [attrValue, p.value]

/-- `Predicate::get_delta_prime()` (the integer that is turned into a BigNumber) -/
def getDeltaPrime (m : OvfMode) (p : Pred) : Outcome Int :=
  (Gen.getDeltaPrimeArm p.ptype).eval m [0, p.value]

/-- `Predicate::is_less()` -/
def isLess (p : Pred) : Outcome Bool :=
  match Gen.isLess p.ptype with
  | some b => .ok b
  | none => .err

/-- the mathematical meaning of a predicate -/
def Pred.holds (p : Pred) (v : Int) : Bool :=
  match p.ptype with
  | .GE => decide (v ≥ p.value)
  | .GT => decide (v > p.value)
  | .LE => decide (v ≤ p.value)
  | .LT => decide (v < p.value)

/-! ## shared helpers (helpers.rs) -/

/-- `acc · Π_{k ∈ ks} r[k]^{m[k]}`; both lookups are `ok_or_else(err)` -/
def mulPows (o : GroupOps G) (r : List (String × G)) (m : List (String × Int)) :
    List String → G → Outcome G
  | [], acc => .ok acc
  | k :: ks, acc =>
    (getOrErr k r).bind fun g =>
    (getOrErr k m).bind fun x =>
    (o.pow g x).bind fun p =>
      mulPows o r m ks (o.mul p acc)

/-- `calc_teq` -/
def calcTeq (o : GroupOps G) (pk : PubKey G) (aPrime : G) (e v : Int)
    (mTilde : List (String × Int)) (m2Tilde : Int) (unrevealed : List String) : Outcome G :=
  (o.pow aPrime e).bind fun t0 =>
  (mulPows o pk.r mTilde unrevealed t0).bind fun t1 =>
  (o.pow pk.s v).bind fun sv =>
  (o.pow pk.rctxt m2Tilde).bind fun rm =>
    .ok (o.mul rm (o.mul sv t1))

def iterKeys : List String := (List.range Gen.ITERATION).map toString

/-- first loop of `calc_tne`: `Z^{u_i} · S^{r_i}` for `i = 0..ITERATION` -/
def tneTaus (o : GroupOps G) (pk : PubKey G) (u r : List (String × Int)) :
    List String → Outcome (List G)
  | [] => .ok []
  | i :: is =>
    (getOrErr i u).bind fun cu =>
    (getOrErr i r).bind fun cr =>
    (o.pow pk.z cu).bind fun zu =>
    (o.pow pk.s cr).bind fun sr =>
    (tneTaus o pk u r is).map fun rest => o.mul zu sr :: rest

/-- second loop of `calc_tne`: `Π T_i^{u_i}` -/
def tneQ (o : GroupOps G) (t : List (String × G)) (u : List (String × Int)) :
    List String → G → Outcome G
  | [], q => .ok q
  | i :: is, q =>
    (getOrErr i t).bind fun ct =>
    (getOrErr i u).bind fun cu =>
    (o.pow ct cu).bind fun p =>
      tneQ o t u is (o.mul p q)

/-- `calc_tne`: `[τ_0..τ_3, τ_Δ, Q]` -/
def calcTne (o : GroupOps G) (pk : PubKey G) (u r : List (String × Int)) (mj alpha : Int)
    (t : List (String × G)) (isLess : Bool) : Outcome (List G) :=
  (tneTaus o pk u r iterKeys).bind fun taus =>
  (getOrErr "DELTA" r).bind fun delta =>
  let deltaPred := if isLess then -(Int.natAbs delta : Int) else delta
  (o.pow pk.z mj).bind fun zm =>
  (o.pow pk.s deltaPred).bind fun sd =>
  (tneQ o t u iterKeys o.one).bind fun q =>
  (o.pow pk.s alpha).bind fun sa =>
    .ok (taus ++ [o.mul zm sd, o.mul sa q])

/-! ## verifier (verifier.rs) -/

/-- attributes of the key that are not revealed: `(schema ∪ non_schema) \ revealed` -/
def unrevealedOf (schema nonSchema revealed : List String) : List String :=
  ((schema ++ nonSchema.filter (fun a => !schema.contains a))).filter fun a => !revealed.contains a

/-- `ProofVerifier::_verify_equality` after the range check on `ê` -/
def verifyEqualityCore (o : GroupOps G) (pk : PubKey G) (p : EqProof G) (c : Int)
    (unrevealed : List String) : Outcome G :=
  (calcTeq o pk p.aPrime p.e p.v p.m p.m2 unrevealed).bind fun t1 =>
  (o.pow p.aPrime ((2 : Int) ^ Gen.largeEStartValueExp)).bind fun r0 =>
  (mulPows o pk.r p.revealed (keys p.revealed) r0).bind fun rar =>
  (o.inv rar).bind fun rari =>            -- `z.mod_div(rar)` = z · rar⁻¹
  (o.inv (o.mul pk.z rari)).bind fun zri =>
  (o.pow zri c).bind fun t2 =>
    .ok (o.mul t1 t2)

/-- `ProofVerifier::_verify_equality`:
    `proof.e.is_negative() || proof.e.num_bits() > LARGE_ETILDE + 1` ⇒ ProofRejected -/
def verifyEquality (o : GroupOps G) (pk : PubKey G) (p : EqProof G) (c : Int)
    (unrevealed : List String) : Outcome G :=
  if p.e < 0 ∨ p.e ≥ (2 : Int) ^ (Gen.LARGE_ETILDE + 1) then .err
  else verifyEqualityCore o pk p c unrevealed

/-- the loop `tau_list[i] = (T_i^c)⁻¹ · tau_list[i]` of `_verify_ne_predicate` -/
def neAdjust (o : GroupOps G) (t : List (String × G)) (c : Int) :
    List String → List G → Outcome (List G)
  | [], taus => .ok taus
  | _ :: _, [] => .panic                       -- index out of bounds (cannot happen: same length)
  | i :: is, tau :: taus =>
    (getOrErr i t).bind fun ct =>
    (o.pow ct c).bind fun tc =>
    (o.inv tc).bind fun tci =>
    (neAdjust o t c is taus).map fun rest => o.mul tci tau :: rest

/-- `ProofVerifier::_verify_ne_predicate` -/
def verifyNePredicate (o : GroupOps G) (m : OvfMode) (pk : PubKey G) (p : NeProof G) (c : Int) :
    Outcome (List G) :=
  (isLess p.pred).bind fun less =>
  (calcTne o pk p.u p.r p.mj p.alpha p.t less).bind fun tl =>
  let n := Gen.ITERATION
  (neAdjust o p.t c iterKeys (tl.take n)).bind fun first =>
  (getOrErr "DELTA" p.t).bind fun delta =>
  (if less then o.inv delta else Outcome.ok delta).bind fun deltaPrime =>
  (getDeltaPrime m p.pred).bind fun dp =>
  (o.pow pk.z dp).bind fun zd =>
  (o.pow (o.mul zd deltaPrime) c).bind fun x =>
  (o.inv x).bind fun xi =>
  (o.pow delta c).bind fun dc =>
  (o.inv dc).bind fun dci =>
  match tl.drop n with
  | [tDelta, q] => .ok (first ++ [o.mul xi tDelta, o.mul dci q])
  | _ => .panic

/-- loop over the predicate proofs of one sub-proof -/
def verifyNeAll (o : GroupOps G) (m : OvfMode) (pk : PubKey G) (c : Int)
    (eqM : List (String × Int)) : List (NeProof G) → Outcome (List G)
  | [] => .ok []
  | p :: ps =>
    -- the predicate response must be the equality proof's response for the same attribute
    (getOrErr p.pred.attr eqM).bind fun mhat =>
    if mhat != p.mj then .err else
    (verifyNePredicate o m pk p c).bind fun tl =>
    (verifyNeAll o m pk c eqM ps).map fun rest => tl ++ rest

/-- `ProofVerifier::_verify_primary_proof`: `[T̂] ++ predicate τ̂ values` -/
def verifyPrimaryProof (o : GroupOps G) (m : OvfMode) (pk : PubKey G) (eq : EqProof G)
    (ne : List (NeProof G)) (c : Int) (unrevealed : List String) : Outcome (List G) :=
  (verifyEquality o pk eq c unrevealed).bind fun t =>
  -- a predicate can only be proven about a hidden attribute: for a revealed one no response
  -- takes part in the equation, an `eq_proof.m` entry under its name is a dummy (repaired 643a1c8)
  if ne.any (fun p => !unrevealed.contains p.pred.attr) then .err else
  (verifyNeAll o m pk c eq.m ne).map fun rest => t :: rest

/-! ### request / proof consistency -/

def sortStrings (l : List String) : List String :=
  l.foldr (fun x acc => ins x acc) []
where
  ins (x : String) : List String → List String
    | [] => [x]
    | y :: ys => if x < y then x :: y :: ys else if x == y then y :: ys else y :: ins x ys

/-- set equality of two lists of strings -/
def sameSet (a b : List String) : Bool := a.all (b.contains ·) && b.all (a.contains ·)

def predSameSet (a b : List Pred) : Bool := a.all (b.contains ·) && b.all (a.contains ·)

/-- one transcript entry: RSA-side values are bytes; pairing-side values are named by their
    discrete logarithm (exponent form) and materialised outside the model -/
inductive Item where
  | bytes (b : ByteArray)
  | g1 (e : Nat)
  | g2 (e : Nat)
  | gt (e : Nat)

/-- what the verifier knows about one credential (`VerifiableCredential`) and one sub-proof;
    the non-revocation side is abstract: `nr` says whether the proof carries that part,
    `rkey`/`reg`/`regKey` whether the verifier holds the respective object, and `nrTaus`
    is `_verify_non_revocation_proof(...).as_slice()` for this pair. -/
structure SubProof (G : Type) where
  eq : EqProof G
  ne : List (NeProof G)
  hasNonRevoc : Bool
  /-- the eight τ̂ values of the non-revocation part (meaningful only if `hasNonRevoc`) -/
  nrTaus : Outcome (List Item)

structure VerCred (G : Type) where
  /-- arithmetic modulo this credential's `n` -/
  o : GroupOps G
  pk : PubKey G
  schema : List String
  nonSchema : List String
  req : SubProofRequest
  hasRKey : Bool
  hasRegistry : Bool
  hasRegKey : Bool

structure Proof (G : Type) where
  proofs : List (SubProof G)
  cHash : Int
  cList : List ByteArray

/-- `ProofVerifier::_check_verify_params_consistency` (per pair, after the length check) -/
def pairConsistent (sp : SubProof G) (vc : VerCred G) : Bool :=
  sameSet (keys sp.eq.revealed) vc.req.revealed &&
  predSameSet (sp.ne.map (·.pred)) vc.req.predicates

def allPairsConsistent : List (SubProof G) → List (VerCred G) → Bool
  | [], [] => true
  | sp :: sps, vc :: vcs => pairConsistent sp vc && allPairsConsistent sps vcs
  | _, _ => false

/-- common-attribute pass for one sub-proof: every declared common attribute must be a key of
    `eq_proof.m` and equal the first value seen. `seen` maps attribute ↦ first `m̂`. -/
def commonPass (common : List String) (eq : EqProof G) :
    List (String × Int) → List String → Outcome (List (String × Int))
  | seen, [] => .ok seen
  | seen, a :: as =>
    match lookup a eq.m with
    | none => .err                                            -- ProofRejected: not found
    | some mhat =>
      match lookup a seen with
      | some v => if v == mhat then commonPass common eq seen as else .err
      | none => commonPass common eq ((a, mhat) :: seen) as

/-- the per-sub-proof loop of `verify`: returns the τ̂ transcript items in order -/
def verifyLoop (m : OvfMode) (common : List String) (c : Int) :
    List (SubProof G) → List (VerCred G) → List (String × Int) → Outcome (List Item)
  | [], _, _ => .ok []
  | _ :: _, [], _ => .panic                                   -- credentials[idx] out of bounds
  | sp :: sps, vc :: vcs, seen =>
    let nrActive := sp.hasNonRevoc && vc.hasRKey && vc.hasRegistry && vc.hasRegKey
    -- a verifier that supplied a registry rejects a proof (or key set) that cannot be checked
    if !nrActive && vc.hasRegistry then .err else
    (if nrActive then sp.nrTaus else Outcome.ok []).bind fun nrItems =>
    let unrevealed := unrevealedOf vc.schema vc.nonSchema vc.req.revealed
    -- a declared common attribute must be one of the hidden exponents of this sub-proof: an
    -- entry of `eq_proof.m` for any other name takes no part in the equation (repaired aad0576)
    if !(common.all fun a => unrevealed.contains a) then .err else
    (commonPass common sp.eq seen common).bind fun seen' =>
    (verifyPrimaryProof vc.o m vc.pk sp.eq sp.ne c unrevealed).bind fun ts =>
    (verifyLoop m common c sps vcs seen').map fun rest =>
      nrItems ++ ts.map (fun g => Item.bytes (vc.o.enc g)) ++ rest

/-- `ProofVerifier::verify` up to the final hash: the list that is hashed,
    `τ̂-list ‖ proof.c_list ‖ nonce` -/
def verifyTranscript (m : OvfMode) (common : List String)
    (creds : List (VerCred G)) (p : Proof G) (nonce : ByteArray) :
    Outcome (List Item) :=
  if p.proofs.length != creds.length then .err           -- ProofRejected: invalid proof length
  else if !allPairsConsistent p.proofs creds then .err
  else
    (verifyLoop m common p.cHash p.proofs creds []).map fun taus =>
      taus ++ p.cList.map Item.bytes ++ [Item.bytes nonce]

/-- all items are plain bytes (no pairing-side part): the hash can be computed in the model -/
def allBytes : List Item → Option (List ByteArray)
  | [] => some []
  | .bytes b :: rest => (allBytes rest).map (b :: ·)
  | _ :: _ => none

/-- `ProofVerifier::verify` for proofs without pairing-side parts -/
def verify (H : List ByteArray → Int) (m : OvfMode) (common : List String)
    (creds : List (VerCred G)) (p : Proof G) (nonce : ByteArray) :
    Outcome Bool :=
  (verifyTranscript m common creds p nonce).bind fun items =>
    match allBytes items with
    | some bs => .ok (H bs == p.cHash)
    | none => .err

/-! ## prover (prover.rs) -/

/-- credential values: attribute ↦ integer (known and hidden alike, as the prover sees them) -/
abbrev Values := List (String × Int)

/-- `get_mtilde`: fill the keys missing from the (common-attribute) seed with fresh draws -/
def getMtilde (fresh : String → Int) : List String → List (String × Int) → List (String × Int)
  | [], mt => mt
  | a :: as, mt =>
    match lookup a mt with
    | some _ => getMtilde fresh as mt
    | none => getMtilde fresh as ((a, fresh a) :: mt)

structure EqTape where
  r : Int
  eTilde : Int
  vTilde : Int
  mTilde : String → Int

/-- `PrimaryEqualInitProof` -/
structure EqInit (G : Type) where
  aPrime : G
  t : G
  eTilde : Int
  ePrime : Int
  vTilde : Int
  vPrime : Int
  mTilde : List (String × Int)
  m2Tilde : Int
  m2 : Int

/-- `ProofBuilder::_init_eq_proof` -/
def initEqProof (o : GroupOps G) (common : List (String × Int)) (pk : PubKey G) (c1 : Signature G)
    (unrevealed : List String) (m2Tilde : Int) (tp : EqTape) : Outcome (EqInit G) :=
  let mTilde := getMtilde tp.mTilde unrevealed common
  (o.pow pk.s tp.r).bind fun sr =>
  let aPrime := o.mul sr c1.a
  let ePrime := c1.e - (2 : Int) ^ Gen.largeEStartValueExp
  let vPrime := c1.v - c1.e * tp.r
  (calcTeq o pk aPrime tp.eTilde tp.vTilde mTilde m2Tilde unrevealed).map fun t =>
    ⟨aPrime, t, tp.eTilde, ePrime, tp.vTilde, vPrime, mTilde, m2Tilde, c1.m2⟩

/-- responses `m̂_k = c·m_k + m̃_k` for the unrevealed attributes -/
def mHats (c : Int) (mTilde : List (String × Int)) (vals : Values) :
    List String → Outcome (List (String × Int))
  | [] => .ok []
  | k :: ks =>
    (getOrErr k mTilde).bind fun mt =>
    (getOrErr k vals).bind fun v =>
    (mHats c mTilde vals ks).map fun rest => (k, c * v + mt) :: rest

def revealedWithValues (vals : Values) : List String → Outcome (List (String × Int))
  | [] => .ok []
  | k :: ks =>
    (getOrErr k vals).bind fun v =>
    (revealedWithValues vals ks).map fun rest => (k, v) :: rest

/-- `ProofBuilder::_finalize_eq_proof` -/
def finalizeEqProof (init : EqInit G) (c : Int) (unrevealed revealed : List String)
    (vals : Values) : Outcome (EqProof G) :=
  (mHats c init.mTilde vals unrevealed).bind fun mh =>
  (revealedWithValues vals revealed).map fun rv =>
    ⟨rv, init.aPrime, c * init.ePrime + init.eTilde, c * init.vPrime + init.vTilde, mh,
      c * init.m2 + init.m2Tilde⟩

structure NeTape where
  r : List (String × Int)        -- "0".."3", "DELTA"
  uTilde : List (String × Int)   -- "0".."3"
  rTilde : List (String × Int)   -- "0".."3", "DELTA"
  alphaTilde : Int

/-- `PrimaryPredicateInequalityInitProof` -/
structure NeInit (G : Type) where
  cList : List G
  tauList : List G
  u : List (String × Int)
  uTilde : List (String × Int)
  r : List (String × Int)
  rTilde : List (String × Int)
  alphaTilde : Int
  pred : Pred
  t : List (String × G)

/-- commitments `T_i = Z^{u_i} · S^{r_i}` -/
def neCommit (o : GroupOps G) (pk : PubKey G) (u r : List (String × Int)) :
    List String → Outcome (List (String × G))
  | [] => .ok []
  | i :: is =>
    (getOrErr i u).bind fun cu =>
    (getOrErr i r).bind fun cr =>
    (o.pow pk.z cu).bind fun zu =>
    (o.pow pk.s cr).bind fun sr =>
    (neCommit o pk u r is).map fun rest => (i, o.mul zu sr) :: rest

/-- `ProofBuilder::_init_ne_proof`; `fourSq` is `four_squares`, `attrTy` the integer type the
    attribute value is parsed as -/
def initNeProof (o : GroupOps G) (m : OvfMode) (fourSq : Int → Outcome (List Int))
    (pk : PubKey G) (mTilde : List (String × Int)) (vals : Values) (p : Pred) (tp : NeTape) :
    Outcome (NeInit G) :=
  (getOrErr p.attr vals).bind fun attrValue =>
  -- `.to_dec()?.parse::<i32>()`
  (if IntTy.i32.inRange attrValue then Outcome.ok attrValue else Outcome.err).bind fun av =>
  (getDelta m p av).bind fun delta =>
  if delta < 0 then .err else
  (fourSq delta).bind fun roots =>
  let u := iterKeys.zip roots
  (neCommit o pk u tp.r iterKeys).bind fun ts =>
  (getOrErr "DELTA" tp.r).bind fun rDelta =>
  (o.pow pk.z delta).bind fun zd =>
  (o.pow pk.s rDelta).bind fun sr =>
  let tDelta := o.mul zd sr
  let t := ts ++ [("DELTA", tDelta)]
  (getOrErr p.attr mTilde).bind fun mj =>
  (isLess p).bind fun less =>
  (calcTne o pk tp.uTilde tp.rTilde mj tp.alphaTilde t less).map fun tau =>
    ⟨ts.map (·.2) ++ [tDelta], tau, u, tp.uTilde, tp.r, tp.rTilde, tp.alphaTilde, p, t⟩

/-- responses of `_finalize_ne_proof` for `i = 0..3`: `(û_i, r̂_i)` and `Σ u_i·r_i` -/
def neResponses (c : Int) (init : NeInit G) :
    List String → Outcome (List (String × Int) × List (String × Int) × Int)
  | [] => .ok ([], [], 0)
  | i :: is =>
    (getOrPanic i init.uTilde).bind fun ut =>
    (getOrPanic i init.u).bind fun cu =>
    (getOrPanic i init.rTilde).bind fun rt =>
    (getOrPanic i init.r).bind fun cr =>
    (neResponses c init is).map fun (us, rs, prod) =>
      ((i, c * cu + ut) :: us, (i, c * cr + rt) :: rs, cu * cr + prod)

/-- `ProofBuilder::_finalize_ne_proof` -/
def finalizeNeProof (c : Int) (init : NeInit G) (eq : EqProof G) : Outcome (NeProof G) :=
  (neResponses c init iterKeys).bind fun (us, rs, urproduct) =>
  (getOrPanic "DELTA" init.rTilde).bind fun rtd =>
  (getOrPanic "DELTA" init.r).bind fun rd =>
  (getOrPanic init.pred.attr eq.m).map fun mj =>
    ⟨us, rs ++ [("DELTA", c * rd + rtd)], mj, (rd - urproduct) * c + init.alphaTilde, init.t,
      init.pred⟩

/-! ## issuance (issuer.rs / prover.rs) -/

/-- `Issuer::_sign_primary_credential`: `Q = Z / (S^{v''} · U · Rctxt^{m2} · Π_known R^m)`,
    `A = Q^{e⁻¹ mod p'q'}`; `einv` is that inverse (computed by the caller from the private
    key); `u = none` models `u == 0` (no blinded part). -/
def signPrimary (o : GroupOps G) (pk : PubKey G) (u : Option G) (m2 : Int) (known : Values)
    (vpp einv : Int) : Outcome (G × G) :=
  (o.pow pk.s vpp).bind fun sv =>
  let rx0 := match u with
    | some u => o.mul sv u
    | none => sv
  (o.pow pk.rctxt m2).bind fun rc =>
  (mulPows o pk.r known (keys known) (o.mul rx0 rc)).bind fun rx =>
  (o.inv rx).bind fun rxi =>
  let q := o.mul pk.z rxi
  (o.pow q einv).map fun a => (a, q)

/-- the blinded part `U = S^{v'} · Π_hidden R^m` of `_generate_blinded_primary_credential_secrets_factors` -/
def blindU (o : GroupOps G) (pk : PubKey G) (hidden : Values) (vPrime : Int) : Outcome G :=
  (o.pow pk.s vPrime).bind fun sv =>
    mulPows o pk.r hidden (keys hidden) sv

/-- the algebraic core of `Prover::_check_signature_correctness_proof`:
    `Q' = Z / (S^v · Rctxt^{m2} · Π R^m)` and `Q' == A^e` -/
def checkSignature (o : GroupOps G) (pk : PubKey G) (sig : Signature G) (vals : Values) :
    Outcome Bool :=
  (o.pow pk.s sig.v).bind fun sv =>
  (o.pow pk.rctxt sig.m2).bind fun rc =>
  (mulPows o pk.r vals (keys vals) (o.mul sv rc)).bind fun rx =>
  (o.inv rx).bind fun rxi =>
  let q := o.mul pk.z rxi
  (o.pow sig.a sig.e).map fun ae => o.beq q ae

end CL.Pri
