import CLModel.Model.Primary
import CLModel.Gen.Constants
import CLModel.Gen.DrawSites
/-!
# Blinding values: prescribed draw sizes per operation, prover-side request check (import-free)

`expectedDraws*` list the bit lengths the library must request from `bn_rand` for one
operation, written with the regenerated constants; the harness records the real requests
through the record-only tape hook and the comparator matches the multisets.
-/
namespace CL.Blind
open CL.Pri

/-- `Prover::new_link_secret` -/
def drawsLinkSecret : List Nat := [Gen.LARGE_LINK_SECRET]

/-- `new_nonce` -/
def drawsNonce : List Nat := [Gen.LARGE_NONCE]

/-- `Prover::blind_credential_secrets`: `v'`, `ṽ'`, one `m̃` per hidden or committed attribute,
    one `r̃` per committed attribute -/
def drawsBlind (nHidden nCommit : Nat) : List Nat :=
  [Gen.LARGE_VPRIME, Gen.LARGE_VPRIME_TILDE] ++ List.replicate (nHidden + nCommit) Gen.LARGE_MTILDE
    ++ List.replicate nCommit Gen.LARGE_MTILDE

/-- `Issuer::sign_credential`: `v''` (plus `e` by `generate_prime_in_range` and one
    `bn_rand_range` for the correctness proof, which are not `bn_rand(size)` draws) -/
def drawsSign : List Nat := [Gen.LARGE_VPRIME_PRIME]

/-- one predicate in `_init_ne_proof`: `r_0..r_3, r_Δ`, `ũ_0..ũ_3`, `r̃_0..r̃_3, r̃_Δ`, `α̃` -/
def drawsPredicate : List Nat :=
  List.replicate (Gen.ITERATION + 1) Gen.LARGE_VPRIME ++ List.replicate Gen.ITERATION Gen.LARGE_UTILDE
    ++ List.replicate (Gen.ITERATION + 1) Gen.LARGE_RTILDE ++ [Gen.LARGE_ALPHATILDE]

/-- `ProofBuilder::add_sub_proof_request`: `m̃₂`, then `r`, `ẽ`, `ṽ`, one `m̃` per unrevealed
    attribute that is not seeded by a common attribute, then the predicates -/
def drawsSubProof (nFreshUnrevealed nPred : Nat) : List Nat :=
  [Gen.LARGE_M2TILDE, Gen.LARGE_VPRIME, Gen.LARGE_ETILDE, Gen.LARGE_VTILDE]
    ++ List.replicate nFreshUnrevealed Gen.LARGE_MVECT
    ++ (List.replicate nPred drawsPredicate).flatten

/-- `ProofBuilder::add_common_attribute` -/
def drawsCommon : List Nat := [Gen.LARGE_MVECT]

/-- number of `random_mod_order` draws of `_init_non_revocation_proof`
    (`_gen_c_list_params`: 7, `_gen_tau_list_params`: 14) -/
def scalarDrawsNonRevoc : Nat := 21

/-- `ProofBuilder::_check_add_sub_proof_request_params_consistency` (prover side) -/
def checkRequestProver (schema nonSchema valKeys : List String) (req : SubProofRequest) :
    Outcome Unit :=
  let all := schema ++ nonSchema
  if !sameSet all valKeys then .err                        -- credential does not match the schema
  else if req.revealed.any (fun a => !schema.contains a) then .err
  else if req.predicates.any (fun p => !schema.contains p.attr) then .err
  else if req.predicates.any (fun p => req.revealed.contains p.attr) then .err
  else .ok ()

end CL.Blind
