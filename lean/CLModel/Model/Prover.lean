import CLModel.Model.Primary
/-!
# Model prover for one credential (import-free)

`ProofBuilder::add_sub_proof_request` (primary part) followed by `ProofBuilder::finalize` for a
single credential without a non-revocation part: the orchestration the driver's `prove` /
`forge` operations run, as a pure function, so that completeness of the whole presentation can
be stated about it.
-/
namespace CL.Pri

variable {G : Type}

/-- `_init_ne_proof` for every predicate of the request, in order -/
def initPreds (o : GroupOps G) (m : OvfMode) (fourSq : Int → Outcome (List Int)) (pk : PubKey G)
    (mTilde : List (String × Int)) (vals : Values) : List (Pred × NeTape) → Outcome (List (NeInit G))
  | [] => .ok []
  | (p, t) :: rest =>
    (initNeProof o m fourSq pk mTilde vals p t).bind fun ni =>
    (initPreds o m fourSq pk mTilde vals rest).map fun nis => ni :: nis

/-- `_finalize_ne_proof` for every predicate -/
def finalizePreds (c : Int) (eq : EqProof G) : List (NeInit G) → Outcome (List (NeProof G))
  | [] => .ok []
  | ni :: rest =>
    (finalizeNeProof c ni eq).bind fun ne =>
    (finalizePreds c eq rest).map fun nes => ne :: nes

/-- the prover's transcript values: `T` of the equality part, then the τ lists of the predicates -/
def proverTaus (eqInit : EqInit G) (nis : List (NeInit G)) : List G :=
  eqInit.t :: nis.flatMap (·.tauList)

/-- the prover's commitments: `A'`, then the `T_i, T_Δ` of the predicates -/
def proverCList (eqInit : EqInit G) (nis : List (NeInit G)) : List G :=
  eqInit.aPrime :: nis.flatMap (·.cList)

/-- one-credential presentation: first messages, Fiat–Shamir challenge, responses -/
def proveSingle (o : GroupOps G) (H : List ByteArray → Int) (m : OvfMode)
    (fourSq : Int → Outcome (List Int)) (common : List (String × Int)) (pk : PubKey G)
    (sig : Signature G) (unrevealed revealed : List String) (preds : List (Pred × NeTape))
    (vals : Values) (m2Tilde : Int) (tp : EqTape) (nonce : ByteArray) : Outcome (Proof G) :=
  (initEqProof o common pk sig unrevealed m2Tilde tp).bind fun eqInit =>
  (initPreds o m fourSq pk eqInit.mTilde vals preds).bind fun nis =>
  let taus := proverTaus eqInit nis
  let cl := proverCList eqInit nis
  let c := H (taus.map o.enc ++ cl.map o.enc ++ [nonce])
  (finalizeEqProof eqInit c unrevealed revealed vals).bind fun eq =>
  (finalizePreds c eq nis).map fun nes =>
    { proofs := [{ eq := eq, ne := nes, hasNonRevoc := false, nrTaus := .ok [] }],
      cHash := c, cList := cl.map o.enc }

/-- `proveSingle` for a credential that also carries a non-revocation part: the pairing side
    contributes its (already encoded) tau-list and c-list IN FRONT of the primary ones, as
    `ProofBuilder::add_sub_proof_request` pushes them, and `m2Tilde` is the mask both parts share -/
def proveSingleWith (o : GroupOps G) (H : List ByteArray → Int) (m : OvfMode)
    (fourSq : Int → Outcome (List Int)) (common : List (String × Int)) (pk : PubKey G)
    (sig : Signature G) (unrevealed revealed : List String) (preds : List (Pred × NeTape))
    (vals : Values) (m2Tilde : Int) (tp : EqTape) (nonce : ByteArray)
    (nrTaus nrCs : List ByteArray) : Outcome (Proof G) :=
  (initEqProof o common pk sig unrevealed m2Tilde tp).bind fun eqInit =>
  (initPreds o m fourSq pk eqInit.mTilde vals preds).bind fun nis =>
  let taus := proverTaus eqInit nis
  let cl := proverCList eqInit nis
  let c := H (nrTaus ++ taus.map o.enc ++ (nrCs ++ cl.map o.enc) ++ [nonce])
  (finalizeEqProof eqInit c unrevealed revealed vals).bind fun eq =>
  (finalizePreds c eq nis).map fun nes =>
    { proofs := [{ eq := eq, ne := nes, hasNonRevoc := !nrTaus.isEmpty, nrTaus := .ok [] }],
      cHash := c, cList := nrCs ++ cl.map o.enc }

/-! ## several credentials, one challenge -/

/-- what the prover holds for one sub-proof request (`ProofBuilder::add_sub_proof_request`) -/
structure CredIn (G : Type) where
  o : GroupOps G
  pk : PubKey G
  sig : Signature G
  unrevealed : List String
  revealed : List String
  preds : List (Pred × NeTape)
  vals : Values
  m2Tilde : Int
  tp : EqTape

/-- first messages of every sub-proof, in order (the common-attribute seeds are shared) -/
def initAll (m : OvfMode) (fourSq : Int → Outcome (List Int)) (common : List (String × Int)) :
    List (CredIn G) → Outcome (List (EqInit G × List (NeInit G)))
  | [] => .ok []
  | ci :: rest =>
    (initEqProof ci.o common ci.pk ci.sig ci.unrevealed ci.m2Tilde ci.tp).bind fun e =>
    (initPreds ci.o m fourSq ci.pk e.mTilde ci.vals ci.preds).bind fun ns =>
    (initAll m fourSq common rest).map fun r => (e, ns) :: r

/-- the τ values of all sub-proofs as hashed: per sub-proof, in its own encoding -/
def tauBytes : List (CredIn G) → List (EqInit G × List (NeInit G)) → List ByteArray
  | ci :: cs, (e, ns) :: is => (proverTaus e ns).map ci.o.enc ++ tauBytes cs is
  | _, _ => []

/-- the commitments of all sub-proofs (`c_list`) -/
def cBytes : List (CredIn G) → List (EqInit G × List (NeInit G)) → List ByteArray
  | ci :: cs, (e, ns) :: is => (proverCList e ns).map ci.o.enc ++ cBytes cs is
  | _, _ => []

/-- responses of every sub-proof for the shared challenge -/
def finalizeAll (c : Int) : List (CredIn G) → List (EqInit G × List (NeInit G)) →
    Outcome (List (SubProof G))
  | [], [] => .ok []
  | ci :: cs, (e, ns) :: is =>
    (finalizeEqProof e c ci.unrevealed ci.revealed ci.vals).bind fun eq =>
    (finalizePreds c eq ns).bind fun nes =>
    (finalizeAll c cs is).map fun r =>
      { eq := eq, ne := nes, hasNonRevoc := false, nrTaus := .ok [] } :: r
  | _, _ => .panic

/-- a presentation over several credentials (no non-revocation parts): all first messages, ONE
    Fiat–Shamir challenge over all τ values, all commitments and the nonce, all responses -/
def proveMulti (H : List ByteArray → Int) (m : OvfMode) (fourSq : Int → Outcome (List Int))
    (common : List (String × Int)) (creds : List (CredIn G)) (nonce : ByteArray) :
    Outcome (Proof G) :=
  (initAll m fourSq common creds).bind fun inits =>
  let c := H (tauBytes creds inits ++ cBytes creds inits ++ [nonce])
  (finalizeAll c creds inits).map fun sps =>
    { proofs := sps, cHash := c, cList := cBytes creds inits }

end CL.Pri
