import CLModel.Model.Primary
/-!
# Model prover for one credential (import-free)

`ProofBuilder::add_sub_proof_request` (primary part) followed by `ProofBuilder::finalize` for a
single credential without a non-revocation part: the orchestration the driver's `prove` /
`forge` operations run, as a pure function, so that completeness of the whole presentation can
be stated about it.
-/
namespace CL.Pri

variable {G : Type}

/-- `_init_ne_proof` for every predicate of the request, in order -/
def initPreds (o : GroupOps G) (m : OvfMode) (fourSq : Int → Outcome (List Int)) (pk : PubKey G)
    (mTilde : List (String × Int)) (vals : Values) : List (Pred × NeTape) → Outcome (List (NeInit G))
  | [] => .ok []
  | (p, t) :: rest =>
    (initNeProof o m fourSq pk mTilde vals p t).bind fun ni =>
    (initPreds o m fourSq pk mTilde vals rest).map fun nis => ni :: nis

/-- `_finalize_ne_proof` for every predicate -/
def finalizePreds (c : Int) (eq : EqProof G) : List (NeInit G) → Outcome (List (NeProof G))
  | [] => .ok []
  | ni :: rest =>
    (finalizeNeProof c ni eq).bind fun ne =>
    (finalizePreds c eq rest).map fun nes => ne :: nes

/-- the prover's transcript values: `T` of the equality part, then the τ lists of the predicates -/
def proverTaus (eqInit : EqInit G) (nis : List (NeInit G)) : List G :=
  eqInit.t :: nis.flatMap (·.tauList)

/-- the prover's commitments: `A'`, then the `T_i, T_Δ` of the predicates -/
def proverCList (eqInit : EqInit G) (nis : List (NeInit G)) : List G :=
  eqInit.aPrime :: nis.flatMap (·.cList)

/-- one-credential presentation: first messages, Fiat–Shamir challenge, responses -/
def proveSingle (o : GroupOps G) (H : List ByteArray → Int) (m : OvfMode)
    (fourSq : Int → Outcome (List Int)) (common : List (String × Int)) (pk : PubKey G)
    (sig : Signature G) (unrevealed revealed : List String) (preds : List (Pred × NeTape))
    (vals : Values) (m2Tilde : Int) (tp : EqTape) (nonce : ByteArray) : Outcome (Proof G) :=
  (initEqProof o common pk sig unrevealed m2Tilde tp).bind fun eqInit =>
  (initPreds o m fourSq pk eqInit.mTilde vals preds).bind fun nis =>
  let taus := proverTaus eqInit nis
  let cl := proverCList eqInit nis
  let c := H (taus.map o.enc ++ cl.map o.enc ++ [nonce])
  (finalizeEqProof eqInit c unrevealed revealed vals).bind fun eq =>
  (finalizePreds c eq nis).map fun nes =>
    { proofs := [{ eq := eq, ne := nes, hasNonRevoc := false, nrTaus := .ok [] }],
      cHash := c, cList := cl.map o.enc }

end CL.Pri
