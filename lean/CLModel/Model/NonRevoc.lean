import CLModel.Model.Registry
import CLModel.Model.Primary
import CLModel.Gen.Tables
/-!
# Non-revocation proof — pairing side in exponent form (import-free)

Elements of the three groups are represented by their discrete logarithms with respect to
the generators `g1`, `g2`, `e(g1,g2)`: a G1 element `g1^a` is `a : F`, the pairing is
`e(a, b) = a·b`.  Equalities proved here transfer to the real groups; the driver computes in
`F = ℤ/r` and the harness materialises exponents with the `amcl` crate.
Mirrors `helpers::create_tau_list_values`, `create_tau_list_expected_values`,
`ProofVerifier::_verify_non_revocation_proof`, `ProofBuilder::_gen_c_list_params`,
`_create_c_list_values`, `_init_non_revocation_proof`, `_finalize_non_revocation_proof`.
-/
namespace CL.NR
open CL

variable {F : Type}

/-- `CredentialRevocationPublicKey` -/
structure RevKey (F : Type) where
  h : F
  h0 : F
  h1 : F
  h2 : F
  htilde : F
  g : F
  gDash : F
  hCap : F
  u : F
  pk : F
  y : F

/-- `NonRevocProofXList` -/
structure XList (F : Type) where
  rho : F
  r : F
  rPrime : F
  rPrime2 : F
  rPrime3 : F
  o : F
  oPrime : F
  m : F
  mPrime : F
  t : F
  tPrime : F
  m2 : Option F
  s : F
  c : F

/-- `NonRevocProofCList`: `e d a g ∈ G1`, `w s u ∈ G2` -/
structure CList (F : Type) where
  e : F
  d : F
  a : F
  g : F
  w : F
  s : F
  u : F

/-- `NonRevocProofTauList`: `t1 t2 t5 t6 ∈ G1`, `t3 t4 t7 t8 ∈ GT` -/
structure TauList (F : Type) where
  t1 : F
  t2 : F
  t3 : F
  t4 : F
  t5 : F
  t6 : F
  t7 : F
  t8 : F

/-- `NonRevocationCredentialSignature` (the holder's view, after processing) and witness -/
structure Cred (F : Type) where
  sigma : F
  c : F
  vr2 : F
  sigmaI : F
  uI : F
  gI : F
  m2 : F
  omega : F

def neg (o : RingOps F) (x : F) : F := o.sub o.zero x

/-- `create_tau_list_values(r_pub_key, rev_reg, params, proof_c, m2)` -/
def tauValues (o : RingOps F) (k : RevKey F) (acc : F) (p : XList F) (cl : CList F) (m2 : F) :
    TauList F :=
  { t1 := o.add (o.mul k.h p.rho) (o.mul k.htilde p.o)
    t2 := o.sub (o.sub (o.mul cl.e p.c) (o.mul k.h p.m)) (o.mul k.htilde p.t)
    t3 := o.add
      (o.mul (o.sub (o.sub (o.add (o.mul cl.a p.c) (o.mul k.htilde (o.sub p.r p.m)))
                (o.mul k.h1 m2)) (o.mul k.h2 p.s)) k.hCap)
      (o.mul (neg o (o.mul k.htilde p.rho)) k.y)
    t4 := o.add (o.mul (o.mul k.htilde p.r) acc) (o.mul (neg o (o.mul k.g p.rPrime)) k.hCap)
    t5 := o.add (o.mul k.g p.r) (o.mul k.htilde p.oPrime)
    t6 := o.sub (o.sub (o.mul cl.d p.rPrime2) (o.mul k.g p.mPrime)) (o.mul k.htilde p.tPrime)
    t7 := o.add
      (o.mul (o.sub (o.mul (o.add k.pk cl.g) p.rPrime2) (o.mul k.htilde p.mPrime)) k.hCap)
      (o.mul (o.mul k.htilde p.r) cl.s)
    t8 := o.add (o.mul (o.mul k.htilde p.r) k.u) (o.mul (neg o (o.mul k.g p.rPrime3)) k.hCap) }

/-- `create_tau_list_expected_values(r_pub_key, rev_reg, rev_acc_pub_key, proof_c)`;
    `z` is the exponent of the registry key `z` -/
def tauExpected (o : RingOps F) (k : RevKey F) (acc z : F) (cl : CList F) : TauList F :=
  { t1 := cl.e
    t2 := o.zero
    t3 := o.add (o.mul (o.add k.h0 cl.g) k.hCap) (o.mul (neg o cl.a) k.y)
    t4 := o.sub (o.add (o.mul cl.g acc) (o.mul (neg o k.g) cl.w)) z
    t5 := cl.d
    t6 := o.zero
    t7 := o.add (o.mul (o.add k.pk cl.g) cl.s) (o.mul (neg o k.g) k.gDash)
    t8 := o.add (o.mul cl.g k.u) (o.mul (neg o k.g) cl.u) }

/-- `NonRevocProof` -/
structure Proof (F : Type) where
  x : XList F
  c : CList F

/-- `ProofVerifier::_verify_non_revocation_proof`; `cH`, `m2hat` are `c_hash` and the primary
    proof's `m̂₂`, already reduced modulo the group order -/
def verify (o : RingOps F) (k : RevKey F) (acc z : F) (cH m2hat : F) (p : Proof F)
    (acceptLegacy : Bool) : TauList F :=
  let legacy := acceptLegacy && p.x.m2.isSome
  let c := if legacy then cH else neg o cH
  let m2 := if legacy then p.x.m2.getD m2hat else m2hat
  let ex := tauExpected o k acc z p.c
  let ca := tauValues o k acc p.x p.c m2
  { t1 := o.add (o.mul ex.t1 c) ca.t1, t2 := o.add (o.mul ex.t2 c) ca.t2
    t3 := o.add (o.mul ex.t3 c) ca.t3, t4 := o.add (o.mul ex.t4 c) ca.t4
    t5 := o.add (o.mul ex.t5 c) ca.t5, t6 := o.add (o.mul ex.t6 c) ca.t6
    t7 := o.add (o.mul ex.t7 c) ca.t7, t8 := o.add (o.mul ex.t8 c) ca.t8 }

/-- the seven blinders of `_gen_c_list_params` -/
structure CTape (F : Type) where
  rho : F
  r : F
  rPrime : F
  rPrime2 : F
  rPrime3 : F
  o : F
  oPrime : F

/-- `ProofBuilder::_gen_c_list_params` -/
def cListParams (o : RingOps F) (cr : Cred F) (tp : CTape F) : XList F :=
  { rho := tp.rho, r := tp.r, rPrime := tp.rPrime, rPrime2 := tp.rPrime2, rPrime3 := tp.rPrime3,
    o := tp.o, oPrime := tp.oPrime, m := o.mul tp.rho cr.c, mPrime := o.mul tp.r tp.rPrime2,
    t := o.mul tp.o cr.c, tPrime := o.mul tp.oPrime tp.rPrime2, m2 := none, s := cr.vr2, c := cr.c }

/-- `ProofBuilder::_create_c_list_values` -/
def cListValues (o : RingOps F) (k : RevKey F) (cr : Cred F) (p : XList F) : CList F :=
  { e := o.add (o.mul k.h p.rho) (o.mul k.htilde p.o)
    d := o.add (o.mul k.g p.r) (o.mul k.htilde p.oPrime)
    a := o.add cr.sigma (o.mul k.htilde p.rho)
    g := o.add cr.gI (o.mul k.htilde p.r)
    w := o.add cr.omega (o.mul k.hCap p.rPrime)
    s := o.add cr.sigmaI (o.mul k.hCap p.rPrime2)
    u := o.add cr.uI (o.mul k.hCap p.rPrime3) }

/-! ### list forms driven by `Gen.Tables` -/

def XList.field (x : XList F) (name : String) : Option F :=
  match name with
  | "rho" => some x.rho | "r" => some x.r | "r_prime" => some x.rPrime
  | "r_prime_prime" => some x.rPrime2 | "r_prime_prime_prime" => some x.rPrime3
  | "o" => some x.o | "o_prime" => some x.oPrime | "m" => some x.m | "m_prime" => some x.mPrime
  | "t" => some x.t | "t_prime" => some x.tPrime | "s" => some x.s | "c" => some x.c
  | _ => none

/-- `NonRevocProofXList::as_list` (without a legacy `m2`) in the regenerated order -/
def XList.asList (x : XList F) : Option (List F) := Gen.xListOrder.mapM x.field

/-- `NonRevocProofXList::from_list` through the regenerated index table -/
def XList.fromList (seq : List F) : Option (XList F) :=
  let ix (n : String) : Option F := (Gen.xListFromIndex.lookup n).bind fun i => seq[i]?
  match ix "rho", ix "r", ix "r_prime", ix "r_prime_prime", ix "r_prime_prime_prime", ix "o",
        ix "o_prime", ix "m", ix "m_prime", ix "t", ix "t_prime", ix "s", ix "c" with
  | some rho, some r, some r1, some r2, some r3, some o', some o1, some m, some m1, some t, some t1,
    some s, some c =>
      some ⟨rho, r, r1, r2, r3, o', o1, m, m1, t, t1, none, s, c⟩
  | _, _, _, _, _, _, _, _, _, _, _, _, _ => none

/-- `ProofBuilder::_finalize_non_revocation_proof`: `x̂ = x̃ + c_H · x` componentwise over the
    `as_list` order, rebuilt with `from_list` -/
def finalize (o : RingOps F) (tauParams cParams : XList F) (cl : CList F) (cH : F) :
    Option (Proof F) :=
  match tauParams.asList, cParams.asList with
  | some xs, some ys =>
    (XList.fromList (List.zipWith (fun x y => o.add x (o.mul cH y)) xs ys)).map fun x => ⟨x, cl⟩
  | _, _ => none

/-- transcript items of a tau list in `as_slice` order (groups: G1 G1 GT GT G1 G1 GT GT) -/
def tauItems (toNat : F → Nat) (t : TauList F) : List Pri.Item :=
  Gen.tauListOrder.filterMap fun n =>
    match n with
    | "t1" => some (.g1 (toNat t.t1)) | "t2" => some (.g1 (toNat t.t2))
    | "t3" => some (.gt (toNat t.t3)) | "t4" => some (.gt (toNat t.t4))
    | "t5" => some (.g1 (toNat t.t5)) | "t6" => some (.g1 (toNat t.t6))
    | "t7" => some (.gt (toNat t.t7)) | "t8" => some (.gt (toNat t.t8))
    | _ => none

/-- transcript items of a c list in `as_list` order -/
def cItems (toNat : F → Nat) (c : CList F) : List Pri.Item :=
  Gen.cListOrder.filterMap fun n =>
    match n with
    | "e" => some (.g1 (toNat c.e)) | "d" => some (.g1 (toNat c.d))
    | "a" => some (.g1 (toNat c.a)) | "g" => some (.g1 (toNat c.g))
    | "w" => some (.g2 (toNat c.w)) | "s" => some (.g2 (toNat c.s))
    | "u" => some (.g2 (toNat c.u))
    | _ => none

/-- the issuer-side non-revocation credential in exponent form
    (`Issuer::_new_non_revocation_credential` followed by the holder's `vr' + vr''`):
    `σ = (h0 + m2·h1 + ur + g_i + vr''·h2)/(x + c)`, `σ_i = g'/(sk + γ^i)`, `u_i = γ^i·u`,
    `g_i = γ^i·g`. `inv` is the field inverse (driver: modular inverse). -/
def issueCred (o : RingOps F) (inv : F → F) (k : RevKey F) (x sk γ : F) (i : Nat)
    (m2 vrPrime vr2 c omega : F) : Cred F :=
  let γi := o.pow γ i
  let gI := o.mul k.g γi
  let ur := o.mul k.h2 vrPrime
  { sigma := o.mul (o.add (o.add (o.add (o.add k.h0 (o.mul k.h1 m2)) ur) gI) (o.mul k.h2 vr2))
               (inv (o.add x c))
    c := c, vr2 := o.add vrPrime vr2,
    sigmaI := o.mul k.gDash (inv (o.add sk γi)), uI := o.mul k.u γi, gI := gI, m2 := m2,
    omega := omega }

/-- the four pairing products of `Prover::_test_witness_signature` in exponent form, in source
    order, each with the value it is compared to; `wgI` is `witness_signature.g_i`, which the wire
    format keeps apart from `g_i` -/
def witnessSigEqs (o : RingOps F) (k : RevKey F) (acc z wgI : F) (cr : Cred F) : List (F × F) :=
  [ (o.add (o.mul wgI acc) (o.mul (neg o k.g) cr.omega), z),
    (o.add (o.mul (o.add k.pk cr.gI) cr.sigmaI) (o.mul (neg o k.g) k.gDash), o.zero),
    (o.add (o.mul cr.gI k.u) (o.mul (neg o k.g) cr.uI), o.zero),
    (o.add (o.mul cr.sigma (o.add k.y (o.mul k.hCap cr.c)))
           (o.mul (neg o (o.add (o.add (o.add k.h0 (o.mul k.h1 cr.m2)) (o.mul k.h2 cr.vr2)) cr.gI)) k.hCap),
     o.zero) ]

/-- `Prover::_test_witness_signature`: accepted iff every product has its prescribed value -/
def testWitnessSignature [DecidableEq F] (o : RingOps F) (k : RevKey F) (acc z wgI : F) (cr : Cred F) : Bool :=
  (witnessSigEqs o k acc z wgI cr).all fun p => decide (p.1 = p.2)

end CL.NR
