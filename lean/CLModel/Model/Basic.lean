/-!
# Basic vocabulary of the model (import-free)

`Outcome` is the result type of every modelled Rust function: `ok a` for `Ok(a)` / a plain
value, `err` for a returned `Err(_)` (or a `false` verdict where stated), `panic` for
`unwrap`/index/overflow panics. Loops are written as recursion with an explicit `match` on
`Outcome`; the `bind` below is only used for straight-line code.
-/
namespace CL

inductive Outcome (α : Type) where
  | ok (a : α)
  | err
  | panic
deriving Repr, BEq, DecidableEq

namespace Outcome

@[inline] def bind {α β : Type} (x : Outcome α) (f : α → Outcome β) : Outcome β :=
  match x with
  | ok a => f a
  | err => err
  | panic => panic

@[inline] def map {α β : Type} (f : α → β) (x : Outcome α) : Outcome β :=
  match x with
  | ok a => ok (f a)
  | err => err
  | panic => panic

def isOk {α : Type} : Outcome α → Bool
  | ok _ => true
  | _ => false

def tag {α : Type} : Outcome α → String
  | ok _ => "ok"
  | err => "err"
  | panic => "panic"

/-- `if <guard> { return Err(..) }` followed by the rest of the function -/
@[inline] def guardThen {α : Type} (g : Outcome Bool) (k : Unit → Outcome α) : Outcome α :=
  match g with
  | ok b => if b then err else k ()
  | err => err
  | panic => panic

@[simp] theorem guardThen_ok {α : Type} (b : Bool) (k : Unit → Outcome α) :
    guardThen (ok b) k = if b then err else k () := rfl

@[simp] theorem bind_ok {α β : Type} (a : α) (f : α → Outcome β) : (ok a).bind f = f a := rfl
@[simp] theorem bind_err {α β : Type} (f : α → Outcome β) : (err : Outcome α).bind f = err := rfl
@[simp] theorem bind_panic {α β : Type} (f : α → Outcome β) :
    (panic : Outcome α).bind f = panic := rfl
@[simp] theorem map_ok {α β : Type} (a : α) (f : α → β) : (ok a).map f = ok (f a) := rfl
@[simp] theorem map_err {α β : Type} (f : α → β) : (err : Outcome α).map f = err := rfl
@[simp] theorem map_panic {α β : Type} (f : α → β) : (panic : Outcome α).map f = panic := rfl
theorem map_map {α β γ : Type} (x : Outcome α) (f : α → β) (g : β → γ) :
    (x.map f).map g = x.map (fun a => g (f a)) := by cases x <;> rfl

end Outcome

/-- Rust profile: `checked` = overflow checks on (dev/test), `wrapping` = release. -/
inductive OvfMode where
  | checked
  | wrapping
deriving Repr, BEq, DecidableEq

/-- Fixed-width Rust integer types used by the modelled code. -/
inductive IntTy where
  | i32
  | u32
  | i64
  | usize
deriving Repr, BEq, DecidableEq

def IntTy.lo : IntTy → Int
  | .i32 => -2147483648
  | .u32 => 0
  | .i64 => -9223372036854775808
  | .usize => 0

def IntTy.hi : IntTy → Int
  | .i32 => 2147483647
  | .u32 => 4294967295
  | .i64 => 9223372036854775807
  | .usize => 18446744073709551615

def IntTy.size : IntTy → Int
  | .i32 => 4294967296
  | .u32 => 4294967296
  | .i64 => 18446744073709551616
  | .usize => 18446744073709551616

def IntTy.inRange (t : IntTy) (v : Int) : Bool := t.lo ≤ v && v ≤ t.hi

/-- two's-complement / modular wrap of `v` into the range of `t` (Rust `as` cast) -/
def IntTy.wrap (t : IntTy) (v : Int) : Int :=
  (v - t.lo) % t.size + t.lo

/-- result of an arithmetic operation whose mathematical value is `v` -/
def IntTy.fit (t : IntTy) (m : OvfMode) (v : Int) : Outcome Int :=
  if t.inRange v then .ok v
  else match m with
    | .checked => .panic
    | .wrapping => .ok (t.wrap v)

/-- Integer expressions extracted from the Rust source by `tools/translate.py`.
    Every arithmetic node carries the Rust type it is evaluated in. -/
inductive IExpr where
  | var (i : Nat)
  | lit (v : Int)
  | add (t : IntTy) (a b : IExpr)
  | sub (t : IntTy) (a b : IExpr)
  | mul (t : IntTy) (a b : IExpr)
  | div (t : IntTy) (a b : IExpr)
  /-- `e as t` (wrapping conversion; lossless widening is the same node) -/
  | cast (t : IntTy) (a : IExpr)
  | unrecognised
deriving Repr, BEq, DecidableEq

def envGet : List Int → Nat → Outcome Int
  | [], _ => .panic
  | x :: _, 0 => .ok x
  | _ :: xs, n + 1 => envGet xs n

/-- Rust evaluates the left operand first: its panic wins; `err` marks an unrecognised
    sub-expression. -/
def binop (t : IntTy) (m : OvfMode) (f : Int → Int → Outcome Int) :
    Outcome Int → Outcome Int → Outcome Int
  | .ok x, .ok y => match f x y with
    | .ok v => t.fit m v
    | .err => .err
    | .panic => .panic
  | .panic, _ => .panic
  | _, .panic => .panic
  | _, _ => .err

def castOp (t : IntTy) : Outcome Int → Outcome Int
  | .ok x => .ok (t.wrap x)
  | .err => .err
  | .panic => .panic

/-- evaluation of an extracted expression under profile `m` -/
def IExpr.eval (m : OvfMode) (env : List Int) : IExpr → Outcome Int
  | .var i => envGet env i
  | .lit v => .ok v
  | .add t a b => binop t m (fun x y => .ok (x + y)) (a.eval m env) (b.eval m env)
  | .sub t a b => binop t m (fun x y => .ok (x - y)) (a.eval m env) (b.eval m env)
  | .mul t a b => binop t m (fun x y => .ok (x * y)) (a.eval m env) (b.eval m env)
  | .div t a b => binop t m (fun x y => if y == 0 then .panic else .ok (Int.tdiv x y))
      (a.eval m env) (b.eval m env)
  | .cast t a => castOp t (a.eval m env)
  | .unrecognised => .err

/-- Boolean conditions extracted from the Rust source (range guards). -/
inductive BExpr where
  | eq (a b : IExpr)
  | ne (a b : IExpr)
  | lt (a b : IExpr)
  | le (a b : IExpr)
  | gt (a b : IExpr)
  | ge (a b : IExpr)
  | or (a b : BExpr)
  | and (a b : BExpr)
  | not (a : BExpr)
  /-- the function exists but contains no guard of the expected shape -/
  | absent
  | unrecognised
deriving Repr, BEq

def cmpOp (f : Int → Int → Bool) : Outcome Int → Outcome Int → Outcome Bool
  | .ok x, .ok y => .ok (f x y)
  | .panic, _ => .panic
  | _, .panic => .panic
  | _, _ => .err

/-- Rust `||` short-circuits -/
def orOp (b : Unit → Outcome Bool) : Outcome Bool → Outcome Bool
  | .ok true => .ok true
  | .ok false => b ()
  | .err => .err
  | .panic => .panic

def andOp (b : Unit → Outcome Bool) : Outcome Bool → Outcome Bool
  | .ok false => .ok false
  | .ok true => b ()
  | .err => .err
  | .panic => .panic

def notOp : Outcome Bool → Outcome Bool
  | .ok v => .ok (!v)
  | .err => .err
  | .panic => .panic

def BExpr.eval (m : OvfMode) (env : List Int) : BExpr → Outcome Bool
  | .eq a b => cmpOp (fun x y => x == y) (a.eval m env) (b.eval m env)
  | .ne a b => cmpOp (fun x y => x != y) (a.eval m env) (b.eval m env)
  | .lt a b => cmpOp (fun x y => decide (x < y)) (a.eval m env) (b.eval m env)
  | .le a b => cmpOp (fun x y => decide (x ≤ y)) (a.eval m env) (b.eval m env)
  | .gt a b => cmpOp (fun x y => decide (x > y)) (a.eval m env) (b.eval m env)
  | .ge a b => cmpOp (fun x y => decide (x ≥ y)) (a.eval m env) (b.eval m env)
  | .or a b => orOp (fun _ => b.eval m env) (a.eval m env)
  | .and a b => andOp (fun _ => b.eval m env) (a.eval m env)
  | .not a => notOp (a.eval m env)
  | .absent => .ok false
  | .unrecognised => .err

/-! ## Tiny DSLs that the translator targets -/
namespace Gen

/-- the four sets a `RevocationRegistryDelta::merge` statement can mention -/
inductive MField where
  | selfIssued | selfRevoked | otherIssued | otherRevoked
deriving Repr, BEq, DecidableEq

/-- statements of the `merge` body after the consecutive-check and the `accum` assignment -/
inductive MergeStmt where
  /-- `a.extend(b.difference(&c))` -/
  | extendDiff (a b c : MField)
  /-- `for index in b.iter() { a.remove(index); }` -/
  | removeEach (a b : MField)
  | unrecognised
deriving Repr, BEq, DecidableEq

/-- predicate kinds in source order of the `PredicateType` enum -/
inductive PType where
  | GE | LE | GT | LT
deriving Repr, BEq, DecidableEq

end Gen

end CL
