import CLModel.Model.Basic
import CLModel.Gen.Constants
/-!
# Big-number layer (`/repo/src/bn/{mod,rust,openssl}.rs`, `bitwise_or_big_int` in `helpers.rs`)

`BigNum := Int`.  Every operation of the public `BigNumber` API exists three times:

* `Spec.*`  — what integer arithmetic prescribes; `err` exactly where the result is undefined
  (zero modulus or divisor, non-invertible element, negative exponent of `exp`, text that is
  not a numeral).  `Spec` never panics.
* `Rust.*`  — mirrors `src/bn/rust.rs` statement by statement.  `num-bigint` primitives the
  code calls (`+ - * / % >> << |`, `modpow`, `gcd`, `from_str_radix`, `to_str_radix`,
  `to_bytes_be`, `bits`) are stated as what they were observed/documented to do and are part
  of the trusted base; the crate's *own* logic (extended Euclid, `_get_modulus`, sign fix-up in
  `modulus`, special cases of `exp` / `mod_exp`, `is_bit_set` through a shift, casts) is
  modelled step by step.
* `Ossl.*`  — mirrors `src/bn/openssl.rs`: each wrapped OpenSSL call (`BN_nnmod`,
  `BN_mod_inverse`, `BN_mod_exp`, `BN_exp`, `BN_div`, `BN_rshift`, `BN_dec2bn`, `BN_bn2bin` …)
  is stated as what it does (determined by running the real crate, OpenSSL 3.5), the
  wrapper's own logic (`to_vec` round trips that drop the sign, `as u32` / `as i32` casts,
  negative-exponent path of `mod_exp`) is modelled step by step.

Integers of Rust type `i32`/`u32`/`usize` are passed as `Int`/`Nat` inside their range.
The file is import-free (no Mathlib) so that the driver links.
-/
namespace CL.BN
open CL.Outcome

abbrev BigNum := Int
/-- byte strings: every element `< 256` -/
abbrev Bytes := List Nat
abbrev Text := List Char

/-! ## Shared helpers -/

/-- bit length by repeated halving; `fuel = n` always suffices -/
def natBitsAux : Nat → Nat → Nat
  | 0, _ => 0
  | f + 1, n => if n = 0 then 0 else natBitsAux f (n / 2) + 1

/-- number of significant bits of `n` (`0` for `0`) -/
def natBits (n : Nat) : Nat := natBitsAux n n

/-- little-endian base-`b` digits; `fuel = n` suffices for `b ≥ 2` -/
def digitsLEAux (b : Nat) : Nat → Nat → List Nat
  | 0, _ => []
  | f + 1, n => if n = 0 then [] else (n % b) :: digitsLEAux b f (n / b)

/-- big-endian base-`b` digits without leading zero (`[]` for `0`) -/
def toDigits (b n : Nat) : List Nat := (digitsLEAux b n n).reverse

/-- value of a big-endian digit string -/
def ofDigits (b : Nat) (ds : List Nat) : Nat := ds.foldl (fun acc d => acc * b + d) 0

/-- square-and-multiply, all intermediate values reduced modulo `m` -/
def powModAux (m : Nat) : Nat → Nat → Nat → Nat → Nat
  | 0, _, _, acc => acc
  | f + 1, b, e, acc =>
    if e = 0 then acc
    else powModAux m f (b * b % m) (e / 2) (if e % 2 = 1 then acc * b % m else acc)

/-- `b ^ e % m` computed by square-and-multiply (proved equal to it in `Proofs/BigNum.lean`) -/
def powMod (b e m : Nat) : Nat := powModAux m e (b % m) e (1 % m)

/-- textbook recursive extended Euclid on naturals: `(g, x, y)` with `a*x + b*y = g = gcd a b` -/
def xgcdAux : Nat → Nat → Nat → Nat × Int × Int
  | 0, _, b => (b, 0, 1)
  | f + 1, a, b =>
    if a = 0 then (b, 0, 1)
    else
      let r := xgcdAux f (b % a) a
      (r.1, r.2.2 - ((b / a : Nat) : Int) * r.2.1, r.2.1)

def xgcd (a b : Nat) : Nat × Int × Int := xgcdAux (a + 1) a b

def decDigit (c : Char) : Option Nat :=
  if '0' ≤ c ∧ c ≤ '9' then some (c.toNat - 48) else none

/-- C `isxdigit` value -/
def hexDigit (c : Char) : Option Nat :=
  if '0' ≤ c ∧ c ≤ '9' then some (c.toNat - 48)
  else if 'a' ≤ c ∧ c ≤ 'f' then some (c.toNat - 87)
  else if 'A' ≤ c ∧ c ≤ 'F' then some (c.toNat - 55)
  else none

/-- digit to its (upper-case) character, `d < 16` -/
def digitChar (d : Nat) : Char :=
  if d < 10 then Char.ofNat (48 + d) else Char.ofNat (55 + d)

/-- `a ^ k`, evaluated without building `2^64`-step powers of `0, ±1` (the runtime cannot
evaluate `1 ^ 2^64` through `Nat.pow`); proved equal to `a ^ k` in `Proofs/BigNum.lean` -/
def powInt (a : Int) (k : Nat) : Int :=
  if a = 0 then (if k = 0 then 1 else 0)
  else if a = 1 then 1
  else if a = -1 then (if k % 2 = 0 then 1 else -1)
  else a ^ k

/-- sign as `-1 / 0 / 1` (canonical form of `Ordering`) -/
def cmpInt (a b : Int) : Int := if a < b then -1 else if a = b then 0 else 1

/-- `Option` digit value for radix 10 / 16 -/
def radixDigit (radix : Nat) (c : Char) : Option Nat :=
  if radix = 16 then hexDigit c else decDigit c

/-- `bn::is_numeral` (bn/mod.rs): `-?[0-9]+` for radix 10, `-?[0-9a-fA-F]+` for radix 16 -/
def isNumeral (radix : Nat) (s : Text) : Bool :=
  let digits := if s.head? = some '-' then s.tail else s
  !digits.isEmpty && digits.all fun c => (radixDigit radix c).isSome

/-- two hex digits per byte -/
def hexOfBytes : Bytes → Text
  | [] => []
  | b :: bs => digitChar (b / 16) :: digitChar (b % 16) :: hexOfBytes bs

/-! ## Spec — integer arithmetic -/
namespace Spec

def add (a b : Int) : Outcome Int := ok (a + b)
def sub (a b : Int) : Outcome Int := ok (a - b)
def mul (a b : Int) : Outcome Int := ok (a * b)
def sqr (a : Int) : Outcome Int := ok (a * a)
def cmp (a b : Int) : Outcome Int := ok (cmpInt a b)
def eq (a b : Int) : Outcome Bool := ok (decide (a = b))
def isNegative (a : Int) : Outcome Bool := ok (decide (a < 0))

/-- truncating division; undefined for a zero divisor -/
def div (a b : Int) : Outcome Int := if b = 0 then err else ok (Int.tdiv a b)

/-- non-negative residue modulo `|n|`; undefined for a zero modulus -/
def modulus (a n : Int) : Outcome Int := if n = 0 then err else ok (a % n)

def modMul (a b n : Int) : Outcome Int := modulus (a * b) n
def modSub (a b n : Int) : Outcome Int := modulus (a - b) n

/-- the inverse of `a` in `ℤ/|n|` as the representative in `[0, |n|)`; undefined when
`gcd(a, n) ≠ 1` and for the moduli `0, ±1` (in the trivial ring `1 = 0`; both back-ends reject
`n = 1` on purpose, the conservative reading is taken as the specification).  Computed with
the textbook recursive Euclid `xgcd`; `Proofs/BigNum.lean` proves the characterisation
`inverse a n = ok t ↔ 0 ≤ t < |n| ∧ a * t % |n| = 1`. -/
def inverse (a n : Int) : Outcome Int :=
  let m := n.natAbs
  if m ≤ 1 then err
  else
    let r := xgcd (a % (m : Int)).toNat m
    if r.1 ≠ 1 then err else ok (r.2.1 % (m : Int))

def modDiv (a b n : Int) : Outcome Int := (inverse b n).bind fun bi => modulus (a * bi) n

/-- `a ^ k`; undefined in `ℤ` for a negative exponent -/
def exp (a k : Int) : Outcome Int := if k < 0 then err else ok (a ^ k.toNat)
/-- same function through `powInt` (what the driver runs; proved equal) -/
def expFast (a k : Int) : Outcome Int := if k < 0 then err else ok (powInt a k.toNat)

/-- `a ^ e mod |n|`, a negative exponent meaning the power of the inverse -/
def modExp (a e n : Int) : Outcome Int :=
  if n = 0 then err
  else if 0 ≤ e then ok (a ^ e.toNat % n)
  else (inverse a n).bind fun ai => ok (ai ^ (-e).toNat % n)

/-- same function, evaluated by square-and-multiply (what the driver runs; proved equal) -/
def modExpFast (a e n : Int) : Outcome Int :=
  if n = 0 then err
  else if 0 ≤ e then ok (powMod (a % n).toNat e.toNat n.natAbs : Nat)
  else (inverse a n).bind fun ai => ok (powMod (ai % n).toNat (-e).toNat n.natAbs : Nat)

def gcd (a b : Int) : Outcome Int := ok (Int.gcd a b : Nat)

def lshift1 (a : Int) : Outcome Int := ok (2 * a)
/-- shifts are specified on non-negative values: `⌊a / 2^k⌋` -/
def rshift (a : Int) (k : Nat) : Outcome Int := ok (a / ((2 ^ k : Nat) : Int))
def rshift1 (a : Int) : Outcome Int := rshift a 1
/-- same function through the shift primitive (what the driver runs: `2^k` is never built; proved equal) -/
def rshiftFast (a : Int) (k : Nat) : Outcome Int := ok (a >>> k)
/-- bit length of the magnitude -/
def numBits (a : Int) : Outcome Int := ok (natBits a.natAbs : Nat)
/-- bit `n` of a non-negative value -/
def isBitSet (a : Int) (n : Int) : Outcome Bool :=
  if n < 0 then err else ok (a.toNat.testBit n.toNat)
def setBit (a : Int) (n : Int) : Outcome Int :=
  if n < 0 then err else ok ((a.toNat ||| 2 ^ n.toNat : Nat) : Int)
def bitwiseOr (a b : Int) : Outcome Int := ok ((a.toNat ||| b.toNat : Nat) : Int)

def addWord (a : Int) (w : Nat) : Outcome Int := ok (a + w)
def subWord (a : Int) (w : Nat) : Outcome Int := ok (a - w)
def mulWord (a : Int) (w : Nat) : Outcome Int := ok (a * w)
def divWord (a : Int) (w : Nat) : Outcome Int := if w = 0 then err else ok (Int.tdiv a w)
def increment (a : Int) : Outcome Int := ok (a + 1)
def decrement (a : Int) : Outcome Int := ok (a - 1)
def setNegative (a : Int) (neg : Bool) : Outcome Int :=
  ok (if neg then -(a.natAbs : Int) else (a.natAbs : Int))
def fromU32 (n : Nat) : Outcome Int := ok n

/-- big-endian magnitude -/
def fromBytes (bs : Bytes) : Outcome Int := ok (ofDigits 256 bs : Nat)
/-- minimal big-endian encoding of the magnitude (the empty string for zero) -/
def toBytes (a : Int) : Outcome Bytes := ok (toDigits 256 a.natAbs)

def digitsText (b n : Nat) : Text :=
  if n = 0 then ['0'] else (toDigits b n).map digitChar

def toDec (a : Int) : Outcome Text :=
  ok (if a < 0 then '-' :: digitsText 10 a.natAbs else digitsText 10 a.natAbs)
def toHex (a : Int) : Outcome Text :=
  ok (if a < 0 then '-' :: digitsText 16 a.natAbs else digitsText 16 a.natAbs)

/-- all characters are digits of the radix: their value, else `err` -/
def parseDigits (radix : Nat) : Text → Nat → Outcome Nat
  | [], acc => ok acc
  | c :: cs, acc =>
    match radixDigit radix c with
    | some d => parseDigits radix cs (acc * radix + d)
    | none => err

/-- numerals: an optional `-` followed by at least one digit, nothing else -/
def parseNumeral (radix : Nat) (s : Text) : Outcome Int :=
  if s.head? = some '-' then
    (if s.tail = [] then err else (parseDigits radix s.tail 0).map fun (v : Nat) => -(v : Int))
  else if s = [] then err
  else (parseDigits radix s 0).map fun (v : Nat) => (v : Int)

def fromDec (s : Text) : Outcome Int := parseNumeral 10 s
def fromHex (s : Text) : Outcome Int := parseNumeral 16 s

end Spec

/-! ## Operations record (for code written once over the API: `bitwise_or_big_int`,
`generates_semiprime_subgroup`) -/
structure Ops where
  numBits : Int → Outcome Int
  isBitSet : Int → Int → Outcome Bool
  setBit : Int → Int → Outcome Int
  modExp : Int → Int → Int → Outcome Int

/-- `helpers::bitwise_or_big_int`: `for i in 0..max(bits a, bits b)` — `cnt` iterations left,
`i` the loop variable, `res` the accumulator; `||` short-circuits -/
def bitwiseOrLoop (o : Ops) (a b : Int) : Nat → Int → Int → Outcome Int
  | 0, _, res => ok res
  | cnt + 1, i, res =>
    ((o.isBitSet a i).bind fun ba => if ba then ok true else o.isBitSet b i).bind fun c =>
      (if c then o.setBit res i else ok res).bind fun res' =>
        bitwiseOrLoop o a b cnt (i + 1) res'

def bitwiseOr (o : Ops) (a b : Int) : Outcome Int :=
  (o.numBits a).bind fun na => (o.numBits b).bind fun nb =>
    bitwiseOrLoop o a b (max na nb).toNat 0 0

/-- `BigNumber::generates_semiprime_subgroup` (bn/mod.rs): `||` short-circuits, `?` propagates -/
def generatesSemiprimeSubgroup (o : Ops) (g p q n : Int) : Outcome Bool :=
  if g = 1 then ok false
  else (o.modExp g p n).bind fun x =>
    if x = 1 then ok false
    else (o.modExp g q n).bind fun y =>
      if y = 1 then ok false else ok true

/-! ## `generate_prime_in_range` (bn/mod.rs): the candidate as a function of the random bytes -/

/-- `buf[last] |= 1` -/
def orLast1 : Bytes → Bytes
  | [] => []
  | [x] => [x ||| 1]
  | x :: y :: t => x :: orLast1 (y :: t)

def mapHead (f : Nat → Nat) : Bytes → Bytes
  | [] => []
  | x :: t => f x :: t

/-- `((1u16 << range_top_bits) - 1) as u8` -/
def rangeMask (rangeTop : Nat) : Nat := (1 <<< rangeTop) - 1

/-- one iteration of the loop up to `BigNumber::from_bytes(&buf)`: `rnd` are the
`range_bits / 8 + 1` bytes written by `rng.fill_bytes(&mut buf[range_top_offs..])`
(no operation of the construction can overflow: the result is the same in both profiles) -/
def primeCandidate (size range : Nat) (rnd : Bytes) : Outcome Int :=
  if ¬ (size > 1) then panic                        -- assert!(size_bits > 1)
  else if ¬ (range > 1 ∧ range ≤ size) then panic   -- assert!(range_bits > 1 && range_bits <= size_bits)
  else
    let sizeBytes := size / 8 + 1
    let rangeBytes := range / 8 + 1
    let offs := sizeBytes - rangeBytes
    if rnd.length ≠ rangeBytes then err             -- (not a library outcome: ill-formed tape)
    else
      let buf1 := orLast1 (List.replicate offs 0 ++ rnd)
      let mask := rangeMask (range % 8)
      let buf2 := List.replicate offs 0 ++ mapHead (fun x => x &&& mask) (buf1.drop offs)
      let buf3 := mapHead (fun x => x ||| (1 <<< (size % 8))) buf2
      ok (ofDigits 256 buf3 : Nat)

/-! ## Rust — `src/bn/rust.rs` -/
namespace Rust

/-- `_get_modulus` -/
def getModulus (n : Int) : Int := if 0 < n then n else -n

def add (a b : Int) : Outcome Int := ok (a + b)
def sub (a b : Int) : Outcome Int := ok (a - b)
def mul (a b : Int) : Outcome Int := ok (a * b)
def sqr (a : Int) : Outcome Int := ok (a * a)
def cmp (a b : Int) : Outcome Int := ok (cmpInt a b)
def eq (a b : Int) : Outcome Bool := ok (decide (a = b))
def isNegative (a : Int) : Outcome Bool := ok (decide (a < 0))

/-- `modulus`: `%` of `num-bigint` truncates (sign of the dividend), then the sign fix-up -/
def modulus (a n : Int) : Outcome Int :=
  if n = 0 then err
  else
    let m := getModulus n
    let res := Int.tmod a m
    ok (if res < 0 then res + m else res)

def modMul (a b n : Int) : Outcome Int := (mul a b).bind fun p => modulus p n
def modSub (a b n : Int) : Outcome Int := (sub a b).bind fun d => modulus d n

/-- `/` of `num-bigint` truncates -/
def div (a b : Int) : Outcome Int := if b = 0 then err else ok (Int.tdiv a b)

/-- `num_integer::Integer::gcd` (non-negative) -/
def gcd (a b : Int) : Outcome Int := ok (Int.gcd a b : Nat)

/-- the `while !new_r.is_zero()` loop of `inverse`; returns `(t, r)` at exit.  The fuel is
only there for Lean's termination checker: `inverseLoop_fuel` proves that
`|new_r| + 1` iterations always suffice, so `panic` is never produced by it. -/
def inverseLoop : Nat → Int → Int → Int → Int → Outcome (Int × Int)
  | 0, _, _, _, _ => panic
  | f + 1, t, newT, r, newR =>
    if newR = 0 then ok (t, r)
    else
      let q := Int.tdiv r newR
      inverseLoop f newT (t - q * newT) newR (r - q * newR)

def inverse (a n : Int) : Outcome Int :=
  let m := getModulus n
  if m = 1 ∨ m = 0 then err
  else
    -- `self.bn.mod_floor(&n)`: the operand reduced into `[0, m)`
    let a' := Int.fmod a m
    (inverseLoop (a'.natAbs + 1) 0 1 m a').bind fun tr =>
      if tr.2 > 1 then err
      else ok (if tr.1 < 0 then tr.1 + m else tr.1)

def setNegative (a : Int) (neg : Bool) : Outcome Int :=
  match decide (a < 0), neg with
  | true, true => ok a
  | false, false => ok a
  | true, false => ok (-a)
  | false, true => ok (-a)

/-- `BigInt::modpow` of num-bigint 0.4: panics on a negative exponent and on a zero modulus;
the result has the sign of the modulus (only called with `modulus ≥ 0` here) -/
def modpow (b e m : Int) : Outcome Int :=
  if e < 0 then panic
  else if m = 0 then panic
  else ok (Int.fmod (powMod (b % m).toNat e.toNat m.natAbs : Nat) m)

def modExp (a e n : Int) : Outcome Int :=
  if n = 0 then err
  else if e < 0 then
    (inverse a n).bind fun res => (setNegative e false).bind fun e' => modpow res e' (getModulus n)
  else if n = 1 then ok 0
  else modpow a e (getModulus n)

/-- `exp`: negative exponent, zero exponent, `bits() == 0` and `a.is_one()` special cases, `to_u64` -/
def exp (a k : Int) : Outcome Int :=
  if k < 0 then err
  else if k = 0 then ok 1
  else if natBits a.natAbs = 0 then ok 0
  else if k = 1 then ok a
  else if 0 ≤ k ∧ k < 18446744073709551616 then ok (powInt a k.toNat)
  else err

def modDiv (a b n : Int) : Outcome Int :=
  (inverse b n).bind fun bi => (mul a bi).bind fun p => modulus p n

/-- `n as usize` for an `i32` -/
def i32AsUsize (n : Int) : Nat := if n < 0 then (n + 18446744073709551616).toNat else n.toNat

/-- `num_bits`: `bits() as i32` (wrap-around above 2^31 bits is not modelled) -/
def numBits (a : Int) : Outcome Int := ok (natBits a.natAbs : Nat)

/-- `is_bit_set`: `(&self.bn >> bits).is_odd()`; `>>` on `BigInt` rounds towards −∞ -/
def isBitSet (a : Int) (n : Int) : Outcome Bool :=
  if n < 0 then ok false
  else ok (decide ((a >>> i32AsUsize n) % 2 = 1))

/-- two's-complement `x | 2^k` as `num-bigint` implements `BitOr` for `BigInt` -/
def lorPow2 (a : Int) (k : Nat) : Int :=
  match a with
  | Int.ofNat x => ((x ||| 2 ^ k : Nat) : Int)
  | Int.negSucc x => Int.negSucc (if x.testBit k then x - 2 ^ k else x)

/-- `set_bit`: a negative index is an error, else `self.bn |= BigInt::one() << (n as usize)` -/
def setBit (a : Int) (n : Int) : Outcome Int :=
  if n < 0 then err else ok (lorPow2 a n.toNat)

def lshift1 (a : Int) : Outcome Int := ok (a * 2)
def rshift1 (a : Int) : Outcome Int := ok (a >>> 1)
/-- `n : u32` -/
def rshift (a : Int) (n : Nat) : Outcome Int := ok (a >>> n)

def addWord (a : Int) (w : Nat) : Outcome Int := ok (a + w)
def subWord (a : Int) (w : Nat) : Outcome Int := ok (a - w)
def mulWord (a : Int) (w : Nat) : Outcome Int := ok (a * w)
def divWord (a : Int) (w : Nat) : Outcome Int := if w = 0 then err else ok (Int.tdiv a w)
def increment (a : Int) : Outcome Int := ok (a + 1)
def decrement (a : Int) : Outcome Int := ok (a - 1)
/-- `from_u32(n: usize)`: `BigInt::from(n)` -/
def fromU32 (n : Nat) : Outcome Int := ok n

/-- `BigInt::from_bytes_be(Sign::Plus, bytes)` -/
def fromBytes (bs : Bytes) : Outcome Int := ok (ofDigits 256 bs : Nat)
/-- the empty string for zero, else `to_bytes_be().1` (the magnitude) -/
def toBytes (a : Int) : Outcome Bytes := ok (if a = 0 then [] else toDigits 256 a.natAbs)

/-- `to_str_radix` -/
def toStrRadix (radix : Nat) (a : Int) : Text :=
  let ds := if a = 0 then ['0'] else (toDigits radix a.natAbs).map digitChar
  if a < 0 then '-' :: ds else ds

def toDec (a : Int) : Outcome Text := ok (toStrRadix 10 a)
/-- `to_str_radix(16).to_uppercase()` -/
def toHex (a : Int) : Outcome Text := ok (toStrRadix 16 a)

/-- digit value as `BigUint::from_str_radix` computes it (letters up to radix 36) -/
def digitVal (c : Char) : Option Nat :=
  if '0' ≤ c ∧ c ≤ '9' then some (c.toNat - 48)
  else if 'a' ≤ c ∧ c ≤ 'z' then some (c.toNat - 87)
  else if 'A' ≤ c ∧ c ≤ 'Z' then some (c.toNat - 55)
  else none

/-- digit loop of `BigUint::from_str_radix`: `_` is skipped -/
def parseDigits (radix : Nat) : Text → Nat → Outcome Nat
  | [], acc => ok acc
  | c :: cs, acc =>
    if c = '_' then parseDigits radix cs acc
    else match digitVal c with
      | some d => if d < radix then parseDigits radix cs (acc * radix + d) else err
      | none => err

/-- `BigUint::from_str_radix`: `if let Some(tail) = s.strip_prefix('+') { if !tail.starts_with('+')
{ s = tail } }`; empty → error; `s.starts_with('_')` → error; then the digit loop -/
def parseBigUint (radix : Nat) (s : Text) : Outcome Nat :=
  let s' := if s.head? = some '+' ∧ s.tail.head? ≠ some '+' then s.tail else s
  if s' = [] then err
  else if s'.head? = some '_' then err
  else parseDigits radix s' 0

/-- `BigInt::from_str_radix`: `if let Some(tail) = s.strip_prefix('-') { if !tail.starts_with('+')
{ s = tail }; Minus } else { Plus }` -/
def parseBigInt (radix : Nat) (s : Text) : Outcome Int :=
  if s.head? = some '-' then
    (parseBigUint radix (if s.tail.head? = some '+' then s else s.tail)).map fun (v : Nat) => -(v : Int)
  else (parseBigUint radix s).map fun (v : Nat) => (v : Int)

def fromDec (s : Text) : Outcome Int := if !isNumeral 10 s then err else parseBigInt 10 s
def fromHex (s : Text) : Outcome Int := if !isNumeral 16 s then err else parseBigInt 16 s

def ops : Ops := { numBits := numBits, isBitSet := isBitSet, setBit := setBit, modExp := modExp }

end Rust

/-! ## Ossl — `src/bn/openssl.rs` -/
namespace Ossl

def add (a b : Int) : Outcome Int := ok (a + b)
def sub (a b : Int) : Outcome Int := ok (a - b)
def mul (a b : Int) : Outcome Int := ok (a * b)
def sqr (a : Int) : Outcome Int := ok (a * a)
def cmp (a b : Int) : Outcome Int := ok (cmpInt a b)
def eq (a b : Int) : Outcome Bool := ok (decide (a = b))
def isNegative (a : Int) : Outcome Bool := ok (decide (a < 0))

/-- `BN_div`: truncated quotient, error on a zero divisor -/
def div (a b : Int) : Outcome Int := if b = 0 then err else ok (Int.tdiv a b)
/-- `BN_nnmod`: non-negative remainder modulo `|n|`, error on zero -/
def modulus (a n : Int) : Outcome Int := if n = 0 then err else ok (a % n)
/-- `BN_mod_mul` = `BN_mul` then `BN_nnmod` -/
def modMul (a b n : Int) : Outcome Int := if n = 0 then err else ok (a * b % n)
/-- `BN_mod_sub` = `BN_sub` then `BN_nnmod` -/
def modSub (a b n : Int) : Outcome Int := if n = 0 then err else ok ((a - b) % n)
/-- `BN_gcd` (non-negative) -/
def gcd (a b : Int) : Outcome Int := ok (Int.gcd a b : Nat)

/-- `BN_mod_inverse`: "no inverse" for `|n| ≤ 1` and for `gcd ≠ 1`; otherwise the
representative in `[0, |n|)` (the operand is reduced with `BN_nnmod` first) -/
def inverse (a n : Int) : Outcome Int :=
  let m := n.natAbs
  if m ≤ 1 then err
  else
    let r := xgcd (a % (m : Int)).toNat m
    if r.1 ≠ 1 then err else ok (r.2.1 % (m : Int))

/-- `BigNum::from_slice(&self.to_vec())` followed by `set_negative`: the magnitude with the
requested sign (`BN_set_negative` leaves zero non-negative) -/
def setNegative (a : Int) (neg : Bool) : Outcome Int :=
  let mag : Int := a.natAbs
  ok (if neg ∧ mag ≠ 0 then -mag else mag)

/-- `BN_mod_exp` for a non-negative exponent: result in `[0, |n|)`; a zero modulus is an error
— except that a zero exponent is answered with `1` before the modulus is looked at (observed) -/
def bnModExp (a e n : Int) : Outcome Int :=
  if n = 0 then (if e = 0 then ok 1 else err)
  else ok (powMod (a % n).toNat e.toNat n.natAbs : Nat)

def modExp (a e n : Int) : Outcome Int :=
  if n = 0 then err      -- `b.openssl_bn.num_bits() == 0`
  else if e < 0 then
    (inverse a n).bind fun base => (setNegative e false).bind fun e1 => bnModExp base e1 n
  else bnModExp a e n

/-- a negative exponent is refused (`BN_exp` itself ignores the sign of the exponent) -/
def exp (a k : Int) : Outcome Int := if k < 0 then err else ok (powInt a k.natAbs)

def modDiv (a b n : Int) : Outcome Int := (inverse b n).bind fun b1 => modMul a b1 n

def numBits (a : Int) : Outcome Int := ok (natBits a.natAbs : Nat)
/-- `BN_is_bit_set`: bit of the magnitude, `0` for a negative index -/
def isBitSet (a : Int) (n : Int) : Outcome Bool :=
  if n < 0 then ok false else ok (a.natAbs.testBit n.toNat)
/-- `BN_set_bit`: sets the bit in the magnitude, error for a negative index -/
def setBit (a : Int) (n : Int) : Outcome Int :=
  if n < 0 then err
  else
    let mag : Int := ((a.natAbs ||| 2 ^ n.toNat : Nat) : Int)
    ok (if a < 0 then -mag else mag)

def lshift1 (a : Int) : Outcome Int := ok (a * 2)
/-- `BN_rshift1` shifts the magnitude -/
def rshift1 (a : Int) : Outcome Int := ok (Int.tdiv a 2)
/-- `0` for a count above `i32::MAX`, else `BN_rshift(.., n as i32)`: shifts the magnitude -/
def rshift (a : Int) (n : Nat) : Outcome Int :=
  if n > 2147483647 then ok 0      -- `n > i32::MAX as u32`: every bit is shifted out
  else if natBits a.natAbs ≤ n then ok 0
  else ok (Int.tdiv a ((2 ^ n : Nat) : Int))

def addWord (a : Int) (w : Nat) : Outcome Int := ok (a + w)
def subWord (a : Int) (w : Nat) : Outcome Int := ok (a - w)
def mulWord (a : Int) (w : Nat) : Outcome Int := ok (a * w)
/-- `BN_div_word`: error on zero, truncates the magnitude -/
def divWord (a : Int) (w : Nat) : Outcome Int := if w = 0 then err else ok (Int.tdiv a w)
/-- `to_owned()` then `add_word(1)` -/
def increment (a : Int) : Outcome Int := ok (a + 1)
/-- `to_owned()` then `sub_word(1)` -/
def decrement (a : Int) : Outcome Int := ok (a - 1)
/-- `from_u32(n: usize)`: `BigNum::from_u32` for `n ≤ u32::MAX`, else through the decimal text -/
def fromU32 (n : Nat) : Outcome Int := ok (n : Int)

/-- `BN_bin2bn` -/
def fromBytes (bs : Bytes) : Outcome Int := ok (ofDigits 256 bs : Nat)
/-- `BN_bn2bin`: magnitude, empty for zero -/
def toBytes (a : Int) : Outcome Bytes := ok (toDigits 256 a.natAbs)

/-- `BN_bn2dec` -/
def toDec (a : Int) : Outcome Text :=
  let ds := if a = 0 then ['0'] else (toDigits 10 a.natAbs).map digitChar
  ok (if a < 0 then '-' :: ds else ds)
/-- `BN_bn2hex`: two upper-case digits per byte of the magnitude, `"0"` for zero -/
def toHex (a : Int) : Outcome Text :=
  let ds := if a = 0 then ['0'] else hexOfBytes (toDigits 256 a.natAbs)
  ok (if a < 0 then '-' :: ds else ds)

/-- value of the maximal digit prefix together with its length -/
def digitPrefix (radix : Nat) : Text → Nat → Nat → Nat × Nat
  | [], acc, len => (acc, len)
  | c :: cs, acc, len =>
    match radixDigit radix c with
    | some d => digitPrefix radix cs (acc * radix + d) (len + 1)
    | none => (acc, len)

/-- `BN_dec2bn` / `BN_hex2bn` behind `BigNum::from_dec_str` / `from_hex_str`: the openssl crate
builds a `CString` first (`unwrap`: panics on an interior NUL); then an optional `-` and the
maximal digit prefix are converted, whatever follows is ignored; no digit → error -/
def parsePrefix (radix : Nat) (s : Text) : Outcome Int :=
  if s.any (fun c => c.toNat = 0) then panic
  else if s.head? = some '-' then
    (let r := digitPrefix radix s.tail 0 0
     if r.2 = 0 then err else ok (-(r.1 : Int)))
  else
    (let r := digitPrefix radix s 0 0
     if r.2 = 0 then err else ok (r.1 : Int))

def fromDec (s : Text) : Outcome Int := if !isNumeral 10 s then err else parsePrefix 10 s
def fromHex (s : Text) : Outcome Int := if !isNumeral 16 s then err else parsePrefix 16 s

def ops : Ops := { numBits := numBits, isBitSet := isBitSet, setBit := setBit, modExp := modExp }

end Ossl

def Spec.ops : Ops :=
  { numBits := Spec.numBits, isBitSet := Spec.isBitSet, setBit := Spec.setBit, modExp := Spec.modExpFast }

/-- the three conditions over integer arithmetic (`C17.semiprime_spec`: for `n ≠ 0`, `p, q ≥ 0`
this is `g ≠ 1 ∧ g^p % n ≠ 1 ∧ g^q % n ≠ 1`) -/
def Spec.generatesSemiprimeSubgroup (g p q n : Int) : Outcome Bool :=
  CL.BN.generatesSemiprimeSubgroup Spec.ops g p q n

/-! ## Deterministic Miller–Rabin (driver-side *test* used by the statistical contracts of the
random / primality operations; nothing is proved about it) -/

def mrDecompose : Nat → Nat → Nat → Nat × Nat
  | 0, d, s => (d, s)
  | f + 1, d, s => if d % 2 = 0 ∧ d ≠ 0 then mrDecompose f (d / 2) (s + 1) else (d, s)

def mrSquareLoop (n : Nat) : Nat → Nat → Bool
  | 0, _ => false
  | k + 1, x =>
    let y := x * x % n
    if y = n - 1 then true else mrSquareLoop n k y

/-- `true` = `a` is not a witness of compositeness of the odd `n > 2` -/
def mrRound (n d s a : Nat) : Bool :=
  let a' := a % n
  if a' = 0 then true
  else
    let x := powMod a' d n
    if x = 1 ∨ x = n - 1 then true else mrSquareLoop n (s - 1) x

def mrBases : List Nat := [2, 3, 5, 7, 11, 13, 17, 19, 23, 29, 31, 37, 41, 43, 47, 53]

/-- Miller–Rabin to the first 16 prime bases (deterministic below 3.3·10^24) -/
def millerRabin (n : Nat) : Bool :=
  if n < 2 then false
  else if n < 4 then true
  else if n % 2 = 0 then false
  else
    let ds := mrDecompose n (n - 1) 0
    mrBases.all fun a => mrRound n ds.1 ds.2 a

end CL.BN
