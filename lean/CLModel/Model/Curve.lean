/-!
# Curve-level codecs of `/repo/src/amcl.rs` (PointG1, PointG2, PointG2Inf, Pair) — import-free

Executable arithmetic on `Nat` for the amcl "bn254" (Nogami BN254) curve:

* `Fp` (`p` below), `Fp2 = Fp[i]/(i²+1)`, `Fp12 = Fp2[w]/(w⁶ − (1+i))`;
* `E : y² = x³ + 2` over `Fp` and the sextic twist `E' : y² = x³ + (1 − i)` over `Fp2`, both
  handled by ONE implementation over `Fp2` parameterised by the coefficient `B` (a point of
  `E(Fp)` is a point with zero imaginary parts); homogeneous projective coordinates with the
  complete addition law of Renes–Costello–Batina for `a = 0` (the same law amcl uses), scalar
  multiplication by double-and-add;
* the byte codecs (`ECP::tobytes/frombytes`, `ECP2::tobytes/frombytes`, `FP12::tobytes/frombytes`
  behind the 128/128/512-byte forms of the wrappers) and the text codec (`to_hex/from_hex`: the
  text exposes amcl's internal representation — per `Fp` component an excess counter `xes` and
  the hexadecimal **Montgomery residue** `x·R mod p`, `R = 2^280`, points as projective triples);
* per primitive two decoders: `impl*` mirrors the repository's code path (`pre_validate_point`,
  `validate_hex`, amcl `from_hex`/`frombytes`, `is_valid_ecp/ecp2/pair`, the infinity rule) and
  `spec*` states the property C16 (exact shape, on the curve, `r•P = O`, identity only where the
  type allows it, `g^r = 1` for pairing values).

The group laws of this arithmetic are NOT proved; the arithmetic is validated against the
`amcl` crate by the correspondence streams `dec` and `ser` (every point of every serialised
object is decoded from its text form here and compared with amcl's byte form).
-/
namespace CL.Curve

/-- result of a modelled decoder: `dep` = outside the modelled domain of the dependency (amcl
arithmetic on a representation that violates its own invariants); no claim is made there -/
inductive Res (α : Type) where
  | ok (a : α)
  | err
  | panic
  | dep
deriving Repr, BEq, DecidableEq

def Res.tag {α : Type} : Res α → String
  | .ok _ => "ok"
  | .err => "err"
  | .panic => "panic"
  | .dep => "dep"

/-! ## constants -/

/-- field modulus (`rom::MODULUS`) -/
def p : Nat := 0x2523648240000001BA344D80000000086121000000000013A700000000000013
/-- group order (`rom::CURVE_ORDER`) -/
def r : Nat := 0x2523648240000001BA344D8000000007FF9F800000000010A10000000000000D
/-- Montgomery radix `R = 2^(56·5)` reduced: the residue that encodes `1` -/
def Rm : Nat := 0x095E45DDF417D05FB10933FFC63D474548B7FFFF7888802F07FFFFFF7D07A8A8
/-- `R⁻¹ mod p` -/
def Rinv : Nat := 0x10C1FE493CB3DE49E69A572584410ED93014B98C1F5140202B81489D762AE9D8

/-! ## Fp -/

def fadd (a b : Nat) : Nat := (a + b) % p
def fsub (a b : Nat) : Nat := (a + (p - b % p)) % p
def fmul (a b : Nat) : Nat := a * b % p
def fneg (a : Nat) : Nat := (p - a % p) % p

/-- square-and-multiply, most significant bit first, by recursion on the exponent's halves;
fuel = number of bits -/
def fpowAux : Nat → Nat → Nat → Nat
  | 0, _, _ => 1 % p
  | fuel + 1, b, e =>
    if e = 0 then 1 % p
    else
      let h := fpowAux fuel b (e / 2)
      let s := fmul h h
      if e % 2 = 1 then fmul s b else s

def fpow (b e : Nat) : Nat := fpowAux 1100 b e

/-- inverse by Fermat (`0 ↦ 0`, as amcl's `FP::inverse`) -/
def finv (a : Nat) : Nat := fpow a (p - 2)

/-- square root for `p ≡ 3 (mod 4)`: `a^((p+1)/4)` (a root iff `a` is a square) -/
def fsqrtCand (a : Nat) : Nat := fpow a ((p + 1) / 4)

/-! ## Fp2 -/

structure F2 where
  a : Nat
  b : Nat
deriving Repr, BEq, DecidableEq

namespace F2
def zero : F2 := ⟨0, 0⟩
def one : F2 := ⟨1, 0⟩
def ofNat (n : Nat) : F2 := ⟨n % p, 0⟩
def add (x y : F2) : F2 := ⟨fadd x.a y.a, fadd x.b y.b⟩
def sub (x y : F2) : F2 := ⟨fsub x.a y.a, fsub x.b y.b⟩
def neg (x : F2) : F2 := ⟨fneg x.a, fneg x.b⟩
def mul (x y : F2) : F2 :=
  ⟨fsub (fmul x.a y.a) (fmul x.b y.b), fadd (fmul x.a y.b) (fmul x.b y.a)⟩
def sqr (x : F2) : F2 := mul x x
def smul (k : Nat) (x : F2) : F2 := ⟨fmul k x.a, fmul k x.b⟩
/-- `1/(a+bi) = (a − bi)/(a²+b²)` (`0 ↦ 0`) -/
def inv (x : F2) : F2 :=
  let n := finv (fadd (fmul x.a x.a) (fmul x.b x.b))
  ⟨fmul x.a n, fmul (fneg x.b) n⟩
def red (x : F2) : F2 := ⟨x.a % p, x.b % p⟩
def isZero (x : F2) : Bool := x.a % p == 0 && x.b % p == 0
def eqv (x y : F2) : Bool := x.a % p == y.a % p && x.b % p == y.b % p
end F2

/-! ## points in homogeneous projective coordinates over `Fp2` -/

structure Pt where
  x : F2
  y : F2
  z : F2
deriving Repr, BEq, DecidableEq

/-- coefficient of `E : y² = x³ + 2` -/
def B1 : F2 := ⟨2, 0⟩
/-- coefficient of the twist `E' : y² = x³ + (1 − i)` (`b/ξ`, `ξ = 1 + i`, D-type twist) -/
def B2 : F2 := ⟨1, p - 1⟩

def Pt.id : Pt := ⟨F2.zero, F2.one, F2.zero⟩
def Pt.ofAffine (x y : F2) : Pt := ⟨x, y, F2.one⟩
def Pt.isId (P : Pt) : Bool := P.z.isZero

/-- `Y²Z = X³ + B·Z³` -/
def onCurveProj (B : F2) (P : Pt) : Bool :=
  F2.eqv (F2.mul (F2.sqr P.y) P.z)
    (F2.add (F2.mul (F2.sqr P.x) P.x) (F2.mul B (F2.mul (F2.sqr P.z) P.z)))

/-- `y² = x³ + B` -/
def onCurveAff (B : F2) (x y : F2) : Bool :=
  F2.eqv (F2.sqr y) (F2.add (F2.mul (F2.sqr x) x) B)

/-- complete addition for `a = 0` (Renes–Costello–Batina 2015, Alg. 7), `b3 = 3B` -/
def padd (B : F2) (P Q : Pt) : Pt :=
  let b3 := F2.smul 3 B
  let A := F2.mul P.x Q.x
  let Bv := F2.mul P.y Q.y
  let C := F2.mul P.z Q.z
  let D := F2.add (F2.mul P.x Q.y) (F2.mul Q.x P.y)
  let E := F2.add (F2.mul P.y Q.z) (F2.mul Q.y P.z)
  let F := F2.add (F2.mul P.x Q.z) (F2.mul Q.x P.z)
  let b3C := F2.mul b3 C
  let m := F2.sub Bv b3C
  let s := F2.add Bv b3C
  let a3 := F2.smul 3 A
  let b3F := F2.mul b3 F
  ⟨F2.sub (F2.mul D m) (F2.mul E b3F),
   F2.add (F2.mul b3F a3) (F2.mul m s),
   F2.add (F2.mul s E) (F2.mul a3 D)⟩

/-- double-and-add on the bits of `k` (most significant first); fuel = number of bits -/
def pmulAux (B : F2) : Nat → Nat → Pt → Pt
  | 0, _, _ => Pt.id
  | fuel + 1, k, P =>
    if k = 0 then Pt.id
    else
      let h := pmulAux B fuel (k / 2) P
      let d := padd B h h
      if k % 2 = 1 then padd B d P else d

def pmul (B : F2) (k : Nat) (P : Pt) : Pt := pmulAux B 300 k P

/-- membership in the subgroup of order `r`: `r•P = O` -/
def inSubgroup (B : F2) (P : Pt) : Bool := (pmul B r P).isId

/-- affine coordinates `(X/Z, Y/Z)` (`Z = 0 ↦ (0, 0)` through `inv 0 = 0`) -/
def toAffine (P : Pt) : F2 × F2 :=
  let zi := F2.inv P.z
  (F2.mul P.x zi, F2.mul P.y zi)

/-! ## bytes -/

abbrev Bytes := List Nat

/-- big-endian value -/
def beNat (bs : Bytes) : Nat := bs.foldl (fun acc b => acc * 256 + b) 0

/-- `n` big-endian bytes of `v` (the low `n` bytes) -/
def toBE : Nat → Nat → Bytes
  | 0, _ => []
  | n + 1, v => toBE n (v / 256) ++ [v % 256]

def slice (bs : Bytes) (off len : Nat) : Bytes := (bs.drop off).take len

/-- the 128-byte form of a point of `E'(Fp2)` given by affine coordinates: `x.a‖x.b‖y.a‖y.b` -/
def g2BytesOfAffine (x y : F2) : Bytes :=
  toBE 32 (x.a % p) ++ toBE 32 (x.b % p) ++ toBE 32 (y.a % p) ++ toBE 32 (y.b % p)

/-- the identity is written as `(0, 1)` (`ECP2::inf` then `tobytes`) -/
def g2IdBytes : Bytes := g2BytesOfAffine F2.zero F2.one

/-- the 128-byte form of a point of `E(Fp)`: `04‖x‖y‖0^63` (`MODBYTES·4` kept "for compatibility") -/
def g1BytesOfAffine (x y : Nat) : Bytes :=
  [4] ++ toBE 32 (x % p) ++ toBE 32 (y % p) ++ List.replicate 63 0

def g1IdBytes : Bytes := g1BytesOfAffine 0 1

/-- a decoded G2 value: the identity or an affine point -/
inductive AffPt where
  | inf
  | aff (x y : F2)
deriving Repr, BEq, DecidableEq

def AffPt.toPt : AffPt → Pt
  | .inf => Pt.id
  | .aff x y => Pt.ofAffine x y

def AffPt.g2Bytes : AffPt → Bytes
  | .inf => g2IdBytes
  | .aff x y => g2BytesOfAffine x y

def AffPt.g1Bytes : AffPt → Bytes
  | .inf => g1IdBytes
  | .aff x y => g1BytesOfAffine x.a y.a

/-- `PointG2::from_bytes_inf` (behind `PointG2Inf::from_bytes`, `Accumulator::from_bytes`): only the
length is checked by the wrapper; `ECP2::frombytes` reduces every coordinate modulo `p` and
returns the IDENTITY, without an error, when the pair is not on the curve -/
def implG2BytesInf (bs : Bytes) : Res AffPt :=
  if bs.length ≠ 128 then .err
  else
    let x : F2 := ⟨beNat (slice bs 0 32) % p, beNat (slice bs 32 32) % p⟩
    let y : F2 := ⟨beNat (slice bs 64 32) % p, beNat (slice bs 96 32) % p⟩
    if onCurveAff B2 x y then .ok (.aff x y) else .ok .inf

/-- `PointG2::from_bytes` (`Tail`, keys, proofs — the types that must not hold the identity):
`from_bytes_inf`, then the identity and everything that `to_bytes` does not write back as the same
128 bytes are refused (garbage that became the identity, unreduced coordinates) -/
def implG2Bytes (bs : Bytes) : Res AffPt :=
  match implG2BytesInf bs with
  | .ok (.aff x y) => if g2BytesOfAffine x y = bs then .ok (.aff x y) else .err
  | .ok .inf => .err
  | .err => .err
  | .panic => .panic
  | .dep => .dep

/-- the property for the 128-byte G2 form: exact length, every coordinate `< p`, on the curve,
in the subgroup of order `r`; the identity `(0,1)` only for `PointG2Inf` (accumulator, witness) -/
def specG2Bytes (allowInf : Bool) (bs : Bytes) : Res AffPt :=
  if bs.length ≠ 128 then .err
  else
    let xa := beNat (slice bs 0 32)
    let xb := beNat (slice bs 32 32)
    let ya := beNat (slice bs 64 32)
    let yb := beNat (slice bs 96 32)
    if xa ≥ p ∨ xb ≥ p ∨ ya ≥ p ∨ yb ≥ p then .err
    else if bs = g2IdBytes then (if allowInf then .ok .inf else .err)
    else if onCurveAff B2 ⟨xa, xb⟩ ⟨ya, yb⟩ && inSubgroup B2 (Pt.ofAffine ⟨xa, xb⟩ ⟨ya, yb⟩)
    then .ok (.aff ⟨xa, xb⟩ ⟨ya, yb⟩) else .err

/-- `ECP::frombytes` behind `PointG1::from_bytes`: byte 0 selects the form (`04` uncompressed,
`02/03` compressed with the parity of `y`), bytes 65..127 are ignored; `x ≥ p`, `y ≥ p`, a pair
that is not on the curve, an `x` without a square root and every other tag give the IDENTITY
without an error -/
def amclG1FromBytes (bs : Bytes) : Res AffPt :=
  if bs.length ≠ 128 then .err
  else
    let tag := bs.headD 0
    let x := beNat (slice bs 1 32)
    if x ≥ p then .ok .inf
    else if tag = 4 then
      let y := beNat (slice bs 33 32)
      if y ≥ p then .ok .inf
      else if onCurveAff B1 ⟨x, 0⟩ ⟨y, 0⟩ then .ok (.aff ⟨x, 0⟩ ⟨y, 0⟩) else .ok .inf
    else if tag = 2 ∨ tag = 3 then
      let rhs := fadd (fmul (fmul x x) x) 2
      let y0 := fsqrtCand rhs
      if rhs ≠ 0 ∧ fmul y0 y0 = rhs then
        let y := if y0 % 2 = tag % 2 then y0 else fneg y0
        .ok (.aff ⟨x, 0⟩ ⟨y, 0⟩)
      else .ok .inf
    else .ok .inf

/-- `PointG1::from_bytes`: `ECP::frombytes`, then the identity and everything that `to_bytes` does
not write back as the same 128 bytes are refused (garbage that became the identity, compressed
forms, non-zero padding) -/
def implG1Bytes (bs : Bytes) : Res AffPt :=
  match amclG1FromBytes bs with
  | .ok (.aff x y) => if g1BytesOfAffine x.a y.a = bs then .ok (.aff x y) else .err
  | .ok .inf => .err
  | .err => .err
  | .panic => .panic
  | .dep => .dep

/-- the property for the 128-byte G1 form: `04‖x‖y‖0^63`, `x, y < p`, on the curve, `r•P = O`,
never the identity (`PointG1` has no identity-carrying type) -/
def specG1Bytes (bs : Bytes) : Res AffPt :=
  if bs.length ≠ 128 then .err
  else
    let x := beNat (slice bs 1 32)
    let y := beNat (slice bs 33 32)
    if bs.headD 0 ≠ 4 ∨ x ≥ p ∨ y ≥ p ∨ slice bs 65 63 ≠ List.replicate 63 0 then .err
    else if onCurveAff B1 ⟨x, 0⟩ ⟨y, 0⟩ && inSubgroup B1 (Pt.ofAffine ⟨x, 0⟩ ⟨y, 0⟩)
    then .ok (.aff ⟨x, 0⟩ ⟨y, 0⟩) else .err

/-! ## Fp12 = Fp2[w]/(w⁶ − ξ), ξ = 1 + i

amcl's tower is `FP4 = FP2[j]/(j² − ξ)`, `FP12 = FP4[v]/(v³ − j)`; with `w = v` (`w³ = j`,
`w⁶ = ξ`) an element `Σₖ (aₖ + bₖ j) vᵏ` has the coefficient `aₖ` at `wᵏ` and `bₖ` at `w^(k+3)`.
The wire order is `a₀ b₀ a₁ b₁ a₂ b₂` (each an `Fp2`). -/

abbrev F12 := List F2   -- six coefficients c₀..c₅ of w⁰..w⁵

def xi : F2 := ⟨1, 1⟩

def F12.one : F12 := [F2.one, F2.zero, F2.zero, F2.zero, F2.zero, F2.zero]

def getC (x : F12) (i : Nat) : F2 := x.getD i F2.zero

/-- coefficient `k` of the product: `Σ_{i+j=k} xᵢyⱼ + ξ·Σ_{i+j=k+6} xᵢyⱼ` -/
def mulCoeff (x y : F12) (k : Nat) : F2 :=
  let lo := (List.range (k + 1)).foldl (fun acc i => F2.add acc (F2.mul (getC x i) (getC y (k - i)))) F2.zero
  let hi := (List.range 6).foldl (fun acc i =>
    if i ≥ k + 1 then F2.add acc (F2.mul (getC x i) (getC y (k + 6 - i))) else acc) F2.zero
  F2.add lo (F2.mul xi hi)

def F12.mul (x y : F12) : F12 := (List.range 6).map (mulCoeff x y)

def F12.isZero (x : F12) : Bool := (List.range 6).all fun i => (getC x i).isZero
def F12.isOne (x : F12) : Bool :=
  F2.eqv (getC x 0) F2.one && (List.range 5).all fun i => (getC x (i + 1)).isZero

def f12powAux : Nat → F12 → Nat → F12
  | 0, _, _ => F12.one
  | fuel + 1, b, e =>
    if e = 0 then F12.one
    else
      let h := f12powAux fuel b (e / 2)
      let s := F12.mul h h
      if e % 2 = 1 then F12.mul s b else s

def F12.pow (b : F12) (e : Nat) : F12 := f12powAux 1100 b e

/-- wire order `a₀ b₀ a₁ b₁ a₂ b₂` → coefficient order `c₀..c₅` -/
def f12OfWire (l : List F2) : F12 :=
  [l.getD 0 F2.zero, l.getD 2 F2.zero, l.getD 4 F2.zero, l.getD 1 F2.zero, l.getD 3 F2.zero, l.getD 5 F2.zero]

def f12ToWire (x : F12) : List F2 :=
  [getC x 0, getC x 3, getC x 1, getC x 4, getC x 2, getC x 5]

def f12Bytes (x : F12) : Bytes :=
  ((f12ToWire x).map fun c => toBE 32 (c.a % p) ++ toBE 32 (c.b % p)).flatten ++ List.replicate 128 0

/-- order of the cyclotomic subgroup tested by `is_valid_pair`: `p⁴ − p² + 1` -/
def cycOrder : Nat := p ^ 4 - p ^ 2 + 1

/-- `Pair::from_bytes`: only the length (512 = `MODBYTES·16`, of which 384 are used) is checked;
every coordinate is reduced modulo `p`; NO membership test of any kind -/
def implPairBytes (bs : Bytes) : Res F12 :=
  if bs.length ≠ 512 then .err
  else .ok (f12OfWire ((List.range 6).map fun k =>
    (⟨beNat (slice bs (64 * k) 32) % p, beNat (slice bs (64 * k + 32) 32) % p⟩ : F2)))

/-- the property for the 512-byte form: exact length, coordinates `< p`, zero padding, `g^r = 1` -/
def specPairBytes (bs : Bytes) : Res F12 :=
  if bs.length ≠ 512 then .err
  else
    let cs := (List.range 12).map fun k => beNat (slice bs (32 * k) 32)
    if cs.any (fun c => c ≥ p) ∨ slice bs 384 128 ≠ List.replicate 128 0 then .err
    else
      let g := f12OfWire ((List.range 6).map fun k => (⟨cs.getD (2 * k) 0, cs.getD (2 * k + 1) 0⟩ : F2))
      if (F12.pow g r).isOne then .ok g else .err

/-! ## text -/

/-- Rust `char::is_ascii_whitespace`: space, `\t`, `\n`, form feed, `\r` (NOT vertical tab) -/
def isAsciiWs (c : Char) : Bool :=
  c = ' ' || c = '\t' || c = '\n' || c = '\x0c' || c = '\r'

/-- `str::split_ascii_whitespace` -/
def splitWsAux : List Char → List Char → List (List Char) → List (List Char)
  | [], cur, acc => (if cur = [] then acc else cur.reverse :: acc).reverse
  | c :: cs, cur, acc =>
    if isAsciiWs c then splitWsAux cs [] (if cur = [] then acc else cur.reverse :: acc)
    else splitWsAux cs (c :: cur) acc

def splitWs (s : List Char) : List (List Char) := splitWsAux s [] []

def decDigit (c : Char) : Option Nat :=
  if '0' ≤ c ∧ c ≤ '9' then some (c.toNat - 48) else none

def hexDigit (c : Char) : Option Nat :=
  if '0' ≤ c ∧ c ≤ '9' then some (c.toNat - 48)
  else if 'a' ≤ c ∧ c ≤ 'f' then some (c.toNat - 87)
  else if 'A' ≤ c ∧ c ≤ 'F' then some (c.toNat - 55)
  else none

def digitsVal (base : Nat) (dig : Char → Option Nat) : List Char → Nat → Option Nat
  | [], acc => some acc
  | c :: cs, acc =>
    match dig c with
    | some d => digitsVal base dig cs (acc * base + d)
    | none => none

/-- amcl's bound on the excess counter of a field element: `FEXCESS = 2^SH − 1`, `SH = 26` -/
def FEXCESS : Nat := 67108863

/-- the index token of `pre_validate_point`: Rust `i32::from_str` (an optional `+`/`-`, at least
one ASCII digit, value within `i32`) and `0 < v ≤ FEXCESS` -/
def parsePosI32 (t : List Char) : Option Nat :=
  let body := match t with
    | '+' :: rest => some rest
    | '-' :: _ => none          -- a negative or `-0` index is refused (`v > 0`)
    | _ => some t
  match body with
  | none => none
  | some [] => none
  | some ds =>
    match digitsVal 10 decDigit ds 0 with
    | some v => if 0 < v ∧ v ≤ FEXCESS then some v else none
    | none => none

/-- the residue token: at most `NLEN·BASEBITS/4 = 70` characters (what a `BIG` holds), every one
an ASCII hex digit (`validate_hex`; tokens are never empty) -/
def parseHexTok (t : List Char) : Option Nat :=
  if t.length > 70 then none else digitsVal 16 hexDigit t 0

/-- one `Fp` component as written: the excess counter and the raw residue -/
structure RawFp where
  xes : Nat
  x : Nat
deriving Repr, BEq, DecidableEq

/-- `pre_validate_point(val, n)`: exactly `n` pairs `index hex`, nothing after them -/
def parseComponents : Nat → List (List Char) → Option (List RawFp)
  | 0, [] => some []
  | 0, _ :: _ => none
  | _ + 1, [] => none
  | _ + 1, [_] => none
  | n + 1, i :: h :: rest =>
    match parsePosI32 i, parseHexTok h, parseComponents n rest with
    | some xes, some x, some tl => some (⟨xes, x⟩ :: tl)
    | _, _, _ => none

/-- field element denoted by a residue: `x · R⁻¹ mod p` -/
def denote (c : RawFp) : Nat := c.x % p * Rinv % p

/-- number of significant bits (`0` for `0`) -/
def bitLenAux : Nat → Nat → Nat
  | 0, _ => 0
  | f + 1, n => if n = 0 then 0 else bitLenAux f (n / 2) + 1
def bitLen (n : Nat) : Nat := bitLenAux 64 n

def condSub (x m : Nat) : Nat := if x ≥ m then x - m else x

/-- conditional subtractions of `p·2^(k-1), …, p` -/
def condSubLoop : Nat → Nat → Nat
  | 0, x => x
  | k + 1, x => condSubLoop k (condSub x (p * 2 ^ k))

/-- amcl `FP::reduce` as a function of the raw residue and the excess counter: with `xes ≤ 16`
only `⌈log₂ xes⌉` conditional subtractions are made (none for `xes = 1`); with `xes > 16` a
quotient estimate from the top bits is subtracted first.  The result is `< p` only if the
counter was honest (`x < xes·p`). -/
def amclReduce (c : RawFp) : Nat :=
  if c.xes > 16 then
    let q := (c.x / 2 ^ 222) / (p / 2 ^ 222 + 1)
    condSub (condSub (c.x - q * p) (2 * p)) p
  else condSubLoop (bitLen (c.xes - 1)) c.x

/-- `FP::iszilch` on a component as read -/
def amclIsZero (c : RawFp) : Bool := amclReduce c == 0

/-- `BIG::from_hex` keeps 288 bits (the top limb is shifted without a mask) -/
def truncBig (c : RawFp) : RawFp := ⟨c.xes, c.x % 2 ^ 288⟩

/-- domain on which amcl's modular arithmetic is exact and therefore modelled: the residue fits
`MODBYTES` (`< 2^256`, any counter), or the counter is honest (`x < xes·p`, `xes` below amcl's
own bound `FEXCESS = 2^26 − 1`: what `to_string` writes — up to 70 digits) -/
def inBigDomain (c : RawFp) : Bool := c.x < 2 ^ 256 || (c.x < c.xes * p && c.xes < 2 ^ 26)

/-- the specification reads a residue only if it is a normalised `BIG` (`< 2^280`, five limbs of
56 bits): longer strings would be truncated silently -/
def specDomain (c : RawFp) : Bool := c.x < 2 ^ 280

def hexChar (d : Nat) : Char :=
  if d < 10 then Char.ofNat (48 + d) else Char.ofNat (55 + d)

def hexDigitsFixed : Nat → Nat → List Char → List Char
  | 0, _, acc => acc
  | n + 1, v, acc => hexDigitsFixed n (v / 16) (hexChar (v % 16) :: acc)

def hexLenAux : Nat → Nat → Nat
  | 0, _ => 0
  | f + 1, v => if v = 0 then 0 else hexLenAux f (v / 16) + 1

/-- `BIG::to_hex`: upper case, at least 64 digits -/
def bigHex (v : Nat) : List Char := hexDigitsFixed (max 64 (hexLenAux 80 v)) v []

def natDec (n : Nat) : List Char := (toString n).toList

/-- `FP::to_hex` of every component, separated by one space -/
def rawText (cs : List RawFp) : List Char :=
  (String.intercalate " " (cs.map fun c => String.ofList (natDec c.xes ++ [' '] ++ bigHex c.x))).toList

def rawF2 (a b : RawFp) : F2 := ⟨denote a, denote b⟩

/-- what a text decoder returns: the components as read (they are what `to_string` prints
again) -/
structure TextPt where
  raw : List RawFp
deriving Repr, BEq, DecidableEq

def g1PtOfRaw (cs : List RawFp) : Pt :=
  let g := fun i => cs.getD i ⟨1, 0⟩
  ⟨⟨denote (g 0), 0⟩, ⟨denote (g 1), 0⟩, ⟨denote (g 2), 0⟩⟩

def g2PtOfRaw (cs : List RawFp) : Pt :=
  let g := fun i => cs.getD i ⟨1, 0⟩
  ⟨rawF2 (g 0) (g 1), rawF2 (g 2) (g 3), rawF2 (g 4) (g 5)⟩

/-- `ECP::is_infinity` on the components as read: `x` and `z` are "zero" according to
`FP::iszilch`, which only reduces as far as the excess counter says -/
def g1AmclIsInf (cs : List RawFp) : Bool :=
  amclIsZero (cs.getD 0 ⟨1, 0⟩) && amclIsZero (cs.getD 2 ⟨1, 0⟩)

def g2AmclIsInf (cs : List RawFp) : Bool :=
  amclIsZero (cs.getD 0 ⟨1, 0⟩) && amclIsZero (cs.getD 1 ⟨1, 0⟩) &&
  amclIsZero (cs.getD 4 ⟨1, 0⟩) && amclIsZero (cs.getD 5 ⟨1, 0⟩)

/-- the identity test of `from_string_inf`: `x` and `z` are zero modulo `p` (`redc`, then `rmod`),
whichever multiple of `p` the residue is and whatever the counter says -/
def g1IsInf (cs : List RawFp) : Bool :=
  denote (cs.getD 0 ⟨1, 0⟩) == 0 && denote (cs.getD 2 ⟨1, 0⟩) == 0

def g2IsInf (cs : List RawFp) : Bool :=
  denote (cs.getD 0 ⟨1, 0⟩) == 0 && denote (cs.getD 1 ⟨1, 0⟩) == 0 &&
  denote (cs.getD 4 ⟨1, 0⟩) == 0 && denote (cs.getD 5 ⟨1, 0⟩) == 0

/-- what `ECP::inf` / `ECP2::inf` leave behind: `x = 0`, `y = 1` (Montgomery residue `Rm`, counter 2
after `nres`), `z = 0`.  A decoded value that is the identity (`g1IsInf` / `g2IsInf`) is
normalised to this representation (any `(0 : y : 0)`, even `(0 : 0 : 0)`). -/
def g1IdRaw : List RawFp := [⟨1, 0⟩, ⟨2, Rm⟩, ⟨1, 0⟩]
def g2IdRaw : List RawFp := [⟨1, 0⟩, ⟨1, 0⟩, ⟨2, Rm⟩, ⟨1, 0⟩, ⟨1, 0⟩, ⟨1, 0⟩]

/-- `PointG1::from_string` (`allowInf = false`) / `from_string_inf`: `pre_validate_point(3)`,
`ECP::from_hex`, `is_valid_ecp` (projective curve equation only), then the infinity rule -/
def implG1Text (allowInf : Bool) (s : List Char) : Res TextPt :=
  match parseComponents 3 (splitWs s) with
  | none => .err
  | some cs0 =>
    let cs := cs0.map truncBig
    if !(cs.all inBigDomain) then .dep
    else if !(onCurveProj B1 (g1PtOfRaw cs)) then .err
    else if g1IsInf cs then (if allowInf then .ok ⟨g1IdRaw⟩ else .err)
    else .ok ⟨cs⟩

/-- amcl's `Fp2` squaring negates a component after reducing it only as far as its counter
says; the model covers components whose counter is honest enough for `reduce` to finish
(`amclReduce c < p`) and whose counters cannot overflow an `i32` when added -/
def g2Honest (cs : List RawFp) : Bool := cs.all fun c => amclReduce c < p && c.xes < 2 ^ 30

/-- `PointG2::from_string` / `from_string_inf` (`PointG2Inf`, `Accumulator`, `Witness`):
`pre_validate_point(6)`, `ECP2::from_hex`, `is_valid_ecp2` (curve equation only — NO subgroup
test), then the infinity rule -/
def implG2Text (allowInf : Bool) (s : List Char) : Res TextPt :=
  match parseComponents 6 (splitWs s) with
  | none => .err
  | some cs0 =>
    let cs := cs0.map truncBig
    if !(cs.all inBigDomain) || !(g2Honest cs) then .dep
    else if !(onCurveProj B2 (g2PtOfRaw cs)) then .err
    else if g2IsInf cs then (if allowInf then .ok ⟨g2IdRaw⟩ else .err)
    else .ok ⟨cs⟩

/-- bytes written by `to_bytes` for a value given by its components: a value that amcl's
`is_infinity` reports as the identity is written as the canonical identity (`inf()` first),
every other value through `affine()` -/
def g1TextBytes (t : TextPt) : Bytes :=
  let P := g1PtOfRaw t.raw
  if g1AmclIsInf t.raw then g1IdBytes
  else let a := toAffine P; g1BytesOfAffine a.1.a a.2.a

def g2TextBytes (t : TextPt) : Bytes :=
  let P := g2PtOfRaw t.raw
  if g2AmclIsInf t.raw then g2IdBytes
  else let a := toAffine P; g2BytesOfAffine a.1 a.2

/-- the property for the text forms of points: exact component count; every index a positive
`i32`; every residue a normalised `BIG` (`< 2^280`, no silent truncation); the denoted projective
point is on the curve and `r•P = O`; the identity — `x = z = 0`; any `y`, because the all-zero
triple is a spelling of the empty accumulator that the repository's own suite requires to stay
readable (`deser_infinity_accum`) — only where the type allows it -/
def specPointText (B : F2) (ncomp : Nat) (ofRaw : List RawFp → Pt) (allowInf : Bool) (s : List Char) :
    Res TextPt :=
  match parseComponents ncomp (splitWs s) with
  | none => .err
  | some cs =>
    if !(cs.all specDomain) then .err
    else
      let P := ofRaw cs
      if P.z.isZero then
        (if allowInf && P.x.isZero then .ok ⟨cs⟩ else .err)
      else if onCurveProj B P && inSubgroup B P then .ok ⟨cs⟩ else .err

def specG1Text (s : List Char) : Res TextPt := specPointText B1 3 g1PtOfRaw false s
def specG2Text (allowInf : Bool) (s : List Char) : Res TextPt := specPointText B2 6 g2PtOfRaw allowInf s

/-- canonical bytes of a value accepted by the specification -/
def specG1TextBytes (t : TextPt) : Bytes :=
  let P := g1PtOfRaw t.raw
  if P.z.isZero then g1IdBytes else let a := toAffine P; g1BytesOfAffine a.1.a a.2.a

def specG2TextBytes (t : TextPt) : Bytes :=
  let P := g2PtOfRaw t.raw
  if P.z.isZero then g2IdBytes else let a := toAffine P; g2BytesOfAffine a.1 a.2

def f12OfRaw (cs : List RawFp) : F12 :=
  let g := fun i => cs.getD i ⟨1, 0⟩
  f12OfWire ((List.range 6).map fun k => rawF2 (g (2 * k)) (g (2 * k + 1)))

/-- the Frobenius-based test of `is_valid_pair` conjugates (negates) components as read: the
model covers honest counters (`x < xes·p`) below `2^20` -/
def pairHonest (cs : List RawFp) : Bool := cs.all fun c => c.x < c.xes * p && c.xes < 2 ^ 20

/-- `Pair::from_string`: `pre_validate_point(12)`, `FP12::from_hex`, `is_valid_pair`:
`frob²(g) = frob⁴(g)·g`, i.e. `g^(p⁴−p²+1) = 1` **or `g = 0`** — membership in the cyclotomic
subgroup (order `p⁴−p²+1 = r·h`), not in the subgroup of order `r` -/
def implPairText (s : List Char) : Res TextPt :=
  match parseComponents 12 (splitWs s) with
  | none => .err
  | some cs0 =>
    let cs := cs0.map truncBig
    if !(cs.all inBigDomain) || !(pairHonest cs) then .dep
    else
      let g := f12OfRaw cs
      if g.isZero || (F12.pow g cycOrder).isOne then .ok ⟨cs⟩ else .err

/-- the property for pairing values in text form: `g^r = 1` -/
def specPairText (s : List Char) : Res TextPt :=
  match parseComponents 12 (splitWs s) with
  | none => .err
  | some cs =>
    if !(cs.all specDomain) then .err
    else if (F12.pow (f12OfRaw cs) r).isOne then .ok ⟨cs⟩ else .err

def pairTextBytes (t : TextPt) : Bytes := f12Bytes (f12OfRaw t.raw)

/-- canonical text of an affine point of `E'`: counters `1`, Montgomery residues, `z = 1` -/
def g2TextOfAffine (x y : F2) : List Char :=
  rawText [⟨1, x.a % p * Rm % p⟩, ⟨1, x.b % p * Rm % p⟩, ⟨1, y.a % p * Rm % p⟩, ⟨1, y.b % p * Rm % p⟩,
           ⟨1, Rm⟩, ⟨1, 0⟩]

def g1TextOfAffine (x y : Nat) : List Char :=
  rawText [⟨1, x % p * Rm % p⟩, ⟨1, y % p * Rm % p⟩, ⟨1, Rm⟩]

end CL.Curve
