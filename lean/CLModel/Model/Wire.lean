/-!
# Wire layout of the serialisable public types (`/repo/src/types.rs`, serde) — import-free

* `J`: a small JSON-like tree (what `serde_json` and named MessagePack documents look like);
* `table`: per type the frozen layout — field names as written (incl. `ge_proofs`, the camelCase
  names of `RevocationRegistryDelta`), kinds of the leaves, skip-if-empty/None rules, defaults on
  input, transparent newtypes (`Accumulator`, `Tail`), the legacy field of the two hand-written
  `Deserialize` impls; `recorded` is the flat rendering (token lists) recorded from the source tree by
  `tools/record_wire.py` (`wire_tables_frozen : flat table = recorded`);
* the two legacy conversions (`rms → r["master_secret"]`, `m1 → m["master_secret"]`, skipped when
  the legacy field is zero) as functions on `J`, generic in the field names (`LegacySpec`);
* the layout logic of `RevocationRegistryDelta` (empties omitted on output, defaulted on input),
  in the human-readable named form (JSON) and in the positional form that compact
  MessagePack (`rmp_serde::to_vec`) uses (all four fields: the hand-written `Serialize` omits
  empties in human-readable formats only).

Leaves (big numbers, points, scalars) are opaque sub-trees here; their codecs are
`Model/BigNum.lean`, `Model/Scalar.lean`, `Model/Curve.lean`.
-/
namespace CL.Wire

inductive J where
  | null
  | bool (b : Bool)
  | num (n : Int)
  | str (s : String)
  | arr (l : List J)
  | obj (kvs : List (String × J))
deriving Repr, BEq, Inhabited

def J.isNull : J → Bool
  | .null => true
  | _ => false

abbrev Obj := List (String × J)

/-- first value stored under `k` -/
def getField (k : String) : Obj → Option J
  | [] => none
  | (k', v) :: t => if k' = k then some v else getField k t

/-- replace the first value stored under `k` -/
def setField (k : String) (v : J) : Obj → Obj
  | [] => []
  | (k', v') :: t => if k' = k then (k, v) :: t else (k', v') :: setField k v t

/-- remove every entry stored under `k` -/
def dropField (k : String) : Obj → Obj
  | [] => []
  | (k', v') :: t => if k' = k then dropField k t else (k', v') :: dropField k t

/-- `HashMap::insert` on an association list: the new entry replaces an old one -/
def mapInsert (k : String) (v : J) (m : Obj) : Obj := (k, v) :: dropField k m

/-! ## the layout table -/

inductive Kind where
  | bn | sc | g1 | g2 | g2inf | pair | u32 | i32 | str | u8vec | setStr | setU32 | pairStrBn
  | ref (ty : String)
  | opt (k : Kind)
  | vec (k : Kind)
  | mapStr (k : Kind)
deriving Repr, BEq, DecidableEq, Inhabited

/-- a field the hand-written `Serialize` impls leave out when `None` / empty — in HUMAN-READABLE
formats only; binary formats (compact MessagePack is positional) always carry every field -/
inductive Skip where
  | never | ifNone | ifEmpty
deriving Repr, BEq, DecidableEq

structure Field where
  name : String
  kind : Kind
  skip : Skip
  dflt : Bool
deriving Repr, BEq, DecidableEq

inductive Layout where
  /-- fields in declaration order; the legacy field accepted on input (if any; it is the LAST slot
  of the `…V1` helper struct, so that positional formats carrying the current fields decode);
  `true` if the type only implements `Deserialize` -/
  | struct (fields : List Field) (legacy : Option String) (deOnly : Bool)
  | transparent (k : Kind)
  | unitEnum (variants : List String)
  | structEnum (variants : List (String × List Field))
deriving Repr, BEq, DecidableEq

def table : List (String × Layout) :=
  [
    ("CredentialSchema", .struct [⟨"attrs", .setStr, .never, false⟩] none false),
    ("CredentialSchemaBuilder", .struct [⟨"attrs", .setStr, .never, false⟩] none false),
    ("NonCredentialSchema", .struct [⟨"attrs", .setStr, .never, false⟩] none false),
    ("NonCredentialSchemaBuilder", .struct [⟨"attrs", .setStr, .never, false⟩] none false),
    ("CredentialValue", .structEnum [("Known", [⟨"value", .bn, .never, false⟩]), ("Hidden", [⟨"value", .bn, .never, false⟩]), ("Commitment", [⟨"value", .bn, .never, false⟩, ⟨"blinding_factor", .bn, .never, false⟩])]),
    ("CredentialValues", .struct [⟨"attrs_values", .mapStr (.ref "CredentialValue"), .never, false⟩] none false),
    ("CredentialValuesBuilder", .struct [⟨"attrs_values", .mapStr (.ref "CredentialValue"), .never, false⟩] none false),
    ("CredentialPublicKey", .struct [⟨"p_key", .ref "CredentialPrimaryPublicKey", .never, false⟩,
        ⟨"r_key", .opt (.ref "CredentialRevocationPublicKey"), .never, false⟩] none false),
    ("CredentialPrivateKey", .struct [⟨"p_key", .ref "CredentialPrimaryPrivateKey", .never, false⟩,
        ⟨"r_key", .opt (.ref "CredentialRevocationPrivateKey"), .never, false⟩] none false),
    ("CredentialPrimaryPublicKey", .struct [⟨"n", .bn, .never, false⟩,
        ⟨"s", .bn, .never, false⟩,
        ⟨"r", .mapStr (.bn), .never, false⟩,
        ⟨"rctxt", .bn, .never, false⟩,
        ⟨"z", .bn, .never, false⟩] (some "rms") false),
    ("CredentialPrimaryPrivateKey", .struct [⟨"p", .bn, .never, false⟩,
        ⟨"q", .bn, .never, false⟩] none false),
    ("CredentialKeyCorrectnessProof", .struct [⟨"c", .bn, .never, false⟩,
        ⟨"xz_cap", .bn, .never, false⟩,
        ⟨"xr_cap", .vec (.pairStrBn), .never, false⟩] none false),
    ("CredentialRevocationPublicKey", .struct [⟨"g", .g1, .never, false⟩,
        ⟨"g_dash", .g2, .never, false⟩,
        ⟨"h", .g1, .never, false⟩,
        ⟨"h0", .g1, .never, false⟩,
        ⟨"h1", .g1, .never, false⟩,
        ⟨"h2", .g1, .never, false⟩,
        ⟨"htilde", .g1, .never, false⟩,
        ⟨"h_cap", .g2, .never, false⟩,
        ⟨"u", .g2, .never, false⟩,
        ⟨"pk", .g1, .never, false⟩,
        ⟨"y", .g2, .never, false⟩] none false),
    ("CredentialRevocationPrivateKey", .struct [⟨"x", .sc, .never, false⟩,
        ⟨"sk", .sc, .never, false⟩] none false),
    ("Accumulator", .transparent .g2inf),
    ("RevocationRegistry", .struct [⟨"accum", .ref "Accumulator", .never, false⟩] none false),
    ("RevocationRegistryDelta", .struct [⟨"prevAccum", .opt (.ref "Accumulator"), .ifNone, true⟩,
        ⟨"accum", .ref "Accumulator", .never, false⟩,
        ⟨"issued", .setU32, .ifEmpty, true⟩,
        ⟨"revoked", .setU32, .ifEmpty, true⟩] none false),
    ("RevocationKeyPublic", .struct [⟨"z", .pair, .never, false⟩] none false),
    ("RevocationKeyPrivate", .struct [⟨"gamma", .sc, .never, false⟩] none false),
    ("Tail", .transparent .g2),
    ("RevocationTailsGenerator", .struct [⟨"size", .u32, .never, false⟩,
        ⟨"current_index", .u32, .never, false⟩,
        ⟨"g_dash", .g2, .never, false⟩,
        ⟨"gamma", .sc, .never, false⟩,
        ⟨"cur", .opt (.g2), .never, false⟩] none false),
    ("CredentialSignature", .struct [⟨"p_credential", .ref "PrimaryCredentialSignature", .never, false⟩,
        ⟨"r_credential", .opt (.ref "NonRevocationCredentialSignature"), .never, false⟩] none false),
    ("PrimaryCredentialSignature", .struct [⟨"m_2", .bn, .never, false⟩,
        ⟨"a", .bn, .never, false⟩,
        ⟨"e", .bn, .never, false⟩,
        ⟨"v", .bn, .never, false⟩] none false),
    ("NonRevocationCredentialSignature", .struct [⟨"sigma", .g1, .never, false⟩,
        ⟨"c", .sc, .never, false⟩,
        ⟨"vr_prime_prime", .sc, .never, false⟩,
        ⟨"witness_signature", .ref "WitnessSignature", .never, false⟩,
        ⟨"g_i", .g1, .never, false⟩,
        ⟨"i", .u32, .never, false⟩,
        ⟨"m2", .sc, .never, false⟩] none false),
    ("SignatureCorrectnessProof", .struct [⟨"se", .bn, .never, false⟩,
        ⟨"c", .bn, .never, false⟩] none false),
    ("Witness", .struct [⟨"omega", .g2inf, .never, false⟩] none false),
    ("WitnessSignature", .struct [⟨"sigma_i", .g2, .never, false⟩,
        ⟨"u_i", .g2, .never, false⟩,
        ⟨"g_i", .g1, .never, false⟩] none false),
    ("LinkSecret", .struct [⟨"ms", .bn, .never, false⟩] none false),
    ("BlindedCredentialSecrets", .struct [⟨"u", .bn, .never, false⟩,
        ⟨"ur", .opt (.g1), .never, false⟩,
        ⟨"hidden_attributes", .setStr, .never, false⟩,
        ⟨"committed_attributes", .mapStr (.bn), .never, false⟩] none false),
    ("CredentialSecretsBlindingFactors", .struct [⟨"v_prime", .bn, .never, false⟩,
        ⟨"vr_prime", .opt (.sc), .never, false⟩] none false),
    ("BlindedCredentialSecretsCorrectnessProof", .struct [⟨"c", .bn, .never, false⟩,
        ⟨"v_dash_cap", .bn, .never, false⟩,
        ⟨"m_caps", .mapStr (.bn), .never, false⟩,
        ⟨"r_caps", .mapStr (.bn), .never, false⟩] none false),
    ("SubProofRequest", .struct [⟨"revealed_attrs", .setStr, .never, false⟩,
        ⟨"predicates", .vec (.ref "Predicate"), .never, false⟩] none true),
    ("Predicate", .struct [⟨"attr_name", .str, .never, false⟩,
        ⟨"p_type", .ref "PredicateType", .never, false⟩,
        ⟨"value", .i32, .never, false⟩] none false),
    ("PredicateType", .unitEnum ["GE", "LE", "GT", "LT"]),
    ("Proof", .struct [⟨"proofs", .vec (.ref "SubProof"), .never, false⟩,
        ⟨"aggregated_proof", .ref "AggregatedProof", .never, false⟩] none false),
    ("SubProof", .struct [⟨"primary_proof", .ref "PrimaryProof", .never, false⟩,
        ⟨"non_revoc_proof", .opt (.ref "NonRevocProof"), .never, false⟩] none false),
    ("AggregatedProof", .struct [⟨"c_hash", .bn, .never, false⟩,
        ⟨"c_list", .vec (.u8vec), .never, false⟩] none false),
    ("PrimaryProof", .struct [⟨"eq_proof", .ref "PrimaryEqualProof", .never, false⟩,
        ⟨"ge_proofs", .vec (.ref "PrimaryPredicateInequalityProof"), .never, false⟩] none false),
    ("PrimaryEqualProof", .struct [⟨"revealed_attrs", .mapStr (.bn), .never, false⟩,
        ⟨"a_prime", .bn, .never, false⟩,
        ⟨"e", .bn, .never, false⟩,
        ⟨"v", .bn, .never, false⟩,
        ⟨"m", .mapStr (.bn), .never, false⟩,
        ⟨"m2", .bn, .never, false⟩] (some "m1") false),
    ("PrimaryPredicateInequalityProof", .struct [⟨"u", .mapStr (.bn), .never, false⟩,
        ⟨"r", .mapStr (.bn), .never, false⟩,
        ⟨"mj", .bn, .never, false⟩,
        ⟨"alpha", .bn, .never, false⟩,
        ⟨"t", .mapStr (.bn), .never, false⟩,
        ⟨"predicate", .ref "Predicate", .never, false⟩] none false),
    ("NonRevocProof", .struct [⟨"x_list", .ref "NonRevocProofXList", .never, false⟩,
        ⟨"c_list", .ref "NonRevocProofCList", .never, false⟩] none false),
    ("NonRevocProofXList", .struct [⟨"rho", .sc, .never, false⟩,
        ⟨"r", .sc, .never, false⟩,
        ⟨"r_prime", .sc, .never, false⟩,
        ⟨"r_prime_prime", .sc, .never, false⟩,
        ⟨"r_prime_prime_prime", .sc, .never, false⟩,
        ⟨"o", .sc, .never, false⟩,
        ⟨"o_prime", .sc, .never, false⟩,
        ⟨"m", .sc, .never, false⟩,
        ⟨"m_prime", .sc, .never, false⟩,
        ⟨"t", .sc, .never, false⟩,
        ⟨"t_prime", .sc, .never, false⟩,
        ⟨"m2", .opt (.sc), .ifNone, false⟩,
        ⟨"s", .sc, .never, false⟩,
        ⟨"c", .sc, .never, false⟩] none false),
    ("NonRevocProofCList", .struct [⟨"e", .g1, .never, false⟩,
        ⟨"d", .g1, .never, false⟩,
        ⟨"a", .g1, .never, false⟩,
        ⟨"g", .g1, .never, false⟩,
        ⟨"w", .g2, .never, false⟩,
        ⟨"s", .g2, .never, false⟩,
        ⟨"u", .g2, .never, false⟩] none false)
  ]

/-- the flat table recorded from the source tree by `tools/record_wire.py` -/
def recorded : List (List String) :=
  [["CredentialSchema", "attrs", "setStr"],
   ["CredentialSchemaBuilder", "attrs", "setStr"],
   ["NonCredentialSchema", "attrs", "setStr"],
   ["NonCredentialSchemaBuilder", "attrs", "setStr"],
   ["CredentialValue", "Known", "value", "bn"],
   ["CredentialValue", "Hidden", "value", "bn"],
   ["CredentialValue", "Commitment", "value", "bn"],
   ["CredentialValue", "Commitment", "blinding_factor", "bn"],
   ["CredentialValues", "attrs_values", "mapStr", "ref", "CredentialValue"],
   ["CredentialValuesBuilder", "attrs_values", "mapStr", "ref", "CredentialValue"],
   ["CredentialPublicKey", "p_key", "ref", "CredentialPrimaryPublicKey"],
   ["CredentialPublicKey", "r_key", "opt", "ref", "CredentialRevocationPublicKey"],
   ["CredentialPrivateKey", "p_key", "ref", "CredentialPrimaryPrivateKey"],
   ["CredentialPrivateKey", "r_key", "opt", "ref", "CredentialRevocationPrivateKey"],
   ["CredentialPrimaryPublicKey", "n", "bn"],
   ["CredentialPrimaryPublicKey", "s", "bn"],
   ["CredentialPrimaryPublicKey", "r", "mapStr", "bn"],
   ["CredentialPrimaryPublicKey", "rctxt", "bn"],
   ["CredentialPrimaryPublicKey", "z", "bn"],
   ["CredentialPrimaryPrivateKey", "p", "bn"],
   ["CredentialPrimaryPrivateKey", "q", "bn"],
   ["CredentialKeyCorrectnessProof", "c", "bn"],
   ["CredentialKeyCorrectnessProof", "xz_cap", "bn"],
   ["CredentialKeyCorrectnessProof", "xr_cap", "vec", "pairStrBn"],
   ["CredentialRevocationPublicKey", "g", "g1"],
   ["CredentialRevocationPublicKey", "g_dash", "g2"],
   ["CredentialRevocationPublicKey", "h", "g1"],
   ["CredentialRevocationPublicKey", "h0", "g1"],
   ["CredentialRevocationPublicKey", "h1", "g1"],
   ["CredentialRevocationPublicKey", "h2", "g1"],
   ["CredentialRevocationPublicKey", "htilde", "g1"],
   ["CredentialRevocationPublicKey", "h_cap", "g2"],
   ["CredentialRevocationPublicKey", "u", "g2"],
   ["CredentialRevocationPublicKey", "pk", "g1"],
   ["CredentialRevocationPublicKey", "y", "g2"],
   ["CredentialRevocationPrivateKey", "x", "sc"],
   ["CredentialRevocationPrivateKey", "sk", "sc"],
   ["Accumulator", "transparent", "g2inf"],
   ["RevocationRegistry", "accum", "ref", "Accumulator"],
   ["RevocationRegistryDelta", "prevAccum", "opt", "ref", "Accumulator", "skipIfNone", "hrOnly", "default"],
   ["RevocationRegistryDelta", "accum", "ref", "Accumulator"],
   ["RevocationRegistryDelta", "issued", "setU32", "skipIfEmpty", "hrOnly", "default"],
   ["RevocationRegistryDelta", "revoked", "setU32", "skipIfEmpty", "hrOnly", "default"],
   ["RevocationKeyPublic", "z", "pair"],
   ["RevocationKeyPrivate", "gamma", "sc"],
   ["Tail", "transparent", "g2"],
   ["RevocationTailsGenerator", "size", "u32"],
   ["RevocationTailsGenerator", "current_index", "u32"],
   ["RevocationTailsGenerator", "g_dash", "g2"],
   ["RevocationTailsGenerator", "gamma", "sc"],
   ["RevocationTailsGenerator", "cur", "opt", "g2"],
   ["CredentialSignature", "p_credential", "ref", "PrimaryCredentialSignature"],
   ["CredentialSignature", "r_credential", "opt", "ref", "NonRevocationCredentialSignature"],
   ["PrimaryCredentialSignature", "m_2", "bn"],
   ["PrimaryCredentialSignature", "a", "bn"],
   ["PrimaryCredentialSignature", "e", "bn"],
   ["PrimaryCredentialSignature", "v", "bn"],
   ["NonRevocationCredentialSignature", "sigma", "g1"],
   ["NonRevocationCredentialSignature", "c", "sc"],
   ["NonRevocationCredentialSignature", "vr_prime_prime", "sc"],
   ["NonRevocationCredentialSignature", "witness_signature", "ref", "WitnessSignature"],
   ["NonRevocationCredentialSignature", "g_i", "g1"],
   ["NonRevocationCredentialSignature", "i", "u32"],
   ["NonRevocationCredentialSignature", "m2", "sc"],
   ["SignatureCorrectnessProof", "se", "bn"],
   ["SignatureCorrectnessProof", "c", "bn"],
   ["Witness", "omega", "g2inf"],
   ["WitnessSignature", "sigma_i", "g2"],
   ["WitnessSignature", "u_i", "g2"],
   ["WitnessSignature", "g_i", "g1"],
   ["LinkSecret", "ms", "bn"],
   ["BlindedCredentialSecrets", "u", "bn"],
   ["BlindedCredentialSecrets", "ur", "opt", "g1"],
   ["BlindedCredentialSecrets", "hidden_attributes", "setStr"],
   ["BlindedCredentialSecrets", "committed_attributes", "mapStr", "bn"],
   ["CredentialSecretsBlindingFactors", "v_prime", "bn"],
   ["CredentialSecretsBlindingFactors", "vr_prime", "opt", "sc"],
   ["BlindedCredentialSecretsCorrectnessProof", "c", "bn"],
   ["BlindedCredentialSecretsCorrectnessProof", "v_dash_cap", "bn"],
   ["BlindedCredentialSecretsCorrectnessProof", "m_caps", "mapStr", "bn"],
   ["BlindedCredentialSecretsCorrectnessProof", "r_caps", "mapStr", "bn"],
   ["SubProofRequest", "revealed_attrs", "setStr", "deonly"],
   ["SubProofRequest", "predicates", "vec", "ref", "Predicate", "deonly"],
   ["Predicate", "attr_name", "str"],
   ["Predicate", "p_type", "ref", "PredicateType"],
   ["Predicate", "value", "i32"],
   ["PredicateType", "GE", "unit"],
   ["PredicateType", "LE", "unit"],
   ["PredicateType", "GT", "unit"],
   ["PredicateType", "LT", "unit"],
   ["Proof", "proofs", "vec", "ref", "SubProof"],
   ["Proof", "aggregated_proof", "ref", "AggregatedProof"],
   ["SubProof", "primary_proof", "ref", "PrimaryProof"],
   ["SubProof", "non_revoc_proof", "opt", "ref", "NonRevocProof"],
   ["AggregatedProof", "c_hash", "bn"],
   ["AggregatedProof", "c_list", "vec", "u8vec"],
   ["PrimaryProof", "eq_proof", "ref", "PrimaryEqualProof"],
   ["PrimaryProof", "ge_proofs", "vec", "ref", "PrimaryPredicateInequalityProof"],
   ["PrimaryEqualProof", "revealed_attrs", "mapStr", "bn"],
   ["PrimaryEqualProof", "a_prime", "bn"],
   ["PrimaryEqualProof", "e", "bn"],
   ["PrimaryEqualProof", "v", "bn"],
   ["PrimaryEqualProof", "m", "mapStr", "bn"],
   ["PrimaryEqualProof", "m2", "bn"],
   ["PrimaryPredicateInequalityProof", "u", "mapStr", "bn"],
   ["PrimaryPredicateInequalityProof", "r", "mapStr", "bn"],
   ["PrimaryPredicateInequalityProof", "mj", "bn"],
   ["PrimaryPredicateInequalityProof", "alpha", "bn"],
   ["PrimaryPredicateInequalityProof", "t", "mapStr", "bn"],
   ["PrimaryPredicateInequalityProof", "predicate", "ref", "Predicate"],
   ["NonRevocProof", "x_list", "ref", "NonRevocProofXList"],
   ["NonRevocProof", "c_list", "ref", "NonRevocProofCList"],
   ["NonRevocProofXList", "rho", "sc"],
   ["NonRevocProofXList", "r", "sc"],
   ["NonRevocProofXList", "r_prime", "sc"],
   ["NonRevocProofXList", "r_prime_prime", "sc"],
   ["NonRevocProofXList", "r_prime_prime_prime", "sc"],
   ["NonRevocProofXList", "o", "sc"],
   ["NonRevocProofXList", "o_prime", "sc"],
   ["NonRevocProofXList", "m", "sc"],
   ["NonRevocProofXList", "m_prime", "sc"],
   ["NonRevocProofXList", "t", "sc"],
   ["NonRevocProofXList", "t_prime", "sc"],
   ["NonRevocProofXList", "m2", "opt", "sc", "skipIfNone", "hrOnly"],
   ["NonRevocProofXList", "s", "sc"],
   ["NonRevocProofXList", "c", "sc"],
   ["NonRevocProofCList", "e", "g1"],
   ["NonRevocProofCList", "d", "g1"],
   ["NonRevocProofCList", "a", "g1"],
   ["NonRevocProofCList", "g", "g1"],
   ["NonRevocProofCList", "w", "g2"],
   ["NonRevocProofCList", "s", "g2"],
   ["NonRevocProofCList", "u", "g2"],
   ["CredentialPrimaryPublicKey", "rms", "legacy", "master_secret", "last"],
   ["PrimaryEqualProof", "m1", "legacy", "master_secret", "last"]]

/-- the primitives, as types of their own (feature `verif` re-exports the wrappers) -/
def primTable : List (String × Layout) :=
  [("BigNumber", .transparent .bn), ("Nonce", .transparent .bn), ("GroupOrderElement", .transparent .sc),
   ("PointG1", .transparent .g1), ("PointG2", .transparent .g2), ("PointG2Inf", .transparent .g2inf),
   ("Pair", .transparent .pair)]

def lookupLayout (ty : String) : Option Layout :=
  match (table ++ primTable).find? (fun e => e.1 = ty) with
  | some e => some e.2
  | none => none

/-! ### flat rendering (what `tools/record_wire.py` prints) -/

def Kind.render : Kind → List String
  | .bn => ["bn"] | .sc => ["sc"] | .g1 => ["g1"] | .g2 => ["g2"] | .g2inf => ["g2inf"] | .pair => ["pair"]
  | .u32 => ["u32"] | .i32 => ["i32"] | .str => ["str"] | .u8vec => ["u8vec"] | .setStr => ["setStr"]
  | .setU32 => ["setU32"] | .pairStrBn => ["pairStrBn"]
  | .ref t => ["ref", t]
  | .opt k => "opt" :: k.render
  | .vec k => "vec" :: k.render
  | .mapStr k => "mapStr" :: k.render

def Field.render (pre : List String) (deOnly : Bool) (f : Field) : List String :=
  pre ++ [f.name] ++ f.kind.render ++
    (match f.skip with | .never => [] | .ifNone => ["skipIfNone", "hrOnly"] | .ifEmpty => ["skipIfEmpty", "hrOnly"]) ++
    (if f.dflt then ["default"] else []) ++ (if deOnly then ["deonly"] else [])

def renderEntry (e : String × Layout) : List (List String) :=
  match e.2 with
  | .struct fs _ deOnly => fs.map (Field.render [e.1] deOnly)
  | .transparent k => [[e.1, "transparent"] ++ k.render]
  | .unitEnum vs => vs.map fun v => [e.1, v, "unit"]
  | .structEnum vs => (vs.map fun v => v.2.map (Field.render [e.1, v.1] false)).flatten

def renderLegacy (e : String × Layout) : List (List String) :=
  match e.2 with
  | .struct _ (some l) _ => [[e.1, l, "legacy", "master_secret", "last"]]
  | _ => []

/-- fields first (declaration order), then the legacy fields; every entry is the token list of
the line `Type.field:kind(…):flags` printed by the recorder -/
def flat (t : List (String × Layout)) : List (List String) :=
  (t.map renderEntry).flatten ++ (t.map renderLegacy).flatten

/-! ## legacy layouts (`CredentialPrimaryPublicKey` with `rms`, `PrimaryEqualProof` with `m1`) -/

structure LegacySpec where
  /-- required leaf fields, in declaration order -/
  req : List String
  /-- the map that receives the legacy value under `"master_secret"` -/
  mapF : String
  /-- the legacy field (`#[serde(default)]`, last slot of the `…V1` helper struct) -/
  legacyF : String
  /-- position of the map among the fields in declaration order -/
  mapPos : Nat

def keySpec : LegacySpec := ⟨["n", "s", "rctxt", "z"], "r", "rms", 2⟩
def eqProofSpec : LegacySpec := ⟨["revealed_attrs", "a_prime", "e", "v", "m2"], "m", "m1", 4⟩

def getAll : List String → Obj → Option (List J)
  | [], _ => some []
  | k :: ks, o =>
    match getField k o, getAll ks o with
    | some v, some vs => some (v :: vs)
    | _, _ => none

/-- decoded object: the required leaves and the map -/
structure Decoded where
  leaves : List J
  map : Obj
deriving Repr, BEq

/-- the hand-written `Deserialize`: read the `…V1` helper (all current fields required, the
legacy field defaulting to zero), then move a non-zero legacy value into the map.
`isZero` decides `helper.legacy != BigNumber::default()` on the leaf. -/
def decodeLegacy (S : LegacySpec) (isZero : J → Bool) : J → Option Decoded
  | .obj o =>
    match getAll S.req o, getField S.mapF o with
    | some vs, some (.obj m) =>
      some ⟨vs, match getField S.legacyF o with
        | some v => if isZero v then m else mapInsert "master_secret" v m
        | none => m⟩
    | _, _ => none
  | _ => none

/-- the conversion to the current layout, on the document -/
def convertLegacy (S : LegacySpec) (isZero : J → Bool) : J → J
  | .obj o =>
    match getField S.legacyF o with
    | none => .obj o
    | some v =>
      let base := dropField S.legacyF o
      if isZero v then .obj base
      else match getField S.mapF base with
        | some (.obj m) => .obj (setField S.mapF (.obj (mapInsert "master_secret" v m)) base)
        | _ => .obj base
  | j => j

/-- derived `Serialize` of the current struct: the fields in order, never the legacy one -/
def encodeCurrent (S : LegacySpec) (d : Decoded) : J :=
  .obj ((S.req.zip d.leaves) ++ [(S.mapF, .obj d.map)])

/-- derived `Serialize` in a positional format (compact MessagePack): the fields in declaration
order, the map at its position -/
def encodeCurrentSeq (S : LegacySpec) (d : Decoded) : List J :=
  d.leaves.take S.mapPos ++ [.obj d.map] ++ d.leaves.drop S.mapPos

/-- the hand-written `Deserialize` on a sequence: the `…V1` helper read positionally — the current
fields in declaration order, then the legacy slot, which defaults when the sequence ends before it -/
def decodeLegacySeq (S : LegacySpec) (isZero : J → Bool) (l : List J) : Option Decoded :=
  let n := S.req.length + 1
  if l.length < n then none
  else
    match l.getD S.mapPos .null with
    | .obj m =>
      let leaves := (l.take S.mapPos) ++ ((l.take n).drop (S.mapPos + 1))
      some ⟨leaves, match l.drop n with
        | v :: _ => if isZero v then m else mapInsert "master_secret" v m
        | [] => m⟩
    | _ => none

/-! ## `RevocationRegistryDelta` -/

structure Delta where
  prev : Option J
  acc : J
  issued : List Nat
  revoked : List Nat
deriving Repr, BEq

def natArr (l : List Nat) : J := .arr (l.map fun (n : Nat) => J.num (Int.ofNat n))

def readNats : List J → Option (List Nat)
  | [] => some []
  | .num n :: t => if 0 ≤ n then (readNats t).map (n.toNat :: ·) else none
  | _ :: _ => none

/-- derived `Serialize` with `skip_serializing_if`: `prevAccum` only when `Some`, `issued` /
`revoked` only when non-empty (camelCase names) -/
def encodeDelta (d : Delta) : J :=
  .obj ((match d.prev with | some a => [("prevAccum", a)] | none => []) ++ [("accum", d.acc)] ++
    (if d.issued = [] then [] else [("issued", natArr d.issued)]) ++
    (if d.revoked = [] then [] else [("revoked", natArr d.revoked)]))

def readSet : Option J → Option (List Nat)
  | none => some []                 -- `#[serde(default)]`
  | some (.arr l) => readNats l
  | some _ => none

/-- derived `Deserialize` on a map: `accum` required, the other three default -/
def decodeDelta : J → Option Delta
  | .obj o =>
    match getField "accum" o, readSet (getField "issued" o), readSet (getField "revoked" o) with
    | some a, some i, some r =>
      some ⟨match getField "prevAccum" o with | some .null => none | x => x, a, i, r⟩
    | _, _, _ => none
  | _ => none

/-- what a binary format writes (hand-written `Serialize`, `is_human_readable() = false`): all four
fields, `None` as nil, empty sets as empty arrays — compact MessagePack as the sequence of the
values, named MessagePack as the map with all four keys -/
def encodeDeltaSeq (d : Delta) : List J :=
  [match d.prev with | some a => a | none => .null, d.acc, natArr d.issued, natArr d.revoked]

/-- what the derived `Serialize` with `skip_serializing_if` used to write positionally (before the
repair): the skipped fields simply missing, which shifts the others -/
def encodeDeltaSeqSkipping (d : Delta) : List J :=
  (match d.prev with | some a => [a] | none => []) ++ [d.acc] ++
    (if d.issued = [] then [] else [natArr d.issued]) ++
    (if d.revoked = [] then [] else [natArr d.revoked])

/-- derived `Deserialize` on a sequence: positional, four slots; a missing trailing slot takes
its default when it has one.  `accOk` tells whether a leaf decodes as an accumulator. -/
def decodeDeltaSeq (accOk : J → Bool) : List J → Option Delta
  | p :: a :: rest =>
    if !(p.isNull || accOk p) || !accOk a then none
    else
      match rest with
      | [] => some ⟨if p.isNull then none else some p, a, [], []⟩
      | [.arr i] => (readNats i).map fun i => ⟨if p.isNull then none else some p, a, i, []⟩
      | [.arr i, .arr r] =>
        match readNats i, readNats r with
        | some i, some r => some ⟨if p.isNull then none else some p, a, i, r⟩
        | _, _ => none
      | _ => none
  | _ => none

end CL.Wire
