import CLModel.Model.Basic
/-!
# Group-order scalars (`GroupOrderElement` of `/repo/src/amcl.rs`) — import-free model

A `GroupOrderElement` wraps an amcl `BIG`.  Every constructor reduces modulo the group order
`r`, but **one operation returns an unreduced value** (`mod_neg(0) = r`, see `neg`), so the
model keeps the raw natural number held by the `BIG` (`Scalar = Nat`) and every operation
reduces exactly where the code does.

Outcomes that are not `Ok/Err/panic`:
* `Res.hang` — the call never returns (`inverse` of a multiple of `r`: amcl's binary
  `invmodp` shifts `u = 0` right forever);
* `Res.depDefined` — `from_string` on a hex string whose 288-bit truncation is `≥ r·2^33`:
  amcl's `rmod` then runs on a `BIG` whose top chunk has reached the sign bit and the result
  is whatever the dependency does outside its contract (observed: a wrong residue, an
  unreduced value, or non-termination).  The model states the domain instead of inventing a
  value.
-/
namespace CL.Sc

/-- order of the amcl "bn254" (Nogami BN254) groups, `rom::CURVE_ORDER` -/
def r : Nat := 0x2523648240000001BA344D8000000007FF9F800000000010A10000000000000D

/-- raw value of the `BIG` inside a `GroupOrderElement` -/
abbrev Scalar := Nat

inductive Res where
  | ok (v : Scalar)
  | err
  | panic
  | hang
  | depDefined
deriving Repr, BEq, DecidableEq

def Res.tag : Res → String
  | .ok _ => "ok"
  | .err => "err"
  | .panic => "panic"
  | .hang => "hang"
  | .depDefined => "dep_defined"

/-- `add_mod`: `sum.add(r); sum.rmod(ORDER)` -/
def add (a b : Scalar) : Scalar := (a + b) % r

/-- `sub_mod`: `sum.add(ORDER); sum.sub(r); sum.rmod(ORDER)` (`b ≤ a + r` for every value the
wrappers can produce) -/
def sub (a b : Scalar) : Scalar := (a + r - b) % r

/-- `mul_mod`: `BIG::modmul` reduces both operands first -/
def mul (a b : Scalar) : Scalar := (a % r) * (b % r) % r

/-- `mod_neg`: `bn.rmod(ORDER); bn.rsub(ORDER)` — there is no reduction after the reverse
subtraction, so `neg 0 = r` -/
def neg (a : Scalar) : Scalar := r - a % r

/-- amcl `BIG::powmod`: right-to-left square-and-multiply; `a` accumulator, `s` running
square, `z` remaining exponent.  The first argument is fuel (`bits z ≤ fuel`). -/
def powAux (m : Nat) : Nat → Nat → Nat → Nat → Nat
  | 0, a, _, _ => a
  | fuel + 1, a, s, z =>
    let a' := if z % 2 = 1 then (a % m) * (s % m) % m else a
    if z / 2 = 0 then a' else powAux m fuel a' ((s % m) * (s % m) % m) (z / 2)

def powMod (b e m : Nat) : Nat := powAux m (e + 1) 1 b e

/-- `pow_mod` -/
def pow (a e : Scalar) : Scalar := powMod a e r

/-- `inverse`: amcl `invmodp` (binary extended Euclid) — modelled by its function on the
units, `a^(r-2)`; it does not terminate when `a ≡ 0`. -/
def inv (a : Scalar) : Res :=
  if a % r = 0 then .hang else .ok (pow a (r - 2))

/-- `new_u32` -/
def newU32 (v : UInt32) : Scalar := v.toNat

/-- big-endian value of a byte string -/
def beNat (bs : List UInt8) : Nat := bs.foldl (fun acc b => acc * 256 + b.toNat) 0

/-- `from_bytes`: more than `MODBYTES = 32` bytes is an error, shorter input is left-padded -/
def fromBytes (bs : List UInt8) : Outcome Scalar :=
  if bs.length > 32 then .err else .ok (beNat bs % r)

/-- `to_bytes`: the low 32 bytes, big-endian -/
def toBytes (a : Scalar) : List UInt8 :=
  (List.range 32).map fun i => UInt8.ofNat (a / 256 ^ (31 - i) % 256)

def hexDigitVal (c : Char) : Option Nat :=
  let n := c.toNat
  if 48 ≤ n ∧ n ≤ 57 then some (n - 48)          -- '0'..'9'
  else if 97 ≤ n ∧ n ≤ 102 then some (n - 97 + 10)  -- 'a'..'f'
  else if 65 ≤ n ∧ n ≤ 70 then some (n - 65 + 10)   -- 'A'..'F'
  else none

/-- value of a string of hex digits, `none` if some character is not a hex digit
(`u8::from_str_radix(c, 16).unwrap()` per character; a sign or a non-ASCII character fails) -/
def hexVal : List Char → Option Nat → Option Nat
  | [], acc => acc
  | c :: cs, acc =>
    match acc, hexDigitVal c with
    | some a, some d => hexVal cs (some (a * 16 + d))
    | _, _ => none

/-- `from_string` = `BIG::from_hex; rmod; norm`.  `from_hex` indexes `val[0..1]` (panic on the
empty string) and unwraps every digit; the `BIG` keeps 288 bits (top chunk shifted without
mask), the top one being the sign of the top chunk. -/
def fromString (s : String) : Res :=
  match s.toList with
  | [] => .panic
  | cs =>
    match hexVal cs (some 0) with
    | none => .panic
    | some v =>
      let t := v % 2 ^ 288
      if t < r * 2 ^ 33 then .ok (t % r) else .depDefined

def hexChar (d : Nat) : Char :=
  if d < 10 then Char.ofNat ('0'.toNat + d) else Char.ofNat ('A'.toNat + d - 10)

def hexDigitsAux : Nat → Nat → List Char → List Char
  | 0, _, acc => acc
  | n + 1, v, acc => hexDigitsAux n (v / 16) (hexChar (v % 16) :: acc)

/-- number of hex digits of `v` (0 for 0); fuel = `v` -/
def hexLenAux : Nat → Nat → Nat
  | 0, _ => 0
  | fuel + 1, v => if v = 0 then 0 else hexLenAux fuel (v / 16) + 1

/-- `to_string` = `BIG::to_hex`: upper-case, at least `2·MODBYTES = 64` digits -/
def toHex (a : Scalar) : String :=
  String.ofList (hexDigitsAux (max 64 (hexLenAux a a)) a [])

/-- minimal big-endian bytes of a natural number (`BigNumber::to_bytes`); `zeroByte` tells
whether the back-end writes zero as `[0]` or as `[]` -/
def natBytesAux : Nat → Nat → List UInt8 → List UInt8
  | 0, _, acc => acc
  | fuel + 1, n, acc =>
    if n = 0 then acc else natBytesAux fuel (n / 256) (UInt8.ofNat (n % 256) :: acc)

def natBytes (zeroByte : Bool) (n : Nat) : List UInt8 :=
  if n = 0 then (if zeroByte then [0] else []) else natBytesAux n n []

/-- `helpers::bignum_to_group_element_reduce`: `num.modulus(order)` (non-negative remainder in
both back-ends), `to_bytes`, `GroupOrderElement::from_bytes` -/
def bignumToGroupElementReduce (zeroByte : Bool) (num : Int) : Outcome Scalar :=
  fromBytes (natBytes zeroByte (num % (r : Int)).toNat)

end CL.Sc
