import CLModel.Model.Basic
/-!
# Group-order scalars (`GroupOrderElement` of `/repo/src/amcl.rs`) — import-free model

A `GroupOrderElement` wraps an amcl `BIG`.  Every constructor and every operation reduces
modulo the group order `r`; the model keeps the raw natural number held by the `BIG`
(`Scalar = Nat`) and reduces exactly where the code does, so the theorems can state that
results are reduced for *arbitrary* raw operands.
-/
namespace CL.Sc

/-- order of the amcl "bn254" (Nogami BN254) groups, `rom::CURVE_ORDER` -/
def r : Nat := 0x2523648240000001BA344D8000000007FF9F800000000010A10000000000000D

/-- raw value of the `BIG` inside a `GroupOrderElement` -/
abbrev Scalar := Nat

/-- `add_mod`: `sum.add(r); sum.rmod(ORDER)` -/
def add (a b : Scalar) : Scalar := (a + b) % r

/-- `sub_mod`: `sum.add(ORDER); sum.sub(r); sum.rmod(ORDER)` (`b ≤ a + r` for every value the
wrappers can produce) -/
def sub (a b : Scalar) : Scalar := (a + r - b) % r

/-- `mul_mod`: `BIG::modmul` reduces both operands first -/
def mul (a b : Scalar) : Scalar := (a % r) * (b % r) % r

/-- `mod_neg`: `bn.rmod(ORDER); bn.rsub(ORDER); bn.norm(); bn.rmod(ORDER)` (the second
reduction turns `r - 0` into `0`) -/
def neg (a : Scalar) : Scalar := (r - a % r) % r

/-- amcl `BIG::powmod`: right-to-left square-and-multiply; `a` accumulator, `s` running
square, `z` remaining exponent.  The first argument is fuel (`bits z ≤ fuel`). -/
def powAux (m : Nat) : Nat → Nat → Nat → Nat → Nat
  | 0, a, _, _ => a
  | fuel + 1, a, s, z =>
    let a' := if z % 2 = 1 then (a % m) * (s % m) % m else a
    if z / 2 = 0 then a' else powAux m fuel a' ((s % m) * (s % m) % m) (z / 2)

def powMod (b e m : Nat) : Nat := powAux m (e + 1) 1 b e

/-- `pow_mod` -/
def pow (a e : Scalar) : Scalar := powMod a e r

/-- `inverse`: the operand is reduced first; zero is refused (`Err`); otherwise amcl `invmodp`
(binary extended Euclid, a dependency) — modelled by its function on the units, `a^(r-2)` -/
def inv (a : Scalar) : Outcome Scalar :=
  if a % r = 0 then .err else .ok (pow a (r - 2))

/-- `new_u32` -/
def newU32 (v : UInt32) : Scalar := v.toNat

/-- big-endian value of a byte string -/
def beNat (bs : List UInt8) : Nat := bs.foldl (fun acc b => acc * 256 + b.toNat) 0

/-- `from_bytes`: more than `MODBYTES = 32` bytes is an error, shorter input is left-padded -/
def fromBytes (bs : List UInt8) : Outcome Scalar :=
  if bs.length > 32 then .err else .ok (beNat bs % r)

/-- `to_bytes`: the low 32 bytes, big-endian -/
def toBytes (a : Scalar) : List UInt8 :=
  (List.range 32).map fun i => UInt8.ofNat (a / 256 ^ (31 - i) % 256)

def hexDigitVal (c : Char) : Option Nat :=
  let n := c.toNat
  if 48 ≤ n ∧ n ≤ 57 then some (n - 48)          -- '0'..'9'
  else if 97 ≤ n ∧ n ≤ 102 then some (n - 97 + 10)  -- 'a'..'f'
  else if 65 ≤ n ∧ n ≤ 70 then some (n - 65 + 10)   -- 'A'..'F'
  else none

/-- value of a string of hex digits, `none` if some character is not a hex digit
(`u8::from_str_radix(c, 16).unwrap()` per character; a sign or a non-ASCII character fails) -/
def hexVal : List Char → Option Nat → Option Nat
  | [], acc => acc
  | c :: cs, acc =>
    match acc, hexDigitVal c with
    | some a, some d => hexVal cs (some (a * 16 + d))
    | _, _ => none

/-- `from_string`: the empty string, a string with a character that is not a hex digit and a
string of more than `2·MODBYTES + 7 = 71` digits are refused (`Err`); otherwise
`BIG::from_hex; rmod; norm` (at most 284 bits: inside the 288 usable bits of a `BIG`) -/
def fromString (s : String) : Outcome Scalar :=
  match s.toList with
  | [] => .err
  | cs =>
    match hexVal cs (some 0) with
    | none => .err
    | some v => if cs.length > 71 then .err else .ok (v % r)

def hexChar (d : Nat) : Char :=
  if d < 10 then Char.ofNat ('0'.toNat + d) else Char.ofNat ('A'.toNat + d - 10)

def hexDigitsAux : Nat → Nat → List Char → List Char
  | 0, _, acc => acc
  | n + 1, v, acc => hexDigitsAux n (v / 16) (hexChar (v % 16) :: acc)

/-- number of hex digits of `v` (0 for 0); fuel = `v` -/
def hexLenAux : Nat → Nat → Nat
  | 0, _ => 0
  | fuel + 1, v => if v = 0 then 0 else hexLenAux fuel (v / 16) + 1

/-- `to_string` = `BIG::to_hex`: upper-case, at least `2·MODBYTES = 64` digits -/
def toHex (a : Scalar) : String :=
  String.ofList (hexDigitsAux (max 64 (hexLenAux a a)) a [])

/-- minimal big-endian bytes of a natural number (`BigNumber::to_bytes`); `zeroByte` tells
whether the back-end writes zero as `[0]` or as `[]` -/
def natBytesAux : Nat → Nat → List UInt8 → List UInt8
  | 0, _, acc => acc
  | fuel + 1, n, acc =>
    if n = 0 then acc else natBytesAux fuel (n / 256) (UInt8.ofNat (n % 256) :: acc)

def natBytes (zeroByte : Bool) (n : Nat) : List UInt8 :=
  if n = 0 then (if zeroByte then [0] else []) else natBytesAux n n []

/-- `helpers::bignum_to_group_element_reduce`: `num.modulus(order)` (non-negative remainder in
both back-ends), `to_bytes`, `GroupOrderElement::from_bytes` -/
def bignumToGroupElementReduce (zeroByte : Bool) (num : Int) : Outcome Scalar :=
  fromBytes (natBytes zeroByte (num % (r : Int)).toNat)

end CL.Sc
