/-!
# SHA-256 and big-endian integer/byte conversions (import-free, executable)

The model's own hash: FIPS 180-4 on `ByteArray`.  Used by the driver to recompute every
Fiat–Shamir challenge independently of the `sha2` crate.
-/
namespace CL.Sha

def K : Array UInt32 := #[
  0x428a2f98, 0x71374491, 0xb5c0fbcf, 0xe9b5dba5, 0x3956c25b, 0x59f111f1, 0x923f82a4, 0xab1c5ed5,
  0xd807aa98, 0x12835b01, 0x243185be, 0x550c7dc3, 0x72be5d74, 0x80deb1fe, 0x9bdc06a7, 0xc19bf174,
  0xe49b69c1, 0xefbe4786, 0x0fc19dc6, 0x240ca1cc, 0x2de92c6f, 0x4a7484aa, 0x5cb0a9dc, 0x76f988da,
  0x983e5152, 0xa831c66d, 0xb00327c8, 0xbf597fc7, 0xc6e00bf3, 0xd5a79147, 0x06ca6351, 0x14292967,
  0x27b70a85, 0x2e1b2138, 0x4d2c6dfc, 0x53380d13, 0x650a7354, 0x766a0abb, 0x81c2c92e, 0x92722c85,
  0xa2bfe8a1, 0xa81a664b, 0xc24b8b70, 0xc76c51a3, 0xd192e819, 0xd6990624, 0xf40e3585, 0x106aa070,
  0x19a4c116, 0x1e376c08, 0x2748774c, 0x34b0bcb5, 0x391c0cb3, 0x4ed8aa4a, 0x5b9cca4f, 0x682e6ff3,
  0x748f82ee, 0x78a5636f, 0x84c87814, 0x8cc70208, 0x90befffa, 0xa4506ceb, 0xbef9a3f7, 0xc67178f2]

@[inline] def rotr (x : UInt32) (n : UInt32) : UInt32 := (x >>> n) ||| (x <<< (32 - n))

def pad (msg : ByteArray) : ByteArray := Id.run do
  let bitLen : UInt64 := msg.size.toUInt64 * 8
  let mut out := msg.push 0x80
  while out.size % 64 != 56 do
    out := out.push 0
  for i in [0:8] do
    out := out.push ((bitLen >>> (56 - 8 * i.toUInt64)).toUInt8)
  return out

def compress (h : Array UInt32) (block : ByteArray) (off : Nat) : Array UInt32 := Id.run do
  let mut w : Array UInt32 := Array.replicate 64 0
  for i in [0:16] do
    let b0 := (block.get! (off + 4*i)).toUInt32
    let b1 := (block.get! (off + 4*i + 1)).toUInt32
    let b2 := (block.get! (off + 4*i + 2)).toUInt32
    let b3 := (block.get! (off + 4*i + 3)).toUInt32
    w := w.set! i ((b0 <<< 24) ||| (b1 <<< 16) ||| (b2 <<< 8) ||| b3)
  for i in [16:64] do
    let w15 := w[i-15]!
    let w2 := w[i-2]!
    let s0 := rotr w15 7 ^^^ rotr w15 18 ^^^ (w15 >>> 3)
    let s1 := rotr w2 17 ^^^ rotr w2 19 ^^^ (w2 >>> 10)
    w := w.set! i (w[i-16]! + s0 + w[i-7]! + s1)
  let mut a := h[0]!; let mut b := h[1]!; let mut c := h[2]!; let mut d := h[3]!
  let mut e := h[4]!; let mut f := h[5]!; let mut g := h[6]!; let mut hh := h[7]!
  for i in [0:64] do
    let S1 := rotr e 6 ^^^ rotr e 11 ^^^ rotr e 25
    let ch := (e &&& f) ^^^ ((~~~ e) &&& g)
    let t1 := hh + S1 + ch + K[i]! + w[i]!
    let S0 := rotr a 2 ^^^ rotr a 13 ^^^ rotr a 22
    let maj := (a &&& b) ^^^ (a &&& c) ^^^ (b &&& c)
    let t2 := S0 + maj
    hh := g; g := f; f := e; e := d + t1
    d := c; c := b; b := a; a := t1 + t2
  return #[h[0]! + a, h[1]! + b, h[2]! + c, h[3]! + d, h[4]! + e, h[5]! + f, h[6]! + g, h[7]! + hh]

def sha256 (msg : ByteArray) : ByteArray := Id.run do
  let p := pad msg
  let mut h : Array UInt32 := #[0x6a09e667, 0xbb67ae85, 0x3c6ef372, 0xa54ff53a,
                                0x510e527f, 0x9b05688c, 0x1f83d9ab, 0x5be0cd19]
  for blk in [0:p.size / 64] do
    h := compress h p (blk * 64)
  let mut out := ByteArray.empty
  for x in h do
    out := out.push (x >>> 24).toUInt8
    out := out.push (x >>> 16).toUInt8
    out := out.push (x >>> 8).toUInt8
    out := out.push x.toUInt8
  return out

/-- big-endian magnitude bytes of a natural number, minimal length (0 ↦ empty) -/
partial def natToBytesAux (n : Nat) (acc : List UInt8) : List UInt8 :=
  if n == 0 then acc else natToBytesAux (n / 256) ((n % 256).toUInt8 :: acc)

def natToBytes (n : Nat) : ByteArray := ⟨(natToBytesAux n []).toArray⟩

def bytesToNat (b : ByteArray) : Nat := b.foldl (fun acc x => acc * 256 + x.toNat) 0

def hexOfBytes (b : ByteArray) : String :=
  let hd (d : Nat) : Char := if d < 10 then Char.ofNat (48 + d) else Char.ofNat (87 + d)
  String.ofList (b.toList.flatMap fun x => [hd (x.toNat / 16), hd (x.toNat % 16)])

def bytesOfHex (s : String) : Option ByteArray :=
  let dv (c : Char) : Option Nat :=
    if '0' ≤ c ∧ c ≤ '9' then some (c.toNat - 48)
    else if 'a' ≤ c ∧ c ≤ 'f' then some (c.toNat - 87)
    else if 'A' ≤ c ∧ c ≤ 'F' then some (c.toNat - 55)
    else none
  let rec go : List Char → ByteArray → Option ByteArray
    | [], acc => some acc
    | [_], _ => none
    | a :: b :: rest, acc => match dv a, dv b with
      | some x, some y => go rest (acc.push (x * 16 + y).toUInt8)
      | _, _ => none
  go s.toList ByteArray.empty

end CL.Sha
