import CLModel.Model.Primary
import Mathlib.Data.List.Forall2
/-!
# A logical relation between two `GroupOps` instances, lifted through the verifier's equations

`OpsRel R o o'`: the operations of `o` and `o'` map `R`-related group elements to `R`-related
results (same outcome tag).  Every function of `Model/Primary.lean` that computes the verifier's
`T̂` / `τ̂` values is written over an arbitrary `GroupOps`; the lemmas below push the relation
through each of them, up to `verifyPrimaryProof`.  Instantiated in `Proofs/ZnRefine.lean` with
the executable group `Int mod n` on one side and the additive proof group on the other.
-/
namespace CL.Pri

variable {G G' : Type}

/-- same outcome tag, related payloads -/
def ORel {α β : Type} (R : α → β → Prop) : Outcome α → Outcome β → Prop
  | .ok a, .ok b => R a b
  | .err, .err => True
  | .panic, .panic => True
  | _, _ => False

theorem ORel.ok {α β : Type} {R : α → β → Prop} {a : α} {b : β} (h : R a b) :
    ORel R (.ok a) (.ok b) := h

theorem ORel.refl {α : Type} (x : Outcome α) : ORel (· = ·) x x := by
  cases x <;> simp [ORel]

theorem ORel.bind {α β γ δ : Type} {R : α → β → Prop} {S : γ → δ → Prop}
    {x : Outcome α} {y : Outcome β} {f : α → Outcome γ} {g : β → Outcome δ}
    (h : ORel R x y) (hf : ∀ a b, R a b → ORel S (f a) (g b)) : ORel S (x.bind f) (y.bind g) := by
  cases x <;> cases y <;> simp_all [ORel, Outcome.bind]

theorem ORel.map {α β γ δ : Type} {R : α → β → Prop} {S : γ → δ → Prop}
    {x : Outcome α} {y : Outcome β} {f : α → γ} {g : β → δ}
    (h : ORel R x y) (hf : ∀ a b, R a b → S (f a) (g b)) : ORel S (x.map f) (y.map g) := by
  cases x <;> cases y <;> simp_all [ORel, Outcome.map]

theorem ORel.mono {α β : Type} {R S : α → β → Prop} {x : Outcome α} {y : Outcome β}
    (h : ORel R x y) (hs : ∀ a b, R a b → S a b) : ORel S x y := by
  cases x <;> cases y <;> simp_all [ORel]

/-- related outcomes with equal payload images are equal after mapping -/
theorem ORel.map_eq {α β γ : Type} {R : α → β → Prop} {x : Outcome α} {y : Outcome β}
    {f : α → γ} {g : β → γ} (h : ORel R x y) (hf : ∀ a b, R a b → f a = g b) :
    x.map f = y.map g := by
  cases x <;> cases y <;> simp_all [ORel, Outcome.map]
  exact hf _ _ h

structure OpsRel (R : G → G' → Prop) (o : GroupOps G) (o' : GroupOps G') : Prop where
  mul : ∀ {a a' b b'}, R a a' → R b b' → R (o.mul a b) (o'.mul a' b')
  pow : ∀ {a a'} (e : Int), R a a' → ORel R (o.pow a e) (o'.pow a' e)
  inv : ∀ {a a'}, R a a' → ORel R (o.inv a) (o'.inv a')
  one : R o.one o'.one
  enc : ∀ {a a'}, R a a' → o.enc a = o'.enc a'
  beq : ∀ {a a' b b'}, R a a' → R b b' → o.beq a b = o'.beq a' b'

/-- maps with the same keys in the same order and related values -/
def MapRel (R : G → G' → Prop) : List (String × G) → List (String × G') → Prop :=
  List.Forall₂ fun p q => p.1 = q.1 ∧ R p.2 q.2

theorem getOrErr_rel {R : G → G' → Prop} {m : List (String × G)} {m' : List (String × G')}
    (h : MapRel R m m') (k : String) : ORel R (getOrErr k m) (getOrErr k m') := by
  induction h with
  | nil => simp [getOrErr, lookup, ORel]
  | @cons p q t t' hpq _ ih =>
    obtain ⟨k1, v1⟩ := p
    obtain ⟨k2, v2⟩ := q
    obtain ⟨hk, hv⟩ := hpq
    simp only at hk hv
    subst hk
    unfold getOrErr at ih ⊢
    simp only [lookup]
    by_cases hk : (k == k1) = true
    · simp only [hk, if_true]; exact hv
    · simp only [hk]; exact ih

theorem keys_rel {R : G → G' → Prop} {m : List (String × G)} {m' : List (String × G')}
    (h : MapRel R m m') : keys m = keys m' := by
  induction h with
  | nil => rfl
  | cons hpq _ ih => simp only [keys, List.map_cons] at ih ⊢; rw [hpq.1, ih]

structure PKRel (R : G → G' → Prop) (pk : PubKey G) (pk' : PubKey G') : Prop where
  s : R pk.s pk'.s
  z : R pk.z pk'.z
  rctxt : R pk.rctxt pk'.rctxt
  r : MapRel R pk.r pk'.r

structure EqRel (R : G → G' → Prop) (p : EqProof G) (p' : EqProof G') : Prop where
  revealed : p.revealed = p'.revealed
  aPrime : R p.aPrime p'.aPrime
  e : p.e = p'.e
  v : p.v = p'.v
  m : p.m = p'.m
  m2 : p.m2 = p'.m2

structure NeRel (R : G → G' → Prop) (p : NeProof G) (p' : NeProof G') : Prop where
  u : p.u = p'.u
  r : p.r = p'.r
  mj : p.mj = p'.mj
  alpha : p.alpha = p'.alpha
  t : MapRel R p.t p'.t
  pred : p.pred = p'.pred

variable {R : G → G' → Prop} {o : GroupOps G} {o' : GroupOps G'}

theorem mulPows_rel (ho : OpsRel R o o') {r : List (String × G)} {r' : List (String × G')}
    (hr : MapRel R r r') (m : List (String × Int)) :
    ∀ (ks : List String) {acc : G} {acc' : G'}, R acc acc' →
      ORel R (mulPows o r m ks acc) (mulPows o' r' m ks acc') := by
  intro ks
  induction ks with
  | nil => intro acc acc' h; exact h
  | cons k ks ih =>
    intro acc acc' h
    simp only [mulPows]
    refine ORel.bind (getOrErr_rel hr k) fun g g' hg => ?_
    cases hx : getOrErr k m with
    | ok x =>
      simp only [Outcome.bind_ok]
      exact ORel.bind (ho.pow x hg) fun p p' hp => ih (ho.mul hp h)
    | err => simp [ORel]
    | panic => simp [ORel]

theorem calcTeq_rel (ho : OpsRel R o o') {pk : PubKey G} {pk' : PubKey G'} (hpk : PKRel R pk pk')
    {a : G} {a' : G'} (ha : R a a') (e v : Int) (mt : List (String × Int)) (m2t : Int)
    (unrev : List String) :
    ORel R (calcTeq o pk a e v mt m2t unrev) (calcTeq o' pk' a' e v mt m2t unrev) := by
  unfold calcTeq
  refine ORel.bind (ho.pow e ha) fun t0 t0' h0 => ?_
  refine ORel.bind (mulPows_rel ho hpk.r mt unrev h0) fun t1 t1' h1 => ?_
  refine ORel.bind (ho.pow v hpk.s) fun sv sv' hsv => ?_
  refine ORel.bind (ho.pow m2t hpk.rctxt) fun rm rm' hrm => ?_
  exact ho.mul hrm (ho.mul hsv h1)

theorem verifyEqualityCore_rel (ho : OpsRel R o o') {pk : PubKey G} {pk' : PubKey G'}
    (hpk : PKRel R pk pk') {p : EqProof G} {p' : EqProof G'} (hp : EqRel R p p') (c : Int)
    (unrev : List String) :
    ORel R (verifyEqualityCore o pk p c unrev) (verifyEqualityCore o' pk' p' c unrev) := by
  unfold verifyEqualityCore
  rw [hp.e, hp.v, hp.m, hp.m2, hp.revealed]
  refine ORel.bind (calcTeq_rel ho hpk hp.aPrime _ _ _ _ _) fun t1 t1' h1 => ?_
  refine ORel.bind (ho.pow _ hp.aPrime) fun r0 r0' h0 => ?_
  refine ORel.bind (mulPows_rel ho hpk.r _ _ h0) fun rar rar' hrar => ?_
  refine ORel.bind (ho.inv hrar) fun rari rari' hrari => ?_
  refine ORel.bind (ho.inv (ho.mul hpk.z hrari)) fun zri zri' hzri => ?_
  refine ORel.bind (ho.pow c hzri) fun t2 t2' h2 => ?_
  exact ho.mul h1 h2

theorem verifyEquality_rel (ho : OpsRel R o o') {pk : PubKey G} {pk' : PubKey G'}
    (hpk : PKRel R pk pk') {p : EqProof G} {p' : EqProof G'} (hp : EqRel R p p') (c : Int)
    (unrev : List String) :
    ORel R (verifyEquality o pk p c unrev) (verifyEquality o' pk' p' c unrev) := by
  unfold verifyEquality
  rw [hp.e]
  split
  · trivial
  · exact verifyEqualityCore_rel ho hpk hp c unrev

theorem tneTaus_rel (ho : OpsRel R o o') {pk : PubKey G} {pk' : PubKey G'} (hpk : PKRel R pk pk')
    (u r : List (String × Int)) :
    ∀ ks : List String, ORel (List.Forall₂ R) (tneTaus o pk u r ks) (tneTaus o' pk' u r ks) := by
  intro ks
  induction ks with
  | nil => exact List.Forall₂.nil
  | cons i is ih =>
    simp only [tneTaus]
    cases getOrErr i u with
    | ok cu =>
      cases getOrErr i r with
      | ok cr =>
        simp only [Outcome.bind_ok]
        refine ORel.bind (ho.pow cu hpk.z) fun zu zu' hzu => ?_
        refine ORel.bind (ho.pow cr hpk.s) fun sr sr' hsr => ?_
        exact ORel.map ih fun l l' hl => List.Forall₂.cons (ho.mul hzu hsr) hl
      | err => simp [ORel]
      | panic => simp [ORel]
    | err => simp [ORel]
    | panic => simp [ORel]

theorem tneQ_rel (ho : OpsRel R o o') {t : List (String × G)} {t' : List (String × G')}
    (ht : MapRel R t t') (u : List (String × Int)) :
    ∀ (ks : List String) {q : G} {q' : G'}, R q q' →
      ORel R (tneQ o t u ks q) (tneQ o' t' u ks q') := by
  intro ks
  induction ks with
  | nil => intro q q' h; exact h
  | cons i is ih =>
    intro q q' h
    simp only [tneQ]
    refine ORel.bind (getOrErr_rel ht i) fun ct ct' hct => ?_
    cases getOrErr i u with
    | ok cu =>
      simp only [Outcome.bind_ok]
      exact ORel.bind (ho.pow cu hct) fun p p' hp => ih (ho.mul hp h)
    | err => simp [ORel]
    | panic => simp [ORel]

theorem forall₂_append_pair {a b : G} {a' b' : G'} {l : List G} {l' : List G'}
    (hl : List.Forall₂ R l l') (ha : R a a') (hb : R b b') :
    List.Forall₂ R (l ++ [a, b]) (l' ++ [a', b']) :=
  List.rel_append hl (List.Forall₂.cons ha (List.Forall₂.cons hb List.Forall₂.nil))

theorem calcTne_rel (ho : OpsRel R o o') {pk : PubKey G} {pk' : PubKey G'} (hpk : PKRel R pk pk')
    (u r : List (String × Int)) (mj alpha : Int) {t : List (String × G)}
    {t' : List (String × G')} (ht : MapRel R t t') (less : Bool) :
    ORel (List.Forall₂ R) (calcTne o pk u r mj alpha t less) (calcTne o' pk' u r mj alpha t' less) := by
  unfold calcTne
  refine ORel.bind (tneTaus_rel ho hpk u r _) fun taus taus' htaus => ?_
  cases getOrErr "DELTA" r with
  | ok delta =>
    simp only [Outcome.bind_ok]
    refine ORel.bind (ho.pow mj hpk.z) fun zm zm' hzm => ?_
    refine ORel.bind (ho.pow _ hpk.s) fun sd sd' hsd => ?_
    refine ORel.bind (tneQ_rel ho ht u _ ho.one) fun q q' hq => ?_
    refine ORel.bind (ho.pow alpha hpk.s) fun sa sa' hsa => ?_
    exact forall₂_append_pair htaus (ho.mul hzm hsd) (ho.mul hsa hq)
  | err => simp [ORel]
  | panic => simp [ORel]

theorem neAdjust_rel (ho : OpsRel R o o') {t : List (String × G)} {t' : List (String × G')}
    (ht : MapRel R t t') (c : Int) :
    ∀ (ks : List String) {taus : List G} {taus' : List G'}, List.Forall₂ R taus taus' →
      ORel (List.Forall₂ R) (neAdjust o t c ks taus) (neAdjust o' t' c ks taus') := by
  intro ks
  induction ks with
  | nil => intro taus taus' h; simpa [neAdjust, ORel] using h
  | cons i is ih =>
    intro taus taus' h
    cases h with
    | nil => simp [neAdjust, ORel]
    | @cons x x' l l' hx hl =>
      simp only [neAdjust]
      refine ORel.bind (getOrErr_rel ht i) fun ct ct' hct => ?_
      refine ORel.bind (ho.pow c hct) fun tc tc' htc => ?_
      refine ORel.bind (ho.inv htc) fun tci tci' htci => ?_
      exact ORel.map (ih hl) fun r r' hr => List.Forall₂.cons (ho.mul htci hx) hr

theorem verifyNePredicate_rel (ho : OpsRel R o o') (m : OvfMode) {pk : PubKey G}
    {pk' : PubKey G'} (hpk : PKRel R pk pk') {p : NeProof G} {p' : NeProof G'} (hp : NeRel R p p')
    (c : Int) :
    ORel (List.Forall₂ R) (verifyNePredicate o m pk p c) (verifyNePredicate o' m pk' p' c) := by
  unfold verifyNePredicate
  rw [hp.pred, hp.u, hp.r, hp.mj, hp.alpha]
  cases isLess p'.pred with
  | ok less =>
    simp only [Outcome.bind_ok]
    refine ORel.bind (calcTne_rel ho hpk _ _ _ _ hp.t less) fun tl tl' htl => ?_
    refine ORel.bind (neAdjust_rel ho hp.t c _ (List.forall₂_take _ htl)) fun f f' hf => ?_
    refine ORel.bind (getOrErr_rel hp.t "DELTA") fun d d' hd => ?_
    have hdp : ORel R (if less then o.inv d else Outcome.ok d)
        (if less then o'.inv d' else Outcome.ok d') := by
      cases less
      · exact hd
      · exact ho.inv hd
    refine ORel.bind hdp fun dp dp' hdp' => ?_
    cases getDeltaPrime m p'.pred with
    | ok v =>
      simp only [Outcome.bind_ok]
      refine ORel.bind (ho.pow v hpk.z) fun zd zd' hzd => ?_
      refine ORel.bind (ho.pow c (ho.mul hzd hdp')) fun x x' hx => ?_
      refine ORel.bind (ho.inv hx) fun xi xi' hxi => ?_
      refine ORel.bind (ho.pow c hd) fun dc dc' hdc => ?_
      refine ORel.bind (ho.inv hdc) fun dci dci' hdci => ?_
      have hdrop := List.forall₂_drop Gen.ITERATION htl
      generalize List.drop Gen.ITERATION tl = rest at hdrop
      generalize List.drop Gen.ITERATION tl' = rest' at hdrop
      cases hdrop with
      | nil => simp [ORel]
      | @cons a a' l l' ha hl =>
        cases hl with
        | nil => simp [ORel]
        | @cons b b' l2 l2' hb hl2 =>
          cases hl2 with
          | nil => exact forall₂_append_pair hf (ho.mul hxi ha) (ho.mul hdci hb)
          | cons _ _ => simp [ORel]
    | err => simp [ORel]
    | panic => simp [ORel]
  | err => simp [ORel]
  | panic => simp [ORel]

theorem verifyNeAll_rel (ho : OpsRel R o o') (m : OvfMode) {pk : PubKey G} {pk' : PubKey G'}
    (hpk : PKRel R pk pk') (c : Int) (eqM : List (String × Int)) :
    ∀ {ps : List (NeProof G)} {ps' : List (NeProof G')}, List.Forall₂ (NeRel R) ps ps' →
      ORel (List.Forall₂ R) (verifyNeAll o m pk c eqM ps) (verifyNeAll o' m pk' c eqM ps') := by
  intro ps ps' h
  induction h with
  | nil => exact List.Forall₂.nil
  | @cons p p' l l' hp _ ih =>
    simp only [verifyNeAll]
    rw [hp.pred, hp.mj]
    cases getOrErr p'.pred.attr eqM with
    | ok mhat =>
      simp only [Outcome.bind_ok]
      split
      · trivial
      · refine ORel.bind (verifyNePredicate_rel ho m hpk hp c) fun tl tl' htl => ?_
        exact ORel.map ih fun r r' hr => List.rel_append htl hr
    | err => simp [ORel]
    | panic => simp [ORel]

/-- the verifier's whole primary computation, `[T̂] ++ τ̂`, commutes with the relation -/
theorem verifyPrimaryProof_rel (ho : OpsRel R o o') (m : OvfMode) {pk : PubKey G}
    {pk' : PubKey G'} (hpk : PKRel R pk pk') {eq : EqProof G} {eq' : EqProof G'}
    (heq : EqRel R eq eq') {ne : List (NeProof G)} {ne' : List (NeProof G')}
    (hne : List.Forall₂ (NeRel R) ne ne') (c : Int) (unrev : List String) :
    ORel (List.Forall₂ R) (verifyPrimaryProof o m pk eq ne c unrev)
      (verifyPrimaryProof o' m pk' eq' ne' c unrev) := by
  unfold verifyPrimaryProof
  refine ORel.bind (verifyEquality_rel ho hpk heq c unrev) fun t t' ht => ?_
  have hany : (ne.any fun p => !unrev.contains p.pred.attr) =
      (ne'.any fun p => !unrev.contains p.pred.attr) := by
    clear ht
    induction hne with
    | nil => rfl
    | cons hp _ ih => simp only [List.any_cons, hp.pred, ih]
  rw [hany, heq.m]
  split
  · trivial
  · exact ORel.map (verifyNeAll_rel ho m hpk c _ hne) fun r r' hr => List.Forall₂.cons ht hr

/-- byte form: both sides hash the same transcript bytes (or fail the same way) -/
theorem verifyPrimaryProof_bytes (ho : OpsRel R o o') (m : OvfMode) {pk : PubKey G}
    {pk' : PubKey G'} (hpk : PKRel R pk pk') {eq : EqProof G} {eq' : EqProof G'}
    (heq : EqRel R eq eq') {ne : List (NeProof G)} {ne' : List (NeProof G')}
    (hne : List.Forall₂ (NeRel R) ne ne') (c : Int) (unrev : List String) :
    (verifyPrimaryProof o m pk eq ne c unrev).map (List.map o.enc) =
      (verifyPrimaryProof o' m pk' eq' ne' c unrev).map (List.map o'.enc) := by
  refine ORel.map_eq (verifyPrimaryProof_rel ho m hpk heq hne c unrev) fun l l' hl => ?_
  induction hl with
  | nil => rfl
  | cons h _ ih => simp only [List.map_cons, ho.enc h, ih]


/-! ## the prover's side of the equality sub-protocol -/

structure SigRel (R : G → G' → Prop) (s : Signature G) (s' : Signature G') : Prop where
  m2 : s.m2 = s'.m2
  a : R s.a s'.a
  e : s.e = s'.e
  v : s.v = s'.v

structure EqInitRel (R : G → G' → Prop) (i : EqInit G) (i' : EqInit G') : Prop where
  aPrime : R i.aPrime i'.aPrime
  t : R i.t i'.t
  eTilde : i.eTilde = i'.eTilde
  ePrime : i.ePrime = i'.ePrime
  vTilde : i.vTilde = i'.vTilde
  vPrime : i.vPrime = i'.vPrime
  mTilde : i.mTilde = i'.mTilde
  m2Tilde : i.m2Tilde = i'.m2Tilde
  m2 : i.m2 = i'.m2

theorem initEqProof_rel (ho : OpsRel R o o') (common : List (String × Int)) {pk : PubKey G}
    {pk' : PubKey G'} (hpk : PKRel R pk pk') {sig : Signature G} {sig' : Signature G'}
    (hs : SigRel R sig sig') (un : List String) (m2Tilde : Int) (tp : EqTape) :
    ORel (EqInitRel R) (initEqProof o common pk sig un m2Tilde tp)
      (initEqProof o' common pk' sig' un m2Tilde tp) := by
  unfold initEqProof
  simp only
  rw [hs.e, hs.v, hs.m2]
  refine ORel.bind (ho.pow tp.r hpk.s) fun sr sr' hsr => ?_
  have ha := ho.mul hsr hs.a
  refine ORel.map (calcTeq_rel ho hpk ha _ _ _ _ _) fun t t' ht => ?_
  exact ⟨ha, ht, rfl, rfl, rfl, rfl, rfl, rfl, rfl⟩

theorem finalizeEqProof_rel {i : EqInit G} {i' : EqInit G'} (hi : EqInitRel R i i') (c : Int)
    (un rev : List String) (vals : Values) :
    ORel (EqRel R) (finalizeEqProof i c un rev vals) (finalizeEqProof i' c un rev vals) := by
  unfold finalizeEqProof
  rw [hi.mTilde, hi.ePrime, hi.eTilde, hi.vPrime, hi.vTilde, hi.m2, hi.m2Tilde]
  cases mHats c i'.mTilde vals un with
  | ok mh =>
    simp only [Outcome.bind_ok]
    cases revealedWithValues vals rev with
    | ok rv => exact ⟨rfl, hi.aPrime, rfl, rfl, rfl, rfl⟩
    | err => simp [ORel]
    | panic => simp [ORel]
  | err => simp [ORel]
  | panic => simp [ORel]


/-! ## the prover's side of the predicate sub-protocol -/

structure NeInitRel (R : G → G' → Prop) (i : NeInit G) (i' : NeInit G') : Prop where
  cList : List.Forall₂ R i.cList i'.cList
  tauList : List.Forall₂ R i.tauList i'.tauList
  u : i.u = i'.u
  uTilde : i.uTilde = i'.uTilde
  r : i.r = i'.r
  rTilde : i.rTilde = i'.rTilde
  alphaTilde : i.alphaTilde = i'.alphaTilde
  pred : i.pred = i'.pred
  t : MapRel R i.t i'.t

theorem neCommit_rel (ho : OpsRel R o o') {pk : PubKey G} {pk' : PubKey G'} (hpk : PKRel R pk pk')
    (u r : List (String × Int)) :
    ∀ ks : List String, ORel (MapRel R) (neCommit o pk u r ks) (neCommit o' pk' u r ks) := by
  intro ks
  induction ks with
  | nil => exact List.Forall₂.nil
  | cons i is ih =>
    simp only [neCommit]
    cases getOrErr i u with
    | ok cu =>
      cases getOrErr i r with
      | ok cr =>
        simp only [Outcome.bind_ok]
        refine ORel.bind (ho.pow cu hpk.z) fun zu zu' hzu => ?_
        refine ORel.bind (ho.pow cr hpk.s) fun sr sr' hsr => ?_
        exact ORel.map ih fun l l' hl => List.Forall₂.cons ⟨rfl, ho.mul hzu hsr⟩ hl
      | err => simp [ORel]
      | panic => simp [ORel]
    | err => simp [ORel]
    | panic => simp [ORel]

theorem mapRel_values {m : List (String × G)} {m' : List (String × G')} (h : MapRel R m m') :
    List.Forall₂ R (m.map (·.2)) (m'.map (·.2)) := by
  induction h with
  | nil => exact List.Forall₂.nil
  | cons hpq _ ih => exact List.Forall₂.cons hpq.2 ih

theorem initNeProof_rel (ho : OpsRel R o o') (m : OvfMode) (fourSq : Int → Outcome (List Int))
    {pk : PubKey G} {pk' : PubKey G'} (hpk : PKRel R pk pk') (mTilde : List (String × Int))
    (vals : Values) (p : Pred) (tp : NeTape) :
    ORel (NeInitRel R) (initNeProof o m fourSq pk mTilde vals p tp)
      (initNeProof o' m fourSq pk' mTilde vals p tp) := by
  unfold initNeProof
  cases getOrErr p.attr vals with
  | ok attrValue =>
    simp only [Outcome.bind_ok]
    cases (if IntTy.i32.inRange attrValue then Outcome.ok attrValue else Outcome.err) with
    | ok av =>
      simp only [Outcome.bind_ok]
      cases getDelta m p av with
      | ok delta =>
        simp only [Outcome.bind_ok]
        split
        · trivial
        · cases fourSq delta with
          | ok roots =>
            simp only [Outcome.bind_ok]
            refine ORel.bind (neCommit_rel ho hpk _ tp.r _) fun ts ts' hts => ?_
            cases getOrErr "DELTA" tp.r with
            | ok rDelta =>
              simp only [Outcome.bind_ok]
              refine ORel.bind (ho.pow delta hpk.z) fun zd zd' hzd => ?_
              refine ORel.bind (ho.pow rDelta hpk.s) fun sr sr' hsr => ?_
              have htd := ho.mul hzd hsr
              have ht : MapRel R (ts ++ [("DELTA", o.mul zd sr)]) (ts' ++ [("DELTA", o'.mul zd' sr')]) :=
                List.rel_append hts (List.Forall₂.cons ⟨rfl, htd⟩ List.Forall₂.nil)
              cases getOrErr p.attr mTilde with
              | ok mj =>
                simp only [Outcome.bind_ok]
                cases isLess p with
                | ok less =>
                  simp only [Outcome.bind_ok]
                  refine ORel.map (calcTne_rel ho hpk _ _ _ _ ht less) fun tau tau' htau => ?_
                  exact ⟨List.rel_append (mapRel_values hts)
                      (List.Forall₂.cons htd List.Forall₂.nil), htau, rfl, rfl, rfl, rfl, rfl, rfl, ht⟩
                | err => simp [ORel]
                | panic => simp [ORel]
              | err => simp [ORel]
              | panic => simp [ORel]
            | err => simp [ORel]
            | panic => simp [ORel]
          | err => simp [ORel]
          | panic => simp [ORel]
      | err => simp [ORel]
      | panic => simp [ORel]
    | err => simp [ORel]
    | panic => simp [ORel]
  | err => simp [ORel]
  | panic => simp [ORel]

theorem neResponses_congr {i : NeInit G} {i' : NeInit G'} (hi : NeInitRel R i i') (c : Int) :
    ∀ ks : List String, neResponses c i ks = neResponses c i' ks := by
  intro ks
  induction ks with
  | nil => rfl
  | cons k ks ih => simp only [neResponses, hi.u, hi.uTilde, hi.r, hi.rTilde, ih]

theorem finalizeNeProof_rel {i : NeInit G} {i' : NeInit G'} (hi : NeInitRel R i i') (c : Int)
    {eq : EqProof G} {eq' : EqProof G'} (hm : eq.m = eq'.m) :
    ORel (NeRel R) (finalizeNeProof c i eq) (finalizeNeProof c i' eq') := by
  unfold finalizeNeProof
  rw [neResponses_congr hi c, hi.rTilde, hi.r, hi.pred, hi.alphaTilde, hm]
  cases neResponses c i' iterKeys with
  | ok x =>
    obtain ⟨us, rs, urp⟩ := x
    simp only [Outcome.bind_ok]
    cases getOrPanic "DELTA" i'.rTilde with
    | ok rtd =>
      cases getOrPanic "DELTA" i'.r with
      | ok rd =>
        simp only [Outcome.bind_ok]
        cases getOrPanic i'.pred.attr eq'.m with
        | ok mj => exact ⟨rfl, rfl, rfl, rfl, hi.t, rfl⟩
        | err => simp [ORel]
        | panic => simp [ORel]
      | err => simp [ORel]
      | panic => simp [ORel]
    | err => simp [ORel]
    | panic => simp [ORel]
  | err => simp [ORel]
  | panic => simp [ORel]

end CL.Pri
