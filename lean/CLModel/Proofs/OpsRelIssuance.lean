import CLModel.Proofs.OpsRel
import CLModel.Model.Issuance
namespace CL.Pri
variable {G G' : Type} {R : G → G' → Prop} {o : GroupOps G} {o' : GroupOps G'}

/-! ## the key-correctness proof (issuer's `newKeyProof`, holder's `checkKeyProof`) -/

theorem ORel.eq_of_eq {α : Type} {x y : Outcome α} (h : ORel (· = ·) x y) : x = y := by
  cases x <;> cases y <;> simp_all [ORel]

theorem lookup_isNone_rel {m : List (String × G)} {m' : List (String × G')}
    (h : MapRel R m m') (k : String) : (lookup k m).isNone = (lookup k m').isNone := by
  induction h with
  | nil => rfl
  | @cons p q t t' hpq _ ih =>
    obtain ⟨k1, v1⟩ := p
    obtain ⟨k2, v2⟩ := q
    obtain ⟨hk, _⟩ := hpq
    simp only at hk
    subst hk
    simp only [lookup]
    by_cases hk : (k == k1) = true
    · simp [hk]
    · simp only [hk]; exact ih

theorem getOrPanic_rel {m : List (String × G)} {m' : List (String × G')}
    (h : MapRel R m m') (k : String) : ORel R (getOrPanic k m) (getOrPanic k m') := by
  induction h with
  | nil => simp [getOrPanic, lookup, ORel]
  | @cons p q t t' hpq _ ih =>
    obtain ⟨k1, v1⟩ := p
    obtain ⟨k2, v2⟩ := q
    obtain ⟨hk, hv⟩ := hpq
    simp only at hk hv
    subst hk
    unfold getOrPanic at ih ⊢
    simp only [lookup]
    by_cases hk : (k == k1) = true
    · simp only [hk, if_true]; exact hv
    · simp only [hk]; exact ih

theorem map_enc_rel (ho : OpsRel R o o') {l : List G} {l' : List G'} (h : List.Forall₂ R l l') :
    l.map o.enc = l'.map o'.enc := by
  induction h with
  | nil => rfl
  | cons hx _ ih => simp only [List.map_cons, ho.enc hx, ih]

/-- relation on the pair of lists the two key-proof loops return -/
def PairRel (R : G → G' → Prop) (a : List G × List G) (b : List G' × List G') : Prop :=
  List.Forall₂ R a.1 b.1 ∧ List.Forall₂ R a.2 b.2

theorem keyProofLoop_rel (ho : OpsRel R o o') {pk : PubKey G} {pk' : PubKey G'}
    (hpk : PKRel R pk pk') (c : Int) : ∀ xs : List (String × Int),
      ORel (PairRel R) (Iss.keyProofLoop o pk c xs) (Iss.keyProofLoop o' pk' c xs) := by
  intro xs
  induction xs with
  | nil => exact ⟨List.Forall₂.nil, List.Forall₂.nil⟩
  | cons x rest ih =>
    obtain ⟨k, xr⟩ := x
    simp only [Iss.keyProofLoop]
    refine ORel.bind (getOrPanic_rel hpk.r k) fun r r' hr => ?_
    refine ORel.bind (ho.inv hr) fun ri ri' hri => ?_
    refine ORel.bind (ho.pow c hri) fun ric ric' hric => ?_
    refine ORel.bind (ho.pow xr hpk.s) fun sx sx' hsx => ?_
    exact ORel.map ih fun p p' hp =>
      ⟨List.Forall₂.cons hr hp.1, List.Forall₂.cons (ho.mul hric hsx) hp.2⟩

/-- the holder's verdict on a key proof is the same in both groups -/
theorem checkKeyProof_rel (ho : OpsRel R o o') (H : List ByteArray → Int) {pk : PubKey G}
    {pk' : PubKey G'} (hpk : PKRel R pk pk') (p : Iss.KeyProof) :
    Iss.checkKeyProof o H pk p = Iss.checkKeyProof o' H pk' p := by
  unfold Iss.checkKeyProof
  simp only
  rw [keys_rel hpk.r]
  have hnone : ((keys p.xrCap).any fun k => (lookup k pk.r).isNone) =
      ((keys p.xrCap).any fun k => (lookup k pk'.r).isNone) := by
    congr 1; funext k; exact lookup_isNone_rel hpk.r k
  rw [hnone]
  split
  · rfl
  · split
    · rfl
    · apply ORel.eq_of_eq
      refine ORel.bind (ho.inv hpk.s) fun _ _ _ => ?_
      refine ORel.bind (ho.inv hpk.z) fun zi zi' hzi => ?_
      refine ORel.bind (ho.pow p.c hzi) fun zic zic' hzic => ?_
      refine ORel.bind (ho.pow p.xzCap hpk.s) fun sx sx' hsx => ?_
      refine ORel.bind (keyProofLoop_rel ho hpk p.c p.xrCap) fun pr pr' hpr => ?_
      obtain ⟨rs, caps⟩ := pr
      obtain ⟨rs', caps'⟩ := pr'
      obtain ⟨h1, h2⟩ := hpr
      simp only at h1 h2 ⊢
      rw [ho.enc hpk.z, map_enc_rel ho h1, ho.enc (ho.mul hzic hsx), map_enc_rel ho h2]
      exact ORel.refl _

theorem keyProofTildes_rel (ho : OpsRel R o o') {pk : PubKey G} {pk' : PubKey G'}
    (hpk : PKRel R pk pk') : ∀ xs : List (String × Int × Int),
      ORel (PairRel R) (Iss.keyProofTildes o pk xs) (Iss.keyProofTildes o' pk' xs) := by
  intro xs
  induction xs with
  | nil => exact ⟨List.Forall₂.nil, List.Forall₂.nil⟩
  | cons x rest ih =>
    obtain ⟨k, xr, xt⟩ := x
    simp only [Iss.keyProofTildes]
    refine ORel.bind (getOrErr_rel hpk.r k) fun r r' hr => ?_
    refine ORel.bind (ho.pow xt hpk.s) fun rt rt' hrt => ?_
    exact ORel.map ih fun p p' hp => ⟨List.Forall₂.cons hr hp.1, List.Forall₂.cons hrt hp.2⟩

/-- the issuer's key proof is the same document in both groups -/
theorem newKeyProof_rel (ho : OpsRel R o o') (H : List ByteArray → Int) {pk : PubKey G}
    {pk' : PubKey G'} (hpk : PKRel R pk pk') (xz xzTilde : Int)
    (covered : List (String × Int × Int)) :
    Iss.newKeyProof o H pk xz xzTilde covered = Iss.newKeyProof o' H pk' xz xzTilde covered := by
  unfold Iss.newKeyProof
  apply ORel.eq_of_eq
  refine ORel.bind (ho.pow xzTilde hpk.s) fun zt zt' hzt => ?_
  refine ORel.map (keyProofTildes_rel ho hpk covered) fun pr pr' hpr => ?_
  obtain ⟨rs, rts⟩ := pr
  obtain ⟨rs', rts'⟩ := pr'
  obtain ⟨h1, h2⟩ := hpr
  simp only at h1 h2 ⊢
  rw [ho.enc hpk.z, map_enc_rel ho h1, ho.enc hzt, map_enc_rel ho h2]


/-! ## issuance: blinded secrets, the issuer's signature, the holder's check -/

def OptRel (R : G → G' → Prop) : Option G → Option G' → Prop
  | some a, some b => R a b
  | none, none => True
  | _, _ => False

theorem blindU_rel (ho : OpsRel R o o') {pk : PubKey G} {pk' : PubKey G'} (hpk : PKRel R pk pk')
    (hidden : Values) (vPrime : Int) :
    ORel R (blindU o pk hidden vPrime) (blindU o' pk' hidden vPrime) := by
  unfold blindU
  refine ORel.bind (ho.pow vPrime hpk.s) fun sv sv' hsv => ?_
  exact mulPows_rel ho hpk.r hidden (keys hidden) hsv

theorem rx0_rel (ho : OpsRel R o o') {sv : G} {sv' : G'} (hsv : R sv sv') :
    ∀ {u : Option G} {u' : Option G'}, OptRel R u u' →
      R (match u with | some u => o.mul sv u | none => sv)
        (match u' with | some u => o'.mul sv' u | none => sv') := by
  intro u u'
  cases u with
  | none => cases u' with
    | none => intro _; exact hsv
    | some b => intro hu; exact absurd hu (by simp [OptRel])
  | some a => cases u' with
    | none => intro hu; exact absurd hu (by simp [OptRel])
    | some b => intro hu; exact ho.mul hsv hu

theorem signPrimary_rel (ho : OpsRel R o o') {pk : PubKey G} {pk' : PubKey G'}
    (hpk : PKRel R pk pk') {u : Option G} {u' : Option G'} (hu : OptRel R u u') (m2 : Int)
    (known : Values) (vpp einv : Int) :
    ORel (fun p q => R p.1 q.1 ∧ R p.2 q.2) (signPrimary o pk u m2 known vpp einv)
      (signPrimary o' pk' u' m2 known vpp einv) := by
  unfold signPrimary
  refine ORel.bind (ho.pow vpp hpk.s) fun sv sv' hsv => ?_
  have hrx0 := rx0_rel ho hsv hu
  refine ORel.bind (ho.pow m2 hpk.rctxt) fun rc rc' hrc => ?_
  refine ORel.bind (mulPows_rel ho hpk.r known (keys known) (ho.mul hrx0 hrc)) fun rx rx' hrx => ?_
  refine ORel.bind (ho.inv hrx) fun rxi rxi' hrxi => ?_
  have hq := ho.mul hpk.z hrxi
  exact ORel.map (ho.pow einv hq) fun a a' ha => ⟨ha, hq⟩

/-- the holder's verdict on a signature is the same in both groups -/
theorem checkSignature_rel (ho : OpsRel R o o') {pk : PubKey G} {pk' : PubKey G'}
    (hpk : PKRel R pk pk') {sig : Signature G} {sig' : Signature G'} (hs : SigRel R sig sig')
    (vals : Values) :
    checkSignature o pk sig vals = checkSignature o' pk' sig' vals := by
  unfold checkSignature
  rw [hs.v, hs.m2, hs.e]
  apply ORel.eq_of_eq
  refine ORel.bind (ho.pow _ hpk.s) fun sv sv' hsv => ?_
  refine ORel.bind (ho.pow _ hpk.rctxt) fun rc rc' hrc => ?_
  refine ORel.bind (mulPows_rel ho hpk.r vals (keys vals) (ho.mul hsv hrc)) fun rx rx' hrx => ?_
  refine ORel.bind (ho.inv hrx) fun rxi rxi' hrxi => ?_
  exact ORel.map (ho.pow _ hs.a) fun ae ae' hae => ho.beq (ho.mul hpk.z hrxi) hae


/-! ## the blinded-secrets correctness proof (holder's `newBlindedProof`, issuer's `checkBlinded`) -/

structure BlindedRel (R : G → G' → Prop) (b : Iss.Blinded G) (b' : Iss.Blinded G') : Prop where
  u : R b.u b'.u
  hidden : b.hidden = b'.hidden
  committed : MapRel R b.committed b'.committed

theorem hiddenFold_rel (ho : OpsRel R o o') {pk : PubKey G} {pk' : PubKey G'} (hpk : PKRel R pk pk')
    (mCaps : List (String × Int)) : ∀ (as : List String) {acc : G} {acc' : G'}, R acc acc' →
      ORel R (Iss.hiddenFold o pk mCaps as acc) (Iss.hiddenFold o' pk' mCaps as acc') := by
  intro as
  induction as with
  | nil => intro acc acc' h; exact h
  | cons a as ih =>
    intro acc acc' h
    simp only [Iss.hiddenFold]
    refine ORel.bind (getOrErr_rel hpk.r a) fun r r' hr => ?_
    cases getOrErr a mCaps with
    | ok mc =>
      simp only [Outcome.bind_ok]
      exact ORel.bind (ho.pow mc hr) fun p p' hp => ih (ho.mul h hp)
    | err => simp [ORel]
    | panic => simp [ORel]

theorem committedLoop_rel (ho : OpsRel R o o') {pk : PubKey G} {pk' : PubKey G'}
    (hpk : PKRel R pk pk') (p : Iss.BlindedProof) :
    ∀ {cs : List (String × G)} {cs' : List (String × G')}, MapRel R cs cs' →
      Iss.committedLoop o pk p cs = Iss.committedLoop o' pk' p cs' := by
  intro cs cs' h
  induction h with
  | nil => rfl
  | @cons x x' l l' hx _ ih =>
    obtain ⟨k, value⟩ := x
    obtain ⟨k', value'⟩ := x'
    obtain ⟨hk, hv⟩ := hx
    simp only at hk hv
    subst hk
    simp only [Iss.committedLoop]
    cases getOrErr k p.mCaps with
    | ok mc =>
      cases getOrErr k p.rCaps with
      | ok rc =>
        simp only [Outcome.bind_ok]
        apply ORel.eq_of_eq
        refine ORel.bind (ho.inv hv) fun vi vi' hvi => ?_
        refine ORel.bind (ho.pow p.c hvi) fun vic vic' hvic => ?_
        refine ORel.bind (ho.pow mc hpk.z) fun zm zm' hzm => ?_
        refine ORel.bind (ho.pow rc hpk.s) fun sr sr' hsr => ?_
        rw [ih, ho.enc (ho.mul hvic (ho.mul hzm hsr)), ho.enc hv]
        exact ORel.refl _
      | err => rfl
      | panic => rfl
    | err => rfl
    | panic => rfl

/-- the issuer's verdict on a blinded-secrets proof is the same in both groups -/
theorem checkBlinded_rel (ho : OpsRel R o o') (H : List ByteArray → Int) {pk : PubKey G}
    {pk' : PubKey G'} (hpk : PKRel R pk pk') {b : Iss.Blinded G} {b' : Iss.Blinded G'}
    (hb : BlindedRel R b b') (p : Iss.BlindedProof) (nonce : ByteArray) :
    Iss.checkBlinded o H pk b p nonce = Iss.checkBlinded o' H pk' b' p nonce := by
  unfold Iss.checkBlinded
  rw [hb.hidden, committedLoop_rel ho hpk p hb.committed]
  apply ORel.eq_of_eq
  refine ORel.bind (ho.inv hb.u) fun ui ui' hui => ?_
  refine ORel.bind (ho.pow p.c hui) fun uic uic' huic => ?_
  refine ORel.bind (ho.pow p.vDashCap hpk.s) fun sv sv' hsv => ?_
  refine ORel.bind (hiddenFold_rel ho hpk p.mCaps _ (ho.mul huic hsv)) fun uc uc' huc => ?_
  cases Iss.committedLoop o' pk' p b'.committed with
  | ok cb =>
    simp only [Outcome.bind_ok, Iss.blindedTranscript]
    rw [ho.enc hb.u, ho.enc huc]
    exact ORel.refl _
  | err => simp [ORel]
  | panic => simp [ORel]

theorem uTilde_rel (ho : OpsRel R o o') {pk : PubKey G} {pk' : PubKey G'} (hpk : PKRel R pk pk')
    (tp : Iss.BlindTape) : ∀ (as : List String) {acc : G} {acc' : G'}, R acc acc' →
      ORel R (Iss.uTilde o pk tp as acc) (Iss.uTilde o' pk' tp as acc') := by
  intro as
  induction as with
  | nil => intro acc acc' h; exact h
  | cons a as ih =>
    intro acc acc' h
    simp only [Iss.uTilde]
    refine ORel.bind (getOrErr_rel hpk.r a) fun r r' hr => ?_
    exact ORel.bind (ho.pow _ hr) fun p p' hp => ih (ho.mul h hp)

/-- the holder's blinded-secrets proof is the same document in both groups -/
theorem newBlindedProof_rel (ho : OpsRel R o o') (H : List ByteArray → Int) {pk : PubKey G}
    {pk' : PubKey G'} (hpk : PKRel R pk pk') {u : G} {u' : G'} (hu : R u u')
    (hidden : List (String × Int)) (vPrime : Int) (tp : Iss.BlindTape) (nonce : ByteArray) :
    Iss.newBlindedProof o H pk u hidden vPrime tp nonce =
      Iss.newBlindedProof o' H pk' u' hidden vPrime tp nonce := by
  unfold Iss.newBlindedProof
  apply ORel.eq_of_eq
  refine ORel.bind (ho.pow _ hpk.s) fun sv sv' hsv => ?_
  refine ORel.map (uTilde_rel ho hpk tp _ hsv) fun ut ut' hut => ?_
  simp only [Iss.blindedTranscript]
  rw [ho.enc hu, ho.enc hut]


/-! ## the signature-correctness proof (issuer's `newSignatureCorrectness`, holder's
`checkSignatureCorrectness`) -/

/-- the holder's verdict on a signature with its correctness proof is the same in both groups -/
theorem checkSignatureCorrectness_rel (ho : OpsRel R o o') (H : List ByteArray → Int)
    (isPrime : Int → Bool) {pk : PubKey G} {pk' : PubKey G'} (hpk : PKRel R pk pk')
    {sig : Signature G} {sig' : Signature G'} (hs : SigRel R sig sig') (vals : Iss.KValues)
    (se c : Int) (nonce : ByteArray) :
    Iss.checkSignatureCorrectness o H isPrime pk sig vals se c nonce =
      Iss.checkSignatureCorrectness o' H isPrime pk' sig' vals se c nonce := by
  unfold Iss.checkSignatureCorrectness
  rw [hs.e, hs.v, hs.m2, keys_rel hpk.r]
  have hnone : (vals.any fun (x : String × Iss.Kind × Int) =>
        (x.2.1 == .known || x.2.1 == .hidden) && (lookup x.1 pk.r).isNone) =
      (vals.any fun (x : String × Iss.Kind × Int) =>
        (x.2.1 == .known || x.2.1 == .hidden) && (lookup x.1 pk'.r).isNone) := by
    congr 1; funext x; rw [lookup_isNone_rel hpk.r]
  split
  · rfl
  · split
    · rfl
    · simp only at hnone ⊢
      rw [hnone]
      split
      · rfl
      · split
        · rfl
        · apply ORel.eq_of_eq
          refine ORel.bind (ho.pow _ hpk.s) fun sv sv' hsv => ?_
          refine ORel.bind (ho.pow _ hpk.rctxt) fun rc rc' hrc => ?_
          refine ORel.bind (mulPows_rel ho hpk.r _ _ (ho.mul hsv hrc)) fun rx rx' hrx => ?_
          refine ORel.bind (ho.inv hrx) fun rxi rxi' hrxi => ?_
          have hq := ho.mul hpk.z hrxi
          refine ORel.bind (ho.pow _ hs.a) fun ae ae' hae => ?_
          rw [ho.beq hq hae]
          split
          · trivial
          · refine ORel.bind (ho.pow _ hs.a) fun ac ac' hac => ?_
            rw [ho.enc hq, ho.enc hs.a, ho.enc hac]
            exact ORel.refl _

/-- the issuer's signature-correctness proof is the same pair `(se, c)` in both groups -/
theorem newSignatureCorrectness_rel (ho : OpsRel R o o') (H : List ByteArray → Int)
    {a q : G} {a' q' : G'} (ha : R a a') (hq : R q q') (einv r N : Int) (nonce : ByteArray) :
    Iss.newSignatureCorrectness o H a q einv r N nonce =
      Iss.newSignatureCorrectness o' H a' q' einv r N nonce := by
  unfold Iss.newSignatureCorrectness
  apply ORel.eq_of_eq
  refine ORel.map (ho.pow r hq) fun ac ac' hac => ?_
  rw [ho.enc hq, ho.enc ha, ho.enc hac]

end CL.Pri
