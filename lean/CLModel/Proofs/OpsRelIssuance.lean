import CLModel.Proofs.OpsRel
import CLModel.Model.Issuance
namespace CL.Pri
variable {G G' : Type} {R : G → G' → Prop} {o : GroupOps G} {o' : GroupOps G'}

/-! ## the key-correctness proof (issuer's `newKeyProof`, holder's `checkKeyProof`) -/

theorem ORel.eq_of_eq {α : Type} {x y : Outcome α} (h : ORel (· = ·) x y) : x = y := by
  cases x <;> cases y <;> simp_all [ORel]

theorem lookup_isNone_rel {m : List (String × G)} {m' : List (String × G')}
    (h : MapRel R m m') (k : String) : (lookup k m).isNone = (lookup k m').isNone := by
  induction h with
  | nil => rfl
  | @cons p q t t' hpq _ ih =>
    obtain ⟨k1, v1⟩ := p
    obtain ⟨k2, v2⟩ := q
    obtain ⟨hk, _⟩ := hpq
    simp only at hk
    subst hk
    simp only [lookup]
    by_cases hk : (k == k1) = true
    · simp [hk]
    · simp only [hk]; exact ih

theorem getOrPanic_rel {m : List (String × G)} {m' : List (String × G')}
    (h : MapRel R m m') (k : String) : ORel R (getOrPanic k m) (getOrPanic k m') := by
  induction h with
  | nil => simp [getOrPanic, lookup, ORel]
  | @cons p q t t' hpq _ ih =>
    obtain ⟨k1, v1⟩ := p
    obtain ⟨k2, v2⟩ := q
    obtain ⟨hk, hv⟩ := hpq
    simp only at hk hv
    subst hk
    unfold getOrPanic at ih ⊢
    simp only [lookup]
    by_cases hk : (k == k1) = true
    · simp only [hk, if_true]; exact hv
    · simp only [hk]; exact ih

theorem map_enc_rel (ho : OpsRel R o o') {l : List G} {l' : List G'} (h : List.Forall₂ R l l') :
    l.map o.enc = l'.map o'.enc := by
  induction h with
  | nil => rfl
  | cons hx _ ih => simp only [List.map_cons, ho.enc hx, ih]

/-- relation on the pair of lists the two key-proof loops return -/
def PairRel (R : G → G' → Prop) (a : List G × List G) (b : List G' × List G') : Prop :=
  List.Forall₂ R a.1 b.1 ∧ List.Forall₂ R a.2 b.2

theorem keyProofLoop_rel (ho : OpsRel R o o') {pk : PubKey G} {pk' : PubKey G'}
    (hpk : PKRel R pk pk') (c : Int) : ∀ xs : List (String × Int),
      ORel (PairRel R) (Iss.keyProofLoop o pk c xs) (Iss.keyProofLoop o' pk' c xs) := by
  intro xs
  induction xs with
  | nil => exact ⟨List.Forall₂.nil, List.Forall₂.nil⟩
  | cons x rest ih =>
    obtain ⟨k, xr⟩ := x
    simp only [Iss.keyProofLoop]
    refine ORel.bind (getOrPanic_rel hpk.r k) fun r r' hr => ?_
    refine ORel.bind (ho.inv hr) fun ri ri' hri => ?_
    refine ORel.bind (ho.pow c hri) fun ric ric' hric => ?_
    refine ORel.bind (ho.pow xr hpk.s) fun sx sx' hsx => ?_
    exact ORel.map ih fun p p' hp =>
      ⟨List.Forall₂.cons hr hp.1, List.Forall₂.cons (ho.mul hric hsx) hp.2⟩

/-- the holder's verdict on a key proof is the same in both groups -/
theorem checkKeyProof_rel (ho : OpsRel R o o') (H : List ByteArray → Int) {pk : PubKey G}
    {pk' : PubKey G'} (hpk : PKRel R pk pk') (p : Iss.KeyProof) :
    Iss.checkKeyProof o H pk p = Iss.checkKeyProof o' H pk' p := by
  unfold Iss.checkKeyProof
  simp only
  rw [keys_rel hpk.r]
  have hnone : ((keys p.xrCap).any fun k => (lookup k pk.r).isNone) =
      ((keys p.xrCap).any fun k => (lookup k pk'.r).isNone) := by
    congr 1; funext k; exact lookup_isNone_rel hpk.r k
  rw [hnone]
  split
  · rfl
  · split
    · rfl
    · apply ORel.eq_of_eq
      refine ORel.bind (ho.inv hpk.s) fun _ _ _ => ?_
      refine ORel.bind (ho.inv hpk.z) fun zi zi' hzi => ?_
      refine ORel.bind (ho.pow p.c hzi) fun zic zic' hzic => ?_
      refine ORel.bind (ho.pow p.xzCap hpk.s) fun sx sx' hsx => ?_
      refine ORel.bind (keyProofLoop_rel ho hpk p.c p.xrCap) fun pr pr' hpr => ?_
      obtain ⟨rs, caps⟩ := pr
      obtain ⟨rs', caps'⟩ := pr'
      obtain ⟨h1, h2⟩ := hpr
      simp only at h1 h2 ⊢
      rw [ho.enc hpk.z, map_enc_rel ho h1, ho.enc (ho.mul hzic hsx), map_enc_rel ho h2]
      exact ORel.refl _

theorem keyProofTildes_rel (ho : OpsRel R o o') {pk : PubKey G} {pk' : PubKey G'}
    (hpk : PKRel R pk pk') : ∀ xs : List (String × Int × Int),
      ORel (PairRel R) (Iss.keyProofTildes o pk xs) (Iss.keyProofTildes o' pk' xs) := by
  intro xs
  induction xs with
  | nil => exact ⟨List.Forall₂.nil, List.Forall₂.nil⟩
  | cons x rest ih =>
    obtain ⟨k, xr, xt⟩ := x
    simp only [Iss.keyProofTildes]
    refine ORel.bind (getOrErr_rel hpk.r k) fun r r' hr => ?_
    refine ORel.bind (ho.pow xt hpk.s) fun rt rt' hrt => ?_
    exact ORel.map ih fun p p' hp => ⟨List.Forall₂.cons hr hp.1, List.Forall₂.cons hrt hp.2⟩

/-- the issuer's key proof is the same document in both groups -/
theorem newKeyProof_rel (ho : OpsRel R o o') (H : List ByteArray → Int) {pk : PubKey G}
    {pk' : PubKey G'} (hpk : PKRel R pk pk') (xz xzTilde : Int)
    (covered : List (String × Int × Int)) :
    Iss.newKeyProof o H pk xz xzTilde covered = Iss.newKeyProof o' H pk' xz xzTilde covered := by
  unfold Iss.newKeyProof
  apply ORel.eq_of_eq
  refine ORel.bind (ho.pow xzTilde hpk.s) fun zt zt' hzt => ?_
  refine ORel.map (keyProofTildes_rel ho hpk covered) fun pr pr' hpr => ?_
  obtain ⟨rs, rts⟩ := pr
  obtain ⟨rs', rts'⟩ := pr'
  obtain ⟨h1, h2⟩ := hpr
  simp only at h1 h2 ⊢
  rw [ho.enc hpk.z, map_enc_rel ho h1, ho.enc hzt, map_enc_rel ho h2]

end CL.Pri
