import CLModel.Model.Codec
import CLModel.Model.Curve
import CLModel.Proofs.BigNum
import CLModel.Proofs.Scalar
import Mathlib.Tactic.Ring
import Mathlib.Tactic.Linarith
/-! Helper lemmas for the primitive codecs (C15, C16): numerals, scalar text, big-endian bytes. -/
namespace CL.Codec
open CL.Outcome CL.BN

/-! ## integer text -/

/-- **`from_dec` / `from_hex` are the specification**, on both back-ends, for every string -/
theorem implBnText_eq_spec (b : Backend) (radix : ℕ) (hr : radix = 10 ∨ radix = 16) (s : Text) :
    implBnText b radix s = specBnText radix s := by
  unfold implBnText specBnText
  rcases hr with hr | hr <;> subst hr <;> cases b
  · simp only [show ¬ ((10 : ℕ) = 16) by norm_num, if_false, Ossl.fromDec]
    exact (parsers_eq_spec 10 (Or.inl rfl) s).2
  · simp only [show ¬ ((10 : ℕ) = 16) by norm_num, if_false, Rust.fromDec]
    exact (parsers_eq_spec 10 (Or.inl rfl) s).1
  · simp only [if_true, Ossl.fromHex]
    exact (parsers_eq_spec 16 (Or.inr rfl) s).2
  · simp only [if_true, Rust.fromHex]
    exact (parsers_eq_spec 16 (Or.inr rfl) s).1

theorem parseDigits_not_panic (radix : ℕ) : ∀ (cs : Text) (acc : ℕ),
    Spec.parseDigits radix cs acc ≠ panic := by
  intro cs
  induction cs with
  | nil => intro acc; simp [Spec.parseDigits]
  | cons c cs ih =>
    intro acc
    simp only [Spec.parseDigits]
    cases h : radixDigit radix c with
    | none => simp
    | some d => exact ih _

/-- the specification (hence, by `implBnText_eq_spec`, the implementation) never panics -/
theorem specBnText_not_panic (radix : ℕ) (s : Text) : specBnText radix s ≠ panic := by
  intro hs
  unfold specBnText Spec.parseNumeral at hs
  split_ifs at hs
  · cases hp : Spec.parseDigits radix s.tail 0 with
    | ok w => rw [hp] at hs; simp at hs
    | err => rw [hp] at hs; simp at hs
    | panic => exact parseDigits_not_panic _ _ _ hp
  · cases hp : Spec.parseDigits radix s 0 with
    | ok w => rw [hp] at hs; simp at hs
    | err => rw [hp] at hs; simp at hs
    | panic => exact parseDigits_not_panic _ _ _ hp

/-! ## scalar text -/

open CL.Sc in
theorem hexDigitVal_hexChar : ∀ d < 16, hexDigitVal (hexChar d) = some d := by decide

open CL.Sc in
theorem hexVal_hexDigitsAux : ∀ (n v : ℕ) (acc : List Char) (a : ℕ),
    hexVal (hexDigitsAux n v acc) (some a) = hexVal acc (some (a * 16 ^ n + v % 16 ^ n)) := by
  intro n
  induction n with
  | zero => intro v acc a; simp [hexDigitsAux, Nat.mod_one]
  | succ n ih =>
    intro v acc a
    simp only [hexDigitsAux]
    rw [ih]
    simp only [hexVal, hexDigitVal_hexChar (v % 16) (Nat.mod_lt _ (by norm_num))]
    congr 2
    have : v % 16 ^ (n + 1) = v % 16 + 16 * (v / 16 % 16 ^ n) := by
      rw [pow_succ, mul_comm, Nat.mod_mul]
    rw [this]; ring

open CL.Sc in
theorem length_hexDigitsAux : ∀ (n v : ℕ) (acc : List Char),
    (hexDigitsAux n v acc).length = n + acc.length := by
  intro n
  induction n with
  | zero => intro v acc; simp [hexDigitsAux]
  | succ n ih => intro v acc; simp only [hexDigitsAux]; rw [ih]; simp; omega

open CL.Sc in
theorem hexLenAux_le : ∀ (fuel v k : ℕ), v < 16 ^ k → hexLenAux fuel v ≤ k := by
  intro fuel
  induction fuel with
  | zero => intro v k _; simp [hexLenAux]
  | succ f ih =>
    intro v k h
    simp only [hexLenAux]
    by_cases h0 : v = 0
    · simp [h0]
    · simp only [h0, if_false]
      cases k with
      | zero => simp at h; omega
      | succ k =>
        have : v / 16 < 16 ^ k := by
          rw [Nat.div_lt_iff_lt_mul (by norm_num)]; rw [pow_succ] at h; exact h
        have := ih (v / 16) k this
        omega

open CL.Sc in
/-- **the 64-digit text of a reduced scalar reads back as that scalar** -/
theorem sc_fromString_toHex (x : ℕ) (h : x < Sc.r) : Sc.fromString (Sc.toHex x) = ok x := by
  have h64 : x < 16 ^ 64 := lt_trans h (by decide)
  have hlen : hexLenAux x x ≤ 64 := hexLenAux_le x x 64 h64
  have hn : max 64 (hexLenAux x x) = 64 := max_eq_left hlen
  unfold Sc.fromString Sc.toHex
  rw [hn, String.toList_ofList]
  have hl := length_hexDigitsAux 64 x []
  cases hc : hexDigitsAux 64 x [] with
  | nil => rw [hc] at hl; simp at hl
  | cons c cs =>
    simp only
    rw [← hc, hexVal_hexDigitsAux 64 x [] 0]
    simp only [hexVal, zero_mul, zero_add]
    rw [Nat.mod_eq_of_lt h64]
    simp only [hl, List.length_nil, add_zero]
    rw [Nat.mod_eq_of_lt h]
    simp

end CL.Codec

/-! ## big-endian bytes of the curve codecs -/
namespace CL.Curve

theorem length_toBE : ∀ (n v : ℕ), (toBE n v).length = n := by
  intro n
  induction n with
  | zero => intro v; rfl
  | succ n ih => intro v; simp [toBE, ih]

theorem beNat_append_singleton (l : Bytes) (b : ℕ) : beNat (l ++ [b]) = beNat l * 256 + b := by
  simp [beNat, List.foldl_append]

theorem beNat_toBE : ∀ (n v : ℕ), beNat (toBE n v) = v % 256 ^ n := by
  intro n
  induction n with
  | zero => intro v; simp [toBE, beNat, Nat.mod_one]
  | succ n ih =>
    intro v
    simp only [toBE]
    rw [beNat_append_singleton, ih]
    have : v % 256 ^ (n + 1) = v % 256 + 256 * (v / 256 % 256 ^ n) := by
      rw [pow_succ, mul_comm, Nat.mod_mul]
    rw [this]; ring

theorem beNat_toBE32 (v : ℕ) (h : v < p) : beNat (toBE 32 v) = v := by
  rw [beNat_toBE]
  exact Nat.mod_eq_of_lt (lt_trans h (by decide))

theorem slice_0 (a rest : Bytes) (n : ℕ) (h : a.length = n) : slice (a ++ rest) 0 n = a := by
  subst h
  simp only [slice, List.drop_zero, List.take_left']

theorem slice_1 (a b rest : Bytes) (n : ℕ) (ha : a.length = n) (hb : b.length = n) :
    slice (a ++ (b ++ rest)) n n = b := by
  subst ha
  simp only [slice, List.drop_left']
  exact List.take_left' hb

theorem slice_at (pre b rest : Bytes) (n m : ℕ) (hp : pre.length = n) (hb : b.length = m) :
    slice (pre ++ (b ++ rest)) n m = b := by
  subst hp
  simp only [slice, List.drop_left']
  exact List.take_left' hb

theorem slices4 (a b c d : Bytes) (ha : a.length = 32) (hb : b.length = 32) (hc : c.length = 32)
    (hd : d.length = 32) :
    slice (a ++ b ++ c ++ d) 0 32 = a ∧ slice (a ++ b ++ c ++ d) 32 32 = b ∧
    slice (a ++ b ++ c ++ d) 64 32 = c ∧ slice (a ++ b ++ c ++ d) 96 32 = d ∧
    (a ++ b ++ c ++ d).length = 128 := by
  refine ⟨?_, ?_, ?_, ?_, by simp [ha, hb, hc, hd]⟩
  · have := slice_at [] a (b ++ c ++ d) 0 32 rfl ha
    simpa [List.append_assoc] using this
  · have := slice_at a b (c ++ d) 32 32 ha hb
    simpa [List.append_assoc] using this
  · have := slice_at (a ++ b) c d 64 32 (by simp [ha, hb]) hc
    simpa [List.append_assoc] using this
  · have := slice_at (a ++ b ++ c) d [] 96 32 (by simp [ha, hb, hc]) hd
    simpa [List.append_assoc] using this

/-- the 128-byte form of an affine point with reduced coordinates on the twist decodes to the
point; its four coordinate fields are the coordinates -/
theorem g2_round (x y : F2) (hxa : x.a < p) (hxb : x.b < p) (hya : y.a < p) (hyb : y.b < p)
    (hc : onCurveAff B2 x y = true) :
    implG2BytesInf (g2BytesOfAffine x y) = .ok (.aff x y) ∧
    (beNat (slice (g2BytesOfAffine x y) 0 32) < p ∧ beNat (slice (g2BytesOfAffine x y) 32 32) < p ∧
     beNat (slice (g2BytesOfAffine x y) 64 32) < p ∧ beNat (slice (g2BytesOfAffine x y) 96 32) < p) := by
  obtain ⟨s0, s1, s2, s3, hlen⟩ := slices4 (toBE 32 (x.a % p)) (toBE 32 (x.b % p)) (toBE 32 (y.a % p))
    (toBE 32 (y.b % p)) (length_toBE _ _) (length_toBE _ _) (length_toBE _ _) (length_toBE _ _)
  constructor
  · unfold implG2BytesInf
    simp only [g2BytesOfAffine, hlen, ne_eq, not_true_eq_false, if_false, s0, s1, s2, s3]
    rw [Nat.mod_eq_of_lt hxa, Nat.mod_eq_of_lt hxb, Nat.mod_eq_of_lt hya, Nat.mod_eq_of_lt hyb,
      beNat_toBE32 _ hxa, beNat_toBE32 _ hxb, beNat_toBE32 _ hya, beNat_toBE32 _ hyb,
      Nat.mod_eq_of_lt hxa, Nat.mod_eq_of_lt hxb, Nat.mod_eq_of_lt hya, Nat.mod_eq_of_lt hyb]
    simp [hc]
  · simp only [g2BytesOfAffine, s0, s1, s2, s3]
    rw [Nat.mod_eq_of_lt hxa, Nat.mod_eq_of_lt hxb, Nat.mod_eq_of_lt hya, Nat.mod_eq_of_lt hyb,
      beNat_toBE32 _ hxa, beNat_toBE32 _ hxb, beNat_toBE32 _ hya, beNat_toBE32 _ hyb]
    exact ⟨hxa, hxb, hya, hyb⟩

/-- the strict decoder accepts the encoding of every such point -/
theorem g2_round_strict (x y : F2) (hxa : x.a < p) (hxb : x.b < p) (hya : y.a < p) (hyb : y.b < p)
    (hc : onCurveAff B2 x y = true) : implG2Bytes (g2BytesOfAffine x y) = .ok (.aff x y) := by
  unfold implG2Bytes
  rw [(g2_round x y hxa hxb hya hyb hc).1]
  simp

/-- what the strict decoder accepts is the encoding of the value it returns -/
theorem implG2Bytes_ok (bs : Bytes) (x y : F2) (h : implG2Bytes bs = .ok (.aff x y)) :
    implG2BytesInf bs = .ok (.aff x y) ∧ g2BytesOfAffine x y = bs := by
  unfold implG2Bytes at h
  cases hi : implG2BytesInf bs with
  | ok v =>
    rw [hi] at h
    cases v with
    | inf => simp at h
    | aff x' y' =>
      simp only at h
      split_ifs at h with he
      obtain ⟨hx, hy⟩ := AffPt.aff.inj (Res.ok.inj h)
      subst hx; subst hy
      exact ⟨rfl, he⟩
  | err => rw [hi] at h; simp at h
  | panic => rw [hi] at h; simp at h
  | dep => rw [hi] at h; simp at h

end CL.Curve
