import CLModel.Proofs.Accum
/-! Witness values: `Witness::new`, `Witness::update`, issuer-side witness (exponent form). -/
namespace CL.Reg
open Finset

variable {F : Type} [CommRing F]

/-- `2 * L + 1` fits a u32 (so does every tail index `L+1-j+i ≤ 2L`) -/
def TailsOk (L : ℕ) : Prop := 2 * L + 1 < 4294967296

theorem TailsOk.sizeOk {L : ℕ} (h : TailsOk L) : SizeOk L := by
  unfold TailsOk at h; unfold SizeOk; omega

/-- the witness of holder `i` for valid set `V`: tails `L+1-j+i` of the other valid indices -/
def witOf (γ : F) (L i : ℕ) (V : Finset ℕ) : F := ∑ j ∈ V.erase i, γ ^ (L + 1 - j + i)

theorem witnessIndexNew_spec (m : OvfMode) (L j i : ℕ) (hj : InRange L j) (hi : InRange L i)
    (hL : TailsOk L) : witnessIndexNew m L j i = .ok (L + 1 - j + i) := by
  obtain ⟨hj1, hj2⟩ := hj
  obtain ⟨hi1, hi2⟩ := hi
  unfold TailsOk at hL
  unfold witnessIndexNew Gen.witnessNewIndexExpr
  simp only [IExpr.eval, envGet, binop_add_ok]
  rw [IntTy.fit_ok (by simp; omega) (by simp; omega)]
  simp only [binop_sub_ok]
  rw [IntTy.fit_ok (by simp; omega) (by simp; omega)]
  simp only [binop_add_ok]
  rw [IntTy.fit_ok (by simp; omega) (by simp; omega)]
  simp only [Outcome.map_ok]
  congr 1
  omega

theorem witnessIndexUpdate_spec (m : OvfMode) (L j i : ℕ) (hj : InRange L j) (hi : InRange L i)
    (hL : TailsOk L) : witnessIndexUpdate m L j i = .ok (L + 1 - j + i) := by
  obtain ⟨hj1, hj2⟩ := hj
  obtain ⟨hi1, hi2⟩ := hi
  unfold TailsOk at hL
  unfold witnessIndexUpdate Gen.witnessUpdateIndexExpr
  simp only [IExpr.eval, envGet, binop_add_ok]
  rw [IntTy.fit_ok (by simp; omega) (by simp; omega)]
  simp only [binop_sub_ok]
  rw [IntTy.fit_ok (by simp; omega) (by simp; omega)]
  simp only [binop_add_ok]
  rw [IntTy.fit_ok (by simp; omega) (by simp; omega)]
  simp only [Outcome.map_ok]
  congr 1
  omega

/-- the tail read for `j ≠ i`, both in range, is a published power of `γ` (never position
`L+1`, never outside the `2L+1` stored tails) -/
theorem tailAt_spec (γ : F) (L j i : ℕ) (hj : InRange L j) (hi : InRange L i) (hne : j ≠ i) :
    tailAt ringOps γ L (L + 1 - j + i) = .ok (γ ^ (L + 1 - j + i)) := by
  obtain ⟨hj1, hj2⟩ := hj
  obtain ⟨hi1, hi2⟩ := hi
  have h1 : ¬ (L + 1 - j + i ≥ 2 * L + 1) := by omega
  have h2 : (L + 1 - j + i == L + 1) = false := by
    simp only [beq_eq_false_iff_ne, ne_eq]; omega
  simp [tailAt, h1, h2]

theorem witnessNewLoop_spec (γ : F) (m : OvfMode) (L i : ℕ) (hL : TailsOk L) (hi : InRange L i) :
    ∀ (l : List ℕ) (ω : F), (∀ j ∈ l, InRange L j ∧ j ≠ i) →
      witnessNewLoop ringOps γ m L i l ω = .ok (ω + (l.map fun j => γ ^ (L + 1 - j + i)).sum) := by
  intro l
  induction l with
  | nil => intro ω _; simp [witnessNewLoop]
  | cons j js ih =>
    intro ω h
    obtain ⟨hj, hne⟩ := h j (by simp)
    simp only [witnessNewLoop, witnessNewLoopGuard_spec, inRange_guard_false hj,
      Outcome.guardThen_ok, Bool.false_eq_true, if_false, witnessIndexNew_spec m L j i hj hi hL,
      Outcome.bind_ok, tailAt_spec γ L j i hj hi hne, ringOps_add]
    rw [ih _ (fun x hx => h x (List.mem_cons_of_mem _ hx))]
    simp only [List.map_cons, List.sum_cons]
    congr 1; ring

/-- signed contribution of one `(j, add?)` entry to the witness of holder `i` -/
def updTerm (γ : F) (L i : ℕ) (p : ℕ × Bool) : F :=
  if p.1 = i then 0 else if p.2 then γ ^ (L + 1 - p.1 + i) else - γ ^ (L + 1 - p.1 + i)

theorem witnessUpdateLoop_spec (γ : F) (m : OvfMode) (L i : ℕ) (hL : TailsOk L) (hi : InRange L i) :
    ∀ (l : List (ℕ × Bool)) (ω : F), (∀ p ∈ l, InRange L p.1) →
      witnessUpdateLoop ringOps γ m L i l ω = .ok (ω + (l.map (updTerm γ L i)).sum) := by
  intro l
  induction l with
  | nil => intro ω _; simp [witnessUpdateLoop]
  | cons p ps ih =>
    intro ω h
    obtain ⟨j, add⟩ := p
    have hj : InRange L j := h (j, add) (by simp)
    have hps : ∀ q ∈ ps, InRange L q.1 := fun q hq => h q (List.mem_cons_of_mem _ hq)
    by_cases hij : i = j
    · subst hij
      simp only [witnessUpdateLoop, beq_self_eq_true, if_true, ih ω hps, List.map_cons,
        List.sum_cons, updTerm, zero_add]
    · have hb : (i == j) = false := by simpa using hij
      have hne : j ≠ i := fun e => hij e.symm
      simp only [witnessUpdateLoop, hb, Bool.false_eq_true, if_false, witnessUpdateLoopGuard_spec,
        inRange_guard_false hj, Outcome.guardThen_ok, witnessIndexUpdate_spec m L j i hj hi hL,
        Outcome.bind_ok, tailAt_spec γ L j i hj hi hne, ih _ hps, List.map_cons, List.sum_cons,
        updTerm, hne]
      cases add with
      | true => simp only [if_true, ringOps_add]; congr 1; ring
      | false => simp only [Bool.false_eq_true, if_false, ringOps_sub]; congr 1; ring

end CL.Reg
