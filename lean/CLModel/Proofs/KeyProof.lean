import CLModel.Proofs.Primary
import CLModel.Model.Issuance
/-! helper lemmas for the completeness of the key-correctness proof (C05, C06) -/
namespace CL.Iss
open CL CL.Pri

variable {G : Type} [AddCommGroup G] [DecidableEq G] (enc : G → ByteArray)

theorem addOps_enc_fn : (addOps enc).enc = enc := rfl

/-- every covered entry names a generator that really is `xr • S` -/
def CoveredOk (pk : PubKey G) (covered : List (String × ℤ × ℤ)) : Prop :=
  ∀ e ∈ covered, lookup e.1 pk.r = some (e.2.1 • pk.s)

theorem keyProofTildes_value (pk : PubKey G) : ∀ (covered : List (String × ℤ × ℤ)),
    CoveredOk pk covered →
    keyProofTildes (addOps enc) pk covered
      = .ok (covered.map (fun e => e.2.1 • pk.s), covered.map (fun e => e.2.2 • pk.s)) := by
  intro covered
  induction covered with
  | nil => intro _; rfl
  | cons e rest ih =>
    intro h
    obtain ⟨k, xr, xt⟩ := e
    have hk : lookup k pk.r = some (xr • pk.s) := h (k, xr, xt) (by simp)
    simp only [keyProofTildes, getOrErr, hk, Outcome.bind_ok, addOps_pow,
      ih (fun x hx => h x (by simp [hx])), Outcome.map_ok, List.map_cons]

theorem keyProofLoop_value (pk : PubKey G) (c : ℤ) : ∀ (covered : List (String × ℤ × ℤ)),
    CoveredOk pk covered →
    keyProofLoop (addOps enc) pk c (covered.map fun e => (e.1, e.2.2 + c * e.2.1))
      = .ok (covered.map (fun e => e.2.1 • pk.s), covered.map (fun e => e.2.2 • pk.s)) := by
  intro covered
  induction covered with
  | nil => intro _; rfl
  | cons e rest ih =>
    intro h
    obtain ⟨k, xr, xt⟩ := e
    have hk : lookup k pk.r = some (xr • pk.s) := h (k, xr, xt) (by simp)
    have hm : c • -(xr • pk.s) + (xt + c * xr) • pk.s = xt • pk.s := by module
    simp only [List.map_cons, keyProofLoop, getOrPanic, hk, Outcome.bind_ok, addOps_inv, addOps_pow,
      addOps_mul, ih (fun x hx => h x (by simp [hx])), Outcome.map_ok, hm]

end CL.Iss
