import CLModel.Model.Registry
import CLModel.Proofs.IntExpr
import Mathlib.Algebra.BigOperators.Group.Finset.Basic
import Mathlib.Algebra.BigOperators.Intervals
import Mathlib.Algebra.Ring.Basic
import Mathlib.Tactic.Ring
import Mathlib.Data.Finset.Basic
/-!
# Helper lemmas for the registry family (C08, C09, C13, C14)

Proof instance of the model: any commutative ring `F` (the exponent field of the pairing
groups), `ringOps` below.  All statements about u32 index arithmetic are about the
expressions *extracted from the Rust source* (`Gen.Index`), in both overflow modes.
-/
namespace CL.Reg
open Finset

variable {F : Type} [CommRing F]

/-- proof instance of `RingOps` -/
def ringOps : RingOps F := ⟨(· + ·), (· - ·), (· * ·), 0, 1, (· ^ ·)⟩

@[simp] theorem ringOps_add (a b : F) : (ringOps : RingOps F).add a b = a + b := rfl
@[simp] theorem ringOps_sub (a b : F) : (ringOps : RingOps F).sub a b = a - b := rfl
@[simp] theorem ringOps_mul (a b : F) : (ringOps : RingOps F).mul a b = a * b := rfl
@[simp] theorem ringOps_zero : (ringOps : RingOps F).zero = 0 := rfl
@[simp] theorem ringOps_one : (ringOps : RingOps F).one = 1 := rfl
@[simp] theorem ringOps_pow (a : F) (k : ℕ) : (ringOps : RingOps F).pow a k = a ^ k := rfl
@[simp] theorem indexPow_eq (γ : F) (k : ℕ) : indexPow ringOps γ k = γ ^ k := rfl

def InRange (L i : ℕ) : Prop := 1 ≤ i ∧ i ≤ L

/-- `L + 1` fits a u32 (the registry size the code can handle without overflow) -/
def SizeOk (L : ℕ) : Prop := L + 1 < 4294967296

/-! ## the extracted u32 expressions -/

theorem getIndex_spec (m : OvfMode) (L idx : ℕ) (h : InRange L idx) (hL : SizeOk L) :
    getIndex m L idx = .ok (L + 1 - idx) := by
  obtain ⟨h1, h2⟩ := h
  unfold SizeOk at hL
  unfold getIndex Gen.getIndexExpr
  simp only [IExpr.eval, envGet, binop_add_ok]
  rw [IntTy.fit_ok (by simp; omega) (by simp; omega)]
  simp only [binop_sub_ok]
  rw [IntTy.fit_ok (by simp; omega) (by simp; omega)]
  simp only [Outcome.map_ok]
  congr 1
  omega

/-- the shape every extracted range guard is expected to have -/
theorem guard_shape_spec (m : OvfMode) (L idx : ℕ) :
    guard (.or (.eq (.var 1) (.lit 0)) (.gt (.var 1) (.var 0))) m L idx
      = .ok (decide (idx = 0 ∨ L < idx)) := by
  unfold guard
  simp only [BExpr.eval, IExpr.eval, envGet, cmpOp_ok]
  by_cases h0 : idx = 0
  · subst h0; simp [orOp_true]
  · have : ((idx : Int) == 0) = false := by simp; omega
    simp only [this, orOp_false]
    congr 1
    simp [h0]

theorem updateAccGuard_spec (m : OvfMode) (L idx : ℕ) :
    guard Gen.updateAccGuard m L idx = .ok (decide (idx = 0 ∨ L < idx)) :=
  guard_shape_spec m L idx
theorem issueGuard_spec (m : OvfMode) (L idx : ℕ) :
    guard Gen.issueGuard m L idx = .ok (decide (idx = 0 ∨ L < idx)) :=
  guard_shape_spec m L idx
theorem witnessNewGuard_spec (m : OvfMode) (L idx : ℕ) :
    guard Gen.witnessNewGuard m L idx = .ok (decide (idx = 0 ∨ L < idx)) :=
  guard_shape_spec m L idx
theorem witnessNewLoopGuard_spec (m : OvfMode) (L idx : ℕ) :
    guard Gen.witnessNewLoopGuard m L idx = .ok (decide (idx = 0 ∨ L < idx)) :=
  guard_shape_spec m L idx
theorem witnessUpdateGuard_spec (m : OvfMode) (L idx : ℕ) :
    guard Gen.witnessUpdateGuard m L idx = .ok (decide (idx = 0 ∨ L < idx)) :=
  guard_shape_spec m L idx
theorem witnessUpdateLoopGuard_spec (m : OvfMode) (L idx : ℕ) :
    guard Gen.witnessUpdateLoopGuard m L idx = .ok (decide (idx = 0 ∨ L < idx)) :=
  guard_shape_spec m L idx

theorem inRange_guard_false {L idx : ℕ} (h : InRange L idx) :
    decide (idx = 0 ∨ L < idx) = false := by
  unfold InRange at h; simp; omega

theorem outOfRange_guard_true {L idx : ℕ} (h : ¬ InRange L idx) :
    decide (idx = 0 ∨ L < idx) = true := by
  unfold InRange at h; simp; omega

/-! ## accumulator updates -/

/-- set semantics of one operation -/
def validStep (V : Finset ℕ) : Op → Finset ℕ
  | .issue i => insert i V
  | .revoke i => V.erase i
  | .unrevoke i => insert i V
  | .update iss rev => (V ∪ iss.toFinset) \ rev.toFinset

/-- protocol-respecting operation w.r.t. the current valid set `V`.
    By-default issuance hands out an index that is (still) valid; on-demand issuance an
    index that is not in the accumulator. -/
def WfOp (L : ℕ) (byDefault : Bool) (V : Finset ℕ) : Op → Prop
  | .issue i => InRange L i ∧ (if byDefault then i ∈ V else i ∉ V)
  | .revoke i => InRange L i ∧ i ∈ V
  | .unrevoke i => InRange L i ∧ i ∉ V
  | .update iss rev => iss.Nodup ∧ rev.Nodup ∧ (∀ i ∈ iss, InRange L i ∧ i ∉ V ∧ i ∉ rev) ∧
      (∀ i ∈ rev, InRange L i ∧ i ∈ V)

def WfHist (L : ℕ) (byDefault : Bool) : Finset ℕ → List Op → Prop
  | _, [] => True
  | V, op :: ops => WfOp L byDefault V op ∧ WfHist L byDefault (validStep V op) ops

def validAfter (V : Finset ℕ) : List Op → Finset ℕ
  | [] => V
  | op :: ops => validAfter (validStep V op) ops

/-- the defining sum: tail `L+1-j` for every valid index `j` -/
def accOf (γ : F) (L : ℕ) (V : Finset ℕ) : F := ∑ j ∈ V, γ ^ (L + 1 - j)

theorem updatePow_mixed (γ : F) (m : OvfMode) (L : ℕ) (hL : SizeOk L) (a r : List ℕ)
    (ha : ∀ i ∈ a, InRange L i) (hr : ∀ i ∈ r, InRange L i) : ∀ acc : F,
    updatePow ringOps γ m L (a.map (·, false) ++ r.map (·, true)) acc =
      .ok (acc + (a.map fun i => γ ^ (L+1-i)).sum - (r.map fun i => γ ^ (L+1-i)).sum) := by
  induction a with
  | nil =>
    simp only [List.map_nil, List.nil_append, List.sum_nil, add_zero]
    induction r with
    | nil => intro acc; simp [updatePow]
    | cons i l ih =>
      intro acc
      have hi := hr i (by simp)
      simp only [List.map_cons, updatePow, updateAccGuard_spec, inRange_guard_false hi,
        getIndex_spec m L i hi hL, List.sum_cons, Outcome.guardThen_ok, Outcome.bind_ok,
        Bool.false_eq_true, if_false, if_true]
      rw [ih (fun j hj => hr j (by simp [hj]))]
      simp only [ringOps_sub, indexPow_eq]
      congr 1; ring
  | cons i l ih =>
    intro acc
    have hi := ha i (by simp)
    simp only [List.map_cons, List.cons_append, updatePow, updateAccGuard_spec,
      inRange_guard_false hi, getIndex_spec m L i hi hL, List.sum_cons, Outcome.guardThen_ok,
      Outcome.bind_ok, Bool.false_eq_true, if_false]
    rw [ih (fun j hj => ha j (by simp [hj]))]
    simp only [ringOps_add, indexPow_eq]
    congr 1; ring

/-- an out-of-range index anywhere in the update list makes the whole update fail -/
theorem updatePow_out_of_range (γ : F) (m : OvfMode) (L : ℕ) (hL : SizeOk L) :
    ∀ (l : List (ℕ × Bool)) (acc : F), (∃ p ∈ l, ¬ InRange L p.1) →
      updatePow ringOps γ m L l acc = .err := by
  intro l
  induction l with
  | nil => intro acc h; simp at h
  | cons p l ih =>
    intro acc h
    obtain ⟨idx, remove⟩ := p
    by_cases hp : InRange L idx
    · have hrest : ∃ q ∈ l, ¬ InRange L q.1 := by
        obtain ⟨q, hq, hn⟩ := h
        simp only [List.mem_cons] at hq
        rcases hq with rfl | hq
        · exact absurd hp hn
        · exact ⟨q, hq, hn⟩
      simp only [updatePow, updateAccGuard_spec, inRange_guard_false hp,
        getIndex_spec m L idx hp hL, Outcome.guardThen_ok, Outcome.bind_ok, Bool.false_eq_true,
        if_false]
      exact ih _ hrest
    · simp only [updatePow, updateAccGuard_spec, outOfRange_guard_true hp, Outcome.guardThen_ok,
        if_true]

theorem step_invariant (γ : F) (m : OvfMode) (L : ℕ) (hL : SizeOk L) (byDefault : Bool)
    (V : Finset ℕ) (op : Op) (hwf : WfOp L byDefault V op) :
    (step ringOps γ m L byDefault (accOf γ L V) op).map (·.acc)
      = .ok (accOf γ L (validStep V op)) := by
  cases op with
  | issue i =>
    obtain ⟨hr, hv⟩ := hwf
    cases byDefault with
    | true =>
      simp only [if_true] at hv
      simp [step, issue, issueGuard_spec, inRange_guard_false hr, getIndex_spec m L i hr hL,
        validStep, Finset.insert_eq_of_mem hv]
    | false =>
      simp only [Bool.false_eq_true, if_false] at hv
      simp [step, issue, issueGuard_spec, inRange_guard_false hr, getIndex_spec m L i hr hL,
        validStep, accOf, sum_insert hv, add_comm]
  | revoke i =>
    obtain ⟨hr, hv⟩ := hwf
    have hs := Finset.sum_erase_add V (fun j => γ ^ (L+1-j)) hv
    have h := updatePow_mixed γ m L hL [] [i] (by simp) (by simpa using hr) (0 : F)
    simp only [List.map_nil, List.nil_append, List.map_cons, List.sum_nil, add_zero,
      List.sum_cons] at h
    simp only [step, revoke, ringOps_zero, h, Outcome.map_ok, validStep, accOf, ringOps_add]
    congr 1
    rw [← hs]; ring
  | unrevoke i =>
    obtain ⟨hr, hv⟩ := hwf
    have h := updatePow_mixed γ m L hL [i] [] (by simpa using hr) (by simp) (0 : F)
    simp only [List.map_nil, List.append_nil, List.map_cons, List.sum_nil, add_zero,
      List.sum_cons, sub_zero] at h
    simp only [step, unrevoke, ringOps_zero, h, Outcome.map_ok, validStep, accOf, ringOps_add,
      sum_insert hv]
    congr 1
    ring
  | update iss rev =>
    obtain ⟨hin, hrn, hi, hr⟩ := hwf
    have h := updatePow_mixed γ m L hL iss rev (fun i h => (hi i h).1) (fun i h => (hr i h).1) (0 : F)
    simp only [step, update, ringOps_zero, h, Outcome.map_ok, ringOps_add]
    have hdisj : Disjoint V iss.toFinset := by
      rw [Finset.disjoint_right]; intro a ha; exact (hi a (by simpa using ha)).2.1
    have hsub : rev.toFinset ⊆ V ∪ iss.toFinset := by
      intro a ha; exact Finset.mem_union_left _ ((hr a (by simpa using ha)).2)
    have h1 : (iss.map fun i => γ ^ (L+1-i)).sum = ∑ j ∈ iss.toFinset, γ ^ (L+1-j) := by
      rw [List.sum_toFinset _ hin]
    have h2 : (rev.map fun i => γ ^ (L+1-i)).sum = ∑ j ∈ rev.toFinset, γ ^ (L+1-j) := by
      rw [List.sum_toFinset _ hrn]
    have h3 := Finset.sum_sdiff (f := fun j => γ ^ (L+1-j)) hsub
    have h4 := Finset.sum_union (f := fun j => γ ^ (L+1-j)) hdisj
    simp only [validStep, accOf]
    congr 1
    rw [h1, h2, zero_add, ← add_sub_assoc, ← h4, ← h3]; ring

end CL.Reg
