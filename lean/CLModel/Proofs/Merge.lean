import CLModel.Proofs.Registry
/-! Set-level lemmas for `RevocationRegistryDelta::merge` (lists as sets). -/
namespace CL.Reg

theorem setMem_iff (x : ℕ) (l : List ℕ) : setMem x l = true ↔ x ∈ l := by
  simp [setMem]

theorem mem_setUnionDiff (x : ℕ) (a b c : List ℕ) :
    x ∈ setUnionDiff a b c ↔ x ∈ a ∨ (x ∈ b ∧ x ∉ c) := by
  simp only [setUnionDiff, List.mem_append, List.mem_filter, Bool.and_eq_true, Bool.not_eq_true',
    setMem, List.contains_eq_mem, decide_eq_false_iff_not]
  constructor
  · rintro (h | ⟨hb, hc, _⟩)
    · exact Or.inl h
    · exact Or.inr ⟨hb, hc⟩
  · rintro (h | ⟨hb, hc⟩)
    · exact Or.inl h
    · by_cases ha : x ∈ a
      · exact Or.inl ha
      · exact Or.inr ⟨hb, hc, ha⟩

theorem mem_setRemoveAll (x : ℕ) (a b : List ℕ) :
    x ∈ setRemoveAll a b ↔ x ∈ a ∧ x ∉ b := by
  simp [setRemoveAll, setMem]

end CL.Reg
