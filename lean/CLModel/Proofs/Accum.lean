import CLModel.Proofs.Registry
import Mathlib.Algebra.BigOperators.Intervals
import Mathlib.Order.Interval.Finset.Nat
import Mathlib.Order.Interval.Finset.SuccPred
/-! The two incremental tail-sum loops of `Tail` equal their defining sums. -/
namespace CL.Reg
open Finset

variable {F : Type} [CommRing F]

theorem accumRangeLoop_spec (γ : F) : ∀ (n : ℕ) (pow acc : F),
    accumRangeLoop ringOps γ n pow acc = acc + ∑ k ∈ range n, pow * γ ^ (k + 1) := by
  intro n
  induction n with
  | zero => intro pow acc; simp [accumRangeLoop]
  | succ n ih =>
    intro pow acc
    simp only [accumRangeLoop, ringOps_mul, ringOps_add, ih]
    rw [Finset.sum_range_succ' (fun k => pow * γ ^ (k + 1)) n]
    have : ∀ k, pow * γ * γ ^ (k + 1) = pow * γ ^ (k + 1 + 1) := by intro k; ring
    simp only [this]
    ring

/-- `Tail::accum_range` over an ordered range `s ≤ e`: `Σ_{k=s}^{e} γ^k` -/
theorem accumRange_spec_le (γ : F) (s e : ℕ) (h : s ≤ e) :
    accumRange ringOps γ s e = ∑ k ∈ Icc s e, γ ^ k := by
  have hn : ¬ s > e := by omega
  simp only [accumRange, hn, if_false, indexPow_eq, accumRangeLoop_spec]
  have : ∑ k ∈ Icc s e, γ ^ k = ∑ k ∈ range (e - s + 1), γ ^ (s + k) := by
    rw [← Finset.Ico_add_one_right_eq_Icc, Finset.sum_Ico_eq_sum_range]
    have h2 : e + 1 - s = e - s + 1 := by omega
    rw [h2]
  rw [this, Finset.sum_range_succ' (fun k => γ ^ (s + k)) (e - s)]
  simp only [add_zero]
  have : ∀ k, γ ^ s * γ ^ (k + 1) = γ ^ (s + (k + 1)) := by intro k; ring
  simp only [this]
  ring

/-- a reversed range is swapped -/
theorem accumRange_swap (γ : F) (a b : ℕ) : accumRange ringOps γ a b = accumRange ringOps γ b a := by
  by_cases h : a > b
  · have h' : ¬ b > a := by omega
    simp [accumRange, h, h']
  · by_cases h2 : b > a
    · simp [accumRange, h, h2]
    · have : a = b := by omega
      subst this; rfl

/-- loop invariant of `Tail::accum_indexes`: with `base = γ^pow`, `1 ≤ pow`, over a strictly
    ascending list whose non-zero entries are `≥ pow` the loop adds `γ^idx` for every
    non-zero `idx`. -/
theorem accumIndexesLoop_spec (γ : F) : ∀ (l : List ℕ) (acc : F) (pow : ℕ),
    l.Pairwise (· < ·) → (∀ x ∈ l, x ≠ 0 → pow ≤ x) →
    accumIndexesLoop ringOps γ l acc (γ ^ pow) pow
      = acc + ((l.filter (· ≠ 0)).map fun j => γ ^ j).sum := by
  intro l
  induction l with
  | nil => intro acc pow _ _; simp [accumIndexesLoop]
  | cons idx rest ih =>
    intro acc pow hs hge
    have hs' : rest.Pairwise (· < ·) := (List.pairwise_cons.mp hs).2
    have hlt : ∀ x ∈ rest, idx < x := (List.pairwise_cons.mp hs).1
    by_cases h0 : idx = 0
    · subst h0
      simp only [accumIndexesLoop, beq_self_eq_true, if_true]
      rw [ih acc pow hs' (fun x hx hx0 => hge x (List.mem_cons_of_mem _ hx) hx0)]
      simp
    · have hpow : pow ≤ idx := hge idx (by simp) h0
      have hb0 : (idx == 0) = false := by simpa using h0
      by_cases hp : idx = pow
      · subst hp
        have hb1 : (idx != idx) = false := by simp
        simp only [accumIndexesLoop, hb0, hb1, Bool.false_eq_true, if_false, ringOps_add]
        rw [ih _ idx hs' (fun x hx _ => le_of_lt (hlt x hx))]
        simp [h0]; ring
      · have hb1 : (idx != pow) = true := by simpa using hp
        have hbase : (if (idx - pow == 1) = true then ringOps.mul (γ ^ pow) γ
            else ringOps.mul (γ ^ pow) (indexPow ringOps γ (idx - pow))) = γ ^ idx := by
          have e : idx = pow + (idx - pow) := by omega
          split
          · next h1 =>
            have h1' : idx - pow = 1 := by simpa using h1
            simp only [ringOps_mul]
            conv_rhs => rw [e, h1']
            ring
          · simp only [ringOps_mul, indexPow_eq]
            conv_rhs => rw [e]
            ring
        simp only [accumIndexesLoop, hb0, hb1, Bool.false_eq_true, if_false, if_true, hbase,
          ringOps_add]
        rw [ih _ idx hs' (fun x hx _ => le_of_lt (hlt x hx))]
        simp [h0]; ring

/-- `Tail::accum_indexes` over a strictly ascending list of positive indices -/
theorem accumIndexes_spec (γ : F) (l : List ℕ) (hs : l.Pairwise (· < ·)) (hpos : ∀ x ∈ l, 1 ≤ x) :
    accumIndexes ringOps γ l = ∑ j ∈ l.toFinset, γ ^ j := by
  have h := accumIndexesLoop_spec γ l 0 1 hs (fun x hx _ => hpos x hx)
  simp only [pow_one, zero_add] at h
  simp only [accumIndexes, ringOps_zero, h]
  have hf : l.filter (· ≠ 0) = l := by
    apply List.filter_eq_self.mpr
    intro x hx
    have := hpos x hx
    simp; omega
  rw [hf]
  have hnd : l.Nodup := hs.imp (fun h => Nat.ne_of_lt h)
  rw [List.sum_toFinset _ hnd]

end CL.Reg
