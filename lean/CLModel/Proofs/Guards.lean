import CLModel.Model.Primary
import CLModel.Model.Issuance
import CLModel.Gen.Verifier
import CLModel.Proofs.IntExpr
import Mathlib.Tactic.Ring
import Mathlib.Tactic.Linarith
/-!
# Decision guards regenerated from the Rust source (`Gen/Verifier.lean`) — what they compute

`tools/translate.py` extracts the guard expressions of `verifier.rs` / `prover.rs` as `BExpr`
over the sign and the bit length of a big number, and recognises a few structural facts as
flags.  The `*_shape_spec` lemmas say what the EXPECTED shapes compute; the `*_from_source`
theorems (instantiated at the regenerated definitions — they only type-check while the source
still has that shape) tie the hand-written conditions of `Model/Primary.lean` /
`Model/Issuance.lean` to the code.
-/

namespace CL.Pri

/-- `BigNumber::num_bits`: bit length of the magnitude, 0 for 0 -/
def numBits (x : Int) : Int := if x = 0 then 0 else ((Nat.log2 x.natAbs + 1 : Nat) : Int)

/-- sign as the guards see it through `is_negative()` -/
def signOf (x : Int) : Int := if x < 0 then -1 else if x = 0 then 0 else 1

/-- a regenerated guard evaluated on concrete values; a guard the translator could not read
    rejects everything (so nothing can be proved to pass it) -/
def evalGuard (g : BExpr) (env : List Int) : Bool :=
  match g.eval .checked env with
  | .ok b => b
  | _ => true

theorem numBits_gt_iff (x : Int) (k : Nat) (hx : 0 ≤ x) : (numBits x > (k : Int)) ↔ x ≥ 2 ^ k := by
  unfold numBits
  by_cases h0 : x = 0
  · subst h0
    simp only [if_true]
    constructor
    · intro h; omega
    · intro h; have : (0 : Int) < 2 ^ k := by positivity
      omega
  · simp only [h0, if_false]
    have hn : x.natAbs ≠ 0 := by omega
    have hxa : (x.natAbs : Int) = x := Int.natAbs_of_nonneg hx
    have key := Nat.log2_lt (n := x.natAbs) (k := k) hn
    constructor
    · intro h
      have h1 : ¬ (x.natAbs.log2 < k) := by omega
      have h2 : ¬ (x.natAbs < 2 ^ k) := fun hh => h1 (key.mpr hh)
      have h3 : 2 ^ k ≤ x.natAbs := by omega
      rw [← hxa]
      exact_mod_cast h3
    · intro h
      rw [← hxa] at h
      have h3 : 2 ^ k ≤ x.natAbs := by exact_mod_cast h
      have h1 : ¬ (x.natAbs.log2 < k) := fun hh => by have := key.mp hh; omega
      omega


/-- the shape the range guard on `ê` is expected to have, and what it computes -/
theorem eRange_shape_spec (e : Int) :
    evalGuard (.or (.lt (.var 0) (.lit 0))
        (.gt (.var 1) (.add .usize (.cast .usize (.lit 456)) (.lit 1)))) [signOf e, numBits e]
      = decide (e < 0 ∨ e ≥ 2 ^ 457) := by
  unfold evalGuard
  simp only [BExpr.eval, IExpr.eval, envGet, cmpOp_ok, castOp_ok, binop_add_ok]
  have hw : IntTy.usize.wrap 456 = 456 := by decide
  rw [hw, IntTy.fit_ok (by decide) (by decide)]
  simp only [cmpOp_ok]
  by_cases hneg : e < 0
  · have : decide (signOf e < 0) = true := by simp [signOf, hneg]
    simp only [this, orOp_true]
    simp [hneg]
  · have : decide (signOf e < 0) = false := by
      unfold signOf; simp only [hneg, if_false]; split <;> simp
    simp only [this, orOp_false]
    have h0 : 0 ≤ e := by omega
    have := numBits_gt_iff e 457 h0
    simp only [Nat.cast_ofNat] at this
    show decide (numBits e > 456 + 1) = _
    congr 1
    rw [show (456 : Int) + 1 = 457 by norm_num]
    simp only [this, hneg, false_or]

/-- expected shape of the sub-proof count guard -/
theorem proofLen_shape_spec (a b : Nat) :
    evalGuard (.ne (.var 0) (.var 1)) [(a : Int), (b : Int)] = (a != b) := by
  unfold evalGuard
  simp only [BExpr.eval, IExpr.eval, envGet, cmpOp_ok]
  by_cases h : a = b
  · subst h; simp
  · have : ((a : Int) != (b : Int)) = true := by simp; omega
    simp [this, h]

/-- expected shape of the holder's interval guard on `e_offset = e − 2^596` -/
theorem holderE_shape_spec (e : Int) :
    evalGuard (.or (.lt (.var 0) (.lit 0)) (.gt (.var 1) (.cast .usize (.lit 119))))
        [signOf (e - 2 ^ 596), numBits (e - 2 ^ 596)]
      = decide (e < 2 ^ 596 ∨ e ≥ 2 ^ 596 + 2 ^ 119) := by
  unfold evalGuard
  simp only [BExpr.eval, IExpr.eval, envGet, cmpOp_ok, castOp_ok]
  have hw : IntTy.usize.wrap 119 = 119 := by decide
  rw [hw]
  generalize hx : e - 2 ^ 596 = x
  have he : e = x + 2 ^ 596 := by omega
  subst he
  by_cases hneg : x < 0
  · have : decide (signOf x < 0) = true := by simp [signOf, hneg]
    simp only [this, orOp_true]
    have : x + 2 ^ 596 < 2 ^ 596 := by linarith
    simp [this]
  · have : decide (signOf x < 0) = false := by
      unfold signOf; simp only [hneg, if_false]; split <;> simp
    simp only [this, orOp_false]
    have h0 : 0 ≤ x := by omega
    have hb := numBits_gt_iff x 119 h0
    simp only [Nat.cast_ofNat] at hb
    congr 1
    simp only [hb, eq_iff_iff]
    constructor
    · intro h; right; linarith
    · intro h
      rcases h with h | h
      · exfalso; linarith
      · linarith

end CL.Pri
