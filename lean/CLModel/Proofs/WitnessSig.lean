import CLModel.Model.NonRevoc
import CLModel.Proofs.Registry
import Mathlib.Tactic.LinearCombination
import Mathlib.Tactic.FieldSimp
import Mathlib.Algebra.Field.Basic
/-!
# The holder's check of a revocation signature (`Prover::_test_witness_signature`)

Exponent form over any field `F` (the groups have prime order `r`, so `F = ℤ/r`): each field of
the signature is determined by the others, and what the issuer computes passes.
-/
namespace CL.NR
open CL CL.Reg

variable {F : Type}
variable [Field F] [DecidableEq F]

theorem test_iff (k : RevKey F) (acc z wgI : F) (cr : Cred F) :
    testWitnessSignature ringOps k acc z wgI cr = true ↔
      (wgI * acc - k.g * cr.omega = z ∧ (k.pk + cr.gI) * cr.sigmaI - k.g * k.gDash = 0 ∧
       cr.gI * k.u - k.g * cr.uI = 0 ∧
       cr.sigma * (k.y + k.hCap * cr.c) - (k.h0 + k.h1 * cr.m2 + k.h2 * cr.vr2 + cr.gI) * k.hCap = 0) := by
  simp only [testWitnessSignature, witnessSigEqs, List.all_cons, List.all_nil, Bool.and_true,
    Bool.and_eq_true, decide_eq_true_eq, neg, ringOps_add, ringOps_mul, ringOps_sub, ringOps_zero]
  constructor
  · rintro ⟨h1, h2, h3, h4⟩
    refine ⟨?_, ?_, ?_, ?_⟩
    · linear_combination h1
    · linear_combination h2
    · linear_combination h3
    · linear_combination h4
  · rintro ⟨h1, h2, h3, h4⟩
    refine ⟨?_, ?_, ?_, ?_⟩
    · linear_combination h1
    · linear_combination h2
    · linear_combination h3
    · linear_combination h4


/-- **each field is determined by the others**: an accepted revocation signature in which one
    value is replaced by a different one is refused.  The side conditions say that the key's
    generators, the accumulator and the two denominators are not the neutral element (exponent
    `0`), which holds for every key `new_credential_def` outputs except with probability `≈ 2⁻²⁵⁴`. -/
theorem single_alteration_rejected (k : RevKey F) (acc z wgI : F) (cr : Cred F)
    (hg : k.g ≠ 0) (hu : k.u ≠ 0) (hh : k.hCap ≠ 0) (hh1 : k.h1 ≠ 0) (hh2 : k.h2 ≠ 0)
    (hacc : acc ≠ 0) (hpk : k.pk + cr.gI ≠ 0) (hy : k.y + k.hCap * cr.c ≠ 0) (hs : cr.sigma ≠ 0)
    (h : testWitnessSignature ringOps k acc z wgI cr = true) :
    (∀ x, x ≠ wgI → testWitnessSignature ringOps k acc z x cr = false) ∧
    (∀ x, x ≠ cr.gI → testWitnessSignature ringOps k acc z wgI { cr with gI := x } = false) ∧
    (∀ x, x ≠ cr.sigmaI → testWitnessSignature ringOps k acc z wgI { cr with sigmaI := x } = false) ∧
    (∀ x, x ≠ cr.uI → testWitnessSignature ringOps k acc z wgI { cr with uI := x } = false) ∧
    (∀ x, x ≠ cr.sigma → testWitnessSignature ringOps k acc z wgI { cr with sigma := x } = false) ∧
    (∀ x, x ≠ cr.c → testWitnessSignature ringOps k acc z wgI { cr with c := x } = false) ∧
    (∀ x, x ≠ cr.m2 → testWitnessSignature ringOps k acc z wgI { cr with m2 := x } = false) ∧
    (∀ x, x ≠ cr.vr2 → testWitnessSignature ringOps k acc z wgI { cr with vr2 := x } = false) ∧
    (∀ x, x ≠ cr.omega → testWitnessSignature ringOps k acc z wgI { cr with omega := x } = false) := by
  obtain ⟨e1, e2, e3, e4⟩ := (test_iff k acc z wgI cr).1 h
  refine ⟨?_, ?_, ?_, ?_, ?_, ?_, ?_, ?_, ?_⟩ <;> intro x hx <;> rw [Bool.eq_false_iff] <;> intro h' <;>
    obtain ⟨f1, f2, f3, f4⟩ := (test_iff _ _ _ _ _).1 h' <;> apply hx
  · exact mul_right_cancel₀ hacc (by linear_combination f1 - e1)
  · exact mul_right_cancel₀ hu (by linear_combination f3 - e3)
  · exact mul_left_cancel₀ hpk (by linear_combination f2 - e2)
  · exact mul_left_cancel₀ hg (by linear_combination e3 - f3)
  · exact mul_right_cancel₀ hy (by linear_combination f4 - e4)
  · exact mul_left_cancel₀ (mul_ne_zero hs hh) (by linear_combination f4 - e4)
  · exact mul_left_cancel₀ (mul_ne_zero hh1 hh) (by linear_combination e4 - f4)
  · exact mul_left_cancel₀ (mul_ne_zero hh2 hh) (by linear_combination e4 - f4)
  · exact mul_left_cancel₀ hg (by linear_combination e1 - f1)

/-- non-vacuity / completeness: the credential `Issuer::_new_non_revocation_credential` makes
    (exponent form `issueCred`) passes the holder's check whenever the witness fits the
    accumulator (first equation; that is C08's theorem) -/
theorem issued_cred_passes (k : RevKey F) (x sk γ : F) (i : ℕ) (m2 vr' vr2 c omega acc z : F)
    (hpk : k.pk = k.g * sk) (hy : k.y = k.hCap * x) (hsk : sk + γ ^ i ≠ 0) (hx : x + c ≠ 0)
    (hw : k.g * γ ^ i * acc - k.g * omega = z) :
    testWitnessSignature ringOps k acc z (k.g * γ ^ i)
      (issueCred ringOps (·⁻¹) k x sk γ i m2 vr' vr2 c omega) = true := by
  rw [test_iff]
  simp only [issueCred, ringOps_add, ringOps_mul, ringOps_pow]
  refine ⟨hw, ?_, ?_, ?_⟩
  · rw [hpk]; field_simp; ring
  · ring
  · rw [hy]; field_simp; ring

end CL.NR
