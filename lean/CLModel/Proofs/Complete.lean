import CLModel.Proofs.NeComplete
import CLModel.Proofs.FourSq
import CLModel.Model.Prover
import Driver.ProveOps
/-!
# Completeness of a whole one-credential presentation — helper lemmas

Composition of the equality part (`eq_complete`, Props/C01) and the predicate parts
(`ne_complete`) through the request-consistency checks, the common-attribute pass and the
Fiat–Shamir hash.
-/
namespace CL.Pri

deriving instance ReflBEq for Gen.PType
deriving instance ReflBEq for Pred

variable {G : Type} [AddCommGroup G] [DecidableEq G] (enc : G → ByteArray)

theorem sameSet_self (l : List String) : sameSet l l = true := by
  simp [sameSet, List.all_eq_true]

theorem contains_of_mem_pred : ∀ (l : List Pred) (x : Pred), x ∈ l → l.contains x = true := by
  intro l
  induction l with
  | nil => intro x hx; simp at hx
  | cons a l ih =>
    intro x hx
    simp only [List.contains_cons, Bool.or_eq_true]
    simp only [List.mem_cons] at hx
    rcases hx with rfl | hx
    · left; exact ReflBEq.rfl
    · right; exact ih x hx

theorem predSameSet_self (l : List Pred) : predSameSet l l = true := by
  unfold predSameSet
  simp only [Bool.and_self, List.all_eq_true]
  intro x hx
  exact contains_of_mem_pred l x hx

theorem allBytes_bytes (l : List ByteArray) (rest : List Item) :
    allBytes (l.map Item.bytes ++ rest) = (allBytes rest).map (l ++ ·) := by
  induction l with
  | nil => cases h : allBytes rest <;> simp [h]
  | cons b l ih =>
    simp only [List.map_cons, List.cons_append, allBytes, ih]
    cases allBytes rest <;> rfl

theorem iterKeys_eq' : iterKeys = ["0", "1", "2", "3"] := by decide

/-- the predicate sub-protocol with the model of the library's own `four_squares` -/
theorem ne_complete_fs (m : OvfMode) (pk : PubKey G) (p : Pred)
    (mTilde : List (String × ℤ)) (vals : Values) (tp : NeTape) (eq : EqProof G) (c av mt : ℤ)
    (rf utf rtf : String → ℤ)
    (hval : lookup p.attr vals = some av) (hav : C03.I32 av) (hpv : C03.I32 p.value)
    (hholds : p.holds av = true)
    (hmt : lookup p.attr mTilde = some mt)
    (heqm : lookup p.attr eq.m = some (c * av + mt))
    (hr : Maps tp.r (iterKeys ++ ["DELTA"]) rf) (hut : Maps tp.uTilde iterKeys utf)
    (hrt : Maps tp.rTilde (iterKeys ++ ["DELTA"]) rtf)
    (hnn : 0 ≤ rtf "DELTA" ∧ 0 ≤ c * rf "DELTA" + rtf "DELTA") :
    ∃ init prf, initNeProof (addOps enc) m Drv.fourSq pk mTilde vals p tp = .ok init ∧
      finalizeNeProof c init eq = .ok prf ∧
      verifyNePredicate (addOps enc) m pk prf c = .ok init.tauList ∧
      prf.mj = c * av + mt ∧ prf.pred = p := by
  obtain ⟨δ, hδ, hnonneg, _⟩ := C03.delta_nonneg_iff m p av hav hpv
  have h0 : 0 ≤ δ := hnonneg.mpr hholds
  have hfour := FourSq.fourSquaresU_eq (um := .ideal) δ h0 trivial
  have hsum := FourSq.pI_sum δ.toNat
  generalize FourSq.pI δ.toNat (Nat.sqrt δ.toNat) (Nat.sqrt δ.toNat) 0 0 0 = st at hfour hsum
  obtain ⟨brk, a, b, c', e⟩ := st
  simp only at hfour hsum
  let uf : String → ℤ := fun k =>
    if k = "0" then (a : ℤ) else if k = "1" then (b : ℤ) else if k = "2" then (c' : ℤ) else (e : ℤ)
  have hfs : ∀ d, getDelta m p av = .ok d →
      Drv.fourSq d = .ok (iterKeys.map uf) ∧ (iterKeys.map fun k => uf k ^ 2).sum = d := by
    intro d hd
    rw [hδ] at hd; cases hd
    constructor
    · show (match FourSq.fourSquares δ with
          | .ok (a, b, c, e) => Outcome.ok [(a : ℤ), (b : ℤ), (c : ℤ), (e : ℤ)]
          | .err => .err
          | .panic => .panic) = _
      have : FourSq.fourSquares δ = .ok (a, b, c', e) := hfour
      rw [this, iterKeys_eq']
      simp [uf]
    · rw [iterKeys_eq']
      have hz : ((a * a + b * b + c' * c' + e * e : ℕ) : ℤ) = δ := by
        rw [hsum]; exact Int.toNat_of_nonneg h0
      simp [uf]
      push_cast at hz
      nlinarith [hz]
  exact ne_complete enc m Drv.fourSq pk p mTilde vals tp eq c av mt uf rf utf rtf hval hav hpv
    hholds hfs hmt heqm hr hut hrt hnn

/-- what makes one (predicate, tape) pair of an honest prover well-formed: the attribute is
hidden, its value and the threshold are i32, the predicate is true, the tape has every
randomiser, the two `DELTA` randomisers are non-negative -/
def PredOk (un : List String) (val : String → ℤ) (pt : Pred × NeTape) : Prop :=
  pt.1.attr ∈ un ∧ C03.I32 (val pt.1.attr) ∧ C03.I32 pt.1.value ∧ pt.1.holds (val pt.1.attr) = true ∧
  ∃ rf utf rtf : String → ℤ, Maps pt.2.r (iterKeys ++ ["DELTA"]) rf ∧ Maps pt.2.uTilde iterKeys utf ∧
    Maps pt.2.rTilde (iterKeys ++ ["DELTA"]) rtf ∧ 0 ≤ rf "DELTA" ∧ 0 ≤ rtf "DELTA"

/-- all predicates of a request: first messages, responses, and the verifier's pass -/
theorem preds_complete (m : OvfMode) (pk : PubKey G) (mTilde : List (String × ℤ)) (vals : Values)
    (eq : EqProof G) (c : ℤ) (hc : 0 ≤ c) (un : List String) (val mtf : String → ℤ)
    (hv : Maps vals un val) (hmt : Maps mTilde un mtf)
    (heqm : Maps eq.m un (fun k => c * val k + mtf k)) :
    ∀ (pts : List (Pred × NeTape)), (∀ pt ∈ pts, PredOk un val pt) →
      ∃ nis nes, initPreds (addOps enc) m Drv.fourSq pk mTilde vals pts = .ok nis ∧
        finalizePreds c eq nis = .ok nes ∧
        verifyNeAll (addOps enc) m pk c eq.m nes = .ok (nis.flatMap (·.tauList)) ∧
        nes.map (·.pred) = pts.map (·.1) := by
  intro pts
  induction pts with
  | nil => intro _; exact ⟨[], [], rfl, rfl, rfl, rfl⟩
  | cons pt pts ih =>
    intro h
    obtain ⟨p, t⟩ := pt
    obtain ⟨hin, hav, hpv, hholds, rf, utf, rtf, hr, hut, hrt, h0, h1⟩ := h (p, t) (by simp)
    simp only at hin hav hpv hholds hr hut hrt
    obtain ⟨nis, nes, i1, i2, i3, i4⟩ := ih fun x hx => h x (by simp [hx])
    have hnn : 0 ≤ rtf "DELTA" ∧ 0 ≤ c * rf "DELTA" + rtf "DELTA" :=
      ⟨h1, add_nonneg (mul_nonneg hc h0) h1⟩
    obtain ⟨ni, ne, n1, n2, n3, n4, n5⟩ := ne_complete_fs enc m pk p mTilde vals t eq c (val p.attr)
      (mtf p.attr) rf utf rtf (hv _ hin) hav hpv hholds (hmt _ hin) (heqm _ hin) hr hut hrt hnn
    refine ⟨ni :: nis, ne :: nes, ?_, ?_, ?_, ?_⟩
    · simp only [initPreds, n1, Outcome.bind_ok, i1, Outcome.map_ok]
    · simp only [finalizePreds, n2, Outcome.bind_ok, i2, Outcome.map_ok]
    · have hget : getOrErr ne.pred.attr eq.m = .ok (c * val p.attr + mtf p.attr) := by
        rw [n5]; simp [getOrErr, heqm _ hin]
      have hne : ((c * val p.attr + mtf p.attr) != ne.mj) = false := by rw [n4]; simp
      simp only [verifyNeAll, hget, Outcome.bind_ok, hne, Bool.false_eq_true, if_false, n3, i3,
        Outcome.map_ok, List.flatMap_cons]
    · simp [n5, i4]

/-- the common-attribute pass succeeds when every declared attribute has a response -/
theorem commonPass_succeeds (common : List String) (eq : EqProof G) :
    ∀ (as : List String) (seen : List (String × ℤ)),
      (∀ a ∈ as, (lookup a eq.m).isSome) → (∀ a v, lookup a seen = some v → lookup a eq.m = some v) →
      ∃ seen', commonPass common eq seen as = .ok seen' := by
  intro as
  induction as with
  | nil => intro seen _ _; exact ⟨seen, rfl⟩
  | cons a as ih =>
    intro seen h1 h2
    have ha := h1 a (by simp)
    cases hl : lookup a eq.m with
    | none => rw [hl] at ha; simp at ha
    | some mhat =>
      simp only [commonPass, hl]
      cases hs : lookup a seen with
      | some v =>
        have : v = mhat := by have := h2 a v hs; rw [hl] at this; cases this; rfl
        subst this
        simp only [beq_self_eq_true, if_true]
        exact ih seen (fun x hx => h1 x (by simp [hx])) h2
      | none =>
        simp only
        refine ih _ (fun x hx => h1 x (by simp [hx])) ?_
        intro x v hx
        simp only [lookup] at hx
        split at hx
        · rename_i heq
          have : x = a := by simpa using heq
          cases hx; subst this; exact hl
        · exact h2 x v hx



/-- the common-attribute pass with an invariant: every stored response is `F a` -/
theorem commonPass_inv (common : List String) (eq : EqProof G) (F : String → ℤ) :
    ∀ (as : List String) (seen : List (String × ℤ)),
      (∀ a ∈ as, lookup a eq.m = some (F a)) → (∀ a v, lookup a seen = some v → v = F a) →
      ∃ seen', commonPass common eq seen as = .ok seen' ∧
        (∀ a v, lookup a seen' = some v → v = F a) := by
  intro as
  induction as with
  | nil => intro seen _ h2; exact ⟨seen, rfl, h2⟩
  | cons a as ih =>
    intro seen h1 h2
    have hl := h1 a (by simp)
    simp only [commonPass, hl]
    cases hs : lookup a seen with
    | some v =>
      have : v = F a := h2 a v hs
      subst this
      simp only [beq_self_eq_true, if_true]
      exact ih seen (fun x hx => h1 x (by simp [hx])) h2
    | none =>
      simp only
      refine ih _ (fun x hx => h1 x (by simp [hx])) ?_
      intro x v hx
      simp only [lookup] at hx
      split at hx
      · rename_i heq
        have : x = a := by simpa using heq
        cases hx; subst this; rfl
      · exact h2 x v hx

/-- the seed of a declared common attribute -/
def seedOf (common : List (String × ℤ)) (a : String) : ℤ := (lookup a common).getD 0

theorem lookup_of_mem_keys {α : Type} : ∀ (l : List (String × α)) (a : String), a ∈ keys l →
    ∃ s, lookup a l = some s := by
  intro l
  induction l with
  | nil => intro a h; simp [keys] at h
  | cons kv l ih =>
    intro a h
    obtain ⟨k, v⟩ := kv
    simp only [lookup]
    by_cases hk : a = k
    · subst hk; exact ⟨v, by simp⟩
    · have : (a == k) = false := by simpa using hk
      simp only [this, Bool.false_eq_true, if_false]
      apply ih
      simp only [keys, List.map_cons, List.mem_cons] at h
      rcases h with h | h
      · exact absurd h hk
      · exact h

theorem mtOf_common (fresh : String → ℤ) (common : List (String × ℤ)) (a : String)
    (h : a ∈ keys common) : mtOf fresh common a = seedOf common a := by
  obtain ⟨s, hs⟩ := lookup_of_mem_keys common a h
  simp [mtOf, seedOf, hs]


end CL.Pri
