import CLModel.Proofs.OpsRelIssuance
import CLModel.Model.Prover
namespace CL.Pri
variable {G G' : Type} {R : G → G' → Prop} {o : GroupOps G} {o' : GroupOps G'}

/-! ## the whole one-challenge presentation: `proveSingle` and `verify` -/

theorem initPreds_rel (ho : OpsRel R o o') (m : OvfMode) (fourSq : Int → Outcome (List Int))
    {pk : PubKey G} {pk' : PubKey G'} (hpk : PKRel R pk pk') (mTilde : List (String × Int))
    (vals : Values) : ∀ pts : List (Pred × NeTape),
      ORel (List.Forall₂ (NeInitRel R)) (initPreds o m fourSq pk mTilde vals pts)
        (initPreds o' m fourSq pk' mTilde vals pts) := by
  intro pts
  induction pts with
  | nil => exact List.Forall₂.nil
  | cons x rest ih =>
    obtain ⟨p, t⟩ := x
    simp only [initPreds]
    refine ORel.bind (initNeProof_rel ho m fourSq hpk mTilde vals p t) fun ni ni' hni => ?_
    exact ORel.map ih fun l l' hl => List.Forall₂.cons hni hl

theorem finalizePreds_rel (c : Int) {eq : EqProof G} {eq' : EqProof G'} (hm : eq.m = eq'.m) :
    ∀ {nis : List (NeInit G)} {nis' : List (NeInit G')}, List.Forall₂ (NeInitRel R) nis nis' →
      ORel (List.Forall₂ (NeRel R)) (finalizePreds c eq nis) (finalizePreds c eq' nis') := by
  intro nis nis' h
  induction h with
  | nil => exact List.Forall₂.nil
  | cons hx _ ih =>
    simp only [finalizePreds]
    refine ORel.bind (finalizeNeProof_rel hx c hm) fun ne ne' hne => ?_
    exact ORel.map ih fun l l' hl => List.Forall₂.cons hne hl

theorem flatMap_rel {α β : Type} {P : α → β → Prop} {f : α → List G} {g : β → List G'}
    (hf : ∀ a b, P a b → List.Forall₂ R (f a) (g b)) :
    ∀ {l : List α} {l' : List β}, List.Forall₂ P l l' →
      List.Forall₂ R (l.flatMap f) (l'.flatMap g) := by
  intro l l' h
  induction h with
  | nil => exact List.Forall₂.nil
  | cons hx _ ih =>
    simp only [List.flatMap_cons]
    exact List.rel_append (hf _ _ hx) ih

theorem proverTaus_rel {i : EqInit G} {i' : EqInit G'} (hi : EqInitRel R i i')
    {nis : List (NeInit G)} {nis' : List (NeInit G')} (h : List.Forall₂ (NeInitRel R) nis nis') :
    List.Forall₂ R (proverTaus i nis) (proverTaus i' nis') :=
  List.Forall₂.cons hi.t (flatMap_rel (fun _ _ hx => hx.tauList) h)

theorem proverCList_rel {i : EqInit G} {i' : EqInit G'} (hi : EqInitRel R i i')
    {nis : List (NeInit G)} {nis' : List (NeInit G')} (h : List.Forall₂ (NeInitRel R) nis nis') :
    List.Forall₂ R (proverCList i nis) (proverCList i' nis') :=
  List.Forall₂.cons hi.aPrime (flatMap_rel (fun _ _ hx => hx.cList) h)

structure SubProofRel (R : G → G' → Prop) (s : SubProof G) (s' : SubProof G') : Prop where
  eq : EqRel R s.eq s'.eq
  ne : List.Forall₂ (NeRel R) s.ne s'.ne
  hasNonRevoc : s.hasNonRevoc = s'.hasNonRevoc
  nrTaus : s.nrTaus = s'.nrTaus

structure ProofRel (R : G → G' → Prop) (p : Proof G) (p' : Proof G') : Prop where
  proofs : List.Forall₂ (SubProofRel R) p.proofs p'.proofs
  cHash : p.cHash = p'.cHash
  cList : p.cList = p'.cList

/-- the model prover's presentation is the same document (up to the relation) in both groups -/
theorem proveSingle_rel (ho : OpsRel R o o') (H : List ByteArray → Int) (m : OvfMode)
    (fourSq : Int → Outcome (List Int)) (common : List (String × Int)) {pk : PubKey G}
    {pk' : PubKey G'} (hpk : PKRel R pk pk') {sig : Signature G} {sig' : Signature G'}
    (hs : SigRel R sig sig') (un rev : List String) (pts : List (Pred × NeTape)) (vals : Values)
    (m2Tilde : Int) (tp : EqTape) (nonce : ByteArray) :
    ORel (ProofRel R) (proveSingle o H m fourSq common pk sig un rev pts vals m2Tilde tp nonce)
      (proveSingle o' H m fourSq common pk' sig' un rev pts vals m2Tilde tp nonce) := by
  unfold proveSingle
  refine ORel.bind (initEqProof_rel ho common hpk hs un m2Tilde tp) fun i i' hi => ?_
  rw [hi.mTilde]
  refine ORel.bind (initPreds_rel ho m fourSq hpk _ vals pts) fun nis nis' hnis => ?_
  simp only
  rw [map_enc_rel ho (proverTaus_rel hi hnis), map_enc_rel ho (proverCList_rel hi hnis)]
  refine ORel.bind (finalizeEqProof_rel hi _ un rev vals) fun eq eq' heq => ?_
  refine ORel.map (finalizePreds_rel _ heq.m hnis) fun nes nes' hnes => ?_
  exact ⟨List.Forall₂.cons ⟨heq, hnes, rfl, rfl⟩ List.Forall₂.nil, rfl, rfl⟩

structure VerCredRel (R : G → G' → Prop) (v : VerCred G) (v' : VerCred G') : Prop where
  o : OpsRel R v.o v'.o
  pk : PKRel R v.pk v'.pk
  schema : v.schema = v'.schema
  nonSchema : v.nonSchema = v'.nonSchema
  req : v.req = v'.req
  hasRKey : v.hasRKey = v'.hasRKey
  hasRegistry : v.hasRegistry = v'.hasRegistry
  hasRegKey : v.hasRegKey = v'.hasRegKey

theorem ne_preds_rel {l : List (NeProof G)} {l' : List (NeProof G')}
    (h : List.Forall₂ (NeRel R) l l') : l.map (·.pred) = l'.map (·.pred) := by
  induction h with
  | nil => rfl
  | cons hx _ ih => simp only [List.map_cons, hx.pred, ih]

theorem pairConsistent_rel {s : SubProof G} {s' : SubProof G'} (hs : SubProofRel R s s')
    {v : VerCred G} {v' : VerCred G'} (hv : VerCredRel R v v') :
    pairConsistent s v = pairConsistent s' v' := by
  unfold pairConsistent
  rw [hs.eq.revealed, hv.req, ne_preds_rel hs.ne]

theorem allPairsConsistent_rel : ∀ {ss : List (SubProof G)} {ss' : List (SubProof G')},
    List.Forall₂ (SubProofRel R) ss ss' → ∀ {vs : List (VerCred G)} {vs' : List (VerCred G')},
    List.Forall₂ (VerCredRel R) vs vs' → allPairsConsistent ss vs = allPairsConsistent ss' vs' := by
  intro ss ss' hss
  induction hss with
  | nil => intro vs vs' hvs; cases hvs <;> rfl
  | cons hx _ ih =>
    intro vs vs' hvs
    cases hvs with
    | nil => rfl
    | cons hv hvr => simp only [allPairsConsistent, pairConsistent_rel hx hv, ih hvr]

theorem commonPass_congr (common : List String) {eq : EqProof G} {eq' : EqProof G'}
    (hm : eq.m = eq'.m) : ∀ (as : List String) (seen : List (String × Int)),
      commonPass common eq seen as = commonPass common eq' seen as := by
  intro as
  induction as with
  | nil => intro seen; rfl
  | cons a as ih =>
    intro seen
    simp only [commonPass, hm]
    cases lookup a eq'.m with
    | none => rfl
    | some mhat =>
      simp only
      cases lookup a seen with
      | some v => simp only; split <;> simp [ih]
      | none => simp only; exact ih _

/-- the verifier's per-sub-proof loop yields the same transcript items in both groups -/
theorem verifyLoop_rel (m : OvfMode) (common : List String) (c : Int) :
    ∀ {ss : List (SubProof G)} {ss' : List (SubProof G')}, List.Forall₂ (SubProofRel R) ss ss' →
    ∀ {vs : List (VerCred G)} {vs' : List (VerCred G')}, List.Forall₂ (VerCredRel R) vs vs' →
    ∀ seen : List (String × Int),
      verifyLoop m common c ss vs seen = verifyLoop m common c ss' vs' seen := by
  intro ss ss' hss
  induction hss with
  | nil => intro vs vs' _ seen; rfl
  | @cons s s' l l' hx _ ih =>
    intro vs vs' hvs seen
    cases hvs with
    | nil => rfl
    | @cons v v' r r' hv hvr =>
      simp only [verifyLoop]
      rw [hx.hasNonRevoc, hv.hasRKey, hv.hasRegistry, hv.hasRegKey, hx.nrTaus, hv.schema,
        hv.nonSchema, hv.req, commonPass_congr common hx.eq.m]
      split
      · rfl
      · cases (if (s'.hasNonRevoc && v'.hasRKey && v'.hasRegistry && v'.hasRegKey) = true
            then s'.nrTaus else Outcome.ok []) with
        | ok nrItems =>
          simp only [Outcome.bind_ok]
          split
          · rfl
          · cases commonPass common s'.eq seen common with
            | ok seen' =>
              simp only [Outcome.bind_ok]
              have hp := verifyPrimaryProof_rel hv.o m hv.pk hx.eq hx.ne c
                (unrevealedOf v'.schema v'.nonSchema v'.req.revealed)
              cases h1 : verifyPrimaryProof v.o m v.pk s.eq s.ne c
                  (unrevealedOf v'.schema v'.nonSchema v'.req.revealed) with
              | ok ts =>
                rw [h1] at hp
                cases h2 : verifyPrimaryProof v'.o m v'.pk s'.eq s'.ne c
                    (unrevealedOf v'.schema v'.nonSchema v'.req.revealed) with
                | ok ts' =>
                  rw [h2] at hp
                  have hts : List.Forall₂ R ts ts' := hp
                  simp only [Outcome.bind_ok, ih hvr seen']
                  have : ts.map (fun g => Item.bytes (v.o.enc g)) =
                      ts'.map (fun g => Item.bytes (v'.o.enc g)) := by
                    clear h1 h2 hp
                    induction hts with
                    | nil => rfl
                    | cons hg _ ihh => simp only [List.map_cons, hv.o.enc hg, ihh]
                  rw [this]
                | err => rw [h2] at hp; exact absurd hp (by simp [ORel])
                | panic => rw [h2] at hp; exact absurd hp (by simp [ORel])
              | err =>
                rw [h1] at hp
                cases h2 : verifyPrimaryProof v'.o m v'.pk s'.eq s'.ne c
                    (unrevealedOf v'.schema v'.nonSchema v'.req.revealed) with
                | ok ts' => rw [h2] at hp; exact absurd hp (by simp [ORel])
                | err => rfl
                | panic => rw [h2] at hp; exact absurd hp (by simp [ORel])
              | panic =>
                rw [h1] at hp
                cases h2 : verifyPrimaryProof v'.o m v'.pk s'.eq s'.ne c
                    (unrevealedOf v'.schema v'.nonSchema v'.req.revealed) with
                | ok ts' => rw [h2] at hp; exact absurd hp (by simp [ORel])
                | err => rw [h2] at hp; exact absurd hp (by simp [ORel])
                | panic => rfl
            | err => rfl
            | panic => rfl
        | err => rfl
        | panic => rfl

theorem forall₂_length {α β : Type} {P : α → β → Prop} {l : List α} {l' : List β}
    (h : List.Forall₂ P l l') : l.length = l'.length := by
  induction h with
  | nil => rfl
  | cons _ _ ih => simp [ih]

/-- **the verifier's verdict is the same in both groups**, for every proof (honest or not) whose
group elements are related -/
theorem verify_rel (H : List ByteArray → Int) (m : OvfMode) (common : List String)
    {vs : List (VerCred G)} {vs' : List (VerCred G')} (hvs : List.Forall₂ (VerCredRel R) vs vs')
    {p : Proof G} {p' : Proof G'} (hp : ProofRel R p p') (nonce : ByteArray) :
    verify H m common vs p nonce = verify H m common vs' p' nonce := by
  unfold verify verifyTranscript
  rw [forall₂_length hp.proofs, forall₂_length hvs, allPairsConsistent_rel hp.proofs hvs,
    hp.cHash, hp.cList, verifyLoop_rel m common p'.cHash hp.proofs hvs []]


/-! ## several credentials under one challenge: `proveMulti` -/

structure CredInRel (R : G → G' → Prop) (c : CredIn G) (c' : CredIn G') : Prop where
  o : OpsRel R c.o c'.o
  pk : PKRel R c.pk c'.pk
  sig : SigRel R c.sig c'.sig
  unrevealed : c.unrevealed = c'.unrevealed
  revealed : c.revealed = c'.revealed
  preds : c.preds = c'.preds
  vals : c.vals = c'.vals
  m2Tilde : c.m2Tilde = c'.m2Tilde
  tp : c.tp = c'.tp

/-- relation on the first messages of one sub-proof -/
def InitRel (R : G → G' → Prop) (x : EqInit G × List (NeInit G)) (y : EqInit G' × List (NeInit G')) :
    Prop := EqInitRel R x.1 y.1 ∧ List.Forall₂ (NeInitRel R) x.2 y.2

theorem initAll_rel (m : OvfMode) (fourSq : Int → Outcome (List Int)) (common : List (String × Int)) :
    ∀ {cs : List (CredIn G)} {cs' : List (CredIn G')}, List.Forall₂ (CredInRel R) cs cs' →
      ORel (List.Forall₂ (InitRel R)) (initAll m fourSq common cs) (initAll m fourSq common cs') := by
  intro cs cs' h
  induction h with
  | nil => exact List.Forall₂.nil
  | @cons c c' l l' hc _ ih =>
    simp only [initAll]
    rw [hc.unrevealed, hc.m2Tilde, hc.tp, hc.vals, hc.preds]
    refine ORel.bind (initEqProof_rel hc.o common hc.pk hc.sig _ _ _) fun e e' he => ?_
    rw [he.mTilde]
    refine ORel.bind (initPreds_rel hc.o m fourSq hc.pk _ _ _) fun ns ns' hns => ?_
    exact ORel.map ih fun r r' hr => List.Forall₂.cons ⟨he, hns⟩ hr

theorem tauBytes_rel : ∀ {cs : List (CredIn G)} {cs' : List (CredIn G')},
    List.Forall₂ (CredInRel R) cs cs' →
    ∀ {is : List (EqInit G × List (NeInit G))} {is' : List (EqInit G' × List (NeInit G'))},
    List.Forall₂ (InitRel R) is is' → tauBytes cs is = tauBytes cs' is' := by
  intro cs cs' h
  induction h with
  | nil => intro is is' _; cases is <;> cases is' <;> rfl
  | @cons c c' l l' hc _ ih =>
    intro is is' hi
    cases hi with
    | nil => rfl
    | @cons x x' r r' hx hr =>
      obtain ⟨e, ns⟩ := x
      obtain ⟨e', ns'⟩ := x'
      simp only [tauBytes]
      rw [map_enc_rel hc.o (proverTaus_rel hx.1 hx.2), ih hr]

theorem cBytes_rel : ∀ {cs : List (CredIn G)} {cs' : List (CredIn G')},
    List.Forall₂ (CredInRel R) cs cs' →
    ∀ {is : List (EqInit G × List (NeInit G))} {is' : List (EqInit G' × List (NeInit G'))},
    List.Forall₂ (InitRel R) is is' → cBytes cs is = cBytes cs' is' := by
  intro cs cs' h
  induction h with
  | nil => intro is is' _; cases is <;> cases is' <;> rfl
  | @cons c c' l l' hc _ ih =>
    intro is is' hi
    cases hi with
    | nil => rfl
    | @cons x x' r r' hx hr =>
      obtain ⟨e, ns⟩ := x
      obtain ⟨e', ns'⟩ := x'
      simp only [cBytes]
      rw [map_enc_rel hc.o (proverCList_rel hx.1 hx.2), ih hr]

theorem finalizeAll_rel (c : Int) : ∀ {cs : List (CredIn G)} {cs' : List (CredIn G')},
    List.Forall₂ (CredInRel R) cs cs' →
    ∀ {is : List (EqInit G × List (NeInit G))} {is' : List (EqInit G' × List (NeInit G'))},
    List.Forall₂ (InitRel R) is is' →
      ORel (List.Forall₂ (SubProofRel R)) (finalizeAll c cs is) (finalizeAll c cs' is') := by
  intro cs cs' h
  induction h with
  | nil =>
    intro is is' hi
    cases hi with
    | nil => exact List.Forall₂.nil
    | cons _ _ => simp [finalizeAll, ORel]
  | @cons cr cr' l l' hc _ ih =>
    intro is is' hi
    cases hi with
    | nil => simp [finalizeAll, ORel]
    | @cons x x' r r' hx hr =>
      obtain ⟨e, ns⟩ := x
      obtain ⟨e', ns'⟩ := x'
      simp only [finalizeAll]
      rw [hc.unrevealed, hc.revealed, hc.vals]
      refine ORel.bind (finalizeEqProof_rel hx.1 c _ _ _) fun eq eq' heq => ?_
      refine ORel.bind (finalizePreds_rel c heq.m hx.2) fun nes nes' hnes => ?_
      exact ORel.map (ih hr) fun t t' ht => List.Forall₂.cons ⟨heq, hnes, rfl, rfl⟩ ht

/-- the model prover's multi-credential presentation is the same document in both groups -/
theorem proveMulti_rel (H : List ByteArray → Int) (m : OvfMode)
    (fourSq : Int → Outcome (List Int)) (common : List (String × Int))
    {cs : List (CredIn G)} {cs' : List (CredIn G')} (h : List.Forall₂ (CredInRel R) cs cs')
    (nonce : ByteArray) :
    ORel (ProofRel R) (proveMulti H m fourSq common cs nonce)
      (proveMulti H m fourSq common cs' nonce) := by
  unfold proveMulti
  refine ORel.bind (initAll_rel m fourSq common h) fun is is' hi => ?_
  simp only
  rw [tauBytes_rel h hi, cBytes_rel h hi]
  exact ORel.map (finalizeAll_rel _ h hi) fun sps sps' hs => ⟨hs, rfl, rfl⟩

section withNonRevoc
variable {o : GroupOps G} {o' : GroupOps G'}

/-- `proveSingleWith` (a presentation that also carries a non-revocation part, whose encoded
tau- and c-lists pass through unchanged) is the same document in both groups -/
theorem proveSingleWith_rel (ho : OpsRel R o o') (H : List ByteArray → Int) (m : OvfMode)
    (fourSq : Int → Outcome (List Int)) (common : List (String × Int)) {pk : PubKey G}
    {pk' : PubKey G'} (hpk : PKRel R pk pk') {sig : Signature G} {sig' : Signature G'}
    (hs : SigRel R sig sig') (un rev : List String) (pts : List (Pred × NeTape)) (vals : Values)
    (m2Tilde : Int) (tp : EqTape) (nonce : ByteArray) (nrT nrC : List ByteArray) :
    ORel (ProofRel R)
      (proveSingleWith o H m fourSq common pk sig un rev pts vals m2Tilde tp nonce nrT nrC)
      (proveSingleWith o' H m fourSq common pk' sig' un rev pts vals m2Tilde tp nonce nrT nrC) := by
  unfold proveSingleWith
  refine ORel.bind (initEqProof_rel ho common hpk hs un m2Tilde tp) fun i i' hi => ?_
  rw [hi.mTilde]
  refine ORel.bind (initPreds_rel ho m fourSq hpk _ vals pts) fun nis nis' hnis => ?_
  simp only
  rw [map_enc_rel ho (proverTaus_rel hi hnis), map_enc_rel ho (proverCList_rel hi hnis)]
  refine ORel.bind (finalizeEqProof_rel hi _ un rev vals) fun eq eq' heq => ?_
  refine ORel.map (finalizePreds_rel _ heq.m hnis) fun nes nes' hnes => ?_
  exact ⟨List.Forall₂.cons ⟨heq, hnes, rfl, rfl⟩ List.Forall₂.nil, rfl, rfl⟩
end withNonRevoc

end CL.Pri
