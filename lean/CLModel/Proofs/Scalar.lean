import CLModel.Model.Scalar
import Mathlib.NumberTheory.LucasPrimality
import Mathlib.FieldTheory.Finite.Basic
import Mathlib.Data.List.Prime
import Mathlib.Data.Nat.ModEq
import Mathlib.Tactic.NormNum.Prime
import Mathlib.Tactic.Ring
import Mathlib.Tactic.Linarith
/-!
# Helper lemmas for C19, scalar part

* `powMod_eq` — the square-and-multiply loop of the model computes `b ^ e % m`;
* `r_prime` — the group order is prime: a Pratt (Lucas) certificate tree whose modular
  exponentiations are evaluated by the kernel on the model's own `powMod`;
* byte / hex conversion lemmas.
-/
namespace CL.Sc

/-! ## square-and-multiply -/

theorem powAux_modEq (m : ℕ) : ∀ (fuel a s z : ℕ), z < 2 ^ fuel →
    powAux m fuel a s z ≡ a * s ^ z [MOD m] := by
  intro fuel
  induction fuel with
  | zero =>
    intro a s z hz
    have : z = 0 := by simpa using hz
    subst this
    simp [powAux, Nat.ModEq]
  | succ fuel ih =>
    intro a s z hz
    have hz2 : z / 2 < 2 ^ fuel := by
      rw [Nat.div_lt_iff_lt_mul (by norm_num)]; rw [pow_succ] at hz; exact hz
    have ha' : (if z % 2 = 1 then (a % m) * (s % m) % m else a) ≡ a * s ^ (z % 2) [MOD m] := by
      split
      · rename_i h; rw [h, pow_one]
        exact (Nat.mod_modEq _ _).trans ((Nat.mod_modEq _ _).mul (Nat.mod_modEq _ _))
      · rename_i h
        have : z % 2 = 0 := by omega
        rw [this]; simp [Nat.ModEq]
    have hs' : (s % m) * (s % m) % m ≡ s ^ 2 [MOD m] := by
      rw [pow_two]
      exact (Nat.mod_modEq _ _).trans ((Nat.mod_modEq _ _).mul (Nat.mod_modEq _ _))
    have hsplit : a * s ^ z = a * s ^ (z % 2) * (s ^ 2) ^ (z / 2) := by
      conv_lhs => rw [← Nat.mod_add_div z 2]
      rw [pow_add, pow_mul]; ring
    simp only [powAux]
    split
    · rename_i h0
      have : z = z % 2 := by omega
      rw [hsplit, h0, pow_zero, mul_one]
      exact ha'
    · rw [hsplit]
      exact (ih _ _ _ hz2).trans (ha'.mul (hs'.pow _))

theorem powAux_lt (m : ℕ) (hm : 0 < m) : ∀ (fuel a s z : ℕ), a < m → powAux m fuel a s z < m := by
  intro fuel
  induction fuel with
  | zero => intro a s z ha; simpa [powAux] using ha
  | succ fuel ih =>
    intro a s z ha
    have ha' : (if z % 2 = 1 then (a % m) * (s % m) % m else a) < m := by
      split
      · exact Nat.mod_lt _ hm
      · exact ha
    simp only [powAux]
    split
    · exact ha'
    · exact ih _ _ _ ha'

/-- the model's modular exponentiation is modular exponentiation -/
theorem powMod_eq (b e m : ℕ) (hm : 1 < m) : powMod b e m = b ^ e % m := by
  have h1 : powMod b e m ≡ 1 * b ^ e [MOD m] :=
    powAux_modEq m (e + 1) 1 b e (lt_trans Nat.lt_two_pow_self (Nat.pow_lt_pow_right (by norm_num) (Nat.lt_succ_self e)))
  have h2 : powMod b e m < m := powAux_lt m (by omega) _ _ _ _ hm
  rw [one_mul] at h1
  have := h1
  unfold Nat.ModEq at this
  rw [Nat.mod_eq_of_lt h2] at this
  exact this

/-! ## primality of the group order (Pratt certificates) -/

/-- Lucas' converse of Fermat's little theorem, with the exponentiations on `powMod`:
`fs` lists prime factors of `p - 1` whose product is `p - 1`. -/
theorem prime_of_pratt (p a : ℕ) (fs : List ℕ) (hp : 1 < p) (hprod : fs.prod = p - 1)
    (hfs : ∀ q ∈ fs, q.Prime) (h1 : powMod a (p - 1) p = 1)
    (h2 : ∀ q ∈ fs, powMod a ((p - 1) / q) p ≠ 1) : p.Prime := by
  have cast_pow : ∀ k : ℕ, ((a : ZMod p)) ^ k = ((powMod a k p : ℕ) : ZMod p) := by
    intro k
    rw [powMod_eq a k p hp, ZMod.natCast_mod, Nat.cast_pow]
  apply lucas_primality p (a : ZMod p)
  · rw [cast_pow, h1, Nat.cast_one]
  · intro q hq hdvd
    rw [← hprod] at hdvd
    obtain ⟨x, hx, hqx⟩ := (Prime.dvd_prod_iff hq.prime).mp hdvd
    have hqx' : q = x := (Nat.prime_dvd_prime_iff_eq hq (hfs x hx)).mp hqx
    subst hqx'
    rw [cast_pow]
    intro hone
    have h3 : ((powMod a ((p - 1) / q) p : ℕ) : ZMod p) = ((1 : ℕ) : ZMod p) := by
      rw [hone, Nat.cast_one]
    have h4 := (ZMod.natCast_eq_natCast_iff' _ _ _).mp h3
    have hlt : powMod a ((p - 1) / q) p < p := powAux_lt p (by omega) _ _ _ _ hp
    rw [Nat.mod_eq_of_lt hlt, Nat.mod_eq_of_lt hp] at h4
    exact h2 q hx h4

theorem prime_103393 : Nat.Prime 103393 := by
  refine prime_of_pratt 103393 5 [2, 2, 2, 2, 2, 3, 3, 359] (by decide) (by decide +kernel) ?_ (by decide +kernel) ?_
  · intro q hq
    simp only [List.mem_cons, List.not_mem_nil, or_false] at hq
    rcases hq with rfl | rfl | rfl | rfl | rfl | rfl | rfl | rfl
    · exact (by norm_num : Nat.Prime 2)
    · exact (by norm_num : Nat.Prime 2)
    · exact (by norm_num : Nat.Prime 2)
    · exact (by norm_num : Nat.Prime 2)
    · exact (by norm_num : Nat.Prime 2)
    · exact (by norm_num : Nat.Prime 3)
    · exact (by norm_num : Nat.Prime 3)
    · exact (by norm_num : Nat.Prime 359)
  · intro q hq
    simp only [List.mem_cons, List.not_mem_nil, or_false] at hq
    rcases hq with rfl | rfl | rfl | rfl | rfl | rfl | rfl | rfl <;> decide +kernel

theorem prime_140977 : Nat.Prime 140977 := by
  refine prime_of_pratt 140977 5 [2, 2, 2, 2, 3, 3, 11, 89] (by decide) (by decide +kernel) ?_ (by decide +kernel) ?_
  · intro q hq
    simp only [List.mem_cons, List.not_mem_nil, or_false] at hq
    rcases hq with rfl | rfl | rfl | rfl | rfl | rfl | rfl | rfl
    · exact (by norm_num : Nat.Prime 2)
    · exact (by norm_num : Nat.Prime 2)
    · exact (by norm_num : Nat.Prime 2)
    · exact (by norm_num : Nat.Prime 2)
    · exact (by norm_num : Nat.Prime 3)
    · exact (by norm_num : Nat.Prime 3)
    · exact (by norm_num : Nat.Prime 11)
    · exact (by norm_num : Nat.Prime 89)
  · intro q hq
    simp only [List.mem_cons, List.not_mem_nil, or_false] at hq
    rcases hq with rfl | rfl | rfl | rfl | rfl | rfl | rfl | rfl <;> decide +kernel

theorem prime_159793 : Nat.Prime 159793 := by
  refine prime_of_pratt 159793 5 [2, 2, 2, 2, 3, 3329] (by decide) (by decide +kernel) ?_ (by decide +kernel) ?_
  · intro q hq
    simp only [List.mem_cons, List.not_mem_nil, or_false] at hq
    rcases hq with rfl | rfl | rfl | rfl | rfl | rfl
    · exact (by norm_num : Nat.Prime 2)
    · exact (by norm_num : Nat.Prime 2)
    · exact (by norm_num : Nat.Prime 2)
    · exact (by norm_num : Nat.Prime 2)
    · exact (by norm_num : Nat.Prime 3)
    · exact (by norm_num : Nat.Prime 3329)
  · intro q hq
    simp only [List.mem_cons, List.not_mem_nil, or_false] at hq
    rcases hq with rfl | rfl | rfl | rfl | rfl | rfl <;> decide +kernel

theorem prime_1545857 : Nat.Prime 1545857 := by
  refine prime_of_pratt 1545857 3 [2, 2, 2, 2, 2, 2, 2, 13, 929] (by decide) (by decide +kernel) ?_ (by decide +kernel) ?_
  · intro q hq
    simp only [List.mem_cons, List.not_mem_nil, or_false] at hq
    rcases hq with rfl | rfl | rfl | rfl | rfl | rfl | rfl | rfl | rfl
    · exact (by norm_num : Nat.Prime 2)
    · exact (by norm_num : Nat.Prime 2)
    · exact (by norm_num : Nat.Prime 2)
    · exact (by norm_num : Nat.Prime 2)
    · exact (by norm_num : Nat.Prime 2)
    · exact (by norm_num : Nat.Prime 2)
    · exact (by norm_num : Nat.Prime 2)
    · exact (by norm_num : Nat.Prime 13)
    · exact (by norm_num : Nat.Prime 929)
  · intro q hq
    simp only [List.mem_cons, List.not_mem_nil, or_false] at hq
    rcases hq with rfl | rfl | rfl | rfl | rfl | rfl | rfl | rfl | rfl <;> decide +kernel

theorem prime_2749283 : Nat.Prime 2749283 := by
  refine prime_of_pratt 2749283 2 [2, 23, 59, 1013] (by decide) (by decide +kernel) ?_ (by decide +kernel) ?_
  · intro q hq
    simp only [List.mem_cons, List.not_mem_nil, or_false] at hq
    rcases hq with rfl | rfl | rfl | rfl
    · exact (by norm_num : Nat.Prime 2)
    · exact (by norm_num : Nat.Prime 23)
    · exact (by norm_num : Nat.Prime 59)
    · exact (by norm_num : Nat.Prime 1013)
  · intro q hq
    simp only [List.mem_cons, List.not_mem_nil, or_false] at hq
    rcases hq with rfl | rfl | rfl | rfl <;> decide +kernel

theorem prime_15698303 : Nat.Prime 15698303 := by
  refine prime_of_pratt 15698303 5 [2, 269, 29179] (by decide) (by decide +kernel) ?_ (by decide +kernel) ?_
  · intro q hq
    simp only [List.mem_cons, List.not_mem_nil, or_false] at hq
    rcases hq with rfl | rfl | rfl
    · exact (by norm_num : Nat.Prime 2)
    · exact (by norm_num : Nat.Prime 269)
    · exact (by norm_num : Nat.Prime 29179)
  · intro q hq
    simp only [List.mem_cons, List.not_mem_nil, or_false] at hq
    rcases hq with rfl | rfl | rfl <;> decide +kernel

theorem prime_65982793 : Nat.Prime 65982793 := by
  refine prime_of_pratt 65982793 5 [2, 2, 2, 3, 2749283] (by decide) (by decide +kernel) ?_ (by decide +kernel) ?_
  · intro q hq
    simp only [List.mem_cons, List.not_mem_nil, or_false] at hq
    rcases hq with rfl | rfl | rfl | rfl | rfl
    · exact (by norm_num : Nat.Prime 2)
    · exact (by norm_num : Nat.Prime 2)
    · exact (by norm_num : Nat.Prime 2)
    · exact (by norm_num : Nat.Prime 3)
    · exact prime_2749283
  · intro q hq
    simp only [List.mem_cons, List.not_mem_nil, or_false] at hq
    rcases hq with rfl | rfl | rfl | rfl | rfl <;> decide +kernel

theorem prime_1176035613847 : Nat.Prime 1176035613847 := by
  refine prime_of_pratt 1176035613847 3 [2, 3, 73, 25969, 103393] (by decide) (by decide +kernel) ?_ (by decide +kernel) ?_
  · intro q hq
    simp only [List.mem_cons, List.not_mem_nil, or_false] at hq
    rcases hq with rfl | rfl | rfl | rfl | rfl
    · exact (by norm_num : Nat.Prime 2)
    · exact (by norm_num : Nat.Prime 3)
    · exact (by norm_num : Nat.Prime 73)
    · exact (by norm_num : Nat.Prime 25969)
    · exact prime_103393
  · intro q hq
    simp only [List.mem_cons, List.not_mem_nil, or_false] at hq
    rcases hq with rfl | rfl | rfl | rfl | rfl <;> decide +kernel

theorem prime_14334859726775219 : Nat.Prime 14334859726775219 := by
  refine prime_of_pratt 14334859726775219 2 [2, 19, 41, 61, 883, 1069, 159793] (by decide) (by decide +kernel) ?_ (by decide +kernel) ?_
  · intro q hq
    simp only [List.mem_cons, List.not_mem_nil, or_false] at hq
    rcases hq with rfl | rfl | rfl | rfl | rfl | rfl | rfl
    · exact (by norm_num : Nat.Prime 2)
    · exact (by norm_num : Nat.Prime 19)
    · exact (by norm_num : Nat.Prime 41)
    · exact (by norm_num : Nat.Prime 61)
    · exact (by norm_num : Nat.Prime 883)
    · exact (by norm_num : Nat.Prime 1069)
    · exact prime_159793
  · intro q hq
    simp only [List.mem_cons, List.not_mem_nil, or_false] at hq
    rcases hq with rfl | rfl | rfl | rfl | rfl | rfl | rfl <;> decide +kernel

theorem prime_101148471075752777 : Nat.Prime 101148471075752777 := by
  refine prime_of_pratt 101148471075752777 3 [2, 2, 2, 13, 827, 1176035613847] (by decide) (by decide +kernel) ?_ (by decide +kernel) ?_
  · intro q hq
    simp only [List.mem_cons, List.not_mem_nil, or_false] at hq
    rcases hq with rfl | rfl | rfl | rfl | rfl | rfl
    · exact (by norm_num : Nat.Prime 2)
    · exact (by norm_num : Nat.Prime 2)
    · exact (by norm_num : Nat.Prime 2)
    · exact (by norm_num : Nat.Prime 13)
    · exact (by norm_num : Nat.Prime 827)
    · exact prime_1176035613847
  · intro q hq
    simp only [List.mem_cons, List.not_mem_nil, or_false] at hq
    rcases hq with rfl | rfl | rfl | rfl | rfl | rfl <;> decide +kernel

theorem prime_1254043595354617963043866617659 : Nat.Prime 1254043595354617963043866617659 := by
  refine prime_of_pratt 1254043595354617963043866617659 2 [2, 11, 641, 4013, 1545857, 14334859726775219] (by decide) (by decide +kernel) ?_ (by decide +kernel) ?_
  · intro q hq
    simp only [List.mem_cons, List.not_mem_nil, or_false] at hq
    rcases hq with rfl | rfl | rfl | rfl | rfl | rfl
    · exact (by norm_num : Nat.Prime 2)
    · exact (by norm_num : Nat.Prime 11)
    · exact (by norm_num : Nat.Prime 641)
    · exact (by norm_num : Nat.Prime 4013)
    · exact prime_1545857
    · exact prime_14334859726775219
  · intro q hq
    simp only [List.mem_cons, List.not_mem_nil, or_false] at hq
    rcases hq with rfl | rfl | rfl | rfl | rfl | rfl <;> decide +kernel

/-- **the order of the amcl BN254 groups is prime** (Pratt certificate; every modular
exponentiation of the certificate is evaluated by the kernel on `powMod`) -/
theorem r_prime : Nat.Prime r := by
  refine prime_of_pratt r 2 [2, 2, 3, 7, 641, 16843, 140977, 15698303, 65982793, 101148471075752777, 1254043595354617963043866617659] (by decide) (by decide +kernel) ?_ (by decide +kernel) ?_
  · intro q hq
    simp only [List.mem_cons, List.not_mem_nil, or_false] at hq
    rcases hq with rfl | rfl | rfl | rfl | rfl | rfl | rfl | rfl | rfl | rfl | rfl
    · exact (by norm_num : Nat.Prime 2)
    · exact (by norm_num : Nat.Prime 2)
    · exact (by norm_num : Nat.Prime 3)
    · exact (by norm_num : Nat.Prime 7)
    · exact (by norm_num : Nat.Prime 641)
    · exact (by norm_num : Nat.Prime 16843)
    · exact prime_140977
    · exact prime_15698303
    · exact prime_65982793
    · exact prime_101148471075752777
    · exact prime_1254043595354617963043866617659
  · intro q hq
    simp only [List.mem_cons, List.not_mem_nil, or_false] at hq
    rcases hq with rfl | rfl | rfl | rfl | rfl | rfl | rfl | rfl | rfl | rfl | rfl <;> decide +kernel

/-! ## the scalars as `ZMod r` -/

instance : Fact (Nat.Prime r) := ⟨r_prime⟩

theorem r_pos : 0 < r := by decide
theorem one_lt_r : 1 < r := by decide

/-- the ring the scalars are meant to be -/
abbrev toZMod (a : Scalar) : ZMod r := ((a : ℕ) : ZMod r)

theorem toZMod_eq_iff (a b : ℕ) : toZMod a = toZMod b ↔ a % r = b % r :=
  ZMod.natCast_eq_natCast_iff' a b r

theorem toZMod_add (a b : ℕ) : toZMod (add a b) = toZMod a + toZMod b := by
  unfold toZMod add; rw [ZMod.natCast_mod, Nat.cast_add]

theorem toZMod_sub (a b : ℕ) (h : b ≤ a + r) : toZMod (sub a b) = toZMod a - toZMod b := by
  unfold toZMod sub
  rw [ZMod.natCast_mod, Nat.cast_sub h, Nat.cast_add, ZMod.natCast_self, add_zero]

theorem toZMod_mul (a b : ℕ) : toZMod (mul a b) = toZMod a * toZMod b := by
  unfold toZMod mul
  rw [ZMod.natCast_mod, Nat.cast_mul, ZMod.natCast_mod, ZMod.natCast_mod]

theorem toZMod_neg (a : ℕ) : toZMod (neg a) = - toZMod a := by
  unfold toZMod neg
  rw [ZMod.natCast_mod, Nat.cast_sub (Nat.mod_lt _ r_pos).le, ZMod.natCast_self, ZMod.natCast_mod,
    zero_sub]

theorem pow_eq (a e : ℕ) : pow a e = a ^ e % r := powMod_eq a e r one_lt_r

theorem toZMod_pow (a e : ℕ) : toZMod (pow a e) = toZMod a ^ e := by
  unfold toZMod; rw [pow_eq, ZMod.natCast_mod, Nat.cast_pow]

theorem add_lt (a b : ℕ) : add a b < r := Nat.mod_lt _ r_pos
theorem sub_lt (a b : ℕ) : sub a b < r := Nat.mod_lt _ r_pos
theorem mul_lt (a b : ℕ) : mul a b < r := Nat.mod_lt _ r_pos
theorem pow_lt (a e : ℕ) : pow a e < r := by rw [pow_eq]; exact Nat.mod_lt _ r_pos

theorem neg_lt (a : ℕ) : neg a < r := Nat.mod_lt _ r_pos

theorem neg_of_mod_zero (a : ℕ) (h : a % r = 0) : neg a = 0 := by
  unfold neg; rw [h, Nat.sub_zero, Nat.mod_self]

theorem inv_of_ne (a : ℕ) (h : a % r ≠ 0) : inv a = .ok (pow a (r - 2)) := by
  unfold inv; rw [if_neg h]

theorem inv_of_mod_zero (a : ℕ) (h : a % r = 0) : inv a = .err := by
  unfold inv; rw [if_pos h]

theorem toZMod_ne_zero (a : ℕ) (h : a % r ≠ 0) : toZMod a ≠ 0 := by
  intro h0
  apply h
  have : toZMod a = toZMod 0 := by rw [h0]; simp [toZMod]
  have h1 := (toZMod_eq_iff a 0).mp this
  simpa using h1

/-- Fermat: `a · a^(r-2) = 1` in the field `ZMod r` -/
theorem toZMod_mul_inv (a : ℕ) (h : a % r ≠ 0) : toZMod a * toZMod (pow a (r - 2)) = 1 := by
  rw [toZMod_pow, ← pow_succ']
  have : r - 2 + 1 = r - 1 := by decide
  rw [this]
  exact ZMod.pow_card_sub_one_eq_one (toZMod_ne_zero a h)

theorem mul_inv_mod (a : ℕ) (h : a % r ≠ 0) : a * pow a (r - 2) % r = 1 := by
  have h2 : toZMod (a * pow a (r - 2)) = toZMod 1 := by
    unfold toZMod; rw [Nat.cast_mul, Nat.cast_one]; exact toZMod_mul_inv a h
  have := (toZMod_eq_iff _ _).mp h2
  rwa [Nat.mod_eq_of_lt one_lt_r] at this

theorem eq_of_toZMod_eq {a b : ℕ} (ha : a < r) (hb : b < r) (h : toZMod a = toZMod b) :
    a = b := by
  have := (toZMod_eq_iff a b).mp h
  rwa [Nat.mod_eq_of_lt ha, Nat.mod_eq_of_lt hb] at this


/-! ## byte strings -/

theorem foldl_be (l : List UInt8) : ∀ acc : ℕ,
    l.foldl (fun acc b => acc * 256 + b.toNat) acc = acc * 256 ^ l.length + beNat l := by
  induction l with
  | nil => intro acc; simp [beNat]
  | cons b l ih =>
    intro acc
    simp only [List.foldl_cons, List.length_cons, beNat]
    rw [ih, ih (0 * 256 + b.toNat)]
    ring

theorem beNat_nil : beNat [] = 0 := rfl

theorem beNat_cons (b : UInt8) (l : List UInt8) :
    beNat (b :: l) = b.toNat * 256 ^ l.length + beNat l := by
  unfold beNat
  rw [List.foldl_cons, foldl_be]
  simp [beNat]

theorem beNat_append_singleton (l : List UInt8) (b : UInt8) :
    beNat (l ++ [b]) = beNat l * 256 + b.toNat := by
  simp [beNat, List.foldl_append]

theorem beNat_lt (l : List UInt8) : beNat l < 256 ^ l.length := by
  induction l with
  | nil => simp [beNat]
  | cons b l ih =>
    rw [beNat_cons, List.length_cons, pow_succ]
    have hb : b.toNat < 256 := UInt8.toNat_lt b
    have hpos : 0 < 256 ^ l.length := pow_pos (by norm_num) _
    nlinarith

/-- left padding with zero bytes (what `from_bytes` does to short input) does not change the value -/
theorem beNat_pad (k : ℕ) (l : List UInt8) : beNat (List.replicate k 0 ++ l) = beNat l := by
  induction k with
  | zero => simp
  | succ k ih =>
    rw [List.replicate_succ, List.cons_append, beNat_cons, ih]
    simp

theorem fromBytes_le (bs : List UInt8) (h : bs.length ≤ 32) :
    fromBytes bs = .ok (beNat bs % r) := by
  unfold fromBytes; rw [if_neg (by omega)]

theorem fromBytes_gt (bs : List UInt8) (h : 32 < bs.length) : fromBytes bs = .err := by
  unfold fromBytes; rw [if_pos h]

/-- big-endian digits, general width -/
def digitsBE (n a : ℕ) : List UInt8 :=
  (List.range n).map fun i => UInt8.ofNat (a / 256 ^ (n - 1 - i) % 256)

theorem toBytes_eq (a : ℕ) : toBytes a = digitsBE 32 a := rfl

theorem digitsBE_succ (n a : ℕ) :
    digitsBE (n + 1) a = digitsBE n (a / 256) ++ [UInt8.ofNat (a % 256)] := by
  unfold digitsBE
  rw [List.range_succ, List.map_append]
  congr 1
  · apply List.map_congr_left
    intro i hi
    have hi' : i < n := List.mem_range.mp hi
    have : n + 1 - 1 - i = (n - 1 - i) + 1 := by omega
    rw [this, pow_succ, Nat.div_div_eq_div_mul, mul_comm]
  · simp

theorem length_digitsBE (n a : ℕ) : (digitsBE n a).length = n := by simp [digitsBE]

theorem beNat_digitsBE : ∀ n a : ℕ, beNat (digitsBE n a) = a % 256 ^ n := by
  intro n
  induction n with
  | zero => intro a; simp [digitsBE, beNat, Nat.mod_one]
  | succ n ih =>
    intro a
    rw [digitsBE_succ, beNat_append_singleton, ih, pow_succ, mul_comm (256 ^ n) 256, Nat.mod_mul]
    have : (UInt8.ofNat (a % 256)).toNat = a % 256 := by
      simp [UInt8.toNat_ofNat']
    rw [this]; ring

theorem length_toBytes (a : ℕ) : (toBytes a).length = 32 := by
  rw [toBytes_eq, length_digitsBE]

theorem beNat_toBytes (a : ℕ) : beNat (toBytes a) = a % 2 ^ 256 := by
  rw [toBytes_eq, beNat_digitsBE]; norm_num

theorem r_lt_two256 : r < 2 ^ 256 := by decide

theorem fromBytes_toBytes (a : ℕ) (h : a < r) : fromBytes (toBytes a) = .ok a := by
  rw [fromBytes_le _ (by rw [length_toBytes]), beNat_toBytes,
    Nat.mod_eq_of_lt (lt_trans h r_lt_two256), Nat.mod_eq_of_lt h]

/-! ## `BigNumber::to_bytes` and `bignum_to_group_element_reduce` -/

theorem beNat_natBytesAux : ∀ (fuel n : ℕ) (acc : List UInt8), n ≤ fuel →
    beNat (natBytesAux fuel n acc) = n * 256 ^ acc.length + beNat acc := by
  intro fuel
  induction fuel with
  | zero =>
    intro n acc hn
    have : n = 0 := by omega
    subst this; simp [natBytesAux]
  | succ fuel ih =>
    intro n acc hn
    unfold natBytesAux
    split
    · rename_i h0; subst h0; simp
    · rename_i h0
      have hdiv : n / 256 ≤ fuel := by
        have : n / 256 < n := Nat.div_lt_self (Nat.pos_of_ne_zero h0) (by norm_num)
        omega
      rw [ih _ _ hdiv, beNat_cons, List.length_cons, pow_succ]
      have hb : (UInt8.ofNat (n % 256)).toNat = n % 256 := by simp [UInt8.toNat_ofNat']
      rw [hb]
      have hn' := Nat.div_add_mod n 256
      conv_rhs => rw [← hn']
      ring

theorem length_natBytesAux : ∀ (fuel n : ℕ) (acc : List UInt8) (k : ℕ), n < 256 ^ k →
    (natBytesAux fuel n acc).length ≤ acc.length + k := by
  intro fuel
  induction fuel with
  | zero => intro n acc k _; simp [natBytesAux]
  | succ fuel ih =>
    intro n acc k hk
    unfold natBytesAux
    split
    · omega
    · rename_i h0
      have hk0 : k ≠ 0 := by
        intro hk0; subst hk0; simp at hk; exact h0 hk
      obtain ⟨k', rfl⟩ := Nat.exists_eq_succ_of_ne_zero hk0
      have hdiv : n / 256 < 256 ^ k' := by
        rw [Nat.div_lt_iff_lt_mul (by norm_num)]; rw [pow_succ] at hk; exact hk
      have := ih (n / 256) (UInt8.ofNat (n % 256) :: acc) k' hdiv
      simp only [List.length_cons] at this
      omega

theorem bignumReduce_eq (zb : Bool) (n : ℤ) :
    bignumToGroupElementReduce zb n = .ok (n % (r : ℤ)).toNat := by
  have hrpos : (0 : ℤ) < (r : ℤ) := by exact_mod_cast r_pos
  have hx : (n % (r : ℤ)).toNat < r := by
    have h1 := Int.emod_lt_of_pos n hrpos
    have h0 := Int.emod_nonneg n (ne_of_gt hrpos)
    omega
  unfold bignumToGroupElementReduce
  generalize (n % (r : ℤ)).toNat = x at hx ⊢
  unfold natBytes
  split
  · rename_i h0
    subst h0
    cases zb <;> simp [fromBytes, beNat]
  · have hlen : (natBytesAux x x []).length ≤ 32 := by
      have := length_natBytesAux x x [] 32 (lt_trans hx (by decide))
      simpa using this
    rw [fromBytes_le _ hlen, beNat_natBytesAux x x [] le_rfl]
    simp [beNat, Nat.mod_eq_of_lt hx]

/-! ## hex strings -/

theorem hexDigitVal_lt (c : Char) (d : ℕ) (h : hexDigitVal c = some d) : d < 16 := by
  unfold hexDigitVal at h
  simp only at h
  split at h
  · simp at h; omega
  · split at h
    · simp at h; omega
    · split at h
      · simp at h; omega
      · simp at h

theorem hexVal_none (cs : List Char) : hexVal cs none = none := by
  cases cs <;> simp [hexVal]

theorem hexVal_lt : ∀ (cs : List Char) (a v : ℕ), hexVal cs (some a) = some v →
    v < (a + 1) * 16 ^ cs.length := by
  intro cs
  induction cs with
  | nil => intro a v h; simp [hexVal] at h; subst h; simp
  | cons c cs ih =>
    intro a v h
    unfold hexVal at h
    cases hd : hexDigitVal c with
    | none => rw [hd] at h; simp at h
    | some d =>
      rw [hd] at h
      simp only at h
      have h1 := ih _ _ h
      have hd16 := hexDigitVal_lt c d hd
      rw [List.length_cons, pow_succ]
      have hpos : 0 < 16 ^ cs.length := pow_pos (by norm_num) _
      nlinarith

theorem fromString_ok (s : String) (v : ℕ) (hne : s.toList ≠ [])
    (hv : hexVal s.toList (some 0) = some v) (hlen : s.toList.length ≤ 71) :
    fromString s = .ok (v % r) := by
  unfold fromString
  split
  · rename_i h; exact absurd h hne
  · rw [hv]
    simp only [if_neg (by omega : ¬ s.toList.length > 71)]

theorem fromString_empty (s : String) (h : s.toList = []) : fromString s = .err := by
  unfold fromString; rw [h]

theorem fromString_nonhex (s : String) (h : hexVal s.toList (some 0) = none) :
    fromString s = .err := by
  unfold fromString
  split
  · rfl
  · rw [h]

theorem fromString_long (s : String) (h : 71 < s.toList.length) : fromString s = .err := by
  unfold fromString
  split
  · rfl
  · split
    · rfl
    · rw [if_pos h]

set_option exponentiation.threshold 300 in
/-- an accepted string has a value below `2^284`: the reduction runs inside the 288 usable
bits of an amcl `BIG` -/
theorem fromString_value_lt (s : String) (v : ℕ) (hv : hexVal s.toList (some 0) = some v)
    (hlen : s.toList.length ≤ 71) : v < 2 ^ 284 := by
  have := hexVal_lt _ _ _ hv
  rw [zero_add, one_mul] at this
  have h2 : (16 : ℕ) ^ 71 = 2 ^ 284 := by decide
  exact lt_of_lt_of_le this (h2 ▸ Nat.pow_le_pow_right (by norm_num) hlen)

end CL.Sc
