import CLModel.Model.Wire
import Mathlib.Tactic.Tauto
import Mathlib.Data.List.Basic
/-! Helper lemmas for the wire-layout model (C15): association lists, the legacy conversion,
the delta layout. -/
namespace CL.Wire

theorem getField_dropField_ne (k l : String) (h : k ≠ l) : ∀ o : Obj,
    getField k (dropField l o) = getField k o := by
  intro o
  induction o with
  | nil => rfl
  | cons kv t ih =>
    obtain ⟨k', v'⟩ := kv
    by_cases h1 : k' = l
    · subst h1
      have h2 : ¬ k' = k := fun e => h e.symm
      simp only [dropField, getField, if_true, h2, if_false]
      exact ih
    · simp only [dropField, h1, if_false, getField, ih]

theorem getField_dropField_self (l : String) : ∀ o : Obj, getField l (dropField l o) = none := by
  intro o
  induction o with
  | nil => rfl
  | cons kv t ih =>
    obtain ⟨k', v'⟩ := kv
    by_cases h1 : k' = l
    · simp [dropField, h1, ih]
    · simp [dropField, getField, h1, ih]

theorem getField_setField_ne (k l : String) (v : J) (h : k ≠ l) : ∀ o : Obj,
    getField k (setField l v o) = getField k o := by
  intro o
  induction o with
  | nil => rfl
  | cons kv t ih =>
    obtain ⟨k', v'⟩ := kv
    by_cases h1 : k' = l
    · subst h1
      have h2 : ¬ k' = k := fun e => h e.symm
      simp only [setField, if_true, getField, h2, if_false]
    · simp only [setField, h1, if_false, getField, ih]

theorem getField_setField_self (l : String) (v : J) : ∀ o : Obj, (getField l o).isSome →
    getField l (setField l v o) = some v := by
  intro o
  induction o with
  | nil => intro h; simp [getField] at h
  | cons kv t ih =>
    obtain ⟨k', v'⟩ := kv
    intro h
    by_cases h1 : k' = l
    · simp [setField, getField, h1]
    · simp only [getField, h1, if_false] at h
      simp [setField, getField, h1, ih h]

theorem getAll_congr (o o' : Obj) : ∀ ks : List String, (∀ k ∈ ks, getField k o' = getField k o) →
    getAll ks o' = getAll ks o := by
  intro ks
  induction ks with
  | nil => intro _; rfl
  | cons k ks ih =>
    intro h
    simp only [getAll]
    rw [h k (by simp), ih (fun k' hk' => h k' (by simp [hk']))]

/-- **the legacy layout decodes to what the converted (current-layout) document decodes to** -/
theorem decodeLegacy_convert (S : LegacySpec) (isZero : J → Bool)
    (h1 : S.legacyF ∉ S.req) (h2 : S.legacyF ≠ S.mapF) (h3 : S.mapF ∉ S.req) (j : J) :
    decodeLegacy S isZero (convertLegacy S isZero j) = decodeLegacy S isZero j := by
  cases j with
  | obj o =>
    simp only [convertLegacy]
    cases hl : getField S.legacyF o with
    | none => simp
    | some v =>
      simp only
      have hreq : ∀ k ∈ S.req, getField k (dropField S.legacyF o) = getField k o := by
        intro k hk
        exact getField_dropField_ne k S.legacyF (by intro e; exact h1 (e ▸ hk)) o
      have hmap : getField S.mapF (dropField S.legacyF o) = getField S.mapF o :=
        getField_dropField_ne _ _ (fun e => h2 e.symm) o
      have hleg : getField S.legacyF (dropField S.legacyF o) = none := getField_dropField_self _ o
      by_cases hz : isZero v = true
      · simp only [hz, if_true, decodeLegacy]
        rw [getAll_congr _ _ S.req hreq, hmap, hleg, hl]
        simp [hz]
      · simp only [hz, Bool.false_eq_true, if_false]
        rw [hmap]
        cases hm : getField S.mapF o with
        | none =>
          simp only [decodeLegacy]
          rw [getAll_congr _ _ S.req hreq, hmap, hm]
          cases getAll S.req o <;> rfl
        | some mv =>
          cases mv with
          | obj m =>
            simp only [decodeLegacy]
            have hreq2 : ∀ k ∈ S.req, getField k (setField S.mapF (J.obj (mapInsert "master_secret" v m))
                (dropField S.legacyF o)) = getField k o := by
              intro k hk
              rw [getField_setField_ne k S.mapF _ (by intro e; exact h3 (e ▸ hk))]
              exact hreq k hk
            rw [getAll_congr _ _ S.req hreq2,
              getField_setField_self S.mapF _ _ (by rw [hmap, hm]; rfl),
              getField_setField_ne S.legacyF S.mapF _ h2, hleg, hm, hl]
            simp only [hz, Bool.false_eq_true, if_false]
            cases getAll S.req o <;> rfl
          | null | bool _ | num _ | str _ | arr _ =>
            simp only [decodeLegacy]
            rw [getAll_congr _ _ S.req hreq, hmap, hm]
            cases getAll S.req o <;> rfl
  | null | bool _ | num _ | str _ | arr _ => rfl

/-- the converted document no longer carries the legacy field -/
theorem convertLegacy_no_legacy (S : LegacySpec) (isZero : J → Bool) (h2 : S.legacyF ≠ S.mapF) (o : Obj) :
    ∃ o', convertLegacy S isZero (.obj o) = .obj o' ∧ getField S.legacyF o' = none := by
  simp only [convertLegacy]
  cases hl : getField S.legacyF o with
  | none => exact ⟨o, rfl, hl⟩
  | some v =>
    simp only
    by_cases hz : isZero v = true
    · exact ⟨_, by simp [hz], getField_dropField_self _ o⟩
    · simp only [hz, Bool.false_eq_true, if_false]
      cases hm : getField S.mapF (dropField S.legacyF o) with
      | none => exact ⟨_, rfl, getField_dropField_self _ o⟩
      | some mv =>
        cases mv with
        | obj m =>
          refine ⟨_, rfl, ?_⟩
          rw [getField_setField_ne S.legacyF S.mapF _ h2]
          exact getField_dropField_self _ o
        | null | bool _ | num _ | str _ | arr _ => exact ⟨_, rfl, getField_dropField_self _ o⟩

/-! ### numbers in arrays -/

theorem readNats_natArr (l : List ℕ) : readNats (l.map fun (n : ℕ) => J.num (Int.ofNat n)) = some l := by
  induction l with
  | nil => rfl
  | cons n t ih =>
    simp only [List.map_cons, readNats, ih]
    simp

end CL.Wire
