import CLModel.Proofs.Primary
import CLModel.Props.C03
/-!
# Completeness of the predicate sub-protocol (helper lemmas + the theorem)

Additive proof instance (`addOps`): `pow g k = k • g`.  The loops of `calc_tne`,
`_init_ne_proof`, `_finalize_ne_proof` and `_verify_ne_predicate` are evaluated for ANY key
list with the maps given as functions (`Maps`), then specialised to `iterKeys`.
-/
namespace CL.Pri

variable {G : Type} [AddCommGroup G] [DecidableEq G] (enc : G → ByteArray)

theorem getOrPanic_of_maps {α : Type} {m : List (String × α)} {ks : List String} {f : String → α}
    (h : Maps m ks f) {k : String} (hk : k ∈ ks) : getOrPanic k m = .ok (f k) := by
  simp [getOrPanic, h k hk]

theorem tneTaus_value (pk : PubKey G) (u r : List (String × ℤ)) (uf rf : String → ℤ) :
    ∀ (ks : List String), Maps u ks uf → Maps r ks rf →
      tneTaus (addOps enc) pk u r ks = .ok (ks.map fun k => uf k • pk.z + rf k • pk.s) := by
  intro ks
  induction ks with
  | nil => intro _ _; simp [tneTaus]
  | cons k ks ih =>
    intro hu hr
    have h1 := getOrErr_of_maps hu (k := k) (by simp)
    have h2 := getOrErr_of_maps hr (k := k) (by simp)
    simp only [tneTaus, h1, h2, Outcome.bind_ok, addOps_pow, addOps_mul,
      ih (hu.mono (by simp +contextual)) (hr.mono (by simp +contextual)), Outcome.map_ok,
      List.map_cons]

theorem tneQ_value (t : List (String × G)) (u : List (String × ℤ)) (tf : String → G)
    (uf : String → ℤ) : ∀ (ks : List String) (q : G), Maps t ks tf → Maps u ks uf →
      tneQ (addOps enc) t u ks q = .ok (q + (ks.map fun k => uf k • tf k).sum) := by
  intro ks
  induction ks with
  | nil => intro q _ _; simp [tneQ]
  | cons k ks ih =>
    intro q ht hu
    have h1 := getOrErr_of_maps ht (k := k) (by simp)
    have h2 := getOrErr_of_maps hu (k := k) (by simp)
    simp only [tneQ, h1, h2, Outcome.bind_ok, addOps_pow, addOps_mul]
    rw [ih _ (ht.mono (by simp +contextual)) (hu.mono (by simp +contextual))]
    simp only [List.map_cons, List.sum_cons]
    congr 1; module

theorem neCommit_value (pk : PubKey G) (u r : List (String × ℤ)) (uf rf : String → ℤ) :
    ∀ (ks : List String), Maps u ks uf → Maps r ks rf →
      neCommit (addOps enc) pk u r ks = .ok (ks.map fun k => (k, uf k • pk.z + rf k • pk.s)) := by
  intro ks
  induction ks with
  | nil => intro _ _; simp [neCommit]
  | cons k ks ih =>
    intro hu hr
    have h1 := getOrErr_of_maps hu (k := k) (by simp)
    have h2 := getOrErr_of_maps hr (k := k) (by simp)
    simp only [neCommit, h1, h2, Outcome.bind_ok, addOps_pow, addOps_mul,
      ih (hu.mono (by simp +contextual)) (hr.mono (by simp +contextual)), Outcome.map_ok,
      List.map_cons]

theorem neAdjust_value (t : List (String × G)) (c : ℤ) (tf g : String → G) :
    ∀ (ks : List String), Maps t ks tf →
      neAdjust (addOps enc) t c ks (ks.map g) = .ok (ks.map fun k => -(c • tf k) + g k) := by
  intro ks
  induction ks with
  | nil => intro _; simp [neAdjust]
  | cons k ks ih =>
    intro ht
    have h1 := getOrErr_of_maps ht (k := k) (by simp)
    simp only [List.map_cons, neAdjust, h1, Outcome.bind_ok, addOps_pow, addOps_inv, addOps_mul,
      ih (ht.mono (by simp +contextual)), Outcome.map_ok]

theorem neResponses_value (c : ℤ) (init : NeInit G) (uf utf rf rtf : String → ℤ) :
    ∀ (ks : List String), Maps init.u ks uf → Maps init.uTilde ks utf → Maps init.r ks rf →
      Maps init.rTilde ks rtf →
      neResponses c init ks = .ok (ks.map (fun k => (k, c * uf k + utf k)),
        ks.map (fun k => (k, c * rf k + rtf k)), (ks.map fun k => uf k * rf k).sum) := by
  intro ks
  induction ks with
  | nil => intro _ _ _ _; simp [neResponses]
  | cons k ks ih =>
    intro hu hut hr hrt
    have h1 := getOrPanic_of_maps hu (k := k) (by simp)
    have h2 := getOrPanic_of_maps hut (k := k) (by simp)
    have h3 := getOrPanic_of_maps hr (k := k) (by simp)
    have h4 := getOrPanic_of_maps hrt (k := k) (by simp)
    simp only [neResponses, h1, h2, h3, h4, Outcome.bind_ok,
      ih (hu.mono (by simp +contextual)) (hut.mono (by simp +contextual))
        (hr.mono (by simp +contextual)) (hrt.mono (by simp +contextual)), Outcome.map_ok,
      List.map_cons, List.sum_cons]

theorem neResponses_value' (c : ℤ) (cl tl : List G) (u ut r rt : List (String × ℤ)) (a : ℤ)
    (pd : Pred) (t : List (String × G)) (uf utf rf rtf : String → ℤ) (ks : List String)
    (hu : Maps u ks uf) (hut : Maps ut ks utf) (hr : Maps r ks rf) (hrt : Maps rt ks rtf) :
    neResponses c (⟨cl, tl, u, ut, r, rt, a, pd, t⟩ : NeInit G) ks
      = .ok (ks.map (fun k => (k, c * uf k + utf k)),
        ks.map (fun k => (k, c * rf k + rtf k)), (ks.map fun k => uf k * rf k).sum) :=
  neResponses_value c ⟨cl, tl, u, ut, r, rt, a, pd, t⟩ uf utf rf rtf ks hu hut hr hrt

/-- `Σ (c·u_k + ũ_k) • (u_k•Z + r_k•S)` split into the challenge part and the mask part -/
theorem q_split (c : ℤ) (z s : G) (uf utf rf : String → ℤ) (ks : List String) :
    (ks.map fun k => (c * uf k + utf k) • (uf k • z + rf k • s)).sum
      = (c * (ks.map fun k => uf k ^ 2).sum) • z + (c * (ks.map fun k => uf k * rf k).sum) • s
        + (ks.map fun k => utf k • (uf k • z + rf k • s)).sum := by
  induction ks with
  | nil => simp
  | cons k ks ih => simp only [List.map_cons, List.sum_cons]; rw [ih]; module

theorem maps_append_left {α : Type} {m : List (String × α)} {ks ks' : List String} {f : String → α}
    (h : Maps m (ks ++ ks') f) : Maps m ks f := h.mono (by simp +contextual)

theorem zip_map_self {α : Type} (f : String → α) (ks : List String) :
    ks.zip (ks.map f) = ks.map fun k => (k, f k) := by
  induction ks with
  | nil => rfl
  | cons k ks ih => simp [ih]

theorem iterKeys_length' : iterKeys.length = Gen.ITERATION := by simp [iterKeys]

end CL.Pri

namespace CL.Pri

variable {G : Type} [AddCommGroup G] [DecidableEq G] (enc : G → ByteArray)

theorem lookup_append {α : Type} (k : String) : ∀ (l1 l2 : List (String × α)),
    lookup k (l1 ++ l2) = match lookup k l1 with
      | some v => some v
      | none => lookup k l2 := by
  intro l1
  induction l1 with
  | nil => intro l2; rfl
  | cons a l1 ih =>
    intro l2
    obtain ⟨k', v⟩ := a
    simp only [List.cons_append, lookup]
    split
    · rfl
    · exact ih l2

theorem lookup_map_self_none {α : Type} (f : String → α) : ∀ (ks : List String) (k : String),
    k ∉ ks → lookup k (ks.map fun k => (k, f k)) = none := by
  intro ks
  induction ks with
  | nil => intro k _; rfl
  | cons a as ih =>
    intro k hk
    simp only [List.mem_cons, not_or] at hk
    have : (k == a) = false := by simpa using hk.1
    simp only [List.map_cons, lookup, this, Bool.false_eq_true, if_false]
    exact ih k hk.2

theorem delta_not_iter : "DELTA" ∉ iterKeys := by decide

/-- the commitment map `T_0..T_3, T_Δ` as the prover builds it -/
theorem maps_t_iter {α : Type} (tf : String → α) (x : α) :
    Maps ((iterKeys.map fun k => (k, tf k)) ++ [("DELTA", x)]) iterKeys tf := by
  intro k hk
  rw [lookup_append, lookup_map_self tf iterKeys k hk]

theorem lookup_t_delta {α : Type} (tf : String → α) (x : α) :
    lookup "DELTA" ((iterKeys.map fun k => (k, tf k)) ++ [("DELTA", x)]) = some x := by
  rw [lookup_append, lookup_map_self_none tf iterKeys "DELTA" delta_not_iter]
  simp [lookup]

theorem take_map_append {α β : Type} (g : α → β) (ks : List α) (l : List β) (n : Nat)
    (h : ks.length = n) : ((ks.map g) ++ l).take n = ks.map g := by
  subst h; simp

theorem drop_map_append {α β : Type} (g : α → β) (ks : List α) (l : List β) (n : Nat)
    (h : ks.length = n) : ((ks.map g) ++ l).drop n = l := by
  subst h; simp

end CL.Pri

namespace CL.Pri

variable {G : Type} [AddCommGroup G] [DecidableEq G] (enc : G → ByteArray)

/-- **the predicate sub-protocol is complete**: for a true predicate over i32 values, the honest
prover's `_init_ne_proof` / `_finalize_ne_proof` succeed and the verifier's
`_verify_ne_predicate` recomputes exactly the prover's six τ values — for every key, every
attribute value and threshold in the i32 range, all four predicate types, every challenge and
all blinders (the two `DELTA` randomisers non-negative, as `bn_rand` returns them). -/
theorem ne_complete (m : OvfMode) (fourSq : ℤ → Outcome (List ℤ)) (pk : PubKey G) (p : Pred)
    (mTilde : List (String × ℤ)) (vals : Values) (tp : NeTape) (eq : EqProof G) (c av mt : ℤ)
    (uf rf utf rtf : String → ℤ)
    (hval : lookup p.attr vals = some av) (hav : C03.I32 av) (hpv : C03.I32 p.value)
    (hholds : p.holds av = true)
    (hfs : ∀ d, getDelta m p av = .ok d →
      fourSq d = .ok (iterKeys.map uf) ∧ (iterKeys.map fun k => uf k ^ 2).sum = d)
    (hmt : lookup p.attr mTilde = some mt)
    (heqm : lookup p.attr eq.m = some (c * av + mt))
    (hr : Maps tp.r (iterKeys ++ ["DELTA"]) rf) (hut : Maps tp.uTilde iterKeys utf)
    (hrt : Maps tp.rTilde (iterKeys ++ ["DELTA"]) rtf)
    (hnn : 0 ≤ rtf "DELTA" ∧ 0 ≤ c * rf "DELTA" + rtf "DELTA") :
    ∃ init prf, initNeProof (addOps enc) m fourSq pk mTilde vals p tp = .ok init ∧
      finalizeNeProof c init eq = .ok prf ∧
      verifyNePredicate (addOps enc) m pk prf c = .ok init.tauList ∧
      prf.mj = c * av + mt ∧ prf.pred = p := by
  obtain ⟨δ, δ', less, hδ, hδ', hless, hrel⟩ := C03.delta_prime_rel m p av hav hpv
  obtain ⟨δ₂, hδ₂, hnonneg, _⟩ := C03.delta_nonneg_iff m p av hav hpv
  have hδeq : δ₂ = δ := by rw [hδ] at hδ₂; cases hδ₂; rfl
  subst hδeq
  have hδ0 : ¬ δ₂ < 0 := by have := hnonneg.mpr hholds; omega
  obtain ⟨hfour, hsq⟩ := hfs δ₂ hδ
  -- maps
  have hvalE : getOrErr p.attr vals = .ok av := by simp [getOrErr, hval]
  have hmtE : getOrErr p.attr mTilde = .ok mt := by simp [getOrErr, hmt]
  have hrI : Maps tp.r iterKeys rf := maps_append_left hr
  have hrtI : Maps tp.rTilde iterKeys rtf := maps_append_left hrt
  have hrD : getOrErr "DELTA" tp.r = .ok (rf "DELTA") := getOrErr_of_maps hr (by simp)
  have hrtD : getOrErr "DELTA" tp.rTilde = .ok (rtf "DELTA") := getOrErr_of_maps hrt (by simp)
  have huM : Maps (iterKeys.zip (iterKeys.map uf)) iterKeys uf := by
    rw [zip_map_self]; exact maps_map_self uf iterKeys
  have htI : Maps ((iterKeys.map fun k => (k, uf k • pk.z + rf k • pk.s)) ++
      [("DELTA", δ₂ • pk.z + rf "DELTA" • pk.s)]) iterKeys (fun k => uf k • pk.z + rf k • pk.s) :=
    maps_t_iter (fun k => uf k • pk.z + rf k • pk.s) _
  have htDl : getOrErr "DELTA" ((iterKeys.map fun k => (k, uf k • pk.z + rf k • pk.s)) ++
      [("DELTA", δ₂ • pk.z + rf "DELTA" • pk.s)]) = .ok (δ₂ • pk.z + rf "DELTA" • pk.s) := by
    simp [getOrErr, lookup_t_delta (fun k => uf k • pk.z + rf k • pk.s)]
  have hinr : IntTy.i32.inRange av = true := by
    unfold C03.I32 at hav
    simp only [IntTy.inRange, Bool.and_eq_true, decide_eq_true_eq]
    exact ⟨by simpa using hav.1, by simpa using hav.2⟩
  have hnat : (↑(rtf "DELTA").natAbs : ℤ) = rtf "DELTA" := Int.natAbs_of_nonneg hnn.1
  -- the prover's first message
  have hinit : initNeProof (addOps enc) m fourSq pk mTilde vals p tp = .ok
      ⟨(iterKeys.map fun k => uf k • pk.z + rf k • pk.s) ++ [δ₂ • pk.z + rf "DELTA" • pk.s],
       (iterKeys.map fun k => utf k • pk.z + rtf k • pk.s) ++
         [mt • pk.z + (if less then -(rtf "DELTA") else rtf "DELTA") • pk.s,
          tp.alphaTilde • pk.s +
            (0 + (iterKeys.map fun k => utf k • (uf k • pk.z + rf k • pk.s)).sum)],
       iterKeys.zip (iterKeys.map uf), tp.uTilde, tp.r, tp.rTilde, tp.alphaTilde, p,
       (iterKeys.map fun k => (k, uf k • pk.z + rf k • pk.s)) ++
         [("DELTA", δ₂ • pk.z + rf "DELTA" • pk.s)]⟩ := by
    simp only [initNeProof, hvalE, hmtE, Outcome.bind_ok, hinr, if_true, hδ, hδ0, if_false,
      hfour, neCommit_value enc pk _ _ uf rf iterKeys huM hrI, hrD, addOps_pow,
      addOps_mul, hless, calcTne, tneTaus_value enc pk _ _ utf rtf iterKeys hut hrtI, hrtD,
      tneQ_value enc _ _ _ utf iterKeys _ htI hut, addOps_one, hnat, Outcome.map_ok,
      List.map_map, Function.comp_def]
  refine ⟨_, ⟨iterKeys.map (fun k => (k, c * uf k + utf k)),
      iterKeys.map (fun k => (k, c * rf k + rtf k)) ++ [("DELTA", c * rf "DELTA" + rtf "DELTA")],
      c * av + mt,
      (rf "DELTA" - (iterKeys.map fun k => uf k * rf k).sum) * c + tp.alphaTilde,
      (iterKeys.map fun k => (k, uf k • pk.z + rf k • pk.s)) ++
        [("DELTA", δ₂ • pk.z + rf "DELTA" • pk.s)], p⟩, hinit, ?_, ?_, rfl, rfl⟩
  · -- the responses
    have h1 : getOrPanic "DELTA" tp.rTilde = .ok (rtf "DELTA") := getOrPanic_of_maps hrt (by simp)
    have h2 : getOrPanic "DELTA" tp.r = .ok (rf "DELTA") := getOrPanic_of_maps hr (by simp)
    have h3 : getOrPanic p.attr eq.m = .ok (c * av + mt) := by simp [getOrPanic, heqm]
    simp only [finalizeNeProof, neResponses_value' c _ _ _ _ _ _ _ _ _ uf utf rf rtf iterKeys huM hut hrI hrtI,
      Outcome.bind_ok, h1, h2, h3, Outcome.map_ok]
  · -- the verifier's recomputation
    have huh : Maps (iterKeys.map fun k => (k, c * uf k + utf k)) iterKeys
        (fun k => c * uf k + utf k) := maps_map_self _ iterKeys
    have hrh : Maps ((iterKeys.map fun k => (k, c * rf k + rtf k)) ++
        [("DELTA", c * rf "DELTA" + rtf "DELTA")]) iterKeys (fun k => c * rf k + rtf k) :=
      maps_t_iter (fun k => c * rf k + rtf k) _
    have hrhD : getOrErr "DELTA" ((iterKeys.map fun k => (k, c * rf k + rtf k)) ++
        [("DELTA", c * rf "DELTA" + rtf "DELTA")]) = .ok (c * rf "DELTA" + rtf "DELTA") := by
      simp [getOrErr, lookup_t_delta (fun k => c * rf k + rtf k)]
    have hnat2 : (↑(c * rf "DELTA" + rtf "DELTA").natAbs : ℤ) = c * rf "DELTA" + rtf "DELTA" :=
      Int.natAbs_of_nonneg hnn.2
    simp only [verifyNePredicate, hless, Outcome.bind_ok, calcTne,
      tneTaus_value enc pk _ _ _ _ iterKeys huh hrh, hrhD, addOps_pow, addOps_mul,
      tneQ_value enc _ _ _ _ iterKeys _ htI huh, addOps_one, hnat2,
      take_map_append _ iterKeys _ Gen.ITERATION iterKeys_length',
      drop_map_append _ iterKeys _ Gen.ITERATION iterKeys_length',
      neAdjust_value enc _ c _ _ iterKeys htI, htDl, hδ', addOps_inv]
    have hfirst : (iterKeys.map fun k => -(c • (uf k • pk.z + rf k • pk.s)) +
        ((c * uf k + utf k) • pk.z + (c * rf k + rtf k) • pk.s))
        = iterKeys.map fun k => utf k • pk.z + rtf k • pk.s := by
      apply List.map_congr_left
      intro k _
      module
    rw [hfirst, q_split c pk.z pk.s uf utf rf iterKeys, hsq]
    cases less
    · -- GE / GT: δ = value − δ'
      simp only [Bool.false_eq_true, if_false, Outcome.bind_ok, Outcome.ok.injEq] at hrel ⊢
      congr 1
      have e1 : -(c • (δ' • pk.z + (δ₂ • pk.z + rf "DELTA" • pk.s))) +
          ((c * av + mt) • pk.z + (c * rf "DELTA" + rtf "DELTA") • pk.s)
          = mt • pk.z + rtf "DELTA" • pk.s := by
        rw [hrel]; module
      have e2 : -(c • (δ₂ • pk.z + rf "DELTA" • pk.s)) +
          (((rf "DELTA" - (List.map (fun k => uf k * rf k) iterKeys).sum) * c + tp.alphaTilde) • pk.s +
            (0 + ((c * δ₂) • pk.z + (c * (List.map (fun k => uf k * rf k) iterKeys).sum) • pk.s +
              (List.map (fun k => utf k • (uf k • pk.z + rf k • pk.s)) iterKeys).sum)))
          = tp.alphaTilde • pk.s +
            (0 + (List.map (fun k => utf k • (uf k • pk.z + rf k • pk.s)) iterKeys).sum) := by
        module
      rw [e1, e2]
    · -- LE / LT: δ = δ' − value, commitments inverted
      simp only [if_true, Outcome.bind_ok, Outcome.ok.injEq] at hrel ⊢
      congr 1
      have e1 : -(c • (δ' • pk.z + -(δ₂ • pk.z + rf "DELTA" • pk.s))) +
          ((c * av + mt) • pk.z + (-(c * rf "DELTA" + rtf "DELTA")) • pk.s)
          = mt • pk.z + (-rtf "DELTA") • pk.s := by
        rw [hrel]; module
      have e2 : -(c • (δ₂ • pk.z + rf "DELTA" • pk.s)) +
          (((rf "DELTA" - (List.map (fun k => uf k * rf k) iterKeys).sum) * c + tp.alphaTilde) • pk.s +
            (0 + ((c * δ₂) • pk.z + (c * (List.map (fun k => uf k * rf k) iterKeys).sum) • pk.s +
              (List.map (fun k => utf k • (uf k • pk.z + rf k • pk.s)) iterKeys).sum)))
          = tp.alphaTilde • pk.s +
            (0 + (List.map (fun k => utf k • (uf k • pk.z + rf k • pk.s)) iterKeys).sum) := by
        module
      rw [e1, e2]

end CL.Pri
