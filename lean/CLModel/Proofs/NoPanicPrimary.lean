import CLModel.Model.Primary
import CLModel.Model.Issuance
import CLModel.Props.C03
/-!
# Panic-freedom of the verifier and of the issuance checks (helper lemmas for C20, part 2)

`NP x` = "`x` is not `panic`".  A group-operations record never panics when its `pow` and
`inv` do not (`OpsNP`); true of the driver's `Int mod n` instance (they return `ok` or `err`).
-/
namespace CL.Pri

def NP {α : Type} (x : Outcome α) : Prop := x ≠ .panic

theorem NP_ok {α : Type} (a : α) : NP (Outcome.ok a) := by simp [NP]
theorem NP_err {α : Type} : NP (Outcome.err : Outcome α) := by simp [NP]

theorem NP_bind {α β : Type} {x : Outcome α} {f : α → Outcome β} (hx : NP x)
    (hf : ∀ a, NP (f a)) : NP (x.bind f) := by
  cases x with
  | ok a => exact hf a
  | err => exact NP_err
  | panic => exact absurd rfl hx

theorem NP_map {α β : Type} {x : Outcome α} {f : α → β} (hx : NP x) : NP (x.map f) := by
  cases x with
  | ok a => exact NP_ok _
  | err => exact NP_err
  | panic => exact absurd rfl hx

theorem NP_ite {α : Type} {c : Prop} [Decidable c] {x y : Outcome α} (hx : NP x) (hy : NP y) :
    NP (if c then x else y) := by split <;> assumption

theorem NP_getOrErr {α : Type} (k : String) (m : List (String × α)) : NP (getOrErr k m) := by
  unfold getOrErr; cases lookup k m <;> simp [NP]

variable {G : Type}

/-- the group operations never panic -/
structure OpsNP (o : GroupOps G) : Prop where
  pow : ∀ g k, NP (o.pow g k)
  inv : ∀ g, NP (o.inv g)

theorem mulPows_NP (o : GroupOps G) (ho : OpsNP o) (r : List (String × G)) (m : List (String × Int)) :
    ∀ (ks : List String) (acc : G), NP (mulPows o r m ks acc) := by
  intro ks
  induction ks with
  | nil => intro acc; exact NP_ok _
  | cons k ks ih =>
    intro acc
    unfold mulPows
    exact NP_bind (NP_getOrErr _ _) fun g => NP_bind (NP_getOrErr _ _) fun x =>
      NP_bind (ho.pow _ _) fun p => ih _

theorem calcTeq_NP (o : GroupOps G) (ho : OpsNP o) (pk : PubKey G) (a : G) (e v : Int)
    (m : List (String × Int)) (m2 : Int) (un : List String) : NP (calcTeq o pk a e v m m2 un) := by
  unfold calcTeq
  exact NP_bind (ho.pow _ _) fun _ => NP_bind (mulPows_NP o ho _ _ _ _) fun _ =>
    NP_bind (ho.pow _ _) fun _ => NP_bind (ho.pow _ _) fun _ => NP_ok _

theorem verifyEquality_NP (o : GroupOps G) (ho : OpsNP o) (pk : PubKey G) (p : EqProof G) (c : Int)
    (un : List String) : NP (verifyEquality o pk p c un) := by
  unfold verifyEquality verifyEqualityCore
  refine NP_ite NP_err ?_
  exact NP_bind (calcTeq_NP o ho _ _ _ _ _ _ _) fun _ => NP_bind (ho.pow _ _) fun _ =>
    NP_bind (mulPows_NP o ho _ _ _ _) fun _ => NP_bind (ho.inv _) fun _ =>
    NP_bind (ho.inv _) fun _ => NP_bind (ho.pow _ _) fun _ => NP_ok _

theorem tneTaus_NP_len (o : GroupOps G) (ho : OpsNP o) (pk : PubKey G) (u r : List (String × Int)) :
    ∀ (ks : List String), NP (tneTaus o pk u r ks) ∧
      ∀ l, tneTaus o pk u r ks = .ok l → l.length = ks.length := by
  intro ks
  induction ks with
  | nil => exact ⟨NP_ok _, fun l h => by simp [tneTaus] at h; subst h; rfl⟩
  | cons k ks ih =>
    constructor
    · unfold tneTaus
      exact NP_bind (NP_getOrErr _ _) fun _ => NP_bind (NP_getOrErr _ _) fun _ =>
        NP_bind (ho.pow _ _) fun _ => NP_bind (ho.pow _ _) fun _ => NP_map ih.1
    · intro l h
      unfold tneTaus at h
      cases h1 : getOrErr k u with
      | ok cu =>
        rw [h1] at h; simp only [Outcome.bind_ok] at h
        cases h2 : getOrErr k r with
        | ok cr =>
          rw [h2] at h; simp only [Outcome.bind_ok] at h
          cases h3 : o.pow pk.z cu with
          | ok zu =>
            rw [h3] at h; simp only [Outcome.bind_ok] at h
            cases h4 : o.pow pk.s cr with
            | ok sr =>
              rw [h4] at h; simp only [Outcome.bind_ok] at h
              cases h5 : tneTaus o pk u r ks with
              | ok rest =>
                rw [h5] at h; simp only [Outcome.map_ok, Outcome.ok.injEq] at h
                subst h
                simp [ih.2 rest h5]
              | err => rw [h5] at h; simp at h
              | panic => rw [h5] at h; simp at h
            | err => rw [h4] at h; simp at h
            | panic => rw [h4] at h; simp at h
          | err => rw [h3] at h; simp at h
          | panic => rw [h3] at h; simp at h
        | err => rw [h2] at h; simp at h
        | panic => rw [h2] at h; simp at h
      | err => rw [h1] at h; simp at h
      | panic => rw [h1] at h; simp at h

theorem tneQ_NP (o : GroupOps G) (ho : OpsNP o) (t : List (String × G)) (u : List (String × Int)) :
    ∀ (ks : List String) (q : G), NP (tneQ o t u ks q) := by
  intro ks
  induction ks with
  | nil => intro q; exact NP_ok _
  | cons k ks ih =>
    intro q
    unfold tneQ
    exact NP_bind (NP_getOrErr _ _) fun _ => NP_bind (NP_getOrErr _ _) fun _ =>
      NP_bind (ho.pow _ _) fun _ => ih _

/-- `calc_tne` never panics and returns `ITERATION + 2` values -/
theorem calcTne_NP_len (o : GroupOps G) (ho : OpsNP o) (pk : PubKey G) (u r : List (String × Int))
    (mj alpha : Int) (t : List (String × G)) (less : Bool) :
    NP (calcTne o pk u r mj alpha t less) ∧
      ∀ l, calcTne o pk u r mj alpha t less = .ok l → l.length = iterKeys.length + 2 := by
  have hT := tneTaus_NP_len o ho pk u r iterKeys
  constructor
  · unfold calcTne
    exact NP_bind hT.1 fun _ => NP_bind (NP_getOrErr _ _) fun _ => NP_bind (ho.pow _ _) fun _ =>
      NP_bind (ho.pow _ _) fun _ => NP_bind (tneQ_NP o ho _ _ _ _) fun _ =>
      NP_bind (ho.pow _ _) fun _ => NP_ok _
  · intro l h
    unfold calcTne at h
    cases h1 : tneTaus o pk u r iterKeys with
    | ok taus =>
      rw [h1] at h; simp only [Outcome.bind_ok] at h
      cases h2 : getOrErr "DELTA" r with
      | ok d =>
        rw [h2] at h; simp only [Outcome.bind_ok] at h
        cases h3 : o.pow pk.z mj with
        | ok zm =>
          rw [h3] at h; simp only [Outcome.bind_ok] at h
          cases h4 : o.pow pk.s (if less = true then -(↑d.natAbs : Int) else d) with
          | ok sd =>
            rw [h4] at h; simp only [Outcome.bind_ok] at h
            cases h5 : tneQ o t u iterKeys o.one with
            | ok q =>
              rw [h5] at h; simp only [Outcome.bind_ok] at h
              cases h6 : o.pow pk.s alpha with
              | ok sa =>
                rw [h6] at h; simp only [Outcome.bind_ok, Outcome.ok.injEq] at h
                subst h
                simp [hT.2 taus h1]
              | err => rw [h6] at h; simp at h
              | panic => rw [h6] at h; simp at h
            | err => rw [h5] at h; simp at h
            | panic => rw [h5] at h; simp at h
          | err => rw [h4] at h; simp at h
          | panic => rw [h4] at h; simp at h
        | err => rw [h3] at h; simp at h
        | panic => rw [h3] at h; simp at h
      | err => rw [h2] at h; simp at h
      | panic => rw [h2] at h; simp at h
    | err => rw [h1] at h; simp at h
    | panic => rw [h1] at h; simp at h

theorem neAdjust_NP (o : GroupOps G) (ho : OpsNP o) (t : List (String × G)) (c : Int) :
    ∀ (ks : List String) (taus : List G), ks.length ≤ taus.length → NP (neAdjust o t c ks taus) := by
  intro ks
  induction ks with
  | nil => intro taus _; exact NP_ok _
  | cons k ks ih =>
    intro taus hl
    cases taus with
    | nil => simp at hl
    | cons tau taus =>
      unfold neAdjust
      exact NP_bind (NP_getOrErr _ _) fun _ => NP_bind (ho.pow _ _) fun _ =>
        NP_bind (ho.inv _) fun _ => NP_map (ih taus (by simpa using hl))

theorem iterKeys_length : iterKeys.length = Gen.ITERATION := by simp [iterKeys]

/-- `_verify_ne_predicate` never panics when the predicate's threshold is an i32 -/
theorem verifyNePredicate_NP (o : GroupOps G) (ho : OpsNP o) (m : OvfMode) (pk : PubKey G)
    (p : NeProof G) (c : Int) (hv : C03.I32 p.pred.value) : NP (verifyNePredicate o m pk p c) := by
  unfold verifyNePredicate
  have hless : NP (isLess p.pred) := by rw [C03.is_less_spec]; exact NP_ok _
  refine NP_bind hless fun less => ?_
  have hc := calcTne_NP_len o ho pk p.u p.r p.mj p.alpha p.t less
  cases hcalc : calcTne o pk p.u p.r p.mj p.alpha p.t less with
  | ok tl =>
    have hlen := hc.2 tl hcalc
    rw [iterKeys_length] at hlen
    simp only [Outcome.bind_ok]
    refine NP_bind (neAdjust_NP o ho _ _ _ _ (by simp [iterKeys_length, hlen])) fun _ => ?_
    refine NP_bind (NP_getOrErr _ _) fun _ => ?_
    refine NP_bind (NP_ite (ho.inv _) (NP_ok _)) fun _ => ?_
    refine NP_bind (by rw [C03.delta_prime_value m p.pred hv]; exact NP_ok _) fun _ => ?_
    refine NP_bind (ho.pow _ _) fun _ => NP_bind (ho.pow _ _) fun _ => NP_bind (ho.inv _) fun _ =>
      NP_bind (ho.pow _ _) fun _ => NP_bind (ho.inv _) fun _ => ?_
    -- exactly two values are left after the first ITERATION
    have hd : (tl.drop Gen.ITERATION).length = 2 := by simp [hlen]
    match hdrop : tl.drop Gen.ITERATION, hd with
    | [a, b], _ => exact NP_ok _
  | err => simp only [Outcome.bind_err]; exact NP_err
  | panic => exact absurd hcalc hc.1

theorem verifyNeAll_NP (o : GroupOps G) (ho : OpsNP o) (m : OvfMode) (pk : PubKey G) (c : Int)
    (eqM : List (String × Int)) : ∀ (ps : List (NeProof G)), (∀ p ∈ ps, C03.I32 p.pred.value) →
      NP (verifyNeAll o m pk c eqM ps) := by
  intro ps
  induction ps with
  | nil => intro _; exact NP_ok _
  | cons p ps ih =>
    intro h
    unfold verifyNeAll
    refine NP_bind (NP_getOrErr _ _) fun _ => NP_ite NP_err ?_
    exact NP_bind (verifyNePredicate_NP o ho m pk p c (h p (by simp))) fun _ =>
      NP_map (ih fun q hq => h q (by simp [hq]))

theorem verifyPrimaryProof_NP (o : GroupOps G) (ho : OpsNP o) (m : OvfMode) (pk : PubKey G)
    (eq : EqProof G) (ne : List (NeProof G)) (c : Int) (un : List String)
    (h : ∀ p ∈ ne, C03.I32 p.pred.value) : NP (verifyPrimaryProof o m pk eq ne c un) := by
  unfold verifyPrimaryProof
  exact NP_bind (verifyEquality_NP o ho pk eq c un) fun _ =>
    NP_ite NP_err (NP_map (verifyNeAll_NP o ho m pk c _ ne h))

theorem commonPass_NP (common : List String) (eq : EqProof G) :
    ∀ (as : List String) (seen : List (String × Int)), NP (commonPass common eq seen as) := by
  intro as
  induction as with
  | nil => intro seen; exact NP_ok _
  | cons a as ih =>
    intro seen
    unfold commonPass
    cases lookup a eq.m with
    | none => exact NP_err
    | some mhat =>
      simp only
      cases lookup a seen with
      | some v => simp only; exact NP_ite (ih _) NP_err
      | none => exact ih _

/-- a well-typed sub-proof: predicate thresholds are i32, its non-revocation values (computed by
    the pairing side, which cannot panic either) are not `panic` -/
def SubProofOk (sp : SubProof G) : Prop := (∀ p ∈ sp.ne, C03.I32 p.pred.value) ∧ NP sp.nrTaus

theorem verifyLoop_NP (m : OvfMode) (common : List String) (c : Int) :
    ∀ (sps : List (SubProof G)) (vcs : List (VerCred G)) (seen : List (String × Int)),
      sps.length = vcs.length → (∀ sp ∈ sps, SubProofOk sp) → (∀ vc ∈ vcs, OpsNP vc.o) →
      NP (verifyLoop m common c sps vcs seen) := by
  intro sps
  induction sps with
  | nil => intro vcs seen _ _ _; unfold verifyLoop; exact NP_ok _
  | cons sp sps ih =>
    intro vcs seen hl hs hv
    cases vcs with
    | nil => simp at hl
    | cons vc vcs =>
      rw [verifyLoop]
      refine NP_ite NP_err ?_
      have hsp := hs sp (by simp)
      refine NP_bind (NP_ite hsp.2 (NP_ok _)) fun _ => ?_
      refine NP_ite NP_err ?_
      refine NP_bind (commonPass_NP common sp.eq common seen) fun seen' => ?_
      refine NP_bind (verifyPrimaryProof_NP vc.o (hv vc (by simp)) m vc.pk sp.eq sp.ne c _ hsp.1) fun _ => ?_
      exact NP_map (ih vcs seen' (by simpa using hl) (fun x hx => hs x (by simp [hx]))
        (fun x hx => hv x (by simp [hx])))

end CL.Pri

namespace CL.Pri
variable {G : Type}

theorem verifyTranscript_NP (m : OvfMode) (common : List String) (creds : List (VerCred G))
    (p : Proof G) (nonce : ByteArray) (hs : ∀ sp ∈ p.proofs, SubProofOk sp)
    (hv : ∀ vc ∈ creds, OpsNP vc.o) : NP (verifyTranscript m common creds p nonce) := by
  unfold verifyTranscript
  split
  · exact NP_err
  · rename_i hl
    refine NP_ite NP_err (NP_map (verifyLoop_NP m common p.cHash p.proofs creds [] ?_ hs hv))
    simpa using hl

theorem verify_NP (H : List ByteArray → Int) (m : OvfMode) (common : List String)
    (creds : List (VerCred G)) (p : Proof G) (nonce : ByteArray)
    (hs : ∀ sp ∈ p.proofs, SubProofOk sp) (hv : ∀ vc ∈ creds, OpsNP vc.o) :
    NP (verify H m common creds p nonce) := by
  unfold verify
  refine NP_bind (verifyTranscript_NP m common creds p nonce hs hv) fun items => ?_
  cases allBytes items with
  | some bs => exact NP_ok _
  | none => exact NP_err

end CL.Pri

namespace CL.Iss
open CL.Pri
variable {G : Type}

theorem hiddenFold_NP (o : GroupOps G) (ho : OpsNP o) (pk : PubKey G) (mc : List (String × Int)) :
    ∀ (as : List String) (acc : G), NP (hiddenFold o pk mc as acc) := by
  intro as
  induction as with
  | nil => intro acc; exact NP_ok _
  | cons a as ih =>
    intro acc
    unfold hiddenFold
    exact NP_bind (NP_getOrErr _ _) fun _ => NP_bind (NP_getOrErr _ _) fun _ =>
      NP_bind (ho.pow _ _) fun _ => ih _

theorem committedLoop_NP (o : GroupOps G) (ho : OpsNP o) (pk : PubKey G) (p : BlindedProof) :
    ∀ (cs : List (String × G)), NP (committedLoop o pk p cs) := by
  intro cs
  induction cs with
  | nil => exact NP_ok _
  | cons kv rest ih =>
    obtain ⟨k, value⟩ := kv
    unfold committedLoop
    exact NP_bind (NP_getOrErr _ _) fun _ => NP_bind (NP_getOrErr _ _) fun _ =>
      NP_bind (ho.inv _) fun _ => NP_bind (ho.pow _ _) fun _ => NP_bind (ho.pow _ _) fun _ =>
      NP_bind (ho.pow _ _) fun _ => NP_map ih

/-- the issuer's check of a blinded-secrets proof never panics, whatever the holder sends
    (`m_caps`/`r_caps` lacking an entry is the repaired `ok_or_else` path) -/
theorem checkBlinded_NP (o : GroupOps G) (ho : OpsNP o) (H : List ByteArray → Int) (pk : PubKey G)
    (b : Blinded G) (p : BlindedProof) (nonce : ByteArray) : NP (checkBlinded o H pk b p nonce) := by
  unfold checkBlinded
  exact NP_bind (ho.inv _) fun _ => NP_bind (ho.pow _ _) fun _ => NP_bind (ho.pow _ _) fun _ =>
    NP_bind (hiddenFold_NP o ho pk _ _ _) fun _ => NP_bind (committedLoop_NP o ho pk p _) fun _ =>
    NP_ok _

theorem keyProofLoop_NP (o : GroupOps G) (ho : OpsNP o) (pk : PubKey G) (c : Int) :
    ∀ (xs : List (String × Int)), (∀ k ∈ keys xs, (lookup k pk.r).isSome) →
      NP (keyProofLoop o pk c xs) := by
  intro xs
  induction xs with
  | nil => intro _; exact NP_ok _
  | cons kv rest ih =>
    obtain ⟨k, xr⟩ := kv
    intro h
    unfold keyProofLoop
    have hk : (lookup k pk.r).isSome := h k (by simp [keys])
    have hget : NP (getOrPanic k pk.r) := by
      unfold getOrPanic
      cases hl : lookup k pk.r with
      | some v => exact NP_ok _
      | none => rw [hl] at hk; simp at hk
    exact NP_bind hget fun _ => NP_bind (ho.inv _) fun _ => NP_bind (ho.pow _ _) fun _ =>
      NP_bind (ho.pow _ _) fun _ => NP_map (ih fun k' hk' => h k' (by
        simp only [keys, List.map_cons, List.mem_cons] at hk' ⊢; exact Or.inr hk'))

/-- the holder's check of the key-correctness proof never panics: the indexing `r[key]` is
    reached only after every name of `xr_cap` was found in the key -/
theorem checkKeyProof_NP (o : GroupOps G) (ho : OpsNP o) (H : List ByteArray → Int) (pk : PubKey G)
    (p : KeyProof) : NP (checkKeyProof o H pk p) := by
  unfold checkKeyProof
  refine NP_ite NP_err ?_
  split
  · exact NP_err
  · rename_i hnames
    have hall : ∀ k ∈ keys p.xrCap, (lookup k pk.r).isSome := by
      intro k hk
      simp only [List.any_eq_true, not_exists, not_and] at hnames
      have := hnames k hk
      cases hl : lookup k pk.r with
      | some v => simp
      | none => rw [hl] at this; simp at this
    refine NP_bind (ho.inv _) fun _ => NP_bind (ho.inv _) fun _ => NP_bind (ho.pow _ _) fun _ =>
      NP_bind (ho.pow _ _) fun _ => NP_bind (keyProofLoop_NP o ho pk p.c p.xrCap hall) fun rc => ?_
    obtain ⟨rs, caps⟩ := rc
    exact NP_ite (NP_ok _) NP_err

/-- the holder's check of the signature-correctness proof never panics -/
theorem checkSignatureCorrectness_NP (o : GroupOps G) (ho : OpsNP o) (H : List ByteArray → Int)
    (isPrime : Int → Bool) (pk : PubKey G) (sig : Signature G) (vals : KValues) (se c : Int)
    (nonce : ByteArray) : NP (checkSignatureCorrectness o H isPrime pk sig vals se c nonce) := by
  unfold checkSignatureCorrectness
  refine NP_ite NP_err (NP_ite NP_err (NP_ite NP_err (NP_ite NP_err ?_)))
  exact NP_bind (ho.pow _ _) fun _ => NP_bind (ho.pow _ _) fun _ =>
    NP_bind (mulPows_NP o ho _ _ _ _) fun _ => NP_bind (ho.inv _) fun _ =>
    NP_bind (ho.pow _ _) fun _ => NP_ite NP_err (NP_bind (ho.pow _ _) fun _ => NP_ite (NP_ok _) NP_err)

end CL.Iss
