import CLModel.Model.FourSq
import Mathlib.NumberTheory.SumFourSquares
import Mathlib.Tactic.Ring
import Mathlib.Tactic.Linarith
import Mathlib.Tactic.IntervalCases
/-!
# Helper lemmas for C19, `four_squares`

1. Under `Fits um d` (`d` is representable in the `usize` mode `um`) and the loop invariants
   `i² + j² + k² ≤ d`, every `pow(2)`, `+`, `-` of the model evaluates to the exact natural
   number: no overflow, no underflow.  Hence the three loops equal *pure* searches `pK pJ pI`.
2. The pure search is sound (a `break` only happens on a decomposition) and complete (a
   decomposition with zeros last lies in the search space; the search is descending and
   stops at the first hit), the latter from Lagrange's theorem `Nat.sum_four_squares`.
-/
namespace CL.FourSq

/-! ## arithmetic that fits -/

/-- `v` is representable in the `usize` of mode `um` -/
def Fits : UMode → ℕ → Prop
  | .ideal, _ => True
  | .u64 _, v => v < two64

theorem Fits.mono {um : UMode} {v w : ℕ} (h : Fits um v) (hw : w ≤ v) : Fits um w := by
  cases um with
  | ideal => trivial
  | u64 m => exact lt_of_le_of_lt hw h

theorem fitU_of_fits {um : UMode} {v : ℕ} (h : Fits um v) : fitU um v = .ok v := by
  cases um with
  | ideal => rfl
  | u64 m =>
    cases m with
    | checked =>
      have h' : v < two64 := h
      simp only [fitU]; rw [if_pos h']
    | wrapping =>
      have h' : v < two64 := h
      simp only [fitU]; rw [Nat.mod_eq_of_lt h']

theorem usub_of_le (um : UMode) {a b : ℕ} (h : b ≤ a) : usub um a b = .ok (a - b) := by
  unfold usub; rw [if_pos h]

theorem sq_ok {um : UMode} {d x : ℕ} (hd : Fits um d) (h : x * x ≤ d) : sq um x = .ok (x * x) :=
  fitU_of_fits (hd.mono h)

theorem uadd_ok {um : UMode} {d a b : ℕ} (hd : Fits um d) (h : a + b ≤ d) :
    uadd um a b = .ok (a + b) :=
  fitU_of_fits (hd.mono h)

theorem sum2_ok {um : UMode} {d i j : ℕ} (hd : Fits um d) (h : i * i + j * j ≤ d) :
    sum2 um i j = .ok (i * i + j * j) := by
  unfold sum2
  rw [sq_ok hd (by omega : i * i ≤ d), Outcome.bind_ok, sq_ok hd (by omega : j * j ≤ d),
    Outcome.bind_ok, uadd_ok hd h]

theorem sum3_ok {um : UMode} {d i j k : ℕ} (hd : Fits um d) (h : i * i + j * j + k * k ≤ d) :
    sum3 um i j k = .ok (i * i + j * j + k * k) := by
  unfold sum3
  rw [sum2_ok hd (by omega : i * i + j * j ≤ d), Outcome.bind_ok,
    sq_ok hd (by omega : k * k ≤ d), Outcome.bind_ok, uadd_ok hd h]

theorem sum4_ok {um : UMode} {d i j k l : ℕ} (hd : Fits um d)
    (h : i * i + j * j + k * k + l * l ≤ d) :
    sum4 um i j k l = .ok (i * i + j * j + k * k + l * l) := by
  unfold sum4
  rw [sum3_ok hd (by omega : i * i + j * j + k * k ≤ d), Outcome.bind_ok,
    sq_ok hd (by omega : l * l ≤ d), Outcome.bind_ok, uadd_ok hd h]

theorem rem1_ok {um : UMode} {d i : ℕ} (hd : Fits um d) (h : i * i ≤ d) :
    rem1 um d i = .ok (d - i * i) := by
  unfold rem1
  rw [sq_ok hd h, Outcome.bind_ok, usub_of_le um h]

theorem rem2_ok {um : UMode} {d i j : ℕ} (hd : Fits um d) (h : i * i + j * j ≤ d) :
    rem2 um d i j = .ok (d - i * i - j * j) := by
  unfold rem2
  rw [rem1_ok hd (by omega : i * i ≤ d), Outcome.bind_ok, sq_ok hd (by omega : j * j ≤ d),
    Outcome.bind_ok, usub_of_le um (by omega)]

theorem rem3_ok {um : UMode} {d i j k : ℕ} (hd : Fits um d) (h : i * i + j * j + k * k ≤ d) :
    rem3 um d i j k = .ok (d - i * i - j * j - k * k) := by
  unfold rem3
  rw [rem2_ok hd (by omega : i * i + j * j ≤ d), Outcome.bind_ok,
    sq_ok hd (by omega : k * k ≤ d), Outcome.bind_ok, usub_of_le um (by omega)]

theorem sqrt_sq_le (m : ℕ) : Nat.sqrt m * Nat.sqrt m ≤ m := Nat.sqrt_le m

/-! ## the pure searches -/

/-- innermost loop without `usize` effects -/
def pK (d i j : ℕ) : ℕ → ℕ → ℕ → KState
  | 0, r2, r3 => (false, r2, r3)
  | k + 1, _, _ =>
    if d = i * i + j * j + (k + 1) * (k + 1) then (true, k + 1, 0) else
    if d = i * i + j * j + (k + 1) * (k + 1)
          + Nat.sqrt (d - i * i - j * j - (k + 1) * (k + 1)) * Nat.sqrt (d - i * i - j * j - (k + 1) * (k + 1))
    then (true, k + 1, Nat.sqrt (d - i * i - j * j - (k + 1) * (k + 1)))
    else pK d i j k (k + 1) (Nat.sqrt (d - i * i - j * j - (k + 1) * (k + 1)))

def pJ (d i : ℕ) : ℕ → ℕ → ℕ → ℕ → JState
  | 0, r1, r2, r3 => (false, r1, r2, r3)
  | j + 1, _, _, r3 =>
    if d = i * i + (j + 1) * (j + 1) then (true, j + 1, 0, 0) else
    if (pK d i (j + 1) (Nat.sqrt (d - i * i - (j + 1) * (j + 1)))
          (Nat.sqrt (d - i * i - (j + 1) * (j + 1))) r3).1
    then (true, j + 1,
          (pK d i (j + 1) (Nat.sqrt (d - i * i - (j + 1) * (j + 1)))
            (Nat.sqrt (d - i * i - (j + 1) * (j + 1))) r3).2)
    else pJ d i j (j + 1)
          (pK d i (j + 1) (Nat.sqrt (d - i * i - (j + 1) * (j + 1)))
            (Nat.sqrt (d - i * i - (j + 1) * (j + 1))) r3).2.1
          (pK d i (j + 1) (Nat.sqrt (d - i * i - (j + 1) * (j + 1)))
            (Nat.sqrt (d - i * i - (j + 1) * (j + 1))) r3).2.2

def pI (d : ℕ) : ℕ → ℕ → ℕ → ℕ → ℕ → IState
  | 0, r0, r1, r2, r3 => (false, r0, r1, r2, r3)
  | i + 1, _, r1, r2, r3 =>
    if d = (i + 1) * (i + 1) then (true, i + 1, 0, 0, 0) else
    if isSum3 (d - (i + 1) * (i + 1)) = false then pI d i (i + 1) r1 r2 r3 else
    if (pJ d (i + 1) (Nat.sqrt (d - (i + 1) * (i + 1))) (Nat.sqrt (d - (i + 1) * (i + 1))) r2 r3).1
    then (true, i + 1,
          (pJ d (i + 1) (Nat.sqrt (d - (i + 1) * (i + 1))) (Nat.sqrt (d - (i + 1) * (i + 1))) r2 r3).2)
    else pI d i (i + 1)
          (pJ d (i + 1) (Nat.sqrt (d - (i + 1) * (i + 1))) (Nat.sqrt (d - (i + 1) * (i + 1))) r2 r3).2.1
          (pJ d (i + 1) (Nat.sqrt (d - (i + 1) * (i + 1))) (Nat.sqrt (d - (i + 1) * (i + 1))) r2 r3).2.2.1
          (pJ d (i + 1) (Nat.sqrt (d - (i + 1) * (i + 1))) (Nat.sqrt (d - (i + 1) * (i + 1))) r2 r3).2.2.2

theorem afterK_eq (j : ℕ) (next : ℕ → ℕ → Outcome JState) (st : KState) :
    afterK j next st = if st.1 then .ok (true, j, st.2) else next st.2.1 st.2.2 := by
  obtain ⟨b, r2, r3⟩ := st
  cases b <;> rfl

theorem afterJ_eq (i : ℕ) (next : ℕ → ℕ → ℕ → Outcome IState) (st : JState) :
    afterJ i next st = if st.1 then .ok (true, i, st.2) else next st.2.1 st.2.2.1 st.2.2.2 := by
  obtain ⟨b, r1, r2, r3⟩ := st
  cases b <;> rfl

theorem beq_nat_eq_decide (a b : ℕ) : (a == b) = decide (a = b) := by
  by_cases h : a = b <;> simp [h]

/-- the innermost loop of the model is the pure search: nothing overflows, nothing underflows -/
theorem loopK_eq {um : UMode} {d i j : ℕ} (hd : Fits um d) :
    ∀ (n r2 r3 : ℕ), i * i + j * j + n * n ≤ d →
      loopK um d i j n r2 r3 = .ok (pK d i j n r2 r3) := by
  intro n
  induction n with
  | zero => intro r2 r3 _; rfl
  | succ k ih =>
    intro r2 r3 h
    have hsq : Nat.sqrt (d - i * i - j * j - (k + 1) * (k + 1)) * Nat.sqrt (d - i * i - j * j - (k + 1) * (k + 1))
        ≤ d - i * i - j * j - (k + 1) * (k + 1) := Nat.sqrt_le _
    have hk : i * i + j * j + k * k ≤ d := by nlinarith
    unfold loopK pK
    rw [sum3_ok hd h, Outcome.bind_ok, beq_nat_eq_decide]
    by_cases h1 : d = i * i + j * j + (k + 1) * (k + 1)
    · rw [if_pos h1]; simp only [h1, decide_true, if_true]
    · rw [if_neg h1]
      simp only [h1, decide_false, Bool.false_eq_true, if_false]
      rw [rem3_ok hd h, Outcome.bind_ok]
      simp only [lslt]
      rw [sum4_ok hd (by omega), Outcome.bind_ok, beq_nat_eq_decide]
      by_cases h2 : d = i * i + j * j + (k + 1) * (k + 1)
            + Nat.sqrt (d - i * i - j * j - (k + 1) * (k + 1)) * Nat.sqrt (d - i * i - j * j - (k + 1) * (k + 1))
      · rw [if_pos h2]; simp only [← h2, decide_true, if_true]
      · rw [if_neg h2]
        simp only [h2, decide_false, Bool.false_eq_true, if_false]
        exact ih _ _ hk

theorem loopJ_eq {um : UMode} {d i : ℕ} (hd : Fits um d) :
    ∀ (n r1 r2 r3 : ℕ), i * i + n * n ≤ d →
      loopJ um d i n r1 r2 r3 = .ok (pJ d i n r1 r2 r3) := by
  intro n
  induction n with
  | zero => intro r1 r2 r3 _; rfl
  | succ j ih =>
    intro r1 r2 r3 h
    have hsq : Nat.sqrt (d - i * i - (j + 1) * (j + 1)) * Nat.sqrt (d - i * i - (j + 1) * (j + 1))
        ≤ d - i * i - (j + 1) * (j + 1) := Nat.sqrt_le _
    have hj : i * i + j * j ≤ d := by nlinarith
    unfold loopJ pJ
    rw [sum2_ok hd h, Outcome.bind_ok, beq_nat_eq_decide]
    by_cases h1 : d = i * i + (j + 1) * (j + 1)
    · rw [if_pos h1]; simp only [h1, decide_true, if_true]
    · rw [if_neg h1]
      simp only [h1, decide_false, Bool.false_eq_true, if_false]
      rw [rem2_ok hd h, Outcome.bind_ok]
      simp only [lslt]
      rw [loopK_eq hd _ _ _ (by omega), Outcome.bind_ok, afterK_eq]
      split
      · rfl
      · exact ih _ _ _ hj

theorem loopI_eq {um : UMode} {d : ℕ} (hd : Fits um d) :
    ∀ (n r0 r1 r2 r3 : ℕ), n * n ≤ d →
      loopI um d n r0 r1 r2 r3 = .ok (pI d n r0 r1 r2 r3) := by
  intro n
  induction n with
  | zero => intro r0 r1 r2 r3 _; rfl
  | succ i ih =>
    intro r0 r1 r2 r3 h
    have hsq : Nat.sqrt (d - (i + 1) * (i + 1)) * Nat.sqrt (d - (i + 1) * (i + 1))
        ≤ d - (i + 1) * (i + 1) := Nat.sqrt_le _
    have hi : i * i ≤ d := by nlinarith
    unfold loopI pI
    rw [sq_ok hd h, Outcome.bind_ok, beq_nat_eq_decide]
    by_cases h1 : d = (i + 1) * (i + 1)
    · rw [if_pos h1]; simp only [h1, decide_true, if_true]
    · rw [if_neg h1]
      simp only [h1, decide_false, Bool.false_eq_true, if_false]
      rw [rem1_ok hd h, Outcome.bind_ok]
      cases hs : isSum3 (d - (i + 1) * (i + 1)) with
      | false =>
        simp only [Bool.not_false, if_true]
        exact ih _ _ _ _ hi
      | true =>
        simp only [Bool.not_true, Bool.false_eq_true, if_false]
        rw [Outcome.bind_ok]
        simp only [lslt]
        rw [loopJ_eq hd _ _ _ _ (by omega), Outcome.bind_ok, afterJ_eq]
        split
        · rfl
        · exact ih _ _ _ _ hi

/-! ## soundness of the pure search -/

theorem pK_sound {d i j : ℕ} : ∀ (n r2 r3 k l : ℕ), pK d i j n r2 r3 = (true, k, l) →
    d = i * i + j * j + k * k + l * l := by
  intro n
  induction n with
  | zero => intro r2 r3 k l h; simp [pK] at h
  | succ n ih =>
    intro r2 r3 k l h
    unfold pK at h
    split at h
    · rename_i h1
      simp only [Prod.mk.injEq, true_and] at h
      obtain ⟨rfl, rfl⟩ := h
      simpa using h1
    · split at h
      · rename_i h2
        simp only [Prod.mk.injEq, true_and] at h
        obtain ⟨rfl, rfl⟩ := h
        exact h2
      · exact ih _ _ _ _ h

theorem pJ_sound {d i : ℕ} : ∀ (n r1 r2 r3 j k l : ℕ), pJ d i n r1 r2 r3 = (true, j, k, l) →
    d = i * i + j * j + k * k + l * l := by
  intro n
  induction n with
  | zero => intro r1 r2 r3 j k l h; simp [pJ] at h
  | succ n ih =>
    intro r1 r2 r3 j k l h
    unfold pJ at h
    split at h
    · rename_i h1
      simp only [Prod.mk.injEq, true_and] at h
      obtain ⟨rfl, rfl, rfl⟩ := h
      simpa using h1
    · split at h
      · rename_i hb
        simp only [Prod.mk.injEq, true_and] at h
        obtain ⟨rfl, h23⟩ := h
        apply pK_sound (Nat.sqrt (d - i * i - (n + 1) * (n + 1))) (Nat.sqrt (d - i * i - (n + 1) * (n + 1))) r3 k l
        apply Prod.ext
        · exact hb
        · exact h23
      · exact ih _ _ _ _ _ _ h

theorem pI_sound {d : ℕ} : ∀ (n r0 r1 r2 r3 i j k l : ℕ), pI d n r0 r1 r2 r3 = (true, i, j, k, l) →
    d = i * i + j * j + k * k + l * l := by
  intro n
  induction n with
  | zero => intro r0 r1 r2 r3 i j k l h; simp [pI] at h
  | succ n ih =>
    intro r0 r1 r2 r3 i j k l h
    unfold pI at h
    split at h
    · rename_i h1
      simp only [Prod.mk.injEq, true_and] at h
      obtain ⟨rfl, rfl, rfl, rfl⟩ := h
      simpa using h1
    · split at h
      · exact ih _ _ _ _ _ _ _ _ h
      · split at h
        · rename_i hb
          simp only [Prod.mk.injEq, true_and] at h
          obtain ⟨rfl, h234⟩ := h
          apply pJ_sound (Nat.sqrt (d - (n + 1) * (n + 1))) (Nat.sqrt (d - (n + 1) * (n + 1))) r2 r3 j k l
          apply Prod.ext
          · exact hb
          · exact h234
        · exact ih _ _ _ _ _ _ _ _ h

/-! ## completeness of the pure search -/

theorem le_sqrt_of_sq_le {x m : ℕ} (h : x * x ≤ m) : x ≤ Nat.sqrt m := Nat.le_sqrt.mpr h

/-- a representation `d = i² + j² + c² + e²` with `1 ≤ c ≤ n` is found by the innermost loop -/
theorem pK_complete {d i j c e : ℕ} (hc : 1 ≤ c) (hd : d = i * i + j * j + c * c + e * e) :
    ∀ (n r2 r3 : ℕ), c ≤ n → (pK d i j n r2 r3).1 = true := by
  intro n
  induction n with
  | zero => intro r2 r3 h; omega
  | succ n ih =>
    intro r2 r3 hn
    unfold pK
    split
    · rfl
    · split
      · rfl
      · rename_i h1 h2
        rcases Nat.lt_or_ge n c with hlt | hge
        · have hcn : c = n + 1 := by omega
          subst hcn
          exfalso
          apply h2
          have : d - i * i - j * j - (n + 1) * (n + 1) = e * e := by omega
          rw [this, Nat.sqrt_eq]
          exact hd
        · exact ih _ _ hge

theorem pJ_complete {d i b c e : ℕ} (hb : 1 ≤ b) (hce : c = 0 → e = 0)
    (hd : d = i * i + b * b + c * c + e * e) :
    ∀ (n r1 r2 r3 : ℕ), b ≤ n → (pJ d i n r1 r2 r3).1 = true := by
  intro n
  induction n with
  | zero => intro r1 r2 r3 h; omega
  | succ n ih =>
    intro r1 r2 r3 hn
    unfold pJ
    split
    · rfl
    · rename_i h1
      split
      · rfl
      · rename_i hk
        rcases Nat.lt_or_ge n b with hlt | hge
        · have hbn : b = n + 1 := by omega
          subst hbn
          exfalso
          rcases Nat.eq_zero_or_pos c with hc0 | hcpos
          · have he0 := hce hc0
            subst hc0; subst he0
            apply h1; simpa using hd
          · have hle : c ≤ Nat.sqrt (d - i * i - (n + 1) * (n + 1)) := by
              apply le_sqrt_of_sq_le
              have : d - i * i - (n + 1) * (n + 1) = c * c + e * e := by omega
              rw [this]; exact Nat.le_add_right _ _
            exact hk (pK_complete (d := d) (i := i) (j := n + 1) hcpos hd _ _ _ hle)
        · exact ih _ _ _ hge

/-! ### the easy direction of Legendre's three-square theorem -/

theorem sq_mod8 (x : ℕ) : x * x % 8 = 0 ∨ x * x % 8 = 1 ∨ x * x % 8 = 4 := by
  have h := Nat.mul_mod x x 8
  have hx : x % 8 < 8 := Nat.mod_lt _ (by norm_num)
  generalize x % 8 = m at h hx
  interval_cases m <;> simp at h <;> omega

theorem sq_mod4 (x : ℕ) : (x * x % 4 = 0 ∧ x % 2 = 0) ∨ (x * x % 4 = 1 ∧ x % 2 = 1) := by
  have h := Nat.mul_mod x x 4
  have hx : x % 4 < 4 := Nat.mod_lt _ (by norm_num)
  have h2 : x % 2 = x % 4 % 2 := by omega
  generalize x % 4 = m at h hx h2
  interval_cases m <;> simp at h <;> omega

theorem sum3_mod8 (x y z : ℕ) : (x * x + y * y + z * z) % 8 ≠ 7 := by
  rcases sq_mod8 x with hx | hx | hx <;> rcases sq_mod8 y with hy | hy | hy <;>
    rcases sq_mod8 z with hz | hz | hz <;> omega

/-- if `4 ∣ x² + y² + z²` then `x y z` are even and the quotient is again a sum of three squares -/
theorem sum3_div4 (x y z : ℕ) (h : (x * x + y * y + z * z) % 4 = 0) :
    (x * x + y * y + z * z) / 4 = (x / 2) * (x / 2) + (y / 2) * (y / 2) + (z / 2) * (z / 2) := by
  have hx2 : x % 2 = 0 := by
    rcases sq_mod4 x with hx | hx <;> rcases sq_mod4 y with hy | hy <;>
      rcases sq_mod4 z with hz | hz <;> omega
  have hy2 : y % 2 = 0 := by
    rcases sq_mod4 x with hx | hx <;> rcases sq_mod4 y with hy | hy <;>
      rcases sq_mod4 z with hz | hz <;> omega
  have hz2 : z % 2 = 0 := by
    rcases sq_mod4 x with hx | hx <;> rcases sq_mod4 y with hy | hy <;>
      rcases sq_mod4 z with hz | hz <;> omega
  obtain ⟨x', rfl⟩ : ∃ x', x = 2 * x' := ⟨x / 2, by omega⟩
  obtain ⟨y', rfl⟩ : ∃ y', y = 2 * y' := ⟨y / 2, by omega⟩
  obtain ⟨z', rfl⟩ : ∃ z', z = 2 * z' := ⟨z / 2, by omega⟩
  have e : 2 * x' * (2 * x') + 2 * y' * (2 * y') + 2 * z' * (2 * z')
      = 4 * (x' * x' + y' * y' + z' * z') := by ring
  rw [e, Nat.mul_div_cancel_left _ (by norm_num : 0 < 4)]
  simp

theorem strip4_sum3 : ∀ (fuel x y z : ℕ), strip4 fuel (x * x + y * y + z * z) % 8 ≠ 7 := by
  intro fuel
  induction fuel with
  | zero => intro x y z; exact sum3_mod8 x y z
  | succ fuel ih =>
    intro x y z
    unfold strip4
    split
    · rename_i hc
      simp only [Bool.and_eq_true, bne_iff_ne, ne_eq, beq_iff_eq] at hc
      rw [sum3_div4 x y z hc.2]
      exact ih _ _ _
    · exact sum3_mod8 x y z

/-- a sum of three squares is never skipped by `is_sum_of_three_squares` -/
theorem isSum3_of_sum (x y z : ℕ) : isSum3 (x * x + y * y + z * z) = true := by
  unfold isSum3
  simpa using strip4_sum3 _ x y z

theorem pI_complete {d a b c e : ℕ} (ha : 1 ≤ a) (hbc : b = 0 → c = 0) (hce : c = 0 → e = 0)
    (hd : d = a * a + b * b + c * c + e * e) :
    ∀ (n r0 r1 r2 r3 : ℕ), a ≤ n → (pI d n r0 r1 r2 r3).1 = true := by
  intro n
  induction n with
  | zero => intro r0 r1 r2 r3 h; omega
  | succ n ih =>
    intro r0 r1 r2 r3 hn
    unfold pI
    split
    · rfl
    · rename_i h1
      rcases Nat.lt_or_ge n a with hlt | hge
      · have han : a = n + 1 := by omega
        subst han
        have hrem : d - (n + 1) * (n + 1) = b * b + c * c + e * e := by omega
        have hs : isSum3 (d - (n + 1) * (n + 1)) = true := by
          rw [hrem]; exact isSum3_of_sum b c e
        rw [if_neg (by rw [hs]; simp)]
        split
        · rfl
        · rename_i hj
          exfalso
          rcases Nat.eq_zero_or_pos b with hb0 | hbpos
          · have hc0 := hbc hb0
            have he0 := hce hc0
            subst hb0; subst hc0; subst he0
            apply h1; simpa using hd
          · have hle : b ≤ Nat.sqrt (d - (n + 1) * (n + 1)) := by
              apply le_sqrt_of_sq_le
              rw [hrem]; omega
            exact hj (pJ_complete (d := d) (i := n + 1) hbpos hce hd _ _ _ _ hle)
      · split
        · exact ih _ _ _ _ hge
        · split
          · rfl
          · exact ih _ _ _ _ hge

/-- zeros can be moved to the end of a four-square representation -/
theorem zeros_last (a b c e : ℕ) : ∃ a' b' c' e' : ℕ,
    a' * a' + b' * b' + c' * c' + e' * e' = a * a + b * b + c * c + e * e ∧
    (a' = 0 → b' = 0) ∧ (b' = 0 → c' = 0) ∧ (c' = 0 → e' = 0) := by
  rcases Nat.eq_zero_or_pos a with ha | ha <;> rcases Nat.eq_zero_or_pos b with hb | hb <;>
  rcases Nat.eq_zero_or_pos c with hc | hc <;> rcases Nat.eq_zero_or_pos e with he | he
  all_goals first
    | exact ⟨a, b, c, e, by ring, by omega, by omega, by omega⟩
    | exact ⟨a, b, e, c, by ring, by omega, by omega, by omega⟩
    | exact ⟨a, c, e, b, by ring, by omega, by omega, by omega⟩
    | exact ⟨a, c, b, e, by ring, by omega, by omega, by omega⟩
    | exact ⟨a, e, b, c, by ring, by omega, by omega, by omega⟩
    | exact ⟨b, c, e, a, by ring, by omega, by omega, by omega⟩
    | exact ⟨b, c, a, e, by ring, by omega, by omega, by omega⟩
    | exact ⟨b, e, a, c, by ring, by omega, by omega, by omega⟩
    | exact ⟨b, a, c, e, by ring, by omega, by omega, by omega⟩
    | exact ⟨c, e, a, b, by ring, by omega, by omega, by omega⟩
    | exact ⟨c, a, b, e, by ring, by omega, by omega, by omega⟩
    | exact ⟨e, a, b, c, by ring, by omega, by omega, by omega⟩

/-- **Lagrange ⇒ the search always leaves through a `break`** (for `d ≥ 1`) -/
theorem pI_breaks (d : ℕ) (hd0 : d ≠ 0) (r0 r1 r2 r3 : ℕ) :
    (pI d (Nat.sqrt d) r0 r1 r2 r3).1 = true := by
  obtain ⟨a0, b0, c0, e0, hsum⟩ := Nat.sum_four_squares d
  obtain ⟨a, b, c, e, hs, hab, hbc, hce⟩ := zeros_last a0 b0 c0 e0
  have hd : d = a * a + b * b + c * c + e * e := by rw [hs, ← hsum]; ring
  have ha : 1 ≤ a := by
    rcases Nat.eq_zero_or_pos a with h | h
    · have hb := hab h; have hc := hbc hb; have he := hce hc
      subst h; subst hb; subst hc; subst he; simp at hd; exact absurd hd hd0
    · exact h
  have hle : a ≤ Nat.sqrt d := by
    apply le_sqrt_of_sq_le; rw [hd]; omega
  exact pI_complete ha hbc hce hd _ _ _ _ _ hle

/-- the final `roots` of the pure search are a decomposition of `d`, for every `d` -/
theorem pI_sum (d : ℕ) :
    (pI d (Nat.sqrt d) (Nat.sqrt d) 0 0 0).2.1 * (pI d (Nat.sqrt d) (Nat.sqrt d) 0 0 0).2.1
    + (pI d (Nat.sqrt d) (Nat.sqrt d) 0 0 0).2.2.1 * (pI d (Nat.sqrt d) (Nat.sqrt d) 0 0 0).2.2.1
    + (pI d (Nat.sqrt d) (Nat.sqrt d) 0 0 0).2.2.2.1 * (pI d (Nat.sqrt d) (Nat.sqrt d) 0 0 0).2.2.2.1
    + (pI d (Nat.sqrt d) (Nat.sqrt d) 0 0 0).2.2.2.2 * (pI d (Nat.sqrt d) (Nat.sqrt d) 0 0 0).2.2.2.2
    = d := by
  by_cases hd0 : d = 0
  · subst hd0
    have : Nat.sqrt 0 = 0 := by simp
    rw [this]; simp [pI]
  · have hb := pI_breaks d hd0 (Nat.sqrt d) 0 0 0
    generalize hst : pI d (Nat.sqrt d) (Nat.sqrt d) 0 0 0 = st at hb
    obtain ⟨b, i, j, k, l⟩ := st
    simp only at hb
    subst hb
    have := pI_sound _ _ _ _ _ _ _ _ _ hst
    simp only
    omega

/-- the model's `four_squares` on a non-negative `delta` that fits the `usize` mode -/
theorem fourSquaresU_eq {um : UMode} (δ : ℤ) (h0 : 0 ≤ δ) (hf : Fits um δ.toNat) :
    fourSquaresU um δ
      = .ok (pI δ.toNat (Nat.sqrt δ.toNat) (Nat.sqrt δ.toNat) 0 0 0).2 := by
  unfold fourSquaresU
  rw [if_neg (by omega)]
  simp only [lslt]
  rw [loopI_eq hf _ _ _ _ _ (Nat.sqrt_le _), Outcome.map_ok]

theorem brokeU_eq {um : UMode} (δ : ℤ) (h0 : 0 ≤ δ) (hf : Fits um δ.toNat) :
    brokeU um δ = .ok (pI δ.toNat (Nat.sqrt δ.toNat) (Nat.sqrt δ.toNat) 0 0 0).1 := by
  unfold brokeU
  rw [if_neg (by omega)]
  simp only [lslt]
  rw [loopI_eq hf _ _ _ _ _ (Nat.sqrt_le _), Outcome.map_ok]

end CL.FourSq
