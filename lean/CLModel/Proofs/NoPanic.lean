import CLModel.Proofs.Witness
/-!
# Helper lemmas for C20 (no modelled entry point returns the `panic` outcome)

Registry family only; the lemmas of the primary protocol go below the marked line.
Every lemma is about the model instantiated with an arbitrary commutative ring and about the
u32 expressions / guards regenerated from the Rust source (`Gen.Index`).
-/
namespace CL

theorem Outcome.map_ne_panic {α β : Type} {x : Outcome α} (f : α → β) (h : x ≠ .panic) :
    x.map f ≠ .panic := by
  cases x with
  | ok a => simp [Outcome.map]
  | err => simp [Outcome.map]
  | panic => exact absurd rfl h

theorem Outcome.bind_ne_panic {α β : Type} {x : Outcome α} {f : α → Outcome β} (hx : x ≠ .panic)
    (hf : ∀ a, f a ≠ .panic) : x.bind f ≠ .panic := by
  cases x with
  | ok a => simpa using hf a
  | err => simp
  | panic => exact absurd rfl hx

namespace Reg

variable {F : Type} [CommRing F]

/-! ## registry updates -/

theorem updatePow_ne_panic (γ : F) (m : OvfMode) (L : ℕ) (hL : SizeOk L) :
    ∀ (l : List (ℕ × Bool)) (acc : F), updatePow ringOps γ m L l acc ≠ .panic := by
  intro l
  induction l with
  | nil => intro acc; simp [updatePow]
  | cons p l ih =>
    intro acc
    obtain ⟨idx, remove⟩ := p
    by_cases hp : InRange L idx
    · simp only [updatePow, updateAccGuard_spec, inRange_guard_false hp, getIndex_spec m L idx hp hL,
        Outcome.guardThen_ok, Outcome.bind_ok, Bool.false_eq_true, if_false]
      exact ih _
    · simp only [updatePow, updateAccGuard_spec, outOfRange_guard_true hp, Outcome.guardThen_ok,
        if_true]
      intro h; cases h

/-- the outcome of an update does not depend on the overflow mode (profile) -/
theorem updatePow_mode_indep (γ : F) (m m' : OvfMode) (L : ℕ) (hL : SizeOk L) :
    ∀ (l : List (ℕ × Bool)) (acc : F),
      updatePow ringOps γ m L l acc = updatePow ringOps γ m' L l acc := by
  intro l
  induction l with
  | nil => intro acc; simp [updatePow]
  | cons p l ih =>
    intro acc
    obtain ⟨idx, remove⟩ := p
    by_cases hp : InRange L idx
    · simp only [updatePow, updateAccGuard_spec, inRange_guard_false hp, getIndex_spec _ L idx hp hL,
        Outcome.guardThen_ok, Outcome.bind_ok, Bool.false_eq_true, if_false]
      exact ih _
    · simp only [updatePow, updateAccGuard_spec, outOfRange_guard_true hp, Outcome.guardThen_ok,
        if_true]

theorem issue_ne_panic (γ : F) (m : OvfMode) (L : ℕ) (hL : SizeOk L) (byDefault : Bool) (acc : F)
    (i : ℕ) : issue ringOps γ m L byDefault acc i ≠ .panic := by
  by_cases hp : InRange L i
  · simp only [issue, issueGuard_spec, inRange_guard_false hp, getIndex_spec m L i hp hL,
      Outcome.guardThen_ok, Outcome.bind_ok, Bool.false_eq_true, if_false]
    cases byDefault <;> simp
  · simp only [issue, issueGuard_spec, outOfRange_guard_true hp, Outcome.guardThen_ok, if_true]
    intro h; cases h

theorem issue_mode_indep (γ : F) (m m' : OvfMode) (L : ℕ) (hL : SizeOk L) (byDefault : Bool)
    (acc : F) (i : ℕ) :
    issue ringOps γ m L byDefault acc i = issue ringOps γ m' L byDefault acc i := by
  by_cases hp : InRange L i
  · simp only [issue, issueGuard_spec, inRange_guard_false hp, getIndex_spec _ L i hp hL,
      Outcome.guardThen_ok, Outcome.bind_ok, Bool.false_eq_true, if_false]
  · simp only [issue, issueGuard_spec, outOfRange_guard_true hp, Outcome.guardThen_ok, if_true]

/-! ## witnesses -/

theorem tailAt_ne_panic (γ : F) (L k : ℕ) : tailAt ringOps γ L k ≠ .panic := by
  unfold tailAt
  split_ifs <;> simp

theorem witnessNewLoop_ne_panic (γ : F) (m : OvfMode) (L i : ℕ) (hL : TailsOk L)
    (hi : InRange L i) :
    ∀ (l : List ℕ) (ω : F), witnessNewLoop ringOps γ m L i l ω ≠ .panic := by
  intro l
  induction l with
  | nil => intro ω; simp [witnessNewLoop]
  | cons j js ih =>
    intro ω
    by_cases hj : InRange L j
    · simp only [witnessNewLoop, witnessNewLoopGuard_spec, inRange_guard_false hj,
        Outcome.guardThen_ok, Bool.false_eq_true, if_false, witnessIndexNew_spec m L j i hj hi hL,
        Outcome.bind_ok]
      exact Outcome.bind_ne_panic (tailAt_ne_panic γ L _) (fun t => ih _)
    · simp only [witnessNewLoop, witnessNewLoopGuard_spec, outOfRange_guard_true hj,
        Outcome.guardThen_ok, if_true]
      intro h; cases h

theorem witnessNewLoop_mode_indep (γ : F) (m m' : OvfMode) (L i : ℕ) (hL : TailsOk L)
    (hi : InRange L i) :
    ∀ (l : List ℕ) (ω : F),
      witnessNewLoop ringOps γ m L i l ω = witnessNewLoop ringOps γ m' L i l ω := by
  intro l
  induction l with
  | nil => intro ω; simp [witnessNewLoop]
  | cons j js ih =>
    intro ω
    by_cases hj : InRange L j
    · simp only [witnessNewLoop, witnessNewLoopGuard_spec, inRange_guard_false hj,
        Outcome.guardThen_ok, Bool.false_eq_true, if_false, witnessIndexNew_spec _ L j i hj hi hL,
        Outcome.bind_ok]
      congr 1
      funext t
      exact ih _
    · simp only [witnessNewLoop, witnessNewLoopGuard_spec, outOfRange_guard_true hj,
        Outcome.guardThen_ok, if_true]

theorem witnessUpdateLoop_ne_panic (γ : F) (m : OvfMode) (L i : ℕ) (hL : TailsOk L)
    (hi : InRange L i) :
    ∀ (l : List (ℕ × Bool)) (ω : F), witnessUpdateLoop ringOps γ m L i l ω ≠ .panic := by
  intro l
  induction l with
  | nil => intro ω; simp [witnessUpdateLoop]
  | cons p ps ih =>
    intro ω
    obtain ⟨j, add⟩ := p
    by_cases hij : i = j
    · subst hij
      simp only [witnessUpdateLoop, beq_self_eq_true, if_true]
      exact ih _
    · have hb : (i == j) = false := by simpa using hij
      by_cases hj : InRange L j
      · simp only [witnessUpdateLoop, hb, Bool.false_eq_true, if_false, witnessUpdateLoopGuard_spec,
          inRange_guard_false hj, Outcome.guardThen_ok, witnessIndexUpdate_spec m L j i hj hi hL,
          Outcome.bind_ok]
        exact Outcome.bind_ne_panic (tailAt_ne_panic γ L _) (fun t => ih _)
      · simp only [witnessUpdateLoop, hb, Bool.false_eq_true, if_false, witnessUpdateLoopGuard_spec,
          outOfRange_guard_true hj, Outcome.guardThen_ok, if_true]
        intro h; cases h

theorem witnessUpdateLoop_mode_indep (γ : F) (m m' : OvfMode) (L i : ℕ) (hL : TailsOk L)
    (hi : InRange L i) :
    ∀ (l : List (ℕ × Bool)) (ω : F),
      witnessUpdateLoop ringOps γ m L i l ω = witnessUpdateLoop ringOps γ m' L i l ω := by
  intro l
  induction l with
  | nil => intro ω; simp [witnessUpdateLoop]
  | cons p ps ih =>
    intro ω
    obtain ⟨j, add⟩ := p
    by_cases hij : i = j
    · subst hij
      simp only [witnessUpdateLoop, beq_self_eq_true, if_true]
      exact ih _
    · have hb : (i == j) = false := by simpa using hij
      by_cases hj : InRange L j
      · simp only [witnessUpdateLoop, hb, Bool.false_eq_true, if_false, witnessUpdateLoopGuard_spec,
          inRange_guard_false hj, Outcome.guardThen_ok, witnessIndexUpdate_spec _ L j i hj hi hL,
          Outcome.bind_ok]
        congr 1
        funext t
        exact ih _
      · simp only [witnessUpdateLoop, hb, Bool.false_eq_true, if_false, witnessUpdateLoopGuard_spec,
          outOfRange_guard_true hj, Outcome.guardThen_ok, if_true]


/-! ## `for_issued` on the ascending list a `BTreeSet` iterates -/

theorem mirror_ne_panic (m : OvfMode) (L : ℕ) (hL : SizeOk L) : ∀ l : List ℕ,
    (∀ j ∈ l, InRange L j) → forIssued.mirror m L l ≠ .panic := by
  intro l
  induction l with
  | nil => intro _; simp [forIssued.mirror]
  | cons j js ih =>
    intro h
    simp only [forIssued.mirror, getIndex_spec m L j (h j (by simp)) hL, Outcome.bind_ok]
    exact Outcome.map_ne_panic _ (ih (fun x hx => h x (List.mem_cons_of_mem _ hx)))

theorem pairwise_le_getLast : ∀ (l : List ℕ), l.Pairwise (· < ·) → ∀ last, l.getLast? = some last →
    ∀ x ∈ l, x ≤ last := by
  intro l
  induction l with
  | nil => intro _ last h; simp at h
  | cons a l ih =>
    intro hp last hl x hx
    cases l with
    | nil =>
      simp only [List.getLast?_singleton, Option.some.injEq] at hl
      simp only [List.mem_singleton] at hx
      omega
    | cons b l' =>
      have hl' : (b :: l').getLast? = some last := by simpa [List.getLast?_cons_cons] using hl
      have hmem : last ∈ b :: l' := List.mem_of_getLast? hl'
      rcases List.mem_cons.mp hx with rfl | hx'
      · exact Nat.le_of_lt (List.rel_of_pairwise_cons hp hmem)
      · exact ih (List.Pairwise.of_cons hp) last hl' x hx'

/-- strictly ascending list whose first element is not 0 and whose last is at most `L` -/
theorem ascending_inRange (L : ℕ) (l : List ℕ) (hs : l.Pairwise (· < ·))
    (h1 : ¬ (l.head? == some 0) = true)
    (h2 : ¬ ((l.getLast?.map fun last => decide (last > L)).getD false) = true) :
    ∀ j ∈ l, InRange L j := by
  intro j hj
  cases l with
  | nil => simp at hj
  | cons a as =>
    have ha : a ≠ 0 := by
      intro e; apply h1; simp [e]
    have hlow : a ≤ j := by
      rcases List.mem_cons.mp hj with rfl | hj'
      · exact Nat.le_refl _
      · exact Nat.le_of_lt (List.rel_of_pairwise_cons hs hj')
    cases hl : (a :: as).getLast? with
    | none => simp at hl
    | some last =>
      have hle := pairwise_le_getLast (a :: as) hs last hl j hj
      have hlast : last ≤ L := by
        rw [hl] at h2
        simpa using h2
      unfold InRange
      omega

theorem forIssued_ne_panic (γ : F) (m : OvfMode) (L : ℕ) (hL : SizeOk L) (issued : List ℕ)
    (hs : issued.Pairwise (· < ·)) : forIssued ringOps γ m L issued ≠ .panic := by
  unfold forIssued
  split_ifs with h1 h2 h3
  · simp
  · simp
  · exact Outcome.map_ne_panic _ (mirror_ne_panic m L hL issued (ascending_inRange L issued hs h1 h2))
  · simp

end Reg

/-! ## primary protocol (verifier, issuance): lemmas of the owner of `Model/Primary.lean` go here -/

end CL
