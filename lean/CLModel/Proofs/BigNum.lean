import CLModel.Model.BigNum
import Mathlib.Data.Int.GCD
import Mathlib.Data.Int.ModEq
import Mathlib.Data.Nat.Bitwise
import Mathlib.Tactic.Ring
import Mathlib.Tactic.Linarith
import Mathlib.Tactic.LinearCombination
import Mathlib.Tactic.IntervalCases
/-! Helper lemmas for the big-number layer (C17, C18). -/
namespace CL.BN
open CL.Outcome

/-! ## `natBits` -/

theorem natBitsAux_spec : ∀ (f n : ℕ), n ≤ f →
    (n = 0 → natBitsAux f n = 0) ∧ (0 < n → n < 2 ^ natBitsAux f n ∧ 2 ^ (natBitsAux f n - 1) ≤ n) := by
  intro f
  induction f with
  | zero =>
    intro n hn
    have : n = 0 := by omega
    subst this
    simp [natBitsAux]
  | succ f ih =>
    intro n hn
    constructor
    · intro h0; simp [natBitsAux, h0]
    · intro hpos
      have hne : n ≠ 0 := by omega
      simp only [natBitsAux, hne, if_false]
      have hle : n / 2 ≤ f := by omega
      obtain ⟨ih0, ih1⟩ := ih (n / 2) hle
      by_cases h2 : n / 2 = 0
      · rw [ih0 h2]
        have : n = 1 := by omega
        subst this; simp
      · have hp : 0 < n / 2 := by omega
        obtain ⟨hlt, hge⟩ := ih1 hp
        have hk : 0 < natBitsAux f (n / 2) := by
          rcases Nat.eq_zero_or_pos (natBitsAux f (n / 2)) with h | h
          · rw [h] at hlt; simp at hlt; omega
          · exact h
        constructor
        · rw [pow_succ]; omega
        · have : natBitsAux f (n / 2) + 1 - 1 = (natBitsAux f (n / 2) - 1) + 1 := by omega
          rw [this, pow_succ]; omega

theorem natBits_zero : natBits 0 = 0 := by simp [natBits, natBitsAux]

theorem natBits_eq_zero_iff (n : ℕ) : natBits n = 0 ↔ n = 0 := by
  constructor
  · intro h
    by_contra hne
    have := ((natBitsAux_spec n n (le_refl _)).2 (by omega)).1
    unfold natBits at h
    rw [h] at this; simp at this; omega
  · intro h; subst h; exact natBits_zero

theorem lt_two_pow_natBits (n : ℕ) : n < 2 ^ natBits n := by
  rcases Nat.eq_zero_or_pos n with h | h
  · subst h; simp
  · exact ((natBitsAux_spec n n (le_refl _)).2 h).1

theorem two_pow_natBits_le (n : ℕ) (h : 0 < n) : 2 ^ (natBits n - 1) ≤ n :=
  ((natBitsAux_spec n n (le_refl _)).2 h).2

theorem lt_two_pow_of_natBits_le {n k : ℕ} (h : natBits n ≤ k) : n < 2 ^ k :=
  lt_of_lt_of_le (lt_two_pow_natBits n) (Nat.pow_le_pow_right (by norm_num) h)

/-! ## digits -/

theorem ofDigits_append (b : ℕ) (l : List ℕ) (d : ℕ) :
    ofDigits b (l ++ [d]) = ofDigits b l * b + d := by
  simp [ofDigits, List.foldl_append]

theorem ofDigits_nil (b : ℕ) : ofDigits b [] = 0 := rfl

theorem digitsLEAux_spec (b : ℕ) (hb : 2 ≤ b) : ∀ (f n : ℕ), n ≤ f →
    ofDigits b (digitsLEAux b f n).reverse = n ∧ (∀ d ∈ digitsLEAux b f n, d < b) ∧
      (0 < n → (digitsLEAux b f n).getLast? ≠ some 0 ∧ digitsLEAux b f n ≠ []) := by
  intro f
  induction f with
  | zero =>
    intro n hn
    have : n = 0 := by omega
    subst this
    simp [digitsLEAux, ofDigits]
  | succ f ih =>
    intro n hn
    by_cases h0 : n = 0
    · subst h0; simp [digitsLEAux, ofDigits]
    · have hdiv : n / b < n := Nat.div_lt_self (by omega) (by omega)
      have hle : n / b ≤ f := by omega
      obtain ⟨ih1, ih2, ih3⟩ := ih (n / b) hle
      simp only [digitsLEAux, h0, if_false]
      refine ⟨?_, ?_, ?_⟩
      · rw [List.reverse_cons, ofDigits_append, ih1]
        exact Nat.div_add_mod' n b
      · intro d hd
        simp only [List.mem_cons] at hd
        rcases hd with h | h
        · rw [h]; exact Nat.mod_lt _ (by omega)
        · exact ih2 d h
      · intro _
        refine ⟨?_, by simp⟩
        by_cases hq : n / b = 0
        · have hnil : digitsLEAux b f (n / b) = [] := by
            rw [hq]; cases f <;> simp [digitsLEAux]
          rw [hnil]
          simp only [List.getLast?_singleton, ne_eq, Option.some.injEq]
          have : n < b := by
            rcases Nat.lt_or_ge n b with h | h
            · exact h
            · have := Nat.div_pos h (by omega); omega
          rw [Nat.mod_eq_of_lt this]; exact h0
        · obtain ⟨h31, h32⟩ := ih3 (by omega)
          rw [List.getLast?_cons_of_ne_nil h32]; exact h31

/-- `toDigits` is a right inverse of `ofDigits` -/
theorem ofDigits_toDigits (b : ℕ) (hb : 2 ≤ b) (n : ℕ) : ofDigits b (toDigits b n) = n :=
  (digitsLEAux_spec b hb n n (le_refl _)).1

theorem toDigits_lt (b : ℕ) (hb : 2 ≤ b) (n : ℕ) : ∀ d ∈ toDigits b n, d < b := by
  intro d hd
  exact (digitsLEAux_spec b hb n n (le_refl _)).2.1 d (by simpa [toDigits] using hd)

theorem toDigits_zero (b : ℕ) : toDigits b 0 = [] := by simp [toDigits, digitsLEAux]

/-- no leading zero digit -/
theorem toDigits_head (b : ℕ) (hb : 2 ≤ b) (n : ℕ) (hn : 0 < n) :
    (toDigits b n).head? ≠ some 0 ∧ toDigits b n ≠ [] := by
  obtain ⟨h1, h2⟩ := (digitsLEAux_spec b hb n n (le_refl _)).2.2 hn
  constructor
  · simpa [toDigits, List.head?_reverse] using h1
  · simpa [toDigits] using h2

theorem foldl_digits_acc (b : ℕ) : ∀ (l : List ℕ) (acc : ℕ),
    l.foldl (fun acc d => acc * b + d) acc = acc * b ^ l.length + l.foldl (fun acc d => acc * b + d) 0 := by
  intro l
  induction l with
  | nil => intro acc; simp
  | cons d l ih =>
    intro acc
    simp only [List.foldl_cons, List.length_cons]
    rw [ih (acc * b + d), ih (0 * b + d)]
    simp [pow_succ]; ring

theorem ofDigits_cons (b : ℕ) (d : ℕ) (l : List ℕ) :
    ofDigits b (d :: l) = d * b ^ l.length + ofDigits b l := by
  unfold ofDigits
  simp only [List.foldl_cons]
  rw [foldl_digits_acc]; simp

theorem ofDigits_replicate_zero (b k : ℕ) (l : List ℕ) :
    ofDigits b (List.replicate k 0 ++ l) = ofDigits b l := by
  induction k with
  | zero => simp
  | succ k ih => rw [List.replicate_succ, List.cons_append, ofDigits_cons, ih]; simp

theorem ofDigits_lt (b : ℕ) (l : List ℕ) (h : ∀ d ∈ l, d < b) : ofDigits b l < b ^ l.length := by
  induction l with
  | nil => simp [ofDigits]
  | cons d l ih =>
    rw [ofDigits_cons, List.length_cons, pow_succ]
    have h1 : d < b := h d (by simp)
    have h2 := ih (fun x hx => h x (by simp [hx]))
    have : d * b ^ l.length + b ^ l.length ≤ b ^ l.length * b := by
      have : (d + 1) * b ^ l.length ≤ b * b ^ l.length := Nat.mul_le_mul_right _ h1
      linarith
    omega

/-! ## `powMod`, `powInt` -/

theorem powModAux_spec (m : ℕ) : ∀ (f b e acc : ℕ), e ≤ f → b < m ∨ m = 0 → True →
    powModAux m f b e acc % m = acc * b ^ e % m := by
  intro f
  induction f with
  | zero =>
    intro b e acc he _ _
    have : e = 0 := by omega
    subst this; simp [powModAux]
  | succ f ih =>
    intro b e acc he hb _
    by_cases h0 : e = 0
    · subst h0; simp [powModAux]
    · simp only [powModAux, h0, if_false]
      have hle : e / 2 ≤ f := by omega
      have hb' : b * b % m < m ∨ m = 0 := by
        rcases Nat.eq_zero_or_pos m with h | h
        · right; exact h
        · left; exact Nat.mod_lt _ h
      rw [ih (b * b % m) (e / 2) _ hle hb' trivial]
      have he2 : e = 2 * (e / 2) + e % 2 := (Nat.div_add_mod e 2).symm
      have hpow : b ^ e = (b * b) ^ (e / 2) * b ^ (e % 2) := by
        conv_lhs => rw [he2]
        rw [pow_add, pow_mul, pow_two]
      have h1 : (b * b % m) ^ (e / 2) ≡ (b * b) ^ (e / 2) [MOD m] := (Nat.mod_modEq _ _).pow _
      show _ ≡ _ [MOD m]
      by_cases hodd : e % 2 = 1
      · simp only [hodd, if_true]
        have h2 : acc * b % m ≡ acc * b [MOD m] := Nat.mod_modEq _ _
        have := h2.mul h1
        rw [hpow, hodd, pow_one]
        convert this using 1
        ring
      · have hev : e % 2 = 0 := by omega
        simp only [hev]
        have := (Nat.ModEq.refl acc).mul h1
        rw [hpow, hev, pow_zero, mul_one]
        simpa using this

/-- square-and-multiply computes `b ^ e % m` -/
theorem powMod_eq (b e m : ℕ) (hm : 0 < m) : powMod b e m = b ^ e % m := by
  unfold powMod
  have h := powModAux_spec m e (b % m) e (1 % m) (le_refl _) (Or.inl (Nat.mod_lt _ hm)) trivial
  have hlt : powModAux m e (b % m) e (1 % m) < m := by
    -- every intermediate value is reduced modulo `m`
    have : ∀ (f b e acc : ℕ), acc < m → powModAux m f b e acc < m := by
      intro f
      induction f with
      | zero => intro b e acc h; simpa [powModAux] using h
      | succ f ih =>
        intro b e acc h
        simp only [powModAux]
        split
        · exact h
        · apply ih
          split
          · exact Nat.mod_lt _ hm
          · exact h
    exact this _ _ _ _ (Nat.mod_lt _ hm)
  rw [← Nat.mod_eq_of_lt hlt, h, Nat.mul_mod, Nat.mod_mod, ← Nat.mul_mod, one_mul, ← Nat.pow_mod]

theorem powInt_eq (a : ℤ) (k : ℕ) : powInt a k = a ^ k := by
  unfold powInt
  by_cases h0 : a = 0
  · subst h0
    by_cases hk : k = 0
    · subst hk; simp
    · simp [hk]
  · by_cases h1 : a = 1
    · subst h1; simp
    · by_cases h2 : a = -1
      · subst h2
        simp only [h0, h1, if_false, if_true]
        rcases Nat.even_or_odd k with he | ho
        · have : k % 2 = 0 := Nat.even_iff.mp he
          simp [this, he.neg_one_pow]
        · have : k % 2 = 1 := Nat.odd_iff.mp ho
          simp [this, ho.neg_one_pow]
      · simp [h0, h1, h2]

/-! ## textbook Euclid (`xgcdAux`) -/

theorem xgcdAux_spec : ∀ (f a b : ℕ), a < f →
    (xgcdAux f a b).1 = Nat.gcd a b ∧
      (a : ℤ) * (xgcdAux f a b).2.1 + (b : ℤ) * (xgcdAux f a b).2.2 = (Nat.gcd a b : ℤ) := by
  intro f
  induction f with
  | zero => intro a b h; omega
  | succ f ih =>
    intro a b h
    by_cases h0 : a = 0
    · subst h0; simp [xgcdAux]
    · have hlt : b % a < f := by
        have := Nat.mod_lt b (Nat.pos_of_ne_zero h0); omega
      obtain ⟨ih1, ih2⟩ := ih (b % a) a hlt
      simp only [xgcdAux, h0, if_false]
      refine ⟨?_, ?_⟩
      · rw [ih1]; exact (Nat.gcd_rec a b).symm
      · have hg : Nat.gcd (b % a) a = Nat.gcd a b := (Nat.gcd_rec a b).symm
        rw [hg] at ih2
        have hb : (b : ℤ) = (a : ℤ) * ((b / a : ℕ) : ℤ) + ((b % a : ℕ) : ℤ) := by
          exact_mod_cast (Nat.div_add_mod b a).symm
        rw [← ih2]
        conv_lhs => rw [hb]
        ring

theorem xgcd_spec (a b : ℕ) :
    (xgcd a b).1 = Nat.gcd a b ∧
      (a : ℤ) * (xgcd a b).2.1 + (b : ℤ) * (xgcd a b).2.2 = (Nat.gcd a b : ℤ) :=
  xgcdAux_spec (a + 1) a b (Nat.lt_succ_self a)

/-! ## `Rust.inverse`: the extended-Euclid loop -/
namespace Rust

theorem getModulus_eq (n : ℤ) : getModulus n = (n.natAbs : ℤ) := by
  unfold getModulus
  split <;> omega

/-- Invariant of the `while` loop of `inverse` for a non-negative operand `a` and modulus
`m > 0`, at a state `(t, new_t, r, new_r)`; `s = ±1` is the alternating sign.
`cong_r` is the invariant `r ≡ a·t (mod m)`. -/
structure LoopInv (m a t nt r nr s : ℤ) : Prop where
  r_nonneg : 0 ≤ r
  nr_nonneg : 0 ≤ nr
  s_unit : s = 1 ∨ s = -1
  cong_r : m ∣ r - a * t
  cong_nr : m ∣ nr - a * nt
  gcd_eq : Int.gcd r nr = Int.gcd m a
  sign_nt : 0 ≤ s * nt
  sign_t : s * t ≤ 0
  det : s * (nt * r - t * nr) = m
  ord : nr ≤ r ∨ t = 0
  bnd : (-(s * t)) * r ≤ m ∨ nt = 0

theorem LoopInv.init (m a : ℤ) (hm : 0 < m) (ha : 0 ≤ a) : LoopInv m a 0 1 m a 1 where
  r_nonneg := le_of_lt hm
  nr_nonneg := ha
  s_unit := Or.inl rfl
  cong_r := by simp
  cong_nr := by simp
  gcd_eq := rfl
  sign_nt := by norm_num
  sign_t := by norm_num
  det := by ring
  ord := Or.inr rfl
  bnd := Or.inl (by simp; exact le_of_lt hm)

theorem LoopInv.step {m a t nt r nr s : ℤ} (h : LoopInv m a t nt r nr s) (hnr : nr ≠ 0) :
    LoopInv m a nt (t - Int.tdiv r nr * nt) nr (r - Int.tdiv r nr * nr) (-s) := by
  have hnrpos : 0 < nr := lt_of_le_of_ne h.nr_nonneg (Ne.symm hnr)
  have hq : Int.tdiv r nr = r / nr := Int.tdiv_eq_ediv_of_nonneg h.r_nonneg
  rw [hq]
  have hq0 : 0 ≤ r / nr := Int.ediv_nonneg h.r_nonneg h.nr_nonneg
  have hrem : r - r / nr * nr = r % nr := by rw [Int.emod_def]; ring
  have hrem0 : 0 ≤ r % nr := Int.emod_nonneg _ hnr
  have hremlt : r % nr < nr := Int.emod_lt_of_pos _ hnrpos
  have hdet := h.det
  have hsnt := h.sign_nt
  have hst := h.sign_t
  refine
    { r_nonneg := h.nr_nonneg
      nr_nonneg := by rw [hrem]; exact hrem0
      s_unit := by rcases h.s_unit with h1 | h1 <;> simp [h1]
      cong_r := h.cong_nr
      cong_nr := ?_
      gcd_eq := by rw [Int.gcd_sub_mul_right_right, Int.gcd_comm]; exact h.gcd_eq
      sign_nt := ?_
      sign_t := by linarith
      det := by rw [← hdet]; ring
      ord := Or.inl (by rw [hrem]; exact le_of_lt hremlt)
      bnd := ?_ }
  · have : r - r / nr * nr - a * (t - r / nr * nt) = (r - a * t) - r / nr * (nr - a * nt) := by ring
    rw [this]
    exact Int.dvd_sub h.cong_r (Dvd.dvd.mul_left h.cong_nr _)
  · have : -s * (t - r / nr * nt) = -(s * t) + r / nr * (s * nt) := by ring
    rw [this]
    have := mul_nonneg hq0 hsnt
    linarith
  · -- `|new_t| * new_r ≤ m` unless the next `new_t` vanishes
    have key : nr ≤ r → (-(-s * nt)) * nr ≤ m := by
      intro hle
      have h1 : s * nt * nr ≤ s * nt * r := mul_le_mul_of_nonneg_left hle hsnt
      have h2 : 0 ≤ -(s * t) * nr := mul_nonneg (by linarith) h.nr_nonneg
      have h3 : s * nt * r - s * t * nr = m := by rw [← hdet]; ring
      have : - -s * nt * nr = s * nt * nr := by ring
      linarith
    rcases h.ord with hle | ht0
    · exact Or.inl (key hle)
    · rcases le_or_gt nr r with hle | hlt
      · exact Or.inl (key hle)
      · right
        rw [Int.ediv_eq_zero_of_lt h.r_nonneg hlt, ht0]; ring

/-- with enough fuel the loop terminates normally, in a state that satisfies the invariant
with `new_r = 0` -/
theorem inverseLoop_spec (m a : ℤ) : ∀ (fuel : ℕ) (t nt r nr s : ℤ), LoopInv m a t nt r nr s →
    nr.toNat < fuel →
    ∃ t' nt' r' s', inverseLoop fuel t nt r nr = ok (t', r') ∧ LoopInv m a t' nt' r' 0 s' := by
  intro fuel
  induction fuel with
  | zero => intro t nt r nr s _ h; omega
  | succ f ih =>
    intro t nt r nr s hinv hfuel
    by_cases hnr : nr = 0
    · subst hnr
      exact ⟨t, nt, r, s, by simp [inverseLoop], hinv⟩
    · have hstep := hinv.step hnr
      have hnrpos : 0 < nr := lt_of_le_of_ne hinv.nr_nonneg (Ne.symm hnr)
      have hlt : (r - Int.tdiv r nr * nr).toNat < f := by
        have hq : Int.tdiv r nr = r / nr := Int.tdiv_eq_ediv_of_nonneg hinv.r_nonneg
        have hrem : r - r / nr * nr = r % nr := by rw [Int.emod_def]; ring
        rw [hq, hrem]
        have := Int.emod_lt_of_pos r hnrpos
        have := Int.emod_nonneg r hnr
        omega
      obtain ⟨t', nt', r', s', heq, hfin⟩ := ih _ _ _ _ _ hstep hlt
      refine ⟨t', nt', r', s', ?_, hfin⟩
      simp only [inverseLoop, hnr, if_false]
      exact heq

/-- what the exit state gives: the returned `r` is the gcd, and when it is `1` the returned
`t` is an inverse of `a` with `|t| < m` -/
theorem LoopInv.exit {m a t nt r s : ℤ} (hm : 2 ≤ m) (h : LoopInv m a t nt r 0 s) :
    r = (Int.gcd m a : ℤ) ∧ (r = 1 → -m < t ∧ t < m ∧ m ∣ 1 - a * t) := by
  have hr : (Int.gcd r 0 : ℤ) = r := by
    rw [Int.gcd_zero_right]; exact Int.natAbs_of_nonneg h.r_nonneg
  refine ⟨by rw [← h.gcd_eq]; exact hr.symm, ?_⟩
  intro hr1
  subst hr1
  have hcong : m ∣ 1 - a * t := h.cong_r
  have hnt : nt ≠ 0 := by
    intro h0
    have := h.det
    rw [h0] at this
    simp at this
    omega
  have hb : -(s * t) ≤ m := by
    rcases h.bnd with hb | hb
    · simpa using hb
    · exact absurd hb hnt
  have hst := h.sign_t
  -- `t = ± m` is impossible: `m ∣ 1 - a t` would give `m ∣ 1`
  have hne : ∀ k : ℤ, t = k * m → False := by
    intro k hk
    have : m ∣ 1 := by
      have h2 : m ∣ a * t := ⟨a * k, by rw [hk]; ring⟩
      have := Int.dvd_add hcong h2
      simpa using this
    have := Int.le_of_dvd (by norm_num) this
    omega
  have hp : t ≠ m := fun e => hne 1 (by rw [e]; ring)
  have hn : t ≠ -m := fun e => hne (-1) (by rw [e]; ring)
  rcases h.s_unit with hs | hs <;> subst hs
  · refine ⟨by omega, by omega, hcong⟩
  · refine ⟨by omega, by omega, hcong⟩

/-- **`Rust.inverse` is correct for every operand** (modulus `≠ 0, ±1`): an error exactly when
`gcd(a, n) ≠ 1`, otherwise the representative `t ∈ [0, |n|)` with `a·t ≡ 1 (mod |n|)`; the
fuel is never exhausted (no `panic`). The operand is reduced into `[0, |n|)` first, which is
the domain on which the loop invariant holds. -/
theorem inverse_correct (a n : ℤ) (hn : 2 ≤ n.natAbs) :
    (Int.gcd a n ≠ 1 → inverse a n = err) ∧
    (Int.gcd a n = 1 → ∃ t, inverse a n = ok t ∧ 0 ≤ t ∧ t < (n.natAbs : ℤ) ∧
      (n.natAbs : ℤ) ∣ 1 - a * t) := by
  have hm : (2 : ℤ) ≤ (n.natAbs : ℤ) := by exact_mod_cast hn
  have hmne : (n.natAbs : ℤ) ≠ 0 := by omega
  have hn0 : ¬ ((n.natAbs : ℤ) = 1 ∨ (n.natAbs : ℤ) = 0) := by omega
  have hfmod : Int.fmod a (n.natAbs : ℤ) = a % (n.natAbs : ℤ) :=
    Int.fmod_eq_emod_of_nonneg a (by omega)
  set a' := a % (n.natAbs : ℤ) with ha'
  have ha0 : 0 ≤ a' := Int.emod_nonneg _ hmne
  obtain ⟨t', nt', r', s', heq, hfin⟩ :=
    inverseLoop_spec (n.natAbs : ℤ) a' (a'.natAbs + 1) 0 1 (n.natAbs : ℤ) a' 1
      (LoopInv.init _ _ (by omega) ha0) (by omega)
  obtain ⟨hr, hone⟩ := hfin.exit hm
  have hg : (Int.gcd (n.natAbs : ℤ) a' : ℤ) = (Int.gcd a n : ℤ) := by
    have h1 : Int.gcd a' (n.natAbs : ℤ) = Int.gcd a (n.natAbs : ℤ) := Int.gcd_emod a _
    rw [Int.gcd_comm, h1]; simp [Int.gcd, Int.natAbs_abs]
  -- congruences for `a'` transfer to `a`
  have hcong : ∀ t : ℤ, (n.natAbs : ℤ) ∣ 1 - a' * t → (n.natAbs : ℤ) ∣ 1 - a * t := by
    intro t ht
    have e : 1 - a * t = (1 - a' * t) - (n.natAbs : ℤ) * (a / (n.natAbs : ℤ) * t) := by
      have := Int.emod_def a (n.natAbs : ℤ)
      rw [ha', this]; ring
    rw [e]
    exact Int.dvd_sub ht (Int.dvd_mul_right _ _)
  unfold inverse
  simp only [getModulus_eq, hn0, if_false, hfmod, ← ha', heq, bind_ok]
  constructor
  · intro hne
    have : r' > 1 := by
      rw [hr, hg]
      have h0 : Int.gcd a n ≠ 0 := by
        intro h0
        have := (Int.gcd_eq_zero_iff.mp h0).2
        omega
      omega
    simp [this]
  · intro h1
    have hr1 : r' = 1 := by rw [hr, hg, h1]; rfl
    obtain ⟨hlo, hhi, hdvd⟩ := hone hr1
    have : ¬ r' > 1 := by omega
    simp only [this, if_false]
    by_cases hneg : t' < 0
    · refine ⟨t' + n.natAbs, by simp [hneg], by omega, by omega, ?_⟩
      apply hcong
      have : 1 - a' * (t' + (n.natAbs : ℤ)) = (1 - a' * t') - (n.natAbs : ℤ) * a' := by ring
      rw [this]
      exact Int.dvd_sub hdvd (Int.dvd_mul_right _ _)
    · exact ⟨t', by simp [hneg], by omega, hhi, hcong _ hdvd⟩

end Rust

/-! ## `Spec.inverse` and uniqueness -/

/-- two inverses in `[0, m)` coincide -/
theorem inverse_unique {m a t1 t2 : ℤ} (h1 : 0 ≤ t1 ∧ t1 < m ∧ m ∣ 1 - a * t1)
    (h2 : 0 ≤ t2 ∧ t2 < m ∧ m ∣ 1 - a * t2) : t1 = t2 := by
  obtain ⟨a1, b1, c1⟩ := h1
  obtain ⟨a2, b2, c2⟩ := h2
  have hd : m ∣ t1 - t2 := by
    have e : t1 - t2 = t1 * (1 - a * t2) - t2 * (1 - a * t1) := by ring
    rw [e]
    exact Int.dvd_sub (Dvd.dvd.mul_left c2 _) (Dvd.dvd.mul_left c1 _)
  obtain ⟨k, hk⟩ := hd
  have : k = 0 := by
    by_contra hk0
    have hm : 0 < m := by omega
    rcases lt_or_gt_of_ne hk0 with h | h
    · have : m * k ≤ m * (-1) := mul_le_mul_of_nonneg_left (by omega) (le_of_lt hm)
      omega
    · have : m * 1 ≤ m * k := mul_le_mul_of_nonneg_left (by omega) (le_of_lt hm)
      omega
  rw [this] at hk
  omega

/-- **characterisation of `Spec.inverse`** (all operands, modulus `≠ 0, ±1`) -/
theorem Spec.inverse_correct (a n : ℤ) (hn : 2 ≤ n.natAbs) :
    (Int.gcd a n ≠ 1 → Spec.inverse a n = err) ∧
    (Int.gcd a n = 1 → ∃ t, Spec.inverse a n = ok t ∧ 0 ≤ t ∧ t < (n.natAbs : ℤ) ∧
      (n.natAbs : ℤ) ∣ 1 - a * t) := by
  have hmpos : (0 : ℤ) < (n.natAbs : ℤ) := by omega
  have hmne : (n.natAbs : ℤ) ≠ 0 := by omega
  have hle : ¬ n.natAbs ≤ 1 := by omega
  set m := n.natAbs with hmdef
  have hr0 : 0 ≤ a % (m : ℤ) := Int.emod_nonneg _ hmne
  obtain ⟨hg, hbez⟩ := xgcd_spec (a % (m : ℤ)).toNat m
  have hcast : (((a % (m : ℤ)).toNat : ℕ) : ℤ) = a % (m : ℤ) := Int.toNat_of_nonneg hr0
  have hgcd : Nat.gcd (a % (m : ℤ)).toNat m = Int.gcd a n := by
    have : Int.gcd (a % (m : ℤ)) (m : ℤ) = Int.gcd a (m : ℤ) := Int.gcd_emod a m
    have hz : ∀ z : ℤ, 0 ≤ z → z.natAbs = z.toNat := by intro z hz; omega
    have h2 : Int.gcd (a % (m : ℤ)) (m : ℤ) = Nat.gcd (a % (m : ℤ)).toNat m := by
      show Nat.gcd (a % (m : ℤ)).natAbs (m : ℤ).natAbs = _
      rw [hz _ hr0]; simp
    rw [← h2, this]
    show Nat.gcd a.natAbs (m : ℤ).natAbs = Nat.gcd a.natAbs n.natAbs
    simp [hmdef, Int.natAbs_abs]
  unfold Spec.inverse
  simp only [← hmdef, hle, if_false]
  rw [hg, hgcd]
  constructor
  · intro hne; simp [hne]
  · intro h1
    simp only [h1, ne_eq, not_true_eq_false, if_false]
    refine ⟨_, rfl, Int.emod_nonneg _ hmne, Int.emod_lt_of_pos _ hmpos, ?_⟩
    rw [hgcd, h1, hcast] at hbez
    -- a * (x % m) ≡ (a % m) * x ≡ 1 (mod m)
    set x := (xgcd (a % (m : ℤ)).toNat m).2.1
    set y := (xgcd (a % (m : ℤ)).toNat m).2.2
    have e : 1 - a * (x % (m : ℤ)) =
        (m : ℤ) * (y - (a / (m : ℤ)) * x + a * (x / (m : ℤ))) := by
      have h3 : a % (m : ℤ) = a - (m : ℤ) * (a / (m : ℤ)) := Int.emod_def a m
      have h4 : x % (m : ℤ) = x - (m : ℤ) * (x / (m : ℤ)) := Int.emod_def x m
      rw [h4]
      rw [h3] at hbez
      have : (1 : ℤ) = (a - (m : ℤ) * (a / (m : ℤ))) * x + (m : ℤ) * y := by
        rw [hbez]; norm_num
      linear_combination this
    rw [e]
    exact dvd_mul_right _ _

/-! ## modular exponentiation -/

theorem emod_natAbs (y n : ℤ) : y % (n.natAbs : ℤ) = y % n := by
  rcases Int.natAbs_eq n with h | h
  · rw [← h]
  · conv_rhs => rw [h, Int.emod_neg]

/-- the executable square-and-multiply value, as an integer -/
theorem powMod_cast (x : ℤ) (k : ℕ) (n : ℤ) (hn : n ≠ 0) :
    ((powMod (x % n).toNat k n.natAbs : ℕ) : ℤ) = x ^ k % n := by
  have hpos : 0 < n.natAbs := Int.natAbs_pos.mpr hn
  rw [powMod_eq _ _ _ hpos]
  push_cast
  rw [Int.toNat_of_nonneg (Int.emod_nonneg _ hn), Int.emod_abs]
  exact (Int.mod_modEq x n).pow k

theorem Rust.modpow_eq (b e m : ℤ) (he : 0 ≤ e) (hm : 0 < m) :
    Rust.modpow b e m = ok (b ^ e.toNat % m) := by
  unfold Rust.modpow
  have h1 : ¬ e < 0 := by omega
  have h2 : m ≠ 0 := by omega
  simp only [h1, h2, if_false]
  rw [powMod_cast b e.toNat m h2, Int.fmod_eq_emod_of_nonneg _ (le_of_lt hm), Int.emod_emod_of_dvd _ (dvd_refl m)]

/-- `Spec.modExpFast` (what the driver evaluates) is `Spec.modExp` -/
theorem Spec.modExpFast_eq (a e n : ℤ) : Spec.modExpFast a e n = Spec.modExp a e n := by
  unfold Spec.modExpFast Spec.modExp
  by_cases hn : n = 0
  · simp [hn]
  · simp only [hn, if_false]
    by_cases he : 0 ≤ e
    · simp only [he, if_true]; rw [powMod_cast a e.toNat n hn]
    · simp only [he, if_false]
      cases Spec.inverse a n with
      | ok ai => simp only [bind_ok]; rw [powMod_cast ai (-e).toNat n hn]
      | err => rfl
      | panic => rfl

theorem Spec.expFast_eq (a k : ℤ) : Spec.expFast a k = Spec.exp a k := by
  unfold Spec.expFast Spec.exp
  rw [powInt_eq]

/-! ## bits -/

theorem natCast_shiftRight (x k : ℕ) : ((x : ℤ) >>> k) = ((x >>> k : ℕ) : ℤ) := rfl

theorem Rust.isBitSet_nat (x k : ℕ) : Rust.isBitSet (x : ℤ) (k : ℤ) = ok (x.testBit k) := by
  unfold Rust.isBitSet Rust.i32AsUsize
  have h : ¬ ((k : ℤ) < 0) := by omega
  simp only [h, if_false, Int.toNat_natCast, natCast_shiftRight, Nat.shiftRight_eq_div_pow]
  rw [Nat.testBit_eq_decide_div_mod_eq]
  congr 1
  have : (((x / 2 ^ k : ℕ) : ℤ) % 2 = 1) ↔ (x / 2 ^ k % 2 = 1) := by omega
  exact decide_eq_decide.mpr this

theorem Rust.setBit_nat (x k : ℕ) : Rust.setBit (x : ℤ) (k : ℤ) = ok ((x ||| 2 ^ k : ℕ) : ℤ) := by
  unfold Rust.setBit
  have h : ¬ ((k : ℤ) < 0) := by omega
  simp only [h, if_false, Int.toNat_natCast]
  rfl

theorem Ossl.isBitSet_nat (x k : ℕ) : Ossl.isBitSet (x : ℤ) (k : ℤ) = ok (x.testBit k) := by
  unfold Ossl.isBitSet
  have h : ¬ ((k : ℤ) < 0) := by omega
  simp [h]

theorem Ossl.setBit_nat (x k : ℕ) : Ossl.setBit (x : ℤ) (k : ℤ) = ok ((x ||| 2 ^ k : ℕ) : ℤ) := by
  unfold Ossl.setBit
  have h : ¬ ((k : ℤ) < 0) := by omega
  have h2 : ¬ ((x : ℤ) < 0) := by omega
  simp [h, h2]

theorem testBit_natBits_le {x i : ℕ} (h : natBits x ≤ i) : x.testBit i = false :=
  Nat.testBit_lt_two_pow (lt_two_pow_of_natBits_le h)

theorem mod_two_pow_succ' (z i : ℕ) :
    z % 2 ^ (i + 1) = z % 2 ^ i + (if z.testBit i then 2 ^ i else 0) := by
  rw [Nat.testBit_eq_decide_div_mod_eq]
  have h1 : z % 2 ^ (i + 1) = z % 2 ^ i + 2 ^ i * (z / 2 ^ i % 2) := by
    rw [pow_succ, Nat.mod_mul]
  rw [h1]
  rcases Nat.mod_two_eq_zero_or_one (z / 2 ^ i) with h | h <;> simp [h]

/-- the loop of `bitwise_or_big_int` over an API whose bit operations are the natural ones on
non-negative values: after `cnt` iterations from `i`, with `res = (x ||| y) % 2^i`, the result
is `(x ||| y) % 2^(i + cnt)` -/
theorem bitwiseOrLoop_nat (o : Ops) (x y : ℕ)
    (hget : ∀ (v i : ℕ), (v = x ∨ v = y) → o.isBitSet (v : ℤ) (i : ℤ) = ok (v.testBit i))
    (hset : ∀ (r i : ℕ), o.setBit (r : ℤ) (i : ℤ) = ok ((r ||| 2 ^ i : ℕ) : ℤ)) :
    ∀ (cnt i : ℕ), bitwiseOrLoop o (x : ℤ) (y : ℤ) cnt (i : ℤ) (((x ||| y) % 2 ^ i : ℕ) : ℤ) =
      ok (((x ||| y) % 2 ^ (i + cnt) : ℕ) : ℤ) := by
  intro cnt
  induction cnt with
  | zero => intro i; simp [bitwiseOrLoop]
  | succ cnt ih =>
    intro i
    simp only [bitwiseOrLoop]
    rw [hget x i (Or.inl rfl)]
    simp only [bind_ok]
    have hstep : ∀ c : Bool, c = (x.testBit i || y.testBit i) →
        ((if c then o.setBit (((x ||| y) % 2 ^ i : ℕ) : ℤ) (i : ℤ)
          else ok (((x ||| y) % 2 ^ i : ℕ) : ℤ)) : Outcome ℤ) =
          ok (((x ||| y) % 2 ^ (i + 1) : ℕ) : ℤ) := by
      intro c hc
      rw [mod_two_pow_succ', Nat.testBit_or, ← hc]
      cases c
      · simp
      · simp only [if_true]
        rw [hset]
        congr 2
        have hlt : (x ||| y) % 2 ^ i < 2 ^ i := Nat.mod_lt _ (by positivity)
        have := Nat.two_pow_add_eq_or_of_lt hlt 1
        simp only [mul_one] at this
        rw [Nat.lor_comm, ← this, Nat.add_comm]
    have hi : ((i : ℤ) + 1) = ((i + 1 : ℕ) : ℤ) := by push_cast; ring
    have hexp : i + (cnt + 1) = i + 1 + cnt := by omega
    cases hx : x.testBit i
    · simp only [Bool.false_eq_true, if_false]
      rw [hget y i (Or.inr rfl)]
      simp only [bind_ok]
      rw [hstep (y.testBit i) (by simp [hx])]
      simp only [bind_ok]
      rw [hi, ih (i + 1), hexp]
    · simp only [if_true, bind_ok]
      have h1 := hstep true (by simp [hx])
      simp only [if_true] at h1
      rw [h1]
      simp only [bind_ok]
      rw [hi, ih (i + 1), hexp]

theorem bitwiseOr_nat (o : Ops) (x y : ℕ)
    (hbits : ∀ v : ℕ, (v = x ∨ v = y) → o.numBits (v : ℤ) = ok ((natBits v : ℕ) : ℤ))
    (hget : ∀ (v i : ℕ), (v = x ∨ v = y) → o.isBitSet (v : ℤ) (i : ℤ) = ok (v.testBit i))
    (hset : ∀ (r i : ℕ), o.setBit (r : ℤ) (i : ℤ) = ok ((r ||| 2 ^ i : ℕ) : ℤ)) :
    bitwiseOr o (x : ℤ) (y : ℤ) = ok ((x ||| y : ℕ) : ℤ) := by
  unfold bitwiseOr
  rw [hbits x (Or.inl rfl), hbits y (Or.inr rfl)]
  simp only [bind_ok]
  have hmax : (max ((natBits x : ℕ) : ℤ) ((natBits y : ℕ) : ℤ)).toNat = max (natBits x) (natBits y) := by
    omega
  rw [hmax]
  have h := bitwiseOrLoop_nat o x y hget hset (max (natBits x) (natBits y)) 0
  simp only [pow_zero, Nat.mod_one, Nat.cast_zero, zero_add] at h
  rw [h]
  congr 2
  apply Nat.mod_eq_of_lt
  apply Nat.or_lt_two_pow
  · exact lt_two_pow_of_natBits_le (le_max_left _ _)
  · exact lt_two_pow_of_natBits_le (le_max_right _ _)

/-! ## `generate_prime_in_range`: the candidate buffer -/

theorem orLast1_append : ∀ (l1 l2 : Bytes), l2 ≠ [] → orLast1 (l1 ++ l2) = l1 ++ orLast1 l2 := by
  intro l1
  induction l1 with
  | nil => intro l2 _; rfl
  | cons x l1 ih =>
    intro l2 h2
    have hne : l1 ++ l2 ≠ [] := by simp [h2]
    rw [List.cons_append]
    cases hc : l1 ++ l2 with
    | nil => exact absurd hc hne
    | cons y t =>
      show x :: orLast1 (y :: t) = _
      rw [← hc, ih l2 h2]; rfl

theorem orLast1_cons (top : ℕ) (rest : Bytes) :
    orLast1 (top :: rest) = (if rest = [] then top ||| 1 else top) :: orLast1 rest := by
  cases rest with
  | nil => rfl
  | cons y t => simp [orLast1]

theorem orLast1_length : ∀ l : Bytes, (orLast1 l).length = l.length := by
  intro l
  induction l with
  | nil => rfl
  | cons x l ih => rw [orLast1_cons]; simp [ih]

theorem or_one_lt (x : ℕ) (h : x < 256) : x ||| 1 < 256 :=
  Nat.or_lt_two_pow (n := 8) h (by norm_num)

theorem or_one_odd (x : ℕ) : (x ||| 1) % 2 = 1 := by
  have : (x ||| 1).testBit 0 = true := by simp
  simpa [Nat.testBit_zero] using this

theorem orLast1_lt : ∀ l : Bytes, (∀ b ∈ l, b < 256) → ∀ b ∈ orLast1 l, b < 256 := by
  intro l
  induction l with
  | nil => intro _ b hb; simp [orLast1] at hb
  | cons x l ih =>
    intro h b hb
    rw [orLast1_cons] at hb
    simp only [List.mem_cons] at hb
    rcases hb with hb | hb
    · rw [hb]
      have hx := h x (by simp)
      split
      · exact or_one_lt x hx
      · exact hx
    · exact ih (fun c hc => h c (by simp [hc])) b hb

theorem orLast1_odd : ∀ l : Bytes, l ≠ [] → ofDigits 256 (orLast1 l) % 2 = 1 := by
  intro l
  induction l with
  | nil => intro h; exact absurd rfl h
  | cons x l ih =>
    intro _
    rw [orLast1_cons, ofDigits_cons, orLast1_length]
    by_cases hl : l = []
    · subst hl; simp [orLast1, ofDigits, or_one_odd]
    · simp only [hl, if_false]
      have hpos : 0 < l.length := List.length_pos_iff.mpr hl
      obtain ⟨k, hk⟩ : ∃ k, l.length = k + 1 := ⟨l.length - 1, by omega⟩
      rw [hk, pow_succ]
      have := ih hl
      have e : x * (256 ^ k * 256) = 2 * (x * 256 ^ k * 128) := by ring
      rw [e]; omega

/-- **bounds of the candidate** built by `generate_prime_in_range` from any random bytes, for
every `size_bits`, `range_bits` that pass the two assertions: the candidate is `2^size + x`
with `x < 2^range` and `x` odd (no assertion fails, nothing panics) -/
theorem primeCandidate_bounds (size range : ℕ) (rnd : Bytes)
    (h1 : 1 < range) (h2 : range ≤ size)
    (hlen : rnd.length = range / 8 + 1) (hb : ∀ b ∈ rnd, b < 256) :
    ∃ x : ℕ, primeCandidate size range rnd = ok (((2 ^ size + x : ℕ) : ℤ)) ∧ x < 2 ^ range ∧ x % 2 = 1 := by
  obtain ⟨top, rest, rfl⟩ : ∃ top rest, rnd = top :: rest := by
    cases rnd with
    | nil => simp at hlen
    | cons a l => exact ⟨a, l, rfl⟩
  have hrest : rest.length = range / 8 := by simpa using hlen
  have hs1 : size > 1 := by omega
  have hcond : range > 1 ∧ range ≤ size := ⟨h1, h2⟩
  unfold primeCandidate
  simp only [hs1, hcond, not_true_eq_false, if_false, and_self, hlen, ne_eq, rangeMask, Nat.one_shiftLeft]
  set offs := size / 8 + 1 - (range / 8 + 1) with hoffs
  have hk : range / 8 ≤ size / 8 := Nat.div_le_div_right h2
  -- the buffer after `|= 1`
  have hbuf1 : orLast1 (List.replicate offs 0 ++ top :: rest) =
      List.replicate offs 0 ++ orLast1 (top :: rest) := orLast1_append _ _ (by simp)
  rw [hbuf1, List.drop_left' (by simp), orLast1_cons]
  simp only [mapHead, Nat.and_two_pow_sub_one_eq_mod]
  set top' := (if rest = [] then top ||| 1 else top) with htop'
  set t := top' % 2 ^ (range % 8) with ht
  set rest' := orLast1 rest with hrest'
  have hrl : rest'.length = range / 8 := by rw [hrest', orLast1_length, hrest]
  have hrlt : ofDigits 256 rest' < 256 ^ (range / 8) := by
    rw [← hrl]
    exact ofDigits_lt 256 rest' (orLast1_lt rest (fun b hb' => hb b (by simp [hb'])))
  have htlt : t < 2 ^ (range % 8) := Nat.mod_lt _ (by positivity)
  have h256 : ∀ k : ℕ, (256 : ℕ) ^ k = 2 ^ (8 * k) := by
    intro k; rw [show (256 : ℕ) = 2 ^ 8 by norm_num, ← pow_mul]
  -- x = t * 256^k + rest'
  have hxlt : t * 256 ^ (range / 8) + ofDigits 256 rest' < 2 ^ range := by
    have e : (2 : ℕ) ^ range = 2 ^ (range % 8) * 256 ^ (range / 8) := by
      rw [h256, ← pow_add]; congr 1; omega
    rw [e]
    have : (t + 1) * 256 ^ (range / 8) ≤ 2 ^ (range % 8) * 256 ^ (range / 8) :=
      Nat.mul_le_mul_right _ htlt
    linarith
  have hxodd : (t * 256 ^ (range / 8) + ofDigits 256 rest') % 2 = 1 := by
    by_cases hr : rest = []
    · have hk0 : range / 8 = 0 := by rw [← hrest, hr]; rfl
      have hr' : rest' = [] := by rw [hrest', hr]; rfl
      have h8 : range % 8 ≠ 0 := by omega
      rw [hk0, hr']
      simp only [pow_zero, mul_one, ofDigits_nil, add_zero]
      rw [ht, htop']
      simp only [hr, if_true]
      have hdvd : 2 ∣ 2 ^ (range % 8) := dvd_pow_self 2 h8
      rw [Nat.mod_mod_of_dvd _ hdvd]
      exact or_one_odd top
    · have ho := orLast1_odd rest hr
      rw [← hrest'] at ho
      have hpos : 0 < range / 8 := by rw [← hrest]; exact List.length_pos_iff.mpr hr
      obtain ⟨j, hj⟩ : ∃ j, range / 8 = j + 1 := ⟨range / 8 - 1, by omega⟩
      rw [hj, pow_succ]
      have e : t * (256 ^ j * 256) = 2 * (t * 256 ^ j * 128) := by ring
      rw [e]; omega
  refine ⟨t * 256 ^ (range / 8) + ofDigits 256 rest', ?_, hxlt, hxodd⟩
  congr 2
  have hsize : (2 : ℕ) ^ size = 2 ^ (size % 8) * 256 ^ (size / 8) := by
    rw [h256, ← pow_add]; congr 1; omega
  by_cases ho : offs = 0
  · -- the range bytes fill the whole buffer
    have hkk : size / 8 = range / 8 := by omega
    have hle : range % 8 ≤ size % 8 := by
      have := Nat.div_add_mod range 8
      have := Nat.div_add_mod size 8
      omega
    rw [ho]
    simp only [List.replicate_zero, List.nil_append]
    rw [ofDigits_cons, hrl]
    have htlt' : t < 2 ^ (size % 8) := lt_of_lt_of_le htlt (Nat.pow_le_pow_right (by norm_num) hle)
    have hor : t ||| 2 ^ (size % 8) = 2 ^ (size % 8) + t := by
      have := Nat.two_pow_add_eq_or_of_lt htlt' 1
      simp only [mul_one] at this
      rw [Nat.lor_comm, ← this]
    rw [hor, hsize, hkk]
    ring
  · obtain ⟨o, hoo⟩ : ∃ o, offs = o + 1 := ⟨offs - 1, by omega⟩
    rw [hoo, List.replicate_succ, List.cons_append]
    simp only [Nat.zero_or]
    rw [ofDigits_cons, ofDigits_replicate_zero, ofDigits_cons, hrl]
    simp only [List.length_append, List.length_replicate, List.length_cons, hrl]
    have hlen' : o + (range / 8 + 1) = size / 8 := by omega
    rw [hlen', hsize]

/-! ## text: the strict numeral grammar of `Spec` is accepted, with the same value, by both
back-ends; printing followed by parsing is the identity -/

theorem char_le_iff (a b : Char) : a ≤ b ↔ a.toNat ≤ b.toNat := by
  rw [Char.le_def, UInt32.le_iff_toNat_le]; rfl

/-- what a digit of the strict grammar looks like to the other parsers -/
theorem radixDigit_spec (radix : ℕ) (hr : radix = 10 ∨ radix = 16) (c : Char) (d : ℕ)
    (h : radixDigit radix c = some d) :
    c ≠ '_' ∧ c ≠ '+' ∧ c ≠ '-' ∧ c.toNat ≠ 0 ∧ Rust.digitVal c = some d ∧ d < radix := by
  have e0 : '0'.toNat = 48 := by decide
  have e9 : '9'.toNat = 57 := by decide
  have ea : 'a'.toNat = 97 := by decide
  have ef : 'f'.toNat = 102 := by decide
  have ez : 'z'.toNat = 122 := by decide
  have eA : 'A'.toNat = 65 := by decide
  have eF : 'F'.toNat = 70 := by decide
  have eZ : 'Z'.toNat = 90 := by decide
  have key : (48 ≤ c.toNat ∧ c.toNat ≤ 57 ∧ d = c.toNat - 48) ∨
      (radix = 16 ∧ 97 ≤ c.toNat ∧ c.toNat ≤ 102 ∧ d = c.toNat - 87) ∨
      (radix = 16 ∧ 65 ≤ c.toNat ∧ c.toNat ≤ 70 ∧ d = c.toNat - 55) := by
    unfold radixDigit hexDigit decDigit at h
    simp only [char_le_iff] at h
    rw [e0, e9, ea, ef, eA, eF] at h
    rcases hr with hr | hr <;> subst hr
    · simp only [show ¬ ((10 : ℕ) = 16) by norm_num, if_false] at h
      split_ifs at h with h1
      · left; simp at h; omega
    · simp only [if_true] at h
      split_ifs at h with h1 h2 h3
      · left; simp at h; omega
      · right; left; simp at h; omega
      · right; right; simp at h; omega
  have hne : ∀ x : Char, c.toNat ≠ x.toNat → c ≠ x := fun x hx e => hx (by rw [e])
  have h95 : '_'.toNat = 95 := by decide
  have h43 : '+'.toNat = 43 := by decide
  have h45 : '-'.toNat = 45 := by decide
  refine ⟨hne _ (by rw [h95]; omega), hne _ (by rw [h43]; omega), hne _ (by rw [h45]; omega), by omega, ?_, ?_⟩
  · unfold Rust.digitVal
    simp only [char_le_iff]
    rw [e0, e9, ea, ez, eA, eZ]
    rcases key with ⟨a, b, e⟩ | ⟨_, a, b, e⟩ | ⟨_, a, b, e⟩
    · simp [a, b, e]
    · have h1 : ¬ (48 ≤ c.toNat ∧ c.toNat ≤ 57) := by omega
      have h2 : 97 ≤ c.toNat ∧ c.toNat ≤ 122 := by omega
      simp [h1, h2, e]
    · have h1 : ¬ (48 ≤ c.toNat ∧ c.toNat ≤ 57) := by omega
      have h2 : ¬ (97 ≤ c.toNat ∧ c.toNat ≤ 122) := by omega
      have h3 : 65 ≤ c.toNat ∧ c.toNat ≤ 90 := by omega
      simp [h1, h2, h3, e]
  · rcases hr with hr | hr <;> subst hr <;> omega

theorem Spec.parseDigits_rust (radix : ℕ) (hr : radix = 10 ∨ radix = 16) :
    ∀ (s : Text) (acc v : ℕ), Spec.parseDigits radix s acc = ok v →
      Rust.parseDigits radix s acc = ok v := by
  intro s
  induction s with
  | nil => intro acc v h; simpa [Spec.parseDigits, Rust.parseDigits] using h
  | cons c cs ih =>
    intro acc v h
    simp only [Spec.parseDigits] at h
    cases hd : radixDigit radix c with
    | none => rw [hd] at h; simp at h
    | some d =>
      rw [hd] at h
      obtain ⟨h1, _, _, _, h5, h6⟩ := radixDigit_spec radix hr c d hd
      simp only [Rust.parseDigits, h1, if_false, h5, h6, if_true]
      exact ih _ _ h

theorem Spec.parseDigits_ossl (radix : ℕ) (hr : radix = 10 ∨ radix = 16) :
    ∀ (s : Text) (acc v len : ℕ), Spec.parseDigits radix s acc = ok v →
      Ossl.digitPrefix radix s acc len = (v, len + s.length) ∧ s.any (fun c => c.toNat = 0) = false := by
  intro s
  induction s with
  | nil => intro acc v len h; simp [Spec.parseDigits] at h; simp [Ossl.digitPrefix, h]
  | cons c cs ih =>
    intro acc v len h
    simp only [Spec.parseDigits] at h
    cases hd : radixDigit radix c with
    | none => rw [hd] at h; simp at h
    | some d =>
      rw [hd] at h
      obtain ⟨_, _, _, h4, _, _⟩ := radixDigit_spec radix hr c d hd
      obtain ⟨i1, i2⟩ := ih _ _ (len + 1) h
      simp only [Ossl.digitPrefix, hd, i1, List.any_cons, i2, Bool.or_false, List.length_cons]
      refine ⟨by congr 1; omega, by simpa using h4⟩

/-- head of an accepted digit string -/
theorem Spec.parseDigits_head (radix : ℕ) (c : Char) (cs : Text) (acc v : ℕ)
    (h : Spec.parseDigits radix (c :: cs) acc = ok v) : ∃ d, radixDigit radix c = some d := by
  simp only [Spec.parseDigits] at h
  cases hd : radixDigit radix c with
  | none => rw [hd] at h; simp at h
  | some d => exact ⟨d, rfl⟩

/-- **every numeral of the strict grammar is read, with the same value, by the pure-Rust
parser** (`BigInt::from_str_radix`) -/
theorem Spec.parseNumeral_rust (radix : ℕ) (hr : radix = 10 ∨ radix = 16) (s : Text) (v : ℤ)
    (h : Spec.parseNumeral radix s = ok v) : Rust.parseBigInt radix s = ok v := by
  have big : ∀ (c : Char) (cs : Text) (w : ℕ), Spec.parseDigits radix (c :: cs) 0 = ok w →
      Rust.parseBigUint radix (c :: cs) = ok w ∧ c ≠ '+' ∧ c ≠ '-' := by
    intro c cs w hw
    obtain ⟨d, hd⟩ := Spec.parseDigits_head radix c cs 0 w hw
    obtain ⟨h1, h2, h3, _, _, _⟩ := radixDigit_spec radix hr c d hd
    refine ⟨?_, h2, h3⟩
    unfold Rust.parseBigUint
    simp only [List.head?_cons, Option.some.injEq, h2, false_and, if_false, h1, reduceCtorEq]
    exact Spec.parseDigits_rust radix hr _ _ _ hw
  unfold Spec.parseNumeral at h
  by_cases hm : s.head? = some '-'
  · simp only [hm, if_true] at h
    by_cases ht : s.tail = []
    · simp [ht] at h
    · simp only [ht, if_false] at h
      obtain ⟨c, cs, hcs⟩ : ∃ c cs, s.tail = c :: cs := by
        cases hc : s.tail with
        | nil => exact absurd hc ht
        | cons c cs => exact ⟨c, cs, rfl⟩
      rw [hcs] at h
      cases hp : Spec.parseDigits radix (c :: cs) 0 with
      | err => rw [hp] at h; simp at h
      | panic => rw [hp] at h; simp at h
      | ok w =>
        rw [hp] at h
        obtain ⟨hb, hplus, _⟩ := big c cs w hp
        unfold Rust.parseBigInt
        simp only [hm, if_true, hcs, List.head?_cons, Option.some.injEq, hplus, if_false, hb]
        exact h
  · simp only [hm, if_false] at h
    by_cases hs : s = []
    · simp [hs] at h
    · simp only [hs, if_false] at h
      obtain ⟨c, cs, rfl⟩ : ∃ c cs, s = c :: cs := by
        cases s with
        | nil => exact absurd rfl hs
        | cons c cs => exact ⟨c, cs, rfl⟩
      cases hp : Spec.parseDigits radix (c :: cs) 0 with
      | err => rw [hp] at h; simp at h
      | panic => rw [hp] at h; simp at h
      | ok w =>
        rw [hp] at h
        obtain ⟨hb, _, _⟩ := big c cs w hp
        unfold Rust.parseBigInt
        simp only [hm, if_false, hb]
        exact h

/-- **… and by the OpenSSL parser** (`BN_dec2bn` / `BN_hex2bn`) -/
theorem Spec.parseNumeral_ossl (radix : ℕ) (hr : radix = 10 ∨ radix = 16) (s : Text) (v : ℤ)
    (h : Spec.parseNumeral radix s = ok v) : Ossl.parsePrefix radix s = ok v := by
  unfold Spec.parseNumeral at h
  by_cases hm : s.head? = some '-'
  · simp only [hm, if_true] at h
    by_cases ht : s.tail = []
    · simp [ht] at h
    · simp only [ht, if_false] at h
      cases hp : Spec.parseDigits radix s.tail 0 with
      | err => rw [hp] at h; simp at h
      | panic => rw [hp] at h; simp at h
      | ok w =>
        rw [hp] at h
        obtain ⟨i1, i2⟩ := Spec.parseDigits_ossl radix hr s.tail 0 w 0 hp
        have hs : s = '-' :: s.tail := by
          cases s with
          | nil => simp at hm
          | cons c cs => simp at hm; simp [hm]
        have hany : (s.any fun c => c.toNat = 0) = false := by
          rw [hs]; simp only [List.any_cons]
          rw [hs] at i2; simp only [List.tail_cons] at i2
          rw [i2]; decide
        have hlen : s.tail.length ≠ 0 := by
          intro e; exact ht (List.length_eq_zero_iff.mp e)
        unfold Ossl.parsePrefix
        simp only [hany, Bool.false_eq_true, if_false, hm, if_true, i1, zero_add, hlen]
        exact h
  · simp only [hm, if_false] at h
    by_cases hs : s = []
    · simp [hs] at h
    · simp only [hs, if_false] at h
      cases hp : Spec.parseDigits radix s 0 with
      | err => rw [hp] at h; simp at h
      | panic => rw [hp] at h; simp at h
      | ok w =>
        rw [hp] at h
        obtain ⟨i1, i2⟩ := Spec.parseDigits_ossl radix hr s 0 w 0 hp
        have hlen : s.length ≠ 0 := by
          intro e; exact hs (List.length_eq_zero_iff.mp e)
        unfold Ossl.parsePrefix
        simp only [i2, Bool.false_eq_true, if_false, hm, i1, zero_add, hlen]
        exact h

/-! ### printing then parsing -/

theorem digitChar_spec : ∀ d < 16, hexDigit (digitChar d) = some d ∧ digitChar d ≠ '-' ∧
    (d < 10 → decDigit (digitChar d) = some d) := by decide

theorem Spec.parseDigits_map_digitChar (radix : ℕ) (hr : radix = 10 ∨ radix = 16) :
    ∀ (ds : List ℕ) (acc : ℕ), (∀ d ∈ ds, d < radix) →
      Spec.parseDigits radix (ds.map digitChar) acc =
        ok (ds.foldl (fun acc d => acc * radix + d) acc) := by
  intro ds
  induction ds with
  | nil => intro acc _; rfl
  | cons d ds ih =>
    intro acc h
    have hd : d < radix := h d (by simp)
    have hd16 : d < 16 := by rcases hr with hr | hr <;> omega
    obtain ⟨h1, _, h3⟩ := digitChar_spec d hd16
    have hrd : radixDigit radix (digitChar d) = some d := by
      unfold radixDigit
      rcases hr with hr | hr
      · subst hr; simp only [show ¬ ((10 : ℕ) = 16) by norm_num, if_false]; exact h3 hd
      · subst hr; simp only [if_true]; exact h1
    simp only [List.map_cons, Spec.parseDigits, hrd, List.foldl_cons]
    exact ih _ (fun x hx => h x (by simp [hx]))

/-- the text printed for a natural number reads back as that number -/
theorem Spec.parseDigits_digitsText (radix : ℕ) (hr : radix = 10 ∨ radix = 16) (n : ℕ) :
    Spec.parseDigits radix (Spec.digitsText radix n) 0 = ok n ∧
    Spec.digitsText radix n ≠ [] ∧ (Spec.digitsText radix n).head? ≠ some '-' := by
  have hr2 : 2 ≤ radix := by rcases hr with hr | hr <;> omega
  unfold Spec.digitsText
  by_cases h0 : n = 0
  · subst h0
    simp only [if_true]
    refine ⟨?_, by simp, by decide⟩
    have := Spec.parseDigits_map_digitChar radix hr [0] 0 (by simp; omega)
    simpa [digitChar] using this
  · simp only [h0, if_false]
    have hlt := toDigits_lt radix hr2 n
    obtain ⟨hh, hne⟩ := toDigits_head radix hr2 n (by omega)
    refine ⟨?_, by simpa using hne, ?_⟩
    · rw [Spec.parseDigits_map_digitChar radix hr _ 0 hlt]
      congr 1
      exact ofDigits_toDigits radix hr2 n
    · cases hc : toDigits radix n with
      | nil => exact absurd hc hne
      | cons d ds =>
        simp only [List.map_cons, List.head?_cons, ne_eq, Option.some.injEq]
        have hd : d < 16 := by
          have := hlt d (by rw [hc]; simp)
          rcases hr with hr | hr <;> omega
        exact (digitChar_spec d hd).2.1

theorem Spec.parseNumeral_print (radix : ℕ) (hr : radix = 10 ∨ radix = 16) (a : ℤ) :
    Spec.parseNumeral radix
      (if a < 0 then '-' :: Spec.digitsText radix a.natAbs else Spec.digitsText radix a.natAbs) = ok a := by
  obtain ⟨h1, h2, h3⟩ := Spec.parseDigits_digitsText radix hr a.natAbs
  by_cases ha : a < 0
  · simp only [ha, if_true]
    unfold Spec.parseNumeral
    simp only [List.head?_cons, if_true, List.tail_cons, h2, if_false, h1, map_ok]
    congr 1; omega
  · simp only [ha, if_false]
    unfold Spec.parseNumeral
    simp only [h3, if_false, h2, h1, map_ok]
    congr 1; omega

theorem Spec.parseDigits_hexOfBytes : ∀ (bs : Bytes) (acc : ℕ), (∀ b ∈ bs, b < 256) →
    Spec.parseDigits 16 (hexOfBytes bs) acc = ok (bs.foldl (fun acc d => acc * 256 + d) acc) := by
  intro bs
  induction bs with
  | nil => intro acc _; rfl
  | cons b bs ih =>
    intro acc h
    have hb : b < 256 := h b (by simp)
    have h1 := (digitChar_spec (b / 16) (by omega)).1
    have h2 := (digitChar_spec (b % 16) (by omega)).1
    simp only [hexOfBytes, Spec.parseDigits, radixDigit, if_true, h1, h2, List.foldl_cons]
    rw [ih _ (fun x hx => h x (by simp [hx]))]
    congr 2
    omega

/-- the padded hexadecimal text of OpenSSL reads back as the number -/
theorem Ossl.toHex_reads_back (a : ℤ) :
    ∃ t, Ossl.toHex a = ok t ∧ Spec.parseNumeral 16 t = ok a := by
  have key : ∀ n : ℕ, Spec.parseDigits 16
      (if (n : ℤ) = 0 then ['0'] else hexOfBytes (toDigits 256 n)) 0 = ok n ∧
      (if (n : ℤ) = 0 then ['0'] else hexOfBytes (toDigits 256 n)) ≠ [] ∧
      (if (n : ℤ) = 0 then ['0'] else hexOfBytes (toDigits 256 n)).head? ≠ some '-' := by
    intro n
    by_cases h0 : n = 0
    · subst h0; simp only [Nat.cast_zero, if_true]; decide
    · have hz : ¬ ((n : ℤ) = 0) := by omega
      simp only [hz, if_false]
      have hlt := toDigits_lt 256 (by norm_num) n
      obtain ⟨_, hne⟩ := toDigits_head 256 (by norm_num) n (by omega)
      refine ⟨?_, ?_, ?_⟩
      · rw [Spec.parseDigits_hexOfBytes _ 0 hlt]
        congr 1
        exact ofDigits_toDigits 256 (by norm_num) n
      · cases hc : toDigits 256 n with
        | nil => exact absurd hc hne
        | cons d ds => simp [hexOfBytes]
      · cases hc : toDigits 256 n with
        | nil => exact absurd hc hne
        | cons d ds =>
          simp only [hexOfBytes, List.head?_cons, ne_eq, Option.some.injEq]
          have hd : d < 256 := hlt d (by rw [hc]; simp)
          exact (digitChar_spec (d / 16) (by omega)).2.1
  unfold Ossl.toHex
  refine ⟨_, rfl, ?_⟩
  by_cases ha : a < 0
  · have hn : a ≠ 0 := by omega
    obtain ⟨k1, k2, _⟩ := key a.natAbs
    have hz : ¬ ((a.natAbs : ℤ) = 0) := by omega
    simp only [hz, if_false] at k1 k2
    simp only [ha, if_true, hn, if_false]
    unfold Spec.parseNumeral
    simp only [List.head?_cons, if_true, List.tail_cons, k2, if_false, k1, map_ok]
    congr 1; omega
  · simp only [ha, if_false]
    obtain ⟨k1, k2, k3⟩ := key a.natAbs
    have e : ((a.natAbs : ℕ) : ℤ) = a := by omega
    rw [e] at k1 k2 k3
    unfold Spec.parseNumeral
    simp only [k3, if_false, k2, k1, map_ok]
    congr 1

/-! ### `is_numeral` is exactly the strict grammar -/

theorem Spec.parseDigits_of_all (radix : ℕ) : ∀ (s : Text) (acc : ℕ),
    (s.all fun c => (radixDigit radix c).isSome) = true → ∃ v, Spec.parseDigits radix s acc = ok v := by
  intro s
  induction s with
  | nil => intro acc _; exact ⟨acc, rfl⟩
  | cons c cs ih =>
    intro acc h
    simp only [List.all_cons, Bool.and_eq_true] at h
    obtain ⟨d, hd⟩ := Option.isSome_iff_exists.mp h.1
    simp only [Spec.parseDigits, hd]
    exact ih _ h.2

theorem Spec.parseDigits_of_not_all (radix : ℕ) : ∀ (s : Text) (acc : ℕ),
    (s.all fun c => (radixDigit radix c).isSome) = false → Spec.parseDigits radix s acc = err := by
  intro s
  induction s with
  | nil => intro acc h; simp at h
  | cons c cs ih =>
    intro acc h
    simp only [Spec.parseDigits]
    cases hd : radixDigit radix c with
    | none => rfl
    | some d =>
      simp only [List.all_cons, hd, Option.isSome_some, Bool.true_and] at h
      exact ih _ h

/-- the guard `is_numeral` accepts exactly the texts the specification reads -/
theorem Spec.parseNumeral_isNumeral (radix : ℕ) (s : Text) :
    (isNumeral radix s = true → ∃ v, Spec.parseNumeral radix s = ok v) ∧
    (isNumeral radix s = false → Spec.parseNumeral radix s = err) := by
  unfold isNumeral Spec.parseNumeral
  by_cases hm : s.head? = some '-'
  · simp only [hm, if_true]
    by_cases ht : s.tail = []
    · simp [ht]
    · have he : s.tail.isEmpty = false := by simpa using ht
      simp only [he, Bool.not_false, Bool.true_and, ht, if_false]
      constructor
      · intro h
        obtain ⟨v, hv⟩ := Spec.parseDigits_of_all radix s.tail 0 h
        exact ⟨_, by rw [hv]; rfl⟩
      · intro h; rw [Spec.parseDigits_of_not_all radix s.tail 0 h]; rfl
  · simp only [hm, if_false]
    by_cases hs : s = []
    · simp [hs]
    · have he : s.isEmpty = false := by simpa using hs
      simp only [he, Bool.not_false, Bool.true_and, hs, if_false]
      constructor
      · intro h
        obtain ⟨v, hv⟩ := Spec.parseDigits_of_all radix s 0 h
        exact ⟨_, by rw [hv]; rfl⟩
      · intro h; rw [Spec.parseDigits_of_not_all radix s 0 h]; rfl

/-- **the guarded parsers of both back-ends are the specification, for every text** -/
theorem parsers_eq_spec (radix : ℕ) (hr : radix = 10 ∨ radix = 16) (s : Text) :
    (if !isNumeral radix s then err else Rust.parseBigInt radix s) = Spec.parseNumeral radix s ∧
    (if !isNumeral radix s then err else Ossl.parsePrefix radix s) = Spec.parseNumeral radix s := by
  obtain ⟨h1, h2⟩ := Spec.parseNumeral_isNumeral radix s
  cases hn : isNumeral radix s with
  | false => simp [h2 hn]
  | true =>
    obtain ⟨v, hv⟩ := h1 hn
    simp only [Bool.not_true, Bool.false_eq_true, if_false]
    rw [hv, Spec.parseNumeral_rust radix hr s v hv, Spec.parseNumeral_ossl radix hr s v hv]
    exact ⟨rfl, rfl⟩

end CL.BN
