import CLModel.Model.Zn
import Mathlib.Data.Int.GCD
import Mathlib.Data.Nat.ModEq
import Mathlib.Data.Int.ModEq
import Mathlib.Tactic.Ring
/-!
# Arithmetic facts about the executable group `Zn` (`Model/Zn.lean`)

`modPowNat b e m = b^e % m`, and `modInv a n` returns the reduced inverse of `a` modulo `n`
exactly when `a` is coprime to `n > 1`.
-/
namespace CL.Zn

theorem powLoop_modEq (m : Nat) : ∀ (ex r b : Nat), powLoop m r b ex ≡ r * b ^ ex [MOD m] := by
  intro ex
  induction ex using Nat.strong_induction_on with
  | _ ex ih =>
    intro r b
    rw [powLoop]
    split
    · next h => subst h; simp [Nat.ModEq]
    · next h =>
      have hlt : ex / 2 < ex := by omega
      have hb : (b * b % m) ^ (ex / 2) ≡ b ^ (2 * (ex / 2)) [MOD m] := by
        rw [pow_mul, pow_two]
        exact (Nat.mod_modEq _ _).pow _
      refine (ih _ hlt _ _).trans ?_
      split
      · next h1 =>
        have he : ex = 2 * (ex / 2) + 1 := by omega
        calc r * b % m * (b * b % m) ^ (ex / 2)
            ≡ r * b * b ^ (2 * (ex / 2)) [MOD m] := (Nat.mod_modEq _ _).mul hb
          _ = r * b ^ (2 * (ex / 2) + 1) := by ring
          _ = r * b ^ ex := by rw [← he]
      · next h1 =>
        have he : ex = 2 * (ex / 2) := by omega
        calc r * (b * b % m) ^ (ex / 2)
            ≡ r * b ^ (2 * (ex / 2)) [MOD m] := Nat.ModEq.mul_left _ hb
          _ = r * b ^ ex := by rw [← he]

theorem powLoop_lt (m : Nat) (hm : 0 < m) : ∀ (ex r b : Nat), r < m → powLoop m r b ex < m := by
  intro ex
  induction ex using Nat.strong_induction_on with
  | _ ex ih =>
    intro r b hr
    rw [powLoop]
    split
    · exact hr
    · next h =>
      apply ih _ (by omega)
      split
      · exact Nat.mod_lt _ hm
      · exact hr

/-- the executable modular exponentiation is exponentiation modulo `m` (every `m`, also 0 and 1) -/
theorem modPowNat_eq (b e m : Nat) : modPowNat b e m = b ^ e % m := by
  unfold modPowNat
  split
  · next h => subst h; simp [Nat.mod_one]
  · next h =>
    have h1 := powLoop_modEq m e 1 (b % m)
    rcases Nat.eq_zero_or_pos m with h0 | hpos
    · subst h0
      simpa [Nat.ModEq] using h1
    · have hlt := powLoop_lt m hpos e 1 (b % m) (by omega)
      have : powLoop m 1 (b % m) e % m = (b % m) ^ e % m := by simpa [Nat.ModEq] using h1
      rw [Nat.mod_eq_of_lt hlt] at this
      rw [this, ← Nat.pow_mod]

/-- invariant of the extended Euclidean loop -/
theorem egcdGo_spec (a n : Int) (r0 r1 t0 t1 : Int) (h0 : 0 ≤ r0) (h1 : 0 ≤ r1)
    (d0 : n ∣ r0 - t0 * a) (d1 : n ∣ r1 - t1 * a) :
    n ∣ (egcdGo r0 r1 t0 t1).1 - (egcdGo r0 r1 t0 t1).2 * a ∧
      (egcdGo r0 r1 t0 t1).1 = Int.gcd r0 r1 := by
  fun_induction egcdGo r0 r1 t0 t1 with
  | case1 r0 t0 t1 =>
    refine ⟨d0, ?_⟩
    simp only [Int.gcd_zero_right]
    omega
  | case2 r0 r1 t0 t1 h ih =>
    have hm : 0 ≤ r0 % r1 := Int.emod_nonneg r0 h
    have hd : n ∣ r0 % r1 - (t0 - r0 / r1 * t1) * a := by
      have : r0 % r1 - (t0 - r0 / r1 * t1) * a = (r0 - t0 * a) - (r0 / r1) * (r1 - t1 * a) := by
        rw [Int.emod_def]; ring
      rw [this]
      exact Int.dvd_sub d0 (Dvd.dvd.mul_left d1 _)
    obtain ⟨ihd, ihg⟩ := ih h1 hm d1 hd
    refine ⟨ihd, ?_⟩
    rw [ihg]
    congr 1
    rw [Int.emod_def, Int.gcd_sub_mul_left_right, Int.gcd_comm]

theorem egcd_spec (a n : Int) (hn : 0 < n) :
    n ∣ (egcd a n).1 - (egcd a n).2 * a ∧ (egcd a n).1 = Int.gcd a n := by
  unfold egcd
  have hm : 0 ≤ a % n := Int.emod_nonneg a (by omega)
  have d0 : n ∣ a % n - 1 * a := by
    rw [Int.emod_def]; exact ⟨-(a / n), by ring⟩
  have d1 : n ∣ n - 0 * a := by simp
  obtain ⟨hd, hg⟩ := egcdGo_spec a n (a % n) n 1 0 hm (by omega) d0 d1
  refine ⟨hd, ?_⟩
  rw [hg, Int.emod_def, Int.gcd_comm, Int.gcd_sub_mul_left_right, Int.gcd_comm]

/-- soundness of `modInv`: a returned value is the reduced inverse -/
theorem modInv_ok {a n x : Int} (h : modInv a n = .ok x) :
    1 < n ∧ 0 ≤ x ∧ x < n ∧ (a * x) % n = 1 := by
  unfold modInv at h
  split at h
  · cases h
  · next hn =>
    have hn' : 1 < n := by omega
    simp only at h
    split at h
    · next hg =>
      injection h with hx
      obtain ⟨hd, _⟩ := egcd_spec (a % n) n (by omega)
      have hg' : (egcd (a % n) n).1 = 1 := by simpa using hg
      rw [hg'] at hd
      refine ⟨hn', ?_, ?_, ?_⟩
      · rw [← hx]; exact Int.emod_nonneg _ (by omega)
      · rw [← hx]; exact Int.emod_lt_of_pos _ (by omega)
      · have h1 : (a * x) ≡ 1 [ZMOD n] := by
          rw [← hx]
          have e1 : (egcd (a % n) n).2 % n ≡ (egcd (a % n) n).2 [ZMOD n] := Int.mod_modEq _ _
          have e2 : a % n ≡ a [ZMOD n] := Int.mod_modEq _ _
          have e3 : (egcd (a % n) n).2 * (a % n) ≡ 1 [ZMOD n] := by
            have := (Int.modEq_iff_dvd.mpr hd)
            exact this
          calc a * ((egcd (a % n) n).2 % n) ≡ (a % n) * (egcd (a % n) n).2 [ZMOD n] :=
                Int.ModEq.mul e2.symm e1
            _ = (egcd (a % n) n).2 * (a % n) := by ring
            _ ≡ 1 [ZMOD n] := e3
        have := h1
        unfold Int.ModEq at this
        rw [this]
        exact Int.emod_eq_of_lt (by omega) hn'
    · cases h

/-- completeness of `modInv`: every `a` coprime to `n > 1` has its inverse computed -/
theorem modInv_complete {a n : Int} (hn : 1 < n) (hc : Int.gcd a n = 1) :
    ∃ x, modInv a n = .ok x := by
  unfold modInv
  rw [if_neg (by omega)]
  obtain ⟨_, hg⟩ := egcd_spec (a % n) n (by omega)
  have : (egcd (a % n) n).1 = 1 := by
    rw [hg, Int.emod_def, Int.gcd_comm, Int.gcd_sub_mul_left_right, Int.gcd_comm, hc]; rfl
  simp [this]

/-- `modInv` refuses exactly the non-units (and every modulus ≤ 1); it never panics -/
theorem modInv_err_of_not_coprime {a n : Int} (hc : Int.gcd a n ≠ 1) : modInv a n = .err := by
  unfold modInv
  split
  · rfl
  · next hn =>
    obtain ⟨_, hg⟩ := egcd_spec (a % n) n (by omega)
    have : (egcd (a % n) n).1 ≠ 1 := by
      rw [hg, Int.emod_def, Int.gcd_comm, Int.gcd_sub_mul_left_right, Int.gcd_comm]
      exact_mod_cast hc
    simp [this]

end CL.Zn
