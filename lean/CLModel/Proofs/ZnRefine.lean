import CLModel.Proofs.Zn
import CLModel.Proofs.OpsRel
import CLModel.Proofs.Primary
import Mathlib.Data.ZMod.Basic
import Mathlib.Data.ZMod.Units
/-!
# `Zn_refines_units`: the executable group `Int mod n` refines the additive proof group

For a modulus `N > 1` the proof group is `U N := Additive (ZMod N)ˣ`.  `Rel N x u` says that the
integer `x` is the reduced representative (`0 ≤ x < N`) of the unit `u`.  `znOps_refines`: the
five operations of `Zn.znOps N`, the byte encoding and the equality test correspond, under `Rel`,
to those of `addOps (encU N)` — so every theorem proved over the additive instance about a
function that is written over an arbitrary `GroupOps` transfers to what the driver executes.
-/
namespace CL.Zn
open CL CL.Pri

abbrev U (N : ℕ) := Additive (ZMod N)ˣ

/-- the value of a group element as a residue -/
def uval {N : ℕ} (u : U N) : ZMod N := ((Additive.toMul u : (ZMod N)ˣ) : ZMod N)

/-- `x` is the reduced representative of the unit `u` -/
def Rel (N : ℕ) (x : Int) (u : U N) : Prop := 0 ≤ x ∧ x < N ∧ ((x : ZMod N) = uval u)

/-- bytes of the reduced representative -/
noncomputable def encU (N : ℕ) (u : U N) : ByteArray := encInt ((uval u).val : Int)

variable {N : ℕ}

theorem rel_unique [NeZero N] {x y : Int} {u : U N} (hx : Rel N x u) (hy : Rel N y u) : x = y := by
  obtain ⟨hx0, hxn, hxe⟩ := hx
  obtain ⟨hy0, hyn, hye⟩ := hy
  have h : (x : ZMod N) = (y : ZMod N) := by rw [hxe, hye]
  rw [ZMod.intCast_eq_intCast_iff] at h
  have := h.eq
  rw [Int.emod_eq_of_lt hx0 hxn, Int.emod_eq_of_lt hy0 hyn] at this
  exact this

theorem rel_val [NeZero N] {x : Int} {u : U N} (h : Rel N x u) : ((uval u).val : Int) = x := by
  obtain ⟨h0, hn, he⟩ := h
  rw [← he, ZMod.val_intCast, Int.emod_eq_of_lt h0 hn]

theorem rel_of_cast {y : Int} (h0 : 0 ≤ y) (hn : y < N) (u : U N)
    (he : (y : ZMod N) = uval u) : Rel N y u := ⟨h0, hn, he⟩

theorem rel_coprime {x : Int} {u : U N} (h : Rel N x u) : Int.gcd x N = 1 := by
  obtain ⟨h0, _, he⟩ := h
  have hu : IsUnit ((x.toNat : ℕ) : ZMod N) := by
    have : ((x.toNat : ℕ) : ZMod N) = (x : ZMod N) := by
      rw [← Int.cast_natCast, Int.toNat_of_nonneg h0]
    rw [this, he]
    exact (Additive.toMul u).isUnit
  have := (ZMod.isUnit_iff_coprime _ _).mp hu
  rw [Int.gcd, Int.natAbs_natCast]
  have hx : x.natAbs = x.toNat := by omega
  rw [hx]; exact this

theorem rel_mul (hN : 1 < N) {a b : Int} {u v : U N} (ha : Rel N a u) (hb : Rel N b v) :
    Rel N ((a * b) % N) (u + v) := by
  have hpos : (0 : Int) < N := by exact_mod_cast (by omega : 0 < N)
  refine ⟨Int.emod_nonneg _ (by omega), Int.emod_lt_of_pos _ hpos, ?_⟩
  rw [ZMod.intCast_mod]
  simp only [uval, toMul_add, Units.val_mul, Int.cast_mul]
  rw [ha.2.2, hb.2.2]; rfl

theorem rel_one (hN : 1 < N) : Rel N 1 (0 : U N) := by
  refine ⟨by omega, by exact_mod_cast hN, ?_⟩
  simp [uval]

/-- non-negative powers -/
theorem rel_pow_nat (hN : 1 < N) {b : Int} {u : U N} (hb : Rel N b u) (k : ℕ) :
    Rel N ((modPowNat b.toNat k N : ℕ) : Int) (k • u) := by
  have hpos : 0 < N := by omega
  rw [modPowNat_eq]
  refine ⟨Int.natCast_nonneg _, by exact_mod_cast Nat.mod_lt _ hpos, ?_⟩
  have hb' : ((b.toNat : ℕ) : ZMod N) = uval u := by
    rw [← hb.2.2, ← Int.cast_natCast, Int.toNat_of_nonneg hb.1]
  simp only [uval, toMul_nsmul, Units.val_pow_eq_pow_val, Int.cast_natCast, ZMod.natCast_mod,
    Nat.cast_pow]
  rw [hb']; rfl

theorem rel_inv (hN : 1 < N) {a : Int} {u : U N} (ha : Rel N a u) :
    ∃ y, modInv a N = .ok y ∧ Rel N y (-u) := by
  have hN' : (1 : Int) < N := by exact_mod_cast hN
  obtain ⟨y, hy⟩ := modInv_complete hN' (rel_coprime ha)
  refine ⟨y, hy, ?_⟩
  obtain ⟨_, h0, hn, hmul⟩ := modInv_ok hy
  refine ⟨h0, hn, ?_⟩
  have h1 : ((a * y : Int) : ZMod N) = 1 := by
    rw [← ZMod.intCast_mod, hmul]; simp
  rw [Int.cast_mul, ha.2.2] at h1
  simp only [uval, toMul_neg]
  have : (y : ZMod N) = (Additive.toMul u)⁻¹.val := by
    have h2 := (Additive.toMul u).inv_mul
    calc (y : ZMod N) = ((Additive.toMul u)⁻¹.val * (Additive.toMul u).val) * (y : ZMod N) := by
          rw [Units.inv_mul]; simp
      _ = (Additive.toMul u)⁻¹.val * (uval u * (y : ZMod N)) := by rw [mul_assoc]; rfl
      _ = (Additive.toMul u)⁻¹.val := by rw [h1, mul_one]
  exact this

theorem rel_pow (hN : 1 < N) {b : Int} {u : U N} (hb : Rel N b u) (e : Int) :
    ORel (Rel N) ((znOps N).pow b e) (.ok (e • u)) := by
  have hN0 : ((N : Int) == 0) = false := by
    simp; omega
  show ORel (Rel N) (if ((N : Int) == 0) = true then _ else if e < 0 then _ else _) _
  rw [hN0]
  simp only [Bool.false_eq_true, if_false]
  split
  · next he =>
    obtain ⟨y, hy, hry⟩ := rel_inv hN hb
    rw [hy]
    simp only [Int.natAbs_natCast]
    have := rel_pow_nat hN hry e.natAbs
    have hs : e.natAbs • (-u) = e • u := by
      have : e = -(e.natAbs : Int) := by omega
      conv_rhs => rw [this]
      rw [neg_smul, natCast_zsmul]
      exact neg_nsmul _ _
    rw [hs] at this
    exact this
  · next he =>
    simp only [Int.natAbs_natCast]
    have hbm : b % (N : Int) = b := Int.emod_eq_of_lt hb.1 hb.2.1
    rw [hbm]
    have := rel_pow_nat hN hb e.toNat
    have hs : e.toNat • u = e • u := by
      have : e = (e.toNat : Int) := by omega
      conv_rhs => rw [this]
      rw [natCast_zsmul]
    rw [hs] at this
    exact this

/-- **`Zn_refines_units`**: the driver's group refines the additive proof group -/
theorem znOps_refines (hN : 1 < N) : OpsRel (Rel N) (znOps N) (addOps (encU N)) := by
  have : NeZero N := ⟨by omega⟩
  refine ⟨?_, ?_, ?_, ?_, ?_, ?_⟩
  · intro a a' b b' ha hb; exact rel_mul hN ha hb
  · intro a a' e ha; exact rel_pow hN ha e
  · intro a a' ha
    obtain ⟨y, hy, hry⟩ := rel_inv hN ha
    show ORel (Rel N) (modInv a N) (.ok (-a'))
    rw [hy]; exact hry
  · exact rel_one hN
  · intro a a' ha
    show encInt a = encInt ((uval a').val : Int)
    rw [rel_val ha]
  · intro a a' b b' ha hb
    show (a == b) = decide (a' = b')
    by_cases h : a' = b'
    · subst h
      simp [rel_unique ha hb]
    · have : a ≠ b := by
        intro hab; subst hab
        apply h
        have : uval a' = uval b' := by rw [← ha.2.2, ← hb.2.2]
        exact Additive.toMul.injective (Units.ext this)
      simp [h, this]


/-! ## the same refinement onto any subgroup of the units (e.g. the quadratic residues, in which
an honest key and every `A` live and on which the issuer's `e⁻¹ mod p'q'` is an inverse) -/

/-- `x` is the reduced representative of the element `u` of the subgroup `S` -/
def RelS (N : ℕ) (S : AddSubgroup (U N)) (x : Int) (u : S) : Prop := Rel N x (u : U N)

noncomputable def encS (N : ℕ) (S : AddSubgroup (U N)) (u : S) : ByteArray := encU N (u : U N)

theorem relS_unique [NeZero N] {S : AddSubgroup (U N)} {x y : Int} {u : S}
    (hx : RelS N S x u) (hy : RelS N S y u) : x = y := rel_unique hx hy

theorem znOps_refines_sub (hN : 1 < N) (S : AddSubgroup (U N)) :
    OpsRel (RelS N S) (znOps N) (addOps (encS N S)) := by
  have h := znOps_refines hN
  refine ⟨?_, ?_, ?_, ?_, ?_, ?_⟩
  · intro a a' b b' ha hb
    exact h.mul (a' := (a' : U N)) (b' := (b' : U N)) ha hb
  · intro a a' e ha
    have := h.pow (a' := (a' : U N)) e ha
    show ORel (RelS N S) ((znOps N).pow a e) (.ok (e • a'))
    cases hp : (znOps N).pow a e with
    | ok y =>
      rw [hp] at this
      have hy : Rel N y (e • (a' : U N)) := this
      show Rel N y ((e • a' : S) : U N)
      rw [AddSubgroup.coe_zsmul]; exact hy
    | err => rw [hp] at this; exact absurd this (by simp [ORel, addOps])
    | panic => rw [hp] at this; exact absurd this (by simp [ORel, addOps])
  · intro a a' ha
    have := h.inv (a' := (a' : U N)) ha
    show ORel (RelS N S) ((znOps N).inv a) (.ok (-a'))
    cases hp : (znOps N).inv a with
    | ok y =>
      rw [hp] at this
      have hy : Rel N y (-(a' : U N)) := this
      show Rel N y ((-a' : S) : U N)
      rw [AddSubgroup.coe_neg]; exact hy
    | err => rw [hp] at this; exact absurd this (by simp [ORel, addOps])
    | panic => rw [hp] at this; exact absurd this (by simp [ORel, addOps])
  · show Rel N 1 ((0 : S) : U N)
    rw [AddSubgroup.coe_zero]; exact rel_one hN
  · intro a a' ha
    exact h.enc (a' := (a' : U N)) ha
  · intro a a' b b' ha hb
    have := h.beq (a' := (a' : U N)) (b' := (b' : U N)) ha hb
    show (a == b) = decide (a' = b')
    have h2 : (a == b) = decide ((a' : U N) = (b' : U N)) := this
    rw [h2]
    by_cases hab : a' = b'
    · subst hab; simp
    · have : (a' : U N) ≠ (b' : U N) := fun hc => hab (Subtype.ext hc)
      simp only [hab, this, decide_false]

end CL.Zn
