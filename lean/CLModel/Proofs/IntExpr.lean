import CLModel.Model.Basic
/-! Lemmas for evaluating translator-extracted integer expressions. -/
namespace CL

theorem IntTy.fit_ok {t : IntTy} {m : OvfMode} {v : Int} (h1 : t.lo ≤ v) (h2 : v ≤ t.hi) :
    t.fit m v = .ok v := by
  simp [IntTy.fit, IntTy.inRange, h1, h2]

theorem IntTy.fit_checked_panic {t : IntTy} {v : Int} (h : v < t.lo ∨ t.hi < v) :
    t.fit .checked v = .panic := by
  have : t.inRange v = false := by
    simp only [IntTy.inRange, Bool.and_eq_false_iff, decide_eq_false_iff_not]; omega
  simp [IntTy.fit, this]

theorem IntTy.fit_wrapping {t : IntTy} {v : Int} (h : v < t.lo ∨ t.hi < v) :
    t.fit .wrapping v = .ok (t.wrap v) := by
  have : t.inRange v = false := by
    simp only [IntTy.inRange, Bool.and_eq_false_iff, decide_eq_false_iff_not]; omega
  simp [IntTy.fit, this]

@[simp] theorem u32_lo : IntTy.u32.lo = 0 := rfl
@[simp] theorem u32_hi : IntTy.u32.hi = 4294967295 := rfl
@[simp] theorem i32_lo : IntTy.i32.lo = -2147483648 := rfl
@[simp] theorem i32_hi : IntTy.i32.hi = 2147483647 := rfl
@[simp] theorem i64_lo : IntTy.i64.lo = -9223372036854775808 := rfl
@[simp] theorem i64_hi : IntTy.i64.hi = 9223372036854775807 := rfl
@[simp] theorem u32_size : IntTy.u32.size = 4294967296 := rfl
@[simp] theorem i32_size : IntTy.i32.size = 4294967296 := rfl
@[simp] theorem i64_size : IntTy.i64.size = 18446744073709551616 := rfl

end CL

namespace CL
theorem binop_add_ok (t : IntTy) (m : OvfMode) (a b : Int) :
    binop t m (fun x y => .ok (x + y)) (.ok a) (.ok b) = t.fit m (a + b) := rfl
theorem binop_sub_ok (t : IntTy) (m : OvfMode) (a b : Int) :
    binop t m (fun x y => .ok (x - y)) (.ok a) (.ok b) = t.fit m (a - b) := rfl
theorem binop_mul_ok (t : IntTy) (m : OvfMode) (a b : Int) :
    binop t m (fun x y => .ok (x * y)) (.ok a) (.ok b) = t.fit m (a * b) := rfl
theorem binop_div_ok (t : IntTy) (m : OvfMode) (a b : Int) (hb : b ≠ 0) :
    binop t m (fun x y => if y == 0 then .panic else .ok (Int.tdiv x y)) (.ok a) (.ok b)
      = t.fit m (Int.tdiv a b) := by
  have : (b == 0) = false := by simpa using hb
  simp only [binop, this]
  rfl
theorem cmpOp_ok (f : Int → Int → Bool) (a b : Int) : cmpOp f (.ok a) (.ok b) = .ok (f a b) := rfl
end CL

namespace CL
theorem orOp_true (b : Unit → Outcome Bool) : orOp b (.ok true) = .ok true := rfl
theorem orOp_false (b : Unit → Outcome Bool) : orOp b (.ok false) = b () := rfl
theorem andOp_true (b : Unit → Outcome Bool) : andOp b (.ok true) = b () := rfl
theorem andOp_false (b : Unit → Outcome Bool) : andOp b (.ok false) = .ok false := rfl
theorem notOp_ok (v : Bool) : notOp (.ok v) = .ok (!v) := rfl
theorem castOp_ok (t : IntTy) (x : Int) : castOp t (.ok x) = .ok (t.wrap x) := rfl
end CL
