import CLModel.Props.C17
/-!
# C18 — The two big-number back-ends are interchangeable

`backend_equiv_<op>`: `Rust.op args = Ossl.op args` (value, text and byte encodings, ok/err) —
corollaries of the two refinement theorems of `CLModel.Props.C17`.  After the repairs in `/repo`
the equivalences hold for all inputs for every operation except: the hexadecimal *text*
(OpenSSL pads to whole bytes: `to_hex_differs`, a known finding), and — outside the domain of
C17 — bit operations on negative values and exponents of `exp` above `2^64`
(`bits_negative_differ`, `exp_huge_exponent_differs`).
-/
namespace CL.C18
open CL CL.BN CL.Outcome CL.C17

/-! ## operations on which the back-ends agree for all inputs -/

theorem backend_equiv_ring (a b : ℤ) :
    Rust.add a b = Ossl.add a b ∧ Rust.sub a b = Ossl.sub a b ∧ Rust.mul a b = Ossl.mul a b ∧
    Rust.sqr a = Ossl.sqr a ∧ Rust.div a b = Ossl.div a b ∧ Rust.gcd a b = Ossl.gcd a b ∧
    Rust.cmp a b = Ossl.cmp a b ∧ Rust.eq a b = Ossl.eq a b ∧
    Rust.isNegative a = Ossl.isNegative a ∧ Rust.numBits a = Ossl.numBits a ∧
    Rust.lshift1 a = Ossl.lshift1 a :=
  ⟨rfl, rfl, rfl, rfl, rfl, rfl, rfl, rfl, rfl, rfl, rfl⟩

theorem backend_equiv_word_ops (a : ℤ) (w : ℕ) :
    Rust.addWord a w = Ossl.addWord a w ∧ Rust.subWord a w = Ossl.subWord a w ∧
    Rust.mulWord a w = Ossl.mulWord a w ∧ Rust.divWord a w = Ossl.divWord a w :=
  ⟨rfl, rfl, rfl, rfl⟩

/-- the sign handling of the pure-Rust `modulus` is `BN_nnmod`, for every dividend and every
modulus of either sign (zero modulus: an error on both) -/
theorem backend_equiv_modulus (a n : ℤ) : Rust.modulus a n = Ossl.modulus a n := by
  rw [rust_modulus_refines_spec, ossl_modulus_refines_spec]

theorem backend_equiv_mod_mul (a b n : ℤ) : Rust.modMul a b n = Ossl.modMul a b n := by
  rw [rust_mod_mul_refines_spec, ossl_mod_mul_refines_spec]

theorem backend_equiv_mod_sub (a b n : ℤ) : Rust.modSub a b n = Ossl.modSub a b n := by
  rw [rust_mod_sub_refines_spec, ossl_mod_sub_refines_spec]

theorem backend_equiv_set_negative (a : ℤ) (neg : Bool) :
    Rust.setNegative a neg = Ossl.setNegative a neg := by
  rw [rust_set_negative_refines_spec, ossl_set_negative_refines_spec]

/-- the own extended Euclid of the pure-Rust back-end is `BN_mod_inverse`: same value, same
errors, for every operand and every modulus -/
theorem backend_equiv_inverse (a n : ℤ) : Rust.inverse a n = Ossl.inverse a n := by
  rw [rust_inverse_refines_spec, ossl_inverse_refines_spec]

theorem backend_equiv_mod_div (a b n : ℤ) : Rust.modDiv a b n = Ossl.modDiv a b n := by
  rw [rust_mod_div_refines_spec, ossl_mod_div_refines_spec]

/-- every base, exponent of either sign, modulus of either sign or zero -/
theorem backend_equiv_mod_exp (a e n : ℤ) : Rust.modExp a e n = Ossl.modExp a e n := by
  rw [rust_mod_exp_refines_spec, ossl_mod_exp_refines_spec]

theorem backend_equiv_increment (a : ℤ) :
    Rust.increment a = Ossl.increment a ∧ Rust.decrement a = Ossl.decrement a := ⟨rfl, rfl⟩

theorem backend_equiv_from_u32 (n : ℕ) : Rust.fromU32 n = Ossl.fromU32 n := rfl

theorem backend_equiv_from_bytes (bs : Bytes) : Rust.fromBytes bs = Ossl.fromBytes bs := rfl

/-- the byte encoding is the same for every value, zero included (the empty string) -/
theorem backend_equiv_to_bytes (a : ℤ) : Rust.toBytes a = Ossl.toBytes a := by
  obtain ⟨h1, h2⟩ := to_bytes_refines_spec a
  rw [h1, h2]

/-- consequently the byte strings handed to the Fiat–Shamir hash are the same lists on both
back-ends, whatever values are hashed -/
theorem hash_inputs_agree (vs : List ℤ) : vs.map Rust.toBytes = vs.map Ossl.toBytes := by
  apply List.map_congr_left
  intro a _
  exact backend_equiv_to_bytes a

theorem backend_equiv_to_dec (a : ℤ) : Rust.toDec a = Ossl.toDec a := by
  obtain ⟨h1, h2, _⟩ := to_text_refines_spec a
  rw [h1, h2]

/-- every text is read identically (same value or an error on both) -/
theorem backend_equiv_from_text (s : Text) :
    Rust.fromDec s = Ossl.fromDec s ∧ Rust.fromHex s = Ossl.fromHex s := by
  obtain ⟨a, b⟩ := from_dec_refines_spec s
  obtain ⟨c, d⟩ := from_hex_refines_spec s
  exact ⟨by rw [a, b], by rw [c, d]⟩

/-- what one back-end prints in decimal the other reads back as the same number (serialised
artefacts carry big numbers as decimal text) -/
theorem decimal_text_exchange (a : ℤ) :
    (Rust.toDec a).bind Ossl.fromDec = ok a ∧ (Ossl.toDec a).bind Rust.fromDec = ok a := by
  obtain ⟨_, _, h3, _, h5, _⟩ := text_round_trip a
  constructor
  · rw [backend_equiv_to_dec a]; exact h5
  · rw [← backend_equiv_to_dec a]; exact h3

/-- hexadecimal text exchanged in either direction is read as the same number, although the
texts themselves differ (`to_hex_differs`) -/
theorem hex_text_exchange (a : ℤ) :
    (Rust.toHex a).bind Ossl.fromHex = ok a ∧ (Ossl.toHex a).bind Rust.fromHex = ok a := by
  obtain ⟨_, _, _, h4, _, h6⟩ := text_round_trip a
  constructor
  · cases h : Rust.toHex a with
    | ok t => rw [h] at h4; simp only [bind_ok] at h4 ⊢; rw [← (backend_equiv_from_text t).2]; exact h4
    | err => rw [h] at h4; simp at h4
    | panic => rw [h] at h4; simp at h4
  · cases h : Ossl.toHex a with
    | ok t => rw [h] at h6; simp only [bind_ok] at h6 ⊢; rw [(backend_equiv_from_text t).2]; exact h6
    | err => rw [h] at h6; simp at h6
    | panic => rw [h] at h6; simp at h6

/-- bytes written by one back-end are read as the same magnitude by the other -/
theorem bytes_exchange (a : ℤ) :
    (Rust.toBytes a).bind Ossl.fromBytes = ok (a.natAbs : ℤ) ∧
    (Ossl.toBytes a).bind Rust.fromBytes = ok (a.natAbs : ℤ) := by
  obtain ⟨h1, h2, _⟩ := bytes_round_trip a
  exact ⟨h1, h2⟩

/-- `generates_semiprime_subgroup`, all arguments (zero modulus: an error on both) -/
theorem backend_equiv_semiprime (g p q n : ℤ) :
    generatesSemiprimeSubgroup Rust.ops g p q n = generatesSemiprimeSubgroup Ossl.ops g p q n := by
  obtain ⟨h1, h2⟩ := semiprime_refines_spec g p q n
  rw [h1, h2]

/-! ## operations on which they agree on the C17 domain -/

/-- `exp` for every base and every exponent below `2^64` (negative exponents: an error on both) -/
theorem backend_equiv_exp (a k : ℤ) (hk64 : k < 2 ^ 64) : Rust.exp a k = Ossl.exp a k := by
  rw [rust_exp_refines_spec a k hk64, ossl_exp_refines_spec a k]

/-- exponents `≥ 2^64`: refused by the pure-Rust back-end, evaluated by OpenSSL (outside the
domain of C17) -/
theorem exp_huge_exponent_differs :
    Rust.exp 1 18446744073709551616 = err ∧ Ossl.exp 1 18446744073709551616 = ok 1 := by
  decide

/-- shifts and bit operations on non-negative values (a negative bit index: `false` /
an error on both) -/
theorem backend_equiv_bits (a n : ℤ) (k : ℕ) (ha : 0 ≤ a)
    (hk : k < 2147483648 ∨ a.natAbs < 2 ^ k) :
    Rust.rshift a k = Ossl.rshift a k ∧ Rust.rshift1 a = Ossl.rshift1 a ∧
    Rust.isBitSet a n = Ossl.isBitSet a n ∧ Rust.setBit a n = Ossl.setBit a n := by
  refine ⟨?_, ?_, ?_, ?_⟩
  · rw [rust_rshift_refines_spec, ossl_rshift_refines_spec a k ha hk]
  · rw [rust_rshift1_refines_spec, ossl_rshift1_refines_spec a ha]
  · by_cases hn : n < 0
    · simp [Rust.isBitSet, Ossl.isBitSet, hn]
    · rw [rust_is_bit_set_refines_spec a n ha (by omega), ossl_is_bit_set_refines_spec a n ha (by omega)]
  · rw [rust_set_bit_refines_spec a n ha, ossl_set_bit_refines_spec a n ha]

/-- `bitwise_or_big_int` on non-negative operands -/
theorem backend_equiv_bitwise_or (a b : ℤ) (ha : 0 ≤ a) (hb : 0 ≤ b) :
    bitwiseOr Rust.ops a b = bitwiseOr Ossl.ops a b := by
  rw [bitwiseOr_spec a b ha hb, bitwiseOr_spec_ossl a b ha hb]

/-- outside the C17 domain (negative values) the bit operations differ: floor shift and
two's complement against sign-and-magnitude -/
theorem bits_negative_differ :
    Rust.rshift1 (-5) = ok (-3) ∧ Ossl.rshift1 (-5) = ok (-2) ∧
    Rust.isBitSet (-5) 1 = ok true ∧ Ossl.isBitSet (-5) 1 = ok false ∧
    Rust.setBit (-5) 1 = ok (-5) ∧ Ossl.setBit (-5) 1 = ok (-7) ∧
    bitwiseOr Rust.ops (-5) 2 = ok 3 ∧ bitwiseOr Ossl.ops (-5) 2 = ok 7 := by decide

/-! ## the text encoding that still differs -/

/-- hexadecimal printing: OpenSSL pads to whole bytes (both texts denote the same number:
`hex_text_exchange`) -/
theorem to_hex_differs : Rust.toHex 10 = ok "A".toList ∧ Ossl.toHex 10 = ok "0A".toList := by decide

/-- the inputs on which the unrepaired back-ends differed now give the same result -/
example : Rust.toBytes 0 = ok [] ∧ Ossl.toBytes 0 = ok [] ∧
    Rust.inverse (-3) 5 = ok 3 ∧ Ossl.inverse (-3) 5 = ok 3 ∧
    Rust.increment (-5) = ok (-4) ∧ Ossl.increment (-5) = ok (-4) ∧
    Rust.exp 0 0 = ok 1 ∧ Ossl.exp 0 0 = ok 1 ∧
    Rust.fromDec "+5".toList = err ∧ Ossl.fromDec "+5".toList = err ∧
    Rust.fromDec "5x".toList = err ∧ Ossl.fromDec "5x".toList = err ∧
    Rust.modExp 6 5 0 = err ∧ Ossl.modExp 6 5 0 = err ∧
    Rust.setBit 5 (-1) = err ∧ Ossl.setBit 5 (-1) = err := by decide

end CL.C18
