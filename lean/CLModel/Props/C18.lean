import CLModel.Props.C17
/-!
# C18 — The two big-number back-ends are interchangeable

`backend_equiv_<op>`: `Rust.op args = Ossl.op args` (value, text and byte encodings, ok/err) on
the domain of C17 — corollaries of the two refinement theorems of `CLModel.Props.C17`.
For every operation where the back-ends differ on the pinned tree the file holds a witness
with the concrete differing input (these are the replay inputs of the known findings
`C18/*`), and the `_partial` equivalence under the hypothesis that excludes them.
-/
namespace CL.C18
open CL CL.BN CL.Outcome CL.C17

/-! ## operations on which the back-ends agree for all inputs -/

theorem backend_equiv_ring (a b : ℤ) :
    Rust.add a b = Ossl.add a b ∧ Rust.sub a b = Ossl.sub a b ∧ Rust.mul a b = Ossl.mul a b ∧
    Rust.sqr a = Ossl.sqr a ∧ Rust.div a b = Ossl.div a b ∧ Rust.gcd a b = Ossl.gcd a b ∧
    Rust.cmp a b = Ossl.cmp a b ∧ Rust.eq a b = Ossl.eq a b ∧
    Rust.isNegative a = Ossl.isNegative a ∧ Rust.numBits a = Ossl.numBits a ∧
    Rust.lshift1 a = Ossl.lshift1 a :=
  ⟨rfl, rfl, rfl, rfl, rfl, rfl, rfl, rfl, rfl, rfl, rfl⟩

theorem backend_equiv_word_ops (a : ℤ) (w : ℕ) :
    Rust.addWord a w = Ossl.addWord a w ∧ Rust.subWord a w = Ossl.subWord a w ∧
    Rust.mulWord a w = Ossl.mulWord a w ∧ Rust.divWord a w = Ossl.divWord a w :=
  ⟨rfl, rfl, rfl, rfl⟩

/-- the sign handling of the pure-Rust `modulus` is `BN_nnmod`, for every dividend and every
modulus of either sign (zero modulus: an error on both) -/
theorem backend_equiv_modulus (a n : ℤ) : Rust.modulus a n = Ossl.modulus a n := by
  rw [rust_modulus_refines_spec, ossl_modulus_refines_spec]

theorem backend_equiv_mod_mul (a b n : ℤ) : Rust.modMul a b n = Ossl.modMul a b n := by
  rw [rust_mod_mul_refines_spec, ossl_mod_mul_refines_spec]

theorem backend_equiv_mod_sub (a b n : ℤ) : Rust.modSub a b n = Ossl.modSub a b n := by
  rw [rust_mod_sub_refines_spec, ossl_mod_sub_refines_spec]

theorem backend_equiv_set_negative (a : ℤ) (neg : Bool) :
    Rust.setNegative a neg = Ossl.setNegative a neg := by
  rw [rust_set_negative_refines_spec, ossl_set_negative_refines_spec]

theorem backend_equiv_from_bytes (bs : Bytes) : Rust.fromBytes bs = Ossl.fromBytes bs := rfl

theorem backend_equiv_to_dec (a : ℤ) : Rust.toDec a = Ossl.toDec a := by
  obtain ⟨h1, h2, _⟩ := to_text_refines_spec a
  rw [h1, h2]

/-- numerals of the strict grammar are read identically -/
theorem backend_equiv_from_text_on_numerals (s : Text) (v : ℤ) :
    (Spec.fromDec s = ok v → Rust.fromDec s = Ossl.fromDec s) ∧
    (Spec.fromHex s = ok v → Rust.fromHex s = Ossl.fromHex s) := by
  constructor
  · intro h; obtain ⟨a, b⟩ := from_dec_refines_spec_on_numerals s v h; rw [a, b]
  · intro h; obtain ⟨a, b⟩ := from_hex_refines_spec_on_numerals s v h; rw [a, b]

/-- what one back-end prints in decimal the other reads back as the same number (serialised
artefacts carry big numbers as decimal text) -/
theorem decimal_text_exchange (a : ℤ) :
    (Rust.toDec a).bind Ossl.fromDec = ok a ∧ (Ossl.toDec a).bind Rust.fromDec = ok a := by
  obtain ⟨_, _, h3, _, h5, _⟩ := text_round_trip a
  rw [backend_equiv_to_dec a] at h3 ⊢
  obtain ⟨h1, h2, _⟩ := to_text_refines_spec a
  have hs : (Spec.toDec a).bind Spec.fromDec = ok a := (text_round_trip a).1
  rw [h2] at h3 h5 ⊢
  simp only [Spec.toDec, bind_ok] at hs h3 h5 ⊢
  exact ⟨(from_dec_refines_spec_on_numerals _ _ hs).2, (from_dec_refines_spec_on_numerals _ _ hs).1⟩

/-- bytes written by one back-end are read as the same magnitude by the other -/
theorem bytes_exchange (a : ℤ) :
    (Rust.toBytes a).bind Ossl.fromBytes = ok (a.natAbs : ℤ) ∧
    (Ossl.toBytes a).bind Rust.fromBytes = ok (a.natAbs : ℤ) := by
  obtain ⟨h1, h2, _⟩ := bytes_round_trip a
  exact ⟨h1, h2⟩

/-! ## operations on which they agree on the C17 domain only -/

/-- `to_bytes` agrees for every non-zero value … -/
theorem backend_equiv_to_bytes_partial (a : ℤ) (ha : a ≠ 0) : Rust.toBytes a = Ossl.toBytes a := by
  obtain ⟨h1, h2, _⟩ := to_bytes_canonical a ha
  rw [h1, h2]

/-- … **and differs for zero**: one zero byte against the empty string -/
theorem zero_bytes_differ : Rust.toBytes 0 = ok [0] ∧ Ossl.toBytes 0 = ok [] := by decide

/-- consequently the byte strings handed to the Fiat–Shamir hash differ whenever a hashed value
is `0`: for every list of values that contains a zero, the lists of encodings differ -/
theorem hash_of_zero_differs (pre post : List ℤ) :
    (pre ++ 0 :: post).map Rust.toBytes ≠ (pre ++ 0 :: post).map Ossl.toBytes := by
  intro h
  have hlen : (pre.map Rust.toBytes).length = (pre.map Ossl.toBytes).length := by simp
  simp only [List.map_append, List.map_cons] at h
  have := (List.append_inj h hlen).2
  simp only [List.cons.injEq] at this
  exact absurd this.1 (by decide)

theorem backend_equiv_inverse_partial (a n : ℤ) (ha : 0 ≤ a) (hn : n ≠ -1) :
    Rust.inverse a n = Ossl.inverse a n := by
  rw [rust_inverse_refines_spec_partial a n ha hn, ossl_inverse_refines_spec]

theorem inverse_negative_differs : Rust.inverse (-3) 5 = ok 2 ∧ Ossl.inverse (-3) 5 = ok 3 := by
  decide

theorem inverse_modulus_minus_one_differs :
    Rust.inverse 3 (-1) = ok 0 ∧ Ossl.inverse 3 (-1) = err := by decide

theorem backend_equiv_mod_div_partial (a b n : ℤ) (hb : 0 ≤ b) (hn : n ≠ -1) :
    Rust.modDiv a b n = Ossl.modDiv a b n := by
  rw [rust_mod_div_refines_spec_partial a b n hb hn, ossl_mod_div_refines_spec]

theorem mod_div_negative_divisor_differs :
    Rust.modDiv 1 (-3) 5 = ok 2 ∧ Ossl.modDiv 1 (-3) 5 = ok 3 := by decide

/-- `mod_exp` with a non-negative exponent and a non-zero modulus: every base, moduli of
either sign -/
theorem backend_equiv_mod_exp_partial (a e n : ℤ) (he : 0 ≤ e) (hn : n ≠ 0) :
    Rust.modExp a e n = Ossl.modExp a e n := by
  rw [rust_mod_exp_refines_spec_partial a e n he hn,
    ossl_mod_exp_refines_spec_partial a e n (fun h => hn h.2)]

/-- `mod_exp` with a negative exponent: non-negative base, modulus `≠ 0, ±1` -/
theorem backend_equiv_mod_exp_negative_exponent_partial (a e n : ℤ) (he : e < 0) (ha : 0 ≤ a)
    (hn : 2 ≤ n.natAbs) : Rust.modExp a e n = Ossl.modExp a e n := by
  rw [rust_mod_exp_negative_exponent_partial a e n he ha hn,
    ossl_mod_exp_refines_spec_partial a e n (fun h => by omega)]

theorem mod_exp_zero_modulus_differs :
    Rust.modExp 6 5 0 = panic ∧ Ossl.modExp 6 5 0 = err ∧
    Rust.modExp 6 0 0 = panic ∧ Ossl.modExp 6 0 0 = ok 1 := by decide

theorem mod_exp_negative_base_negative_exponent_differs :
    Rust.modExp (-3) (-1) 5 = ok 2 ∧ Ossl.modExp (-3) (-1) 5 = ok 3 := by decide

theorem mod_exp_unit_modulus_differs :
    Rust.modExp 6 (-1) 1 = ok 0 ∧ Ossl.modExp 6 (-1) 1 = err := by decide

theorem backend_equiv_exp_partial (a k : ℤ) (hk : 0 ≤ k) (hk64 : k < 2 ^ 64)
    (h00 : ¬ (a = 0 ∧ k = 0)) : Rust.exp a k = Ossl.exp a k := by
  rw [rust_exp_refines_spec_partial a k hk hk64 h00, ossl_exp_refines_spec_partial a k hk]

theorem exp_zero_zero_differs : Rust.exp 0 0 = ok 0 ∧ Ossl.exp 0 0 = ok 1 := by decide
theorem exp_negative_exponent_differs : Rust.exp 2 (-3) = err ∧ Ossl.exp 2 (-3) = ok 8 := by
  decide
/-- exponents `≥ 2^64`: refused by the pure-Rust back-end, evaluated by OpenSSL -/
theorem exp_huge_exponent_differs :
    Rust.exp 1 18446744073709551616 = err ∧ Ossl.exp 1 18446744073709551616 = ok 1 := by
  decide

theorem backend_equiv_increment_partial (a : ℤ) (ha : 0 ≤ a) :
    Rust.increment a = Ossl.increment a ∧ Rust.decrement a = Ossl.decrement a := by
  rw [rust_increment_refines_spec, rust_decrement_refines_spec,
    ossl_increment_refines_spec_partial a ha, ossl_decrement_refines_spec_partial a ha]
  exact ⟨rfl, rfl⟩

theorem increment_negative_differs :
    Rust.increment (-5) = ok (-4) ∧ Ossl.increment (-5) = ok 6 ∧
    Rust.decrement (-5) = ok (-6) ∧ Ossl.decrement (-5) = ok 4 := by decide

theorem backend_equiv_from_u32_partial (n : ℕ) (h : n < 4294967296) :
    Rust.fromU32 n = Ossl.fromU32 n := by
  rw [rust_from_u32_refines_spec, ossl_from_u32_refines_spec_partial n h]

theorem from_u32_differs : Rust.fromU32 4294967301 = ok 4294967301 ∧ Ossl.fromU32 4294967301 = ok 5 := by
  decide

/-- shifts and bit operations on non-negative values -/
theorem backend_equiv_bits_partial (a n : ℤ) (k : ℕ) (ha : 0 ≤ a) (hn : 0 ≤ n) (hk : k < 2147483648) :
    Rust.rshift a k = Ossl.rshift a k ∧ Rust.rshift1 a = Ossl.rshift1 a ∧
    Rust.isBitSet a n = Ossl.isBitSet a n ∧ Rust.setBit a n = Ossl.setBit a n := by
  rw [rust_rshift_refines_spec, ossl_rshift_refines_spec_partial a k ha hk, rust_rshift1_refines_spec,
    ossl_rshift1_refines_spec_partial a ha, rust_is_bit_set_refines_spec a n ha hn,
    ossl_is_bit_set_refines_spec a n ha hn, rust_set_bit_refines_spec a n ha hn,
    ossl_set_bit_refines_spec a n ha]
  exact ⟨rfl, rfl, rfl, rfl⟩

/-- `bitwise_or_big_int` on non-negative operands -/
theorem backend_equiv_bitwise_or_partial (a b : ℤ) (ha : 0 ≤ a) (hb : 0 ≤ b) :
    bitwiseOr Rust.ops a b = bitwiseOr Ossl.ops a b := by
  rw [bitwiseOr_spec a b ha hb, bitwiseOr_spec_ossl a b ha hb]

/-- outside the C17 domain (negative values) the bit operations differ: floor shift and
two's complement against sign-and-magnitude -/
theorem bits_negative_differ :
    Rust.rshift1 (-5) = ok (-3) ∧ Ossl.rshift1 (-5) = ok (-2) ∧
    Rust.isBitSet (-5) 1 = ok true ∧ Ossl.isBitSet (-5) 1 = ok false ∧
    Rust.setBit (-5) 1 = ok (-5) ∧ Ossl.setBit (-5) 1 = ok (-7) ∧
    bitwiseOr Rust.ops (-5) 2 = ok 3 ∧ bitwiseOr Ossl.ops (-5) 2 = ok 7 := by decide

theorem set_bit_negative_index_differs : Rust.setBit 5 (-1) = panic ∧ Ossl.setBit 5 (-1) = err := by
  decide

theorem rshift_count_differs : (∃ v, Rust.rshift 1024 2147483648 = ok v) ∧
    Ossl.rshift 1024 2147483648 = err := ⟨⟨_, rfl⟩, by simp [Ossl.rshift]⟩

/-- `generates_semiprime_subgroup` for a non-zero modulus and non-negative `p'`, `q'` -/
theorem backend_equiv_semiprime_partial (g p q n : ℤ) (hn : n ≠ 0) (hp : 0 ≤ p) (hq : 0 ≤ q) :
    generatesSemiprimeSubgroup Rust.ops g p q n = generatesSemiprimeSubgroup Ossl.ops g p q n := by
  obtain ⟨h1, h2⟩ := semiprime_generator g p q n hn hp hq
  rw [h1, h2]

/-! ## text encodings that differ -/

/-- hexadecimal printing: OpenSSL pads to whole bytes -/
theorem to_hex_differs : Rust.toHex 10 = ok "A".toList ∧ Ossl.toHex 10 = ok "0A".toList := by decide

theorem dec_plus_sign_differs : Rust.fromDec "+5".toList = ok 5 ∧ Ossl.fromDec "+5".toList = err := by
  decide
theorem dec_trailing_garbage_differs :
    Rust.fromDec "5x".toList = err ∧ Ossl.fromDec "5x".toList = ok 5 := by decide
theorem dec_underscore_differs :
    Rust.fromDec "1_000".toList = ok 1000 ∧ Ossl.fromDec "1_000".toList = ok 1 := by decide
theorem dec_nul_differs :
    Rust.fromDec ['5', Char.ofNat 0] = err ∧ Ossl.fromDec ['5', Char.ofNat 0] = panic := by decide
theorem hex_garbage_differs :
    Rust.fromHex "fg".toList = err ∧ Ossl.fromHex "fg".toList = ok 15 ∧
    Rust.fromHex "+ff".toList = ok 255 ∧ Ossl.fromHex "+ff".toList = err := by decide

end CL.C18
