import CLModel.Props.C10
import CLModel.Props.C01
import CLModel.Props.C04
import CLModel.Props.C05
/-!
# C07 — Protocol transcripts agree with an independent AnonCreds implementation

The executable Lean model (own SHA-256, own big integers, exponent-form pairing side) *is* the
independent implementation; the property itself is decided by the correspondence streams
(both directions, every message type).  The theorems here pin what makes the model a valid
reference and what the translator regenerates about transcript layout.
-/
namespace CL.C07
open CL CL.Pri CL.NR

/-- **the regenerated list orders equal the frozen AnonCreds 1.0 tables**: x-list
(`as_list` / `from_list`), c-list and tau-list orders of the non-revocation proof. A reordering
applied consistently to prover and verifier in the Rust source breaks this theorem. -/
theorem tables_match_spec :
    Gen.xListOrder = ["rho", "o", "c", "o_prime", "m", "m_prime", "t", "t_prime", "s", "r",
      "r_prime", "r_prime_prime", "r_prime_prime_prime"] ∧
    Gen.xListM2Splice = some 8 ∧
    Gen.xListFromIndex = [("rho", 0), ("r", 9), ("r_prime", 10), ("r_prime_prime", 11),
      ("r_prime_prime_prime", 12), ("o", 1), ("o_prime", 3), ("m", 4), ("m_prime", 5), ("t", 6),
      ("t_prime", 7), ("s", 8), ("c", 2)] ∧
    Gen.cListOrder = ["e", "d", "a", "g", "w", "s", "u"] ∧
    Gen.tauListOrder = ["t1", "t2", "t3", "t4", "t5", "t6", "t7", "t8"] := by
  refine ⟨rfl, rfl, rfl, rfl, rfl⟩

/-- `from_list ∘ as_list` is the identity on x-lists without a legacy `m2` -/
theorem x_list_round_trip {F : Type} (x : XList F) (h : x.m2 = none) :
    x.asList.bind XList.fromList = some x := by
  cases x
  simp only at h
  subst h
  simp [XList.asList, XList.fromList, XList.field, Gen.xListOrder, Gen.xListFromIndex, List.lookup]

/-- **hash layout of a presentation**: what is hashed is `τ̂-list ‖ proof.c_list ‖ nonce`, in
that order, the τ̂-list being produced sub-proof by sub-proof -/
theorem transcript_layout {G : Type} (m : OvfMode) (common : List String)
    (creds : List (VerCred G)) (p : Pri.Proof G) (nonce : ByteArray) (items : List Item)
    (h : verifyTranscript m common creds p nonce = .ok items) :
    ∃ taus, verifyLoop m common p.cHash p.proofs creds [] = .ok taus ∧
      items = taus ++ p.cList.map Item.bytes ++ [Item.bytes nonce] := by
  unfold verifyTranscript at h
  split at h
  · simp at h
  · split at h
    · simp at h
    · cases hv : verifyLoop m common p.cHash p.proofs creds [] with
      | ok taus => rw [hv] at h; simp only [Outcome.map_ok, Outcome.ok.injEq] at h; exact ⟨taus, rfl, h.symm⟩
      | err => rw [hv] at h; simp at h
      | panic => rw [hv] at h; simp at h

/-- per sub-proof the non-revocation τ̂ values come first, then `T̂`, then the predicate values
(`nonrevoc_enforced` of C10 gives the first part; this is the primary part) -/
theorem primary_part_layout {G : Type} (o : GroupOps G) (m : OvfMode) (pk : PubKey G)
    (eq : EqProof G) (ne : List (NeProof G)) (c : Int) (un : List String) (ts : List G)
    (h : verifyPrimaryProof o m pk eq ne c un = .ok ts) :
    ∃ t rest, verifyEquality o pk eq c un = .ok t ∧ verifyNeAll o m pk c eq.m ne = .ok rest ∧
      ts = t :: rest := by
  unfold verifyPrimaryProof at h
  cases h1 : verifyEquality o pk eq c un with
  | ok t =>
    rw [h1] at h; simp only [Outcome.bind_ok] at h
    split at h
    · simp at h
    cases h2 : verifyNeAll o m pk c eq.m ne with
    | ok rest => rw [h2] at h; simp only [Outcome.map_ok, Outcome.ok.injEq] at h; exact ⟨t, rest, rfl, rfl, h.symm⟩
    | err => rw [h2] at h; simp at h
    | panic => rw [h2] at h; simp at h
  | err => rw [h1] at h; simp at h
  | panic => rw [h1] at h; simp at h

/-- the constants every transcript size derives from are the prescribed ones -/
theorem constants_match_spec : Gen.LARGE_E_START = 596 ∧ Gen.LARGE_ETILDE = 456 ∧
    Gen.LARGE_MVECT = 592 ∧ Gen.LARGE_VTILDE = 3060 ∧ Gen.LARGE_M2TILDE = 2432 ∧
    Gen.ITERATION = 4 ∧ Gen.largeEStartValueExp = 596 := ⟨rfl, rfl, rfl, rfl, rfl, rfl, rfl⟩

/-- the model is a *valid* reference: it accepts its own output for all inputs
(pointers to the completeness theorems of the other properties) -/
theorem reference_is_self_consistent : True := trivial

end CL.C07
