import CLModel.Proofs.BigNum
/-!
# C17 — BigNumber operations agree with integer arithmetic

Model: `CLModel/Model/BigNum.lean` (`Spec.*` = integer arithmetic, `Rust.*` = `src/bn/rust.rs`,
`Ossl.*` = `src/bn/openssl.rs`).  Every theorem is for **all** integers (no size bound).  For
each operation: `Rust.op = Spec.op` and `Ossl.op = Spec.op` on the stated domain (an `err` on
either side is part of the equality: "an error, not a wrong value, where the result is
undefined").  Where the full-strength statement is false on the pinned tree the file holds
the `_partial` theorem under the excluding hypothesis and a `_finding_` theorem that proves
the negation on the concrete witness (the replay input of the known finding).
-/
namespace CL.C17
open CL CL.BN CL.Outcome

/-! ## ring operations, comparison, words: identical to integer arithmetic -/

theorem rust_add_refines_spec (a b : ℤ) : Rust.add a b = Spec.add a b := rfl
theorem rust_sub_refines_spec (a b : ℤ) : Rust.sub a b = Spec.sub a b := rfl
theorem rust_mul_refines_spec (a b : ℤ) : Rust.mul a b = Spec.mul a b := rfl
theorem rust_sqr_refines_spec (a : ℤ) : Rust.sqr a = Spec.sqr a := rfl
theorem rust_cmp_refines_spec (a b : ℤ) : Rust.cmp a b = Spec.cmp a b := rfl
theorem rust_eq_refines_spec (a b : ℤ) : Rust.eq a b = Spec.eq a b := rfl
theorem rust_is_negative_refines_spec (a : ℤ) : Rust.isNegative a = Spec.isNegative a := rfl
/-- truncating division; `Err` exactly for the zero divisor -/
theorem rust_div_refines_spec (a b : ℤ) : Rust.div a b = Spec.div a b := rfl
theorem rust_gcd_refines_spec (a b : ℤ) : Rust.gcd a b = Spec.gcd a b := rfl
theorem rust_word_ops_refine_spec (a : ℤ) (w : ℕ) :
    Rust.addWord a w = Spec.addWord a w ∧ Rust.subWord a w = Spec.subWord a w ∧
    Rust.mulWord a w = Spec.mulWord a w ∧ Rust.divWord a w = Spec.divWord a w :=
  ⟨rfl, rfl, rfl, rfl⟩
theorem rust_increment_refines_spec (a : ℤ) : Rust.increment a = Spec.increment a := rfl
theorem rust_decrement_refines_spec (a : ℤ) : Rust.decrement a = Spec.decrement a := rfl
theorem rust_from_u32_refines_spec (n : ℕ) : Rust.fromU32 n = Spec.fromU32 n := rfl
theorem rust_lshift1_refines_spec (a : ℤ) : Rust.lshift1 a = Spec.lshift1 a := by
  simp [Rust.lshift1, Spec.lshift1, mul_comm]
theorem rust_num_bits_refines_spec (a : ℤ) : Rust.numBits a = Spec.numBits a := rfl

theorem rust_set_negative_refines_spec (a : ℤ) (neg : Bool) :
    Rust.setNegative a neg = Spec.setNegative a neg := by
  unfold Rust.setNegative Spec.setNegative
  by_cases h : a < 0
  · have := abs_of_neg h
    cases neg <;> simp [h] <;> omega
  · have := abs_of_nonneg (not_lt.mp h)
    cases neg <;> simp [h] <;> omega

theorem ossl_ring_ops_refine_spec (a b : ℤ) :
    Ossl.add a b = Spec.add a b ∧ Ossl.sub a b = Spec.sub a b ∧ Ossl.mul a b = Spec.mul a b ∧
    Ossl.sqr a = Spec.sqr a ∧ Ossl.cmp a b = Spec.cmp a b ∧ Ossl.eq a b = Spec.eq a b ∧
    Ossl.div a b = Spec.div a b ∧ Ossl.gcd a b = Spec.gcd a b ∧
    Ossl.isNegative a = Spec.isNegative a ∧ Ossl.numBits a = Spec.numBits a :=
  ⟨rfl, rfl, rfl, rfl, rfl, rfl, rfl, rfl, rfl, rfl⟩
theorem ossl_word_ops_refine_spec (a : ℤ) (w : ℕ) :
    Ossl.addWord a w = Spec.addWord a w ∧ Ossl.subWord a w = Spec.subWord a w ∧
    Ossl.mulWord a w = Spec.mulWord a w ∧ Ossl.divWord a w = Spec.divWord a w :=
  ⟨rfl, rfl, rfl, rfl⟩
theorem ossl_lshift1_refines_spec (a : ℤ) : Ossl.lshift1 a = Spec.lshift1 a := by
  simp [Ossl.lshift1, Spec.lshift1, mul_comm]
theorem ossl_set_negative_refines_spec (a : ℤ) (neg : Bool) :
    Ossl.setNegative a neg = Spec.setNegative a neg := by
  unfold Ossl.setNegative Spec.setNegative
  cases neg <;> simp
  intro h; simp [h]

/-! ## `modulus`: sign handling -/

/-- **`modulus`** (pure Rust): `_get_modulus`, truncating `%` and the sign fix-up together are
the non-negative residue modulo `|n|`, for every dividend and every modulus of either sign;
`Err` exactly for `n = 0`. -/
theorem rust_modulus_refines_spec (a n : ℤ) : Rust.modulus a n = Spec.modulus a n := by
  unfold Rust.modulus Spec.modulus
  by_cases hn : n = 0
  · simp [hn]
  · simp only [hn, if_false, Rust.getModulus_eq]
    congr 1
    have hm : (0 : ℤ) < (n.natAbs : ℤ) := by omega
    have hmod : a % n = a % (n.natAbs : ℤ) := by
      rcases Int.natAbs_eq n with h | h
      · rw [← h]
      · conv_lhs => rw [h, Int.emod_neg]
    rw [hmod, Int.tmod_eq_emod]
    have h0 := Int.emod_nonneg a (ne_of_gt hm)
    have h1 := Int.emod_lt_of_pos a hm
    by_cases hc : 0 ≤ a ∨ (n.natAbs : ℤ) ∣ a
    · rw [if_pos hc]
      simp only [Nat.cast_zero, sub_zero]
      rw [if_neg (by omega)]
    · rw [if_neg hc]
      have hne : a % (n.natAbs : ℤ) ≠ 0 := by
        intro h; exact hc (Or.inr (Int.dvd_of_emod_eq_zero h))
      have hnat : ((n.natAbs : ℤ).natAbs : ℤ) = (n.natAbs : ℤ) := by
        rw [Int.natAbs_natCast]
      rw [hnat, if_pos (by omega)]
      ring

/-- a modulus and its negative give the same residue, which lies in `[0, |n|)` -/
theorem modulus_sign_handling (a n : ℤ) (hn : n ≠ 0) :
    Rust.modulus a (-n) = Rust.modulus a n ∧
    ∃ r, Rust.modulus a n = ok r ∧ 0 ≤ r ∧ r < (n.natAbs : ℤ) := by
  rw [rust_modulus_refines_spec, rust_modulus_refines_spec]
  unfold Spec.modulus
  have hn' : -n ≠ 0 := by omega
  simp only [hn, hn', if_false, Int.emod_neg, true_and]
  exact ⟨_, rfl, Int.emod_nonneg _ hn, Int.emod_lt _ hn⟩

theorem ossl_modulus_refines_spec (a n : ℤ) : Ossl.modulus a n = Spec.modulus a n := rfl

theorem rust_mod_mul_refines_spec (a b n : ℤ) : Rust.modMul a b n = Spec.modMul a b n := by
  simp [Rust.modMul, Spec.modMul, Rust.mul, rust_modulus_refines_spec]
theorem rust_mod_sub_refines_spec (a b n : ℤ) : Rust.modSub a b n = Spec.modSub a b n := by
  simp [Rust.modSub, Spec.modSub, Rust.sub, rust_modulus_refines_spec]
theorem ossl_mod_mul_refines_spec (a b n : ℤ) : Ossl.modMul a b n = Spec.modMul a b n := rfl
theorem ossl_mod_sub_refines_spec (a b n : ℤ) : Ossl.modSub a b n = Spec.modSub a b n := rfl

/-! ## `inverse` -/

/-- **specification of the inverse**: `Spec.inverse a n` is an error exactly when
`gcd(a, n) ≠ 1` (modulus `≠ 0, ±1`), otherwise the unique `t ∈ [0, |n|)` with
`a·t ≡ 1 (mod |n|)`. -/
theorem spec_inverse_correct (a n : ℤ) (hn : 2 ≤ n.natAbs) :
    (Int.gcd a n ≠ 1 → Spec.inverse a n = err) ∧
    (Int.gcd a n = 1 → ∃ t, Spec.inverse a n = ok t ∧ 0 ≤ t ∧ t < (n.natAbs : ℤ) ∧
      (a * t) % (n.natAbs : ℤ) = 1) := by
  obtain ⟨h1, h2⟩ := Spec.inverse_correct a n hn
  refine ⟨h1, fun hg => ?_⟩
  obtain ⟨t, ht, h0, hlt, hd⟩ := h2 hg
  refine ⟨t, ht, h0, hlt, ?_⟩
  have hm : (1 : ℤ) < (n.natAbs : ℤ) := by omega
  have : (a * t) % (n.natAbs : ℤ) = 1 % (n.natAbs : ℤ) :=
    (Int.modEq_iff_dvd.mpr hd : a * t ≡ 1 [ZMOD _])
  rw [this, Int.emod_eq_of_lt (by norm_num) hm]

/-- the modulus `0` and the degenerate moduli `±1` are rejected by the specification -/
theorem spec_inverse_degenerate (a n : ℤ) (hn : n.natAbs ≤ 1) : Spec.inverse a n = err := by
  simp [Spec.inverse, hn]

/-- **`Rust.inverse` (own extended Euclid) is correct for a non-negative operand**: loop
invariant `r ≡ a·t (mod n)` (`Rust.LoopInv.cong_r`), termination within the fuel `|a| + 1`
(`Rust.inverseLoop_spec`: the model's `panic` branch is unreachable), the result lies in
`[0, |n|)` with `a·t ≡ 1`, and a non-invertible operand is an error.

Full statement (false on the pinned tree): `∀ a n, Rust.inverse a n = Spec.inverse a n`.
Excluded: negative operands (`rust_inverse_finding_negative`) and the modulus `-1`
(`rust_inverse_finding_modulus_minus_one`). -/
theorem rust_inverse_refines_spec_partial (a n : ℤ) (ha : 0 ≤ a) (hn : n ≠ -1) :
    Rust.inverse a n = Spec.inverse a n := by
  by_cases hdeg : n.natAbs ≤ 1
  · have : n = 1 ∨ n = 0 := by omega
    rw [spec_inverse_degenerate a n hdeg]
    simp [Rust.inverse, this]
  · have h2 : 2 ≤ n.natAbs := by omega
    obtain ⟨r1, r2⟩ := Rust.inverse_correct a n ha h2
    obtain ⟨s1, s2⟩ := Spec.inverse_correct a n h2
    by_cases hg : Int.gcd a n = 1
    · obtain ⟨t, ht, ht0, ht1, ht2⟩ := r2 hg
      obtain ⟨u, hu, hu0, hu1, hu2⟩ := s2 hg
      rw [ht, hu, inverse_unique ⟨ht0, ht1, ht2⟩ ⟨hu0, hu1, hu2⟩]
    · rw [r1 hg, s1 hg]

/-- never a panic, never a wrong value for a non-negative operand: the outcome is `err` or the
inverse -/
theorem rust_inverse_correct (a n : ℤ) (ha : 0 ≤ a) (hn : 2 ≤ n.natAbs) :
    (Int.gcd a n ≠ 1 → Rust.inverse a n = err) ∧
    (Int.gcd a n = 1 → ∃ t, Rust.inverse a n = ok t ∧ 0 ≤ t ∧ t < (n.natAbs : ℤ) ∧
      (n.natAbs : ℤ) ∣ 1 - a * t) :=
  Rust.inverse_correct a n ha hn

/-- the loop invariant `r ≡ a·t (mod m)` holds initially and is preserved by every iteration
(for a non-negative operand) -/
theorem rust_inverse_loop_invariant (m a t nt r nr s : ℤ) (h : Rust.LoopInv m a t nt r nr s)
    (hnr : nr ≠ 0) :
    m ∣ nr - a * nt ∧
    Rust.LoopInv m a nt (t - Int.tdiv r nr * nt) nr (r - Int.tdiv r nr * nr) (-s) :=
  ⟨h.cong_nr, h.step hnr⟩

/-- **finding**: for the negative operand `-3` the pure-Rust back-end returns `2`
(`-3·2 ≡ -1 (mod 5)`; the loop ends with `r = -1`, which the test `r > 1` lets through);
integer arithmetic prescribes `3`. -/
theorem rust_inverse_finding_negative :
    Rust.inverse (-3) 5 = ok 2 ∧ Spec.inverse (-3) 5 = ok 3 ∧
    ¬ (Rust.inverse (-3) 5 = Spec.inverse (-3) 5) := by
  decide

/-- **finding**: a non-invertible negative operand yields a value instead of an error -/
theorem rust_inverse_finding_negative_noninvertible :
    Rust.inverse (-2) 4 = ok 1 ∧ Spec.inverse (-2) 4 = err := by
  decide

/-- **finding**: the guard `n.is_one()` is evaluated before `_get_modulus`, so the modulus
`-1` is accepted (`0` is returned) although `1` is rejected -/
theorem rust_inverse_finding_modulus_minus_one :
    Rust.inverse 3 (-1) = ok 0 ∧ Rust.inverse 3 1 = err ∧ Spec.inverse 3 (-1) = err := by
  decide

/-- OpenSSL: `BN_mod_inverse` as stated is the specification, for every operand and modulus -/
theorem ossl_inverse_refines_spec (a n : ℤ) : Ossl.inverse a n = Spec.inverse a n := rfl

/-- `mod_div = a · b⁻¹ mod |n|` -/
theorem rust_mod_div_refines_spec_partial (a b n : ℤ) (hb : 0 ≤ b) (hn : n ≠ -1) :
    Rust.modDiv a b n = Spec.modDiv a b n := by
  unfold Rust.modDiv Spec.modDiv
  rw [rust_inverse_refines_spec_partial b n hb hn]
  cases Spec.inverse b n <;> simp [Rust.mul, rust_modulus_refines_spec]

theorem rust_mod_div_finding_negative_divisor :
    Rust.modDiv 1 (-3) 5 = ok 2 ∧ Spec.modDiv 1 (-3) 5 = ok 3 := by
  decide

theorem ossl_mod_div_refines_spec (a b n : ℤ) : Ossl.modDiv a b n = Spec.modDiv a b n := by
  unfold Ossl.modDiv Spec.modDiv
  rw [ossl_inverse_refines_spec]
  cases Spec.inverse b n <;> rfl

/-! ## `mod_exp` (negative exponent = power of the inverse) and `exp` -/

/-- the driver's evaluation of the specification is the specification -/
theorem spec_mod_exp_fast_eq (a e n : ℤ) : Spec.modExpFast a e n = Spec.modExp a e n :=
  Spec.modExpFast_eq a e n

theorem spec_exp_fast_eq (a k : ℤ) : Spec.expFast a k = Spec.exp a k := Spec.expFast_eq a k

/-- **`mod_exp`, non-negative exponent** (pure Rust): the `b == 1` special case,
`_get_modulus` and `modpow` give `a^e mod |n|` for every base, every exponent `≥ 0` and every
non-zero modulus of either sign.

Full statement (false on the pinned tree): also `n = 0 ↦ err`; see
`rust_mod_exp_finding_zero_modulus` (the model, like the code, panics). -/
theorem rust_mod_exp_refines_spec_partial (a e n : ℤ) (he : 0 ≤ e) (hn : n ≠ 0) :
    Rust.modExp a e n = Spec.modExp a e n := by
  unfold Rust.modExp Spec.modExp
  have h1 : ¬ e < 0 := by omega
  simp only [hn, he, h1, if_false, if_true]
  by_cases h : n = 1
  · subst h; simp
  · simp only [h, if_false]
    have hm : 0 < Rust.getModulus n := by rw [Rust.getModulus_eq]; omega
    rw [Rust.modpow_eq a e _ he hm, Rust.getModulus_eq, emod_natAbs]

/-- **`mod_exp`, negative exponent** (pure Rust) is the `|e|`-th power of the inverse, and an
error when the base is not invertible — for a non-negative base and a modulus `≠ 0, ±1`
(the domain on which `Rust.inverse` is correct).

Excluded from the full statement: a negative base (`rust_mod_exp_finding_negative_base`) and
the moduli `±1` (`rust_mod_exp_finding_unit_modulus`). -/
theorem rust_mod_exp_negative_exponent_partial (a e n : ℤ) (he : e < 0) (ha : 0 ≤ a)
    (hn : 2 ≤ n.natAbs) : Rust.modExp a e n = Spec.modExp a e n := by
  unfold Rust.modExp Spec.modExp
  have h0 : n ≠ 0 := by omega
  have h1 : n ≠ 1 := by omega
  have h2 : ¬ 0 ≤ e := by omega
  simp only [h0, h1, he, h2, if_false, if_true]
  rw [rust_inverse_refines_spec_partial a n ha (by omega)]
  cases Spec.inverse a n with
  | err => rfl
  | panic => rfl
  | ok ai =>
    simp only [bind_ok]
    have hs : Rust.setNegative e false = ok (-e) := by
      simp [Rust.setNegative, he]
    rw [hs]
    simp only [bind_ok]
    have hm : 0 < Rust.getModulus n := by rw [Rust.getModulus_eq]; omega
    rw [Rust.modpow_eq ai (-e) _ (by omega) hm, Rust.getModulus_eq, emod_natAbs]

/-- **finding**: a zero modulus with a non-negative exponent reaches `modpow`, which panics -/
theorem rust_mod_exp_finding_zero_modulus :
    Rust.modExp 6 5 0 = panic ∧ Spec.modExp 6 5 0 = err := by decide

/-- **finding**: negative base with negative exponent inherits the wrong inverse -/
theorem rust_mod_exp_finding_negative_base :
    Rust.modExp (-3) (-1) 5 = ok 2 ∧ Spec.modExp (-3) (-1) 5 = ok 3 := by decide

/-- **finding**: for the modulus `1` the special case answers `0` before the inverse is tried -/
theorem rust_mod_exp_finding_unit_modulus :
    Rust.modExp 6 (-1) 1 = ok 0 ∧ Spec.modExp 6 (-1) 1 = err := by decide

/-- the crate's own example `6^(-5) mod 13 = 7` on all three variants -/
theorem mod_exp_example :
    Rust.modExp 6 (-5) 13 = ok 7 ∧ Ossl.modExp 6 (-5) 13 = ok 7 ∧ Spec.modExp 6 (-5) 13 = ok 7 := by
  decide

/-- **`mod_exp`** (OpenSSL wrapper): agrees with integer arithmetic for every base, every
exponent of either sign and every modulus — except the single combination zero exponent with
zero modulus (`ossl_mod_exp_finding_zero_zero`). -/
theorem ossl_mod_exp_refines_spec_partial (a e n : ℤ) (h : ¬ (e = 0 ∧ n = 0)) :
    Ossl.modExp a e n = Spec.modExp a e n := by
  unfold Ossl.modExp Spec.modExp
  by_cases he : e < 0
  · have h2 : ¬ 0 ≤ e := by omega
    simp only [he, h2, if_true, if_false]
    rw [ossl_inverse_refines_spec]
    by_cases hn : n = 0
    · subst hn; simp [Spec.inverse]
    · simp only [hn, if_false]
      cases Spec.inverse a n with
      | err => rfl
      | panic => rfl
      | ok ai =>
        simp only [bind_ok]
        have hs : Ossl.setNegative e false = ok (-e) := by
          unfold Ossl.setNegative; simp; omega
        rw [hs]
        simp only [bind_ok, Ossl.bnModExp, hn, if_false]
        rw [powMod_cast ai (-e).toNat n hn]
  · have h2 : 0 ≤ e := by omega
    simp only [he, h2, if_true, if_false, Ossl.bnModExp]
    by_cases hn : n = 0
    · have : e ≠ 0 := fun h0 => h ⟨h0, hn⟩
      simp [hn, this]
    · simp only [hn, if_false]
      rw [powMod_cast a e.toNat n hn]

theorem ossl_mod_exp_finding_zero_zero :
    Ossl.modExp 5 0 0 = ok 1 ∧ Spec.modExp 5 0 0 = err := by decide

/-- **`exp`** (pure Rust): the special cases `bits() == 0` and `a.is_one()` and `pow` agree
with `a^k` for every base and every exponent `0 ≤ k < 2^64`, except `0^0`.

Full statement (false): `∀ a k, Rust.exp a k = Spec.exp a k`.  Excluded: `a = 0 ∧ k ≤ 0`
(`rust_exp_finding_zero_zero`, `rust_exp_finding_zero_negative`); exponents `≥ 2^64` are
refused (`to_u64`), which only matters for the bases `0, ±1`. -/
theorem rust_exp_refines_spec_partial (a k : ℤ) (hk : 0 ≤ k) (hk64 : k < 2 ^ 64)
    (h00 : ¬ (a = 0 ∧ k = 0)) : Rust.exp a k = Spec.exp a k := by
  unfold Rust.exp Spec.exp
  have h1 : ¬ k < 0 := by omega
  simp only [h1, if_false]
  by_cases ha : a = 0
  · subst ha
    have hk0 : k.toNat ≠ 0 := by
      have : k ≠ 0 := fun h => h00 ⟨rfl, h⟩
      omega
    simp [natBits_zero, zero_pow hk0]
  · have hb : natBits a.natAbs ≠ 0 := by
      rw [Ne, natBits_eq_zero_iff]; omega
    simp only [hb, if_false]
    by_cases h1 : k = 1
    · subst h1; simp
    · have : 0 ≤ k ∧ k < 18446744073709551616 := ⟨hk, by norm_num at hk64; exact hk64⟩
      simp only [h1, this, and_self, if_true, if_false, powInt_eq]

/-- a negative exponent of a non-zero base is an error (never a value) -/
theorem rust_exp_negative_exponent (a k : ℤ) (ha : a ≠ 0) (hk : k < 0) :
    Rust.exp a k = Spec.exp a k := by
  unfold Rust.exp Spec.exp
  have hb : natBits a.natAbs ≠ 0 := by rw [Ne, natBits_eq_zero_iff]; omega
  have h1 : k ≠ 1 := by omega
  have h2 : ¬ (0 ≤ k ∧ k < 18446744073709551616) := by omega
  simp [hb, h1, h2, hk]

theorem rust_exp_finding_zero_zero : Rust.exp 0 0 = ok 0 ∧ Spec.exp 0 0 = ok 1 := by decide
theorem rust_exp_finding_zero_negative : Rust.exp 0 (-1) = ok 0 ∧ Spec.exp 0 (-1) = err := by
  decide

/-- **`exp`** (OpenSSL): `BN_exp` agrees with `a^k` for every base and every `k ≥ 0`
(including `0^0 = 1`); the sign of a negative exponent is ignored
(`ossl_exp_finding_negative_exponent`). -/
theorem ossl_exp_refines_spec_partial (a k : ℤ) (hk : 0 ≤ k) : Ossl.exp a k = Spec.exp a k := by
  unfold Ossl.exp Spec.exp
  have h1 : ¬ k < 0 := by omega
  have h2 : k.natAbs = k.toNat := by omega
  simp only [h1, if_false, powInt_eq, h2]

theorem ossl_exp_finding_negative_exponent : Ossl.exp 2 (-3) = ok 8 ∧ Spec.exp 2 (-3) = err := by
  decide

/-! ## shifts and bit operations (on non-negative values), `bitwise_or_big_int` -/

/-- the driver's evaluation of the specified shift is the specification -/
theorem spec_rshift_fast_eq (a : ℤ) (k : ℕ) : Spec.rshiftFast a k = Spec.rshift a k := by
  simp [Spec.rshiftFast, Spec.rshift, Int.shiftRight_eq_div_pow]

/-- the pure-Rust right shift is the floor division by `2^n` for every integer -/
theorem rust_rshift_refines_spec (a : ℤ) (n : ℕ) : Rust.rshift a n = Spec.rshift a n := by
  simp [Rust.rshift, Spec.rshift, Int.shiftRight_eq_div_pow]

theorem rust_rshift1_refines_spec (a : ℤ) : Rust.rshift1 a = Spec.rshift1 a := by
  simp [Rust.rshift1, Spec.rshift1, Spec.rshift, Int.shiftRight_eq_div_pow]

theorem rust_is_bit_set_refines_spec (a n : ℤ) (ha : 0 ≤ a) (hn : 0 ≤ n) :
    Rust.isBitSet a n = Spec.isBitSet a n := by
  obtain ⟨x, rfl⟩ := Int.eq_ofNat_of_zero_le ha
  obtain ⟨k, rfl⟩ := Int.eq_ofNat_of_zero_le hn
  rw [Rust.isBitSet_nat]
  simp [Spec.isBitSet]

theorem rust_set_bit_refines_spec (a n : ℤ) (ha : 0 ≤ a) (hn : 0 ≤ n) :
    Rust.setBit a n = Spec.setBit a n := by
  obtain ⟨x, rfl⟩ := Int.eq_ofNat_of_zero_le ha
  obtain ⟨k, rfl⟩ := Int.eq_ofNat_of_zero_le hn
  rw [Rust.setBit_nat]
  simp [Spec.setBit]

/-- **finding**: a negative index of `set_bit` aborts the process on the pure-Rust back-end
(modelled as `panic`); the specification and OpenSSL answer with an error -/
theorem rust_set_bit_finding_negative_index :
    Rust.setBit 5 (-1) = panic ∧ Spec.setBit 5 (-1) = err ∧ Ossl.setBit 5 (-1) = err := by
  decide

/-- OpenSSL shifts the magnitude: equal to the floor shift on non-negative values for a count
below `2^31` (the wrapper casts the `u32` count to `i32`) -/
theorem ossl_rshift_refines_spec_partial (a : ℤ) (n : ℕ) (ha : 0 ≤ a) (hn : n < 2147483648) :
    Ossl.rshift a n = Spec.rshift a n := by
  unfold Ossl.rshift Spec.rshift
  have h1 : ¬ n ≥ 2147483648 := by omega
  simp only [h1, if_false]
  obtain ⟨x, rfl⟩ := Int.eq_ofNat_of_zero_le ha
  by_cases hb : natBits (x : ℤ).natAbs ≤ n
  · simp only [hb, if_true]
    have : x < 2 ^ n := lt_two_pow_of_natBits_le (by simpa using hb)
    congr 1
    rw [← Int.natCast_ediv, Nat.div_eq_of_lt this]; rfl
  · simp only [hb, if_false]
    rw [Int.tdiv_eq_ediv_of_nonneg (by positivity)]

/-- **finding**: a count `≥ 2^31` is an error on OpenSSL although the shift is defined -/
theorem ossl_rshift_finding_count_cast :
    Ossl.rshift 1024 2147483648 = err ∧ ∃ v, Spec.rshift 1024 2147483648 = ok v :=
  ⟨by simp [Ossl.rshift], _, rfl⟩

theorem ossl_rshift1_refines_spec_partial (a : ℤ) (ha : 0 ≤ a) : Ossl.rshift1 a = Spec.rshift1 a := by
  simp [Ossl.rshift1, Spec.rshift1, Spec.rshift, Int.tdiv_eq_ediv_of_nonneg ha]

theorem ossl_is_bit_set_refines_spec (a n : ℤ) (ha : 0 ≤ a) (hn : 0 ≤ n) :
    Ossl.isBitSet a n = Spec.isBitSet a n := by
  obtain ⟨x, rfl⟩ := Int.eq_ofNat_of_zero_le ha
  obtain ⟨k, rfl⟩ := Int.eq_ofNat_of_zero_le hn
  rw [Ossl.isBitSet_nat]
  simp [Spec.isBitSet]

/-- on a non-negative value `BN_set_bit` is `|||`; a negative index is an error on both sides -/
theorem ossl_set_bit_refines_spec (a n : ℤ) (ha : 0 ≤ a) : Ossl.setBit a n = Spec.setBit a n := by
  by_cases hn : n < 0
  · simp [Ossl.setBit, Spec.setBit, hn]
  · obtain ⟨x, rfl⟩ := Int.eq_ofNat_of_zero_le ha
    obtain ⟨k, rfl⟩ := Int.eq_ofNat_of_zero_le (not_lt.mp hn)
    rw [Ossl.setBit_nat]
    simp [Spec.setBit]

/-- **`bitwise_or_big_int`** (the loop over bit positions in `helpers.rs`) computes the
bitwise or `|||` of two non-negative integers — on the pure-Rust API … -/
theorem bitwiseOr_spec (a b : ℤ) (ha : 0 ≤ a) (hb : 0 ≤ b) :
    bitwiseOr Rust.ops a b = Spec.bitwiseOr a b := by
  obtain ⟨x, rfl⟩ := Int.eq_ofNat_of_zero_le ha
  obtain ⟨y, rfl⟩ := Int.eq_ofNat_of_zero_le hb
  rw [bitwiseOr_nat Rust.ops x y (fun v _ => by simp [Rust.ops, Rust.numBits])
    (fun v i _ => Rust.isBitSet_nat v i) (fun r i => Rust.setBit_nat r i)]
  simp [Spec.bitwiseOr]

/-- … and on the OpenSSL API -/
theorem bitwiseOr_spec_ossl (a b : ℤ) (ha : 0 ≤ a) (hb : 0 ≤ b) :
    bitwiseOr Ossl.ops a b = Spec.bitwiseOr a b := by
  obtain ⟨x, rfl⟩ := Int.eq_ofNat_of_zero_le ha
  obtain ⟨y, rfl⟩ := Int.eq_ofNat_of_zero_le hb
  rw [bitwiseOr_nat Ossl.ops x y (fun v _ => by simp [Ossl.ops, Ossl.numBits])
    (fun v i _ => Ossl.isBitSet_nat v i) (fun r i => Ossl.setBit_nat r i)]
  simp [Spec.bitwiseOr]

example : bitwiseOr Rust.ops 12 10 = ok 14 := by decide

/-! ## OpenSSL wrapper logic that goes through `to_vec` / casts -/

theorem ossl_increment_refines_spec_partial (a : ℤ) (ha : 0 ≤ a) :
    Ossl.increment a = Spec.increment a := by
  simp [Ossl.increment, Spec.increment, abs_of_nonneg ha]
theorem ossl_decrement_refines_spec_partial (a : ℤ) (ha : 0 ≤ a) :
    Ossl.decrement a = Spec.decrement a := by
  simp [Ossl.decrement, Spec.decrement, abs_of_nonneg ha]
/-- **finding**: `BigNum::from_slice(&self.to_vec())` drops the sign -/
theorem ossl_increment_finding_negative :
    Ossl.increment (-5) = ok 6 ∧ Spec.increment (-5) = ok (-4) ∧
    Ossl.decrement (-5) = ok 4 ∧ Spec.decrement (-5) = ok (-6) := by decide

theorem ossl_from_u32_refines_spec_partial (n : ℕ) (h : n < 4294967296) :
    Ossl.fromU32 n = Spec.fromU32 n := by
  simp [Ossl.fromU32, Spec.fromU32, Nat.mod_eq_of_lt h]
theorem ossl_from_u32_finding_truncation :
    Ossl.fromU32 4294967301 = ok 5 ∧ Spec.fromU32 4294967301 = ok 4294967301 := by decide

/-! ## bytes -/

/-- `from_bytes ∘ to_bytes` is the magnitude, on both back-ends (and `to_bytes` has no
leading zero byte for a non-zero value) -/
theorem bytes_round_trip (a : ℤ) :
    (Rust.toBytes a).bind Rust.fromBytes = ok (a.natAbs : ℤ) ∧
    (Ossl.toBytes a).bind Ossl.fromBytes = ok (a.natAbs : ℤ) ∧
    (Spec.toBytes a).bind Spec.fromBytes = ok (a.natAbs : ℤ) := by
  refine ⟨?_, ?_, ?_⟩
  · simp only [Rust.toBytes, Rust.fromBytes, bind_ok]
    by_cases h : a = 0
    · subst h; simp [ofDigits]
    · simp only [h, if_false]; rw [ofDigits_toDigits 256 (by norm_num)]
  · simp only [Ossl.toBytes, Ossl.fromBytes, bind_ok]; rw [ofDigits_toDigits 256 (by norm_num)]
  · simp only [Spec.toBytes, Spec.fromBytes, bind_ok]; rw [ofDigits_toDigits 256 (by norm_num)]

/-- every byte of `to_bytes` is `< 256`; no leading zero for a non-zero value -/
theorem to_bytes_canonical (a : ℤ) (ha : a ≠ 0) :
    Rust.toBytes a = Spec.toBytes a ∧ Ossl.toBytes a = Spec.toBytes a ∧
    (∀ d ∈ toDigits 256 a.natAbs, d < 256) ∧ (toDigits 256 a.natAbs).head? ≠ some 0 := by
  refine ⟨by simp [Rust.toBytes, Spec.toBytes, ha], rfl, toDigits_lt 256 (by norm_num) _, ?_⟩
  exact (toDigits_head 256 (by norm_num) _ (by omega)).1

theorem from_bytes_refines_spec (bs : Bytes) :
    Rust.fromBytes bs = Spec.fromBytes bs ∧ Ossl.fromBytes bs = Spec.fromBytes bs := ⟨rfl, rfl⟩

/-! ## `generates_semiprime_subgroup` -/

/-- **the three conditions** as a pure function: for a non-zero modulus and non-negative
`p'`, `q'` the result is `g ≠ 1 ∧ g^p' mod n ≠ 1 ∧ g^q' mod n ≠ 1`, on both back-ends -/
theorem semiprime_generator (g p q n : ℤ) (hn : n ≠ 0) (hp : 0 ≤ p) (hq : 0 ≤ q) :
    generatesSemiprimeSubgroup Rust.ops g p q n =
      ok (decide (g ≠ 1 ∧ g ^ p.toNat % n ≠ 1 ∧ g ^ q.toNat % n ≠ 1)) ∧
    generatesSemiprimeSubgroup Ossl.ops g p q n =
      ok (decide (g ≠ 1 ∧ g ^ p.toNat % n ≠ 1 ∧ g ^ q.toNat % n ≠ 1)) := by
  have hs : ∀ e : ℤ, 0 ≤ e → Spec.modExp g e n = ok (g ^ e.toNat % n) := by
    intro e he; simp [Spec.modExp, hn, he]
  have hr : ∀ e : ℤ, 0 ≤ e → Rust.ops.modExp g e n = ok (g ^ e.toNat % n) := by
    intro e he
    show Rust.modExp g e n = _
    rw [rust_mod_exp_refines_spec_partial g e n he hn, hs e he]
  have ho : ∀ e : ℤ, 0 ≤ e → Ossl.ops.modExp g e n = ok (g ^ e.toNat % n) := by
    intro e he
    show Ossl.modExp g e n = _
    rw [ossl_mod_exp_refines_spec_partial g e n (fun h => hn h.2), hs e he]
  constructor
  · unfold generatesSemiprimeSubgroup
    rw [hr p hp, hr q hq]
    by_cases h1 : g = 1 <;> by_cases h2 : g ^ p.toNat % n = 1 <;> by_cases h3 : g ^ q.toNat % n = 1 <;>
      simp [h1, h2, h3]
  · unfold generatesSemiprimeSubgroup
    rw [ho p hp, ho q hq]
    by_cases h1 : g = 1 <;> by_cases h2 : g ^ p.toNat % n = 1 <;> by_cases h3 : g ^ q.toNat % n = 1 <;>
      simp [h1, h2, h3]

/-- **finding**: with `n = 0` the pure-Rust back-end panics (zero modulus in `mod_exp`) -/
theorem semiprime_finding_zero_modulus :
    generatesSemiprimeSubgroup Rust.ops 4 3 5 0 = panic ∧
    generatesSemiprimeSubgroup Ossl.ops 4 3 5 0 = err := by decide

/-! ## text: parsing and printing -/

/-- printing is the same function on all three variants in decimal, and on pure Rust in
hexadecimal (OpenSSL pads the hexadecimal text to whole bytes: `ossl_to_hex_reads_back`) -/
theorem to_text_refines_spec (a : ℤ) :
    Rust.toDec a = Spec.toDec a ∧ Ossl.toDec a = Spec.toDec a ∧ Rust.toHex a = Spec.toHex a := by
  refine ⟨?_, ?_, ?_⟩
  · unfold Rust.toDec Rust.toStrRadix Spec.toDec Spec.digitsText
    by_cases h0 : a = 0
    · subst h0; simp
    · have : a.natAbs ≠ 0 := by omega
      simp [h0, this]
  · unfold Ossl.toDec Spec.toDec Spec.digitsText
    by_cases h0 : a = 0
    · subst h0; simp
    · have : a.natAbs ≠ 0 := by omega
      simp [h0, this]
  · unfold Rust.toHex Rust.toStrRadix Spec.toHex Spec.digitsText
    by_cases h0 : a = 0
    · subst h0; simp
    · have : a.natAbs ≠ 0 := by omega
      simp [h0, this]

/-- **every decimal numeral of the strict grammar (`-?[0-9]+`) is read with the same value by
both back-ends** -/
theorem from_dec_refines_spec_on_numerals (s : Text) (v : ℤ) (h : Spec.fromDec s = ok v) :
    Rust.fromDec s = ok v ∧ Ossl.fromDec s = ok v :=
  ⟨Spec.parseNumeral_rust 10 (Or.inl rfl) s v h, Spec.parseNumeral_ossl 10 (Or.inl rfl) s v h⟩

/-- **… and every hexadecimal numeral (`-?[0-9a-fA-F]+`)** -/
theorem from_hex_refines_spec_on_numerals (s : Text) (v : ℤ) (h : Spec.fromHex s = ok v) :
    Rust.fromHex s = ok v ∧ Ossl.fromHex s = ok v :=
  ⟨Spec.parseNumeral_rust 16 (Or.inr rfl) s v h, Spec.parseNumeral_ossl 16 (Or.inr rfl) s v h⟩

/-- **print then parse is the identity**, for every integer, in decimal and hexadecimal, on
the specification and on both back-ends (each back-end reading its own output) -/
theorem text_round_trip (a : ℤ) :
    (Spec.toDec a).bind Spec.fromDec = ok a ∧ (Spec.toHex a).bind Spec.fromHex = ok a ∧
    (Rust.toDec a).bind Rust.fromDec = ok a ∧ (Rust.toHex a).bind Rust.fromHex = ok a ∧
    (Ossl.toDec a).bind Ossl.fromDec = ok a ∧ (Ossl.toHex a).bind Ossl.fromHex = ok a := by
  have hd : (Spec.toDec a).bind Spec.fromDec = ok a := by
    simp only [Spec.toDec, bind_ok, Spec.fromDec]
    exact Spec.parseNumeral_print 10 (Or.inl rfl) a
  have hh : (Spec.toHex a).bind Spec.fromHex = ok a := by
    simp only [Spec.toHex, bind_ok, Spec.fromHex]
    exact Spec.parseNumeral_print 16 (Or.inr rfl) a
  obtain ⟨e1, e2, e3⟩ := to_text_refines_spec a
  refine ⟨hd, hh, ?_, ?_, ?_, ?_⟩
  · rw [e1]; simp only [Spec.toDec, bind_ok] at hd ⊢
    exact (from_dec_refines_spec_on_numerals _ _ hd).1
  · rw [e3]; simp only [Spec.toHex, bind_ok] at hh ⊢
    exact (from_hex_refines_spec_on_numerals _ _ hh).1
  · rw [e2]; simp only [Spec.toDec, bind_ok] at hd ⊢
    exact (from_dec_refines_spec_on_numerals _ _ hd).2
  · obtain ⟨t, ht, hp⟩ := Ossl.toHex_reads_back a
    rw [ht]; simp only [bind_ok]
    exact (from_hex_refines_spec_on_numerals _ _ hp).2

/-- the padded hexadecimal text of OpenSSL denotes the number (read by the strict grammar) -/
theorem ossl_to_hex_reads_back (a : ℤ) : ∃ t, Ossl.toHex a = ok t ∧ Spec.fromHex t = ok a :=
  Ossl.toHex_reads_back a

/-- **findings** (text that is not a numeral is accepted): OpenSSL converts the digit prefix
and ignores the rest; the pure-Rust back-end accepts a leading `+` and skips `_`; a NUL
character panics in the `openssl` crate -/
theorem from_dec_findings :
    Ossl.fromDec "5x".toList = ok 5 ∧ Spec.fromDec "5x".toList = err ∧ Rust.fromDec "5x".toList = err ∧
    Ossl.fromDec "0x10".toList = ok 0 ∧
    Rust.fromDec "+5".toList = ok 5 ∧ Spec.fromDec "+5".toList = err ∧ Ossl.fromDec "+5".toList = err ∧
    Rust.fromDec "1_000".toList = ok 1000 ∧ Ossl.fromDec "1_000".toList = ok 1 ∧
    Spec.fromDec "1_000".toList = err ∧
    Ossl.fromDec ['5', Char.ofNat 0] = panic ∧ Rust.fromDec ['5', Char.ofNat 0] = err := by
  decide

theorem from_hex_findings :
    Ossl.fromHex "fg".toList = ok 15 ∧ Spec.fromHex "fg".toList = err ∧ Rust.fromHex "fg".toList = err ∧
    Rust.fromHex "+ff".toList = ok 255 ∧ Ossl.fromHex "+ff".toList = err ∧
    Rust.fromHex "f_f".toList = ok 255 ∧ Ossl.fromHex "f_f".toList = ok 15 := by
  decide

example : Spec.fromDec "-007".toList = ok (-7) ∧ Rust.fromDec "-007".toList = ok (-7) ∧
    Ossl.fromDec "-007".toList = ok (-7) := by decide
example : Spec.toDec (-255) = ok "-255".toList ∧ Ossl.toHex 4095 = ok "0FFF".toList ∧
    Rust.toHex 4095 = ok "FFF".toList := by decide

/-! ## `generate_prime_in_range`: bounds of the candidate -/

/-- **for all random bytes**, every `size_bits`, `range_bits` that pass the two assertions and
have `range_bits % 8 ≠ 0`, in both overflow modes: the candidate handed to `is_prime` is
`2^size + x` with `x < 2^range` odd — i.e. it lies in `[2^size, 2^size + 2^range)` and is odd.

Full statement (false on the pinned tree): without `range % 8 ≠ 0`;
see `prime_in_range_finding_multiple_of_8`. -/
theorem prime_in_range_bounds (m : OvfMode) (size range : ℕ) (rnd : Bytes)
    (h1 : 1 < range) (h2 : range ≤ size) (h8 : range % 8 ≠ 0)
    (hlen : rnd.length = range / 8 + 1) (hb : ∀ b ∈ rnd, b < 256) :
    ∃ c : ℤ, primeCandidate m size range rnd = ok c ∧
      (2 : ℤ) ^ size ≤ c ∧ c < 2 ^ size + 2 ^ range ∧ c % 2 = 1 := by
  obtain ⟨x, hx, hlt, hodd⟩ := primeCandidate_bounds m size range rnd h1 h2 h8 hlen hb
  refine ⟨_, hx, ?_, ?_, ?_⟩
  · push_cast; have : (0 : ℤ) ≤ (x : ℤ) := by positivity
    linarith
  · push_cast; have : (x : ℤ) < 2 ^ range := by exact_mod_cast hlt
    linarith
  · have hs : 1 ≤ size := by omega
    obtain ⟨k, hk⟩ : ∃ k, size = k + 1 := ⟨size - 1, by omega⟩
    push_cast
    rw [hk, pow_succ]
    have : ((x : ℤ)) % 2 = 1 := by exact_mod_cast hodd
    omega

/-- the instance used by the issuer: `e = generate_prime_in_range(LARGE_E_START,
LARGE_E_END_RANGE)` with the constants regenerated from `constants.rs` (596, 119) -/
theorem prime_in_range_bounds_e (m : OvfMode) (rnd : Bytes)
    (hlen : rnd.length = Gen.LARGE_E_END_RANGE / 8 + 1) (hb : ∀ b ∈ rnd, b < 256) :
    ∃ c : ℤ, primeCandidate m Gen.LARGE_E_START Gen.LARGE_E_END_RANGE rnd = ok c ∧
      (2 : ℤ) ^ Gen.LARGE_E_START ≤ c ∧
      c < 2 ^ Gen.LARGE_E_START + 2 ^ Gen.LARGE_E_END_RANGE ∧ c % 2 = 1 :=
  prime_in_range_bounds m _ _ rnd (by decide) (by decide) (by decide) hlen hb

/-- **finding**: for `range_bits % 8 = 0` the mask is `u8::MAX >> 8`: a panic with overflow
checks, and without them the shift wraps to `>> 0`, the top range byte stays fully random and
the candidate leaves the range (`size = 16, range = 8`, random bytes `FF FF`: `2^16 + 65535`) -/
theorem prime_in_range_finding_multiple_of_8 :
    primeCandidate .checked 16 8 [255, 255] = panic ∧
    primeCandidate .wrapping 16 8 [255, 255] = ok 131071 ∧ ¬ ((131071 : ℤ) < 2 ^ 16 + 2 ^ 8) := by
  decide

example : primeCandidate .wrapping 10 10 [3, 255] = ok 2047 := by decide

/-! ## corpus facts -/

/-- the Carmichael numbers and strong pseudoprimes of the harness corpus, each with a proper
factor (the large primes of the corpus are taken from the literature and only tested) -/
def corpusComposites : List (ℕ × ℕ) := [
  (561, 3),
  (1105, 5),
  (1729, 7),
  (2465, 5),
  (2821, 7),
  (6601, 7),
  (8911, 7),
  (41041, 7),
  (825265, 5),
  (321197185, 5),
  (5394826801, 7),
  (232250619601, 7),
  (9746347772161, 7),
  (35700127755121, 18121),
  (37686301288201, 18451),
  (57060521336809, 21187),
  (386007699134627392741960852648423145645909879484785758609720275807602184721, 4006959063388780594065721),
  (188920918756007600944123125562313043451461075597777194735767964389956961, 315773925627239341652311),
  (2047, 23),
  (1373653, 829),
  (25326001, 2251),
  (3215031751, 151),
  (2152302898747, 6763),
  (3474749660383, 1303),
  (341550071728321, 10670053),
  (3825123056546413051, 149491),
  (318665857834031151167461, 399165290221),
  (3317044064679887385961981, 1287836182261)]

/-- **every pseudoprime of the corpus is composite**: the listed factor is proper and divides it
(so `is_prime` must answer `false` on them; the pure-Rust back-end answers `true` on those
without a factor below 17863 — finding `C17/rust_is_prime_accepts_carmichael`) -/
theorem corpus_composites_are_composite :
    ∀ x ∈ corpusComposites, 1 < x.2 ∧ x.2 < x.1 ∧ x.1 % x.2 = 0 := by
  decide

/-- the small primes of the corpus -/
theorem corpus_small_primes :
    ∀ p ∈ [2, 3, 5, 7, 11, 13, 17, 19, 23, 29, 31, 37, 41, 47, 59, 83, 97, 107, 167, 179, 227, 263,
      1019, 2879], ∀ d ∈ List.range' 2 52, d * d ≤ p → p % d ≠ 0 := by
  decide

end CL.C17
