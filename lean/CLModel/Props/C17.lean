import CLModel.Proofs.BigNum
/-!
# C17 — BigNumber operations agree with integer arithmetic

Model: `CLModel/Model/BigNum.lean` (`Spec.*` = integer arithmetic, `Rust.*` = `src/bn/rust.rs`,
`Ossl.*` = `src/bn/openssl.rs`).  Every theorem is for **all** integers (no size bound).  For
each operation: `Rust.op = Spec.op` and `Ossl.op = Spec.op` on the stated domain (an `err` on
either side is part of the equality: "an error, not a wrong value, where the result is
undefined").  The defects found by the first version of this file (negative operands of the
pure-Rust `inverse`, zero moduli, `0^0`, sign loss in the OpenSSL `increment`, lenient text
parsing, …) are repaired in `/repo`; the theorems below are the full-strength statements about
the repaired code.  Hypotheses that remain delimit the domain of the property statement
(bit operations on non-negative values, exponents of `exp` below `2^64`).
-/
namespace CL.C17
open CL CL.BN CL.Outcome

/-! ## ring operations, comparison, words: identical to integer arithmetic -/

theorem rust_add_refines_spec (a b : ℤ) : Rust.add a b = Spec.add a b := rfl
theorem rust_sub_refines_spec (a b : ℤ) : Rust.sub a b = Spec.sub a b := rfl
theorem rust_mul_refines_spec (a b : ℤ) : Rust.mul a b = Spec.mul a b := rfl
theorem rust_sqr_refines_spec (a : ℤ) : Rust.sqr a = Spec.sqr a := rfl
theorem rust_cmp_refines_spec (a b : ℤ) : Rust.cmp a b = Spec.cmp a b := rfl
theorem rust_eq_refines_spec (a b : ℤ) : Rust.eq a b = Spec.eq a b := rfl
theorem rust_is_negative_refines_spec (a : ℤ) : Rust.isNegative a = Spec.isNegative a := rfl
/-- truncating division; `Err` exactly for the zero divisor -/
theorem rust_div_refines_spec (a b : ℤ) : Rust.div a b = Spec.div a b := rfl
theorem rust_gcd_refines_spec (a b : ℤ) : Rust.gcd a b = Spec.gcd a b := rfl
theorem rust_word_ops_refine_spec (a : ℤ) (w : ℕ) :
    Rust.addWord a w = Spec.addWord a w ∧ Rust.subWord a w = Spec.subWord a w ∧
    Rust.mulWord a w = Spec.mulWord a w ∧ Rust.divWord a w = Spec.divWord a w :=
  ⟨rfl, rfl, rfl, rfl⟩
theorem rust_increment_refines_spec (a : ℤ) : Rust.increment a = Spec.increment a := rfl
theorem rust_decrement_refines_spec (a : ℤ) : Rust.decrement a = Spec.decrement a := rfl
theorem rust_from_u32_refines_spec (n : ℕ) : Rust.fromU32 n = Spec.fromU32 n := rfl
theorem rust_lshift1_refines_spec (a : ℤ) : Rust.lshift1 a = Spec.lshift1 a := by
  simp [Rust.lshift1, Spec.lshift1, mul_comm]
theorem rust_num_bits_refines_spec (a : ℤ) : Rust.numBits a = Spec.numBits a := rfl

theorem rust_set_negative_refines_spec (a : ℤ) (neg : Bool) :
    Rust.setNegative a neg = Spec.setNegative a neg := by
  unfold Rust.setNegative Spec.setNegative
  by_cases h : a < 0
  · have := abs_of_neg h
    cases neg <;> simp [h] <;> omega
  · have := abs_of_nonneg (not_lt.mp h)
    cases neg <;> simp [h] <;> omega

theorem ossl_ring_ops_refine_spec (a b : ℤ) :
    Ossl.add a b = Spec.add a b ∧ Ossl.sub a b = Spec.sub a b ∧ Ossl.mul a b = Spec.mul a b ∧
    Ossl.sqr a = Spec.sqr a ∧ Ossl.cmp a b = Spec.cmp a b ∧ Ossl.eq a b = Spec.eq a b ∧
    Ossl.div a b = Spec.div a b ∧ Ossl.gcd a b = Spec.gcd a b ∧
    Ossl.isNegative a = Spec.isNegative a ∧ Ossl.numBits a = Spec.numBits a :=
  ⟨rfl, rfl, rfl, rfl, rfl, rfl, rfl, rfl, rfl, rfl⟩
theorem ossl_word_ops_refine_spec (a : ℤ) (w : ℕ) :
    Ossl.addWord a w = Spec.addWord a w ∧ Ossl.subWord a w = Spec.subWord a w ∧
    Ossl.mulWord a w = Spec.mulWord a w ∧ Ossl.divWord a w = Spec.divWord a w :=
  ⟨rfl, rfl, rfl, rfl⟩
theorem ossl_lshift1_refines_spec (a : ℤ) : Ossl.lshift1 a = Spec.lshift1 a := by
  simp [Ossl.lshift1, Spec.lshift1, mul_comm]
theorem ossl_set_negative_refines_spec (a : ℤ) (neg : Bool) :
    Ossl.setNegative a neg = Spec.setNegative a neg := by
  unfold Ossl.setNegative Spec.setNegative
  cases neg <;> simp
  intro h; simp [h]

/-! ## `modulus`: sign handling -/

/-- **`modulus`** (pure Rust): `_get_modulus`, truncating `%` and the sign fix-up together are
the non-negative residue modulo `|n|`, for every dividend and every modulus of either sign;
`Err` exactly for `n = 0`. -/
theorem rust_modulus_refines_spec (a n : ℤ) : Rust.modulus a n = Spec.modulus a n := by
  unfold Rust.modulus Spec.modulus
  by_cases hn : n = 0
  · simp [hn]
  · simp only [hn, if_false, Rust.getModulus_eq]
    congr 1
    have hm : (0 : ℤ) < (n.natAbs : ℤ) := by omega
    have hmod : a % n = a % (n.natAbs : ℤ) := by
      rcases Int.natAbs_eq n with h | h
      · rw [← h]
      · conv_lhs => rw [h, Int.emod_neg]
    rw [hmod, Int.tmod_eq_emod]
    have h0 := Int.emod_nonneg a (ne_of_gt hm)
    have h1 := Int.emod_lt_of_pos a hm
    by_cases hc : 0 ≤ a ∨ (n.natAbs : ℤ) ∣ a
    · rw [if_pos hc]
      simp only [Nat.cast_zero, sub_zero]
      rw [if_neg (by omega)]
    · rw [if_neg hc]
      have hne : a % (n.natAbs : ℤ) ≠ 0 := by
        intro h; exact hc (Or.inr (Int.dvd_of_emod_eq_zero h))
      have hnat : ((n.natAbs : ℤ).natAbs : ℤ) = (n.natAbs : ℤ) := by
        rw [Int.natAbs_natCast]
      rw [hnat, if_pos (by omega)]
      ring

/-- a modulus and its negative give the same residue, which lies in `[0, |n|)` -/
theorem modulus_sign_handling (a n : ℤ) (hn : n ≠ 0) :
    Rust.modulus a (-n) = Rust.modulus a n ∧
    ∃ r, Rust.modulus a n = ok r ∧ 0 ≤ r ∧ r < (n.natAbs : ℤ) := by
  rw [rust_modulus_refines_spec, rust_modulus_refines_spec]
  unfold Spec.modulus
  have hn' : -n ≠ 0 := by omega
  simp only [hn, hn', if_false, Int.emod_neg, true_and]
  exact ⟨_, rfl, Int.emod_nonneg _ hn, Int.emod_lt _ hn⟩

theorem ossl_modulus_refines_spec (a n : ℤ) : Ossl.modulus a n = Spec.modulus a n := rfl

theorem rust_mod_mul_refines_spec (a b n : ℤ) : Rust.modMul a b n = Spec.modMul a b n := by
  simp [Rust.modMul, Spec.modMul, Rust.mul, rust_modulus_refines_spec]
theorem rust_mod_sub_refines_spec (a b n : ℤ) : Rust.modSub a b n = Spec.modSub a b n := by
  simp [Rust.modSub, Spec.modSub, Rust.sub, rust_modulus_refines_spec]
theorem ossl_mod_mul_refines_spec (a b n : ℤ) : Ossl.modMul a b n = Spec.modMul a b n := rfl
theorem ossl_mod_sub_refines_spec (a b n : ℤ) : Ossl.modSub a b n = Spec.modSub a b n := rfl

/-! ## `inverse` -/

/-- **specification of the inverse**: `Spec.inverse a n` is an error exactly when
`gcd(a, n) ≠ 1` (modulus `≠ 0, ±1`), otherwise the unique `t ∈ [0, |n|)` with
`a·t ≡ 1 (mod |n|)`. -/
theorem spec_inverse_correct (a n : ℤ) (hn : 2 ≤ n.natAbs) :
    (Int.gcd a n ≠ 1 → Spec.inverse a n = err) ∧
    (Int.gcd a n = 1 → ∃ t, Spec.inverse a n = ok t ∧ 0 ≤ t ∧ t < (n.natAbs : ℤ) ∧
      (a * t) % (n.natAbs : ℤ) = 1) := by
  obtain ⟨h1, h2⟩ := Spec.inverse_correct a n hn
  refine ⟨h1, fun hg => ?_⟩
  obtain ⟨t, ht, h0, hlt, hd⟩ := h2 hg
  refine ⟨t, ht, h0, hlt, ?_⟩
  have hm : (1 : ℤ) < (n.natAbs : ℤ) := by omega
  have : (a * t) % (n.natAbs : ℤ) = 1 % (n.natAbs : ℤ) :=
    (Int.modEq_iff_dvd.mpr hd : a * t ≡ 1 [ZMOD _])
  rw [this, Int.emod_eq_of_lt (by norm_num) hm]

/-- the modulus `0` and the degenerate moduli `±1` are rejected by the specification -/
theorem spec_inverse_degenerate (a n : ℤ) (hn : n.natAbs ≤ 1) : Spec.inverse a n = err := by
  simp [Spec.inverse, hn]

/-- **`Rust.inverse` (own extended Euclid) agrees with the specification for every operand and
every modulus**: the operand is reduced into `[0, |n|)`, on which the loop invariant
`r ≡ a·t (mod n)` (`Rust.LoopInv.cong_r`) holds; the loop terminates within the fuel
(`Rust.inverseLoop_spec`: the model's `panic` branch is unreachable); the result lies in
`[0, |n|)` with `a·t ≡ 1`; a non-invertible operand and the moduli `0, ±1` are errors. -/
theorem rust_inverse_refines_spec (a n : ℤ) : Rust.inverse a n = Spec.inverse a n := by
  by_cases hdeg : n.natAbs ≤ 1
  · have : (n.natAbs : ℤ) = 1 ∨ (n.natAbs : ℤ) = 0 := by omega
    rw [spec_inverse_degenerate a n hdeg]
    unfold Rust.inverse
    simp only [Rust.getModulus_eq, this, if_true]
  · have h2 : 2 ≤ n.natAbs := by omega
    obtain ⟨r1, r2⟩ := Rust.inverse_correct a n h2
    obtain ⟨s1, s2⟩ := Spec.inverse_correct a n h2
    by_cases hg : Int.gcd a n = 1
    · obtain ⟨t, ht, ht0, ht1, ht2⟩ := r2 hg
      obtain ⟨u, hu, hu0, hu1, hu2⟩ := s2 hg
      rw [ht, hu, inverse_unique ⟨ht0, ht1, ht2⟩ ⟨hu0, hu1, hu2⟩]
    · rw [r1 hg, s1 hg]

/-- never a panic, never a wrong value: the outcome is `err` or the inverse -/
theorem rust_inverse_correct (a n : ℤ) (hn : 2 ≤ n.natAbs) :
    (Int.gcd a n ≠ 1 → Rust.inverse a n = err) ∧
    (Int.gcd a n = 1 → ∃ t, Rust.inverse a n = ok t ∧ 0 ≤ t ∧ t < (n.natAbs : ℤ) ∧
      (n.natAbs : ℤ) ∣ 1 - a * t) :=
  Rust.inverse_correct a n hn

/-- the loop invariant `r ≡ a·t (mod m)` holds initially and is preserved by every iteration
(for a non-negative operand, which is what the loop receives) -/
theorem rust_inverse_loop_invariant (m a t nt r nr s : ℤ) (h : Rust.LoopInv m a t nt r nr s)
    (hnr : nr ≠ 0) :
    m ∣ nr - a * nt ∧
    Rust.LoopInv m a nt (t - Int.tdiv r nr * nt) nr (r - Int.tdiv r nr * nr) (-s) :=
  ⟨h.cong_nr, h.step hnr⟩

/-- the inputs on which the unrepaired code was wrong -/
example : Rust.inverse (-3) 5 = ok 3 ∧ Rust.inverse (-2) 4 = err ∧ Rust.inverse 3 (-1) = err ∧
    Rust.inverse 3 1 = err ∧ Rust.inverse 3 47 = ok 16 := by decide

/-- OpenSSL: `BN_mod_inverse` as stated is the specification, for every operand and modulus -/
theorem ossl_inverse_refines_spec (a n : ℤ) : Ossl.inverse a n = Spec.inverse a n := rfl

/-- `mod_div = a · b⁻¹ mod |n|` -/
theorem rust_mod_div_refines_spec (a b n : ℤ) : Rust.modDiv a b n = Spec.modDiv a b n := by
  unfold Rust.modDiv Spec.modDiv
  rw [rust_inverse_refines_spec b n]
  cases Spec.inverse b n <;> simp [Rust.mul, rust_modulus_refines_spec]

theorem ossl_mod_div_refines_spec (a b n : ℤ) : Ossl.modDiv a b n = Spec.modDiv a b n := by
  unfold Ossl.modDiv Spec.modDiv
  rw [ossl_inverse_refines_spec]
  cases Spec.inverse b n <;> rfl

/-! ## `mod_exp` (negative exponent = power of the inverse) and `exp` -/

/-- the driver's evaluation of the specification is the specification -/
theorem spec_mod_exp_fast_eq (a e n : ℤ) : Spec.modExpFast a e n = Spec.modExp a e n :=
  Spec.modExpFast_eq a e n

theorem spec_exp_fast_eq (a k : ℤ) : Spec.expFast a k = Spec.exp a k := Spec.expFast_eq a k

/-- **`mod_exp`** (pure Rust) agrees with integer arithmetic for every base, every exponent of
either sign and every modulus of either sign: zero modulus ↦ error; non-negative exponent ↦
`a^e mod |n|` (the `b == 1` special case, `_get_modulus` and `modpow`); negative exponent ↦
the `|e|`-th power of the inverse, an error when the base is not invertible. -/
theorem rust_mod_exp_refines_spec (a e n : ℤ) : Rust.modExp a e n = Spec.modExp a e n := by
  unfold Rust.modExp Spec.modExp
  by_cases hn : n = 0
  · simp [hn]
  · simp only [hn, if_false]
    have hm : 0 < Rust.getModulus n := by rw [Rust.getModulus_eq]; omega
    by_cases he : e < 0
    · have h2 : ¬ 0 ≤ e := by omega
      simp only [he, h2, if_true, if_false]
      rw [rust_inverse_refines_spec a n]
      cases Spec.inverse a n with
      | err => rfl
      | panic => rfl
      | ok ai =>
        simp only [bind_ok]
        have hs : Rust.setNegative e false = ok (-e) := by simp [Rust.setNegative, he]
        rw [hs]
        simp only [bind_ok]
        rw [Rust.modpow_eq ai (-e) _ (by omega) hm, Rust.getModulus_eq, emod_natAbs]
    · have h2 : 0 ≤ e := by omega
      simp only [he, h2, if_true, if_false]
      by_cases h : n = 1
      · subst h; simp
      · simp only [h, if_false]
        rw [Rust.modpow_eq a e _ h2 hm, Rust.getModulus_eq, emod_natAbs]

/-- the crate's own example `6^(-5) mod 13 = 7` on all three variants, and the inputs on which
the unrepaired code was wrong -/
theorem mod_exp_example :
    Rust.modExp 6 (-5) 13 = ok 7 ∧ Ossl.modExp 6 (-5) 13 = ok 7 ∧ Spec.modExp 6 (-5) 13 = ok 7 ∧
    Rust.modExp 6 5 0 = err ∧ Rust.modExp (-3) (-1) 5 = ok 3 ∧ Rust.modExp 6 (-1) 1 = err ∧
    Ossl.modExp 5 0 0 = err := by
  decide

/-- **`mod_exp`** (OpenSSL wrapper) agrees with integer arithmetic for every base, exponent
and modulus -/
theorem ossl_mod_exp_refines_spec (a e n : ℤ) : Ossl.modExp a e n = Spec.modExp a e n := by
  unfold Ossl.modExp Spec.modExp
  by_cases hn : n = 0
  · simp [hn]
  · simp only [hn, if_false]
    by_cases he : e < 0
    · have h2 : ¬ 0 ≤ e := by omega
      simp only [he, h2, if_true, if_false]
      rw [ossl_inverse_refines_spec]
      cases Spec.inverse a n with
      | err => rfl
      | panic => rfl
      | ok ai =>
        simp only [bind_ok]
        have hs : Ossl.setNegative e false = ok (-e) := by
          unfold Ossl.setNegative; simp; omega
        rw [hs]
        simp only [bind_ok, Ossl.bnModExp, hn, if_false]
        rw [powMod_cast ai (-e).toNat n hn]
    · have h2 : 0 ≤ e := by omega
      simp only [he, h2, if_true, if_false, Ossl.bnModExp, hn]
      rw [powMod_cast a e.toNat n hn]

/-- **`exp`** (pure Rust): a negative exponent is an error, `a^0 = 1` (including `0^0`), and the
special cases `bits() == 0`, `a.is_one()` and `pow` agree with `a^k` — for every base and every
exponent below `2^64` (larger exponents are refused by `to_u64`, which only matters for the
bases `0, ±1`: `rust_exp_huge_exponent_refused`). -/
theorem rust_exp_refines_spec (a k : ℤ) (hk64 : k < 2 ^ 64) : Rust.exp a k = Spec.exp a k := by
  unfold Rust.exp Spec.exp
  by_cases hneg : k < 0
  · simp [hneg]
  · simp only [hneg, if_false]
    by_cases hk0 : k = 0
    · subst hk0; simp
    · simp only [hk0, if_false]
      by_cases ha : a = 0
      · subst ha
        have : k.toNat ≠ 0 := by omega
        simp [natBits_zero, zero_pow this]
      · have hb : natBits a.natAbs ≠ 0 := by
          rw [Ne, natBits_eq_zero_iff]; omega
        simp only [hb, if_false]
        by_cases h1 : k = 1
        · subst h1; simp
        · have : 0 ≤ k ∧ k < 18446744073709551616 := ⟨by omega, by norm_num at hk64; exact hk64⟩
          simp only [h1, this, and_self, if_true, if_false, powInt_eq]

/-- exponents `≥ 2^64` are refused although `1^k` is defined (outside the stated domain) -/
theorem rust_exp_huge_exponent_refused :
    Rust.exp 1 18446744073709551616 = err ∧ Spec.exp 1 18446744073709551616 = ok 1 := by
  constructor
  · decide
  · simp [Spec.exp]

/-- **`exp`** (OpenSSL): a negative exponent is an error, otherwise `BN_exp` is `a^k`
(including `0^0 = 1`), for every base and exponent -/
theorem ossl_exp_refines_spec (a k : ℤ) : Ossl.exp a k = Spec.exp a k := by
  unfold Ossl.exp Spec.exp
  by_cases h1 : k < 0
  · simp [h1]
  · have h2 : k.natAbs = k.toNat := by omega
    simp only [h1, if_false, powInt_eq, h2]

example : Rust.exp 0 0 = ok 1 ∧ Rust.exp 0 (-1) = err ∧ Ossl.exp 2 (-3) = err ∧
    Rust.exp 3 5 = ok 243 := by decide

/-! ## shifts and bit operations (on non-negative values), `bitwise_or_big_int` -/

/-- the driver's evaluation of the specified shift is the specification -/
theorem spec_rshift_fast_eq (a : ℤ) (k : ℕ) : Spec.rshiftFast a k = Spec.rshift a k := by
  simp [Spec.rshiftFast, Spec.rshift, Int.shiftRight_eq_div_pow]

/-- the pure-Rust right shift is the floor division by `2^n` for every integer -/
theorem rust_rshift_refines_spec (a : ℤ) (n : ℕ) : Rust.rshift a n = Spec.rshift a n := by
  simp [Rust.rshift, Spec.rshift, Int.shiftRight_eq_div_pow]

theorem rust_rshift1_refines_spec (a : ℤ) : Rust.rshift1 a = Spec.rshift1 a := by
  simp [Rust.rshift1, Spec.rshift1, Spec.rshift, Int.shiftRight_eq_div_pow]

theorem rust_is_bit_set_refines_spec (a n : ℤ) (ha : 0 ≤ a) (hn : 0 ≤ n) :
    Rust.isBitSet a n = Spec.isBitSet a n := by
  obtain ⟨x, rfl⟩ := Int.eq_ofNat_of_zero_le ha
  obtain ⟨k, rfl⟩ := Int.eq_ofNat_of_zero_le hn
  rw [Rust.isBitSet_nat]
  simp [Spec.isBitSet]

/-- on a non-negative value `set_bit` is `|||`; a negative index is an error on both sides -/
theorem rust_set_bit_refines_spec (a n : ℤ) (ha : 0 ≤ a) : Rust.setBit a n = Spec.setBit a n := by
  by_cases hn : n < 0
  · simp [Rust.setBit, Spec.setBit, hn]
  · obtain ⟨x, rfl⟩ := Int.eq_ofNat_of_zero_le ha
    obtain ⟨k, rfl⟩ := Int.eq_ofNat_of_zero_le (not_lt.mp hn)
    rw [Rust.setBit_nat]
    simp [Spec.setBit]

/-- OpenSSL shifts the magnitude: equal to the floor shift on non-negative values; a count
above `i32::MAX` is answered with `0`, which is the shift of every value below `2^n` -/
theorem ossl_rshift_refines_spec (a : ℤ) (n : ℕ) (ha : 0 ≤ a)
    (hn : n < 2147483648 ∨ a.natAbs < 2 ^ n) : Ossl.rshift a n = Spec.rshift a n := by
  unfold Ossl.rshift Spec.rshift
  obtain ⟨x, rfl⟩ := Int.eq_ofNat_of_zero_le ha
  have hzero : x < 2 ^ n → (0 : ℤ) = (x : ℤ) / ((2 ^ n : ℕ) : ℤ) := by
    intro h
    rw [← Int.natCast_ediv, Nat.div_eq_of_lt h]; rfl
  by_cases h1 : n > 2147483647
  · simp only [h1, if_true]
    have : x < 2 ^ n := by
      rcases hn with h | h
      · omega
      · simpa using h
    congr 1; exact hzero this
  · simp only [h1, if_false]
    by_cases hb : natBits (x : ℤ).natAbs ≤ n
    · simp only [hb, if_true]
      have : x < 2 ^ n := lt_two_pow_of_natBits_le (by simpa using hb)
      congr 1; exact hzero this
    · simp only [hb, if_false]
      rw [Int.tdiv_eq_ediv_of_nonneg (by positivity)]

theorem ossl_rshift1_refines_spec (a : ℤ) (ha : 0 ≤ a) : Ossl.rshift1 a = Spec.rshift1 a := by
  simp [Ossl.rshift1, Spec.rshift1, Spec.rshift, Int.tdiv_eq_ediv_of_nonneg ha]

theorem ossl_is_bit_set_refines_spec (a n : ℤ) (ha : 0 ≤ a) (hn : 0 ≤ n) :
    Ossl.isBitSet a n = Spec.isBitSet a n := by
  obtain ⟨x, rfl⟩ := Int.eq_ofNat_of_zero_le ha
  obtain ⟨k, rfl⟩ := Int.eq_ofNat_of_zero_le hn
  rw [Ossl.isBitSet_nat]
  simp [Spec.isBitSet]

/-- on a non-negative value `BN_set_bit` is `|||`; a negative index is an error on both sides -/
theorem ossl_set_bit_refines_spec (a n : ℤ) (ha : 0 ≤ a) : Ossl.setBit a n = Spec.setBit a n := by
  by_cases hn : n < 0
  · simp [Ossl.setBit, Spec.setBit, hn]
  · obtain ⟨x, rfl⟩ := Int.eq_ofNat_of_zero_le ha
    obtain ⟨k, rfl⟩ := Int.eq_ofNat_of_zero_le (not_lt.mp hn)
    rw [Ossl.setBit_nat]
    simp [Spec.setBit]

/-- **`bitwise_or_big_int`** (the loop over bit positions in `helpers.rs`) computes the
bitwise or `|||` of two non-negative integers — on the pure-Rust API … -/
theorem bitwiseOr_spec (a b : ℤ) (ha : 0 ≤ a) (hb : 0 ≤ b) :
    bitwiseOr Rust.ops a b = Spec.bitwiseOr a b := by
  obtain ⟨x, rfl⟩ := Int.eq_ofNat_of_zero_le ha
  obtain ⟨y, rfl⟩ := Int.eq_ofNat_of_zero_le hb
  rw [bitwiseOr_nat Rust.ops x y (fun v _ => by simp [Rust.ops, Rust.numBits])
    (fun v i _ => Rust.isBitSet_nat v i) (fun r i => Rust.setBit_nat r i)]
  simp [Spec.bitwiseOr]

/-- … and on the OpenSSL API -/
theorem bitwiseOr_spec_ossl (a b : ℤ) (ha : 0 ≤ a) (hb : 0 ≤ b) :
    bitwiseOr Ossl.ops a b = Spec.bitwiseOr a b := by
  obtain ⟨x, rfl⟩ := Int.eq_ofNat_of_zero_le ha
  obtain ⟨y, rfl⟩ := Int.eq_ofNat_of_zero_le hb
  rw [bitwiseOr_nat Ossl.ops x y (fun v _ => by simp [Ossl.ops, Ossl.numBits])
    (fun v i _ => Ossl.isBitSet_nat v i) (fun r i => Ossl.setBit_nat r i)]
  simp [Spec.bitwiseOr]

example : bitwiseOr Rust.ops 12 10 = ok 14 ∧ Rust.setBit 5 (-1) = err ∧ Ossl.setBit 5 (-1) = err := by
  decide

/-! ## OpenSSL wrapper logic: copies and casts -/

theorem ossl_increment_refines_spec (a : ℤ) : Ossl.increment a = Spec.increment a := rfl
theorem ossl_decrement_refines_spec (a : ℤ) : Ossl.decrement a = Spec.decrement a := rfl
theorem ossl_from_u32_refines_spec (n : ℕ) : Ossl.fromU32 n = Spec.fromU32 n := rfl
example : Ossl.increment (-5) = ok (-4) ∧ Ossl.decrement (-5) = ok (-6) ∧
    Ossl.fromU32 4294967301 = ok 4294967301 := by decide

/-! ## bytes -/

/-- `to_bytes` is the minimal big-endian encoding of the magnitude (the empty string for zero)
on both back-ends -/
theorem to_bytes_refines_spec (a : ℤ) :
    Rust.toBytes a = Spec.toBytes a ∧ Ossl.toBytes a = Spec.toBytes a := by
  refine ⟨?_, rfl⟩
  unfold Rust.toBytes Spec.toBytes
  by_cases h : a = 0
  · subst h; simp [toDigits_zero]
  · simp [h]

theorem from_bytes_refines_spec (bs : Bytes) :
    Rust.fromBytes bs = Spec.fromBytes bs ∧ Ossl.fromBytes bs = Spec.fromBytes bs := ⟨rfl, rfl⟩

/-- `from_bytes ∘ to_bytes` is the magnitude -/
theorem bytes_round_trip (a : ℤ) :
    (Rust.toBytes a).bind Rust.fromBytes = ok (a.natAbs : ℤ) ∧
    (Ossl.toBytes a).bind Ossl.fromBytes = ok (a.natAbs : ℤ) ∧
    (Spec.toBytes a).bind Spec.fromBytes = ok (a.natAbs : ℤ) := by
  have h : (Spec.toBytes a).bind Spec.fromBytes = ok (a.natAbs : ℤ) := by
    simp only [Spec.toBytes, Spec.fromBytes, bind_ok]; rw [ofDigits_toDigits 256 (by norm_num)]
  obtain ⟨h1, h2⟩ := to_bytes_refines_spec a
  refine ⟨?_, ?_, h⟩
  · rw [h1]; exact h
  · rw [h2]; exact h

/-- every byte of `to_bytes` is `< 256`; no leading zero byte -/
theorem to_bytes_canonical (a : ℤ) (ha : a ≠ 0) :
    (∀ d ∈ toDigits 256 a.natAbs, d < 256) ∧ (toDigits 256 a.natAbs).head? ≠ some 0 :=
  ⟨toDigits_lt 256 (by norm_num) _, (toDigits_head 256 (by norm_num) _ (by omega)).1⟩

/-! ## `generates_semiprime_subgroup` -/

theorem generatesSemiprimeSubgroup_congr (o1 o2 : Ops)
    (h : ∀ a e n, o1.modExp a e n = o2.modExp a e n) (g p q n : ℤ) :
    generatesSemiprimeSubgroup o1 g p q n = generatesSemiprimeSubgroup o2 g p q n := by
  unfold generatesSemiprimeSubgroup
  rw [h g p n, h g q n]

/-- on both back-ends the function is the one over integer arithmetic, for all arguments
(errors of `mod_exp` included: zero modulus, non-invertible base with a negative exponent) -/
theorem semiprime_refines_spec (g p q n : ℤ) :
    generatesSemiprimeSubgroup Rust.ops g p q n = Spec.generatesSemiprimeSubgroup g p q n ∧
    generatesSemiprimeSubgroup Ossl.ops g p q n = Spec.generatesSemiprimeSubgroup g p q n := by
  constructor
  · exact generatesSemiprimeSubgroup_congr _ _ (fun a e n => by
      show Rust.modExp a e n = Spec.modExpFast a e n
      rw [rust_mod_exp_refines_spec, Spec.modExpFast_eq]) g p q n
  · exact generatesSemiprimeSubgroup_congr _ _ (fun a e n => by
      show Ossl.modExp a e n = Spec.modExpFast a e n
      rw [ossl_mod_exp_refines_spec, Spec.modExpFast_eq]) g p q n

/-- **the three conditions** as a pure function: for a non-zero modulus and non-negative
`p'`, `q'` the result is `g ≠ 1 ∧ g^p' mod n ≠ 1 ∧ g^q' mod n ≠ 1`, on both back-ends -/
theorem semiprime_generator (g p q n : ℤ) (hn : n ≠ 0) (hp : 0 ≤ p) (hq : 0 ≤ q) :
    generatesSemiprimeSubgroup Rust.ops g p q n =
      ok (decide (g ≠ 1 ∧ g ^ p.toNat % n ≠ 1 ∧ g ^ q.toNat % n ≠ 1)) ∧
    generatesSemiprimeSubgroup Ossl.ops g p q n =
      ok (decide (g ≠ 1 ∧ g ^ p.toNat % n ≠ 1 ∧ g ^ q.toNat % n ≠ 1)) := by
  have hs : ∀ e : ℤ, 0 ≤ e → Spec.modExp g e n = ok (g ^ e.toNat % n) := by
    intro e he; simp [Spec.modExp, hn, he]
  have hr : ∀ e : ℤ, 0 ≤ e → Rust.ops.modExp g e n = ok (g ^ e.toNat % n) := by
    intro e he
    show Rust.modExp g e n = _
    rw [rust_mod_exp_refines_spec g e n, hs e he]
  have ho : ∀ e : ℤ, 0 ≤ e → Ossl.ops.modExp g e n = ok (g ^ e.toNat % n) := by
    intro e he
    show Ossl.modExp g e n = _
    rw [ossl_mod_exp_refines_spec g e n, hs e he]
  constructor
  · unfold generatesSemiprimeSubgroup
    rw [hr p hp, hr q hq]
    by_cases h1 : g = 1 <;> by_cases h2 : g ^ p.toNat % n = 1 <;> by_cases h3 : g ^ q.toNat % n = 1 <;>
      simp [h1, h2, h3]
  · unfold generatesSemiprimeSubgroup
    rw [ho p hp, ho q hq]
    by_cases h1 : g = 1 <;> by_cases h2 : g ^ p.toNat % n = 1 <;> by_cases h3 : g ^ q.toNat % n = 1 <;>
      simp [h1, h2, h3]

example : generatesSemiprimeSubgroup Rust.ops 4 3 5 0 = err ∧
    generatesSemiprimeSubgroup Rust.ops 4 3 5 77 = ok true := by decide

/-! ## text: parsing and printing -/

/-- printing is the same function on all three variants in decimal, and on pure Rust in
hexadecimal (OpenSSL pads the hexadecimal text to whole bytes: `ossl_to_hex_reads_back`) -/
theorem to_text_refines_spec (a : ℤ) :
    Rust.toDec a = Spec.toDec a ∧ Ossl.toDec a = Spec.toDec a ∧ Rust.toHex a = Spec.toHex a := by
  refine ⟨?_, ?_, ?_⟩
  · unfold Rust.toDec Rust.toStrRadix Spec.toDec Spec.digitsText
    by_cases h0 : a = 0
    · subst h0; simp
    · have : a.natAbs ≠ 0 := by omega
      simp [h0, this]
  · unfold Ossl.toDec Spec.toDec Spec.digitsText
    by_cases h0 : a = 0
    · subst h0; simp
    · have : a.natAbs ≠ 0 := by omega
      simp [h0, this]
  · unfold Rust.toHex Rust.toStrRadix Spec.toHex Spec.digitsText
    by_cases h0 : a = 0
    · subst h0; simp
    · have : a.natAbs ≠ 0 := by omega
      simp [h0, this]

/-- **`from_dec` is the specification for every text on both back-ends**: exactly the numerals
`-?[0-9]+` are read, with their value; everything else (a leading `+`, `_`, trailing
characters, `0x`, NUL, the empty string …) is an error -/
theorem from_dec_refines_spec (s : Text) :
    Rust.fromDec s = Spec.fromDec s ∧ Ossl.fromDec s = Spec.fromDec s :=
  parsers_eq_spec 10 (Or.inl rfl) s

/-- **… and `from_hex`** for `-?[0-9a-fA-F]+` -/
theorem from_hex_refines_spec (s : Text) :
    Rust.fromHex s = Spec.fromHex s ∧ Ossl.fromHex s = Spec.fromHex s :=
  parsers_eq_spec 16 (Or.inr rfl) s

/-- the guard `is_numeral` of `bn/mod.rs` accepts exactly the texts the specification reads -/
theorem is_numeral_is_the_grammar (radix : ℕ) (s : Text) :
    (isNumeral radix s = true → ∃ v, Spec.parseNumeral radix s = ok v) ∧
    (isNumeral radix s = false → Spec.parseNumeral radix s = err) :=
  Spec.parseNumeral_isNumeral radix s

/-- the padded hexadecimal text of OpenSSL denotes the number (read by the strict grammar) -/
theorem ossl_to_hex_reads_back (a : ℤ) : ∃ t, Ossl.toHex a = ok t ∧ Spec.fromHex t = ok a :=
  Ossl.toHex_reads_back a

/-- **print then parse is the identity**, for every integer, in decimal and hexadecimal, on
the specification and on both back-ends (each back-end reading its own output) -/
theorem text_round_trip (a : ℤ) :
    (Spec.toDec a).bind Spec.fromDec = ok a ∧ (Spec.toHex a).bind Spec.fromHex = ok a ∧
    (Rust.toDec a).bind Rust.fromDec = ok a ∧ (Rust.toHex a).bind Rust.fromHex = ok a ∧
    (Ossl.toDec a).bind Ossl.fromDec = ok a ∧ (Ossl.toHex a).bind Ossl.fromHex = ok a := by
  have hd : (Spec.toDec a).bind Spec.fromDec = ok a := by
    simp only [Spec.toDec, bind_ok, Spec.fromDec]
    exact Spec.parseNumeral_print 10 (Or.inl rfl) a
  have hh : (Spec.toHex a).bind Spec.fromHex = ok a := by
    simp only [Spec.toHex, bind_ok, Spec.fromHex]
    exact Spec.parseNumeral_print 16 (Or.inr rfl) a
  obtain ⟨e1, e2, e3⟩ := to_text_refines_spec a
  refine ⟨hd, hh, ?_, ?_, ?_, ?_⟩
  · rw [e1]; simp only [Spec.toDec, bind_ok] at hd ⊢
    rw [(from_dec_refines_spec _).1]; exact hd
  · rw [e3]; simp only [Spec.toHex, bind_ok] at hh ⊢
    rw [(from_hex_refines_spec _).1]; exact hh
  · rw [e2]; simp only [Spec.toDec, bind_ok] at hd ⊢
    rw [(from_dec_refines_spec _).2]; exact hd
  · obtain ⟨t, ht, hp⟩ := Ossl.toHex_reads_back a
    rw [ht]; simp only [bind_ok]
    rw [(from_hex_refines_spec _).2]; exact hp

/-- the texts on which the unrepaired parsers were lenient are rejected -/
example : Ossl.fromDec "5x".toList = err ∧ Ossl.fromDec "0x10".toList = err ∧
    Rust.fromDec "+5".toList = err ∧ Rust.fromDec "1_000".toList = err ∧
    Ossl.fromDec "1_000".toList = err ∧ Ossl.fromDec ['5', Char.ofNat 0] = err ∧
    Ossl.fromHex "fg".toList = err ∧ Rust.fromHex "+ff".toList = err ∧
    Rust.fromHex "f_f".toList = err := by decide
example : Spec.fromDec "-007".toList = ok (-7) ∧ Rust.fromDec "-007".toList = ok (-7) ∧
    Ossl.fromDec "-007".toList = ok (-7) ∧ Rust.fromHex "-fF".toList = ok (-255) := by decide
example : Spec.toDec (-255) = ok "-255".toList ∧ Ossl.toHex 4095 = ok "0FFF".toList ∧
    Rust.toHex 4095 = ok "FFF".toList := by decide

/-! ## `generate_prime_in_range`: bounds of the candidate -/

/-- **for all random bytes** and every `size_bits`, `range_bits` that pass the two assertions
(in particular also for `range_bits % 8 = 0`): the candidate handed to `is_prime` is
`2^size + x` with `x < 2^range` odd — i.e. it lies in `[2^size, 2^size + 2^range)` and is odd;
no step of the construction can overflow, so the result does not depend on the profile. -/
theorem prime_in_range_bounds (size range : ℕ) (rnd : Bytes)
    (h1 : 1 < range) (h2 : range ≤ size)
    (hlen : rnd.length = range / 8 + 1) (hb : ∀ b ∈ rnd, b < 256) :
    ∃ c : ℤ, primeCandidate size range rnd = ok c ∧
      (2 : ℤ) ^ size ≤ c ∧ c < 2 ^ size + 2 ^ range ∧ c % 2 = 1 := by
  obtain ⟨x, hx, hlt, hodd⟩ := primeCandidate_bounds size range rnd h1 h2 hlen hb
  refine ⟨_, hx, ?_, ?_, ?_⟩
  · push_cast; have : (0 : ℤ) ≤ (x : ℤ) := by positivity
    linarith
  · push_cast; have : (x : ℤ) < 2 ^ range := by exact_mod_cast hlt
    linarith
  · have hs : 1 ≤ size := by omega
    obtain ⟨k, hk⟩ : ∃ k, size = k + 1 := ⟨size - 1, by omega⟩
    push_cast
    rw [hk, pow_succ]
    have : ((x : ℤ)) % 2 = 1 := by exact_mod_cast hodd
    omega

/-- the instance used by the issuer: `e = generate_prime_in_range(LARGE_E_START,
LARGE_E_END_RANGE)` with the constants regenerated from `constants.rs` (596, 119) -/
theorem prime_in_range_bounds_e (rnd : Bytes)
    (hlen : rnd.length = Gen.LARGE_E_END_RANGE / 8 + 1) (hb : ∀ b ∈ rnd, b < 256) :
    ∃ c : ℤ, primeCandidate Gen.LARGE_E_START Gen.LARGE_E_END_RANGE rnd = ok c ∧
      (2 : ℤ) ^ Gen.LARGE_E_START ≤ c ∧
      c < 2 ^ Gen.LARGE_E_START + 2 ^ Gen.LARGE_E_END_RANGE ∧ c % 2 = 1 :=
  prime_in_range_bounds _ _ rnd (by decide) (by decide) hlen hb

/-- `range_bits % 8 = 0`, all random bits set: the largest candidate of the range -/
example : primeCandidate 16 8 [255, 255] = ok 65791 ∧ (65791 : ℤ) < 2 ^ 16 + 2 ^ 8 := by decide
example : primeCandidate 10 10 [3, 255] = ok 2047 := by decide

/-! ## corpus facts -/

/-- the Carmichael numbers and strong pseudoprimes of the harness corpus, each with a proper
factor (the large primes of the corpus are taken from the literature and only tested) -/
def corpusComposites : List (ℕ × ℕ) := [
  (561, 3),
  (1105, 5),
  (1729, 7),
  (2465, 5),
  (2821, 7),
  (6601, 7),
  (8911, 7),
  (41041, 7),
  (825265, 5),
  (321197185, 5),
  (5394826801, 7),
  (232250619601, 7),
  (9746347772161, 7),
  (35700127755121, 18121),
  (37686301288201, 18451),
  (57060521336809, 21187),
  (386007699134627392741960852648423145645909879484785758609720275807602184721, 4006959063388780594065721),
  (188920918756007600944123125562313043451461075597777194735767964389956961, 315773925627239341652311),
  (2047, 23),
  (1373653, 829),
  (25326001, 2251),
  (3215031751, 151),
  (2152302898747, 6763),
  (3474749660383, 1303),
  (341550071728321, 10670053),
  (3825123056546413051, 149491),
  (318665857834031151167461, 399165290221),
  (3317044064679887385961981, 1287836182261)]

/-- **every pseudoprime of the corpus is composite**: the listed factor is proper and divides it
(so `is_prime` must answer `false` on them; the pure-Rust back-end answers `true` on those
without a factor below 17863 — finding `C17/rust_is_prime_accepts_carmichael`) -/
theorem corpus_composites_are_composite :
    ∀ x ∈ corpusComposites, 1 < x.2 ∧ x.2 < x.1 ∧ x.1 % x.2 = 0 := by
  decide

/-- the small primes of the corpus -/
theorem corpus_small_primes :
    ∀ p ∈ [2, 3, 5, 7, 11, 13, 17, 19, 23, 29, 31, 37, 41, 47, 59, 83, 97, 107, 167, 179, 227, 263,
      1019, 2879], ∀ d ∈ List.range' 2 52, d * d ≤ p → p % d ≠ 0 := by
  decide

end CL.C17
