import CLModel.Model.Blinding
import CLModel.Proofs.Primary
import Mathlib.Data.Finset.Card
import Mathlib.Data.Finset.Image
import Mathlib.Order.Interval.Finset.Nat
/-!
# C12 — Blinding values are fresh and of the prescribed size

Sizes, margins and structure are theorems; freshness and uniformity of the entropy source are
statistical observations of the correspondence stream (labelled tests).
-/
namespace CL.C12
open CL CL.Pri CL.Blind

/-- **the size constants are the prescribed AnonCreds table** (regenerated from constants.rs) -/
theorem constants_match_spec :
    Gen.LARGE_LINK_SECRET = 256 ∧ Gen.LARGE_E_START = 596 ∧ Gen.LARGE_E_END_RANGE = 119 ∧
    Gen.LARGE_PRIME = 1024 ∧ Gen.LARGE_VPRIME = 2128 ∧ Gen.LARGE_VPRIME_PRIME = 2724 ∧
    Gen.LARGE_MVECT = 592 ∧ Gen.LARGE_ETILDE = 456 ∧ Gen.LARGE_VTILDE = 3060 ∧
    Gen.LARGE_UTILDE = 592 ∧ Gen.LARGE_MTILDE = 593 ∧ Gen.LARGE_M2TILDE = 2432 ∧
    Gen.LARGE_VPRIME_TILDE = 673 ∧ Gen.LARGE_RTILDE = 672 ∧ Gen.LARGE_NONCE = 80 ∧
    Gen.LARGE_ALPHATILDE = 2787 ∧ Gen.ITERATION = 4 :=
  ⟨rfl, rfl, rfl, rfl, rfl, rfl, rfl, rfl, rfl, rfl, rfl, rfl, rfl, rfl, rfl, rfl, rfl⟩

/-- **every `bn_rand` call site uses the prescribed constant** and sits inside the function
that runs per message (regenerated from prover.rs / issuer.rs / helpers.rs): a shrunk, swapped
or hoisted randomiser changes this table. -/
theorem draw_sites_match_spec : Gen.drawSites = [
    ("src/helpers.rs", "generate_v_prime_prime", "a", "LARGE_VPRIME_PRIME"),
    ("src/helpers.rs", "get_mtilde", "mtilde", "LARGE_MVECT"),
    ("src/helpers.rs", "new_nonce", "?", "LARGE_NONCE"),
    ("src/issuer.rs", "_new_primary_credential", "e", "LARGE_E_START,LARGE_E_END_RANGE"),
    ("src/prover.rs", "_generate_blinded_primary_credential_secrets_factors", "v_prime", "LARGE_VPRIME"),
    ("src/prover.rs", "_init_eq_proof", "e_tilde", "LARGE_ETILDE"),
    ("src/prover.rs", "_init_eq_proof", "r", "LARGE_VPRIME"),
    ("src/prover.rs", "_init_eq_proof", "v_tilde", "LARGE_VTILDE"),
    ("src/prover.rs", "_init_ne_proof", "alpha_tilde", "LARGE_ALPHATILDE"),
    ("src/prover.rs", "_init_ne_proof", "cur_r", "LARGE_VPRIME"),
    ("src/prover.rs", "_init_ne_proof", "r_delta", "LARGE_VPRIME"),
    ("src/prover.rs", "_init_ne_proof", "r_tilde", "LARGE_RTILDE"),
    ("src/prover.rs", "_init_ne_proof", "u_tilde", "LARGE_UTILDE"),
    ("src/prover.rs", "_new_blinded_credential_secrets_correctness_proof", "m_tilde", "LARGE_MTILDE"),
    ("src/prover.rs", "_new_blinded_credential_secrets_correctness_proof", "r_tilde", "LARGE_MTILDE"),
    ("src/prover.rs", "_new_blinded_credential_secrets_correctness_proof", "v_dash_tilde", "LARGE_VPRIME_TILDE"),
    ("src/prover.rs", "add_common_attribute", "common_attributes", "LARGE_MVECT"),
    ("src/prover.rs", "add_sub_proof_request", "m2_tilde", "LARGE_M2TILDE"),
    ("src/prover.rs", "new_link_secret", "ms", "LARGE_LINK_SECRET")] := rfl

/-- **shifting a uniform blinder**: the points of `[0, N)` that are not hit by the shifted range
`[s, s+N)` are exactly `[0, min s N)`: the statistical distance between a uniform blinder `x̃`
on `[0, N)` and the response `x̃ + s` is `min(s, N) / N`. -/
theorem shift_uniform_distance (N s : ℕ) :
    ((Finset.range N) \ ((Finset.range N).image (· + s))).card = min s N := by
  have : (Finset.range N) \ ((Finset.range N).image (· + s)) = Finset.range (min s N) := by
    ext x
    simp only [Finset.mem_sdiff, Finset.mem_range, Finset.mem_image, not_exists, not_and]
    constructor
    · rintro ⟨hx, hn⟩
      by_contra hc
      have hsx : s ≤ x := by omega
      exact hn (x - s) (by omega) (by omega)
    · intro hx
      refine ⟨by omega, ?_⟩
      intro y _ hy
      omega
  rw [this, Finset.card_range]

/-- **zero-knowledge margins** with the regenerated constants: the shift `c·secret` is at least
80 bits shorter than the blinder for `e'` (`256 + 119` vs `456`), `m` (`256 + 256` vs `592`) and
`v` (`256 + 2724` … vs `3060`): the distance of `shift_uniform_distance` is ≤ 2^-80. -/
theorem zk_margins :
    256 + Gen.LARGE_E_END_RANGE + 80 ≤ Gen.LARGE_ETILDE ∧
    256 + 256 + 80 ≤ Gen.LARGE_MVECT ∧
    256 + Gen.LARGE_VPRIME_PRIME + 80 ≤ Gen.LARGE_VTILDE ∧
    256 + Gen.LARGE_VPRIME + 80 ≤ Gen.LARGE_ALPHATILDE := by decide

/-- **responses are injective in the blinder**: `x̂ = x̃ + c·x`, so the blinder is recoverable
from a response given the secret (which is how the harness checks its exact range) -/
theorem responses_injective_in_blinder (c x t t' : ℤ) (h : c * x + t = c * x + t') : t = t' := by
  omega

/-- **the prover refuses to disclose what it holds as hidden**: if the prover-side request
check passes, every revealed attribute and every predicate attribute belongs to the credential
schema — non-schema attributes such as the link secret can be neither revealed nor used in a
predicate. -/
theorem prover_refuses_hidden_reveal (schema nonSchema valKeys : List String)
    (req : SubProofRequest) (h : checkRequestProver schema nonSchema valKeys req = .ok ()) :
    (∀ a ∈ req.revealed, a ∈ schema) ∧ (∀ p ∈ req.predicates, p.attr ∈ schema) ∧
    (∀ p ∈ req.predicates, p.attr ∉ req.revealed) := by
  unfold checkRequestProver at h
  simp only at h
  split at h
  · simp at h
  · split at h
    · simp at h
    · next h1 =>
      split at h
      · simp at h
      · next h2 =>
        split at h
        · simp at h
        · next h3 =>
          simp only [List.any_eq_true, Bool.not_eq_true', not_exists, not_and] at h1 h2 h3
          refine ⟨?_, ?_, ?_⟩
          · intro a ha
            have := h1 a ha
            simpa using this
          · intro p hp
            have := h2 p hp
            simpa using this
          · intro p hp
            have := h3 p hp
            simpa using this

/-- a non-schema attribute in `revealed` is an error -/
theorem reveal_non_schema_rejected (schema nonSchema valKeys : List String) (req : SubProofRequest)
    (a : String) (ha : a ∈ req.revealed) (hs : a ∉ schema) :
    checkRequestProver schema nonSchema valKeys req ≠ .ok () := by
  intro h
  exact hs ((prover_refuses_hidden_reveal schema nonSchema valKeys req h).1 a ha)

/-- **no unrevealed value is copied into the equality proof**: its `revealed_attrs` are exactly
the requested ones, and every entry of `m` is a response `c·m_k + m̃_k` (structure theorem on
the model's `finalizeEqProof`; the hidden values enter only under `+ blinder`). -/
theorem eq_proof_structure {G : Type} (init : EqInit G) (c : ℤ) (un rev : List String)
    (vals : Values) (mt val : String → ℤ) (hm : Maps init.mTilde un mt)
    (hv : Maps vals (un ++ rev) val) (prf : EqProof G)
    (h : finalizeEqProof init c un rev vals = .ok prf) :
    prf.revealed = rev.map (fun k => (k, val k)) ∧
    prf.m = un.map (fun k => (k, c * val k + mt k)) ∧
    prf.e = c * init.ePrime + init.eTilde ∧ prf.v = c * init.vPrime + init.vTilde ∧
    prf.m2 = c * init.m2 + init.m2Tilde := by
  have hun : ∀ k ∈ un, k ∈ un ++ rev := fun k hk => by simp [hk]
  have hrev : ∀ k ∈ rev, k ∈ un ++ rev := fun k hk => by simp [hk]
  simp only [finalizeEqProof, mHats_value c _ vals mt val un un (fun _ h => h) hm (hv.mono hun),
    Outcome.bind_ok, revealedWithValues_value vals val rev (un ++ rev) hrev hv, Outcome.map_ok,
    Outcome.ok.injEq] at h
  subst h
  exact ⟨rfl, rfl, rfl, rfl, rfl⟩

/-- the expected draw multisets in numbers (with the prescribed constants) -/
example : drawsSubProof 2 1 = [2432, 2128, 456, 3060, 592, 592, 2128, 2128, 2128, 2128, 2128,
    592, 592, 592, 592, 672, 672, 672, 672, 672, 2787] := by decide
example : drawsBlind 1 0 = [2128, 673, 593] := by decide

/-- **the pairing-side randomisers are each a fresh draw**: in `_gen_c_list_params` the seven blinders
and in `_gen_tau_list_params` the thirteen masks are each assigned their own `GroupOrderElement::new()`
(regenerated from `prover.rs`; a variable copied from another one drops out of the list) -/
theorem nr_randomisers_fresh :
    Gen.nrCListFresh = ["rho", "r", "r_prime", "r_prime_prime", "r_prime_prime_prime", "o", "o_prime"] ∧
    Gen.nrTauFresh = ["rho", "r", "r_prime", "r_prime_prime", "r_prime_prime_prime", "o", "o_prime",
      "m", "m_prime", "t", "t_prime", "s", "c"] := ⟨rfl, rfl⟩

end CL.C12
