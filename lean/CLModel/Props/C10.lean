import CLModel.Model.NonRevoc
import CLModel.Proofs.Registry
import CLModel.Proofs.Guards
import CLModel.Props.C09
import CLModel.Proofs.WitnessSig
import Mathlib.Tactic.LinearCombination
import Mathlib.Tactic.Ring
import Mathlib.Tactic.FieldSimp
import Mathlib.Algebra.Field.Basic
/-!
# C10 — Non-revocation is enforced whenever the verifier supplies a registry

Pairing side in exponent form (`e(a,b) = a·b` in a commutative ring `F`; for BN254
`F = ℤ/r`).  Proved for every ring, key, registry state, credential, blinders and challenge:
completeness (holders of valid indices with current witnesses are accepted at every state),
and the converse direction in the form "an invalid accumulator relation changes `T̂₄`" — i.e.
acceptance of a stale / revoked / transplanted witness forces a hash collision.
The decision logic (the four-way presence test and the rejection of an omitted part) is about
`Pri.verifyLoop`.
-/
namespace CL.C10
open CL CL.NR CL.Reg

variable {F : Type} [CommRing F]

/-- the three issuance equations and the `u_i` relation of a non-revocation credential
against a registry state `(acc, z)`:
`e(g_i,acc)/e(g,ω) = z`, `e(pk·g_i, σ_i) = e(g,g')`,
`e(σ, y·ĥ^c) = e(h0·h1^{m2}·h2^{v}·g_i, ĥ)`, `e(g_i,u) = e(g,u_i)`. -/
structure CredValid (k : RevKey F) (acc z : F) (cr : Cred F) : Prop where
  accum : cr.gI * acc - k.g * cr.omega = z
  sigI : (k.pk + cr.gI) * cr.sigmaI = k.g * k.gDash
  sig : cr.sigma * (k.y + cr.c * k.hCap) = (k.h0 + cr.m2 * k.h1 + cr.vr2 * k.h2 + cr.gI) * k.hCap
  ui : cr.gI * k.u = k.g * cr.uI

/-- responses `x̂ = x̃ + c_H·x` (what `_finalize_non_revocation_proof` computes, field by field) -/
def responses (tau cp : XList F) (cH : F) : XList F :=
  { rho := tau.rho + cH * cp.rho, r := tau.r + cH * cp.r, rPrime := tau.rPrime + cH * cp.rPrime,
    rPrime2 := tau.rPrime2 + cH * cp.rPrime2, rPrime3 := tau.rPrime3 + cH * cp.rPrime3,
    o := tau.o + cH * cp.o, oPrime := tau.oPrime + cH * cp.oPrime, m := tau.m + cH * cp.m,
    mPrime := tau.mPrime + cH * cp.mPrime, t := tau.t + cH * cp.t,
    tPrime := tau.tPrime + cH * cp.tPrime, m2 := none, s := tau.s + cH * cp.s,
    c := tau.c + cH * cp.c }

/-- **the x-list tables are consistent**: with the regenerated `as_list` order and `from_list`
indices, `finalize` is exactly the field-by-field response map. -/
theorem finalize_eq_responses (tau cp : XList F) (cl : CList F) (cH : F) :
    finalize ringOps tau cp cl cH = some ⟨responses tau cp cH, cl⟩ := by
  simp [finalize, XList.asList, XList.fromList, XList.field, Gen.xListOrder, Gen.xListFromIndex,
    responses, List.lookup]

/-- **non-revocation part is complete**: for a credential/witness pair satisfying the issuance
equations against the registry state both sides use, every one of the eight values the
verifier recomputes equals the prover's, for all blinders, all challenges, `m̂₂ = m̃₂ + c_H·m₂`.
Composed with `C09.valid_passes_check` (a current witness of a valid index satisfies `accum`
at every state of every well-formed history) this is "holders of valid indices with current
witnesses are always accepted". -/
theorem nonrevoc_complete (k : RevKey F) (acc z : F) (cr : Cred F) (hv : CredValid k acc z cr)
    (hpk : ∃ sk, k.pk = sk * k.g) (tp : CTape F) (tau : XList F) (cH m2tilde : F) :
    let cp := cListParams ringOps cr tp
    let cl := cListValues ringOps k cr cp
    verify ringOps k acc z cH (m2tilde + cH * cr.m2) ⟨responses tau cp cH, cl⟩ false
      = tauValues ringOps k acc tau cl m2tilde := by
  obtain ⟨h1, h2, h3, h4⟩ := hv
  obtain ⟨sk, hsk⟩ := hpk
  intro cp cl
  simp only [verify, Bool.false_and, Bool.false_eq_true, if_false, tauValues, tauExpected, neg,
    responses, cp, cl, cListParams, cListValues, ringOps_add, ringOps_sub, ringOps_mul,
    ringOps_zero, TauList.mk.injEq]
  refine ⟨by ring, by ring, ?_, ?_, by ring, by ring, ?_, ?_⟩
  · linear_combination cH * h3
  · linear_combination (-cH) * h1
  · linear_combination (-cH) * h2
  · linear_combination (-cH) * h4

/-- **an invalid accumulator relation is visible in `T̂₄`**: if the witness does not satisfy the
accumulator equation against the verifier's registry state (revoked index, stale or skipped
update, other state, another credential's witness: `C09.witness_check_iff`), then for the
honest algorithm `T̂₄ − T₄ = −c_H·(g_i·acc − g·ω − z)`; when that product is non-zero
(`c_H mod r ≠ 0` in a field) the recomputed value differs from the committed one, so
acceptance requires a collision of the hash. Same shape for `σ` (`T̂₃`) and `σ_i` (`T̂₇`). -/
theorem invalid_witness_changes_t4 (k : RevKey F) (acc z : F) (cr : Cred F) (tp : CTape F)
    (tau : XList F) (cH m2tilde : F) :
    let cp := cListParams ringOps cr tp
    let cl := cListValues ringOps k cr cp
    (verify ringOps k acc z cH (m2tilde + cH * cr.m2) ⟨responses tau cp cH, cl⟩ false).t4
      - (tauValues ringOps k acc tau cl m2tilde).t4
      = -cH * (cr.gI * acc - k.g * cr.omega - z) := by
  intro cp cl
  simp only [verify, Bool.false_and, Bool.false_eq_true, if_false, tauValues, tauExpected, neg,
    responses, cp, cl, cListParams, cListValues, ringOps_add, ringOps_sub, ringOps_mul,
    ringOps_zero]
  ring

theorem invalid_sigma_changes_t3 (k : RevKey F) (acc z : F) (cr : Cred F) (tp : CTape F)
    (tau : XList F) (cH m2tilde : F) :
    let cp := cListParams ringOps cr tp
    let cl := cListValues ringOps k cr cp
    (verify ringOps k acc z cH (m2tilde + cH * cr.m2) ⟨responses tau cp cH, cl⟩ false).t3
      - (tauValues ringOps k acc tau cl m2tilde).t3
      = cH * (cr.sigma * (k.y + cr.c * k.hCap)
              - (k.h0 + cr.m2 * k.h1 + cr.vr2 * k.h2 + cr.gI) * k.hCap) := by
  intro cp cl
  simp only [verify, Bool.false_and, Bool.false_eq_true, if_false, tauValues, tauExpected, neg,
    responses, cp, cl, cListParams, cListValues, ringOps_add, ringOps_sub, ringOps_mul,
    ringOps_zero]
  ring

/-- **the non-revocation part is linked to the primary proof**: with the default verifier
(`accept_legacy = false`) the `m₂` fed to the pairing equations is the primary proof's `m̂₂`
and the challenge is negated — whatever `m2` field the x-list carries (a legacy-format proof
is not given its own `m2`). -/
theorem nonrevoc_linked (k : RevKey F) (acc z cH m2hat : F) (p : Proof F) (other : Option F) :
    verify ringOps k acc z cH m2hat ⟨{ p.x with m2 := other }, p.c⟩ false
      = verify ringOps k acc z cH m2hat ⟨{ p.x with m2 := none }, p.c⟩ false := by
  simp [verify, tauValues]

/-- a context `m₂' = m₂ + t·e` that differs from the signed one changes `T̂₃` of the honest
algorithm by `−c_H·Δm₂·h1·ĥ`: transplanting another credential's non-revocation part onto a
primary credential with a different context is visible unless `Δm₂ ≡ 0` modulo the group order
(the re-based transplant of DESIGN §5, which needs `m₂ + t·e ≡ m₂'`). -/
theorem transplant_changes_t3 (k : RevKey F) (acc z : F) (cr : Cred F) (tp : CTape F)
    (tau : XList F) (cH m2tilde dm2 : F) :
    let cp := cListParams ringOps cr tp
    let cl := cListValues ringOps k cr cp
    (verify ringOps k acc z cH (m2tilde + cH * (cr.m2 + dm2)) ⟨responses tau cp cH, cl⟩ false).t3
      - (verify ringOps k acc z cH (m2tilde + cH * cr.m2) ⟨responses tau cp cH, cl⟩ false).t3
      = - (cH * dm2 * k.h1 * k.hCap) := by
  intro cp cl
  simp only [verify, Bool.false_and, Bool.false_eq_true, if_false, tauValues, tauExpected, neg,
    responses, cp, cl, cListParams, cListValues, ringOps_add, ringOps_sub, ringOps_mul,
    ringOps_zero]
  ring

/-! ### decision logic of `verify` -/

section logic
variable {G : Type}
open CL.Pri

/-- **omission is rejected**: when the verifier holds a registry for a sub-proof, a proof
without non-revocation part (or a key set that cannot check it) makes the loop fail at that
sub-proof, whatever the rest of the proof looks like. -/
theorem omission_rejected (m : OvfMode) (common : List String) (c : Int) (sp : SubProof G)
    (vc : VerCred G) (sps : List (SubProof G)) (vcs : List (VerCred G)) (seen : List (String × Int))
    (hreg : vc.hasRegistry = true)
    (hmiss : sp.hasNonRevoc = false ∨ vc.hasRKey = false ∨ vc.hasRegKey = false) :
    verifyLoop m common c (sp :: sps) (vc :: vcs) seen = .err := by
  have : (!(sp.hasNonRevoc && vc.hasRKey && vc.hasRegistry && vc.hasRegKey) && vc.hasRegistry) = true := by
    rcases hmiss with h | h | h <;> simp [h, hreg]
  rw [verifyLoop]
  simp only [this, if_true]

/-- **when enforced, the eight τ̂ values are hashed**: if the loop accepts a sub-proof for a
credential with a registry, the items it contributes start with that sub-proof's
non-revocation τ̂ list. -/
theorem nonrevoc_enforced (m : OvfMode) (common : List String) (c : Int) (sp : SubProof G)
    (vc : VerCred G) (sps : List (SubProof G)) (vcs : List (VerCred G)) (seen : List (String × Int))
    (items : List Item) (hreg : vc.hasRegistry = true)
    (h : verifyLoop m common c (sp :: sps) (vc :: vcs) seen = .ok items) :
    sp.hasNonRevoc = true ∧ vc.hasRKey = true ∧ vc.hasRegKey = true ∧
      ∃ nr rest, sp.nrTaus = .ok nr ∧ items = nr ++ rest := by
  by_cases hact : (sp.hasNonRevoc && vc.hasRKey && vc.hasRegistry && vc.hasRegKey) = true
  · have hact' := hact
    simp only [Bool.and_eq_true] at hact'
    obtain ⟨⟨⟨a, b⟩, _⟩, d⟩ := hact'
    refine ⟨a, b, d, ?_⟩
    have hcond : (!(sp.hasNonRevoc && vc.hasRKey && vc.hasRegistry && vc.hasRegKey) && vc.hasRegistry) = false := by
      simp [a, b, d, hreg]
    rw [verifyLoop] at h
    simp only [hcond, Bool.false_eq_true, if_false, hact, if_true] at h
    cases hn : sp.nrTaus with
    | ok nr =>
      rw [hn] at h
      simp only [Outcome.bind_ok] at h
      by_cases hall : (!(common.all fun a =>
          (unrevealedOf vc.schema vc.nonSchema vc.req.revealed).contains a)) = true
      · rw [if_pos hall] at h; simp at h
      rw [if_neg hall] at h
      cases h1 : commonPass common sp.eq seen common with
      | ok seen' =>
        rw [h1] at h; simp only [Outcome.bind_ok] at h
        cases h2 : verifyPrimaryProof vc.o m vc.pk sp.eq sp.ne c
            (unrevealedOf vc.schema vc.nonSchema vc.req.revealed) with
        | ok ts =>
          rw [h2] at h; simp only [Outcome.bind_ok] at h
          cases h3 : verifyLoop m common c sps vcs seen' with
          | ok rest =>
            rw [h3] at h
            simp only [Outcome.map_ok, Bool.not_true, Bool.false_and, Bool.false_eq_true, if_false,
              Outcome.ok.injEq] at h
            exact ⟨nr, _, rfl, by rw [← h, List.append_assoc]⟩
          | err => rw [h3] at h; simp at h
          | panic => rw [h3] at h; simp at h
        | err => rw [h2] at h; simp at h
        | panic => rw [h2] at h; simp at h
      | err => rw [h1] at h; simp at h
      | panic => rw [h1] at h; simp at h
    | err => rw [hn] at h; simp at h
    | panic => rw [hn] at h; simp at h
  · have hcond : (!(sp.hasNonRevoc && vc.hasRKey && vc.hasRegistry && vc.hasRegKey) && vc.hasRegistry) = true := by
      have hf : (sp.hasNonRevoc && vc.hasRKey && vc.hasRegistry && vc.hasRegKey) = false := by
        simpa using hact
      rw [hf, hreg]; rfl
    rw [verifyLoop] at h
    simp only [hcond, if_true] at h
    cases h

end logic

/-! non-vacuity: the honest issuer's credential satisfies `CredValid` (in a field) -/
example (K : Type) [Field K] (k : RevKey K) (x sk γ m2 vr' vr2 c : K) (i : ℕ) (V : Finset ℕ)
    (L : ℕ) (hy : k.y = x * k.hCap) (hpk : k.pk = sk * k.g)
    (hx : x + c ≠ 0) (hs : sk + γ ^ i ≠ 0) (hi : InRange L i) (hiV : i ∈ V) :
    CredValid k (k.gDash * accOf γ L V) (k.g * k.gDash * γ ^ (L + 1))
      (issueCred ringOps (fun a => a⁻¹) k x sk γ i m2 vr' vr2 c (k.gDash * witOf γ L i V)) := by
  have hw := C09.valid_passes_check γ L i hi V hiV
  constructor
  · simp only [issueCred, ringOps_mul, ringOps_pow]
    linear_combination (k.g * k.gDash) * hw
  · simp only [issueCred, ringOps_mul, ringOps_pow, ringOps_add, hpk]
    field_simp
  · simp only [issueCred, ringOps_mul, ringOps_pow, ringOps_add, hy]
    field_simp
    ring
  · simp only [issueCred, ringOps_mul, ringOps_pow]
    ring

/-! ## decision structure regenerated from `verifier.rs` -/

/-- **the omission guard is where the model has it**: in the per-sub-proof loop of `verify` the
non-revocation branch is taken iff proof part, revocation public key, registry and registry key
are all present, and is followed by `else if credential.rev_reg.is_some() { return Err }`
(moving the rejection out of the loop, or `all` for `any`, breaks it) -/
theorem omission_guard_from_source :
    Gen.omissionGuardInLoop = true ∧ Gen.nrBranchOnFourSomes = true := ⟨rfl, rfl⟩

/-- **the legacy field is read only when legacy proofs are accepted** (`nonrevoc_linked`'s
premise about the code): `m2` is the primary proof's response and `c = −c_H` unless
`accept_legacy` AND `x_list.m2` is present -/
theorem legacy_m2_from_source : Gen.legacyM2OnlyWhenAccepted = true := rfl

section accepted_credential
variable {K : Type} [Field K] [DecidableEq K]

/-- **what the holder accepted, the verifier accepts**: the four equations of the holder's check
of a revocation signature (`_test_witness_signature`, with `witness_signature.g_i = g_i`) are
exactly `CredValid` … -/
theorem holder_check_iff_cred_valid (k : RevKey K) (acc z : K) (cr : Cred K) :
    testWitnessSignature ringOps k acc z cr.gI cr = true ↔ CredValid k acc z cr := by
  rw [test_iff]
  constructor
  · rintro ⟨h1, h2, h3, h4⟩
    exact ⟨h1, by linear_combination h2, by linear_combination h4, by linear_combination h3⟩
  · rintro ⟨h1, h2, h3, h4⟩
    exact ⟨h1, by linear_combination h2, by linear_combination h4, by linear_combination h3⟩

/-- … so for a credential that passed the holder's check against the registry state both sides
use, every non-revocation proof the honest algorithm builds — any blinders, any challenge — is
recomputed by the verifier value for value (composition with `nonrevoc_complete`). Before the
repair 5a007e0 the holder's check did not cover `u_i` and this implication was false. -/
theorem holder_accepted_credential_verifies (k : RevKey K) (acc z : K) (cr : Cred K)
    (h : testWitnessSignature ringOps k acc z cr.gI cr = true) (hpk : ∃ sk, k.pk = sk * k.g)
    (tp : CTape K) (tau : XList K) (cH m2tilde : K) :
    let cp := cListParams ringOps cr tp
    let cl := cListValues ringOps k cr cp
    verify ringOps k acc z cH (m2tilde + cH * cr.m2) ⟨responses tau cp cH, cl⟩ false
      = tauValues ringOps k acc tau cl m2tilde :=
  nonrevoc_complete k acc z cr ((holder_check_iff_cred_valid k acc z cr).1 h) hpk tp tau cH m2tilde

end accepted_credential

end CL.C10
