import CLModel.Proofs.Primary
import CLModel.Proofs.NeComplete
import CLModel.Proofs.Complete
import CLModel.Proofs.ZnRefine
import CLModel.Proofs.OpsRelPresentation
import CLModel.Proofs.FourSq
import Driver.ProveOps
import CLModel.Props.C03
import Mathlib.Tactic.Linarith
import Mathlib.Tactic.NormNum
/-!
# C01 — Honest presentations verify (algebraic core)

For every additive commutative group `G` (the RSA group written additively), every key,
credential, request split (`un`revealed / `rev`ealed attribute lists of any length), every
tape of blinders and every challenge `c`: the verifier's recomputed `T̂` equals the prover's
`T`.  Together with the hash being a function this gives acceptance; the byte-level
transcript layout is tied to the code by the correspondence stream.
-/
namespace CL.C01
open CL CL.Pri

variable {G : Type} [AddCommGroup G] [DecidableEq G] (enc : G → ByteArray)

/-- the CL signature equation `Z = A^e · S^v · Rctxt^{m2} · Π R_k^{m_k}` (additively) -/
def SigValid (pk : PubKey G) (sig : Signature G) (rf : String → G) (val : String → ℤ)
    (attrs : List String) : Prop :=
  pk.z = sig.e • sig.a + sig.v • pk.s + sig.m2 • pk.rctxt + (attrs.map fun k => val k • rf k).sum

/-- **size contract ⇒ the response for `e` passes the verifier's range check** -/
theorem honest_e_in_range (c e eTilde : ℤ) (hc : 0 ≤ c ∧ c < 2 ^ 256)
    (he : 2 ^ 596 ≤ e ∧ e < 2 ^ 596 + 2 ^ 119) (ht : 0 ≤ eTilde ∧ eTilde < 2 ^ 456) :
    0 ≤ c * (e - 2 ^ 596) + eTilde ∧ c * (e - 2 ^ 596) + eTilde < 2 ^ 457 := by
  obtain ⟨hc0, hc1⟩ := hc
  obtain ⟨he0, he1⟩ := he
  obtain ⟨ht0, ht1⟩ := ht
  have h1 : 0 ≤ e - 2 ^ 596 := by omega
  have h2 : e - 2 ^ 596 < 2 ^ 119 := by omega
  have h3 : 0 ≤ c * (e - 2 ^ 596) := mul_nonneg hc0 h1
  have h4 : c * (e - 2 ^ 596) < 2 ^ 256 * 2 ^ 119 := by
    calc c * (e - 2 ^ 596) ≤ c * 2 ^ 119 := by
          apply mul_le_mul_of_nonneg_left (le_of_lt h2) hc0
      _ < 2 ^ 256 * 2 ^ 119 := by
          apply mul_lt_mul_of_pos_right hc1 (by positivity)
  have e1 : (2 : ℤ) ^ 256 * 2 ^ 119 = 2 ^ 375 := by rw [← pow_add]
  have e2 : (2 : ℤ) ^ 375 < 2 ^ 456 := pow_lt_pow_right₀ (by norm_num) (by norm_num)
  have e3 : (2 : ℤ) ^ 457 = 2 * 2 ^ 456 := by rw [pow_succ]; ring
  have key : ∀ (X T A B C : ℤ), X < A → T < B → A < B → C = 2 * B → X + T < C := by
    intro X T A B C a b c d; linarith
  constructor
  · exact add_nonneg h3 ht0
  · exact key _ _ _ _ _ h4 ht1 (lt_of_eq_of_lt e1 e2) e3

/-- **equality sub-protocol is complete**: `verifyEquality` on the honest prover's output
returns the prover's own `T`, for any number of attributes, any revealed subset, any
blinders (common-attribute seeds included) and any challenge whose `ê` is in range. -/
theorem eq_complete (pk : PubKey G) (sig : Signature G) (un rev : List String)
    (rf : String → G) (val : String → ℤ) (vals : Values) (common : List (String × ℤ))
    (m2Tilde c : ℤ) (tp : EqTape)
    (hr : Maps pk.r (un ++ rev) rf) (hv : Maps vals (un ++ rev) val)
    (hsig : SigValid pk sig rf val (un ++ rev))
    (hrange : 0 ≤ c * (sig.e - 2 ^ Gen.largeEStartValueExp) + tp.eTilde ∧
              c * (sig.e - 2 ^ Gen.largeEStartValueExp) + tp.eTilde < 2 ^ (Gen.LARGE_ETILDE + 1)) :
    ∃ init prf, initEqProof (addOps enc) common pk sig un m2Tilde tp = .ok init ∧
      finalizeEqProof init c un rev vals = .ok prf ∧
      verifyEquality (addOps enc) pk prf c un = .ok init.t ∧
      prf.revealed = rev.map (fun k => (k, val k)) := by
  have hun : ∀ k ∈ un, k ∈ un ++ rev := fun k hk => by simp [hk]
  have hrev : ∀ k ∈ rev, k ∈ un ++ rev := fun k hk => by simp [hk]
  have hmt := getMtilde_maps tp.mTilde un common
  have hrun : Maps pk.r un rf := hr.mono hun
  -- the prover's first message
  have hinit : initEqProof (addOps enc) common pk sig un m2Tilde tp = .ok
      ⟨tp.r • pk.s + sig.a,
       m2Tilde • pk.rctxt + (tp.vTilde • pk.s + (tp.eTilde • (tp.r • pk.s + sig.a)
          + (un.map fun k => mtOf tp.mTilde common k • rf k).sum)),
       tp.eTilde, sig.e - 2 ^ Gen.largeEStartValueExp, tp.vTilde, sig.v - sig.e * tp.r,
       getMtilde tp.mTilde un common, m2Tilde, sig.m2⟩ := by
    simp only [initEqProof, addOps_pow, Outcome.bind_ok, addOps_mul,
      calcTeq_value enc pk _ _ _ _ _ un rf _ hrun hmt, Outcome.map_ok]
  refine ⟨_, ⟨rev.map (fun k => (k, val k)), tp.r • pk.s + sig.a,
      c * (sig.e - 2 ^ Gen.largeEStartValueExp) + tp.eTilde,
      c * (sig.v - sig.e * tp.r) + tp.vTilde,
      un.map (fun k => (k, c * val k + mtOf tp.mTilde common k)),
      c * sig.m2 + m2Tilde⟩, hinit, ?_, ?_, rfl⟩
  · -- the responses
    simp only [finalizeEqProof, mHats_value c _ vals _ val un un (fun _ h => h) hmt (hv.mono hun),
      Outcome.bind_ok, revealedWithValues_value vals val rev (un ++ rev) hrev hv, Outcome.map_ok]
  · -- the verifier's recomputation
    have hnot : ¬ (c * (sig.e - 2 ^ Gen.largeEStartValueExp) + tp.eTilde < 0 ∨
        c * (sig.e - 2 ^ Gen.largeEStartValueExp) + tp.eTilde ≥ 2 ^ (Gen.LARGE_ETILDE + 1)) := by
      omega
    have hmhat := maps_map_self (fun k => c * val k + mtOf tp.mTilde common k) un
    have hrevm := maps_map_self val rev
    simp only [verifyEquality, verifyEqualityCore, hnot, if_false,
      calcTeq_value enc pk _ _ _ _ _ un rf _ hrun hmhat, Outcome.bind_ok, addOps_pow,
      keys_map_self, mulPows_sum enc pk.r _ rf val rev _ (hr.mono hrev) hrevm, addOps_inv,
      addOps_mul]
    congr 1
    rw [hsig]
    simp only [List.map_append, List.sum_append]
    rw [sum_split]
    module

/-- **revealed values reported by the proof are the credential's values** -/
theorem revealed_values_equal (pk : PubKey G) (sig : Signature G) (un rev : List String)
    (rf : String → G) (val : String → ℤ) (vals : Values) (common : List (String × ℤ))
    (m2Tilde c : ℤ) (tp : EqTape)
    (hr : Maps pk.r (un ++ rev) rf) (hv : Maps vals (un ++ rev) val)
    (init : EqInit G) (prf : EqProof G)
    (_h1 : initEqProof (addOps enc) common pk sig un m2Tilde tp = .ok init)
    (h2 : finalizeEqProof init c un rev vals = .ok prf) :
    ∀ k ∈ rev, lookup k prf.revealed = lookup k vals := by
  have hrev : ∀ k ∈ rev, k ∈ un ++ rev := fun k hk => by simp [hk]
  have _ := hr
  intro k hk
  unfold finalizeEqProof at h2
  cases hm : mHats c init.mTilde vals un with
  | ok mh =>
    rw [hm] at h2
    simp only [Outcome.bind_ok, revealedWithValues_value vals val rev (un ++ rev) hrev hv,
      Outcome.map_ok, Outcome.ok.injEq] at h2
    subst h2
    simp only
    rw [lookup_map_self val rev k hk, hv k (hrev k hk)]
  | err => rw [hm] at h2; simp at h2
  | panic => rw [hm] at h2; simp at h2

/-- **the predicate sub-protocol is complete**: for a true predicate over i32 values the honest
prover's `_init_ne_proof` / `_finalize_ne_proof` succeed and `_verify_ne_predicate` recomputes
exactly the prover's six τ values (four `T_i` blinders, `T_Δ`, `Q`) — every key, every value and
threshold in the i32 range, all four predicate types (the delta arms regenerated from the Rust
source), both overflow modes, every challenge, all blinders.  `four_squares` enters as any
function returning four roots whose squares sum to delta. -/
theorem ne_complete (m : OvfMode) (fourSq : ℤ → Outcome (List ℤ)) (pk : PubKey G) (p : Pred)
    (mTilde : List (String × ℤ)) (vals : Values) (tp : NeTape) (eq : EqProof G) (c av mt : ℤ)
    (uf rf utf rtf : String → ℤ)
    (hval : lookup p.attr vals = some av) (hav : C03.I32 av) (hpv : C03.I32 p.value)
    (hholds : p.holds av = true)
    (hfs : ∀ d, getDelta m p av = .ok d →
      fourSq d = .ok (iterKeys.map uf) ∧ (iterKeys.map fun k => uf k ^ 2).sum = d)
    (hmt : lookup p.attr mTilde = some mt)
    (heqm : lookup p.attr eq.m = some (c * av + mt))
    (hr : Maps tp.r (iterKeys ++ ["DELTA"]) rf) (hut : Maps tp.uTilde iterKeys utf)
    (hrt : Maps tp.rTilde (iterKeys ++ ["DELTA"]) rtf)
    (hnn : 0 ≤ rtf "DELTA" ∧ 0 ≤ c * rf "DELTA" + rtf "DELTA") :
    ∃ init prf, initNeProof (addOps enc) m fourSq pk mTilde vals p tp = .ok init ∧
      finalizeNeProof c init eq = .ok prf ∧
      verifyNePredicate (addOps enc) m pk prf c = .ok init.tauList ∧
      prf.mj = c * av + mt ∧ prf.pred = p :=
  Pri.ne_complete enc m fourSq pk p mTilde vals tp eq c av mt uf rf utf rtf hval hav hpv hholds hfs
    hmt heqm hr hut hrt hnn

theorem iterKeys_eq : iterKeys = ["0", "1", "2", "3"] := by decide

/-- … and the model of the library's own `four_squares` (`FourSq.fourSquares`, proved total and
exact for every delta ≥ 0 — Lagrange — in `Proofs/FourSq.lean`, C19) is such a function: predicate
proofs of the model prover the driver runs are accepted for EVERY true predicate. -/
theorem ne_complete_four_squares (m : OvfMode) (pk : PubKey G) (p : Pred)
    (mTilde : List (String × ℤ)) (vals : Values) (tp : NeTape) (eq : EqProof G) (c av mt : ℤ)
    (rf utf rtf : String → ℤ)
    (hval : lookup p.attr vals = some av) (hav : C03.I32 av) (hpv : C03.I32 p.value)
    (hholds : p.holds av = true)
    (hmt : lookup p.attr mTilde = some mt)
    (heqm : lookup p.attr eq.m = some (c * av + mt))
    (hr : Maps tp.r (iterKeys ++ ["DELTA"]) rf) (hut : Maps tp.uTilde iterKeys utf)
    (hrt : Maps tp.rTilde (iterKeys ++ ["DELTA"]) rtf)
    (hnn : 0 ≤ rtf "DELTA" ∧ 0 ≤ c * rf "DELTA" + rtf "DELTA") :
    ∃ init prf, initNeProof (addOps enc) m Drv.fourSq pk mTilde vals p tp = .ok init ∧
      finalizeNeProof c init eq = .ok prf ∧
      verifyNePredicate (addOps enc) m pk prf c = .ok init.tauList := by
  obtain ⟨δ, hδ, hnonneg, _⟩ := C03.delta_nonneg_iff m p av hav hpv
  have h0 : 0 ≤ δ := hnonneg.mpr hholds
  have hfour := FourSq.fourSquaresU_eq (um := .ideal) δ h0 trivial
  have hsum := FourSq.pI_sum δ.toNat
  generalize FourSq.pI δ.toNat (Nat.sqrt δ.toNat) (Nat.sqrt δ.toNat) 0 0 0 = st at hfour hsum
  obtain ⟨brk, a, b, c', e⟩ := st
  simp only at hfour hsum
  let uf : String → ℤ := fun k =>
    if k = "0" then (a : ℤ) else if k = "1" then (b : ℤ) else if k = "2" then (c' : ℤ) else (e : ℤ)
  have hfs : ∀ d, getDelta m p av = .ok d →
      Drv.fourSq d = .ok (iterKeys.map uf) ∧ (iterKeys.map fun k => uf k ^ 2).sum = d := by
    intro d hd
    rw [hδ] at hd; cases hd
    constructor
    · show (match FourSq.fourSquares δ with
          | .ok (a, b, c, e) => Outcome.ok [(a : ℤ), (b : ℤ), (c : ℤ), (e : ℤ)]
          | .err => .err
          | .panic => .panic) = _
      have : FourSq.fourSquares δ = .ok (a, b, c', e) := hfour
      rw [this, iterKeys_eq]
      simp [uf]
    · rw [iterKeys_eq]
      have hz : ((a * a + b * b + c' * c' + e * e : ℕ) : ℤ) = δ := by
        rw [hsum]; exact Int.toNat_of_nonneg h0
      simp [uf]
      push_cast at hz
      nlinarith [hz]
  obtain ⟨init, prf, h1, h2, h3, _, _⟩ := ne_complete enc m Drv.fourSq pk p mTilde vals tp eq c av
    mt uf rf utf rtf hval hav hpv hholds hfs hmt heqm hr hut hrt hnn
  exact ⟨init, prf, h1, h2, h3⟩

/-- `eq_complete` with the blinder and response maps exposed -/
theorem eq_complete' (pk : PubKey G) (sig : Signature G) (un rev : List String)
    (rf : String → G) (val : String → ℤ) (vals : Values) (common : List (String × ℤ))
    (m2Tilde c : ℤ) (tp : EqTape)
    (hr : Maps pk.r (un ++ rev) rf) (hv : Maps vals (un ++ rev) val)
    (hsig : SigValid pk sig rf val (un ++ rev))
    (hrange : 0 ≤ c * (sig.e - 2 ^ Gen.largeEStartValueExp) + tp.eTilde ∧
              c * (sig.e - 2 ^ Gen.largeEStartValueExp) + tp.eTilde < 2 ^ (Gen.LARGE_ETILDE + 1)) :
    ∃ init prf, initEqProof (addOps enc) common pk sig un m2Tilde tp = .ok init ∧
      finalizeEqProof init c un rev vals = .ok prf ∧
      verifyEquality (addOps enc) pk prf c un = .ok init.t ∧
      prf.revealed = rev.map (fun k => (k, val k)) ∧
      init.mTilde = getMtilde tp.mTilde un common ∧
      prf.m = un.map (fun k => (k, c * val k + mtOf tp.mTilde common k)) := by
  have hun : ∀ k ∈ un, k ∈ un ++ rev := fun k hk => by simp [hk]
  have hrev : ∀ k ∈ rev, k ∈ un ++ rev := fun k hk => by simp [hk]
  have hmt := getMtilde_maps tp.mTilde un common
  have hrun : Maps pk.r un rf := hr.mono hun
  -- the prover's first message
  have hinit : initEqProof (addOps enc) common pk sig un m2Tilde tp = .ok
      ⟨tp.r • pk.s + sig.a,
       m2Tilde • pk.rctxt + (tp.vTilde • pk.s + (tp.eTilde • (tp.r • pk.s + sig.a)
          + (un.map fun k => mtOf tp.mTilde common k • rf k).sum)),
       tp.eTilde, sig.e - 2 ^ Gen.largeEStartValueExp, tp.vTilde, sig.v - sig.e * tp.r,
       getMtilde tp.mTilde un common, m2Tilde, sig.m2⟩ := by
    simp only [initEqProof, addOps_pow, Outcome.bind_ok, addOps_mul,
      calcTeq_value enc pk _ _ _ _ _ un rf _ hrun hmt, Outcome.map_ok]
  refine ⟨_, ⟨rev.map (fun k => (k, val k)), tp.r • pk.s + sig.a,
      c * (sig.e - 2 ^ Gen.largeEStartValueExp) + tp.eTilde,
      c * (sig.v - sig.e * tp.r) + tp.vTilde,
      un.map (fun k => (k, c * val k + mtOf tp.mTilde common k)),
      c * sig.m2 + m2Tilde⟩, hinit, ?_, ?_, rfl, rfl, rfl⟩
  · -- the responses
    simp only [finalizeEqProof, mHats_value c _ vals _ val un un (fun _ h => h) hmt (hv.mono hun),
      Outcome.bind_ok, revealedWithValues_value vals val rev (un ++ rev) hrev hv, Outcome.map_ok]
  · -- the verifier's recomputation
    have hnot : ¬ (c * (sig.e - 2 ^ Gen.largeEStartValueExp) + tp.eTilde < 0 ∨
        c * (sig.e - 2 ^ Gen.largeEStartValueExp) + tp.eTilde ≥ 2 ^ (Gen.LARGE_ETILDE + 1)) := by
      omega
    have hmhat := maps_map_self (fun k => c * val k + mtOf tp.mTilde common k) un
    have hrevm := maps_map_self val rev
    simp only [verifyEquality, verifyEqualityCore, hnot, if_false,
      calcTeq_value enc pk _ _ _ _ _ un rf _ hrun hmhat, Outcome.bind_ok, addOps_pow,
      keys_map_self, mulPows_sum enc pk.r _ rf val rev _ (hr.mono hrev) hrevm, addOps_inv,
      addOps_mul]
    congr 1
    rw [hsig]
    simp only [List.map_append, List.sum_append]
    rw [sum_split]
    module


/-- **a whole one-credential presentation is complete**: for every key, every credential
satisfying the CL equation with `e` in its prescribed interval, every request (any revealed
subset, any number of true predicates over i32 values on hidden attributes, all four types),
any declared common attributes among the hidden ones, every blinder of the prescribed sizes,
every nonce and EVERY hash function with 256-bit output, the model prover's presentation
(`proveSingle`: first messages, Fiat–Shamir challenge, responses — with the model of the
library's own `four_squares`) is accepted by the model verifier (`verify`: request consistency,
common-attribute pass, range check, equality and predicate recomputation, final hash). -/
theorem presentation_complete (H : List ByteArray → ℤ) (hH : ∀ bs, 0 ≤ H bs ∧ H bs < 2 ^ 256)
    (m : OvfMode) (pk : PubKey G) (sig : Signature G) (schema nonSchema : List String)
    (req : SubProofRequest) (pts : List (Pred × NeTape)) (hreq : req.predicates = pts.map (·.1))
    (common : List (String × ℤ)) (rf : String → G) (val : String → ℤ) (vals : Values)
    (m2Tilde : ℤ) (tp : EqTape) (nonce : ByteArray) (hasRKey hasRegKey : Bool)
    (hr : Maps pk.r (unrevealedOf schema nonSchema req.revealed ++ req.revealed) rf)
    (hv : Maps vals (unrevealedOf schema nonSchema req.revealed ++ req.revealed) val)
    (hsig : SigValid pk sig rf val (unrevealedOf schema nonSchema req.revealed ++ req.revealed))
    (he : 2 ^ 596 ≤ sig.e ∧ sig.e < 2 ^ 596 + 2 ^ 119) (ht : 0 ≤ tp.eTilde ∧ tp.eTilde < 2 ^ 456)
    (hpreds : ∀ pt ∈ pts, PredOk (unrevealedOf schema nonSchema req.revealed) val pt)
    (hcommon : ∀ a ∈ keys common, a ∈ unrevealedOf schema nonSchema req.revealed) :
    ∃ prf, proveSingle (addOps enc) H m Drv.fourSq common pk sig
        (unrevealedOf schema nonSchema req.revealed) req.revealed pts vals m2Tilde tp nonce = .ok prf ∧
      verify H m (keys common)
        [⟨addOps enc, pk, schema, nonSchema, req, hasRKey, false, hasRegKey⟩] prf nonce = .ok true := by
  set un := unrevealedOf schema nonSchema req.revealed with hun
  have hunm : ∀ k ∈ un, k ∈ un ++ req.revealed := fun k hk => by simp [hk]
  -- the equality part, for whatever the challenge turns out to be
  have heqc : ∀ c : ℤ, 0 ≤ c ∧ c < 2 ^ 256 →
      ∃ init prf, initEqProof (addOps enc) common pk sig un m2Tilde tp = .ok init ∧
        finalizeEqProof init c un req.revealed vals = .ok prf ∧
        verifyEquality (addOps enc) pk prf c un = .ok init.t ∧
        prf.revealed = req.revealed.map (fun k => (k, val k)) ∧
        init.mTilde = getMtilde tp.mTilde un common ∧
        prf.m = un.map (fun k => (k, c * val k + mtOf tp.mTilde common k)) := by
    intro c hc
    have hrange := honest_e_in_range c sig.e tp.eTilde hc he ht
    exact eq_complete' enc pk sig un req.revealed rf val vals common m2Tilde c tp hr hv hsig
      (by simpa [Gen.largeEStartValueExp, Gen.LARGE_ETILDE, Gen.LARGE_E_START] using hrange)
  have hvun : Maps vals un val := hv.mono hunm
  -- first messages (independent of the challenge)
  obtain ⟨init, prf0, hi, hf0, _, _, hmt0, hm0⟩ := heqc 0 ⟨le_refl _, by positivity⟩
  have hmtM : Maps init.mTilde un (mtOf tp.mTilde common) := by
    rw [hmt0]; exact getMtilde_maps tp.mTilde un common
  obtain ⟨nis, _, hnis, _, _, _⟩ := preds_complete enc m pk init.mTilde vals prf0 0 (le_refl _) un val
    (mtOf tp.mTilde common) hvun hmtM (by rw [hm0]; exact maps_map_self _ un) pts hpreds
  -- the challenge
  set c : ℤ := H ((proverTaus init nis).map (addOps enc).enc ++
    (proverCList init nis).map (addOps enc).enc ++ [nonce]) with hcdef
  have hc := hH ((proverTaus init nis).map (addOps enc).enc ++
    (proverCList init nis).map (addOps enc).enc ++ [nonce])
  rw [← hcdef] at hc
  obtain ⟨init', prf, hi', hf, hve, hrev, _, hm⟩ := heqc c hc
  have hii : init' = init := by rw [hi] at hi'; cases hi'; rfl
  subst hii
  obtain ⟨nis', nes, hnis', hfp, hvn, hpr⟩ := preds_complete enc m pk init'.mTilde vals prf c hc.1 un
    val (mtOf tp.mTilde common) hvun hmtM (by rw [hm]; exact maps_map_self _ un) pts hpreds
  have hnn : nis' = nis := by rw [hnis] at hnis'; cases hnis'; rfl
  subst hnn
  refine ⟨{ proofs := [{ eq := prf, ne := nes, hasNonRevoc := false, nrTaus := .ok [] }],
            cHash := c, cList := (proverCList init' nis').map (addOps enc).enc }, ?_, ?_⟩
  · simp only [proveSingle, hi', Outcome.bind_ok, hnis', ← hcdef, hf, hfp, Outcome.map_ok]
  · -- the verifier
    have hcons : pairConsistent (G := G) { eq := prf, ne := nes, hasNonRevoc := false, nrTaus := .ok [] }
        ⟨addOps enc, pk, schema, nonSchema, req, hasRKey, false, hasRegKey⟩ = true := by
      simp only [pairConsistent, hrev, keys_map_self, sameSet_self, hpr, hreq, predSameSet_self,
        Bool.and_self]
    have hall : (keys common).all (fun a => un.contains a) = true := by
      simp only [List.all_eq_true, List.contains_iff_mem]
      exact hcommon
    obtain ⟨seen', hcp⟩ := commonPass_succeeds (keys common) prf (keys common) []
      (fun a ha => by rw [hm, lookup_map_self _ un a (hcommon a ha)]; rfl)
      (fun a v h => by simp [lookup] at h)
    have hany : nes.any (fun p => !un.contains p.pred.attr) = false := by
      rw [List.any_eq_false]
      intro p hp
      have hpm : p.pred ∈ nes.map (·.pred) := List.mem_map_of_mem hp
      rw [hpr] at hpm
      simp only [List.mem_map] at hpm
      obtain ⟨pt, hpt, hpe⟩ := hpm
      have := (hpreds pt hpt).1
      rw [hpe] at this
      simpa using this
    simp only [verify, verifyTranscript, List.length_cons, List.length_nil, bne_self_eq_false,
      Bool.false_eq_true, if_false, allPairsConsistent, hcons, Bool.and_self, Bool.not_true,
      verifyLoop, Bool.false_and, Bool.and_false, Bool.not_false, ← hun, hall, hcp, Outcome.bind_ok,
      verifyPrimaryProof, hve, hany, hvn, Outcome.map_ok]
    have hitems : ([] ++ List.map (fun g => Item.bytes ((addOps enc).enc g))
          (init'.t :: List.flatMap (fun x => x.tauList) nis') ++ [] ++
        List.map Item.bytes (List.map (addOps enc).enc (proverCList init' nis')) ++
        [Item.bytes nonce])
        = List.map Item.bytes ((proverTaus init' nis').map (addOps enc).enc ++
            (proverCList init' nis').map (addOps enc).enc ++ [nonce]) := by
      simp [proverTaus, List.map_map, Function.comp_def]
    rw [hitems]
    have := allBytes_bytes ((proverTaus init' nis').map (addOps enc).enc ++
        (proverCList init' nis').map (addOps enc).enc ++ [nonce]) []
    simp only [List.append_nil] at this
    rw [this]
    simp only [allBytes, Option.map_some, List.append_nil, ← hcdef, beq_self_eq_true]


/-- **a presentation that also carries a non-revocation part is complete**, given the pairing
side: `nrT` / `nrC` are the encoded tau-list and c-list of that part (hashed in front of the
primary ones, as `add_sub_proof_request` pushes them), and the verifier's recomputation of the
eight pairing-side values yields the prover's (`nrTaus := .ok (nrT.map Item.bytes)`: that is
`C10.nonrevoc_complete`, equal exponents have equal encodings).  Then for every key, credential,
request, blinders, nonce and hash function the model prover `proveSingleWith` — what the driver's
`prove_nr` operation runs and the real verifier accepts — is accepted by the model verifier that
holds registry, registry key and revocation key. -/
theorem presentation_with_nonrevoc_complete (H : List ByteArray → ℤ) (hH : ∀ bs, 0 ≤ H bs ∧ H bs < 2 ^ 256)
    (m : OvfMode) (pk : PubKey G) (sig : Signature G) (schema nonSchema : List String)
    (req : SubProofRequest) (pts : List (Pred × NeTape)) (hreq : req.predicates = pts.map (·.1))
    (common : List (String × ℤ)) (rf : String → G) (val : String → ℤ) (vals : Values)
    (m2Tilde : ℤ) (tp : EqTape) (nonce : ByteArray) (nrT nrC : List ByteArray) (hnr : nrT ≠ [])
    (hr : Maps pk.r (unrevealedOf schema nonSchema req.revealed ++ req.revealed) rf)
    (hv : Maps vals (unrevealedOf schema nonSchema req.revealed ++ req.revealed) val)
    (hsig : SigValid pk sig rf val (unrevealedOf schema nonSchema req.revealed ++ req.revealed))
    (he : 2 ^ 596 ≤ sig.e ∧ sig.e < 2 ^ 596 + 2 ^ 119) (ht : 0 ≤ tp.eTilde ∧ tp.eTilde < 2 ^ 456)
    (hpreds : ∀ pt ∈ pts, PredOk (unrevealedOf schema nonSchema req.revealed) val pt)
    (hcommon : ∀ a ∈ keys common, a ∈ unrevealedOf schema nonSchema req.revealed) :
    ∃ prf sp, proveSingleWith (addOps enc) H m Drv.fourSq common pk sig
        (unrevealedOf schema nonSchema req.revealed) req.revealed pts vals m2Tilde tp nonce nrT nrC
          = .ok prf ∧ prf.proofs = [sp] ∧ sp.hasNonRevoc = true ∧
      verify H m (keys common)
        [⟨addOps enc, pk, schema, nonSchema, req, true, true, true⟩]
        { prf with proofs := [{ sp with nrTaus := .ok (nrT.map Item.bytes) }] } nonce = .ok true := by
  set un := unrevealedOf schema nonSchema req.revealed with hun
  have hunm : ∀ k ∈ un, k ∈ un ++ req.revealed := fun k hk => by simp [hk]
  -- the equality part, for whatever the challenge turns out to be
  have heqc : ∀ c : ℤ, 0 ≤ c ∧ c < 2 ^ 256 →
      ∃ init prf, initEqProof (addOps enc) common pk sig un m2Tilde tp = .ok init ∧
        finalizeEqProof init c un req.revealed vals = .ok prf ∧
        verifyEquality (addOps enc) pk prf c un = .ok init.t ∧
        prf.revealed = req.revealed.map (fun k => (k, val k)) ∧
        init.mTilde = getMtilde tp.mTilde un common ∧
        prf.m = un.map (fun k => (k, c * val k + mtOf tp.mTilde common k)) := by
    intro c hc
    have hrange := honest_e_in_range c sig.e tp.eTilde hc he ht
    exact eq_complete' enc pk sig un req.revealed rf val vals common m2Tilde c tp hr hv hsig
      (by simpa [Gen.largeEStartValueExp, Gen.LARGE_ETILDE, Gen.LARGE_E_START] using hrange)
  have hvun : Maps vals un val := hv.mono hunm
  -- first messages (independent of the challenge)
  obtain ⟨init, prf0, hi, hf0, _, _, hmt0, hm0⟩ := heqc 0 ⟨le_refl _, by positivity⟩
  have hmtM : Maps init.mTilde un (mtOf tp.mTilde common) := by
    rw [hmt0]; exact getMtilde_maps tp.mTilde un common
  obtain ⟨nis, _, hnis, _, _, _⟩ := preds_complete enc m pk init.mTilde vals prf0 0 (le_refl _) un val
    (mtOf tp.mTilde common) hvun hmtM (by rw [hm0]; exact maps_map_self _ un) pts hpreds
  -- the challenge
  set c : ℤ := H (nrT ++ (proverTaus init nis).map (addOps enc).enc ++
    (nrC ++ (proverCList init nis).map (addOps enc).enc) ++ [nonce]) with hcdef
  have hc := hH (nrT ++ (proverTaus init nis).map (addOps enc).enc ++
    (nrC ++ (proverCList init nis).map (addOps enc).enc) ++ [nonce])
  rw [← hcdef] at hc
  obtain ⟨init', prf, hi', hf, hve, hrev, _, hm⟩ := heqc c hc
  have hii : init' = init := by rw [hi] at hi'; cases hi'; rfl
  subst hii
  obtain ⟨nis', nes, hnis', hfp, hvn, hpr⟩ := preds_complete enc m pk init'.mTilde vals prf c hc.1 un
    val (mtOf tp.mTilde common) hvun hmtM (by rw [hm]; exact maps_map_self _ un) pts hpreds
  have hnn : nis' = nis := by rw [hnis] at hnis'; cases hnis'; rfl
  subst hnn
  have hne : (!nrT.isEmpty) = true := by cases nrT with
    | nil => exact absurd rfl hnr
    | cons _ _ => rfl
  refine ⟨{ proofs := [{ eq := prf, ne := nes, hasNonRevoc := !nrT.isEmpty, nrTaus := .ok [] }],
            cHash := c, cList := nrC ++ (proverCList init' nis').map (addOps enc).enc },
          { eq := prf, ne := nes, hasNonRevoc := !nrT.isEmpty, nrTaus := .ok [] }, ?_, rfl, hne, ?_⟩
  · simp only [proveSingleWith, hi', Outcome.bind_ok, hnis', ← hcdef, hf, hfp, Outcome.map_ok]
  · -- the verifier
    have hcons : pairConsistent (G := G) { eq := prf, ne := nes, hasNonRevoc := true, nrTaus := .ok (nrT.map Item.bytes) }
        ⟨addOps enc, pk, schema, nonSchema, req, true, true, true⟩ = true := by
      simp only [pairConsistent, hrev, keys_map_self, sameSet_self, hpr, hreq, predSameSet_self,
        Bool.and_self]
    have hall : (keys common).all (fun a => un.contains a) = true := by
      simp only [List.all_eq_true, List.contains_iff_mem]
      exact hcommon
    obtain ⟨seen', hcp⟩ := commonPass_succeeds (keys common) prf (keys common) []
      (fun a ha => by rw [hm, lookup_map_self _ un a (hcommon a ha)]; rfl)
      (fun a v h => by simp [lookup] at h)
    have hany : nes.any (fun p => !un.contains p.pred.attr) = false := by
      rw [List.any_eq_false]
      intro p hp
      have hpm : p.pred ∈ nes.map (·.pred) := List.mem_map_of_mem hp
      rw [hpr] at hpm
      simp only [List.mem_map] at hpm
      obtain ⟨pt, hpt, hpe⟩ := hpm
      have := (hpreds pt hpt).1
      rw [hpe] at this
      simpa using this
    simp only [verify, verifyTranscript, List.length_cons, List.length_nil, bne_self_eq_false,
      Bool.false_eq_true, if_false, allPairsConsistent, hcons, Bool.and_self, Bool.not_true,
      verifyLoop, hne, Bool.true_and, Bool.and_true, if_true, Bool.not_false, ← hun, hall, hcp,
      Outcome.bind_ok, verifyPrimaryProof, hve, hany, hvn, Outcome.map_ok]
    have hitems : (nrT.map Item.bytes ++ List.map (fun g => Item.bytes ((addOps enc).enc g))
          (init'.t :: List.flatMap (fun x => x.tauList) nis') ++ [] ++
        List.map Item.bytes (nrC ++ List.map (addOps enc).enc (proverCList init' nis')) ++
        [Item.bytes nonce])
        = List.map Item.bytes (nrT ++ (proverTaus init' nis').map (addOps enc).enc ++
            (nrC ++ (proverCList init' nis').map (addOps enc).enc) ++ [nonce]) := by
      simp [proverTaus, List.map_map, Function.comp_def]
    rw [hitems]
    have := allBytes_bytes (nrT ++ (proverTaus init' nis').map (addOps enc).enc ++
        (nrC ++ (proverCList init' nis').map (addOps enc).enc) ++ [nonce]) []
    simp only [List.append_nil] at this
    rw [this]
    simp only [allBytes, Option.map_some, List.append_nil, ← hcdef, beq_self_eq_true]

/-- without a pairing-side part `proveSingleWith` is `proveSingle` -/
theorem prove_single_with_nil (o : GroupOps G) (H : List ByteArray → ℤ) (m : OvfMode)
    (fs : ℤ → Outcome (List ℤ)) (common : List (String × ℤ)) (pk : PubKey G) (sig : Signature G)
    (un rev : List String) (pts : List (Pred × NeTape)) (vals : Values) (m2Tilde : ℤ) (tp : EqTape)
    (nonce : ByteArray) :
    proveSingleWith o H m fs common pk sig un rev pts vals m2Tilde tp nonce [] []
      = proveSingle o H m fs common pk sig un rev pts vals m2Tilde tp nonce := by
  simp [proveSingleWith, proveSingle]

/-! non-vacuity: a concrete key, credential and tape over `ℤ` (toy group) -/
example : SigValid (G := ℤ) ⟨1, 100, 2, [("a", 3), ("b", 5)]⟩ ⟨4, 7, 5, 9⟩
    (fun k => if k = "a" then 3 else 5) (fun k => if k = "a" then 6 else 6) ["a", "b"] := by
  simp [SigValid]

/-! ## any number of credentials, one challenge -/

/-- what makes one (prover input, verifier request) pair of an honest multi-credential
presentation well-formed; `V` gives the values shared through the declared common attributes -/
structure CredOk (common : List (String × ℤ)) (V : String → ℤ) (ci : CredIn G) (vc : VerCred G) :
    Prop where
  ho : ci.o = addOps enc
  hvo : vc.o = addOps enc
  hpk : vc.pk = ci.pk
  hun : ci.unrevealed = unrevealedOf vc.schema vc.nonSchema vc.req.revealed
  hrev : ci.revealed = vc.req.revealed
  hreq : vc.req.predicates = ci.preds.map (·.1)
  hreg : vc.hasRegistry = false
  he : 2 ^ 596 ≤ ci.sig.e ∧ ci.sig.e < 2 ^ 596 + 2 ^ 119
  ht : 0 ≤ ci.tp.eTilde ∧ ci.tp.eTilde < 2 ^ 456
  hcommon : ∀ a ∈ keys common, a ∈ ci.unrevealed
  hex : ∃ (rf : String → G) (val : String → ℤ),
    Maps ci.pk.r (ci.unrevealed ++ ci.revealed) rf ∧ Maps ci.vals (ci.unrevealed ++ ci.revealed) val ∧
    SigValid ci.pk ci.sig rf val (ci.unrevealed ++ ci.revealed) ∧
    (∀ pt ∈ ci.preds, PredOk ci.unrevealed val pt) ∧ (∀ a ∈ keys common, val a = V a)

/-- one sub-proof: first messages (independent of the challenge), and for every challenge in
range the responses and what the verifier computes from them -/
theorem cred_complete (m : OvfMode) (common : List (String × ℤ)) (V : String → ℤ)
    (ci : CredIn G) (vc : VerCred G) (h : CredOk enc common V ci vc) :
    ∃ init nis,
      initEqProof ci.o common ci.pk ci.sig ci.unrevealed ci.m2Tilde ci.tp = .ok init ∧
      initPreds ci.o m Drv.fourSq ci.pk init.mTilde ci.vals ci.preds = .ok nis ∧
      ∀ c : ℤ, 0 ≤ c ∧ c < 2 ^ 256 → ∃ prf nes,
        finalizeEqProof init c ci.unrevealed ci.revealed ci.vals = .ok prf ∧
        finalizePreds c prf nis = .ok nes ∧
        verifyPrimaryProof vc.o m vc.pk prf nes c
          (unrevealedOf vc.schema vc.nonSchema vc.req.revealed) = .ok (proverTaus init nis) ∧
        pairConsistent { eq := prf, ne := nes, hasNonRevoc := false, nrTaus := .ok [] } vc = true ∧
        (∀ a ∈ keys common, lookup a prf.m = some (c * V a + mtOf ci.tp.mTilde common a)) := by
  obtain ⟨ho, hvo, hpk, hun, hrev, hreq, hreg, he, ht, hcommon, rf, val, hr, hv, hsig, hpreds, hV⟩ := h
  have hunm : ∀ k ∈ ci.unrevealed, k ∈ ci.unrevealed ++ ci.revealed := fun k hk => by simp [hk]
  have heqc : ∀ c : ℤ, 0 ≤ c ∧ c < 2 ^ 256 →
      ∃ init prf, initEqProof (addOps enc) common ci.pk ci.sig ci.unrevealed ci.m2Tilde ci.tp = .ok init ∧
        finalizeEqProof init c ci.unrevealed ci.revealed ci.vals = .ok prf ∧
        verifyEquality (addOps enc) ci.pk prf c ci.unrevealed = .ok init.t ∧
        prf.revealed = ci.revealed.map (fun k => (k, val k)) ∧
        init.mTilde = getMtilde ci.tp.mTilde ci.unrevealed common ∧
        prf.m = ci.unrevealed.map (fun k => (k, c * val k + mtOf ci.tp.mTilde common k)) := by
    intro c hc
    have hrange := honest_e_in_range c ci.sig.e ci.tp.eTilde hc he ht
    exact eq_complete' enc ci.pk ci.sig ci.unrevealed ci.revealed rf val ci.vals common ci.m2Tilde c
      ci.tp hr hv hsig
      (by simpa [Gen.largeEStartValueExp, Gen.LARGE_ETILDE, Gen.LARGE_E_START] using hrange)
  have hvun : Maps ci.vals ci.unrevealed val := hv.mono hunm
  obtain ⟨init, prf0, hi, hf0, _, _, hmt0, hm0⟩ := heqc 0 ⟨le_refl _, by positivity⟩
  have hmtM : Maps init.mTilde ci.unrevealed (mtOf ci.tp.mTilde common) := by
    rw [hmt0]; exact getMtilde_maps ci.tp.mTilde ci.unrevealed common
  obtain ⟨nis, _, hnis, _, _, _⟩ := preds_complete enc m ci.pk init.mTilde ci.vals prf0 0 (le_refl _)
    ci.unrevealed val (mtOf ci.tp.mTilde common) hvun hmtM
    (by rw [hm0]; exact maps_map_self _ ci.unrevealed) ci.preds hpreds
  refine ⟨init, nis, by rw [ho]; exact hi, by rw [ho]; exact hnis, ?_⟩
  intro c hc
  obtain ⟨init', prf, hi', hf, hve, hrevv, _, hm⟩ := heqc c hc
  have hii : init' = init := by rw [hi] at hi'; cases hi'; rfl
  subst hii
  obtain ⟨nis', nes, hnis', hfp, hvn, hpr⟩ := preds_complete enc m ci.pk init'.mTilde ci.vals prf c hc.1
    ci.unrevealed val (mtOf ci.tp.mTilde common) hvun hmtM
    (by rw [hm]; exact maps_map_self _ ci.unrevealed) ci.preds hpreds
  have hnn : nis' = nis := by rw [hnis] at hnis'; cases hnis'; rfl
  subst hnn
  refine ⟨prf, nes, hf, hfp, ?_, ?_, ?_⟩
  · rw [hvo, hpk, ← hun]
    have hany : nes.any (fun p => !ci.unrevealed.contains p.pred.attr) = false := by
      rw [List.any_eq_false]
      intro p hp
      have hpm : p.pred ∈ nes.map (·.pred) := List.mem_map_of_mem hp
      rw [hpr] at hpm
      simp only [List.mem_map] at hpm
      obtain ⟨pt, hpt, hpe⟩ := hpm
      have := (hpreds pt hpt).1
      rw [hpe] at this
      simpa using this
    simp only [verifyPrimaryProof, hve, Outcome.bind_ok, hany, Bool.false_eq_true, if_false, hvn,
      Outcome.map_ok, proverTaus]
  · simp only [pairConsistent, hrevv, keys_map_self, hrev, sameSet_self, hpr, hreq, predSameSet_self,
      Bool.and_self]
  · intro a ha
    rw [hm, lookup_map_self _ ci.unrevealed a (hcommon a ha), hV a ha]


/-- all sub-proofs: first messages, and for every challenge in range and every state of the
common-attribute table consistent with the shared values, the responses and the verifier's loop -/
theorem loop_complete (m : OvfMode) (common : List (String × ℤ)) (V : String → ℤ) :
    ∀ (cvs : List (CredIn G × VerCred G)), (∀ cv ∈ cvs, CredOk enc common V cv.1 cv.2) →
    ∃ inits, initAll m Drv.fourSq common (cvs.map (·.1)) = .ok inits ∧
      ∀ c : ℤ, 0 ≤ c ∧ c < 2 ^ 256 → ∀ seen : List (String × ℤ),
        (∀ a v, lookup a seen = some v → v = c * V a + seedOf common a) →
        ∃ sps, finalizeAll c (cvs.map (·.1)) inits = .ok sps ∧ sps.length = cvs.length ∧
          allPairsConsistent sps (cvs.map (·.2)) = true ∧
          verifyLoop m (keys common) c sps (cvs.map (·.2)) seen
            = .ok ((tauBytes (cvs.map (·.1)) inits).map Item.bytes) := by
  intro cvs
  induction cvs with
  | nil =>
    intro _
    refine ⟨[], rfl, ?_⟩
    intro c _ seen _
    exact ⟨[], rfl, rfl, rfl, rfl⟩
  | cons cv cvs ih =>
    intro hok
    obtain ⟨ci, vc⟩ := cv
    have hci : CredOk enc common V ci vc := hok (ci, vc) (by simp)
    obtain ⟨init, nis, hi, hn, hresp⟩ := cred_complete enc m common V ci vc hci
    obtain ⟨inits, hinits, hrest⟩ := ih fun x hx => hok x (by simp [hx])
    refine ⟨(init, nis) :: inits, ?_, ?_⟩
    · simp only [List.map_cons, initAll, hi, Outcome.bind_ok, hn, hinits, Outcome.map_ok]
    · intro c hc seen hseen
      obtain ⟨prf, nes, hf, hfp, hvp, hcons, hm⟩ := hresp c hc
      obtain ⟨seen', hcp, hseen'⟩ := commonPass_inv (keys common) prf
        (fun a => c * V a + seedOf common a) (keys common) seen
        (fun a ha => by rw [hm a ha, mtOf_common _ _ _ ha]) hseen
      obtain ⟨sps, hfa, hlen, hapc, hvl⟩ := hrest c hc seen' hseen'
      refine ⟨{ eq := prf, ne := nes, hasNonRevoc := false, nrTaus := .ok [] } :: sps, ?_, ?_, ?_, ?_⟩
      · simp only [List.map_cons, finalizeAll, hf, Outcome.bind_ok, hfp, hfa, Outcome.map_ok]
      · simp [hlen]
      · simp only [List.map_cons, allPairsConsistent, hcons, hapc, Bool.and_self]
      · have hall : (keys common).all (fun a =>
            (unrevealedOf vc.schema vc.nonSchema vc.req.revealed).contains a) = true := by
          simp only [List.all_eq_true, List.contains_iff_mem]
          intro a ha
          rw [← hci.hun]; exact hci.hcommon a ha
        rw [hci.hvo] at hvp
        simp only [List.map_cons, verifyLoop, Bool.false_and, Bool.not_false, hci.hreg, Bool.and_false,
          Bool.false_eq_true, if_false, Outcome.bind_ok, hall, Bool.not_true, hcp, hvp, hvl,
          Outcome.map_ok, tauBytes, List.map_append, List.map_map, List.nil_append, hci.hvo, hci.ho,
          Function.comp_def]

/-- **a presentation over any number of credentials is complete**: for every list of
credentials (each with its own key, request, predicates and blinders; all satisfying the CL
equation with `e` in its interval), any declared common attributes hidden in every sub-proof
and holding ONE value across the credentials, every nonce and every hash function with
256-bit output, the model prover `proveMulti` (one challenge over all sub-proofs) is accepted
by the model verifier — including the common-attribute pass over the whole list. -/
theorem multi_presentation_complete (H : List ByteArray → ℤ) (hH : ∀ bs, 0 ≤ H bs ∧ H bs < 2 ^ 256)
    (m : OvfMode) (common : List (String × ℤ)) (V : String → ℤ)
    (cvs : List (CredIn G × VerCred G)) (hok : ∀ cv ∈ cvs, CredOk enc common V cv.1 cv.2)
    (nonce : ByteArray) :
    ∃ prf, proveMulti H m Drv.fourSq common (cvs.map (·.1)) nonce = .ok prf ∧
      verify H m (keys common) (cvs.map (·.2)) prf nonce = .ok true := by
  obtain ⟨inits, hinits, hrest⟩ := loop_complete enc m common V cvs hok
  set c : ℤ := H (tauBytes (cvs.map (·.1)) inits ++ cBytes (cvs.map (·.1)) inits ++ [nonce]) with hcdef
  have hc := hH (tauBytes (cvs.map (·.1)) inits ++ cBytes (cvs.map (·.1)) inits ++ [nonce])
  rw [← hcdef] at hc
  obtain ⟨sps, hfa, hlen, hapc, hvl⟩ := hrest c hc [] (fun a v h => by simp [lookup] at h)
  refine ⟨{ proofs := sps, cHash := c, cList := cBytes (cvs.map (·.1)) inits }, ?_, ?_⟩
  · simp only [proveMulti, hinits, Outcome.bind_ok, ← hcdef, hfa, Outcome.map_ok]
  · have hl : (sps.length != (cvs.map (·.2)).length) = false := by simp [hlen]
    simp only [verify, verifyTranscript, hl, Bool.false_eq_true, if_false, hapc, Bool.not_true, hvl,
      Outcome.map_ok, Outcome.bind_ok]
    have hitems : List.map Item.bytes (tauBytes (cvs.map (·.1)) inits) ++
        List.map Item.bytes (cBytes (cvs.map (·.1)) inits) ++ [Item.bytes nonce]
        = List.map Item.bytes (tauBytes (cvs.map (·.1)) inits ++ cBytes (cvs.map (·.1)) inits ++ [nonce]) := by
      simp
    rw [hitems]
    have := allBytes_bytes (tauBytes (cvs.map (·.1)) inits ++ cBytes (cvs.map (·.1)) inits ++ [nonce]) []
    simp only [List.append_nil] at this
    rw [this]
    simp only [allBytes, Option.map_some, List.append_nil, ← hcdef, beq_self_eq_true]


/-! non-vacuity of `presentation_complete`: a toy group (ℤ, +), a key with two attributes, a
credential satisfying the CL equation with `e = 2^596`, a request revealing `b` and asking
`a ≥ 5` of the hidden value 7, a constant hash -/
example : ∃ prf,
    proveSingle (addOps (G := ℤ) (fun _ => ByteArray.empty)) (fun _ => 5) .checked Drv.fourSq [] 
      ⟨1, 44, 11, [("a", 2), ("b", 5)]⟩ ⟨1, 0, 2 ^ 596, 4⟩
      (unrevealedOf ["a", "b"] [] ["b"]) ["b"]
      [(⟨"a", .GE, 5⟩, ⟨[("0", 1), ("1", 1), ("2", 1), ("3", 1), ("DELTA", 1)],
                        [("0", 1), ("1", 1), ("2", 1), ("3", 1)],
                        [("0", 1), ("1", 1), ("2", 1), ("3", 1), ("DELTA", 1)], 1⟩)]
      [("a", 7), ("b", 3)] 1 ⟨1, 1, 1, fun _ => 1⟩ ByteArray.empty = .ok prf ∧
    verify (fun _ => 5) .checked [] 
      [⟨addOps (G := ℤ) (fun _ => ByteArray.empty), ⟨1, 44, 11, [("a", 2), ("b", 5)]⟩, ["a", "b"], [],
        ⟨["b"], [⟨"a", .GE, 5⟩]⟩, false, false, false⟩] prf ByteArray.empty = .ok true := by
  have hun : unrevealedOf ["a", "b"] [] ["b"] = ["a"] := by decide
  refine presentation_complete (G := ℤ) (fun _ => ByteArray.empty) (fun _ => 5) (fun _ => by norm_num) .checked
    ⟨1, 44, 11, [("a", 2), ("b", 5)]⟩ ⟨1, 0, 2 ^ 596, 4⟩ ["a", "b"] [] ⟨["b"], [⟨"a", .GE, 5⟩]⟩ _ rfl []
    (fun k => if k = "a" then 2 else 5) (fun k => if k = "a" then 7 else 3) [("a", 7), ("b", 3)] 1
    ⟨1, 1, 1, fun _ => 1⟩ ByteArray.empty false false ?_ ?_ ?_ ?_ ?_ ?_ ?_
  · rw [hun]; intro k hk; simp at hk; rcases hk with rfl | rfl <;> decide
  · rw [hun]; intro k hk; simp at hk; rcases hk with rfl | rfl <;> decide
  · rw [hun]; simp [SigValid]
  · norm_num
  · exact ⟨by norm_num, by
      have : (1:ℤ) = 2 ^ 0 := by norm_num
      rw [this]; exact pow_lt_pow_right₀ (by norm_num) (by norm_num)⟩
  · rw [hun]
    intro pt hpt
    simp at hpt
    subst hpt
    refine ⟨by simp, by unfold C03.I32; simp, by unfold C03.I32; simp, by decide, fun _ => 1, fun _ => 1, fun _ => 1, ?_, ?_, ?_, by norm_num, by norm_num⟩
    · intro k hk; rw [iterKeys_eq] at hk; simp at hk; rcases hk with rfl | rfl | rfl | rfl | rfl <;> decide
    · intro k hk; rw [iterKeys_eq] at hk; simp at hk; rcases hk with rfl | rfl | rfl | rfl <;> decide
    · intro k hk; rw [iterKeys_eq] at hk; simp at hk; rcases hk with rfl | rfl | rfl | rfl | rfl <;> decide
  · intro a ha; simp [keys] at ha


section ZnRefinement
open CL.Zn

/-! ## The executable group refines the proof group (`Zn_refines_units`)

The completeness theorems above are stated over `addOps` (any additive commutative group).  What
the driver `cldrv` — and therefore the correspondence check — runs is `Zn.znOps N`: Lean integers
modulo the key's `n`, square-and-multiply and the extended Euclidean algorithm
(`Model/Zn.lean`).  The theorems below close that gap for the primary (RSA-side) equations:
`Zn.znOps N` is related, operation by operation, to `addOps` over `Additive (ZMod N)ˣ`, the
relation lifts through every function that computes `T`, `T̂` and the predicate `τ̂` values, and
so the *integers* the executable verifier recomputes are the integers the executable prover
committed to. -/

/-- **`Zn_refines_units`**: for every modulus `N > 1` the five operations, the byte encoding
and the equality test of the executable group correspond to those of the additive proof group
`Additive (ZMod N)ˣ` on reduced representatives of units. -/
theorem zn_refines_units (N : ℕ) (hN : 1 < N) :
    OpsRel (Zn.Rel N) (Zn.znOps N) (addOps (Zn.encU N)) := Zn.znOps_refines hN

/-- the executable modular exponentiation and inverse are the mathematical ones: `b^e mod m`
for every `b e m`; `modInv a n` is defined exactly on the units of `ℤ/n` (`n > 1`), returns the
reduced inverse there and `err` (never `panic`, never a wrong value) elsewhere. -/
theorem zn_arithmetic_exact :
    (∀ b e m : ℕ, Zn.modPowNat b e m = b ^ e % m) ∧
    (∀ a n x : ℤ, Zn.modInv a n = .ok x → 1 < n ∧ 0 ≤ x ∧ x < n ∧ (a * x) % n = 1) ∧
    (∀ a n : ℤ, 1 < n → Int.gcd a n = 1 → ∃ x, Zn.modInv a n = .ok x) ∧
    (∀ a n : ℤ, Int.gcd a n ≠ 1 → Zn.modInv a n = .err) :=
  ⟨Zn.modPowNat_eq, fun _ _ _ h => Zn.modInv_ok h, fun _ _ hn hc => Zn.modInv_complete hn hc,
   fun _ _ hc => Zn.modInv_err_of_not_coprime hc⟩

/-- every reduced integer coprime to `N` represents a unit: the relation's domain is exactly the
group elements an honest key and credential consist of -/
theorem rel_exists (N : ℕ) (_hN : 1 < N) (x : ℤ) (h0 : 0 ≤ x) (hn : x < N)
    (hc : Int.gcd x N = 1) : ∃ u : Zn.U N, Zn.Rel N x u := by
  have hcop : Nat.Coprime x.toNat N := by
    have hx : x.natAbs = x.toNat := by omega
    rw [Int.gcd, Int.natAbs_natCast, hx] at hc
    exact hc
  refine ⟨Additive.ofMul (ZMod.unitOfCoprime x.toNat hcop), h0, hn, ?_⟩
  simp only [Zn.uval, toMul_ofMul, ZMod.coe_unitOfCoprime]
  rw [← Int.cast_natCast, Int.toNat_of_nonneg h0]

/-- **the executable verifier recomputes the executable prover's `T`, as integers**: the
equality sub-protocol run entirely in `Zn.znOps N` (what `cldrv` executes) is complete.  The key
and the signature are integers that represent units (`PKRel`, `SigRel` against some key and
signature over `Additive (ZMod N)ˣ`); the CL signature equation is stated on those units. -/
theorem eq_complete_executable (N : ℕ) (hN : 1 < N)
    (pk : PubKey ℤ) (sig : Signature ℤ) (pk' : PubKey (Zn.U N)) (sig' : Signature (Zn.U N))
    (hpk : PKRel (Zn.Rel N) pk pk') (hs : SigRel (Zn.Rel N) sig sig')
    (un rev : List String) (rf : String → Zn.U N) (val : String → ℤ) (vals : Values)
    (common : List (String × ℤ)) (m2Tilde c : ℤ) (tp : EqTape)
    (hr : Maps pk'.r (un ++ rev) rf) (hv : Maps vals (un ++ rev) val)
    (hsig : SigValid pk' sig' rf val (un ++ rev))
    (hrange : 0 ≤ c * (sig.e - 2 ^ Gen.largeEStartValueExp) + tp.eTilde ∧
              c * (sig.e - 2 ^ Gen.largeEStartValueExp) + tp.eTilde < 2 ^ (Gen.LARGE_ETILDE + 1)) :
    ∃ init prf, initEqProof (Zn.znOps N) common pk sig un m2Tilde tp = .ok init ∧
      finalizeEqProof init c un rev vals = .ok prf ∧
      verifyEquality (Zn.znOps N) pk prf c un = .ok init.t := by
  have : NeZero N := ⟨by omega⟩
  have ho := Zn.znOps_refines hN
  rw [hs.e] at hrange
  obtain ⟨init', prf', h1, h2, h3, _⟩ := eq_complete (Zn.encU N) pk' sig' un rev rf val vals common
    m2Tilde c tp hr hv hsig hrange
  -- the prover's first message
  have r1 := initEqProof_rel ho common hpk hs un m2Tilde tp
  rw [h1] at r1
  cases hi : initEqProof (Zn.znOps N) common pk sig un m2Tilde tp with
  | ok init =>
    rw [hi] at r1
    have hinit : EqInitRel (Zn.Rel N) init init' := r1
    -- the responses
    have r2 := finalizeEqProof_rel hinit c un rev vals
    rw [h2] at r2
    cases hf : finalizeEqProof init c un rev vals with
    | ok prf =>
      rw [hf] at r2
      have hprf : EqRel (Zn.Rel N) prf prf' := r2
      -- the verifier
      have r3 := verifyEquality_rel ho hpk hprf c un
      rw [h3] at r3
      cases hve : verifyEquality (Zn.znOps N) pk prf c un with
      | ok t =>
        rw [hve] at r3
        have ht : Zn.Rel N t init'.t := r3
        exact ⟨init, prf, rfl, hf, by rw [hve, Zn.rel_unique ht hinit.t]⟩
      | err => rw [hve] at r3; exact absurd r3 (by simp [ORel])
      | panic => rw [hve] at r3; exact absurd r3 (by simp [ORel])
    | err => rw [hf] at r2; exact absurd r2 (by simp [ORel])
    | panic => rw [hf] at r2; exact absurd r2 (by simp [ORel])
  | err => rw [hi] at r1; exact absurd r1 (by simp [ORel])
  | panic => rw [hi] at r1; exact absurd r1 (by simp [ORel])

/-- **the transcript bytes agree**: on related keys and proofs the executable verifier's whole
primary computation (`[T̂] ++` predicate `τ̂` values, the bytes that enter the Fiat–Shamir hash)
equals the proof-group verifier's, outcome tag included — for every proof, honest or not, whose
group elements are units. -/
theorem executable_verifier_transcript_refines (N : ℕ) (hN : 1 < N) (m : OvfMode)
    (pk : PubKey ℤ) (pk' : PubKey (Zn.U N)) (hpk : PKRel (Zn.Rel N) pk pk')
    (eq : EqProof ℤ) (eq' : EqProof (Zn.U N)) (heq : EqRel (Zn.Rel N) eq eq')
    (ne : List (NeProof ℤ)) (ne' : List (NeProof (Zn.U N)))
    (hne : List.Forall₂ (NeRel (Zn.Rel N)) ne ne') (c : ℤ) (unrev : List String) :
    (verifyPrimaryProof (Zn.znOps N) m pk eq ne c unrev).map (List.map Zn.encInt) =
      (verifyPrimaryProof (addOps (Zn.encU N)) m pk' eq' ne' c unrev).map
        (List.map (Zn.encU N)) :=
  verifyPrimaryProof_bytes (Zn.znOps_refines hN) m hpk heq hne c unrev

/-- non-vacuity: modulo 35 the integers 2, 3, 4 represent units, so a key with `S = 2`, `Z = 3`,
`Rctxt = 4`, `R_a = 9` meets `PKRel` against the key of their units; and the executable group
computes 2⁻¹ = 18, 2^(−3) = 22 there -/
example : (∃ u : Zn.U 35, Zn.Rel 35 2 u) ∧ (∃ u : Zn.U 35, Zn.Rel 35 9 u) ∧
    (Zn.znOps 35).inv 2 = .ok 18 ∧ (Zn.znOps 35).pow 2 (-3) = .ok 22 := by
  have hinv : Zn.modInv 2 35 = .ok 18 := by
    obtain ⟨x, hx⟩ := Zn.modInv_complete (a := 2) (n := 35) (by norm_num) (by decide)
    obtain ⟨_, h0, hn, hm⟩ := Zn.modInv_ok hx
    have : x = 18 := by omega
    rw [hx, this]
  refine ⟨rel_exists 35 (by norm_num) 2 (by norm_num) (by norm_num) (by decide),
    rel_exists 35 (by norm_num) 9 (by norm_num) (by norm_num) (by decide), hinv, ?_⟩
  simp [Zn.znOps, hinv, Zn.modPowNat_eq]


theorem forall₂_rel_unique {N : ℕ} [NeZero N] {l k : List ℤ} {l' : List (Zn.U N)}
    (h1 : List.Forall₂ (Zn.Rel N) l l') (h2 : List.Forall₂ (Zn.Rel N) k l') : l = k := by
  induction h1 generalizing k with
  | nil => cases h2; rfl
  | cons hx _ ih =>
    cases h2 with
    | cons hy hr => rw [Zn.rel_unique hx hy, ih hr]

/-- **the predicate sub-protocol is complete in the executable group**: `ne_complete`
transferred along `zn_refines_units`: prover and verifier both computing with integers modulo
`N`, the six recomputed `τ̂` values are the prover's six integers. -/
theorem ne_complete_executable (N : ℕ) (hN : 1 < N) (m : OvfMode) (fourSq : ℤ → Outcome (List ℤ))
    (pk : PubKey ℤ) (pk' : PubKey (Zn.U N)) (hpk : PKRel (Zn.Rel N) pk pk') (p : Pred)
    (mTilde : List (String × ℤ)) (vals : Values) (tp : NeTape) (eq : EqProof ℤ) (c av mt : ℤ)
    (uf rf utf rtf : String → ℤ)
    (hval : lookup p.attr vals = some av) (hav : C03.I32 av) (hpv : C03.I32 p.value)
    (hholds : p.holds av = true)
    (hfs : ∀ d, getDelta m p av = .ok d →
      fourSq d = .ok (iterKeys.map uf) ∧ (iterKeys.map fun k => uf k ^ 2).sum = d)
    (hmt : lookup p.attr mTilde = some mt)
    (heqm : lookup p.attr eq.m = some (c * av + mt))
    (hr : Maps tp.r (iterKeys ++ ["DELTA"]) rf) (hut : Maps tp.uTilde iterKeys utf)
    (hrt : Maps tp.rTilde (iterKeys ++ ["DELTA"]) rtf)
    (hnn : 0 ≤ rtf "DELTA" ∧ 0 ≤ c * rf "DELTA" + rtf "DELTA") :
    ∃ init prf, initNeProof (Zn.znOps N) m fourSq pk mTilde vals p tp = .ok init ∧
      finalizeNeProof c init eq = .ok prf ∧
      verifyNePredicate (Zn.znOps N) m pk prf c = .ok init.tauList := by
  have : NeZero N := ⟨by omega⟩
  have ho := Zn.znOps_refines hN
  let eq' : EqProof (Zn.U N) := ⟨eq.revealed, 0, eq.e, eq.v, eq.m, eq.m2⟩
  obtain ⟨init', prf', h1, h2, h3, _, _⟩ := ne_complete (Zn.encU N) m fourSq pk' p mTilde vals tp eq'
    c av mt uf rf utf rtf hval hav hpv hholds hfs hmt heqm hr hut hrt hnn
  have r1 := initNeProof_rel ho m fourSq hpk mTilde vals p tp
  rw [h1] at r1
  cases hi : initNeProof (Zn.znOps N) m fourSq pk mTilde vals p tp with
  | ok init =>
    rw [hi] at r1
    have hinit : NeInitRel (Zn.Rel N) init init' := r1
    have r2 := finalizeNeProof_rel hinit c (eq := eq) (eq' := eq') rfl
    rw [h2] at r2
    cases hf : finalizeNeProof c init eq with
    | ok prf =>
      rw [hf] at r2
      have hprf : NeRel (Zn.Rel N) prf prf' := r2
      have r3 := verifyNePredicate_rel ho m hpk hprf c
      rw [h3] at r3
      cases hve : verifyNePredicate (Zn.znOps N) m pk prf c with
      | ok l =>
        rw [hve] at r3
        have hl : List.Forall₂ (Zn.Rel N) l init'.tauList := r3
        exact ⟨init, prf, rfl, hf, by rw [hve, forall₂_rel_unique hl hinit.tauList]⟩
      | err => rw [hve] at r3; exact absurd r3 (by simp [ORel])
      | panic => rw [hve] at r3; exact absurd r3 (by simp [ORel])
    | err => rw [hf] at r2; exact absurd r2 (by simp [ORel])
    | panic => rw [hf] at r2; exact absurd r2 (by simp [ORel])
  | err => rw [hi] at r1; exact absurd r1 (by simp [ORel])
  | panic => rw [hi] at r1; exact absurd r1 (by simp [ORel])


/-- **a whole one-credential presentation is complete in the executable group**:
`presentation_complete` transferred along `zn_refines_units`.  The model prover `proveSingle`
(first messages, Fiat–Shamir challenge over the encoded integers, responses) and the model
verifier `verify` (request consistency, common-attribute pass, range check, equality and
predicate recomputation, final hash) are both run with `Zn.znOps N` — Lean integers modulo the
key's modulus, exactly what the driver operations `prove` and `verify` execute in the
correspondence check — and the verifier accepts.  The key and the signature are integers
representing units (`PKRel`, `SigRel`); the CL equation is stated on those units. -/
theorem presentation_complete_executable (N : ℕ) (hN : 1 < N)
    (H : List ByteArray → ℤ) (hH : ∀ bs, 0 ≤ H bs ∧ H bs < 2 ^ 256)
    (m : OvfMode) (pk : PubKey ℤ) (sig : Signature ℤ) (pk' : PubKey (Zn.U N))
    (sig' : Signature (Zn.U N)) (hpk : PKRel (Zn.Rel N) pk pk') (hs : SigRel (Zn.Rel N) sig sig')
    (schema nonSchema : List String)
    (req : SubProofRequest) (pts : List (Pred × NeTape)) (hreq : req.predicates = pts.map (·.1))
    (common : List (String × ℤ)) (rf : String → Zn.U N) (val : String → ℤ) (vals : Values)
    (m2Tilde : ℤ) (tp : EqTape) (nonce : ByteArray) (hasRKey hasRegKey : Bool)
    (hr : Maps pk'.r (unrevealedOf schema nonSchema req.revealed ++ req.revealed) rf)
    (hv : Maps vals (unrevealedOf schema nonSchema req.revealed ++ req.revealed) val)
    (hsig : SigValid pk' sig' rf val (unrevealedOf schema nonSchema req.revealed ++ req.revealed))
    (he : 2 ^ 596 ≤ sig.e ∧ sig.e < 2 ^ 596 + 2 ^ 119) (ht : 0 ≤ tp.eTilde ∧ tp.eTilde < 2 ^ 456)
    (hpreds : ∀ pt ∈ pts, PredOk (unrevealedOf schema nonSchema req.revealed) val pt)
    (hcommon : ∀ a ∈ keys common, a ∈ unrevealedOf schema nonSchema req.revealed) :
    ∃ prf, proveSingle (Zn.znOps N) H m Drv.fourSq common pk sig
        (unrevealedOf schema nonSchema req.revealed) req.revealed pts vals m2Tilde tp nonce = .ok prf ∧
      verify H m (keys common)
        [⟨Zn.znOps N, pk, schema, nonSchema, req, hasRKey, false, hasRegKey⟩] prf nonce = .ok true := by
  have ho := Zn.znOps_refines hN
  rw [hs.e] at he
  obtain ⟨prf', h1, h2⟩ := presentation_complete (Zn.encU N) H hH m pk' sig' schema nonSchema req pts
    hreq common rf val vals m2Tilde tp nonce hasRKey hasRegKey hr hv hsig he ht hpreds hcommon
  have r1 := proveSingle_rel ho H m Drv.fourSq common hpk hs
    (unrevealedOf schema nonSchema req.revealed) req.revealed pts vals m2Tilde tp nonce
  rw [h1] at r1
  cases hp : proveSingle (Zn.znOps N) H m Drv.fourSq common pk sig
      (unrevealedOf schema nonSchema req.revealed) req.revealed pts vals m2Tilde tp nonce with
  | ok prf =>
    rw [hp] at r1
    have hprf : ProofRel (Zn.Rel N) prf prf' := r1
    refine ⟨prf, rfl, ?_⟩
    have hvc : List.Forall₂ (VerCredRel (Zn.Rel N))
        [(⟨Zn.znOps N, pk, schema, nonSchema, req, hasRKey, false, hasRegKey⟩ : VerCred ℤ)]
        [(⟨addOps (Zn.encU N), pk', schema, nonSchema, req, hasRKey, false, hasRegKey⟩ :
          VerCred (Zn.U N))] :=
      List.Forall₂.cons ⟨ho, hpk, rfl, rfl, rfl, rfl, rfl, rfl⟩ List.Forall₂.nil
    rw [verify_rel H m (keys common) hvc hprf nonce]
    exact h2
  | err => rw [hp] at r1; exact absurd r1 (by simp [ORel])
  | panic => rw [hp] at r1; exact absurd r1 (by simp [ORel])

/-- **the verifier's verdict on ANY proof does not depend on the representation**: for every
list of credentials over one modulus and every proof document (honest or forged) whose group
elements are units, `verify` run with integers modulo `N` and `verify` run in the proof group
return the same outcome — so every rejection theorem proved over `addOps` (C02, C03, C10, C11)
speaks about what the driver executes. -/
theorem executable_verifier_verdict_refines (N : ℕ) (H : List ByteArray → ℤ) (m : OvfMode)
    (common : List String) (vs : List (VerCred ℤ)) (vs' : List (VerCred (Zn.U N)))
    (hvs : List.Forall₂ (VerCredRel (Zn.Rel N)) vs vs') (p : Proof ℤ) (p' : Proof (Zn.U N))
    (hp : ProofRel (Zn.Rel N) p p') (nonce : ByteArray) :
    verify H m common vs p nonce = verify H m common vs' p' nonce :=
  verify_rel H m common hvs hp nonce


/-- non-vacuity of the `*_executable` theorems' premises: the integer key `S = 2`, `Z = 3`,
`Rctxt = 4`, `R_a = 9`, `R_b = 11` modulo 35 and the signature element `A = 8` represent a key
and a signature over `Additive (ZMod 35)ˣ` -/
example : ∃ (pk' : PubKey (Zn.U 35)) (sig' : Signature (Zn.U 35)),
    PKRel (Zn.Rel 35) ⟨2, 3, 4, [("a", 9), ("b", 11)]⟩ pk' ∧
    SigRel (Zn.Rel 35) ⟨5, 8, 7, 6⟩ sig' := by
  have h : ∀ x : ℤ, 0 ≤ x → x < 35 → Int.gcd x 35 = 1 → ∃ u : Zn.U 35, Zn.Rel 35 x u :=
    fun x h0 hn hc => rel_exists 35 (by norm_num) x h0 (by exact_mod_cast hn) hc
  obtain ⟨s, hs⟩ := h 2 (by norm_num) (by norm_num) (by decide)
  obtain ⟨z, hz⟩ := h 3 (by norm_num) (by norm_num) (by decide)
  obtain ⟨rc, hrc⟩ := h 4 (by norm_num) (by norm_num) (by decide)
  obtain ⟨ra, hra⟩ := h 9 (by norm_num) (by norm_num) (by decide)
  obtain ⟨rb, hrb⟩ := h 11 (by norm_num) (by norm_num) (by decide)
  obtain ⟨a, ha⟩ := h 8 (by norm_num) (by norm_num) (by decide)
  exact ⟨⟨s, z, rc, [("a", ra), ("b", rb)]⟩, ⟨5, a, 7, 6⟩,
    ⟨hs, hz, hrc, List.Forall₂.cons ⟨rfl, hra⟩ (List.Forall₂.cons ⟨rfl, hrb⟩ List.Forall₂.nil)⟩,
    ⟨rfl, ha, rfl, rfl⟩⟩


/-- **a presentation over several credentials of one modulus is complete in the executable
group** (e.g. several credentials issued under one credential definition):
`multi_presentation_complete` transferred along `zn_refines_units` — `proveMulti` and `verify`
both run with integers modulo `N`, one Fiat–Shamir challenge over all sub-proofs, common
attributes with one value across the credentials. -/
theorem multi_presentation_complete_executable (N : ℕ)
    (H : List ByteArray → ℤ) (hH : ∀ bs, 0 ≤ H bs ∧ H bs < 2 ^ 256)
    (m : OvfMode) (common : List (String × ℤ)) (V : String → ℤ)
    (cvs : List (CredIn ℤ × VerCred ℤ)) (cvs' : List (CredIn (Zn.U N) × VerCred (Zn.U N)))
    (hrel : List.Forall₂ (fun x y => CredInRel (Zn.Rel N) x.1 y.1 ∧ VerCredRel (Zn.Rel N) x.2 y.2)
      cvs cvs')
    (hok : ∀ cv ∈ cvs', CredOk (Zn.encU N) common V cv.1 cv.2) (nonce : ByteArray) :
    ∃ prf, proveMulti H m Drv.fourSq common (cvs.map (·.1)) nonce = .ok prf ∧
      verify H m (keys common) (cvs.map (·.2)) prf nonce = .ok true := by
  obtain ⟨prf', h1, h2⟩ := multi_presentation_complete (Zn.encU N) H hH m common V cvs' hok nonce
  have hc : List.Forall₂ (CredInRel (Zn.Rel N)) (cvs.map (·.1)) (cvs'.map (·.1)) := by
    clear hok h1 h2
    induction hrel with
    | nil => exact List.Forall₂.nil
    | cons hx _ ih => exact List.Forall₂.cons hx.1 ih
  have hv : List.Forall₂ (VerCredRel (Zn.Rel N)) (cvs.map (·.2)) (cvs'.map (·.2)) := by
    clear hok h1 h2 hc
    induction hrel with
    | nil => exact List.Forall₂.nil
    | cons hx _ ih => exact List.Forall₂.cons hx.2 ih
  have r1 := proveMulti_rel H m Drv.fourSq common hc nonce
  rw [h1] at r1
  cases hp : proveMulti H m Drv.fourSq common (cvs.map (·.1)) nonce with
  | ok prf =>
    rw [hp] at r1
    have hprf : ProofRel (Zn.Rel N) prf prf' := r1
    exact ⟨prf, rfl, by rw [verify_rel H m (keys common) hv hprf nonce]; exact h2⟩
  | err => rw [hp] at r1; exact absurd r1 (by simp [ORel])
  | panic => rw [hp] at r1; exact absurd r1 (by simp [ORel])


/-- **a presentation that also carries a non-revocation part is complete in the executable
group**, given the pairing side: `presentation_with_nonrevoc_complete` transferred along
`zn_refines_units` (`proveSingleWith` — what the driver's `prove_nr` runs — and `verify`, both
with integers modulo `N`). -/
theorem presentation_with_nonrevoc_complete_executable (N : ℕ) (hN : 1 < N)
    (H : List ByteArray → ℤ) (hH : ∀ bs, 0 ≤ H bs ∧ H bs < 2 ^ 256)
    (m : OvfMode) (pk : PubKey ℤ) (sig : Signature ℤ) (pk' : PubKey (Zn.U N))
    (sig' : Signature (Zn.U N)) (hpk : PKRel (Zn.Rel N) pk pk') (hs : SigRel (Zn.Rel N) sig sig')
    (schema nonSchema : List String)
    (req : SubProofRequest) (pts : List (Pred × NeTape)) (hreq : req.predicates = pts.map (·.1))
    (common : List (String × ℤ)) (rf : String → Zn.U N) (val : String → ℤ) (vals : Values)
    (m2Tilde : ℤ) (tp : EqTape) (nonce : ByteArray) (nrT nrC : List ByteArray) (hnr : nrT ≠ [])
    (hr : Maps pk'.r (unrevealedOf schema nonSchema req.revealed ++ req.revealed) rf)
    (hv : Maps vals (unrevealedOf schema nonSchema req.revealed ++ req.revealed) val)
    (hsig : SigValid pk' sig' rf val (unrevealedOf schema nonSchema req.revealed ++ req.revealed))
    (he : 2 ^ 596 ≤ sig.e ∧ sig.e < 2 ^ 596 + 2 ^ 119) (ht : 0 ≤ tp.eTilde ∧ tp.eTilde < 2 ^ 456)
    (hpreds : ∀ pt ∈ pts, PredOk (unrevealedOf schema nonSchema req.revealed) val pt)
    (hcommon : ∀ a ∈ keys common, a ∈ unrevealedOf schema nonSchema req.revealed) :
    ∃ prf sp, proveSingleWith (Zn.znOps N) H m Drv.fourSq common pk sig
        (unrevealedOf schema nonSchema req.revealed) req.revealed pts vals m2Tilde tp nonce nrT nrC
          = .ok prf ∧ prf.proofs = [sp] ∧ sp.hasNonRevoc = true ∧
      verify H m (keys common)
        [⟨Zn.znOps N, pk, schema, nonSchema, req, true, true, true⟩]
        { prf with proofs := [{ sp with nrTaus := .ok (nrT.map Item.bytes) }] } nonce = .ok true := by
  have ho := Zn.znOps_refines hN
  rw [hs.e] at he
  obtain ⟨prf', sp', h1, h2, h3, h4⟩ := presentation_with_nonrevoc_complete (Zn.encU N) H hH m pk' sig'
    schema nonSchema req pts hreq common rf val vals m2Tilde tp nonce nrT nrC hnr hr hv hsig he ht
    hpreds hcommon
  have r1 := proveSingleWith_rel ho H m Drv.fourSq common hpk hs
    (unrevealedOf schema nonSchema req.revealed) req.revealed pts vals m2Tilde tp nonce nrT nrC
  rw [h1] at r1
  cases hp : proveSingleWith (Zn.znOps N) H m Drv.fourSq common pk sig
      (unrevealedOf schema nonSchema req.revealed) req.revealed pts vals m2Tilde tp nonce nrT nrC with
  | ok prf =>
    rw [hp] at r1
    have hprf : ProofRel (Zn.Rel N) prf prf' := r1
    have hps := hprf.proofs
    rw [h2] at hps
    generalize hq : prf.proofs = ps at hps
    cases hps with
    | @cons sp _ l _ hsp hl =>
      cases hl
      refine ⟨prf, sp, rfl, hq, by rw [hsp.hasNonRevoc]; exact h3, ?_⟩
      have hvc : List.Forall₂ (VerCredRel (Zn.Rel N))
          [(⟨Zn.znOps N, pk, schema, nonSchema, req, true, true, true⟩ : VerCred ℤ)]
          [(⟨addOps (Zn.encU N), pk', schema, nonSchema, req, true, true, true⟩ : VerCred (Zn.U N))] :=
        List.Forall₂.cons ⟨ho, hpk, rfl, rfl, rfl, rfl, rfl, rfl⟩ List.Forall₂.nil
      have hp2 : ProofRel (Zn.Rel N)
          { prf with proofs := [{ sp with nrTaus := .ok (nrT.map Item.bytes) }] }
          { prf' with proofs := [{ sp' with nrTaus := .ok (nrT.map Item.bytes) }] } :=
        ⟨List.Forall₂.cons ⟨hsp.eq, hsp.ne, hsp.hasNonRevoc, rfl⟩ List.Forall₂.nil, hprf.cHash, hprf.cList⟩
      rw [verify_rel H m (keys common) hvc hp2 nonce]
      exact h4
  | err => rw [hp] at r1; exact absurd r1 (by simp [ORel])
  | panic => rw [hp] at r1; exact absurd r1 (by simp [ORel])

end ZnRefinement

end CL.C01
