import CLModel.Model.Registry
namespace CL.C14
end CL.C14
