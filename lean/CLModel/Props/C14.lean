import CLModel.Proofs.Registry
/-!
# C14 — Tails are correct and the secret tail is never published

Model: `Reg.TailsGen` (`RevocationTailsGenerator`) in exponent form; `size = 2L+1` and the
suppressed position `(size/2)+1` are the u32 expressions regenerated from
`/repo/src/types.rs` (`Gen.tailsSizeExpr`, `Gen.suppressedIndexExpr`).
All theorems: every commutative ring `F`, every `γ`, every `L` with `2L+1 < 2^32`, both
overflow modes.
-/
namespace CL.C14
open CL CL.Reg

variable {F : Type} [CommRing F]

/-- registry sizes for which `2 * max_cred_num + 1` fits a u32 -/
def TailsSizeOk (L : ℕ) : Prop := 2 * L + 1 < 4294967296

theorem tailsSize_spec (m : OvfMode) (L : ℕ) (hL : TailsSizeOk L) :
    tailsSize m L = .ok (2 * L + 1) := by
  unfold TailsSizeOk at hL
  unfold tailsSize Gen.tailsSizeExpr
  simp only [IExpr.eval, envGet, binop_mul_ok]
  rw [IntTy.fit_ok (by simp; omega) (by simp; omega)]
  simp only [binop_add_ok]
  rw [IntTy.fit_ok (by simp; omega) (by simp; omega)]
  simp only [Outcome.map_ok]
  congr 1

/-- **the suppressed position is `L+1`** for every `L` in range (regenerated expression) -/
theorem suppressed_index_is_L_plus_1 (m : OvfMode) (L : ℕ) (hL : TailsSizeOk L) :
    suppressedIndex m (2 * L + 1) = .ok (L + 1) := by
  unfold TailsSizeOk at hL
  unfold suppressedIndex Gen.suppressedIndexExpr
  simp only [IExpr.eval, envGet]
  rw [binop_div_ok _ _ _ _ (by decide)]
  have hd : Int.tdiv ((2 * L + 1 : ℕ) : Int) 2 = (L : Int) := by
    rw [Int.tdiv_eq_ediv_of_nonneg (by omega)]; omega
  rw [hd, IntTy.fit_ok (by simp) (by simp; omega)]
  simp only [binop_add_ok]
  rw [IntTy.fit_ok (by simp; omega) (by simp; omega)]
  simp only [Outcome.map_ok]
  congr 1

/-- what position `k` of the generator must hold: `γ^k`, except `g'` (exponent 1) at `L+1` -/
def expected (γ : F) (L k : ℕ) : F := if k = L + 1 then 1 else γ ^ k

/-- one call of `try_next` in state `idx = k < 2L+1`, `cur = γ^(k-1)` (or `None` for `k = 0`):
    emits `expected k`, moves to `idx = k+1`, `cur = γ^k`. -/
theorem tryNext_step (γ : F) (m : OvfMode) (L k : ℕ) (hL : TailsSizeOk L) (hk : k < 2 * L + 1) :
    TailsGen.tryNext ringOps γ m
        (⟨2 * L + 1, k, if k = 0 then none else some (γ ^ (k - 1))⟩ : TailsGen F)
      = .ok (⟨2 * L + 1, k + 1, some (γ ^ k)⟩, some (expected γ L k)) := by
  have hge : ¬ (k ≥ 2 * L + 1) := by omega
  simp only [TailsGen.tryNext, hge, if_false, suppressed_index_is_L_plus_1 m L hL, Outcome.map_ok]
  by_cases h0 : k = 0
  · subst h0
    simp [expected]
  · have hcur : (γ ^ (k - 1)) * γ = γ ^ k := by
      rw [← pow_succ]; congr 1; omega
    simp only [h0, if_false, ringOps_mul, ringOps_one, hcur, expected]
    by_cases hs : k = L + 1
    · simp [hs]
    · have : (k == L + 1) = false := by simpa using hs
      simp [this, hs]

/-- after the last tail the generator answers `None` and stays where it is -/
theorem tryNext_exhausted (γ : F) (m : OvfMode) (g : TailsGen F) (h : g.idx ≥ g.size) :
    g.tryNext ringOps γ m = .ok (g, none) := by
  simp [TailsGen.tryNext, h]

/-- state of the generator after `k` calls -/
def stateAfter (γ : F) (L k : ℕ) : TailsGen F :=
  ⟨2 * L + 1, k, if k = 0 then none else some (γ ^ (k - 1))⟩

theorem drain_step (γ : F) (m : OvfMode) (n : ℕ) (g g' : TailsGen F) (t : F) (acc : List F)
    (h : g.tryNext ringOps γ m = .ok (g', some t)) :
    TailsGen.drain ringOps γ m (n + 1) g acc = TailsGen.drain ringOps γ m n g' (t :: acc) := by
  rw [TailsGen.drain, h]

theorem drain_done (γ : F) (m : OvfMode) (n : ℕ) (g g' : TailsGen F) (acc : List F)
    (h : g.tryNext ringOps γ m = .ok (g', none)) :
    TailsGen.drain ringOps γ m (n + 1) g acc = .ok acc.reverse := by
  rw [TailsGen.drain, h]

theorem stateAfter_succ (γ : F) (L k : ℕ) :
    (⟨2 * L + 1, k + 1, some (γ ^ k)⟩ : TailsGen F) = stateAfter γ L (k + 1) := by
  simp [stateAfter]

/-- draining from the state after `k` calls with fuel `n + e`, `k + n = 2L+1`, `e ≥ 1`:
    exactly the `n` remaining tails, then `None`. -/
theorem drain_spec (γ : F) (m : OvfMode) (L : ℕ) (hL : TailsSizeOk L) (e : ℕ) :
    ∀ (n k : ℕ) (acc : List F), k + n = 2 * L + 1 →
      TailsGen.drain ringOps γ m (n + (e + 1)) (stateAfter γ L k) acc
        = .ok (acc.reverse ++ (List.range' k n).map (expected γ L)) := by
  intro n
  induction n with
  | zero =>
    intro k acc hk
    have hex : (stateAfter γ L k : TailsGen F).idx ≥ (stateAfter γ L k : TailsGen F).size := by
      simp [stateAfter]; omega
    have : 0 + (e + 1) = e + 1 := by omega
    rw [this, drain_done γ m e _ _ acc (tryNext_exhausted γ m _ hex)]
    simp
  | succ n ih =>
    intro k acc hk
    have hk' : k < 2 * L + 1 := by omega
    have : n + 1 + (e + 1) = (n + (e + 1)) + 1 := by omega
    rw [this]
    have hstep := tryNext_step γ m L k hL hk'
    rw [stateAfter_succ] at hstep
    rw [drain_step γ m _ (stateAfter γ L k) _ _ acc hstep, ih (k + 1) _ (by omega)]
    simp [List.range'_succ]

/-- **the generator yields exactly `2L+1` tails, the `k`-th being `γ^k` for `k ≠ L+1` and
`g'` at `k = L+1`, then `None`** (from a freshly created generator; any larger fuel). -/
theorem tails_sequence (γ : F) (m : OvfMode) (L : ℕ) (hL : TailsSizeOk L) (extra : ℕ) :
    ((TailsGen.new m L : Outcome (TailsGen F)).bind fun g =>
        TailsGen.drain ringOps γ m (2 * L + 1 + (extra + 1)) g [])
      = .ok ((List.range (2 * L + 1)).map (expected γ L)) := by
  simp only [TailsGen.new, tailsSize_spec m L hL, Outcome.map_ok, Outcome.bind_ok]
  have h0 : (⟨2 * L + 1, 0, none⟩ : TailsGen F) = stateAfter γ L 0 := by simp [stateAfter]
  rw [h0, drain_spec γ m L hL extra (2 * L + 1) 0 [] (by omega)]
  simp [List.range_eq_range']

/-- **count is consistent**: before the `k`-th call (`k ≤ 2L+1`) `count()` is `2L+1-k` -/
theorem count_consistent (γ : F) (L k : ℕ) :
    (stateAfter γ L k).count = 2 * L + 1 - k := rfl

/-- **the secret tail is never emitted**: if `γ ≠ 0` … precisely, if `γ^d ≠ 1` for
`1 ≤ d ≤ L+1` and `γ` is not a zero divisor-free obstacle (`F` a domain is not needed:
we only use cancellation by a power of `γ`, stated as the hypothesis `hcancel`), no emitted
position equals `γ^(L+1)`. In the BN254 exponent field (`F = ZMod r`, `r` prime) `hcancel`
holds for every `γ ≠ 0`; the harness evaluates both hypotheses on every generated key. -/
theorem secret_never_emitted (γ : F) (L k : ℕ) (hk : k < 2 * L + 1)
    (hord : ∀ d, 1 ≤ d → d ≤ L + 1 → γ ^ d ≠ 1)
    (hcancel : ∀ a b : ℕ, γ ^ (a + b) = γ ^ a → γ ^ b = 1) :
    expected γ L k ≠ γ ^ (L + 1) := by
  unfold expected
  by_cases hs : k = L + 1
  · simp only [hs, if_true]
    exact fun h => hord (L + 1) (by omega) (le_refl _) h.symm
  · simp only [hs, if_false]
    intro h
    rcases Nat.lt_or_gt_of_ne hs with hlt | hgt
    · -- γ^k = γ^(k + (L+1-k))  ⇒  γ^(L+1-k) = 1
      have e : L + 1 = k + (L + 1 - k) := by omega
      rw [e] at h
      exact hord (L + 1 - k) (by omega) (by omega) (hcancel k (L + 1 - k) h.symm)
    · have e : k = (L + 1) + (k - (L + 1)) := by omega
      rw [e] at h
      exact hord (k - (L + 1)) (by omega) (by omega) (hcancel (L + 1) (k - (L + 1)) h)

/-- `hcancel` holds in every field for `γ ≠ 0` -/
theorem cancel_of_field {K : Type} [Field K] (γ : K) (hγ : γ ≠ 0) (a b : ℕ)
    (h : γ ^ (a + b) = γ ^ a) : γ ^ b = 1 := by
  rw [pow_add] at h
  have ha : γ ^ a ≠ 0 := pow_ne_zero a hγ
  have : γ ^ a * γ ^ b = γ ^ a * 1 := by rw [h, mul_one]
  exact mul_left_cancel₀ ha this

/-- **deterministic**: the sequence is a function of `(L, γ)` (and `g'`, the unit of the
exponent representation) only — two generators created for the same keys agree. -/
theorem generator_deterministic (γ : F) (m m' : OvfMode) (L : ℕ) (hL : TailsSizeOk L) (e e' : ℕ) :
    ((TailsGen.new m L : Outcome (TailsGen F)).bind fun g =>
        TailsGen.drain ringOps γ m (2 * L + 1 + (e + 1)) g [])
    = ((TailsGen.new m' L : Outcome (TailsGen F)).bind fun g =>
        TailsGen.drain ringOps γ m' (2 * L + 1 + (e' + 1)) g []) := by
  rw [tails_sequence γ m L hL e, tails_sequence γ m' L hL e']

/-! non-vacuity -/
example : TailsSizeOk 10000 := by unfold TailsSizeOk; omega
example : expected (2 : ℚ) 2 3 = 1 ∧ expected (2 : ℚ) 2 4 = 16 := by
  constructor
  · simp [expected]
  · simp [expected]; norm_num

end CL.C14
