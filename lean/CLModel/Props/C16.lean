import CLModel.Proofs.Codec
/-!
# C16 — Decoding accepts only canonical members of the intended group or set

Per primitive two decoders (`Model/Codec.lean`, `Model/Curve.lean`): `impl*` mirrors the code
path of the repository, `spec*` is the property.  This file proves

* `*_spec_sound`   — what the specification accepts is a member (shape, range, curve equation,
                     `r•P = O`, identity only where allowed, `g^r = 1`) and
  `*_spec_reencode` — every member's encoding is accepted with that value;
* `*_impl_refines_spec` — where the implementation has the property: integers from text (both
  back-ends, decimal and hexadecimal, every string), integers from bytes, scalars from text and
  from bytes;
* where it does not (points and pairing values) a **witness theorem** with the concrete input —
  the machine-checked description of the known findings — and a `_partial` theorem with the
  excluded inputs as hypotheses.

The curve-level predicates (`onCurveAff`, `inSubgroup`, `F12.pow`) are the executable arithmetic
of `Model/Curve.lean`; that this arithmetic is the group law of BN254 is NOT proved here — it is
validated against the `amcl` crate by the correspondence streams.
-/
namespace CL.C16
open CL.Outcome CL.Codec CL.Curve

/-! ## integers -/

/-- **`impl_refines_spec` for integers from text, as an equality**: `BigNumber::from_dec` and
`from_hex` of both back-ends accept a string iff it is in its entirety a numeral (`-?[0-9]+`,
`-?[0-9a-fA-F]+`), with the numeral's value, and refuse everything else with `Err` -/
theorem int_text_impl_eq_spec (b : Backend) (s : BN.Text) :
    implBnText b 10 s = specBnText 10 s ∧ implBnText b 16 s = specBnText 16 s :=
  ⟨implBnText_eq_spec b 10 (Or.inl rfl) s, implBnText_eq_spec b 16 (Or.inr rfl) s⟩

theorem int_text_impl_refines_spec (b : Backend) (s : BN.Text) (v : ℤ) :
    (implBnText b 10 s = ok v → specBnText 10 s = ok v) ∧ (implBnText b 16 s = ok v → specBnText 16 s = ok v) := by
  obtain ⟨h1, h2⟩ := int_text_impl_eq_spec b s
  exact ⟨fun h => h1 ▸ h, fun h => h2 ▸ h⟩

/-- no string makes the integer decoders panic (the NUL character that made the `openssl` crate
panic is refused by `is_numeral` first) -/
theorem int_text_never_panics (b : Backend) (s : BN.Text) :
    implBnText b 10 s ≠ panic ∧ implBnText b 16 s ≠ panic := by
  obtain ⟨h1, h2⟩ := int_text_impl_eq_spec b s
  exact ⟨h1 ▸ specBnText_not_panic 10 s, h2 ▸ specBnText_not_panic 16 s⟩

/-- `spec_sound`: what the specification reads is a numeral of the grammar -/
theorem int_spec_sound (radix : ℕ) (s : BN.Text) (v : ℤ) (h : specBnText radix s = ok v) :
    BN.isNumeral radix s = true := by
  cases hn : BN.isNumeral radix s with
  | true => rfl
  | false =>
    have := (BN.Spec.parseNumeral_isNumeral radix s).2 hn
    unfold specBnText at h
    rw [this] at h; simp at h

/-- `spec_reencode`: the decimal text of every integer is read with that value -/
theorem int_spec_reencode (z : ℤ) : specBnText 10 (bnDecEncode z) = ok z :=
  BN.Spec.parseNumeral_print 10 (Or.inl rfl) z

/-- regression witnesses of the repaired defects (`"5x"`, `"+5"`, `"1_000"`, `"0x10"`, the empty
string and a NUL character are refused by both back-ends) -/
theorem dec_garbage_refused :
    implBnText .openssl 10 "5x".toList = err ∧ implBnText .rust 10 "+5".toList = err ∧
    implBnText .rust 10 "1_000".toList = err ∧ implBnText .openssl 10 "0x10".toList = err ∧
    implBnText .openssl 10 [] = err ∧ implBnText .openssl 10 ['5', Char.ofNat 0] = err ∧
    implBnText .openssl 10 "-007".toList = ok (-7) := by decide

/-- integers from bytes: every byte string denotes a natural number; implementation and
specification coincide -/
theorem int_bytes_impl_eq_spec (bs : BN.Bytes) : implBnBytes bs = specBnBytes bs := rfl

/-! ## scalars -/

/-- the scalar decoders of the repository ARE the specification (hexadecimal digits only, 1..71
of them, value reduced modulo `r`; at most 32 bytes, reduced) -/
theorem scalar_impl_eq_spec (s : String) (bs : List UInt8) :
    implScText s = specScText s ∧ implScBytes bs = specScBytes bs := ⟨rfl, rfl⟩

/-- `spec_sound` for scalar text: an accepted string is non-empty, at most 71 characters, every
character a hexadecimal digit, and the value is the string's value modulo `r` (hence `< r`) -/
theorem scalar_text_spec_sound (s : String) (v : ℕ) (h : specScText s = ok v) :
    s.toList ≠ [] ∧ s.toList.length ≤ 71 ∧
    ∃ w, Sc.hexVal s.toList (some 0) = some w ∧ v = w % Sc.r ∧ v < Sc.r := by
  unfold specScText Sc.fromString at h
  cases hc : s.toList with
  | nil => rw [hc] at h; simp at h
  | cons c cs =>
    rw [hc] at h
    simp only at h
    cases hv : Sc.hexVal (c :: cs) (some 0) with
    | none => rw [hv] at h; simp at h
    | some w =>
      rw [hv] at h
      simp only at h
      split_ifs at h with hl
      injection h with h
      exact ⟨by simp, by omega, w, rfl, h.symm, h ▸ Nat.mod_lt _ Sc.r_pos⟩

/-- `spec_reencode` for scalars: the 64-digit text of every `x < r` is accepted with value `x` -/
theorem scalar_spec_reencode (x : ℕ) (h : x < Sc.r) : specScText (Sc.toHex x) = ok x :=
  sc_fromString_toHex x h

/-- scalar bytes: accepted iff at most 32 bytes; the value is `< r`; the 32-byte form of `x < r`
is accepted with value `x` -/
theorem scalar_bytes_spec_sound (bs : List UInt8) (v : ℕ) (h : specScBytes bs = ok v) :
    bs.length ≤ 32 ∧ v < Sc.r := by
  unfold specScBytes Sc.fromBytes at h
  by_cases hl : bs.length > 32
  · simp [hl] at h
  · simp only [hl, if_false] at h
    injection h with h
    exact ⟨by omega, h ▸ Nat.mod_lt _ Sc.r_pos⟩

theorem scalar_nonhex_refused :
    implScText "" = err ∧ implScText "xyz" = err ∧ implScText "+5" = err ∧ implScText "-1" = err ∧
    implScText "1f" = ok 31 := by decide

/-! ## points of `E'(Fp2)`: 128-byte form -/

set_option maxRecDepth 100000 in
/-- **`spec_sound`** (bytes, G2): an accepted byte string has exactly 128 bytes; the value is the
identity only for the identity-carrying type and only from the identity's own encoding; an
affine value has coordinates `< p`, satisfies the curve equation and `r•P = O` -/
theorem g2_bytes_spec_sound (allowInf : Bool) (bs : Bytes) (v : AffPt)
    (h : specG2Bytes allowInf bs = .ok v) :
    bs.length = 128 ∧
    (v = .inf → allowInf = true ∧ bs = g2IdBytes) ∧
    (∀ x y, v = .aff x y → x.a < p ∧ x.b < p ∧ y.a < p ∧ y.b < p ∧
      onCurveAff B2 x y = true ∧ inSubgroup B2 (Pt.ofAffine x y) = true) := by
  unfold specG2Bytes at h
  by_cases hl : bs.length ≠ 128
  · simp [hl] at h
  · simp only [hl, if_false] at h
    by_cases hr : beNat (slice bs 0 32) ≥ p ∨ beNat (slice bs 32 32) ≥ p ∨ beNat (slice bs 64 32) ≥ p ∨
        beNat (slice bs 96 32) ≥ p
    · simp [hr] at h
    · simp only [hr, if_false] at h
      by_cases hid : bs = g2IdBytes
      · simp only [hid, if_true] at h
        cases allowInf with
        | false => simp at h
        | true =>
          simp only [if_true] at h
          injection h with h
          subst h
          exact ⟨by omega, fun _ => ⟨rfl, hid⟩, fun x y hv => by cases hv⟩
      · simp only [hid, if_false] at h
        split_ifs at h with hc
        injection h with h
        subst h
        simp only [Bool.and_eq_true] at hc
        refine ⟨by omega, fun hv => (by cases hv), ?_⟩
        intro x y hv
        injection hv with hx hy
        subst hx; subst hy
        refine ⟨?_, ?_, ?_, ?_, hc.1, hc.2⟩ <;> (dsimp only; omega)

set_option maxRecDepth 100000 in
/-- **`impl_refines_spec` for the identity-carrying G2 decoder (`PointG2Inf`, `Accumulator`),
partial**: when `from_bytes_inf` returns an affine point whose encoding had reduced coordinates and
the point is in the order-`r` subgroup, the specification accepts the same value.  EXCLUDED (and
false, see the witnesses below — open findings): identity results (garbage decodes to the
identity), unreduced coordinates, points outside the subgroup. -/
theorem g2inf_bytes_impl_refines_spec_partial (allowInf : Bool) (bs : Bytes) (x y : F2)
    (h : implG2BytesInf bs = .ok (.aff x y))
    (hred : beNat (slice bs 0 32) < p ∧ beNat (slice bs 32 32) < p ∧ beNat (slice bs 64 32) < p ∧
      beNat (slice bs 96 32) < p)
    (hsub : inSubgroup B2 (Pt.ofAffine x y) = true) (hid : bs ≠ g2IdBytes) :
    specG2Bytes allowInf bs = .ok (.aff x y) := by
  unfold implG2BytesInf at h
  by_cases hl : bs.length ≠ 128
  · simp [hl] at h
  · simp only [hl, if_false] at h
    obtain ⟨h0, h1, h2, h3⟩ := hred
    rw [Nat.mod_eq_of_lt h0, Nat.mod_eq_of_lt h1, Nat.mod_eq_of_lt h2, Nat.mod_eq_of_lt h3] at h
    split_ifs at h with hc
    · obtain ⟨hx, hy⟩ := AffPt.aff.inj (Res.ok.inj h)
      unfold specG2Bytes
      have hr : ¬ (beNat (slice bs 0 32) ≥ p ∨ beNat (slice bs 32 32) ≥ p ∨ beNat (slice bs 64 32) ≥ p ∨
          beNat (slice bs 96 32) ≥ p) := by omega
      simp only [hl, if_false, hr, hid]
      rw [hx, hy]
      rw [hx, hy] at hc
      simp [hc, hsub]
    · cases h

set_option maxRecDepth 100000 in
/-- what `from_bytes_inf` returns as an affine point has reduced coordinates on the curve -/
theorem implG2BytesInf_aff (bs : Bytes) (x y : F2) (h : implG2BytesInf bs = .ok (.aff x y)) :
    x.a < p ∧ x.b < p ∧ y.a < p ∧ y.b < p ∧ onCurveAff B2 x y = true := by
  have hp : 0 < p := by decide
  unfold implG2BytesInf at h
  dsimp only at h
  split_ifs at h with hl hc
  · obtain ⟨hx, hy⟩ := AffPt.aff.inj (Res.ok.inj h)
    subst hx; subst hy
    exact ⟨Nat.mod_lt _ hp, Nat.mod_lt _ hp, Nat.mod_lt _ hp, Nat.mod_lt _ hp, hc⟩
  · cases Res.ok.inj h

set_option maxRecDepth 100000 in
/-- **`impl_refines_spec` for `PointG2::from_bytes` (`Tail`, keys, proofs), partial**: whatever the
strict decoder accepts is accepted by the specification with the same value, PROVIDED the point is
in the order-`r` subgroup — the only excluded inputs are the on-curve points outside the subgroup
(open finding `C16/g2_subgroup_unchecked`, witness `g2_nonsubgroup_accepted`).  Garbage, the
identity and unreduced coordinates are refused (`8bb8be0`). -/
theorem g2_bytes_impl_refines_spec_partial (allowInf : Bool) (bs : Bytes) (x y : F2)
    (h : implG2Bytes bs = .ok (.aff x y)) (hsub : inSubgroup B2 (Pt.ofAffine x y) = true) :
    specG2Bytes allowInf bs = .ok (.aff x y) := by
  obtain ⟨hinf, he⟩ := implG2Bytes_ok bs x y h
  obtain ⟨hxa, hxb, hya, hyb, hc⟩ := implG2BytesInf_aff bs x y hinf
  have hred := (g2_round x y hxa hxb hya hyb hc).2
  rw [he] at hred
  have hid : bs ≠ g2IdBytes := by
    intro e
    rw [e] at hinf
    have : implG2BytesInf g2IdBytes = .ok .inf := by decide +kernel
    rw [this] at hinf
    cases Res.ok.inj hinf
  exact g2inf_bytes_impl_refines_spec_partial allowInf bs x y hinf hred hsub hid

/-- the decoders of points never panic in the model (they have no panicking branch; on the real
code this is observed by the stream `dec`) -/
theorem point_bytes_never_panic (bs : Bytes) :
    implG2BytesInf bs ≠ .panic ∧ implG2Bytes bs ≠ .panic ∧ implG1Bytes bs ≠ .panic ∧
    implPairBytes bs ≠ .panic := by
  have h2 : implG2BytesInf bs ≠ .panic := by
    intro h; unfold implG2BytesInf at h; dsimp only at h
    split_ifs at h <;> exact Res.noConfusion h
  have h1 : amclG1FromBytes bs ≠ .panic := by
    intro h; unfold amclG1FromBytes at h; dsimp only at h
    split_ifs at h <;> exact Res.noConfusion h
  refine ⟨h2, ?_, ?_, ?_⟩
  · intro h; unfold implG2Bytes at h
    cases hi : implG2BytesInf bs with
    | ok v => rw [hi] at h; cases v <;> simp at h <;> split_ifs at h
    | err => rw [hi] at h; simp at h
    | panic => exact h2 hi
    | dep => rw [hi] at h; simp at h
  · intro h; unfold implG1Bytes at h
    cases hi : amclG1FromBytes bs with
    | ok v => rw [hi] at h; cases v <;> simp at h <;> split_ifs at h
    | err => rw [hi] at h; simp at h
    | panic => exact h1 hi
    | dep => rw [hi] at h; simp at h
  · intro h; unfold implPairBytes at h
    split_ifs at h <;> exact Res.noConfusion h

/-! ### witnesses: where `impl_refines_spec` is false on the current tree, and regression
witnesses of the repaired defects -/

/-- an on-curve point of the twist that was NOT multiplied by the cofactor (made with amcl) -/
def nsX : F2 := ⟨12214187476470319728671463654900646951684427820737398340746762120969327979992,
  14978703254077787510501997220206000319055359354888319862502512115579773887370⟩
def nsY : F2 := ⟨570642313185843666250400463536005809913251430041897960506508162675089900007,
  6823953241352100859322530734992916439959569698901886965106508844282730553189⟩

set_option maxRecDepth 100000 in
/-- **open finding `C16/g2_subgroup_unchecked`**: the point `(nsX, nsY)` satisfies the twist equation, is
not in the subgroup of order `r` (`r•P ≠ O`), and its 128-byte encoding is ACCEPTED by
`PointG2::from_bytes` / `PointG2Inf::from_bytes` while the specification refuses it -/
theorem g2_nonsubgroup_accepted :
    onCurveAff B2 nsX nsY = true ∧ inSubgroup B2 (Pt.ofAffine nsX nsY) = false ∧
    implG2Bytes (g2BytesOfAffine nsX nsY) = .ok (.aff nsX nsY) ∧
    implG2BytesInf (g2BytesOfAffine nsX nsY) = .ok (.aff nsX nsY) ∧
    specG2Bytes false (g2BytesOfAffine nsX nsY) = .err ∧
    specG2Bytes true (g2BytesOfAffine nsX nsY) = .err := by decide +kernel

set_option maxRecDepth 100000 in
/-- the same point in text form (projective `(x : y : 1)`, Montgomery residues): accepted by
`PointG2::from_string` / `from_string_inf`, refused by the specification -/
theorem g2_nonsubgroup_accepted_text :
    (implG2Text false (g2TextOfAffine nsX nsY)).tag = "ok" ∧ (implG2Text true (g2TextOfAffine nsX nsY)).tag = "ok" ∧
    (specG2Text false (g2TextOfAffine nsX nsY)).tag = "err" ∧ (specG2Text true (g2TextOfAffine nsX nsY)).tag = "err" := by
  decide +kernel

set_option maxRecDepth 100000 in
/-- repaired defect `C16/g2_bytes_invalid_to_identity` (`8bb8be0`): 128 zero bytes — and 128 bytes
`01 02 03 …` — are not on the curve; `PointG2::from_bytes` now REFUSES them (and the identity's own
encoding).  **Open finding `C16/g2inf_bytes_invalid_to_identity`**: the identity-carrying decoder
(`PointG2Inf`, `Accumulator`) still returns the identity for them without an error -/
theorem g2_bytes_garbage :
    implG2Bytes (List.replicate 128 0) = .err ∧ implG2Bytes ((List.range 128).map (· + 1)) = .err ∧
    implG2Bytes g2IdBytes = .err ∧
    implG2BytesInf (List.replicate 128 0) = .ok .inf ∧ specG2Bytes true (List.replicate 128 0) = .err ∧
    implG2BytesInf ((List.range 128).map (· + 1)) = .ok .inf ∧
    specG2Bytes true ((List.range 128).map (· + 1)) = .err := by decide +kernel

set_option maxRecDepth 100000 in
/-- repaired defects `C16/g1_bytes_invalid_to_identity`, `…_compressed_form_accepted`,
`…_padding_ignored` (`8bb8be0`): `PointG1::from_bytes` refuses zero bytes, an off-curve pair, the
identity's own encoding, the compressed form of a point (which amcl's `frombytes` decodes) and a
valid encoding with a non-zero padding byte; the valid encoding itself is accepted -/
theorem g1_bytes_garbage_refused :
    implG1Bytes (List.replicate 128 0) = .err ∧
    implG1Bytes ([4] ++ toBE 32 5 ++ toBE 32 7 ++ List.replicate 63 0) = .err ∧
    implG1Bytes g1IdBytes = .err ∧
    amclG1FromBytes ([2] ++ toBE 32 (p - 1) ++ List.replicate 95 0) = .ok (.aff ⟨p - 1, 0⟩ ⟨p - 1, 0⟩) ∧
    implG1Bytes ([2] ++ toBE 32 (p - 1) ++ List.replicate 95 0) = .err ∧
    implG1Bytes ([4] ++ toBE 32 (p - 1) ++ toBE 32 1 ++ List.replicate 62 0 ++ [9]) = .err ∧
    implG1Bytes (g1BytesOfAffine (p - 1) 1) = .ok (.aff ⟨p - 1, 0⟩ ⟨1, 0⟩) := by decide +kernel

set_option maxRecDepth 100000 in
/-- adding `p` to a coordinate (still `< 2^256`) gives a second spelling of the generator: the
strict decoder refuses it (repaired, `8bb8be0`); **open finding
`C16/g2_bytes_coordinate_not_reduced`**: the identity-carrying decoder accepts it with the same
value -/
theorem g2_bytes_unreduced_coordinate :
    let gx : F2 := ⟨0x061A10BB519EB62FEB8D8C7E8C61EDB6A4648BBB4898BF0D91EE4224C803FB2B, 0x0516AAF9BA737833310AA78C5982AA5B1F4D746BAE3784B70D8C34C1E7D54CF3⟩
    let gy : F2 := ⟨0x021897A06BAF93439A90E096698C822329BD0AE6BDBE09BD19F0E07891CD2B9A, 0x0EBB2B0E7C8B15268F6D4456F5F38D37B09006FFD739C9578A2D1AEC6B3ACE9B⟩
    let bs := toBE 32 (gx.a + p) ++ toBE 32 gx.b ++ toBE 32 gy.a ++ toBE 32 gy.b
    implG2Bytes bs = .err ∧ implG2BytesInf bs = .ok (.aff gx gy) ∧ specG2Bytes true bs = .err ∧
    implG2Bytes (g2BytesOfAffine gx gy) = .ok (.aff gx gy) ∧
    specG2Bytes false (g2BytesOfAffine gx gy) = .ok (.aff gx gy) := by decide +kernel

set_option maxRecDepth 100000 in
/-- repaired defect `C16/identity_smuggled_as_residue_p` (`6165e8b`): the identity written with the
residue `p` (≡ 0) and excess counter 1 in `x` and `z` — which amcl's `is_infinity` does not
recognise — is now recognised: `PointG1::from_string` refuses it like every other spelling of the
identity, the specification agrees, and `from_string_inf` normalises it (for G2 the spelling
lies outside the modelled domain of amcl's `Fp2` arithmetic; the real decoders are observed on it
by the stream `dec`) -/
theorem g1_identity_residue_p_refused :
    (implG1Text false (rawText [⟨1, p⟩, ⟨1, Rm⟩, ⟨1, p⟩])).tag = "err" ∧
    (specG1Text (rawText [⟨1, p⟩, ⟨1, Rm⟩, ⟨1, p⟩])).tag = "err" ∧
    (implG1Text false (rawText [⟨2, p⟩, ⟨1, Rm⟩, ⟨2, p⟩])).tag = "err" ∧
    (implG1Text false (rawText [⟨1, 0⟩, ⟨2, Rm⟩, ⟨1, 0⟩])).tag = "err" ∧
    implG1Text true (rawText [⟨1, p⟩, ⟨1, Rm⟩, ⟨1, p⟩]) = .ok ⟨g1IdRaw⟩ := by
  decide +kernel

set_option maxRecDepth 100000 in
/-- **findings `C16/pair_text_zero_accepted`, `C16/pair_bytes_unvalidated`**: the zero element of
`Fp12` passes `is_valid_pair` (`frob²(0) = frob⁴(0)·0`) and 512 zero bytes are accepted by
`Pair::from_bytes`; zero is not a member (`0^r ≠ 1`) -/
theorem pair_zero_accepted :
    (implPairText (rawText (List.replicate 12 ⟨1, 0⟩))).tag = "ok" ∧
    (specPairText (rawText (List.replicate 12 ⟨1, 0⟩))).tag = "err" ∧
    (implPairBytes (List.replicate 512 0)).tag = "ok" ∧ (specPairBytes (List.replicate 512 0)).tag = "err" := by
  decide +kernel

set_option maxRecDepth 100000 in
/-- regression witnesses of the repaired text-form defects: an index above `FEXCESS` (in particular
above `i32::MAX`, which made amcl panic), the index `0`, a 71-digit residue and a non-hex residue
are refused; the generator's text is accepted by implementation and specification -/
theorem point_text_regressions :
    (implG1Text false "4294967295 01 1 01 1 01".toList).tag = "err" ∧
    (implG1Text false "67108864 01 1 01 1 01".toList).tag = "err" ∧
    (implG1Text false "0 01 1 01 1 01".toList).tag = "err" ∧
    (implG1Text false ("1 ".toList ++ List.replicate 71 '0' ++ " 1 01 1 01".toList)).tag = "err" ∧
    (implG1Text false "1 0g 1 01 1 01".toList).tag = "err" ∧
    (implG1Text false (g1TextOfAffine (p - 1) 1)).tag = "ok" ∧ (specG1Text (g1TextOfAffine (p - 1) 1)).tag = "ok" := by
  decide +kernel

/-! ## `spec_reencode` for G2 bytes -/

/-- **`spec_reencode`** (bytes, G2): the encoding of every affine member (coordinates `< p`, on the
curve, `r•P = O`) is accepted with that value, for both types; the identity's encoding is
accepted exactly by the identity-carrying type -/
theorem g2_bytes_spec_reencode (allowInf : Bool) (x y : F2) (hxa : x.a < p) (hxb : x.b < p)
    (hya : y.a < p) (hyb : y.b < p) (hc : onCurveAff B2 x y = true)
    (hs : inSubgroup B2 (Pt.ofAffine x y) = true) (hid : g2BytesOfAffine x y ≠ g2IdBytes) :
    specG2Bytes allowInf (g2BytesOfAffine x y) = .ok (.aff x y) := by
  have himpl := g2_round x y hxa hxb hya hyb hc
  exact g2inf_bytes_impl_refines_spec_partial allowInf _ x y himpl.1 himpl.2 hs hid

set_option maxRecDepth 100000 in
theorem g2_identity_spec : specG2Bytes true g2IdBytes = .ok .inf ∧ specG2Bytes false g2IdBytes = .err := by
  decide +kernel

/-! ## `spec_sound` for the remaining forms -/

set_option maxRecDepth 100000 in
/-- **`spec_sound`** (bytes, G1): exactly 128 bytes, tag `04`, zero padding, coordinates `< p`, on
the curve, `r•P = O`; never the identity -/
theorem g1_bytes_spec_sound (bs : Bytes) (v : AffPt) (h : specG1Bytes bs = .ok v) :
    bs.length = 128 ∧ bs.headD 0 = 4 ∧ slice bs 65 63 = List.replicate 63 0 ∧
    ∃ x y, v = .aff ⟨x, 0⟩ ⟨y, 0⟩ ∧ x < p ∧ y < p ∧ onCurveAff B1 ⟨x, 0⟩ ⟨y, 0⟩ = true ∧
      inSubgroup B1 (Pt.ofAffine ⟨x, 0⟩ ⟨y, 0⟩) = true := by
  unfold specG1Bytes at h
  dsimp only at h
  split_ifs at h with hl hr hc
  · simp only [Bool.and_eq_true] at hc
    have hv := (Res.ok.inj h).symm
    refine ⟨by omega, ?_, ?_, _, _, hv, ?_, ?_, hc.1, hc.2⟩
    · by_contra hne; exact hr (Or.inl hne)
    · by_contra hne; exact hr (Or.inr (Or.inr (Or.inr hne)))
    · by_contra hne; exact hr (Or.inr (Or.inl (by omega)))
    · by_contra hne; exact hr (Or.inr (Or.inr (Or.inl (by omega))))

set_option maxRecDepth 100000 in
/-- **`spec_sound`** (bytes, Pair): exactly 512 bytes and the value has order dividing `r`
(`g^r = 1`, in particular `g ≠ 0`) -/
theorem pair_bytes_spec_sound (bs : Bytes) (g : F12) (h : specPairBytes bs = .ok g) :
    bs.length = 512 ∧ (F12.pow g r).isOne = true := by
  unfold specPairBytes at h
  dsimp only at h
  split_ifs at h with hl hr hc
  have hg := Res.ok.inj h
  exact ⟨by omega, hg ▸ hc⟩

set_option maxRecDepth 100000 in
/-- **`spec_sound`** (text, G1 / G2 / G2Inf): an accepted string consists of exactly the required
number of `index residue` pairs (every index a positive `i32` up to `FEXCESS`, every residue at
most 70 hex digits), and the projective point it denotes is either the identity (`x = z = 0`)
for a type that allows it, or a point on the curve with `r•P = O` -/
theorem point_text_spec_sound (B : F2) (n : ℕ) (ofRaw : List RawFp → Pt) (allowInf : Bool)
    (s : List Char) (t : TextPt) (h : specPointText B n ofRaw allowInf s = .ok t) :
    parseComponents n (splitWs s) = some t.raw ∧ t.raw.all specDomain = true ∧
    (((ofRaw t.raw).z.isZero = true ∧ allowInf = true ∧ (ofRaw t.raw).x.isZero = true) ∨
     ((ofRaw t.raw).z.isZero = false ∧ onCurveProj B (ofRaw t.raw) = true ∧
        inSubgroup B (ofRaw t.raw) = true)) := by
  unfold specPointText at h
  cases hp : parseComponents n (splitWs s) with
  | none => rw [hp] at h; simp at h
  | some cs =>
    rw [hp] at h
    dsimp only at h
    split_ifs at h with hd hz hi hc
    · have ht := Res.ok.inj h
      subst ht
      simp only [Bool.and_eq_true] at hi
      refine ⟨rfl, by simpa using hd, Or.inl ⟨hz, hi.1, hi.2⟩⟩
    · have ht := Res.ok.inj h
      subst ht
      simp only [Bool.and_eq_true] at hc
      refine ⟨rfl, by simpa using hd, Or.inr ⟨by simpa using hz, hc.1, hc.2⟩⟩

end CL.C16
