import CLModel.Model.Curve
namespace CL.C16
end CL.C16
