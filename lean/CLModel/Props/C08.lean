import CLModel.Proofs.Accum
/-!
# C08 — Accumulator equals the set of valid indices over every registry history

Model: `CLModel/Model/Registry.lean` (exponent form), index arithmetic and range guards
regenerated from `/repo/src/issuer.rs`, `/repo/src/types.rs` into `Gen/Index.lean`.
All theorems hold for every commutative ring `F` (hence for the exponent field of the BN254
groups), every `γ`, every registry size with `L + 1 < 2^32`, both overflow modes, and
histories of any length.
-/
namespace CL.C08
open CL CL.Reg Finset

variable {F : Type} [CommRing F]

/-- **accumulator invariant**: along every protocol-respecting history, from a state whose
accumulator is the defining sum over `V`, the accumulator stays the defining sum over the
current valid set. (Induction over the operation list; no bound on its length.) -/
theorem accum_invariant (γ : F) (m : OvfMode) (L : ℕ) (hL : SizeOk L) (byDefault : Bool) :
    ∀ (ops : List Op) (V : Finset ℕ), WfHist L byDefault V ops →
      run ringOps γ m L byDefault (accOf γ L V) ops = .ok (accOf γ L (validAfter V ops)) := by
  intro ops
  induction ops with
  | nil => intro V _; simp [run, validAfter]
  | cons op ops ih =>
    intro V h
    obtain ⟨h1, h2⟩ := h
    have hs := step_invariant γ m L hL byDefault V op h1
    simp only [run, validAfter]
    cases hstep : step ringOps γ m L byDefault (accOf γ L V) op with
    | ok s =>
      rw [hstep] at hs
      simp only [Outcome.map_ok, Outcome.ok.injEq] at hs
      simp only [Outcome.bind_ok, hs]
      exact ih _ h2
    | err => rw [hstep] at hs; simp at hs
    | panic => rw [hstep] at hs; simp at hs

/-- the initial state is the defining sum over the initially valid set (both modes), for every
capacity `L` including 0 (before the repair in /repo `accum_range(1..=0)` was read as the reversed
range `0..=1` and a by-default registry of capacity 0 started at `g'^(1+γ)`; found as the
hypothesis `1 ≤ L` this proof used to need, confirmed on the library with `reg/corpus/9`). -/
theorem initial_state_agrees (γ : F) (L : ℕ) (byDefault : Bool) :
    initialState ringOps γ L byDefault
      = accOf γ L (if byDefault then Icc 1 L else ∅) := by
  cases byDefault with
  | false => simp [initialState, accOf]
  | true =>
    by_cases hL : 1 ≤ L
    · have hpos : decide (L > 0) = true := by simp; omega
      simp only [initialState, Bool.true_and, hpos, if_true, accOf]
      rw [accumRange_spec_le γ 1 L hL]
      -- reflect the index: j ↦ L + 1 - j is an involution of [1, L]
      apply Finset.sum_bij' (fun k _ => L + 1 - k) (fun j _ => L + 1 - j)
      · intro a ha; simp only [mem_Icc] at ha ⊢; omega
      · intro a ha; simp only [mem_Icc] at ha ⊢; omega
      · intro a ha; simp only [mem_Icc] at ha; omega
      · intro a ha; simp only [mem_Icc] at ha; omega
      · intro a ha; simp only [mem_Icc] at ha
        have : L + 1 - (L + 1 - a) = a := by omega
        rw [this]
    · have h0 : L = 0 := by omega
      subst h0
      simp [initialState, accOf]

/-- regression theorem for the repaired `L = 0` case: a by-default registry of capacity 0
starts at the identity (exponent 0), as the empty valid set demands -/
theorem initial_state_L0_by_default (γ : F) : initialState ringOps γ 0 true = 0 := by
  simp [initialState]

/-- from the initial state of either issuance mode -/
theorem accum_invariant_from_initial (γ : F) (m : OvfMode) (L : ℕ) (hL : SizeOk L)
    (byDefault : Bool) (ops : List Op)
    (h : WfHist L byDefault (if byDefault then Icc 1 L else ∅) ops) :
    run ringOps γ m L byDefault (initialState ringOps γ L byDefault) ops
      = .ok (accOf γ L (validAfter (if byDefault then Icc 1 L else ∅) ops)) := by
  rw [initial_state_agrees γ L byDefault]
  exact accum_invariant γ m L hL byDefault ops _ h

/-- **path independence**: two protocol-respecting histories reaching the same valid set
publish the same accumulator. -/
theorem path_independent (γ : F) (m : OvfMode) (L : ℕ) (hL : SizeOk L) (byDefault : Bool)
    (V : Finset ℕ) (ops₁ ops₂ : List Op) (h₁ : WfHist L byDefault V ops₁)
    (h₂ : WfHist L byDefault V ops₂) (hv : validAfter V ops₁ = validAfter V ops₂) :
    run ringOps γ m L byDefault (accOf γ L V) ops₁ = run ringOps γ m L byDefault (accOf γ L V) ops₂ := by
  rw [accum_invariant γ m L hL byDefault ops₁ V h₁, accum_invariant γ m L hL byDefault ops₂ V h₂, hv]

/-! ### the registry built directly for a set -/

theorem insertAsc_mem (x y : ℕ) : ∀ l : List ℕ, y ∈ insertAsc x l ↔ y = x ∨ y ∈ l := by
  intro l
  induction l with
  | nil => simp [insertAsc]
  | cons z zs ih =>
    simp only [insertAsc]
    split
    · simp
    · split
      · next h =>
        have hxz : x = z := by simpa using h
        subst hxz
        simp
      · simp only [List.mem_cons, ih]
        tauto

theorem insertAsc_pairwise (x : ℕ) : ∀ l : List ℕ, l.Pairwise (· < ·) →
    (insertAsc x l).Pairwise (· < ·) := by
  intro l
  induction l with
  | nil => intro _; simp [insertAsc]
  | cons z zs ih =>
    intro h
    have hz := List.pairwise_cons.mp h
    simp only [insertAsc]
    split
    · next hlt =>
      refine List.pairwise_cons.mpr ⟨?_, h⟩
      intro a ha
      simp only [List.mem_cons] at ha
      rcases ha with rfl | ha
      · exact hlt
      · exact lt_trans hlt (hz.1 a ha)
    · split
      · exact h
      · next hnlt hne =>
        have hne' : x ≠ z := by simpa using hne
        refine List.pairwise_cons.mpr ⟨?_, ih hz.2⟩
        intro a ha
        rw [insertAsc_mem] at ha
        rcases ha with rfl | ha
        · omega
        · exact hz.1 a ha

theorem sortAsc_mem (y : ℕ) : ∀ l : List ℕ, y ∈ sortAsc l ↔ y ∈ l := by
  intro l
  induction l with
  | nil => simp [sortAsc]
  | cons z zs ih =>
    have : sortAsc (z :: zs) = insertAsc z (sortAsc zs) := rfl
    rw [this, insertAsc_mem, ih]; simp

theorem sortAsc_pairwise : ∀ l : List ℕ, (sortAsc l).Pairwise (· < ·) := by
  intro l
  induction l with
  | nil => simp [sortAsc]
  | cons z zs ih =>
    have : sortAsc (z :: zs) = insertAsc z (sortAsc zs) := rfl
    rw [this]; exact insertAsc_pairwise z _ ih

theorem mirror_spec (m : OvfMode) (L : ℕ) (hL : SizeOk L) : ∀ l : List ℕ,
    (∀ j ∈ l, InRange L j) → forIssued.mirror m L l = .ok (l.map fun j => L + 1 - j) := by
  intro l
  induction l with
  | nil => intro _; rfl
  | cons j js ih =>
    intro h
    simp only [forIssued.mirror, getIndex_spec m L j (h j (by simp)) hL, Outcome.bind_ok,
      ih (fun x hx => h x (List.mem_cons_of_mem _ hx)), Outcome.map_ok, List.map_cons]

/-- the source maps issued indices to tail positions `L+1-j` (regenerated fact) -/
theorem for_issued_mirrors : Gen.forIssuedMirrors = true := rfl

/-- **`for_issued` agrees**: the registry built directly for a set `V ⊆ [1, L]` (given as the
ascending list a `BTreeSet` iterates) is the defining sum over `V`. -/
theorem for_issued_agrees (γ : F) (m : OvfMode) (L : ℕ) (hL : SizeOk L) (issued : List ℕ)
    (hr : ∀ j ∈ issued, InRange L j) :
    forIssued ringOps γ m L issued = .ok (accOf γ L issued.toFinset) := by
  have h1 : (issued.head? == some 0) = false := by
    cases issued with
    | nil => rfl
    | cons a as =>
      have := (hr a (by simp)).1
      simp only [List.head?_cons, beq_eq_false_iff_ne, ne_eq, Option.some.injEq]
      omega
  have h2 : (issued.getLast?.map fun last => decide (last > L)).getD false = false := by
    cases hl : issued.getLast? with
    | none => rfl
    | some last =>
      have hm : last ∈ issued := List.mem_of_getLast? hl
      have := (hr last hm).2
      simp only [Option.map_some, Option.getD_some, decide_eq_false_iff_not]
      omega
  simp only [forIssued, h1, h2, for_issued_mirrors, Bool.false_eq_true, if_false, if_true,
    mirror_spec m L hL issued hr, Outcome.map_ok]
  congr 1
  rw [accumIndexes_spec γ _ (sortAsc_pairwise _)]
  · have himg : (sortAsc (issued.map fun j => L + 1 - j)).toFinset
        = issued.toFinset.image (fun j => L + 1 - j) := by
      ext y
      simp only [List.mem_toFinset, sortAsc_mem, List.mem_map, mem_image]
    rw [himg, Finset.sum_image]
    · rfl
    · intro a ha b hb hab
      have ha' := hr a (by simpa using ha)
      have hb' := hr b (by simpa using hb)
      unfold InRange at ha' hb'
      simp only at hab
      omega
  · intro x hx
    rw [sortAsc_mem, List.mem_map] at hx
    obtain ⟨j, hj, rfl⟩ := hx
    have := hr j hj
    unfold InRange at this
    omega

/-! ### deltas and rejection -/

/-- **deltas record** the previous accumulator, the new one and exactly the indices changed
(`None` for by-default issuance, which does not touch the accumulator). -/
theorem delta_records (γ : F) (m : OvfMode) (L : ℕ) (byDefault : Bool) (acc : F) (op : Op)
    (s : StepOut F) (h : step ringOps γ m L byDefault acc op = .ok s) :
    match op with
    | .issue i => if byDefault then s.delta = none ∧ s.acc = acc
                  else s.delta = some ⟨some acc, s.acc, [i], []⟩
    | .revoke i => s.delta = some ⟨some acc, s.acc, [], [i]⟩
    | .unrevoke i => s.delta = some ⟨some acc, s.acc, [i], []⟩
    | .update iss rev => s.delta = some ⟨some acc, s.acc, iss, rev⟩ := by
  cases op with
  | issue i =>
    simp only [step, issue] at h
    cases hg : guard Gen.issueGuard m L i with
    | ok b =>
      rw [hg] at h
      cases b with
      | true => simp at h
      | false =>
        simp only [Outcome.guardThen_ok, Bool.false_eq_true, if_false] at h
        cases hi : getIndex m L i with
        | ok k =>
          rw [hi] at h
          cases byDefault with
          | true => simp at h; subst h; simp
          | false => simp at h; subst h; simp
        | err => rw [hi] at h; simp at h
        | panic => rw [hi] at h; simp at h
    | err => rw [hg] at h; simp [Outcome.guardThen] at h
    | panic => rw [hg] at h; simp [Outcome.guardThen] at h
  | revoke i =>
    simp only [step, revoke] at h
    cases hu : updatePow ringOps γ m L [(i, true)] ringOps.zero with
    | ok p => rw [hu] at h; simp at h; subst h; simp
    | err => rw [hu] at h; simp at h
    | panic => rw [hu] at h; simp at h
  | unrevoke i =>
    simp only [step, unrevoke] at h
    cases hu : updatePow ringOps γ m L [(i, false)] ringOps.zero with
    | ok p => rw [hu] at h; simp at h; subst h; simp
    | err => rw [hu] at h; simp at h
    | panic => rw [hu] at h; simp at h
  | update iss rev =>
    simp only [step, update] at h
    cases hu : updatePow ringOps γ m L (iss.map (·, false) ++ rev.map (·, true)) ringOps.zero with
    | ok p => rw [hu] at h; simp at h; subst h; simp
    | err => rw [hu] at h; simp at h
    | panic => rw [hu] at h; simp at h

/-- the indices an operation mentions -/
def opIndices : Op → List ℕ
  | .issue i => [i]
  | .revoke i => [i]
  | .unrevoke i => [i]
  | .update iss rev => iss ++ rev

/-- **out-of-range rejected**: an operation mentioning any index outside `1..=L` — including
0, `L+1`, `L+2`, `u32::MAX` — returns `Err` (never `Ok`, never a panic, in both overflow
modes). `step` is a pure function of the old accumulator, so a rejected call leaves the
registry as it was. -/
theorem out_of_range_rejected (γ : F) (m : OvfMode) (L : ℕ) (hL : SizeOk L) (byDefault : Bool)
    (acc : F) (op : Op) (h : ∃ i ∈ opIndices op, ¬ InRange L i) :
    step ringOps γ m L byDefault acc op = .err := by
  cases op with
  | issue i =>
    obtain ⟨j, hj, hn⟩ := h
    simp only [opIndices, List.mem_singleton] at hj; subst hj
    simp [step, issue, issueGuard_spec, outOfRange_guard_true hn]
  | revoke i =>
    obtain ⟨j, hj, hn⟩ := h
    simp only [opIndices, List.mem_singleton] at hj; subst hj
    simp [step, revoke, updatePow_out_of_range γ m L hL [(j, true)] _ ⟨(j, true), by simp, hn⟩]
  | unrevoke i =>
    obtain ⟨j, hj, hn⟩ := h
    simp only [opIndices, List.mem_singleton] at hj; subst hj
    simp [step, unrevoke, updatePow_out_of_range γ m L hL [(j, false)] _ ⟨(j, false), by simp, hn⟩]
  | update iss rev =>
    obtain ⟨j, hj, hn⟩ := h
    simp only [opIndices, List.mem_append] at hj
    have : ∃ p ∈ iss.map (·, false) ++ rev.map (·, true), ¬ InRange L p.1 := by
      rcases hj with hj | hj
      · exact ⟨(j, false), by simp [hj], hn⟩
      · exact ⟨(j, true), by simp [hj], hn⟩
    simp [step, update, updatePow_out_of_range γ m L hL _ _ this]

/-- `Tail::accum_range` is the defining sum, in either argument order -/
theorem accum_range_spec (γ : F) (a b : ℕ) :
    accumRange ringOps γ a b = ∑ k ∈ Icc (min a b) (max a b), γ ^ k := by
  by_cases h : a ≤ b
  · rw [accumRange_spec_le γ a b h, min_eq_left h, max_eq_right h]
  · have h' : b ≤ a := by omega
    rw [accumRange_swap, accumRange_spec_le γ b a h', min_eq_right h', max_eq_left h']

/-- `Tail::accum_indexes` is the defining sum (the `diff == 1` shortcut and the skipped 0) -/
theorem accum_indexes_spec (γ : F) (l : List ℕ) (hs : l.Pairwise (· < ·)) (hpos : ∀ x ∈ l, 1 ≤ x) :
    accumIndexes ringOps γ l = ∑ j ∈ l.toFinset, γ ^ j :=
  accumIndexes_spec γ l hs hpos

/-! ### non-vacuity: a concrete history meets every hypothesis -/

example : WfHist 3 false ∅ [.issue 2, .issue 3, .revoke 2, .unrevoke 2, .update [1] [3]] := by
  simp [WfHist, WfOp, validStep, InRange]

example : WfHist 2 true (Icc 1 2) [.issue 1, .revoke 1, .unrevoke 1, .update [] [2]] := by
  simp [WfHist, WfOp, validStep, InRange]

example : SizeOk 32 := by unfold SizeOk; omega

end CL.C08
