import CLModel.Model.Registry
import CLModel.Model.Primary
import CLModel.Proofs.NoPanic
/-!
# C20 — Counterparty-controlled input never panics the library

`Outcome.panic` models every way a modelled Rust function can panic (`unwrap`, `[]`
indexing, slice indexing and — in the `checked` overflow mode — u32/i32 arithmetic overflow).
The theorems below say that the model of an entry point never returns `panic`, for EVERY
input: arbitrary indices, arbitrary (unsorted, repeating, out-of-range) lists, arbitrary
accumulators, both overflow modes, any commutative ring as exponent field.

Scope (stated in the evidence): a theorem only for the modelled functions. Serde visitors,
amcl and the big-number back-ends are covered by the fuzz stream `c20` alone — a search.

## Part 1 — revocation registry, witnesses, deltas (model: `Model/Registry.lean`)
-/
namespace CL.C20
open CL CL.Reg

variable {F : Type} [CommRing F]

/-- **registry operations never panic**: `Issuer::sign_credential_with_revoc` (registry part),
`revoke_credential`, `unrevoke_credential`, `update_revocation_registry` on ANY operation —
index 0, `L+1`, `u32::MAX`, repeated or overlapping index lists — in both profiles, for every
registry size with `L + 1 < 2^32`. -/
theorem step_never_panics (γ : F) (m : OvfMode) (L : ℕ) (hL : SizeOk L) (byDefault : Bool)
    (acc : F) (op : Op) : step ringOps γ m L byDefault acc op ≠ .panic := by
  cases op with
  | issue i => exact Outcome.map_ne_panic _ (issue_ne_panic γ m L hL byDefault acc i)
  | revoke i => exact Outcome.map_ne_panic _ (Outcome.map_ne_panic _ (updatePow_ne_panic γ m L hL _ _))
  | unrevoke i => exact Outcome.map_ne_panic _ (Outcome.map_ne_panic _ (updatePow_ne_panic γ m L hL _ _))
  | update iss rev =>
    exact Outcome.map_ne_panic _ (Outcome.map_ne_panic _ (updatePow_ne_panic γ m L hL _ _))

/-- the two profiles (`checked` = dev/test, `wrapping` = release) return the same outcome — the
same accumulator, delta and witness, or the same refusal — on every operation -/
theorem step_profile_independent (γ : F) (m m' : OvfMode) (L : ℕ) (hL : SizeOk L)
    (byDefault : Bool) (acc : F) (op : Op) :
    step ringOps γ m L byDefault acc op = step ringOps γ m' L byDefault acc op := by
  cases op with
  | issue i => simp only [step, issue_mode_indep γ m m' L hL]
  | revoke i => simp only [step, revoke, updatePow_mode_indep γ m m' L hL]
  | unrevoke i => simp only [step, unrevoke, updatePow_mode_indep γ m m' L hL]
  | update iss rev => simp only [step, update, updatePow_mode_indep γ m m' L hL]

/-- a whole history of arbitrary operations never panics (a refused operation ends `run`
with `err`; the driver and the real issuer go on with the unchanged registry) -/
theorem run_never_panics (γ : F) (m : OvfMode) (L : ℕ) (hL : SizeOk L) (byDefault : Bool) :
    ∀ (ops : List Op) (acc : F), run ringOps γ m L byDefault acc ops ≠ .panic := by
  intro ops
  induction ops with
  | nil => intro acc; simp [run]
  | cons op ops ih =>
    intro acc
    simp only [run]
    exact Outcome.bind_ne_panic (step_never_panics γ m L hL byDefault acc op) (fun s => ih _)

/-- **an operation with an index outside `1..=L` is refused, not executed and not a panic** -/
theorem step_out_of_range_is_err (γ : F) (m : OvfMode) (L : ℕ) (hL : SizeOk L) (byDefault : Bool)
    (acc : F) (i : ℕ) (hi : ¬ InRange L i) :
    step ringOps γ m L byDefault acc (.revoke i) = .err ∧
    step ringOps γ m L byDefault acc (.unrevoke i) = .err ∧
    step ringOps γ m L byDefault acc (.issue i) = .err := by
  refine ⟨?_, ?_, ?_⟩
  · simp [step, revoke, updatePow_out_of_range γ m L hL [(i, true)] 0 ⟨(i, true), by simp, hi⟩]
  · simp [step, unrevoke, updatePow_out_of_range γ m L hL [(i, false)] 0 ⟨(i, false), by simp, hi⟩]
  · simp [step, issue, issueGuard_spec, outOfRange_guard_true hi]

/-- **`Witness::new` never panics**, whatever the delta contains (index 0, `u32::MAX`, …) and
whatever holder index is asked for, in both issuance modes and both profiles, for every
registry size whose tail indices fit a u32 (`2L + 1 < 2^32`). Reading a tail that the
accessor does not store is the `err` outcome of `tailAt`. -/
theorem witnessNew_never_panics (γ : F) (m : OvfMode) (L : ℕ) (hL : TailsOk L) (byDefault : Bool)
    (i : ℕ) (d : Delta F) : witnessNew ringOps γ m L byDefault i d ≠ .panic := by
  by_cases hi : InRange L i
  · simp only [witnessNew, witnessNewGuard_spec, inRange_guard_false hi, Outcome.guardThen_ok,
      Bool.false_eq_true, if_false]
    exact witnessNewLoop_ne_panic γ m L i hL hi _ _
  · simp only [witnessNew, witnessNewGuard_spec, outOfRange_guard_true hi, Outcome.guardThen_ok,
      if_true]
    intro h; cases h

/-- **`Witness::update` never panics** for arbitrary deltas, witnesses and holder indices -/
theorem witnessUpdate_never_panics (γ : F) (m : OvfMode) (L : ℕ) (hL : TailsOk L) (i : ℕ) (ω : F)
    (d : Delta F) : witnessUpdate ringOps γ m L i ω d ≠ .panic := by
  by_cases hi : InRange L i
  · simp only [witnessUpdate, witnessUpdateGuard_spec, inRange_guard_false hi, Outcome.guardThen_ok,
      Bool.false_eq_true, if_false]
    exact witnessUpdateLoop_ne_panic γ m L i hL hi _ _
  · simp only [witnessUpdate, witnessUpdateGuard_spec, outOfRange_guard_true hi,
      Outcome.guardThen_ok, if_true]
    intro h; cases h

/-- both profiles compute the same witness / the same refusal -/
theorem witnessNew_profile_independent (γ : F) (m m' : OvfMode) (L : ℕ) (hL : TailsOk L)
    (byDefault : Bool) (i : ℕ) (d : Delta F) :
    witnessNew ringOps γ m L byDefault i d = witnessNew ringOps γ m' L byDefault i d := by
  by_cases hi : InRange L i
  · simp only [witnessNew, witnessNewGuard_spec, inRange_guard_false hi, Outcome.guardThen_ok,
      Bool.false_eq_true, if_false]
    exact witnessNewLoop_mode_indep γ m m' L i hL hi _ _
  · simp only [witnessNew, witnessNewGuard_spec, outOfRange_guard_true hi, Outcome.guardThen_ok,
      if_true]

theorem witnessUpdate_profile_independent (γ : F) (m m' : OvfMode) (L : ℕ) (hL : TailsOk L)
    (i : ℕ) (ω : F) (d : Delta F) :
    witnessUpdate ringOps γ m L i ω d = witnessUpdate ringOps γ m' L i ω d := by
  by_cases hi : InRange L i
  · simp only [witnessUpdate, witnessUpdateGuard_spec, inRange_guard_false hi, Outcome.guardThen_ok,
      Bool.false_eq_true, if_false]
    exact witnessUpdateLoop_mode_indep γ m m' L i hL hi _ _
  · simp only [witnessUpdate, witnessUpdateGuard_spec, outOfRange_guard_true hi,
      Outcome.guardThen_ok, if_true]

/-- a delta naming an index outside `1..=L` (other than the holder's own) makes `Witness::update`
return an error -/
theorem witnessUpdate_wild_index_is_err (γ : F) (m : OvfMode) (L : ℕ) (i j : ℕ)
    (ω : F) (acc : F) (hi : InRange L i) (hj : ¬ InRange L j) :
    witnessUpdate ringOps γ m L i ω ⟨none, acc, [j], []⟩ = .err := by
  have hij : (i == j) = false := by
    simp only [beq_eq_false_iff_ne, ne_eq]; intro e; exact hj (e ▸ hi)
  simp [witnessUpdate, witnessUpdateGuard_spec, inRange_guard_false hi, updateEntries, sortAsc,
    insertAsc, setMem, witnessUpdateLoop, hij, witnessUpdateLoopGuard_spec,
    outOfRange_guard_true hj]

/-- **`RevocationRegistryDelta::merge` never panics** (any two deltas, any equality test) -/
theorem merge_never_panics {A : Type} (eqF : A → A → Bool) (d1 d2 : Delta A) :
    merge eqF d1 d2 ≠ .panic := by
  unfold merge
  cases d2.prev with
  | none => simp
  | some p =>
    simp only
    split_ifs <;> simp

/-- **`RevocationRegistry::for_issued` never panics** on the ascending index list of any
`BTreeSet<u32>` (index 0 and indices above `max_cred_num` are refused) -/
theorem forIssued_never_panics (γ : F) (m : OvfMode) (L : ℕ) (hL : SizeOk L) (issued : List ℕ)
    (hs : issued.Pairwise (· < ·)) : forIssued ringOps γ m L issued ≠ .panic :=
  forIssued_ne_panic γ m L hL issued hs

/-! ### outside the size hypothesis: the one known finding

For `max_cred_num ≥ 2^31` the u32 expressions `max_cred_num + 1 - rev_idx`,
`max_cred_num + 1 - j + rev_idx` overflow: a panic in the `checked` profile, a silent wrap in
release (known finding `C20/max_cred_num_ge_2pow31_overflow_checked`). -/

theorem step_finding_max_cred_num_u32_max (γ : F) (acc : F) :
    step ringOps γ .checked 4294967295 false acc (.revoke 1) = .panic := by
  simp [step, revoke, updatePow, updateAccGuard_spec, getIndex, Gen.getIndexExpr, IExpr.eval,
    envGet, IntTy.fit, IntTy.inRange, binop]

theorem witnessNew_finding_beyond_tails_size (γ : F) (acc : F) :
    witnessNew ringOps γ .checked 4294967294 false 5 ⟨none, acc, [2], []⟩ = .panic := by
  simp [witnessNew, witnessNewGuard_spec, issuedIndices, sortAsc, insertAsc,
    witnessNewLoop, witnessNewLoopGuard_spec, witnessIndexNew,
    Gen.witnessNewIndexExpr, IExpr.eval, envGet, binop_add_ok, binop_sub_ok, IntTy.fit,
    IntTy.inRange]

/-! non-vacuity: the hypotheses are satisfiable and the conclusions are not `err` by default -/
example : SizeOk 5 ∧ TailsOk 5 := by unfold SizeOk TailsOk; omega
example : step ringOps (2 : ℤ) .checked 5 false 0 (.revoke 3) = .ok ⟨0 + (0 - 2 ^ 3), some ⟨some 0, 0 + (0 - 2 ^ 3), [], [3]⟩, none⟩ := by
  have h3 : InRange 5 3 := by unfold InRange; omega
  have hL : SizeOk 5 := by unfold SizeOk; omega
  simp [step, revoke, updatePow, updateAccGuard_spec, getIndex_spec _ 5 3 h3 hL]
example : step ringOps (2 : ℤ) .checked 5 false 0 (.revoke 4294967295) = .err :=
  (step_out_of_range_is_err 2 .checked 5 (by unfold SizeOk; omega) false 0 4294967295
    (by unfold InRange; omega)).1

/-!
## Part 2 — primary protocol (verifier, issuance handshake)

Theorems `no_panic_verify`, `no_panic_sign_credential`, … about `Model/Primary.lean` are added
here by the owner of that model.
-/

end CL.C20
