import CLModel.Model.Registry
import CLModel.Gen.Verifier
import CLModel.Model.Primary
import CLModel.Model.Zn
import CLModel.Proofs.NoPanic
import CLModel.Proofs.NoPanicPrimary
import Driver.PrimaryOps
/-!
# C20 — Counterparty-controlled input never panics the library

`Outcome.panic` models every way a modelled Rust function can panic (`unwrap`, `[]`
indexing, slice indexing and — in the `checked` overflow mode — u32/i32 arithmetic overflow).
The theorems below say that the model of an entry point never returns `panic`, for EVERY
input: arbitrary indices, arbitrary (unsorted, repeating, out-of-range) lists, arbitrary
accumulators, both overflow modes, any commutative ring as exponent field.

Scope (stated in the evidence): a theorem only for the modelled functions. Serde visitors,
amcl and the big-number back-ends are covered by the fuzz stream `c20` alone — a search.

## Part 1 — revocation registry, witnesses, deltas (model: `Model/Registry.lean`)
-/
namespace CL.C20
open CL CL.Reg

variable {F : Type} [CommRing F]

/-- **registry operations never panic**: `Issuer::sign_credential_with_revoc` (registry part),
`revoke_credential`, `unrevoke_credential`, `update_revocation_registry` on ANY operation —
index 0, `L+1`, `u32::MAX`, repeated or overlapping index lists — in both profiles, for every
registry size with `L + 1 < 2^32`. -/
theorem step_never_panics (γ : F) (m : OvfMode) (L : ℕ) (hL : SizeOk L) (byDefault : Bool)
    (acc : F) (op : Op) : step ringOps γ m L byDefault acc op ≠ .panic := by
  cases op with
  | issue i => exact Outcome.map_ne_panic _ (issue_ne_panic γ m L hL byDefault acc i)
  | revoke i => exact Outcome.map_ne_panic _ (Outcome.map_ne_panic _ (updatePow_ne_panic γ m L hL _ _))
  | unrevoke i => exact Outcome.map_ne_panic _ (Outcome.map_ne_panic _ (updatePow_ne_panic γ m L hL _ _))
  | update iss rev =>
    exact Outcome.map_ne_panic _ (Outcome.map_ne_panic _ (updatePow_ne_panic γ m L hL _ _))

/-- the two profiles (`checked` = dev/test, `wrapping` = release) return the same outcome — the
same accumulator, delta and witness, or the same refusal — on every operation -/
theorem step_profile_independent (γ : F) (m m' : OvfMode) (L : ℕ) (hL : SizeOk L)
    (byDefault : Bool) (acc : F) (op : Op) :
    step ringOps γ m L byDefault acc op = step ringOps γ m' L byDefault acc op := by
  cases op with
  | issue i => simp only [step, issue_mode_indep γ m m' L hL]
  | revoke i => simp only [step, revoke, updatePow_mode_indep γ m m' L hL]
  | unrevoke i => simp only [step, unrevoke, updatePow_mode_indep γ m m' L hL]
  | update iss rev => simp only [step, update, updatePow_mode_indep γ m m' L hL]

/-- a whole history of arbitrary operations never panics (a refused operation ends `run`
with `err`; the driver and the real issuer go on with the unchanged registry) -/
theorem run_never_panics (γ : F) (m : OvfMode) (L : ℕ) (hL : SizeOk L) (byDefault : Bool) :
    ∀ (ops : List Op) (acc : F), run ringOps γ m L byDefault acc ops ≠ .panic := by
  intro ops
  induction ops with
  | nil => intro acc; simp [run]
  | cons op ops ih =>
    intro acc
    simp only [run]
    exact Outcome.bind_ne_panic (step_never_panics γ m L hL byDefault acc op) (fun s => ih _)

/-- **an operation with an index outside `1..=L` is refused, not executed and not a panic** -/
theorem step_out_of_range_is_err (γ : F) (m : OvfMode) (L : ℕ) (hL : SizeOk L) (byDefault : Bool)
    (acc : F) (i : ℕ) (hi : ¬ InRange L i) :
    step ringOps γ m L byDefault acc (.revoke i) = .err ∧
    step ringOps γ m L byDefault acc (.unrevoke i) = .err ∧
    step ringOps γ m L byDefault acc (.issue i) = .err := by
  refine ⟨?_, ?_, ?_⟩
  · simp [step, revoke, updatePow_out_of_range γ m L hL [(i, true)] 0 ⟨(i, true), by simp, hi⟩]
  · simp [step, unrevoke, updatePow_out_of_range γ m L hL [(i, false)] 0 ⟨(i, false), by simp, hi⟩]
  · simp [step, issue, issueGuard_spec, outOfRange_guard_true hi]

/-- **`Witness::new` never panics**, whatever the delta contains (index 0, `u32::MAX`, …) and
whatever holder index is asked for, in both issuance modes and both profiles, for every
registry size whose tail indices fit a u32 (`2L + 1 < 2^32`). Reading a tail that the
accessor does not store is the `err` outcome of `tailAt`. -/
theorem witnessNew_never_panics (γ : F) (m : OvfMode) (L : ℕ) (hL : TailsOk L) (byDefault : Bool)
    (i : ℕ) (d : Delta F) : witnessNew ringOps γ m L byDefault i d ≠ .panic := by
  by_cases hi : InRange L i
  · simp only [witnessNew, witnessNewGuard_spec, inRange_guard_false hi, Outcome.guardThen_ok,
      Bool.false_eq_true, if_false]
    exact witnessNewLoop_ne_panic γ m L i hL hi _ _
  · simp only [witnessNew, witnessNewGuard_spec, outOfRange_guard_true hi, Outcome.guardThen_ok,
      if_true]
    intro h; cases h

/-- **`Witness::update` never panics** for arbitrary deltas, witnesses and holder indices -/
theorem witnessUpdate_never_panics (γ : F) (m : OvfMode) (L : ℕ) (hL : TailsOk L) (i : ℕ) (ω : F)
    (d : Delta F) : witnessUpdate ringOps γ m L i ω d ≠ .panic := by
  by_cases hi : InRange L i
  · simp only [witnessUpdate, witnessUpdateGuard_spec, inRange_guard_false hi, Outcome.guardThen_ok,
      Bool.false_eq_true, if_false]
    exact witnessUpdateLoop_ne_panic γ m L i hL hi _ _
  · simp only [witnessUpdate, witnessUpdateGuard_spec, outOfRange_guard_true hi,
      Outcome.guardThen_ok, if_true]
    intro h; cases h

/-- both profiles compute the same witness / the same refusal -/
theorem witnessNew_profile_independent (γ : F) (m m' : OvfMode) (L : ℕ) (hL : TailsOk L)
    (byDefault : Bool) (i : ℕ) (d : Delta F) :
    witnessNew ringOps γ m L byDefault i d = witnessNew ringOps γ m' L byDefault i d := by
  by_cases hi : InRange L i
  · simp only [witnessNew, witnessNewGuard_spec, inRange_guard_false hi, Outcome.guardThen_ok,
      Bool.false_eq_true, if_false]
    exact witnessNewLoop_mode_indep γ m m' L i hL hi _ _
  · simp only [witnessNew, witnessNewGuard_spec, outOfRange_guard_true hi, Outcome.guardThen_ok,
      if_true]

theorem witnessUpdate_profile_independent (γ : F) (m m' : OvfMode) (L : ℕ) (hL : TailsOk L)
    (i : ℕ) (ω : F) (d : Delta F) :
    witnessUpdate ringOps γ m L i ω d = witnessUpdate ringOps γ m' L i ω d := by
  by_cases hi : InRange L i
  · simp only [witnessUpdate, witnessUpdateGuard_spec, inRange_guard_false hi, Outcome.guardThen_ok,
      Bool.false_eq_true, if_false]
    exact witnessUpdateLoop_mode_indep γ m m' L i hL hi _ _
  · simp only [witnessUpdate, witnessUpdateGuard_spec, outOfRange_guard_true hi,
      Outcome.guardThen_ok, if_true]

/-- a delta naming an index outside `1..=L` (other than the holder's own) makes `Witness::update`
return an error -/
theorem witnessUpdate_wild_index_is_err (γ : F) (m : OvfMode) (L : ℕ) (i j : ℕ)
    (ω : F) (acc : F) (hi : InRange L i) (hj : ¬ InRange L j) :
    witnessUpdate ringOps γ m L i ω ⟨none, acc, [j], []⟩ = .err := by
  have hij : (i == j) = false := by
    simp only [beq_eq_false_iff_ne, ne_eq]; intro e; exact hj (e ▸ hi)
  simp [witnessUpdate, witnessUpdateGuard_spec, inRange_guard_false hi, updateEntries, sortAsc,
    insertAsc, setMem, witnessUpdateLoop, hij, witnessUpdateLoopGuard_spec,
    outOfRange_guard_true hj]

/-- **`RevocationRegistryDelta::merge` never panics** (any two deltas, any equality test) -/
theorem merge_never_panics {A : Type} (eqF : A → A → Bool) (d1 d2 : Delta A) :
    merge eqF d1 d2 ≠ .panic := by
  unfold merge
  cases d2.prev with
  | none => simp
  | some p =>
    simp only
    split_ifs <;> simp

/-- **`RevocationRegistry::for_issued` never panics** on the ascending index list of any
`BTreeSet<u32>` (index 0 and indices above `max_cred_num` are refused) -/
theorem forIssued_never_panics (γ : F) (m : OvfMode) (L : ℕ) (hL : SizeOk L) (issued : List ℕ)
    (hs : issued.Pairwise (· < ·)) : forIssued ringOps γ m L issued ≠ .panic :=
  forIssued_ne_panic γ m L hL issued hs

/-! ### outside the size hypothesis: the one known finding

For `max_cred_num ≥ 2^31` the u32 expressions `max_cred_num + 1 - rev_idx`,
`max_cred_num + 1 - j + rev_idx` overflow: a panic in the `checked` profile, a silent wrap in
release (known finding `C20/max_cred_num_ge_2pow31_overflow_checked`). -/

theorem step_finding_max_cred_num_u32_max (γ : F) (acc : F) :
    step ringOps γ .checked 4294967295 false acc (.revoke 1) = .panic := by
  simp [step, revoke, updatePow, updateAccGuard_spec, getIndex, Gen.getIndexExpr, IExpr.eval,
    envGet, IntTy.fit, IntTy.inRange, binop]

theorem witnessNew_finding_beyond_tails_size (γ : F) (acc : F) :
    witnessNew ringOps γ .checked 4294967294 false 5 ⟨none, acc, [2], []⟩ = .panic := by
  simp [witnessNew, witnessNewGuard_spec, issuedIndices, sortAsc, insertAsc,
    witnessNewLoop, witnessNewLoopGuard_spec, witnessIndexNew,
    Gen.witnessNewIndexExpr, IExpr.eval, envGet, binop_add_ok, binop_sub_ok, IntTy.fit,
    IntTy.inRange]

/-! non-vacuity: the hypotheses are satisfiable and the conclusions are not `err` by default -/
example : SizeOk 5 ∧ TailsOk 5 := by unfold SizeOk TailsOk; omega
example : step ringOps (2 : ℤ) .checked 5 false 0 (.revoke 3) = .ok ⟨0 + (0 - 2 ^ 3), some ⟨some 0, 0 + (0 - 2 ^ 3), [], [3]⟩, none⟩ := by
  have h3 : InRange 5 3 := by unfold InRange; omega
  have hL : SizeOk 5 := by unfold SizeOk; omega
  simp [step, revoke, updatePow, updateAccGuard_spec, getIndex_spec _ 5 3 h3 hL]
example : step ringOps (2 : ℤ) .checked 5 false 0 (.revoke 4294967295) = .err :=
  (step_out_of_range_is_err 2 .checked 5 (by unfold SizeOk; omega) false 0 4294967295
    (by unfold InRange; omega)).1

/-!
## Part 2 — primary protocol (verifier, issuance handshake)

The RSA side.  `NP x` is `x ≠ panic`; `OpsNP o` says the group operations `pow`/`inv` never
panic — a theorem for the executable instance the correspondence check runs
(`driver_group_never_panics`), which is compared with the library's `BigNumber` on every
presentation, including the repaired zero/negative-exponent and non-invertible cases.
The theorems quantify over every message a counter-party can send: any lists, any integers,
any missing map entry.
-/

open CL.Pri in
/-- the executable group used by the correspondence check (`Int mod n`) never panics -/
theorem driver_group_never_panics (n : Int) (rust : Bool) : OpsNP (Drv.znOps n rust) := by
  have hinv : ∀ a, NP (Drv.modInv a n) := by
    intro a
    unfold Drv.modInv CL.Zn.modInv
    split
    · exact NP_err
    · simp only
      split
      · exact NP_ok _
      · exact NP_err
  constructor
  · intro g k
    show NP (if n == 0 then _ else if k < 0 then _ else _)
    refine NP_ite NP_err (NP_ite ?_ (NP_ok _))
    have := hinv g
    change NP (match Drv.modInv g n with | .ok bi => _ | .err => _ | .panic => _)
    cases h : Drv.modInv g n with
    | ok bi => exact NP_ok _
    | err => exact NP_err
    | panic => exact absurd h this
  · intro a; exact hinv a

open CL.Pri in
/-- `ProofVerifier::verify` never panics on any proof, request set and nonce: sub-proof count
    mismatch, missing map entries, wrong-length lists, any integers.  The only conditions are
    the type-level ones (predicate thresholds are `i32`) and that the pairing side's values,
    which enter the model as a parameter, are not themselves a panic. -/
theorem verify_never_panics {G : Type} (H : List ByteArray → Int) (m : OvfMode)
    (common : List String) (creds : List (VerCred G)) (p : Proof G) (nonce : ByteArray)
    (hs : ∀ sp ∈ p.proofs, SubProofOk sp) (hv : ∀ vc ∈ creds, OpsNP vc.o) :
    verify H m common creds p nonce ≠ .panic :=
  verify_NP H m common creds p nonce hs hv

open CL.Pri in
/-- one predicate sub-proof: `calc_tne` yields exactly `ITERATION + 2` values, so the slicing
    and the two trailing reads of `_verify_ne_predicate` cannot go out of bounds -/
theorem verify_ne_predicate_never_panics {G : Type} (o : GroupOps G) (ho : OpsNP o) (m : OvfMode)
    (pk : PubKey G) (p : NeProof G) (c : Int) (hv : C03.I32 p.pred.value) :
    verifyNePredicate o m pk p c ≠ .panic :=
  verifyNePredicate_NP o ho m pk p c hv

open CL.Pri CL.Iss in
/-- `Issuer::_check_blinded_credential_secrets_correctness_proof` never panics, whatever the
    holder sends (entries missing from `m_caps`/`r_caps` are errors — repaired d4bad80) -/
theorem check_blinded_never_panics {G : Type} (o : GroupOps G) (ho : OpsNP o)
    (H : List ByteArray → Int) (pk : PubKey G) (b : Blinded G) (p : BlindedProof)
    (nonce : ByteArray) : checkBlinded o H pk b p nonce ≠ .panic :=
  checkBlinded_NP o ho H pk b p nonce

open CL.Pri CL.Iss in
/-- `Prover::_check_credential_key_correctness_proof` never panics: `r[key]` is reached only
    after every name of `xr_cap` was found in the key -/
theorem check_key_proof_never_panics {G : Type} (o : GroupOps G) (ho : OpsNP o)
    (H : List ByteArray → Int) (pk : PubKey G) (p : KeyProof) : checkKeyProof o H pk p ≠ .panic :=
  checkKeyProof_NP o ho H pk p

open CL.Pri CL.Iss in
/-- `Prover::_check_signature_correctness_proof` never panics on any signature and proof -/
theorem check_signature_never_panics {G : Type} (o : GroupOps G) (ho : OpsNP o)
    (H : List ByteArray → Int) (isPrime : Int → Bool) (pk : PubKey G) (sig : Signature G)
    (vals : KValues) (se c : Int) (nonce : ByteArray) :
    checkSignatureCorrectness o H isPrime pk sig vals se c nonce ≠ .panic :=
  checkSignatureCorrectness_NP o ho H isPrime pk sig vals se c nonce

open CL.Pri in
/-- the indexing form `map[k]` DOES panic on a missing key: the theorems above are not true
    by construction of the model -/
example : getOrPanic "a" ([] : List (String × Int)) = .panic := rfl

/-- the premise of `check_key_proof_never_panics` about the code: every name of `xr_cap` is looked
up in the key BEFORE `r[key]` is indexed, with no exemption -/
theorem key_proof_index_guard_from_source : Gen.keyProofNamesMustBeInKey = true := rfl

end CL.C20
