import CLModel.Model.Wire
namespace CL.C15
end CL.C15
