import CLModel.Proofs.Wire
import CLModel.Proofs.Codec
/-!
# C15 — Serialization round-trips and older layouts stay readable

Theorems about the executable models `CL.Codec` (primitive codecs, on top of `CL.BN`, `CL.Sc`),
`CL.Curve` (byte forms of points) and `CL.Wire` (layout logic written in this repository: the
two hand-written `Deserialize` impls with their legacy fields, the skip/default rules of
`RevocationRegistryDelta`, the frozen field table).  `serde`, `serde_json`, `rmp-serde` are
exercised by the correspondence stream `ser`, not modelled.
-/
namespace CL.C15
open CL.Outcome CL.Wire

/-! ## primitive round trips (all values) -/

/-- **big-endian bytes of a natural number decode to it** (`BigNumber::to_bytes` / `from_bytes`,
the binary form serde uses under OpenSSL) -/
theorem bytes_round_trip (n : ℕ) : Codec.implBnBytes (Codec.bnBytesEncode (n : ℤ)) = ok (n : ℤ) := by
  simp only [Codec.implBnBytes, Codec.bnBytesEncode, BN.Spec.fromBytes, Int.natAbs_natCast]
  rw [BN.ofDigits_toDigits 256 (by norm_num)]

/-- **`bytes_loses_sign`**: `to_bytes` is the magnitude only — for every negative integer the
bytes written decode to its absolute value, not to the integer.  This is why serde must not use
the byte form for a negative number (repaired defect `C15/negative_bignumber_msgpack_openssl`,
see `binary_form_round_trip`); it remains a fact about the `to_bytes` / `from_bytes` API. -/
theorem bytes_loses_sign (z : ℤ) (h : z < 0) :
    Codec.implBnBytes (Codec.bnBytesEncode z) = ok (-z) ∧
    Codec.implBnBytes (Codec.bnBytesEncode z) ≠ ok z := by
  have e : Codec.implBnBytes (Codec.bnBytesEncode z) = ok (-z) := by
    simp only [Codec.implBnBytes, Codec.bnBytesEncode, BN.Spec.fromBytes]
    rw [BN.ofDigits_toDigits 256 (by norm_num)]
    congr 1; omega
  refine ⟨e, ?_⟩
  rw [e]; intro h2
  have : -z = z := by injection h2
  omega

example : Codec.implBnBytes (Codec.bnBytesEncode (-5)) = ok 5 := by decide

/-- **`binary_form_round_trip`**: what serde writes for a `BigNumber` in a non-human-readable format
(OpenSSL: magnitude bytes for `z ≥ 0`, decimal text for `z < 0`; pure Rust: decimal text) decodes
to the number under the same back-end, for EVERY integer of either sign; and what the pure-Rust
build writes is read by the OpenSSL build -/
theorem binary_form_round_trip (z : ℤ) :
    Codec.bnBinDecode .openssl (Codec.bnBinEncode .openssl z) = ok z ∧
    Codec.bnBinDecode .rust (Codec.bnBinEncode .rust z) = ok z ∧
    Codec.bnBinDecode .openssl (Codec.bnBinEncode .rust z) = ok z := by
  have ht : ∀ b, Codec.implBnText b 10 (Codec.bnDecEncode z) = ok z := fun b => by
    rw [Codec.implBnText_eq_spec b 10 (Or.inl rfl)]
    exact BN.Spec.parseNumeral_print 10 (Or.inl rfl) z
  refine ⟨?_, by simp only [Codec.bnBinEncode, Codec.bnBinDecode]; exact ht _,
    by simp only [Codec.bnBinEncode, Codec.bnBinDecode]; exact ht _⟩
  unfold Codec.bnBinEncode
  by_cases hz : z < 0
  · simp only [hz, if_true, Codec.bnBinDecode]; exact ht _
  · simp only [hz, if_false, Codec.bnBinDecode, Codec.implBnBytes, Codec.bnBytesEncode, BN.Spec.fromBytes]
    rw [BN.ofDigits_toDigits 256 (by norm_num)]
    congr 1; omega

/-- **finding `C15/msgpack_openssl_not_readable_by_rust_backend`** (still open): the byte form the
OpenSSL build writes for every non-negative number is refused by the pure-Rust build, which
deserialises a `BigNumber` from text only -/
theorem openssl_binary_unreadable_by_rust (z : ℤ) (h : 0 ≤ z) :
    Codec.bnBinDecode .rust (Codec.bnBinEncode .openssl z) = err := by
  unfold Codec.bnBinEncode
  simp [show ¬ z < 0 by omega, Codec.bnBinDecode]

/-- **decimal text of an integer reads back as that integer**, for every integer of either sign,
on both back-ends (`to_dec` then `from_dec`: the human-readable form, and the only form under the
pure-Rust back-end) -/
theorem dec_round_trip (b : Codec.Backend) (z : ℤ) :
    Codec.implBnText b 10 (Codec.bnDecEncode z) = ok z := by
  rw [Codec.implBnText_eq_spec b 10 (Or.inl rfl)]
  exact BN.Spec.parseNumeral_print 10 (Or.inl rfl) z

/-- **the 64-digit hexadecimal text of a scalar `x < r` reads back as `x`** (`to_string` /
`from_string` of `GroupOrderElement`) -/
theorem scalar_hex_round_trip (x : ℕ) (h : x < Sc.r) : Codec.implScText (Sc.toHex x) = ok x :=
  Codec.sc_fromString_toHex x h

/-- **the 32-byte form of a scalar `x < r` reads back as `x`** -/
theorem scalar_bytes_round_trip (x : ℕ) (h : x < Sc.r) :
    (Sc.toBytes x).length = 32 ∧ Codec.implScBytes (Sc.toBytes x) = ok x :=
  ⟨Sc.length_toBytes x, Sc.fromBytes_toBytes x h⟩

open CL.Curve in
/-- **the 128-byte form of an affine point of the twist reads back as that point**: for all
coordinates `< p` satisfying the curve equation, through the strict decoder (`PointG2`, `Tail`,
keys, proofs) and through the identity-carrying one (`PointG2Inf`, `Accumulator`, `Witness`) -/
theorem g2_bytes_round_trip (x y : F2) (hxa : x.a < p) (hxb : x.b < p) (hya : y.a < p) (hyb : y.b < p)
    (hc : onCurveAff B2 x y = true) :
    implG2Bytes (g2BytesOfAffine x y) = .ok (.aff x y) ∧
    implG2BytesInf (g2BytesOfAffine x y) = .ok (.aff x y) :=
  ⟨g2_round_strict x y hxa hxb hya hyb hc, (g2_round x y hxa hxb hya hyb hc).1⟩

open CL.Curve in
/-- the identity (empty accumulator, witness of a single credential) is written as `(0, 1)`
whatever representation arithmetic left behind, and reads back as the identity through the
identity-carrying decoder; the strict decoder refuses it -/
theorem g2_identity_bytes_round_trip :
    implG2BytesInf g2IdBytes = .ok .inf ∧ implG2Bytes g2IdBytes = .err ∧
    g2TextBytes ⟨g2IdRaw⟩ = g2IdBytes ∧
    g2TextBytes ⟨[⟨2, p⟩, ⟨2, p⟩, ⟨3, 5⟩, ⟨1, 7⟩, ⟨2, p⟩, ⟨3, 2 * p⟩]⟩ = g2IdBytes := by decide +kernel

/-! ## legacy layouts (`rms`, `m1`) -/

/-- **`legacy_key_equiv`**: decoding a `CredentialPrimaryPublicKey` document in the legacy layout
(`rms` beside `r`) equals decoding the current layout of the converted document
(`rms → r["master_secret"]`, skipped when `rms` is zero), whatever the leaves are and however
`isZero` decides `rms != BigNumber::default()`; the converted document has no `rms` -/
theorem legacy_key_equiv (isZero : J → Bool) (j : J) :
    decodeLegacy keySpec isZero (convertLegacy keySpec isZero j) = decodeLegacy keySpec isZero j :=
  decodeLegacy_convert keySpec isZero (by decide) (by decide) (by decide) j

/-- **`legacy_eq_proof_equiv`**: the same for `PrimaryEqualProof` (`m1 → m["master_secret"]`) -/
theorem legacy_eq_proof_equiv (isZero : J → Bool) (j : J) :
    decodeLegacy eqProofSpec isZero (convertLegacy eqProofSpec isZero j) =
      decodeLegacy eqProofSpec isZero j :=
  decodeLegacy_convert eqProofSpec isZero (by decide) (by decide) (by decide) j

/-- the converted documents carry no legacy field -/
theorem legacy_converted_has_no_legacy_field (isZero : J → Bool) (o : Obj) :
    (∃ o', convertLegacy keySpec isZero (.obj o) = .obj o' ∧ getField "rms" o' = none) ∧
    (∃ o', convertLegacy eqProofSpec isZero (.obj o) = .obj o' ∧ getField "m1" o' = none) :=
  ⟨convertLegacy_no_legacy keySpec isZero (by decide) o, convertLegacy_no_legacy eqProofSpec isZero (by decide) o⟩

/-- **the current layout never emits `rms` / `m1`**, and what it emits decodes to the object -/
theorem current_layout_round_trip (isZero : J → Bool) (n s rctxt z : J) (r : Obj)
    (ra ap e v m2 : J) (m : Obj) :
    (∃ o, encodeCurrent keySpec ⟨[n, s, rctxt, z], r⟩ = .obj o ∧ getField "rms" o = none) ∧
    decodeLegacy keySpec isZero (encodeCurrent keySpec ⟨[n, s, rctxt, z], r⟩) = some ⟨[n, s, rctxt, z], r⟩ ∧
    (∃ o, encodeCurrent eqProofSpec ⟨[ra, ap, e, v, m2], m⟩ = .obj o ∧ getField "m1" o = none) ∧
    decodeLegacy eqProofSpec isZero (encodeCurrent eqProofSpec ⟨[ra, ap, e, v, m2], m⟩) =
      some ⟨[ra, ap, e, v, m2], m⟩ := by
  refine ⟨⟨_, rfl, by rfl⟩, by rfl, ⟨_, rfl, by rfl⟩, by rfl⟩

/-- **compact (positional) form of the two types with a legacy field**: the five / six current
fields written in declaration order decode to the object (the legacy slot is the LAST one of the
helper struct and defaults when the sequence ends before it — repaired defects
`C15/msgpack_compact_public_key_never_decodes`, `…_proof_never_decodes`); a sixth / seventh slot is
read as the legacy value -/
theorem compact_legacy_round_trip (isZero : J → Bool) (n s rctxt z rms : J) (r : Obj)
    (ra ap e v m2 m1 : J) (m : Obj) :
    decodeLegacySeq keySpec isZero (encodeCurrentSeq keySpec ⟨[n, s, rctxt, z], r⟩) = some ⟨[n, s, rctxt, z], r⟩ ∧
    decodeLegacySeq eqProofSpec isZero (encodeCurrentSeq eqProofSpec ⟨[ra, ap, e, v, m2], m⟩) =
      some ⟨[ra, ap, e, v, m2], m⟩ ∧
    decodeLegacySeq keySpec isZero [n, s, .obj r, rctxt, z, rms] =
      some ⟨[n, s, rctxt, z], if isZero rms then r else mapInsert "master_secret" rms r⟩ ∧
    decodeLegacySeq eqProofSpec isZero [ra, ap, e, v, .obj m, m2, m1] =
      some ⟨[ra, ap, e, v, m2], if isZero m1 then m else mapInsert "master_secret" m1 m⟩ := by
  refine ⟨by rfl, by rfl, by rfl, by rfl⟩

/-- a leaf test used in the examples: the text `"0"` -/
def isZeroStr : J → Bool
  | .str s => s == "0"
  | _ => false

/-- non-vacuity: a legacy key with a non-zero `rms` gains the entry, with a zero `rms` it does not -/
example : decodeLegacy keySpec isZeroStr
    (.obj [("n", .str "1"), ("s", .str "2"), ("rms", .str "7"), ("r", .obj [("age", .str "3")]), ("rctxt", .str "4"), ("z", .str "5")])
    = some ⟨[.str "1", .str "2", .str "4", .str "5"], [("master_secret", .str "7"), ("age", .str "3")]⟩ := by rfl
example : decodeLegacy keySpec isZeroStr
    (.obj [("n", .str "1"), ("s", .str "2"), ("rms", .str "0"), ("r", .obj [("age", .str "3")]), ("rctxt", .str "4"), ("z", .str "5")])
    = some ⟨[.str "1", .str "2", .str "4", .str "5"], [("age", .str "3")]⟩ := by rfl

/-! ## `RevocationRegistryDelta` -/

/-- **`delta_layout`**: for all four (eight, with `prevAccum`) emptiness combinations the document
written for a delta decodes to the delta; `prevAccum`, `issued`, `revoked` appear in the document
exactly when they are `Some` / non-empty (camelCase names) -/
theorem delta_layout (d : Delta) (hp : ∀ a, d.prev = some a → a.isNull = false) :
    decodeDelta (encodeDelta d) = some d ∧
    (∃ o, encodeDelta d = .obj o ∧
      ((getField "prevAccum" o).isSome = d.prev.isSome) ∧
      ((getField "issued" o).isSome = !d.issued.isEmpty) ∧
      ((getField "revoked" o).isSome = !d.revoked.isEmpty) ∧
      (getField "accum" o = some d.acc)) := by
  obtain ⟨prev, acc, issued, revoked⟩ := d
  have hi := readNats_natArr issued
  have hr := readNats_natArr revoked
  cases prev with
  | none =>
    cases issued with
    | nil =>
      cases revoked with
      | nil => exact ⟨by rfl, _, rfl, by rfl, by rfl, by rfl, by rfl⟩
      | cons r rs =>
        refine ⟨?_, _, rfl, by rfl, by rfl, by rfl, by rfl⟩
        try simp only [List.map_cons, Int.ofNat_eq_coe] at hi hr
        simp +decide [encodeDelta, decodeDelta, getField, natArr, readSet, hi, hr]
        try exact hnn
    | cons i is =>
      cases revoked with
      | nil =>
        refine ⟨?_, _, rfl, by rfl, by rfl, by rfl, by rfl⟩
        try simp only [List.map_cons, Int.ofNat_eq_coe] at hi hr
        simp +decide [encodeDelta, decodeDelta, getField, natArr, readSet, hi, hr]
        try exact hnn
      | cons r rs =>
        refine ⟨?_, _, rfl, by rfl, by rfl, by rfl, by rfl⟩
        try simp only [List.map_cons, Int.ofNat_eq_coe] at hi hr
        simp +decide [encodeDelta, decodeDelta, getField, natArr, readSet, hi, hr]
        try exact hnn
  | some a =>
    have ha : a.isNull = false := hp a rfl
    have hnn : (match some a with | some .null => none | x => x) = some a := by
      cases a <;> simp_all [J.isNull]
    cases issued with
    | nil =>
      cases revoked with
      | nil =>
        refine ⟨?_, _, rfl, by rfl, by rfl, by rfl, by rfl⟩
        try simp only [List.map_cons, Int.ofNat_eq_coe] at hi hr
        simp +decide [encodeDelta, decodeDelta, getField, natArr, readSet, hi, hr]
        try exact hnn
      | cons r rs =>
        refine ⟨?_, _, rfl, by rfl, by rfl, by rfl, by rfl⟩
        try simp only [List.map_cons, Int.ofNat_eq_coe] at hi hr
        simp +decide [encodeDelta, decodeDelta, getField, natArr, readSet, hi, hr]
        try exact hnn
    | cons i is =>
      cases revoked with
      | nil =>
        refine ⟨?_, _, rfl, by rfl, by rfl, by rfl, by rfl⟩
        try simp only [List.map_cons, Int.ofNat_eq_coe] at hi hr
        simp +decide [encodeDelta, decodeDelta, getField, natArr, readSet, hi, hr]
        try exact hnn
      | cons r rs =>
        refine ⟨?_, _, rfl, by rfl, by rfl, by rfl, by rfl⟩
        try simp only [List.map_cons, Int.ofNat_eq_coe] at hi hr
        simp +decide [encodeDelta, decodeDelta, getField, natArr, readSet, hi, hr]
        try exact hnn

/-- empties are defaulted on input: a document with `accum` only is the delta without
predecessor and with empty sets -/
theorem delta_defaults (a : J) : decodeDelta (.obj [("accum", a)]) = some ⟨none, a, [], []⟩ := rfl

/-- a leaf test used in the examples: accumulators are the text leaves -/
def isStr : J → Bool
  | .str _ => true
  | _ => false

/-- **positional (compact MessagePack) form**: binary formats carry all four fields (`None` as nil,
empty sets as empty arrays — the hand-written `Serialize` omits empties in human-readable formats
only), and the round trip is the identity for EVERY delta (repaired defect
`C15/msgpack_compact_delta_skipped_field`) -/
theorem delta_compact_round_trip (accOk : J → Bool) (d : Delta) (hacc : accOk d.acc = true)
    (hp : ∀ a, d.prev = some a → a.isNull = false ∧ accOk a = true) :
    decodeDeltaSeq accOk (encodeDeltaSeq d) = some d := by
  obtain ⟨prev, acc, issued, revoked⟩ := d
  have hi := readNats_natArr issued
  have hr := readNats_natArr revoked
  cases prev with
  | none => simp +decide [encodeDeltaSeq, natArr, decodeDeltaSeq, J.isNull, hi, hr, hacc] at *
  | some a =>
    obtain ⟨han, hok⟩ := hp a rfl
    simp +decide [encodeDeltaSeq, natArr, decodeDeltaSeq, han, hok, hi, hr, hacc] at *

/-- why the omission rule must not apply to positional formats (what the derived `Serialize` with
`skip_serializing_if` did before the repair): a skipped field shifts the others — a delta that only
revokes index 5 would be read back as a delta that ISSUES index 5, and a delta without predecessor
would not decode at all -/
theorem delta_positional_skipping_misreads :
    decodeDeltaSeq isStr (encodeDeltaSeqSkipping ⟨some (.str "acc"), .str "acc", [], [5]⟩)
      = some ⟨some (.str "acc"), .str "acc", [5], []⟩ ∧
    decodeDeltaSeq isStr (encodeDeltaSeqSkipping ⟨none, .str "acc", [], []⟩) = none ∧
    decodeDeltaSeq isStr (encodeDeltaSeqSkipping ⟨none, .str "acc", [1], [2]⟩) = none ∧
    decodeDeltaSeq isStr (encodeDeltaSeq ⟨some (.str "acc"), .str "acc", [], [5]⟩)
      = some ⟨some (.str "acc"), .str "acc", [], [5]⟩ := by
  refine ⟨by rfl, by rfl, by rfl, by rfl⟩

/-! ## the field table -/

/-- **`wire_tables_frozen`**: the layout table used by `wire_check` renders to exactly the table
recorded from the source tree by `tools/record_wire.py` (135 entries: every field name incl.
`ge_proofs`, `prevAccum`, the skip rules — human-readable formats only — and default rules, the
transparent newtypes, the two legacy fields, last in their helper structs).  `./check C15` re-runs the recorder against the working tree on every run. -/
theorem wire_tables_frozen : flat table = recorded := by decide

example : lookupLayout "Tail" = some (.transparent .g2) := by decide
example : lookupLayout "Accumulator" = some (.transparent .g2inf) := by decide

end CL.C15
