import CLModel.Proofs.Primary
import CLModel.Model.Issuance
import CLModel.Proofs.KeyProof
import CLModel.Proofs.ZnRefine
import CLModel.Proofs.OpsRelIssuance
import CLModel.Proofs.Guards
import CLModel.Proofs.WitnessSig
import Mathlib.Tactic.Linarith
import Mathlib.Tactic.Abel
import Mathlib.Data.ZMod.Basic
/-!
# C05 — Issuance handshake rejects inconsistent messages on both sides

Decision logic and completeness of the checks (for every group, key, message — no bounds).
Field-by-field rejection of altered messages is, as for C02, binding up to hash collisions
plus the correspondence stream that alters every field on the real entry points.
-/
namespace CL.C05
open CL CL.Pri CL.Iss

section logic
variable {G : Type}

/-- **the holder rejects a bad `e`**: whenever `_check_signature_correctness_proof` does not
fail, `e` passed the primality test and lies in `[2^596, 2^596 + 2^119)`. -/
theorem holder_rejects_bad_e (o : GroupOps G) (H : List ByteArray → Int) (isPrime : Int → Bool)
    (pk : PubKey G) (sig : Signature G) (vals : KValues) (se c : Int) (nonce : ByteArray) (b : Bool)
    (h : checkSignatureCorrectness o H isPrime pk sig vals se c nonce = .ok b) :
    isPrime sig.e = true ∧ (2 : Int) ^ Gen.LARGE_E_START ≤ sig.e ∧
      sig.e < (2 : Int) ^ Gen.LARGE_E_START + (2 : Int) ^ Gen.LARGE_E_END_RANGE := by
  unfold checkSignatureCorrectness at h
  by_cases hp : isPrime sig.e
  · by_cases hr : sig.e < (2 : Int) ^ Gen.LARGE_E_START ∨
        sig.e ≥ (2 : Int) ^ Gen.LARGE_E_START + (2 : Int) ^ Gen.LARGE_E_END_RANGE
    · simp [hp, hr] at h
    · exact ⟨hp, by omega, by omega⟩
  · simp [hp] at h

/-- the interval is the prescribed one (regenerated constants) -/
theorem e_interval_constants : Gen.LARGE_E_START = 596 ∧ Gen.LARGE_E_END_RANGE = 119 := ⟨rfl, rfl⟩

/-- **the holder requires every key attribute to have a value and every used value a key
element**: acceptance implies both inclusions (attributes cannot be dropped silently). -/
theorem holder_attribute_coverage (o : GroupOps G) (H : List ByteArray → Int) (isPrime : Int → Bool)
    (pk : PubKey G) (sig : Signature G) (vals : KValues) (se c : Int) (nonce : ByteArray) (b : Bool)
    (h : checkSignatureCorrectness o H isPrime pk sig vals se c nonce = .ok b) :
    (∀ a ∈ keys pk.r, (lookup a vals).isSome) := by
  unfold checkSignatureCorrectness at h
  by_cases hp : isPrime sig.e
  · by_cases hr : sig.e < (2 : Int) ^ Gen.LARGE_E_START ∨
        sig.e ≥ (2 : Int) ^ Gen.LARGE_E_START + (2 : Int) ^ Gen.LARGE_E_END_RANGE
    · simp [hp, hr] at h
    · simp only [hp, Bool.not_true, Bool.false_eq_true, if_false, hr] at h
      split at h
      · simp at h
      · split at h
        · simp at h
        · next _ hk =>
          intro a ha
          by_contra hn
          apply hk
          simp only [List.any_eq_true]
          exact ⟨a, ha, by simpa using hn⟩
  · simp [hp] at h

/-- **the issuer signs only for an accepted blinded-secrets proof whose challenge is the hash
of the recomputed transcript** -/
theorem issuer_accept_implies_hash (o : GroupOps G) (H : List ByteArray → Int) (pk : PubKey G)
    (b : Blinded G) (p : BlindedProof) (nonce : ByteArray)
    (h : checkBlinded o H pk b p nonce = .ok true) :
    ∃ uCap cb, H [blindedTranscript o cb b.u uCap nonce] = p.c := by
  unfold checkBlinded at h
  cases h1 : o.inv b.u with
  | ok ui =>
    rw [h1] at h; simp only [Outcome.bind_ok] at h
    cases h2 : o.pow ui p.c with
    | ok uic =>
      rw [h2] at h; simp only [Outcome.bind_ok] at h
      cases h3 : o.pow pk.s p.vDashCap with
      | ok sv =>
        rw [h3] at h; simp only [Outcome.bind_ok] at h
        cases h4 : hiddenFold o pk p.mCaps b.hidden (o.mul uic sv) with
        | ok uCap =>
          rw [h4] at h; simp only [Outcome.bind_ok] at h
          cases h5 : committedLoop o pk p b.committed with
          | ok cb =>
            rw [h5] at h
            simp only [Outcome.bind_ok, Outcome.ok.injEq, beq_iff_eq] at h
            exact ⟨uCap, cb, h⟩
          | err => rw [h5] at h; simp at h
          | panic => rw [h5] at h; simp at h
        | err => rw [h4] at h; simp at h
        | panic => rw [h4] at h; simp at h
      | err => rw [h3] at h; simp at h
      | panic => rw [h3] at h; simp at h
    | err => rw [h2] at h; simp at h
    | panic => rw [h2] at h; simp at h
  | err => rw [h1] at h; simp at h
  | panic => rw [h1] at h; simp at h

/-- a proof lacking the `m_caps` entry of a hidden attribute is an error, not a panic -/
theorem missing_m_cap_is_error (o : GroupOps G) (pk : PubKey G) (mCaps : List (String × Int))
    (a : String) (as : List String) (acc r : G)
    (hr : lookup a pk.r = some r) (hm : lookup a mCaps = none) :
    hiddenFold o pk mCaps (a :: as) acc = .err := by
  simp [hiddenFold, getOrErr, hr, hm]

end logic

section algebra
variable {A : Type} [AddCommGroup A] [DecidableEq A] (enc : A → ByteArray)

theorem uTilde_value (pk : PubKey A) (tp : BlindTape) (rf : String → A) :
    ∀ (ks : List String) (acc : A), Maps pk.r ks rf →
      uTilde (addOps enc) pk tp ks acc = .ok (acc + (ks.map fun k => tp.mTilde k • rf k).sum) := by
  intro ks
  induction ks with
  | nil => intro acc _; simp [uTilde]
  | cons k ks ih =>
    intro acc hr
    simp only [uTilde, getOrErr_of_maps hr (k := k) (by simp), Outcome.bind_ok, addOps_pow,
      addOps_mul]
    rw [ih _ (hr.mono (by simp +contextual))]
    simp only [List.map_cons, List.sum_cons]
    congr 1; module

theorem hiddenFold_value (pk : PubKey A) (mCaps : List (String × ℤ)) (rf : String → A)
    (mf : String → ℤ) : ∀ (ks : List String) (acc : A), Maps pk.r ks rf → Maps mCaps ks mf →
      hiddenFold (addOps enc) pk mCaps ks acc = .ok (acc + (ks.map fun k => mf k • rf k).sum) := by
  intro ks
  induction ks with
  | nil => intro acc _ _; simp [hiddenFold]
  | cons k ks ih =>
    intro acc hr hm
    simp only [hiddenFold, getOrErr_of_maps hr (k := k) (by simp),
      getOrErr_of_maps hm (k := k) (by simp), Outcome.bind_ok, addOps_pow, addOps_mul]
    rw [ih _ (hr.mono (by simp +contextual)) (hm.mono (by simp +contextual))]
    simp only [List.map_cons, List.sum_cons]
    congr 1; module

/-- **the blinded-secrets proof is complete**: what the honest holder computes
(`_new_blinded_credential_secrets_correctness_proof`, hidden attributes of any number) is
accepted by the issuer's check for the same key and nonce, for every hash function. -/
theorem blinded_proof_complete (H : List ByteArray → Int) (pk : PubKey A) (hiddenKeys : List String)
    (rf : String → A) (val : String → ℤ) (vPrime : ℤ) (tp : BlindTape) (nonce : ByteArray)
    (hr : Maps pk.r hiddenKeys rf) :
    let hidden : Values := hiddenKeys.map fun k => (k, val k)
    ∃ u p, blindU (addOps enc) pk hidden vPrime = .ok u ∧
      newBlindedProof (addOps enc) H pk u hidden vPrime tp nonce = .ok p ∧
      checkBlinded (addOps enc) H pk ⟨u, hiddenKeys, []⟩ p nonce = .ok true := by
  intro hidden
  let u : A := vPrime • pk.s + (hiddenKeys.map fun k => val k • rf k).sum
  let ut : A := tp.vDashTilde • pk.s + (hiddenKeys.map fun k => tp.mTilde k • rf k).sum
  let c : ℤ := H [blindedTranscript (addOps enc) [] u ut nonce]
  have hu : blindU (addOps enc) pk hidden vPrime = .ok u := by
    simp only [blindU, addOps_pow, Outcome.bind_ok, hidden, keys_map_self,
      mulPows_sum enc pk.r _ rf val hiddenKeys _ hr (maps_map_self val hiddenKeys)]
    rfl
  have hp : newBlindedProof (addOps enc) H pk u hidden vPrime tp nonce = .ok
      ⟨c, c * vPrime + tp.vDashTilde, hiddenKeys.map (fun k => (k, tp.mTilde k + c * val k)), []⟩ := by
    simp only [newBlindedProof, addOps_pow, Outcome.bind_ok, hidden, keys_map_self,
      uTilde_value enc pk tp rf hiddenKeys _ hr, Outcome.map_ok, List.map_map, Function.comp_def]
    rfl
  refine ⟨u, _, hu, hp, ?_⟩
  have hm := maps_map_self (fun k => tp.mTilde k + c * val k) hiddenKeys
  simp only [checkBlinded, addOps_inv, Outcome.bind_ok, addOps_pow, addOps_mul,
    hiddenFold_value enc pk _ rf _ hiddenKeys _ hr hm, committedLoop, Outcome.ok.injEq,
    beq_iff_eq]
  -- the recomputed Û is the prover's Ũ
  have hU : c • -u + (c * vPrime + tp.vDashTilde) • pk.s
      + (hiddenKeys.map fun k => (tp.mTilde k + c * val k) • rf k).sum = ut := by
    have hs : (hiddenKeys.map fun k => (tp.mTilde k + c * val k) • rf k).sum
        = c • (hiddenKeys.map fun k => val k • rf k).sum
          + (hiddenKeys.map fun k => tp.mTilde k • rf k).sum := by
      have := sum_split (G := A) c rf val tp.mTilde hiddenKeys
      rw [← this]
      congr 2
      funext k; congr 1; ring
    rw [hs]
    simp only [u, ut]
    module
  rw [hU]

/-- **core of the signature-correctness proof**: with `se ≡ r − c·e⁻¹ (mod N)`, in a group
annihilated by `N` where `e·e⁻¹` acts as the identity, the holder's recomputed
`Â = A^(c + se·e)` is the issuer's `Q^r` (for `A = Q^(e⁻¹)`). -/
theorem a_cap_recomputed (q : A) (c e einv r N : ℤ) (hN : ∀ x : A, N • x = 0)
    (hinv : ∀ x : A, (e * einv) • x = x) :
    (c + ((r - (c * einv) % N) % N) * e) • (einv • q) = r • q := by
  have hmod : ∀ (y : ℤ) (x : A), (y % N) • x = y • x := by
    intro y x
    have : y % N = y - N * (y / N) := by rw [Int.emod_def]
    rw [this, sub_smul, mul_comm, mul_smul, hN, smul_zero, sub_zero]
  rw [smul_smul]
  have h1 : (c + ((r - (c * einv) % N) % N) * e) * einv
      = c * einv + ((r - (c * einv) % N) % N) * (e * einv) := by ring
  rw [h1, add_smul]
  have h2 : ((r - c * einv % N) % N * (e * einv)) • q = ((r - c * einv % N) % N) • q := by
    rw [mul_smul, hinv]
  rw [h2, hmod, sub_smul, hmod]
  abel

end algebra

/-! non-vacuity -/
example : ∀ x : ZMod 7, ((7 : ℤ)) • x = 0 := by decide

/-! ## guards regenerated from `prover.rs` / `issuer.rs` -/

/-- **the holder's interval guard in the source is the model's condition**: with
`e_offset = e − LARGE_E_START_VALUE`, `e_offset.is_negative() || e_offset.num_bits() >
LARGE_E_END_RANGE` is `e < 2^596 ∨ e ≥ 2^596 + 2^119` (an off-by-one bound breaks it) -/
theorem holder_e_guard_from_source (e : Int) :
    Gen.holderEOffsetIsEMinusStart = true ∧
    evalGuard Gen.holderEGuard
        [signOf (e - 2 ^ Gen.LARGE_E_START), numBits (e - 2 ^ Gen.LARGE_E_START)]
      = decide (e < 2 ^ Gen.LARGE_E_START ∨ e ≥ 2 ^ Gen.LARGE_E_START + 2 ^ Gen.LARGE_E_END_RANGE) :=
  ⟨rfl, holderE_shape_spec e⟩

/-- **the issuer folds over the DECLARED hidden attributes** (`hiddenFold … b.hidden` in the
model): `u_cap` is built from `blinded_cred_secrets.hidden_attributes`, each response looked up
in `m_caps` with an error when missing — not from the proof's own `m_caps` keys -/
theorem blinded_fold_from_source : Gen.blindedFoldOverDeclaredHidden = true := rfl

/-- **the commitment loop runs over the DECLARED commitments** (`committedLoop … b.committed`
in the model): every entry of `committed_attributes` needs its `m_caps` and `r_caps` responses -/
theorem blinded_commit_loop_from_source : Gen.blindedLoopOverDeclaredCommitted = true := rfl

/-- **names covered by the key proof** (`checkKeyProof`'s two name conditions): every generator of
the key is named in `xr_cap` except the legacy `master_secret`, and every name of `xr_cap` is a
generator of the key -/
theorem key_proof_names_from_source :
    Gen.keyProofExemptsOnlyMasterSecret = true ∧ Gen.keyProofNamesMustBeInKey = true := ⟨rfl, rfl⟩

section keyproof
variable {G : Type} [AddCommGroup G] [DecidableEq G] (enc : G → ByteArray)

/-- **the key-correctness proof is complete**: for a key built from exponents (`Z = xz • S`, every
covered generator `R_k = xr_k • S`), whose generators are all covered except possibly the legacy
`master_secret`, the model issuer's proof (`newKeyProof`) is accepted by the holder's check
(`checkKeyProof`) — any number of attributes, any exponents and masks, any hash function -/
theorem key_proof_complete (H : List ByteArray → ℤ) (pk : PubKey G) (xz xzTilde : ℤ)
    (covered : List (String × ℤ × ℤ)) (hz : pk.z = xz • pk.s) (hcov : CoveredOk pk covered)
    (hall : ∀ k ∈ keys pk.r, k ∈ covered.map (·.1) ∨ k = "master_secret") :
    ∃ p, newKeyProof (addOps enc) H pk xz xzTilde covered = .ok p ∧
      checkKeyProof (addOps enc) H pk p = .ok true := by
  set c := H [cat ([enc pk.z] ++ (covered.map fun e => e.2.1 • pk.s).map enc ++ [enc (xzTilde • pk.s)] ++
    (covered.map fun e => e.2.2 • pk.s).map enc)] with hc
  refine ⟨⟨c, xzTilde + c * xz, covered.map fun e => (e.1, e.2.2 + c * e.2.1)⟩, ?_, ?_⟩
  · simp only [newKeyProof, addOps_pow, Outcome.bind_ok, keyProofTildes_value enc pk covered hcov,
      Outcome.map_ok, addOps_enc, addOps_enc_fn, ← hc]
  · have hnames : keys (covered.map fun e => (e.1, e.2.2 + c * e.2.1)) = covered.map (·.1) := by
      simp [keys, List.map_map, Function.comp_def]
    have h1 : (keys pk.r).any (fun k => !(covered.map (·.1)).contains k && k != "master_secret") = false := by
      rw [List.any_eq_false]
      intro k hk
      rcases hall k hk with h | h
      · have : (covered.map (·.1)).contains k = true := List.contains_iff_mem.mpr h
        simp only [this, Bool.not_true, Bool.false_and]
        simp
      · simp [h]
    have h2 : (covered.map (·.1)).any (fun k => (lookup k pk.r).isNone) = false := by
      rw [List.any_eq_false]
      intro k hk
      simp only [List.mem_map] at hk
      obtain ⟨e, he, rfl⟩ := hk
      simp [hcov e he]
    simp only [checkKeyProof, hnames, h1, h2, Bool.false_eq_true, if_false, addOps_inv, addOps_pow,
      Outcome.bind_ok, keyProofLoop_value enc pk c covered hcov, addOps_mul, addOps_enc, addOps_enc_fn]
    have hzc : (c • (-pk.z) + (xzTilde + c * xz) • pk.s) = xzTilde • pk.s := by rw [hz]; module
    simp only [hzc]
    have hb : (H [cat ([enc pk.z] ++ (covered.map fun e => e.2.1 • pk.s).map enc ++ [enc (xzTilde • pk.s)] ++
        (covered.map fun e => e.2.2 • pk.s).map enc)] == c) = true := by rw [← hc]; simp
    simp only [hb, if_true]

end keyproof

section revocation_signature
open CL.NR CL.Reg

variable {F : Type} [Field F] [DecidableEq F]

/-- **the holder's check of the revocation part binds every field**
    (`Prover::_test_witness_signature`, exponent form over the field `ℤ/r` of the pairing groups):
    if the check accepts `(witness_signature.g_i, g_i, σ_i, u_i, σ, c, m2, vr'', witness)`, then it
    refuses the same message with any ONE of the nine values replaced by a different one.
    Side conditions: the key's generators `g, u, ĥ, h1, h2`, the accumulator, `pk·g_i`,
    `y·ĥ^c` and `σ` are not the neutral element. -/
theorem holder_nr_check_binds_every_field (k : RevKey F) (acc z wgI : F) (cr : Cred F)
    (hg : k.g ≠ 0) (hu : k.u ≠ 0) (hh : k.hCap ≠ 0) (hh1 : k.h1 ≠ 0) (hh2 : k.h2 ≠ 0)
    (hacc : acc ≠ 0) (hpk : k.pk + cr.gI ≠ 0) (hy : k.y + k.hCap * cr.c ≠ 0) (hs : cr.sigma ≠ 0)
    (h : testWitnessSignature ringOps k acc z wgI cr = true) :
    (∀ x, x ≠ wgI → testWitnessSignature ringOps k acc z x cr = false) ∧
    (∀ x, x ≠ cr.gI → testWitnessSignature ringOps k acc z wgI { cr with gI := x } = false) ∧
    (∀ x, x ≠ cr.sigmaI → testWitnessSignature ringOps k acc z wgI { cr with sigmaI := x } = false) ∧
    (∀ x, x ≠ cr.uI → testWitnessSignature ringOps k acc z wgI { cr with uI := x } = false) ∧
    (∀ x, x ≠ cr.sigma → testWitnessSignature ringOps k acc z wgI { cr with sigma := x } = false) ∧
    (∀ x, x ≠ cr.c → testWitnessSignature ringOps k acc z wgI { cr with c := x } = false) ∧
    (∀ x, x ≠ cr.m2 → testWitnessSignature ringOps k acc z wgI { cr with m2 := x } = false) ∧
    (∀ x, x ≠ cr.vr2 → testWitnessSignature ringOps k acc z wgI { cr with vr2 := x } = false) ∧
    (∀ x, x ≠ cr.omega → testWitnessSignature ringOps k acc z wgI { cr with omega := x } = false) :=
  single_alteration_rejected k acc z wgI cr hg hu hh hh1 hh2 hacc hpk hy hs h

/-- non-vacuity and completeness: what `Issuer::_new_non_revocation_credential` computes
    (`issueCred`: `σ = (h0·h1^m2·h2^(vr'+vr'')·g_i)^(1/(x+c))`, `σ_i = g'^(1/(sk+γ^i))`,
    `u_i = u^(γ^i)`, `g_i = g^(γ^i)`) passes the holder's check whenever the witness fits the
    accumulator (the first equation is C08's witness theorem). -/
theorem holder_nr_check_complete (k : RevKey F) (x sk γ : F) (i : ℕ) (m2 vr' vr2 c omega acc z : F)
    (hpk : k.pk = k.g * sk) (hy : k.y = k.hCap * x) (hsk : sk + γ ^ i ≠ 0) (hx : x + c ≠ 0)
    (hw : k.g * γ ^ i * acc - k.g * omega = z) :
    testWitnessSignature ringOps k acc z (k.g * γ ^ i)
      (issueCred ringOps (·⁻¹) k x sk γ i m2 vr' vr2 c omega) = true :=
  issued_cred_passes k x sk γ i m2 vr' vr2 c omega acc z hpk hy hsk hx hw

/-- the equations the two theorems above are about are the ones in the source: the four
    `Pair::pair2` products of `_test_witness_signature`, regenerated from `src/prover.rs` on every
    run, in this order and with these refusal tests (`witnessSigEqs` is their exponent form).
    A dropped product, a dropped term or another test breaks this obligation. -/
theorem witness_sig_equations_from_source : Gen.witnessSigPairings =
    [["r_cred.witness_signature.g_i", "rev_reg.accum", "cred_rev_pub_key.g.neg()", "witness.omega.0",
      "_!=rev_key_pub.z"],
     ["cred_rev_pub_key.pk.add(r_cred.g_i)", "r_cred.witness_signature.sigma_i",
      "cred_rev_pub_key.g.neg()", "cred_rev_pub_key.g_dash", "!_.is_unity()"],
     ["r_cred.g_i", "cred_rev_pub_key.u", "cred_rev_pub_key.g.neg()", "r_cred.witness_signature.u_i",
      "!_.is_unity()"],
     ["r_cred.sigma", "cred_rev_pub_key.y.add(cred_rev_pub_key.h_cap.mul(r_cred.c))",
      "cred_rev_pub_key.h0.add(cred_rev_pub_key.h1.mul(m2)).add(cred_rev_pub_key.h2.mul(r_cred.vr_prime_prime)).add(r_cred.g_i).neg()",
      "cred_rev_pub_key.h_cap", "!_.is_unity()"]] := by decide

end revocation_signature


section keyproof_executable

/-- **the key-correctness proof is complete in the executable group**: `key_proof_complete`
transferred along `Zn.znOps_refines` to what `cldrv` runs (stream `keyforge`): for an integer key
that represents (`PKRel`) a key `Z = xz • S`, `R_k = xr_k • S` over `Additive (ZMod N)ˣ`, the
reference issuer's proof computed with integers modulo `N` is accepted by the holder's check
computed with integers modulo `N`. -/
theorem key_proof_complete_executable (N : ℕ) (hN : 1 < N) (H : List ByteArray → ℤ)
    (pk : PubKey ℤ) (pk' : PubKey (Zn.U N)) (hpk : PKRel (Zn.Rel N) pk pk')
    (xz xzTilde : ℤ) (covered : List (String × ℤ × ℤ)) (hz : pk'.z = xz • pk'.s)
    (hcov : CoveredOk pk' covered)
    (hall : ∀ k ∈ keys pk.r, k ∈ covered.map (·.1) ∨ k = "master_secret") :
    ∃ p, newKeyProof (Zn.znOps N) H pk xz xzTilde covered = .ok p ∧
      checkKeyProof (Zn.znOps N) H pk p = .ok true := by
  have ho := Zn.znOps_refines hN
  rw [keys_rel hpk.r] at hall
  obtain ⟨p, h1, h2⟩ := key_proof_complete (Zn.encU N) H pk' xz xzTilde covered hz hcov hall
  exact ⟨p, by rw [newKeyProof_rel ho H hpk, h1], by rw [checkKeyProof_rel ho H hpk, h2]⟩

/-- **the holder's verdict on any key proof does not depend on the representation**: for every
proof document (honest or forged) the executable check and the proof-group check agree -/
theorem key_check_verdict_refines (N : ℕ) (hN : 1 < N) (H : List ByteArray → ℤ)
    (pk : PubKey ℤ) (pk' : PubKey (Zn.U N)) (hpk : PKRel (Zn.Rel N) pk pk') (p : KeyProof) :
    checkKeyProof (Zn.znOps N) H pk p = checkKeyProof (addOps (Zn.encU N)) H pk' p :=
  checkKeyProof_rel (Zn.znOps_refines hN) H hpk p

end keyproof_executable


section blinded_executable

/-- **the blinded-secrets proof is complete in the executable group**: `blinded_proof_complete`
transferred along `Zn.znOps_refines`: holder and issuer both computing with integers modulo `N`
(what the issuance streams run), the honest holder's proof is accepted. -/
theorem blinded_proof_complete_executable (N : ℕ) (hN : 1 < N) (H : List ByteArray → ℤ)
    (pk : PubKey ℤ) (pk' : PubKey (Zn.U N)) (hpk : PKRel (Zn.Rel N) pk pk')
    (hiddenKeys : List String) (rf : String → Zn.U N) (val : String → ℤ) (vPrime : ℤ)
    (tp : BlindTape) (nonce : ByteArray) (hr : Maps pk'.r hiddenKeys rf) :
    let hidden : Values := hiddenKeys.map fun k => (k, val k)
    ∃ u p, blindU (Zn.znOps N) pk hidden vPrime = .ok u ∧
      newBlindedProof (Zn.znOps N) H pk u hidden vPrime tp nonce = .ok p ∧
      checkBlinded (Zn.znOps N) H pk ⟨u, hiddenKeys, []⟩ p nonce = .ok true := by
  intro hidden
  have ho := Zn.znOps_refines hN
  obtain ⟨u', p, h1, h2, h3⟩ := blinded_proof_complete (Zn.encU N) H pk' hiddenKeys rf val vPrime tp
    nonce hr
  have r1 := blindU_rel ho hpk hidden vPrime
  rw [h1] at r1
  cases hb : blindU (Zn.znOps N) pk hidden vPrime with
  | ok u =>
    rw [hb] at r1
    have hu : Zn.Rel N u u' := r1
    refine ⟨u, p, rfl, ?_, ?_⟩
    · rw [newBlindedProof_rel ho H hpk hu]; exact h2
    · have hbr : BlindedRel (Zn.Rel N) (⟨u, hiddenKeys, []⟩ : Blinded ℤ)
          (⟨u', hiddenKeys, []⟩ : Blinded (Zn.U N)) := ⟨hu, rfl, List.Forall₂.nil⟩
      rw [checkBlinded_rel ho H hpk hbr]
      exact h3
  | err => rw [hb] at r1; exact absurd r1 (by simp [ORel])
  | panic => rw [hb] at r1; exact absurd r1 (by simp [ORel])

/-- **the issuer's verdict on ANY blinded-secrets message does not depend on the
representation**: for every `u`, commitments and proof document (honest or forged) whose group
elements are units, the executable check and the proof-group check agree -/
theorem issuer_blinded_verdict_refines (N : ℕ) (hN : 1 < N) (H : List ByteArray → ℤ)
    (pk : PubKey ℤ) (pk' : PubKey (Zn.U N)) (hpk : PKRel (Zn.Rel N) pk pk')
    (b : Blinded ℤ) (b' : Blinded (Zn.U N)) (hb : BlindedRel (Zn.Rel N) b b')
    (p : BlindedProof) (nonce : ByteArray) :
    checkBlinded (Zn.znOps N) H pk b p nonce = checkBlinded (addOps (Zn.encU N)) H pk' b' p nonce :=
  checkBlinded_rel (Zn.znOps_refines hN) H hpk hb p nonce

end blinded_executable

section signature_correctness_executable

/-- **the holder's verdict on ANY signature with its correctness proof does not depend on the
representation**: prime test, interval of `e`, attribute coverage, `Q == A^e` and the challenge
comparison of `_check_signature_correctness_proof` give the same outcome computed with integers
modulo `N` and in the proof group (any subgroup `S` of the units holding the key and `A`) -/
theorem holder_signature_proof_verdict_refines (N : ℕ) (hN : 1 < N) (S : AddSubgroup (Zn.U N))
    (H : List ByteArray → ℤ) (isPrime : ℤ → Bool)
    (pk : PubKey ℤ) (pk' : PubKey S) (hpk : PKRel (Zn.RelS N S) pk pk')
    (sig : Signature ℤ) (sig' : Signature S) (hs : SigRel (Zn.RelS N S) sig sig')
    (vals : KValues) (se c : ℤ) (nonce : ByteArray) :
    checkSignatureCorrectness (Zn.znOps N) H isPrime pk sig vals se c nonce =
      checkSignatureCorrectness (addOps (Zn.encS N S)) H isPrime pk' sig' vals se c nonce :=
  checkSignatureCorrectness_rel (Zn.znOps_refines_sub hN S) H isPrime hpk hs vals se c nonce

/-- the issuer's signature-correctness proof `(se, c)` is the same pair in both groups -/
theorem issuer_signature_proof_refines (N : ℕ) (hN : 1 < N) (S : AddSubgroup (Zn.U N))
    (H : List ByteArray → ℤ) (a q : ℤ) (a' q' : S) (ha : Zn.RelS N S a a') (hq : Zn.RelS N S q q')
    (einv r M : ℤ) (nonce : ByteArray) :
    newSignatureCorrectness (Zn.znOps N) H a q einv r M nonce =
      newSignatureCorrectness (addOps (Zn.encS N S)) H a' q' einv r M nonce :=
  newSignatureCorrectness_rel (Zn.znOps_refines_sub hN S) H ha hq einv r M nonce

end signature_correctness_executable

end CL.C05
