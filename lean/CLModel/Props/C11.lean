import CLModel.Model.Primary
namespace CL.C11
end CL.C11
