import CLModel.Proofs.Primary
import CLModel.Proofs.Guards
import Mathlib.Tactic.Linarith
/-!
# C11 — Common attributes bind all sub-proofs to one link secret

Verifier side: the common-attribute pass of `ProofVerifier::verify` (`commonPass`, threaded
through `verifyLoop`) for any number of sub-proofs and any set of declared attributes.
Prover side: `get_mtilde` never overwrites the shared blinder, so the responses for a common
attribute agree across sub-proofs exactly when the attribute values agree.
-/
namespace CL.C11
open CL CL.Pri

variable {G : Type}

/-- what `seen` records: it only ever maps an attribute to the response of a sub-proof -/
def Agrees (seen : List (String × Int)) (eq : EqProof G) (as : List String) : Prop :=
  ∀ a ∈ as, ∃ v, lookup a eq.m = some v ∧ lookup a seen = some v

theorem lookup_cons_ne {α : Type} (a b : String) (v : α) (l : List (String × α)) (h : a ≠ b) :
    lookup a ((b, v) :: l) = lookup a l := by
  have : (a == b) = false := by simpa using h
  simp [lookup, this]

theorem lookup_cons_self {α : Type} (a : String) (v : α) (l : List (String × α)) :
    lookup a ((a, v) :: l) = some v := by simp [lookup]

/-- one pass over the declared attributes: on success every attribute of the pass is a key of
this sub-proof's `m̂` map and its value equals the recorded one; earlier records are kept. -/
theorem commonPass_ok (common : List String) (eq : EqProof G) :
    ∀ (as : List String) (seen seen' : List (String × Int)),
      commonPass common eq seen as = .ok seen' →
      Agrees seen' eq as ∧ (∀ a v, lookup a seen = some v → lookup a seen' = some v) := by
  intro as
  induction as with
  | nil =>
    intro seen seen' h
    simp only [commonPass, Outcome.ok.injEq] at h
    subst h
    exact ⟨fun a ha => by simp at ha, fun _ _ h => h⟩
  | cons a as ih =>
    intro seen seen' h
    simp only [commonPass] at h
    cases hm : lookup a eq.m with
    | none => simp [hm] at h
    | some mhat =>
      simp only [hm] at h
      cases hs : lookup a seen with
      | some v =>
        simp only [hs] at h
        by_cases hv : v == mhat
        · simp only [hv, if_true] at h
          obtain ⟨h1, h2⟩ := ih seen seen' h
          have hveq : v = mhat := by simpa using hv
          refine ⟨?_, h2⟩
          intro b hb
          simp only [List.mem_cons] at hb
          rcases hb with rfl | hb
          · exact ⟨mhat, hm, by rw [← hveq]; exact h2 b v hs⟩
          · exact h1 b hb
        · simp [hv] at h
      | none =>
        simp only [hs] at h
        obtain ⟨h1, h2⟩ := ih ((a, mhat) :: seen) seen' h
        refine ⟨?_, ?_⟩
        · intro b hb
          simp only [List.mem_cons] at hb
          rcases hb with rfl | hb
          · exact ⟨mhat, hm, h2 b mhat (lookup_cons_self b mhat seen)⟩
          · exact h1 b hb
        · intro b v hb
          by_cases hba : b = a
          · subst hba; rw [hs] at hb; cases hb
          · exact h2 b v (by rw [lookup_cons_ne b a mhat seen hba]; exact hb)

/-- **a sub-proof lacking a declared common attribute is rejected** -/
theorem missing_common_rejected (common : List String) (eq : EqProof G) :
    ∀ (as : List String) (seen : List (String × Int)),
      (∃ a ∈ as, lookup a eq.m = none) → ∀ seen', commonPass common eq seen as ≠ .ok seen' := by
  intro as seen ⟨a, ha, hn⟩ seen' h
  obtain ⟨h1, _⟩ := commonPass_ok common eq as seen seen' h
  obtain ⟨v, hv, _⟩ := h1 a ha
  rw [hn] at hv; cases hv

/-- **common attributes are enforced**: if the per-sub-proof loop of `verify` succeeds from a
state `seen`, then every sub-proof contains every declared common attribute, with the same
response in all of them (and equal to the one recorded in `seen`, if any). Induction over the
list of sub-proofs — any number of credentials. -/
theorem common_enforced (m : OvfMode) (common : List String) (c : Int) :
    ∀ (sps : List (SubProof G)) (vcs : List (VerCred G)) (seen : List (String × Int))
      (items : List Item), verifyLoop m common c sps vcs seen = .ok items →
      ∃ final : List (String × Int),
        (∀ a v, lookup a seen = some v → lookup a final = some v) ∧
        ∀ sp ∈ sps, ∀ a ∈ common, ∃ v, lookup a sp.eq.m = some v ∧ lookup a final = some v := by
  intro sps
  induction sps with
  | nil => intro vcs seen items _; exact ⟨seen, fun _ _ h => h, fun sp hsp => by simp at hsp⟩
  | cons sp sps ih =>
    intro vcs seen items h
    cases vcs with
    | nil => simp [verifyLoop] at h
    | cons vc vcs =>
      simp only [verifyLoop] at h
      split at h
      · simp at h
      · cases hnr : (if (sp.hasNonRevoc && vc.hasRKey && vc.hasRegistry && vc.hasRegKey) = true
            then sp.nrTaus else Outcome.ok []) with
        | ok nrItems =>
          rw [hnr] at h
          simp only [Outcome.bind_ok] at h
          by_cases hall : (!(common.all fun a =>
              (unrevealedOf vc.schema vc.nonSchema vc.req.revealed).contains a)) = true
          · rw [if_pos hall] at h; simp at h
          rw [if_neg hall] at h
          cases hcp : commonPass common sp.eq seen common with
          | ok seen' =>
            rw [hcp] at h
            simp only [Outcome.bind_ok] at h
            cases hvp : verifyPrimaryProof vc.o m vc.pk sp.eq sp.ne c
                (unrevealedOf vc.schema vc.nonSchema vc.req.revealed) with
            | ok ts =>
              rw [hvp] at h
              simp only [Outcome.bind_ok] at h
              cases hrest : verifyLoop m common c sps vcs seen' with
              | ok rest =>
                obtain ⟨final, hf1, hf2⟩ := ih vcs seen' rest hrest
                obtain ⟨hag, hkeep⟩ := commonPass_ok common sp.eq common seen seen' hcp
                refine ⟨final, fun a v hv => hf1 a v (hkeep a v hv), ?_⟩
                intro sp' hsp' a ha
                simp only [List.mem_cons] at hsp'
                rcases hsp' with rfl | hsp'
                · obtain ⟨v, hv1, hv2⟩ := hag a ha
                  exact ⟨v, hv1, hf1 a v hv2⟩
                · exact hf2 sp' hsp' a ha
              | err => rw [hrest] at h; simp at h
              | panic => rw [hrest] at h; simp at h
            | err => rw [hvp] at h; simp at h
            | panic => rw [hvp] at h; simp at h
          | err => rw [hcp] at h; simp at h
          | panic => rw [hcp] at h; simp at h
        | err => rw [hnr] at h; simp at h
        | panic => rw [hnr] at h; simp at h

/-- corollary: in an accepted multi-credential proof all sub-proofs carry the same response
for every declared common attribute -/
theorem common_responses_equal (m : OvfMode) (common : List String) (c : Int)
    (sps : List (SubProof G)) (vcs : List (VerCred G)) (items : List Item)
    (h : verifyLoop m common c sps vcs [] = .ok items) :
    ∀ sp₁ ∈ sps, ∀ sp₂ ∈ sps, ∀ a ∈ common, lookup a sp₁.eq.m = lookup a sp₂.eq.m ∧
      (lookup a sp₁.eq.m).isSome := by
  obtain ⟨final, _, hf⟩ := common_enforced m common c sps vcs [] items h
  intro sp₁ h₁ sp₂ h₂ a ha
  obtain ⟨v₁, e₁, f₁⟩ := hf sp₁ h₁ a ha
  obtain ⟨v₂, e₂, f₂⟩ := hf sp₂ h₂ a ha
  rw [f₁] at f₂; cases f₂
  exact ⟨by rw [e₁, e₂], by rw [e₁]; rfl⟩

/-- **the honest prover keeps the shared blinder**: `get_mtilde` only fills missing entries,
so the blinder seeded for a common attribute is the one used in every sub-proof … -/
theorem common_seed_preserved (fresh : String → ℤ) (un : List String)
    (common : List (String × ℤ)) (a : String) (mt : ℤ) (h : lookup a common = some mt) :
    lookup a (getMtilde fresh un common) = some mt :=
  getMtilde_preserves fresh un common a mt h

/-- … hence the responses `m̂ = c·m + m̃` of two credentials for a common attribute agree iff
the attribute values agree (for a non-zero challenge): equal values are accepted by the
common-attribute pass, different values are rejected by it. -/
theorem responses_equal_iff_values_equal (c mt v₁ v₂ : ℤ) (hc : c ≠ 0) :
    c * v₁ + mt = c * v₂ + mt ↔ v₁ = v₂ := by
  constructor
  · intro h
    have : c * v₁ = c * v₂ := by omega
    exact mul_left_cancel₀ hc this
  · intro h; rw [h]

/-- **the response is one of the exponents of the verification equation**: in an accepted
proof every declared common attribute is an unrevealed attribute of the schema of EVERY
credential — so its response is consumed by `calc_teq` of that sub-proof (the `unrevealed`
list passed to `verifyPrimaryProof`), not a dummy entry of `eq_proof.m`.  False of the pinned
tree: an entry copied into `eq_proof.m` for an attribute the schema lacks, or that the
sub-proof reveals, passed (repaired aad0576). -/
theorem common_is_hidden_exponent (m : OvfMode) (common : List String) (c : Int) :
    ∀ (sps : List (SubProof G)) (vcs : List (VerCred G)) (seen : List (String × Int))
      (items : List Item), sps.length = vcs.length →
      verifyLoop m common c sps vcs seen = .ok items →
      ∀ vc ∈ vcs, ∀ a ∈ common, a ∈ unrevealedOf vc.schema vc.nonSchema vc.req.revealed := by
  intro sps
  induction sps with
  | nil =>
    intro vcs seen items hl _ vc hvc
    cases vcs with
    | nil => simp at hvc
    | cons _ _ => simp at hl
  | cons sp sps ih =>
    intro vcs seen items hl h
    cases vcs with
    | nil => simp at hl
    | cons vc vcs =>
      simp only [verifyLoop] at h
      split at h
      · simp at h
      · cases hnr : (if (sp.hasNonRevoc && vc.hasRKey && vc.hasRegistry && vc.hasRegKey) = true
            then sp.nrTaus else Outcome.ok []) with
        | ok nrItems =>
          rw [hnr] at h
          simp only [Outcome.bind_ok] at h
          by_cases hall : (!(common.all fun a =>
              (unrevealedOf vc.schema vc.nonSchema vc.req.revealed).contains a)) = true
          · rw [if_pos hall] at h; simp at h
          rw [if_neg hall] at h
          cases hcp : commonPass common sp.eq seen common with
          | ok seen' =>
            rw [hcp] at h
            simp only [Outcome.bind_ok] at h
            cases hvp : verifyPrimaryProof vc.o m vc.pk sp.eq sp.ne c
                (unrevealedOf vc.schema vc.nonSchema vc.req.revealed) with
            | ok ts =>
              rw [hvp] at h
              simp only [Outcome.bind_ok] at h
              cases hrest : verifyLoop m common c sps vcs seen' with
              | ok rest =>
                intro vc' hvc' a ha
                simp only [List.mem_cons] at hvc'
                rcases hvc' with rfl | hvc'
                · simp only [Bool.not_eq_true', Bool.not_eq_false, List.all_eq_true] at hall
                  simpa using hall a ha
                · exact ih vcs seen' rest (by simpa using hl) hrest vc' hvc' a ha
              | err => rw [hrest] at h; simp at h
              | panic => rw [hrest] at h; simp at h
            | err => rw [hvp] at h; simp at h
            | panic => rw [hvp] at h; simp at h
          | err => rw [hcp] at h; simp at h
          | panic => rw [hcp] at h; simp at h
        | err => rw [hnr] at h; simp at h
        | panic => rw [hnr] at h; simp at h

/-- a dummy response is rejected: if the first credential's schema lacks a declared common
attribute, or its sub-proof request reveals it, the loop does not succeed — whatever
`eq_proof.m` contains -/
theorem dummy_response_rejected (m : OvfMode) (common : List String) (c : Int)
    (sp : SubProof G) (vc : VerCred G) (sps : List (SubProof G)) (vcs : List (VerCred G))
    (seen : List (String × Int)) (a : String) (ha : a ∈ common)
    (hno : a ∉ unrevealedOf vc.schema vc.nonSchema vc.req.revealed) (hl : sps.length = vcs.length) :
    ∀ items, verifyLoop m common c (sp :: sps) (vc :: vcs) seen ≠ .ok items := by
  intro items h
  exact hno (common_is_hidden_exponent m common c (sp :: sps) (vc :: vcs) seen items
    (by simp [hl]) h vc (by simp) a ha)

/-- revealed ⇒ not hidden; absent from both schemas ⇒ not hidden -/
theorem revealed_not_hidden (schema nonSchema revealed : List String) (a : String)
    (h : a ∈ revealed) : a ∉ unrevealedOf schema nonSchema revealed := by
  unfold unrevealedOf
  simp [h]

theorem absent_not_hidden (schema nonSchema revealed : List String) (a : String)
    (h1 : a ∉ schema) (h2 : a ∉ nonSchema) : a ∉ unrevealedOf schema nonSchema revealed := by
  unfold unrevealedOf
  simp [h1, h2]

/-! non-vacuity: a two-entry `seen` and a matching sub-proof map -/
example : commonPass (G := ℤ) ["master_secret"] ⟨[], 0, 0, 0, [("master_secret", 42)], 0⟩ []
    ["master_secret"] = .ok [("master_secret", 42)] := by decide

/-- **the common-attribute pass of the source has the model's shape**: every declared name, in
every sub-proof: not a hidden attribute of the sub-proof ⇒ error; response missing ⇒ error;
first response stored, later ones compared with `!=` (emptying the slot after a comparison, or
skipping revealed attributes, breaks it) -/
theorem common_pass_from_source :
    Gen.commonPassShape = true ∧ Gen.commonHiddenGuard = true := ⟨rfl, rfl⟩

/-- **the verdict on a proof is a function of that proof** (repaired f14e19b): the model's `verify`
starts the common-attribute table empty for every proof (`verifyTranscript` calls `verifyLoop … []`);
the library keeps the table in the verifier object, whose `verify` takes `&mut self`, and clears
it at the start of every call — regenerated from `verifier.rs`. Without the reset a verifier
that is used again rejects the second valid proof (stream `common`, cases `common/reuse/*`). -/
theorem common_state_reset_from_source : Gen.commonStateResetPerCall = true := rfl

/-- the model side of the same statement: the table the loop starts from is empty -/
theorem verify_starts_from_empty_table {G : Type} (m : OvfMode) (common : List String)
    (creds : List (VerCred G)) (p : Proof G) (nonce : ByteArray)
    (h1 : p.proofs.length = creds.length) (h2 : allPairsConsistent p.proofs creds = true) :
    verifyTranscript m common creds p nonce =
      (verifyLoop m common p.cHash p.proofs creds []).map fun taus =>
        taus ++ p.cList.map Item.bytes ++ [Item.bytes nonce] := by
  simp [verifyTranscript, h1, h2]

end CL.C11
