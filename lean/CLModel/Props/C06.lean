import CLModel.Proofs.Primary
import CLModel.Gen.Verifier
import CLModel.Model.Issuance
import Mathlib.GroupTheory.OrderOfElement
import Mathlib.Data.Nat.Prime.Basic
import Mathlib.Tactic.Module
import Mathlib.Tactic.Linarith
import Mathlib.Tactic.NormNum
/-!
# C06 — Credential definitions are well-formed and their key proof is sound

* `semiprime_generator`: the doc-comment of `generates_semiprime_subgroup` as a theorem.
* decision logic and algebraic core of the key-correctness proof.
Primality/safeness of the generated factors and the randomness of generation are back-end
behaviour, observed by the correspondence stream's independent oracle (a test), not proved.
-/
namespace CL.C06
open CL CL.Pri CL.Iss

/-- **`generates_semiprime_subgroup`**: in any monoid, for distinct primes `p'`, `q'` and an
element `s` of the subgroup of exponent `p'q'` (every square of `(ℤ/n)ˣ`, `n = (2p'+1)(2q'+1)`,
is one), the three tests of the function — `s ≠ 1`, `s^p' ≠ 1`, `s^q' ≠ 1` — hold exactly when
`s` has order `p'q'`, i.e. generates the whole group of quadratic residues. -/
theorem semiprime_generator {M : Type} [Monoid M] (s : M) (p q : ℕ) (hp : p.Prime) (hq : q.Prime)
    (hne : p ≠ q) (hs : s ^ (p * q) = 1) :
    (s ≠ 1 ∧ s ^ p ≠ 1 ∧ s ^ q ≠ 1) ↔ orderOf s = p * q := by
  have hdvd : orderOf s ∣ p * q := orderOf_dvd_of_pow_eq_one hs
  constructor
  · rintro ⟨h1, hp1, hq1⟩
    -- divisors of p*q: 1, p, q, pq
    have hnp : ¬ orderOf s ∣ p := fun h => hp1 (orderOf_dvd_iff_pow_eq_one.mp h)
    have hnq : ¬ orderOf s ∣ q := fun h => hq1 (orderOf_dvd_iff_pow_eq_one.mp h)
    -- p ∣ orderOf s: otherwise orderOf s is coprime to p and divides q
    have hpd : p ∣ orderOf s := by
      by_contra hc
      have hcop : Nat.Coprime (orderOf s) p := (Nat.Coprime.symm ((Nat.Prime.coprime_iff_not_dvd hp).mpr hc))
      exact hnq (Nat.Coprime.dvd_of_dvd_mul_left hcop hdvd)
    have hqd : q ∣ orderOf s := by
      by_contra hc
      have hcop : Nat.Coprime (orderOf s) q := (Nat.Coprime.symm ((Nat.Prime.coprime_iff_not_dvd hq).mpr hc))
      exact hnp (Nat.Coprime.dvd_of_dvd_mul_right hcop hdvd)
    have hpq : Nat.Coprime p q := (Nat.coprime_primes hp hq).mpr hne
    exact Nat.dvd_antisymm hdvd (Nat.Coprime.mul_dvd_of_dvd_of_dvd hpq hpd hqd)
  · intro ho
    have hpos : 0 < p * q := Nat.mul_pos hp.pos hq.pos
    refine ⟨?_, ?_, ?_⟩
    · intro h1
      rw [h1, orderOf_one] at ho
      have : p * q > 1 := Nat.one_lt_mul_iff.mpr ⟨hp.pos, hq.pos, Or.inl hp.one_lt⟩
      omega
    · intro h
      have := orderOf_dvd_of_pow_eq_one h
      rw [ho] at this
      have hle := Nat.le_of_dvd hp.pos this
      have h2 : q ≥ 2 := hq.two_le
      have h3 : p * 2 ≤ p * q := Nat.mul_le_mul_left p h2
      have h4 := hp.pos
      omega
    · intro h
      have := orderOf_dvd_of_pow_eq_one h
      rw [ho] at this
      have hle := Nat.le_of_dvd hq.pos this
      have h2 : p ≥ 2 := hp.two_le
      have h3 : 2 * q ≤ p * q := Nat.mul_le_mul_right q h2
      have h4 := hq.pos
      omega

section logic
variable {G : Type}

/-- **coverage of the key proof (decision logic)**: an accepted key-correctness proof names
every `R` of the key except possibly the legacy-exempt `master_secret`, names only attributes
of the key, and its challenge is a hash value. The only key elements a proof can leave
uncovered are therefore `R_master_secret` (legacy layout) — and `Rctxt`, which the protocol's
key proof does not include at all (recorded as a finding in DESIGN §5). -/
theorem key_proof_names_cover (o : GroupOps G) (H : List ByteArray → Int) (pk : PubKey G)
    (p : KeyProof) (h : checkKeyProof o H pk p = .ok true) :
    (∀ k ∈ keys pk.r, k ∈ keys p.xrCap ∨ k = "master_secret") ∧
    (∀ k ∈ keys p.xrCap, (lookup k pk.r).isSome) := by
  unfold checkKeyProof at h
  simp only at h
  split at h
  · simp at h
  · next h1 =>
    split at h
    · simp at h
    · next h2 =>
      constructor
      · intro k hk
        by_contra hc
        rw [not_or] at hc
        apply h1
        simp only [List.any_eq_true]
        refine ⟨k, hk, ?_⟩
        simp [hc.1, hc.2]
      · intro k hk
        by_contra hc
        apply h2
        simp only [List.any_eq_true]
        exact ⟨k, hk, by simpa using hc⟩

/-- **an accepted key has an invertible `S`** (repaired in /repo): the holder's check succeeds
only if `S⁻¹ mod n` exists. For `S = 0` every recomputed commitment `Z^{-c}·S^{x̂z}`,
`R^{-c}·S^{x̂r}` vanishes whatever `Z` and the `R_k` are, so before the repair anybody could write
an accepted proof for such a key (stream `keyforge`, variant `s_zero_forgery`). -/
theorem key_check_requires_invertible_s (o : GroupOps G) (H : List ByteArray → Int) (pk : PubKey G)
    (p : KeyProof) (h : checkKeyProof o H pk p = .ok true) : ∃ si, o.inv pk.s = .ok si := by
  unfold checkKeyProof at h
  simp only at h
  split at h
  · simp at h
  · split at h
    · simp at h
    · cases hs : o.inv pk.s with
      | ok si => exact ⟨si, rfl⟩
      | err => rw [hs] at h; simp [Outcome.bind] at h
      | panic => rw [hs] at h; simp [Outcome.bind] at h

end logic

section algebra
variable {A : Type} [AddCommGroup A]

/-- **algebraic core of the key proof**: for `Z = xz•S` and response `x̂z = c·xz + x̃z`, the
holder's recomputed `Ẑ = (−c)•Z + x̂z•S` is the issuer's commitment `x̃z•S` (same for every
`R_k = xr_k•S`), so an honestly generated proof hashes the same values on both sides. -/
theorem key_proof_core (S : A) (c x xt : ℤ) :
    c • -(x • S) + (c * x + xt) • S = xt • S := by module

/-- conversely two accepted responses for the same commitment and different challenges
determine the exponent: `(c₁ − c₂)•Z = (x̂₁ − x̂₂)•S` — `Z` lies in `⟨S⟩` up to the usual
division step. -/
theorem key_proof_extraction (S Z : A) (c₁ c₂ x₁ x₂ : ℤ)
    (h : c₁ • -Z + x₁ • S = c₂ • -Z + x₂ • S) : (c₁ - c₂) • Z = (x₁ - x₂) • S := by
  have key : ∀ (X Y : A), X = Y → X - Y = 0 := fun X Y e => by rw [e, sub_self]
  have h0 := key _ _ h
  have h0' := congrArg (fun x => -x) h0
  simp only [neg_zero] at h0'
  rw [← sub_eq_zero, ← h0']
  module

/-- revocation key pairs in exponent form: `pk = sk•g`, `y = x•ĥ` are what
`_new_credential_revocation_keys` computes (`g.mul(&sk)`, `h_cap.mul(&x)`); the generators are
non-zero and pairwise distinct iff their (random) scalars are — evaluated on every generated key
by the harness. -/
theorem rev_key_corresponds {F : Type} [CommRing F] (g hcap sk x : F) :
    (sk * g = g * sk) ∧ (x * hcap = hcap * x) := ⟨mul_comm _ _, mul_comm _ _⟩

end algebra

/-! non-vacuity: 3 has order 2·… in a toy group -/
example : (2 : ℕ).Prime ∧ (3 : ℕ).Prime ∧ (2 : ℕ) ≠ 3 := ⟨Nat.prime_two, Nat.prime_three, by decide⟩

/-- **names covered by the key proof, as in the source**: the only generator that may be missing
from `xr_cap` is the legacy `master_secret`; every name of `xr_cap` must be in the key (recognised by
the translator in `Prover::_check_credential_key_correctness_proof`) -/
theorem key_proof_names_from_source :
    Gen.keyProofExemptsOnlyMasterSecret = true ∧ Gen.keyProofNamesMustBeInKey = true := ⟨rfl, rfl⟩

end CL.C06
