import CLModel.Proofs.Merge
import CLModel.Props.C09
/-!
# C13 — Merged registry deltas equal sequential application

Model: `Reg.merge`, whose body is *interpreted from the statement list regenerated from
`RevocationRegistryDelta::merge`* (`Gen.mergeBody`). Index sets are lists read as sets
(`HashSet<u32>`); all statements are about membership, so they hold for sets of any size.
-/
namespace CL.C13
open CL CL.Reg

/-- the translator recognised the head of `merge` (consecutive check + `accum` assignment) -/
theorem merge_head_recognised : Gen.mergeHeadRecognised = true := rfl

/-- the merged `(issued, revoked)` computed by the regenerated body -/
def mergedSets (I₁ R₁ I₂ R₂ : List ℕ) : List ℕ × List ℕ :=
  runMerge I₂ R₂ Gen.mergeBody (I₁, R₁)

/-- **per-index truth table** of the regenerated body: membership of `x` in the merged
`issued` / `revoked` as a Boolean function of its four memberships — for all sets. -/
theorem merge_pointwise (I₁ R₁ I₂ R₂ : List ℕ) (x : ℕ) :
    (x ∈ (mergedSets I₁ R₁ I₂ R₂).1 ↔ (x ∈ I₁ ∨ (x ∈ I₂ ∧ x ∉ R₁)) ∧ x ∉ R₂) ∧
    (x ∈ (mergedSets I₁ R₁ I₂ R₂).2 ↔
      (x ∈ R₁ ∨ (x ∈ R₂ ∧ ¬ (x ∈ I₁ ∨ (x ∈ I₂ ∧ x ∉ R₁)))) ∧ x ∉ I₂) := by
  simp only [mergedSets, Gen.mergeBody, runMerge, mem_setRemoveAll, mem_setUnionDiff]
  tauto

/-- deltas of two consecutive operations of a protocol-respecting history: each delta's sets
are disjoint, nothing is issued twice or revoked twice in a row -/
structure Consecutive (I₁ R₁ I₂ R₂ : List ℕ) : Prop where
  d₁ : ∀ x, x ∈ I₁ → x ∉ R₁
  d₂ : ∀ x, x ∈ I₂ → x ∉ R₂
  ii : ∀ x, x ∈ I₁ → x ∉ I₂
  rr : ∀ x, x ∈ R₁ → x ∉ R₂

/-- **merged sets** for consecutive deltas: `issued = (I₁ \ R₂) ∪ (I₂ \ R₁)`,
`revoked = (R₁ \ I₂) ∪ (R₂ \ I₁)` — an index issued then revoked, or revoked then re-issued,
cancels out. -/
theorem merge_consecutive_sets (I₁ R₁ I₂ R₂ : List ℕ) (h : Consecutive I₁ R₁ I₂ R₂) (x : ℕ) :
    (x ∈ (mergedSets I₁ R₁ I₂ R₂).1 ↔ (x ∈ I₁ ∧ x ∉ R₂) ∨ (x ∈ I₂ ∧ x ∉ R₁)) ∧
    (x ∈ (mergedSets I₁ R₁ I₂ R₂).2 ↔ (x ∈ R₁ ∧ x ∉ I₂) ∨ (x ∈ R₂ ∧ x ∉ I₁)) := by
  obtain ⟨hp1, hp2⟩ := merge_pointwise I₁ R₁ I₂ R₂ x
  have h1 := h.d₁ x; have h2 := h.d₂ x; have h3 := h.ii x; have h4 := h.rr x
  generalize mergedSets I₁ R₁ I₂ R₂ = r at hp1 hp2 ⊢
  rw [hp1, hp2]
  by_cases a : x ∈ I₁ <;> by_cases b : x ∈ R₁ <;> by_cases c : x ∈ I₂ <;> by_cases d : x ∈ R₂ <;>
    simp_all

/-- issued-then-revoked and revoked-then-reissued cancel (corollaries) -/
theorem merge_cancels (I₁ R₁ I₂ R₂ : List ℕ) (h : Consecutive I₁ R₁ I₂ R₂) (x : ℕ) :
    (x ∈ I₁ → x ∈ R₂ → x ∉ (mergedSets I₁ R₁ I₂ R₂).1 ∧ x ∉ (mergedSets I₁ R₁ I₂ R₂).2) ∧
    (x ∈ R₁ → x ∈ I₂ → x ∉ (mergedSets I₁ R₁ I₂ R₂).1 ∧ x ∉ (mergedSets I₁ R₁ I₂ R₂).2) := by
  obtain ⟨hc1, hc2⟩ := merge_consecutive_sets I₁ R₁ I₂ R₂ h x
  have h1 := h.d₁ x; have h2 := h.d₂ x; have h3 := h.ii x; have h4 := h.rr x
  generalize mergedSets I₁ R₁ I₂ R₂ = r at hc1 hc2 ⊢
  rw [hc1, hc2]
  by_cases a : x ∈ I₁ <;> by_cases b : x ∈ R₁ <;> by_cases c : x ∈ I₂ <;> by_cases d : x ∈ R₂ <;>
    simp_all

/-- the merged sets stay disjoint -/
theorem merge_disjoint (I₁ R₁ I₂ R₂ : List ℕ) (h : Consecutive I₁ R₁ I₂ R₂) (x : ℕ) :
    x ∈ (mergedSets I₁ R₁ I₂ R₂).1 → x ∉ (mergedSets I₁ R₁ I₂ R₂).2 := by
  obtain ⟨hc1, hc2⟩ := merge_consecutive_sets I₁ R₁ I₂ R₂ h x
  have h1 := h.d₁ x; have h2 := h.d₂ x; have h3 := h.ii x; have h4 := h.rr x
  generalize mergedSets I₁ R₁ I₂ R₂ = r at hc1 hc2 ⊢
  rw [hc1, hc2]
  by_cases a : x ∈ I₁ <;> by_cases b : x ∈ R₁ <;> by_cases c : x ∈ I₂ <;> by_cases d : x ∈ R₂ <;>
    simp_all

variable {F : Type}

/-- **endpoints**: an accepted merge starts at the first delta's previous accumulator and
ends at the second one's accumulator. -/
theorem merge_endpoints (eqF : F → F → Bool) (d₁ d₂ d : Delta F)
    (h : merge eqF d₁ d₂ = .ok d) : d.prev = d₁.prev ∧ d.acc = d₂.acc := by
  unfold merge at h
  cases hp : d₂.prev with
  | none => simp [hp] at h
  | some p =>
    simp only [hp] at h
    by_cases he : eqF d₁.acc p
    · simp only [he, Bool.not_true, Bool.false_eq_true, if_false, Outcome.ok.injEq] at h
      subst h; exact ⟨rfl, rfl⟩
    · simp [he] at h

/-- **non-consecutive deltas are refused** (and `merge` being a function of its arguments,
the target is left as it was). -/
theorem merge_refuses_nonconsecutive (eqF : F → F → Bool) (d₁ d₂ : Delta F)
    (h : d₂.prev = none ∨ ∃ p, d₂.prev = some p ∧ eqF d₁.acc p = false) :
    merge eqF d₁ d₂ = .err := by
  unfold merge
  rcases h with h | ⟨p, hp, he⟩
  · simp [h]
  · simp [hp, he]

/-- **consecutive deltas are accepted** with the sets of `merge_consecutive_sets` -/
theorem merge_accepts_consecutive (eqF : F → F → Bool) (d₁ d₂ : Delta F) (p : F)
    (hp : d₂.prev = some p) (he : eqF d₁.acc p = true) :
    merge eqF d₁ d₂ = .ok ⟨d₁.prev, d₂.acc,
      (mergedSets d₁.issued d₁.revoked d₂.issued d₂.revoked).1,
      (mergedSets d₁.issued d₁.revoked d₂.issued d₂.revoked).2⟩ := by
  unfold merge mergedSets
  simp [hp, he]

/-! ### effect on witnesses -/

section witness
open Finset
variable {K : Type} [CommRing K]

/-- two deltas that follow each other from a state with valid set `V` are `Consecutive` -/
theorem consecutive_of_applicable (L : ℕ) (V : Finset ℕ) (I₁ R₁ I₂ R₂ : List ℕ)
    (h₁ : C09.Applicable L V I₁ R₁)
    (h₂ : C09.Applicable L ((V ∪ I₁.toFinset) \ R₁.toFinset) I₂ R₂) : Consecutive I₁ R₁ I₂ R₂ := by
  refine ⟨h₁.disj, h₂.disj, ?_, ?_⟩
  · intro x hx hx2
    exact h₂.fresh x hx2 (by simp [hx, h₁.disj x hx])
  · intro x hx hx2
    have := h₂.valid x hx2
    simp [hx] at this

/-- **merged delta ≡ sequential application on every witness**: for every holder index `i`,
updating `witOf V` with `merge d₁ d₂` gives the same witness as updating with `d₁` and then
with `d₂` (both are `witOf` of the final valid set). -/
theorem merge_update_equiv (γ : K) (m : OvfMode) (L i : ℕ) (hL : TailsOk L) (hi : InRange L i)
    (V : Finset ℕ) (d₁ d₂ : Delta K)
    (h₁ : C09.Applicable L V d₁.issued d₁.revoked)
    (h₂ : C09.Applicable L ((V ∪ d₁.issued.toFinset) \ d₁.revoked.toFinset) d₂.issued d₂.revoked)
    (dm : Delta K)
    (hdm : dm.issued = (mergedSets d₁.issued d₁.revoked d₂.issued d₂.revoked).1 ∧
           dm.revoked = (mergedSets d₁.issued d₁.revoked d₂.issued d₂.revoked).2) :
    witnessUpdate ringOps γ m L i (witOf γ L i V) dm
      = (witnessUpdate ringOps γ m L i (witOf γ L i V) d₁).bind
          fun ω => witnessUpdate ringOps γ m L i ω d₂ := by
  have hc := consecutive_of_applicable L V _ _ _ _ h₁ h₂
  have hmem := fun x => merge_consecutive_sets d₁.issued d₁.revoked d₂.issued d₂.revoked hc x
  obtain ⟨hdi, hdr⟩ := hdm
  -- the merged delta is applicable at `V`
  have ham : C09.Applicable L V dm.issued dm.revoked := by
    refine ⟨?_, ?_, ?_, ?_, ?_⟩
    · intro j hj; rw [hdi, (hmem j).1] at hj
      rcases hj with ⟨h, _⟩ | ⟨h, _⟩
      · exact h₁.rangeI j h
      · exact h₂.rangeI j h
    · intro j hj; rw [hdr, (hmem j).2] at hj
      rcases hj with ⟨h, _⟩ | ⟨h, _⟩
      · exact h₁.rangeR j h
      · exact h₂.rangeR j h
    · intro j hj; rw [hdi, (hmem j).1] at hj
      rcases hj with ⟨h, _⟩ | ⟨h, hn⟩
      · exact h₁.fresh j h
      · intro hv
        exact h₂.fresh j h (by simp [hv, hn])
    · intro j hj; rw [hdr, (hmem j).2] at hj
      rcases hj with ⟨h, _⟩ | ⟨h, hn⟩
      · exact h₁.valid j h
      · have := h₂.valid j h
        simp [hn] at this
        exact this.1
    · intro j hj hj2
      rw [hdi] at hj; rw [hdr] at hj2
      exact merge_disjoint _ _ _ _ hc j hj hj2
  rw [C09.update_witness_value γ m L i hL hi V dm ham,
    C09.update_witness_value γ m L i hL hi V d₁ h₁, Outcome.bind_ok,
    C09.update_witness_value γ m L i hL hi _ d₂ h₂]
  congr 2
  ext x
  have h1 := (hmem x).1; have h2 := (hmem x).2
  have a1 := h₁.disj x; have a2 := h₂.disj x; have a3 := hc.ii x; have a4 := hc.rr x
  have f1 := h₁.fresh x; have v1 := h₁.valid x
  simp only [mem_sdiff, mem_union, List.mem_toFinset, hdi, hdr, h1, h2]
  by_cases a : x ∈ d₁.issued <;> by_cases b : x ∈ d₁.revoked <;> by_cases c : x ∈ d₂.issued <;>
    by_cases e : x ∈ d₂.revoked <;> by_cases v : x ∈ V <;> simp_all

end witness

/-! non-vacuity -/
example : Consecutive [1, 2] [] [] [2] := ⟨by simp, by simp, by simp, by simp⟩
example : Consecutive [] [3] [3, 4] [] := ⟨by simp, by simp, by simp, by simp⟩

end CL.C13
