import CLModel.Model.Registry
namespace CL.C13
end CL.C13
