import CLModel.Proofs.Primary
import CLModel.Proofs.Guards
import Mathlib.Tactic.Linarith
import Mathlib.Tactic.NormNum
/-!
# C02 — Verifier accepts only proofs of possession of a valid credential

What is proved here (for every group, key, request, nonce and proof — no size bounds):
decision logic of acceptance, binding of the hashed transcript up to explicit SHA-256
collisions (no idealisation of the hash), the bound on the response `ê` and why it is needed
(the public-key-only forgery is *accepted by the core equation for every key* and rejected by
the bound), and the special-soundness extraction identity of the equality sub-protocol.
Unforgeability against every PPT adversary (strong RSA in the random-oracle model) is not a
theorem of this development; see DESIGN §6.
-/
namespace CL.C02
open CL CL.Pri

variable {G : Type}

/-- **decision logic**: an accepting verdict implies equal numbers of sub-proofs and requests,
per-pair equality of the revealed and predicate sets with the request, and that the proof's
challenge is the hash of the recomputed transcript `τ̂ ‖ c_list ‖ nonce`. -/
theorem verify_accept_implies (H : List ByteArray → Int) (m : OvfMode) (common : List String)
    (creds : List (VerCred G)) (p : Proof G) (nonce : ByteArray)
    (h : verify H m common creds p nonce = .ok true) :
    p.proofs.length = creds.length ∧ allPairsConsistent p.proofs creds = true ∧
    ∃ taus bs, verifyLoop m common p.cHash p.proofs creds [] = .ok taus ∧
      allBytes (taus ++ p.cList.map Item.bytes ++ [Item.bytes nonce]) = some bs ∧
      H bs = p.cHash := by
  unfold verify verifyTranscript at h
  by_cases hl : p.proofs.length != creds.length
  · simp [hl] at h
  · by_cases hc : !allPairsConsistent p.proofs creds
    · simp [hl, hc] at h
    · simp only [hl, hc, Bool.false_eq_true, if_false] at h
      cases hv : verifyLoop m common p.cHash p.proofs creds [] with
      | ok taus =>
        rw [hv] at h
        simp only [Outcome.map_ok, Outcome.bind_ok] at h
        cases hb : allBytes (taus ++ p.cList.map Item.bytes ++ [Item.bytes nonce]) with
        | some bs =>
          rw [hb] at h
          simp only [Outcome.ok.injEq, beq_iff_eq] at h
          refine ⟨by simpa using hl, by simpa using hc, taus, bs, rfl, hb, h⟩
        | none => rw [hb] at h; simp at h
      | err => rw [hv] at h; simp at h
      | panic => rw [hv] at h; simp at h

/-- **acceptance binds the transcript**: two accepted proofs carrying the same challenge whose
recomputed transcripts differ exhibit a collision of the hash function. Every "value-changing
alteration" of a hashed or hash-determining component that leaves `c_hash` alone is of this
kind; an alteration of `c_hash` itself changes the value the hash must hit. -/
theorem accept_binds_transcript (H : List ByteArray → Int) (m : OvfMode)
    (common common' : List String) (creds creds' : List (VerCred G)) (p p' : Proof G)
    (nonce nonce' : ByteArray)
    (h : verify H m common creds p nonce = .ok true)
    (h' : verify H m common' creds' p' nonce' = .ok true)
    (hc : p.cHash = p'.cHash) :
    ∀ bs bs', (∃ t, verifyLoop m common p.cHash p.proofs creds [] = .ok t ∧
                allBytes (t ++ p.cList.map Item.bytes ++ [Item.bytes nonce]) = some bs) →
              (∃ t, verifyLoop m common' p'.cHash p'.proofs creds' [] = .ok t ∧
                allBytes (t ++ p'.cList.map Item.bytes ++ [Item.bytes nonce']) = some bs') →
              bs ≠ bs' → ∃ x y, x ≠ y ∧ H x = H y := by
  intro bs bs' ⟨t, ht, hb⟩ ⟨t', ht', hb'⟩ hne
  obtain ⟨_, _, t1, b1, e1, e2, e3⟩ := verify_accept_implies H m common creds p nonce h
  obtain ⟨_, _, t2, b2, f1, f2, f3⟩ := verify_accept_implies H m common' creds' p' nonce' h'
  rw [ht] at e1; cases e1
  rw [hb] at e2; cases e2
  rw [ht'] at f1; cases f1
  rw [hb'] at f2; cases f2
  exact ⟨bs, bs', hne, by rw [e3, f3, hc]⟩

/-- **the response for `e` is bounded** in every accepted equality proof -/
theorem e_response_bounded (o : GroupOps G) (pk : PubKey G) (p : EqProof G) (c : Int)
    (un : List String) (t : G) (h : verifyEquality o pk p c un = .ok t) :
    0 ≤ p.e ∧ p.e < 2 ^ (Gen.LARGE_ETILDE + 1) := by
  unfold verifyEquality at h
  by_cases hb : p.e < 0 ∨ p.e ≥ 2 ^ (Gen.LARGE_ETILDE + 1)
  · simp [hb] at h
  · omega

/-- **public-key-only forgery is rejected**: the response `ê = c·(1 − 2^596)` of the forgery
that sets `A' := Z / Π_rev R^m` (unit exponent `e = 1`) is negative for every challenge
`c > 0`, hence outside the allowed range — for every key, request and choice of the other
responses. -/
theorem forge_unit_e_rejected (o : GroupOps G) (pk : PubKey G) (p : EqProof G) (c : Int)
    (un : List String) (hc : 0 < c) (he : p.e = c * (1 - 2 ^ Gen.largeEStartValueExp)) :
    verifyEquality o pk p c un = .err := by
  have hpow : (2 : Int) ^ Gen.largeEStartValueExp ≥ 2 := by
    have : Gen.largeEStartValueExp = 596 := rfl
    rw [this]
    exact le_trans (by norm_num) (pow_le_pow_right₀ (by norm_num : (1 : Int) ≤ 2) (by norm_num : 1 ≤ 596))
  have hneg : p.e < 0 := by
    rw [he]
    have : (1 : Int) - 2 ^ Gen.largeEStartValueExp < 0 := by
      generalize (2 : Int) ^ Gen.largeEStartValueExp = X at *
      linarith
    exact mul_neg_of_pos_of_neg hc this
  simp [verifyEquality, hneg]

/-- more generally any forged signature with an exponent `e < 2^596 − 2^201`-ish small enough
that `e' = e − 2^596` is hugely negative is rejected: if `ê = c·e' + ẽ` with `ẽ < 2^456`,
`c ≥ 1` and `e' ≤ −2^456`, then `ê < 0`. -/
theorem forge_small_e_rejected (o : GroupOps G) (pk : PubKey G) (p : EqProof G) (c : Int)
    (un : List String) (e' eTilde : Int) (hc : 1 ≤ c) (he' : e' ≤ -(2 ^ 456)) (ht : eTilde < 2 ^ 456)
    (he : p.e = c * e' + eTilde) : verifyEquality o pk p c un = .err := by
  have h1 : c * e' ≤ 1 * e' := by
    have : e' ≤ 0 := le_trans he' (by simp)
    exact mul_le_mul_of_nonpos_right hc this
  have hneg : p.e < 0 := by rw [he]; linarith
  simp [verifyEquality, hneg]

section algebra
variable {A : Type} [AddCommGroup A] [DecidableEq A] (enc : A → ByteArray)

/-- **why the bound is needed** (machine-checked description of the repaired defect): without
the range check the forgery verifies for *every* key. With `A' := Z − Σ_rev m•R`, arbitrary
`v̂, m̂, m̂₂` and `ê := c·(1 − 2^596)`, the core equation returns exactly the first message
`T = v̂•S + Σ m̂•R + m̂₂•Rctxt` the forger can compute from public data before hashing. -/
theorem forge_unit_e_core_accepts (pk : PubKey A) (un rev : List String) (rf : String → A)
    (mhat val : String → ℤ) (vhat m2hat c : ℤ)
    (hr : Maps pk.r (un ++ rev) rf) :
    let a' := pk.z - (rev.map fun k => val k • rf k).sum
    let p : EqProof A := ⟨rev.map (fun k => (k, val k)), a', c * (1 - 2 ^ Gen.largeEStartValueExp),
      vhat, un.map (fun k => (k, mhat k)), m2hat⟩
    verifyEqualityCore (addOps enc) pk p c un
      = .ok (m2hat • pk.rctxt + (vhat • pk.s + (un.map fun k => mhat k • rf k).sum)) := by
  intro a' p
  have hun : ∀ k ∈ un, k ∈ un ++ rev := fun k hk => by simp [hk]
  have hrev : ∀ k ∈ rev, k ∈ un ++ rev := fun k hk => by simp [hk]
  simp only [verifyEqualityCore, p,
    calcTeq_value enc pk _ _ _ _ _ un rf _ (hr.mono hun) (maps_map_self mhat un),
    Outcome.bind_ok, addOps_pow, keys_map_self,
    mulPows_sum enc pk.r _ rf val rev _ (hr.mono hrev) (maps_map_self val rev), addOps_inv,
    addOps_mul]
  congr 1
  simp only [a']
  module

/-- **special soundness of the equality sub-protocol (extraction identity)**: two transcripts
with the same `A'`, the same revealed values and the same first message `T`, accepted by the
core equation under challenges `c`, `c'`, satisfy
`Δc • (Z − Σ_rev m•R − 2^596•A') = Δê•A' + Δv̂•S + Σ Δm̂•R + Δm̂₂•Rctxt`.
If the group has no `Δc`-torsion issue and `Δc` divides the response differences (the step
where the strong-RSA assumption enters; not proved here), dividing by `Δc` yields a valid CL
signature `(A', e, v)` on the revealed values and the extracted hidden ones. -/
theorem eq_special_soundness (pk : PubKey A) (un rev : List String) (rf : String → A)
    (val : String → ℤ) (a' : A) (e₁ v₁ m2₁ c₁ e₂ v₂ m2₂ c₂ : ℤ) (mh₁ mh₂ : String → ℤ) (T : A)
    (hr : Maps pk.r (un ++ rev) rf)
    (h₁ : verifyEqualityCore (addOps enc) pk
      ⟨rev.map (fun k => (k, val k)), a', e₁, v₁, un.map (fun k => (k, mh₁ k)), m2₁⟩ c₁ un = .ok T)
    (h₂ : verifyEqualityCore (addOps enc) pk
      ⟨rev.map (fun k => (k, val k)), a', e₂, v₂, un.map (fun k => (k, mh₂ k)), m2₂⟩ c₂ un = .ok T) :
    (c₁ - c₂) • (pk.z - (rev.map fun k => val k • rf k).sum - (2 : ℤ) ^ Gen.largeEStartValueExp • a')
      = (e₁ - e₂) • a' + (v₁ - v₂) • pk.s
        + ((un.map fun k => mh₁ k • rf k).sum - (un.map fun k => mh₂ k • rf k).sum)
        + (m2₁ - m2₂) • pk.rctxt := by
  have hun : ∀ k ∈ un, k ∈ un ++ rev := fun k hk => by simp [hk]
  have hrev : ∀ k ∈ rev, k ∈ un ++ rev := fun k hk => by simp [hk]
  simp only [verifyEqualityCore,
    calcTeq_value enc pk _ _ _ _ _ un rf _ (hr.mono hun) (maps_map_self _ un),
    Outcome.bind_ok, addOps_pow, keys_map_self,
    mulPows_sum enc pk.r _ rf val rev _ (hr.mono hrev) (maps_map_self val rev), addOps_inv,
    addOps_mul, Outcome.ok.injEq] at h₁ h₂
  have h := h₁.trans h₂.symm
  -- both sides equal T: subtract and regroup
  have key : ∀ (X Y : A), X = Y → X - Y = 0 := fun X Y e => by rw [e, sub_self]
  have h0 := key _ _ h
  have h0' := congrArg (fun x => -x) h0
  simp only [neg_zero] at h0'
  rw [← sub_eq_zero, ← h0']
  module

end algebra

/-! non-vacuity -/
example : (0 : ℤ) < 5 ∧ (5 : ℤ) * (1 - 2 ^ Gen.largeEStartValueExp) < 0 := by
  refine ⟨by norm_num, ?_⟩
  have : Gen.largeEStartValueExp = 596 := rfl
  rw [this]
  have : (2 : ℤ) ^ 596 ≥ 2 := le_trans (by norm_num) (pow_le_pow_right₀ (by norm_num : (1 : ℤ) ≤ 2) (by norm_num : 1 ≤ 596))
  generalize (2 : ℤ) ^ 596 = X at *
  linarith

/-! ## the verifier's guards, regenerated from `verifier.rs` on every run -/

/-- **the range guard on the response for `e` in the Rust source is the model's condition**:
`proof.e.is_negative() || proof.e.num_bits() > LARGE_ETILDE + 1`, as extracted by the
translator (`Gen.eRangeGuard`), evaluated on the sign and bit length of any integer, is
`e < 0 ∨ e ≥ 2^(LARGE_ETILDE+1)`.  Type-checks only while the source has that shape: `&&` for
`||`, another bound or a dropped clause break it. -/
theorem e_range_guard_from_source (e : Int) :
    evalGuard Gen.eRangeGuard [signOf e, numBits e]
      = decide (e < 0 ∨ e ≥ 2 ^ (Gen.LARGE_ETILDE + 1)) := eRange_shape_spec e

/-- … hence the model's `verifyEquality` IS "source guard, then the recomputation" -/
theorem verify_equality_source_guard {G : Type} (o : GroupOps G) (pk : PubKey G) (p : EqProof G)
    (c : Int) (un : List String) :
    verifyEquality o pk p c un
      = if evalGuard Gen.eRangeGuard [signOf p.e, numBits p.e] = true then .err
        else verifyEqualityCore o pk p c un := by
  rw [e_range_guard_from_source]
  unfold verifyEquality
  simp only [decide_eq_true_eq]

/-- **the sub-proof count guard in the source rejects exactly unequal counts**
(`proof.proofs.len() != credentials.len()`; `>` for `!=` breaks it) -/
theorem proof_len_guard_from_source (a b : Nat) :
    evalGuard Gen.proofLenGuard [(a : Int), (b : Int)] = (a != b) := proofLen_shape_spec a b

/-- **request consistency is set equality in the source**: the set of names in
`eq_proof.revealed_attrs` and the set of proven predicates are compared with the requested sets
with `!=` (the model's `pairConsistent`); "every requested name is present" or "as many proofs as
predicates, each one requested" break it -/
theorem request_consistency_from_source :
    Gen.revealedSetEquality = true ∧ Gen.predicateSetEquality = true := ⟨rfl, rfl⟩

end CL.C02
