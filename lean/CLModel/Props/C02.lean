import CLModel.Model.Primary
namespace CL.C02
end CL.C02
