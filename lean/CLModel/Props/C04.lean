import CLModel.Proofs.Primary
import CLModel.Gen.DrawSites
import Mathlib.Data.ZMod.Basic
import CLModel.Model.Issuance
import CLModel.Proofs.ZnRefine
import CLModel.Proofs.OpsRelIssuance
import Mathlib.Data.Nat.Bitwise
import Mathlib.Tactic.Linarith
import CLModel.Proofs.WitnessSig
import CLModel.Props.C09
/-!
# C04 — Issued signatures are valid CL signatures with the prescribed parameters

Algebra for every additive commutative group `A` in which multiplication by `e·e⁻¹` is the
identity (true in the subgroup of order `p'q'` of `(ℤ/n)ˣ` when `e·e⁻¹ ≡ 1 (mod p'q')`),
every key, any known/hidden split of any size, any blinding factor `v'`, any `m₂`, `v''`, `e`.
-/
namespace CL.C04
open CL CL.Pri CL.Iss

variable {A : Type} [AddCommGroup A] [DecidableEq A] (enc : A → ByteArray)

/-- **the issued signature satisfies the CL equation** once the holder has added its blinding
factor: with `U = v'•S + Σ_hidden m•R` (what `blind` sends) the pair `(A, Q)` returned by
`_sign_primary_credential` passes the holder's recomputation
`Z − (v•S + m₂•Rctxt + Σ_all m•R) = e•A` for `v = v' + v''`. -/
theorem issued_signature_valid (pk : PubKey A) (knownKeys hiddenKeys : List String)
    (rf : String → A) (val : String → ℤ) (m2 vPrime vpp e einv : ℤ)
    (hr : Maps pk.r (knownKeys ++ hiddenKeys) rf)
    (hinv : ∀ x : A, (e * einv) • x = x) :
    let known : Values := knownKeys.map fun k => (k, val k)
    let hidden : Values := hiddenKeys.map fun k => (k, val k)
    ∃ u a q, blindU (addOps enc) pk hidden vPrime = .ok u ∧
      signPrimary (addOps enc) pk (some u) m2 known vpp einv = .ok (a, q) ∧
      checkSignature (addOps enc) pk ⟨m2, a, e, vPrime + vpp⟩ (known ++ hidden) = .ok true := by
  intro known hidden
  have hk : ∀ k ∈ knownKeys, k ∈ knownKeys ++ hiddenKeys := fun k hk => by simp [hk]
  have hh : ∀ k ∈ hiddenKeys, k ∈ knownKeys ++ hiddenKeys := fun k hk => by simp [hk]
  have hkeys : keys (known ++ hidden) = knownKeys ++ hiddenKeys := by
    simp [known, hidden, keys, List.map_map, Function.comp_def]
  have hvals : Maps (known ++ hidden) (knownKeys ++ hiddenKeys) val := by
    have : known ++ hidden = (knownKeys ++ hiddenKeys).map fun k => (k, val k) := by
      simp [known, hidden]
    rw [this]; exact maps_map_self val _
  let u : A := vPrime • pk.s + (hiddenKeys.map fun k => val k • rf k).sum
  let q : A := pk.z + -(vpp • pk.s + u + m2 • pk.rctxt + (knownKeys.map fun k => val k • rf k).sum)
  refine ⟨u, einv • q, q, ?_, ?_, ?_⟩
  · simp only [blindU, addOps_pow, Outcome.bind_ok, hidden, keys_map_self,
      mulPows_sum enc pk.r _ rf val hiddenKeys _ (hr.mono hh) (maps_map_self val hiddenKeys)]
    rfl
  · simp only [signPrimary, addOps_pow, Outcome.bind_ok, addOps_mul, known, keys_map_self,
      mulPows_sum enc pk.r _ rf val knownKeys _ (hr.mono hk) (maps_map_self val knownKeys),
      addOps_inv, Outcome.map_ok]
    rfl
  · have hb : (addOps enc).beq = fun (a b : A) => decide (a = b) := rfl
    simp only [checkSignature, addOps_pow, Outcome.bind_ok, addOps_mul, hkeys,
      mulPows_sum enc pk.r _ rf val _ _ hr hvals, addOps_inv, Outcome.map_ok, hb]
    congr 1
    simp only [decide_eq_true_eq, List.map_append, List.sum_append]
    rw [smul_smul, hinv]
    simp only [q, u]
    module

/-- **v'' has exactly `LARGE_VPRIME_PRIME` bits** for every draw: OR-ing the top bit into any
`a < 2^n` gives a number in `[2^(n-1), 2^n)`. (`bitwise_or_big_int` equals `|||` on
non-negative numbers: theorem `bitwiseOr_spec` of C17.) -/
theorem v_prime_prime_bits (a n : ℕ) (hn : 1 ≤ n) (ha : a < 2 ^ n) :
    2 ^ (n - 1) ≤ a ||| 2 ^ (n - 1) ∧ a ||| 2 ^ (n - 1) < 2 ^ n := by
  constructor
  · exact Nat.right_le_or
  · apply Nat.or_lt_two_pow ha
    exact Nat.pow_lt_pow_right (by norm_num) (by omega)

/-- instantiated with the regenerated constants -/
theorem v_prime_prime_bits_const (a : ℕ) (ha : a < 2 ^ Gen.LARGE_VPRIME_PRIME) :
    2 ^ Gen.largeVPrimePrimeValueExp ≤ a ||| 2 ^ Gen.largeVPrimePrimeValueExp ∧
    a ||| 2 ^ Gen.largeVPrimePrimeValueExp < 2 ^ Gen.LARGE_VPRIME_PRIME :=
  v_prime_prime_bits a Gen.LARGE_VPRIME_PRIME (by decide) ha

/-- the prescribed parameters, as regenerated from `constants.rs` and the call site
`generate_prime_in_range(LARGE_E_START, LARGE_E_END_RANGE)` -/
theorem parameters_match_spec : Gen.LARGE_E_START = 596 ∧ Gen.LARGE_E_END_RANGE = 119 ∧
    Gen.LARGE_VPRIME_PRIME = 2724 ∧ Gen.largeVPrimePrimeValueExp = 2723 ∧
    ("src/issuer.rs", "_new_primary_credential", "e", "LARGE_E_START,LARGE_E_END_RANGE") ∈ Gen.drawSites ∧
    ("src/helpers.rs", "generate_v_prime_prime", "a", "LARGE_VPRIME_PRIME") ∈ Gen.drawSites := by
  refine ⟨rfl, rfl, rfl, rfl, ?_, ?_⟩ <;> decide

/-! non-vacuity: `ℤ/35`-like toy: in `ZMod 5` (additive), `e = 3`, `einv = 2`: `6•x = x` -/
example : ∀ x : ZMod 5, ((3 : ℤ) * 2) • x = x := by decide

section revocation
open CL.NR CL.Reg

variable {F : Type} [Field F] [DecidableEq F]

/-- **the issued revocation signature is accepted by the holder-side processing**
(`sign_credential_with_revoc` → `process_credential_signature` with key, registry and witness),
pairing side in exponent form over the scalar field: for every key with `pk = g^sk`, `y = ĥ^x`,
every registry size, every index `i` valid in the state `V` the holder is given (accumulator
`g'^(Σ_{j∈V} γ^(L+1−j))`, witness `g'^(Σ_{j∈V∖i} γ^(L+1−j+i))` — C09), every context `m2`, every
`c`, `vr'`, `vr''`, what `_new_non_revocation_credential` computes satisfies all four equations
of `_test_witness_signature`. -/
theorem issued_revocation_signature_accepted (k : RevKey F) (x sk γ : F) (L i : ℕ)
    (hi : InRange L i) (V : Finset ℕ) (hV : i ∈ V) (m2 vr' vr2 c : F)
    (hpk : k.pk = k.g * sk) (hy : k.y = k.hCap * x) (hsk : sk + γ ^ i ≠ 0) (hx : x + c ≠ 0) :
    testWitnessSignature ringOps k (k.gDash * accOf γ L V) (k.g * k.gDash * γ ^ (L + 1))
      (k.g * γ ^ i)
      (issueCred ringOps (·⁻¹) k x sk γ i m2 vr' vr2 c (k.gDash * witOf γ L i V)) = true := by
  apply issued_cred_passes k x sk γ i m2 vr' vr2 c _ _ _ hpk hy hsk hx
  linear_combination (k.g * k.gDash) * C09.valid_passes_check γ L i hi V hV

end revocation


section executable

/-- **the issued signature passes the holder's check in the executable group**:
`issued_signature_valid` transferred along `Zn.znOps_refines_sub`.  `S` is any subgroup of the
units modulo `N` that contains the key's generators (for an honest key: the quadratic residues)
and on which `e·e⁻¹` acts as the identity (what the issuer's `e⁻¹ mod p'q'` guarantees there);
issuer and holder both compute with integers modulo `N` — the pair `(A, Q)` the model issuer
returns makes the model holder's recomputation `Q' == A^e` come out `true`. -/
theorem issued_signature_valid_executable (N : ℕ) (hN : 1 < N) (S : AddSubgroup (Zn.U N))
    (pk : PubKey ℤ) (pk' : PubKey S) (hpk : PKRel (Zn.RelS N S) pk pk')
    (knownKeys hiddenKeys : List String)
    (rf : String → S) (val : String → ℤ) (m2 vPrime vpp e einv : ℤ)
    (hr : Maps pk'.r (knownKeys ++ hiddenKeys) rf)
    (hinv : ∀ x : S, (e * einv) • x = x) :
    let known : Values := knownKeys.map fun k => (k, val k)
    let hidden : Values := hiddenKeys.map fun k => (k, val k)
    ∃ u a q, blindU (Zn.znOps N) pk hidden vPrime = .ok u ∧
      signPrimary (Zn.znOps N) pk (some u) m2 known vpp einv = .ok (a, q) ∧
      checkSignature (Zn.znOps N) pk ⟨m2, a, e, vPrime + vpp⟩ (known ++ hidden) = .ok true := by
  intro known hidden
  have ho := Zn.znOps_refines_sub hN S
  obtain ⟨u', a', q', h1, h2, h3⟩ := issued_signature_valid (Zn.encS N S) pk' knownKeys hiddenKeys rf
    val m2 vPrime vpp e einv hr hinv
  have r1 := blindU_rel ho hpk hidden vPrime
  rw [h1] at r1
  cases hb : blindU (Zn.znOps N) pk hidden vPrime with
  | ok u =>
    rw [hb] at r1
    have hu : Zn.RelS N S u u' := r1
    have r2 := signPrimary_rel ho hpk (u := some u) (u' := some u') hu m2 known vpp einv
    rw [h2] at r2
    cases hsg : signPrimary (Zn.znOps N) pk (some u) m2 known vpp einv with
    | ok aq =>
      obtain ⟨a, q⟩ := aq
      rw [hsg] at r2
      have haq : Zn.RelS N S a a' ∧ Zn.RelS N S q q' := r2
      refine ⟨u, a, q, rfl, hsg, ?_⟩
      rw [checkSignature_rel ho hpk (sig' := ⟨m2, a', e, vPrime + vpp⟩) ⟨rfl, haq.1, rfl, rfl⟩]
      exact h3
    | err => rw [hsg] at r2; exact absurd r2 (by simp [ORel])
    | panic => rw [hsg] at r2; exact absurd r2 (by simp [ORel])
  | err => rw [hb] at r1; exact absurd r1 (by simp [ORel])
  | panic => rw [hb] at r1; exact absurd r1 (by simp [ORel])

/-- the holder's verdict on ANY signature (honest or not) whose `A` represents an element of `S`
is the same in the executable group and in the proof group -/
theorem holder_signature_verdict_refines (N : ℕ) (hN : 1 < N) (S : AddSubgroup (Zn.U N))
    (pk : PubKey ℤ) (pk' : PubKey S) (hpk : PKRel (Zn.RelS N S) pk pk')
    (sig : Signature ℤ) (sig' : Signature S) (hs : SigRel (Zn.RelS N S) sig sig') (vals : Values) :
    checkSignature (Zn.znOps N) pk sig vals = checkSignature (addOps (Zn.encS N S)) pk' sig' vals :=
  checkSignature_rel (Zn.znOps_refines_sub hN S) hpk hs vals

end executable

end CL.C04
