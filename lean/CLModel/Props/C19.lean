import CLModel.Proofs.Scalar
import CLModel.Proofs.FourSq
import Mathlib.Data.ZMod.Basic
import Mathlib.GroupTheory.OrderOfElement
import Mathlib.Algebra.Group.Hom.Defs
/-!
# C19 — Group-scalar arithmetic, pairing wrappers and four-square helper are exact

Models: `CLModel/Model/Scalar.lean` (`CL.Sc`, the `GroupOrderElement` wrappers of
`/repo/src/amcl.rs` on the raw value of the amcl `BIG`, and
`helpers::bignum_to_group_element_reduce`) and `CLModel/Model/FourSq.lean` (`CL.FourSq`,
`helpers::four_squares` with its three labelled-break loops, the Legendre skip and explicit
`usize` arithmetic).  All theorems are for **all** inputs.

What is *not* proved here: the group laws of the amcl points and the bilinearity of its
pairing (a dependency).  Their exponent-form counterparts below are ring identities of the
scalar model; the laws themselves are observed on the real wrappers by the correspondence
stream (named oracles), with the scalars `a+b`, `a·b`, … taken from this model.

History: on the pinned tree `mod_neg(0)` returned the unreduced `r`, `inverse(0)` did not
terminate, `from_string` panicked on malformed input and misbehaved on 72+ digits; these were
fixed in `/repo` and the model and the theorems below are the full-strength statements.
-/
namespace CL.C19
open CL CL.Sc CL.FourSq

/-! ## the group order -/

/-- the order `r` of the amcl "bn254" groups is prime (Pratt certificate checked by the kernel),
so the scalars form a field and every non-zero scalar has an inverse -/
theorem group_order_prime : Nat.Prime Sc.r := Sc.r_prime

/-! ## `scalar_ring_hom`: every wrapper is the corresponding operation of `ZMod r` -/

/-- `add_mod` -/
theorem scalar_ring_hom_add (a b : ℕ) :
    toZMod (Sc.add a b) = toZMod a + toZMod b ∧ Sc.add a b < Sc.r :=
  ⟨toZMod_add a b, add_lt a b⟩

example : Sc.add (Sc.r - 1) 5 = 4 := by decide

/-- `sub_mod` (the code computes `a + r - b`; `b ≤ a + r` holds for every value a wrapper can
return, since those are `≤ r`) -/
theorem scalar_ring_hom_sub (a b : ℕ) (h : b ≤ a + Sc.r) :
    toZMod (Sc.sub a b) = toZMod a - toZMod b ∧ Sc.sub a b < Sc.r :=
  ⟨toZMod_sub a b h, sub_lt a b⟩

example : (5 : ℕ) ≤ 3 + Sc.r ∧ Sc.sub 3 5 = Sc.r - 2 := by decide

/-- `mul_mod` -/
theorem scalar_ring_hom_mul (a b : ℕ) :
    toZMod (Sc.mul a b) = toZMod a * toZMod b ∧ Sc.mul a b < Sc.r :=
  ⟨toZMod_mul a b, mul_lt a b⟩

example : Sc.mul (Sc.r - 1) (Sc.r - 1) = 1 := by decide

/-- `mod_neg` is negation in `ZMod r` and returns the canonical representative, for every
input (in particular `mod_neg(0) = 0`) -/
theorem scalar_ring_hom_neg (a : ℕ) :
    toZMod (Sc.neg a) = - toZMod a ∧ Sc.neg a < Sc.r ∧ (a % Sc.r = 0 → Sc.neg a = 0) :=
  ⟨toZMod_neg a, neg_lt a, neg_of_mod_zero a⟩

example : Sc.neg 7 = Sc.r - 7 ∧ Sc.neg 0 = 0 ∧ Sc.neg Sc.r = 0 := by decide

/-- `pow_mod` is exponentiation: as a number (`a^e mod r`) and in `ZMod r` -/
theorem scalar_ring_hom_pow (a e : ℕ) :
    Sc.pow a e = a ^ e % Sc.r ∧ toZMod (Sc.pow a e) = toZMod a ^ e ∧ Sc.pow a e < Sc.r :=
  ⟨pow_eq a e, toZMod_pow a e, pow_lt a e⟩

example : Sc.pow 3 4 = 81 := by decide +kernel
example : Sc.pow 0 0 = 1 := by decide +kernel

/-- `inverse` is total: it refuses exactly the multiples of `r` (`Err`), and for every other
`a` returns the inverse: `a · inverse(a) = 1` in `ZMod r` and as integers modulo `r` (Fermat,
with the primality of `r` proved above) -/
theorem scalar_inv_total (a : ℕ) :
    (a % Sc.r = 0 → Sc.inv a = .err) ∧
    (a % Sc.r ≠ 0 → ∃ v, Sc.inv a = .ok v ∧ v < Sc.r ∧ toZMod a * toZMod v = 1 ∧ a * v % Sc.r = 1) :=
  ⟨inv_of_mod_zero a,
   fun h => ⟨Sc.pow a (Sc.r - 2), inv_of_ne a h, pow_lt a _, toZMod_mul_inv a h, mul_inv_mod a h⟩⟩

/-- `inverse(a)` is `Err` **iff** `a ≡ 0 (mod r)` -/
theorem scalar_inv_err_iff (a : ℕ) : Sc.inv a = .err ↔ a % Sc.r = 0 := by
  constructor
  · intro h
    by_contra hne
    rw [inv_of_ne a hne] at h
    cases h
  · exact inv_of_mod_zero a

example : Sc.inv 0 = .err ∧ (2 : ℕ) % Sc.r ≠ 0 := by decide

/-- `new_u32` -/
theorem scalar_new_u32 (v : UInt32) : Sc.newU32 v = v.toNat ∧ Sc.newU32 v < Sc.r := by
  refine ⟨rfl, ?_⟩
  have h : v.toNat < 4294967296 := UInt32.toNat_lt v
  exact lt_trans h (by decide)

/-! ## byte strings and hex strings -/

/-- the value read from a byte string is its big-endian value: empty string 0, and
`value (b :: l) = b · 256^|l| + value l`; left-padding with zero bytes does not change it -/
theorem be_value_spec :
    Sc.beNat [] = 0 ∧
    (∀ (b : UInt8) (l : List UInt8), Sc.beNat (b :: l) = b.toNat * 256 ^ l.length + Sc.beNat l) ∧
    (∀ (k : ℕ) (l : List UInt8), Sc.beNat (List.replicate k 0 ++ l) = Sc.beNat l) ∧
    (∀ l : List UInt8, Sc.beNat l < 256 ^ l.length) :=
  ⟨beNat_nil, beNat_cons, beNat_pad, beNat_lt⟩

/-- `from_bytes`: at most 32 bytes → the big-endian integer reduced modulo `r` (so values `≥ r`
are reduced, short strings are read as left-padded); more than 32 bytes → `Err` -/
theorem from_bytes_spec (bs : List UInt8) :
    (bs.length ≤ 32 → Sc.fromBytes bs = .ok (Sc.beNat bs % Sc.r)) ∧
    (32 < bs.length → Sc.fromBytes bs = .err) :=
  ⟨fromBytes_le bs, fromBytes_gt bs⟩

example : Sc.fromBytes [1, 0] = .ok 256 := by decide
example : Sc.fromBytes (List.replicate 33 0) = .err := by decide

/-- `to_bytes` is the 32-byte big-endian encoding and `from_bytes` inverts it on reduced values -/
theorem to_bytes_from_bytes (a : ℕ) :
    (Sc.toBytes a).length = 32 ∧ Sc.beNat (Sc.toBytes a) = a % 2 ^ 256 ∧
    (a < Sc.r → Sc.fromBytes (Sc.toBytes a) = .ok a) :=
  ⟨length_toBytes a, beNat_toBytes a, fromBytes_toBytes a⟩

/-- `from_string`: a non-empty string of at most 71 hex digits with value `v` gives `v mod r`
(and `v < 2^284`, inside the 288 usable bits of the amcl `BIG`); the empty string, any
non-hex character and more than 71 digits are refused with `Err` — no panic, no other outcome -/
theorem from_string_spec (s : String) :
    (∀ v, s.toList ≠ [] → Sc.hexVal s.toList (some 0) = some v → s.toList.length ≤ 71 →
        Sc.fromString s = .ok (v % Sc.r) ∧ v < 2 ^ 284) ∧
    (s.toList = [] → Sc.fromString s = .err) ∧
    (Sc.hexVal s.toList (some 0) = none → Sc.fromString s = .err) ∧
    (71 < s.toList.length → Sc.fromString s = .err) :=
  ⟨fun v hne hv hlen => ⟨fromString_ok s v hne hv hlen, fromString_value_lt s v hv hlen⟩,
   fromString_empty s, fromString_nonhex s, fromString_long s⟩

example : Sc.fromString "1f" = .ok 31 := by decide
example : Sc.fromString "" = .err := by decide
example : Sc.fromString "+5" = .err := by decide

/-- `bignum_to_group_element_reduce(num)` is `num mod r` (non-negative remainder), for every
integer `num` and both conventions of `BigNumber::to_bytes` for zero -/
theorem bignum_reduce_spec (zeroByte : Bool) (num : ℤ) :
    Sc.bignumToGroupElementReduce zeroByte num = .ok (num % (Sc.r : ℤ)).toNat ∧
    (num % (Sc.r : ℤ)).toNat < Sc.r := by
  refine ⟨bignumReduce_eq zeroByte num, ?_⟩
  have hrpos : (0 : ℤ) < (Sc.r : ℤ) := by exact_mod_cast r_pos
  have h1 := Int.emod_lt_of_pos num hrpos
  have h0 := Int.emod_nonneg num (ne_of_gt hrpos)
  omega

/-! ## point and pairing laws in exponent form

A point `x·G` is represented by its exponent `x`, `e(x·G₁, y·G₂)` by `x·y`, `Pair::mul` by
addition and `Pair::pow`/`PointG::mul` by multiplication of exponents.  In this form the laws
checked on the real wrappers are identities of the scalar model (trivial by design; their
content is the correspondence stream). -/

/-- `e(aP, bQ) = e(P,Q)^(ab)` -/
theorem pairing_bilinear_exponent_form (x y a b : ℕ) :
    Sc.mul (Sc.mul x a) (Sc.mul y b) = Sc.mul (Sc.mul x y) (Sc.mul a b) := by
  apply eq_of_toZMod_eq (mul_lt _ _) (mul_lt _ _)
  simp only [toZMod_mul]; ring

/-- `e.pow(a).pow(b) = e.pow(ab)`, `e.pow(a)·e.pow(b) = e.pow(a+b)`, and the same for
`P.mul(a).mul(b)`, `P.mul(a).add(P.mul(b))` -/
theorem pow_laws_exponent_form (t a b : ℕ) :
    Sc.mul (Sc.mul t a) b = Sc.mul t (Sc.mul a b) ∧
    Sc.add (Sc.mul t a) (Sc.mul t b) = Sc.mul t (Sc.add a b) := by
  constructor
  · apply eq_of_toZMod_eq (mul_lt _ _) (mul_lt _ _)
    simp only [toZMod_mul]; ring
  · apply eq_of_toZMod_eq (add_lt _ _) (mul_lt _ _)
    simp only [toZMod_mul, toZMod_add]; ring

/-- `P.mul(r-1) = P.neg()`, `P.mul(0)` is the identity, `P.sub(P)` is the identity -/
theorem point_identity_laws_exponent_form (x : ℕ) :
    toZMod (Sc.mul x (Sc.sub 0 1)) = - toZMod x ∧ Sc.mul x 0 = 0 ∧ Sc.sub (x % Sc.r) (x % Sc.r) = 0 := by
  refine ⟨?_, ?_, ?_⟩
  · rw [toZMod_mul, toZMod_sub 0 1 (by decide)]
    simp [toZMod]
  · unfold Sc.mul; simp
  · unfold Sc.sub
    have h : x % Sc.r < Sc.r := Nat.mod_lt _ r_pos
    have : x % Sc.r + Sc.r - x % Sc.r = Sc.r := by omega
    rw [this, Nat.mod_self]

/-! ## `four_squares` -/

/-- **every non-negative `delta` is decomposed** (no bound on `delta`; `usize` unbounded):
the returned roots are four naturals whose squares sum to `delta`.  Proof: Lagrange's theorem
(`Nat.sum_four_squares`) gives a representation, zeros moved last; its first root is never
skipped by the Legendre test (easy direction of the three-square theorem, proved in
`Proofs/FourSq.lean`); the search is descending and stops at the first hit, so the exit without
`break` is unreachable for `delta ≥ 1`. -/
theorem four_squares_sum (δ : ℤ) (h : 0 ≤ δ) :
    ∃ a b c e : ℕ, fourSquares δ = .ok (a, b, c, e) ∧
      ((a * a + b * b + c * c + e * e : ℕ) : ℤ) = δ := by
  refine ⟨_, _, _, _, fourSquaresU_eq (um := .ideal) δ h trivial, ?_⟩
  rw [pI_sum δ.toNat]
  exact Int.toNat_of_nonneg h

example : ∃ a b c e : ℕ, fourSquares 4294967295 = .ok (a, b, c, e) ∧
    ((a * a + b * b + c * c + e * e : ℕ) : ℤ) = 4294967295 := four_squares_sum _ (by norm_num)

/-- negative input is refused, in every arithmetic mode -/
theorem four_squares_negative (um : UMode) (δ : ℤ) (h : δ < 0) : fourSquaresU um δ = .err := by
  unfold fourSquaresU; rw [if_pos h]

example : fourSquares (-1) = .err := four_squares_negative _ _ (by norm_num)

/-- for `delta ≥ 1` the search leaves through a `break` (the stale-`roots` exit is dead code);
for `delta = 0` no loop runs and the initial `[0,0,0,0]` is returned -/
theorem four_squares_breaks (δ : ℤ) (h : 0 < δ) : brokeU .ideal δ = .ok true := by
  rw [brokeU_eq (um := .ideal) δ (le_of_lt h) trivial]
  congr 1
  apply pI_breaks
  omega

/-- **no overflow, no underflow**: for `0 ≤ delta < 2^64` the run with 64-bit `usize` — in the
checked profile, where any overflowing `pow`/`+` or underflowing `-` panics, and in the wrapping
profile — equals the run with unbounded naturals; so every intermediate fits and no subtraction
goes below zero. -/
theorem four_squares_no_overflow_u64 (m : OvfMode) (δ : ℤ) (h0 : 0 ≤ δ)
    (h : δ < 18446744073709551616) : fourSquaresU (.u64 m) δ = fourSquares δ := by
  have hf : Fits (.u64 m) δ.toNat := by
    show δ.toNat < two64
    unfold two64; omega
  rw [fourSquares, fourSquaresU_eq δ h0 hf, fourSquaresU_eq (um := .ideal) δ h0 trivial]

/-- the range of predicate deltas (`< 2^33`) -/
theorem four_squares_no_overflow (m : OvfMode) (δ : ℤ) (h0 : 0 ≤ δ) (h : δ < 8589934592) :
    fourSquaresU (.u64 m) δ = fourSquares δ :=
  four_squares_no_overflow_u64 m δ h0 (by omega)

example : (0 : ℤ) ≤ 4294967295 ∧ (4294967295 : ℤ) < 8589934592 := by norm_num

/-- the decomposition as the code computes it (64-bit `usize`, either profile) -/
theorem four_squares_sum_u64 (m : OvfMode) (δ : ℤ) (h0 : 0 ≤ δ) (h : δ < 18446744073709551616) :
    ∃ a b c e : ℕ, fourSquaresU (.u64 m) δ = .ok (a, b, c, e) ∧
      ((a * a + b * b + c * c + e * e : ℕ) : ℤ) = δ := by
  rw [four_squares_no_overflow_u64 m δ h0 h]
  exact four_squares_sum δ h0

/-- `is_sum_of_three_squares` never rejects a sum of three squares, so the skip added to the
outer loop cannot skip a first root below which a decomposition exists -/
theorem legendre_skip_safe (x y z : ℕ) : isSum3 (x * x + y * y + z * z) = true :=
  isSum3_of_sum x y z

example : isSum3 7 = false ∧ isSum3 28 = false ∧ isSum3 6 = true := by decide

section exponent_form

/-! ## exponent form is faithful

The registry / witness / non-revocation models compute with *exponents* (`F = ZMod r`) instead
of group elements.  The two theorems below are the transfer principle that justifies it, for any
three commutative groups with a map that is additive in each argument (no idealisation: the
hypotheses are the bilinearity equations, `r` prime, `r • gt = 0`, `gt ≠ 0`). -/

/-- bilinearity in exponent form: `e(a·P, b·Q) = (a·b)·e(P, Q)` -/
theorem pairing_exponent_form {G1 G2 GT : Type} [AddCommGroup G1] [AddCommGroup G2]
    [AddCommGroup GT] (e : G1 → G2 → GT)
    (hl : ∀ a b c, e (a + b) c = e a c + e b c) (hr : ∀ a c d, e a (c + d) = e a c + e a d)
    (P : G1) (Q : G2) (a b : ℤ) : e (a • P) (b • Q) = (a * b) • e P Q := by
  let fl (c : G2) : G1 →+ GT := AddMonoidHom.mk' (fun x => e x c) (fun x y => hl x y c)
  let fr (x : G1) : G2 →+ GT := AddMonoidHom.mk' (fun c => e x c) (fun c d => hr x c d)
  have h1 : e (a • P) (b • Q) = a • e P (b • Q) := map_zsmul (fl (b • Q)) a P
  have h2 : e P (b • Q) = b • e P Q := map_zsmul (fr P) b Q
  rw [h1, h2, mul_smul]

/-- in a group element of prime order `r`, multiples are equal iff the exponents are equal
modulo `r`: an equation between exponents (what the model proves or refutes) holds iff the
equation between the group elements does -/
theorem exponent_form_faithful {GT : Type} [AddCommGroup GT] (r : ℕ) [hr : Fact r.Prime]
    (gt : GT) (h0 : gt ≠ 0) (hord : r • gt = 0) (a b : ℤ) :
    a • gt = b • gt ↔ ((a : ZMod r) = (b : ZMod r)) := by
  have hdvd : addOrderOf gt ∣ r := addOrderOf_dvd_of_nsmul_eq_zero hord
  have hne1 : addOrderOf gt ≠ 1 := by
    intro h; exact h0 (AddMonoid.addOrderOf_eq_one_iff.mp h)
  have hor : addOrderOf gt = r := by
    rcases (Nat.dvd_prime hr.out).mp hdvd with h | h
    · exact absurd h hne1
    · exact h
  rw [ZMod.intCast_eq_intCast_iff_dvd_sub, ← hor]
  constructor
  · intro h
    have : (b - a) • gt = 0 := by rw [sub_smul, h, sub_self]
    exact (addOrderOf_dvd_iff_zsmul_eq_zero).mpr this
  · intro h
    have : (b - a) • gt = 0 := (addOrderOf_dvd_iff_zsmul_eq_zero).mp h
    rw [sub_smul, sub_eq_zero] at this
    exact this.symm

/-- a pairing equation between multiples of fixed points holds iff it holds for the exponents:
`e(a·P, b·Q) = e(c·P, d·Q) ⟺ a·b ≡ c·d (mod r)`, for a non-degenerate pair `(P, Q)` of order `r` -/
theorem pairing_equation_in_exponents {G1 G2 GT : Type} [AddCommGroup G1] [AddCommGroup G2]
    [AddCommGroup GT] (e : G1 → G2 → GT)
    (hl : ∀ a b c, e (a + b) c = e a c + e b c) (hrr : ∀ a c d, e a (c + d) = e a c + e a d)
    (r : ℕ) [Fact r.Prime] (P : G1) (Q : G2) (hnd : e P Q ≠ 0) (hord : r • e P Q = 0)
    (a b c d : ℤ) :
    e (a • P) (b • Q) = e (c • P) (d • Q) ↔ ((a * b : ℤ) : ZMod r) = ((c * d : ℤ) : ZMod r) := by
  rw [pairing_exponent_form e hl hrr, pairing_exponent_form e hl hrr]
  exact exponent_form_faithful r (e P Q) hnd hord _ _

/-- non-vacuity: `ZMod 7` with multiplication as the "pairing" meets every hypothesis -/
example : (3 : ℤ) • (1 : ZMod 7) = (10 : ℤ) • (1 : ZMod 7) ↔ ((3 : ℤ) : ZMod 7) = ((10 : ℤ) : ZMod 7) :=
  haveI : Fact (Nat.Prime 7) := ⟨by decide⟩
  exponent_form_faithful 7 (1 : ZMod 7) one_ne_zero (by decide +revert) 3 10

end exponent_form

end CL.C19
