import CLModel.Model.Registry
namespace CL.C09
end CL.C09
