import CLModel.Proofs.Witness
import CLModel.Props.C08
import Mathlib.Algebra.BigOperators.Ring.Finset
import Mathlib.Tactic.LinearCombination
/-!
# C09 — Witnesses are valid exactly for non-revoked indices

Exponent form: the public check `e(g_i, acc) / e(g, ω) = z` reads
`γ^i · acc − ω = γ^(L+1)` (all three pairings are `e(g,g')` to these exponents, and
`z = e(g,g')^(γ^(L+1))`).  `witOf γ L i V = Σ_{j ∈ V, j ≠ i} γ^(L+1-j+i)`.
All theorems: every commutative ring, every `γ`, every `L` with `2L+1 < 2^32`, both
overflow modes, index sets of any size.
-/
namespace CL.C09
open CL CL.Reg Finset

variable {F : Type} [CommRing F]

/-- **the accumulator check holds exactly for valid indices**: for the witness value `witOf`,
`γ^i · acc − ω` is `γ^(L+1)` when `i ∈ V` and `0` when it is not. -/
theorem witness_check_iff (γ : F) (L i : ℕ) (hi : InRange L i) (V : Finset ℕ) :
    γ ^ i * accOf γ L V - witOf γ L i V = if i ∈ V then γ ^ (L + 1) else 0 := by
  have hmul : γ ^ i * accOf γ L V = ∑ j ∈ V, γ ^ (L + 1 - j + i) := by
    unfold accOf
    rw [Finset.mul_sum]
    apply Finset.sum_congr rfl
    intro j _
    rw [← pow_add]; congr 1; omega
  rw [hmul]
  unfold witOf
  by_cases h : i ∈ V
  · rw [← Finset.sum_erase_add V _ h]
    have : L + 1 - i + i = L + 1 := by unfold InRange at hi; omega
    simp [h, this]
  · rw [Finset.erase_eq_of_notMem h]
    simp [h]

/-- consequently a revoked (or never issued) index fails the check at every state, as long as
`z ≠ 1`, i.e. `γ^(L+1) ≠ 0` in the exponent (hypothesis evaluated on each run's keys) -/
theorem revoked_fails_check (γ : F) (L i : ℕ) (hi : InRange L i) (V : Finset ℕ) (h : i ∉ V)
    (hz : γ ^ (L + 1) ≠ 0) : γ ^ i * accOf γ L V - witOf γ L i V ≠ γ ^ (L + 1) := by
  rw [witness_check_iff γ L i hi V]
  simp only [h, if_false]
  exact fun e => hz e.symm

theorem valid_passes_check (γ : F) (L i : ℕ) (hi : InRange L i) (V : Finset ℕ) (h : i ∈ V) :
    γ ^ i * accOf γ L V - witOf γ L i V = γ ^ (L + 1) := by
  rw [witness_check_iff γ L i hi V]; simp [h]

/-- **issuer-side witness** (returned by `sign_credential_with_revoc`) is `witOf` for the
valid set after issuance — on demand (`i ∉ V` before) … -/
theorem issuer_witness_value_on_demand (γ : F) (m : OvfMode) (L i : ℕ) (hL : SizeOk L)
    (hi : InRange L i) (V : Finset ℕ) (hv : i ∉ V) :
    (issue ringOps γ m L false (accOf γ L V) i).map (fun r => (r.1, r.2.2))
      = .ok (accOf γ L (insert i V), witOf γ L i (insert i V)) := by
  simp only [issue, issueGuard_spec, inRange_guard_false hi, Outcome.guardThen_ok,
    Bool.false_eq_true, if_false, getIndex_spec m L i hi hL, Outcome.bind_ok, Outcome.map_ok,
    ringOps_add, ringOps_mul, indexPow_eq]
  congr 1
  refine Prod.ext ?_ ?_
  · simp [accOf, sum_insert hv, add_comm]
  · simp only [witOf, Finset.erase_insert hv, accOf]
    rw [Finset.sum_mul]
    apply Finset.sum_congr rfl
    intro j _
    rw [← pow_add]

/-- … and by default (`i ∈ V`, the accumulator is unchanged) -/
theorem issuer_witness_value_by_default (γ : F) (m : OvfMode) (L i : ℕ) (hL : SizeOk L)
    (hi : InRange L i) (V : Finset ℕ) (hv : i ∈ V) :
    (issue ringOps γ m L true (accOf γ L V) i).map (fun r => (r.1, r.2.2))
      = .ok (accOf γ L V, witOf γ L i V) := by
  simp only [issue, issueGuard_spec, inRange_guard_false hi, Outcome.guardThen_ok,
    Bool.false_eq_true, if_false, getIndex_spec m L i hi hL, Outcome.bind_ok, Outcome.map_ok,
    if_true, ringOps_sub, ringOps_mul, indexPow_eq]
  congr 1
  refine Prod.ext rfl ?_
  simp only [witOf, accOf]
  rw [← Finset.sum_erase_add V _ hv, add_sub_cancel_right, Finset.sum_mul]
  apply Finset.sum_congr rfl
  intro j _
  rw [← pow_add]

/-- **`Witness::new` from a cumulative delta, issuance on demand**: if the delta's `issued`
set is the valid set `V ⊆ [1, L]`, the result is `witOf`. -/
theorem new_witness_value_on_demand (γ : F) (m : OvfMode) (L i : ℕ) (hL : TailsOk L)
    (hi : InRange L i) (d : Delta F) (hr : ∀ j ∈ d.issued, InRange L j) :
    witnessNew ringOps γ m L false i d = .ok (witOf γ L i d.issued.toFinset) := by
  simp only [witnessNew, witnessNewGuard_spec, inRange_guard_false hi, Outcome.guardThen_ok,
    Bool.false_eq_true, if_false, issuedIndices, ringOps_zero]
  rw [witnessNewLoop_spec γ m L i hL hi]
  · congr 1
    rw [zero_add, witOf]
    have hnd : ((sortAsc d.issued).filter (· != i)).Nodup :=
      ((C08.sortAsc_pairwise d.issued).imp (fun h => Nat.ne_of_lt h)).filter _
    rw [← List.sum_toFinset _ hnd]
    apply Finset.sum_congr
    · ext j
      simp only [List.mem_toFinset, List.mem_filter, C08.sortAsc_mem, bne_iff_ne, ne_eq,
        mem_erase]
      tauto
    · intro _ _; rfl
  · intro j hj
    simp only [List.mem_filter, C08.sortAsc_mem, bne_iff_ne, ne_eq] at hj
    exact ⟨hr j hj.1, hj.2⟩

/-- **`Witness::new`, issuance by default**: the valid set is `[1, L]` minus the delta's
`revoked` set. -/
theorem new_witness_value_by_default (γ : F) (m : OvfMode) (L i : ℕ) (hL : TailsOk L)
    (hi : InRange L i) (d : Delta F) :
    witnessNew ringOps γ m L true i d = .ok (witOf γ L i (Icc 1 L \ d.revoked.toFinset)) := by
  simp only [witnessNew, witnessNewGuard_spec, inRange_guard_false hi, Outcome.guardThen_ok,
    Bool.false_eq_true, if_false, issuedIndices, if_true, ringOps_zero]
  rw [witnessNewLoop_spec γ m L i hL hi]
  · congr 1
    rw [zero_add, witOf]
    have hnd : (((List.range' 1 L).filter fun j => !setMem j d.revoked).filter (· != i)).Nodup :=
      ((List.nodup_range' (step := 1)).filter _).filter _
    rw [← List.sum_toFinset _ hnd]
    apply Finset.sum_congr
    · ext j
      simp only [List.mem_toFinset, List.mem_filter, List.mem_range'_1, Bool.not_eq_true',
        bne_iff_ne, ne_eq, mem_erase, mem_sdiff, mem_Icc, setMem, List.contains_eq_mem,
        decide_eq_false_iff_not]
      constructor
      · rintro ⟨⟨⟨h1, h2⟩, h3⟩, h4⟩; exact ⟨h4, ⟨h1, by omega⟩, h3⟩
      · rintro ⟨h4, ⟨h1, h2⟩, h3⟩; exact ⟨⟨⟨h1, by omega⟩, h3⟩, h4⟩
    · intro _ _; rfl
  · intro j hj
    simp only [List.mem_filter, List.mem_range'_1, bne_iff_ne, ne_eq] at hj
    exact ⟨⟨hj.1.1.1, by have := hj.1.1.2; omega⟩, hj.2⟩

/-- a delta that can follow a state with valid set `V` -/
structure Applicable (L : ℕ) (V : Finset ℕ) (I R : List ℕ) : Prop where
  rangeI : ∀ j ∈ I, InRange L j
  rangeR : ∀ j ∈ R, InRange L j
  fresh : ∀ j ∈ I, j ∉ V
  valid : ∀ j ∈ R, j ∈ V
  disj : ∀ j ∈ I, j ∉ R

theorem sum_updTerm_true (γ : F) (L i : ℕ) (l : List ℕ) (hnd : l.Nodup) :
    ((l.map (·, true)).map (updTerm γ L i)).sum = ∑ j ∈ l.toFinset.erase i, γ ^ (L + 1 - j + i) := by
  rw [List.map_map]
  have : ((updTerm γ L i) ∘ fun j => (j, true)) = fun j => if j = i then 0 else γ ^ (L + 1 - j + i) := by
    funext j; simp [updTerm]
  rw [this, ← List.sum_toFinset _ hnd, Finset.sum_ite, Finset.sum_const_zero, zero_add]
  apply Finset.sum_congr
  · ext j; simp [and_comm]
  · intro _ _; rfl

theorem sum_updTerm_false (γ : F) (L i : ℕ) (l : List ℕ) (hnd : l.Nodup) :
    ((l.map (·, false)).map (updTerm γ L i)).sum = - ∑ j ∈ l.toFinset.erase i, γ ^ (L + 1 - j + i) := by
  rw [List.map_map]
  have : ((updTerm γ L i) ∘ fun j => (j, false)) = fun j => if j = i then 0 else - γ ^ (L + 1 - j + i) := by
    funext j; simp [updTerm]
  rw [this, ← List.sum_toFinset _ hnd, Finset.sum_ite, Finset.sum_const_zero, zero_add,
    Finset.sum_neg_distrib]
  congr 1
  apply Finset.sum_congr
  · ext j; simp [and_comm]
  · intro _ _; rfl

/-- **`Witness::update`**: from `witOf` for `V`, a delta applicable at `V` yields `witOf` for
the next valid set `(V ∪ issued) \ revoked` — whatever mixture of issues, revocations and
un-revocations the delta batches. -/
theorem update_witness_value (γ : F) (m : OvfMode) (L i : ℕ) (hL : TailsOk L) (hi : InRange L i)
    (V : Finset ℕ) (d : Delta F) (ha : Applicable L V d.issued d.revoked) :
    witnessUpdate ringOps γ m L i (witOf γ L i V) d
      = .ok (witOf γ L i ((V ∪ d.issued.toFinset) \ d.revoked.toFinset)) := by
  simp only [witnessUpdate, witnessUpdateGuard_spec, inRange_guard_false hi, Outcome.guardThen_ok,
    Bool.false_eq_true, if_false]
  have hfil : (sortAsc d.issued).filter (fun j => !setMem j (sortAsc d.revoked)) = sortAsc d.issued := by
    apply List.filter_eq_self.mpr
    intro j hj
    have hj' : j ∈ d.issued := (C08.sortAsc_mem j _).mp hj
    have : j ∉ sortAsc d.revoked := fun h => ha.disj j hj' ((C08.sortAsc_mem j _).mp h)
    simp [setMem, this]
  rw [witnessUpdateLoop_spec γ m L i hL hi]
  · congr 1
    simp only [updateEntries, hfil, List.map_append, List.sum_append]
    have hndI : (sortAsc d.issued).Nodup := (C08.sortAsc_pairwise _).imp (fun h => Nat.ne_of_lt h)
    have hndR : (sortAsc d.revoked).Nodup := (C08.sortAsc_pairwise _).imp (fun h => Nat.ne_of_lt h)
    rw [sum_updTerm_true γ L i _ hndI, sum_updTerm_false γ L i _ hndR]
    have hI : (sortAsc d.issued).toFinset = d.issued.toFinset := by
      ext j; simp [C08.sortAsc_mem]
    have hR : (sortAsc d.revoked).toFinset = d.revoked.toFinset := by
      ext j; simp [C08.sortAsc_mem]
    rw [hI, hR]
    simp only [witOf]
    -- finset algebra: ((V ∪ I) \ R).erase i = (V.erase i ∪ I.erase i) \ R.erase i, disjointly
    have hdisj : Disjoint (V.erase i) (d.issued.toFinset.erase i) := by
      rw [Finset.disjoint_left]
      intro a ha1 ha2
      simp only [mem_erase, List.mem_toFinset] at ha1 ha2
      exact ha.fresh a ha2.2 ha1.2
    have hsub : d.revoked.toFinset.erase i ⊆ V.erase i ∪ d.issued.toFinset.erase i := by
      intro a ha1
      simp only [mem_erase, List.mem_toFinset] at ha1
      simp only [mem_union, mem_erase]
      exact Or.inl ⟨ha1.1, ha.valid a ha1.2⟩
    have hset : ((V ∪ d.issued.toFinset) \ d.revoked.toFinset).erase i
        = (V.erase i ∪ d.issued.toFinset.erase i) \ d.revoked.toFinset.erase i := by
      ext a
      simp only [mem_erase, mem_sdiff, mem_union, List.mem_toFinset]
      tauto
    rw [hset]
    have h3 := Finset.sum_sdiff (f := fun j => γ ^ (L + 1 - j + i)) hsub
    have h4 := Finset.sum_union (f := fun j => γ ^ (L + 1 - j + i)) hdisj
    rw [h4] at h3
    linear_combination -h3
  · intro p hp
    simp only [updateEntries, hfil, List.mem_append, List.mem_map] at hp
    rcases hp with ⟨j, hj, rfl⟩ | ⟨j, hj, rfl⟩
    · exact ha.rangeI j ((C08.sortAsc_mem j _).mp hj)
    · exact ha.rangeR j ((C08.sortAsc_mem j _).mp hj)

/-- **the derivations agree**: the issuance witness updated through a later delta equals the
witness computed from scratch for the resulting set (on demand; `d'` is any cumulative delta
whose issued set is that set). -/
theorem three_derivations_agree (γ : F) (m : OvfMode) (L i : ℕ) (hL : TailsOk L)
    (hi : InRange L i) (V : Finset ℕ) (d d' : Delta F)
    (ha : Applicable L V d.issued d.revoked)
    (hr : ∀ j ∈ d'.issued, InRange L j)
    (hset : d'.issued.toFinset = (V ∪ d.issued.toFinset) \ d.revoked.toFinset) :
    witnessUpdate ringOps γ m L i (witOf γ L i V) d = witnessNew ringOps γ m L false i d' := by
  rw [update_witness_value γ m L i hL hi V d ha, new_witness_value_on_demand γ m L i hL hi d' hr, hset]

/-- **every tail index read lies in `[2, 2L]` and is never `L+1`** (the suppressed one) -/
theorem update_index_in_range (L j i : ℕ) (hj : InRange L j) (hi : InRange L i) (hne : j ≠ i) :
    2 ≤ L + 1 - j + i ∧ L + 1 - j + i ≤ 2 * L ∧ L + 1 - j + i ≠ L + 1 := by
  unfold InRange at hj hi; omega

/-- out-of-range holder index: `Witness::new` / `Witness::update` return `Err` -/
theorem witness_rejects_bad_holder (γ : F) (m : OvfMode) (L i : ℕ) (hi : ¬ InRange L i)
    (byDefault : Bool) (ω : F) (d : Delta F) :
    witnessNew ringOps γ m L byDefault i d = .err ∧ witnessUpdate ringOps γ m L i ω d = .err := by
  simp [witnessNew, witnessUpdate, witnessNewGuard_spec, witnessUpdateGuard_spec,
    outOfRange_guard_true hi]

/-! non-vacuity -/
example : Applicable 3 {1, 2} [3] [1] :=
  ⟨by simp [InRange], by simp [InRange], by simp, by simp, by simp⟩
example : TailsOk 32 := by unfold TailsOk; omega

end CL.C09
