import CLModel.Model.Primary
import CLModel.Proofs.IntExpr
import CLModel.Proofs.Guards
import Mathlib.Tactic.Ring
/-!
# C03 — Predicate proofs are sound and complete over the 32-bit range (arithmetic half)

The delta expressions are the match arms regenerated from `Predicate::get_delta_wide`,
`get_delta_prime` and `is_less` in `/repo/src/types.rs` (`Gen.Predicate`).  The theorems
quantify over the entire `i32 × i32 × {GE,GT,LE,LT}` space and both overflow modes.
The algebraic half (completeness of the predicate sub-protocol, binding of `mj` to the
equality proof) is in `Props/C01.lean` and at the end of this file.
-/
namespace CL.C03
open CL CL.Pri

def I32 (x : Int) : Prop := -2147483648 ≤ x ∧ x ≤ 2147483647

theorem wrap_i64_of_i32 {x : Int} (h : I32 x) : IntTy.i64.wrap x = x := by
  unfold I32 at h
  unfold IntTy.wrap
  simp only [i64_lo, i64_size]
  omega

/-- the regenerated delta is the mathematical difference, never overflows, never panics -/
theorem delta_value (m : OvfMode) (p : Pred) (v : Int) (hv : I32 v) (ht : I32 p.value) :
    getDelta m p v = .ok (match p.ptype with
      | .GE => v - p.value
      | .GT => v - p.value - 1
      | .LE => p.value - v
      | .LT => p.value - v - 1) := by
  have hv' := hv; have ht' := ht
  unfold I32 at hv' ht'
  unfold getDelta
  cases hp : p.ptype <;>
    simp only [Gen.getDeltaArm, IExpr.eval, envGet, castOp_ok, wrap_i64_of_i32 hv,
      wrap_i64_of_i32 ht, binop_sub_ok]
  · rw [IntTy.fit_ok (by simp; omega) (by simp; omega)]
  · rw [IntTy.fit_ok (by simp; omega) (by simp; omega)]
  · rw [IntTy.fit_ok (by simp; omega) (by simp; omega)]
    simp only [binop_sub_ok]
    rw [IntTy.fit_ok (by simp; omega) (by simp; omega)]
  · rw [IntTy.fit_ok (by simp; omega) (by simp; omega)]
    simp only [binop_sub_ok]
    rw [IntTy.fit_ok (by simp; omega) (by simp; omega)]

/-- **delta ≥ 0 ⇔ the predicate holds**, for every value, threshold, type and profile -/
theorem delta_nonneg_iff (m : OvfMode) (p : Pred) (v : Int) (hv : I32 v) (ht : I32 p.value) :
    ∃ δ, getDelta m p v = .ok δ ∧ (0 ≤ δ ↔ p.holds v = true) ∧ δ < 4294967296 := by
  rw [delta_value m p v hv ht]
  unfold I32 at hv ht
  refine ⟨_, rfl, ?_, ?_⟩ <;> cases hp : p.ptype <;> simp [Pred.holds, hp] <;> omega

/-- **the verifier's delta'** (`get_delta_prime`) is the threshold adjusted by the strictness,
computed without wrap-around (e.g. `LT i32::MIN` gives `i32::MIN - 1`, not `i32::MAX`) -/
theorem delta_prime_value (m : OvfMode) (p : Pred) (ht : I32 p.value) :
    getDeltaPrime m p = .ok (match p.ptype with
      | .GE => p.value
      | .GT => p.value + 1
      | .LE => p.value
      | .LT => p.value - 1) := by
  have ht' := ht
  unfold I32 at ht'
  unfold getDeltaPrime
  cases hp : p.ptype <;>
    simp only [Gen.getDeltaPrimeArm, IExpr.eval, envGet, castOp_ok, wrap_i64_of_i32 ht,
      binop_sub_ok, binop_add_ok]
  · rw [IntTy.fit_ok (by simp; omega) (by simp; omega)]
  · rw [IntTy.fit_ok (by simp; omega) (by simp; omega)]

/-- `is_less` is `true` exactly for LE / LT -/
theorem is_less_spec (p : Pred) :
    isLess p = .ok (match p.ptype with | .GE => false | .GT => false | .LE => true | .LT => true) := by
  unfold isLess
  cases p.ptype <;> rfl

/-- **the two deltas fit together**: `delta = value − delta'` for GE/GT and `delta' − value`
for LE/LT — the relation the verifier's `τ̂_Δ` recomputation relies on. -/
theorem delta_prime_rel (m : OvfMode) (p : Pred) (v : Int) (hv : I32 v) (ht : I32 p.value) :
    ∃ δ δ' less, getDelta m p v = .ok δ ∧ getDeltaPrime m p = .ok δ' ∧ isLess p = .ok less ∧
      δ = if less then δ' - v else v - δ' := by
  rw [delta_value m p v hv ht, delta_prime_value m p ht, is_less_spec p]
  refine ⟨_, _, _, rfl, rfl, rfl, ?_⟩
  cases p.ptype <;> simp <;> ring

/-- the prover's decision (refuse iff `delta < 0`) is `build ⇔ predicate true` -/
theorem prover_decision_iff_true (m : OvfMode) (p : Pred) (v : Int) (hv : I32 v) (ht : I32 p.value) :
    ∃ δ, getDelta m p v = .ok δ ∧ ((δ < 0) ↔ p.holds v = false) := by
  obtain ⟨δ, h1, h2, _⟩ := delta_nonneg_iff m p v hv ht
  refine ⟨δ, h1, ?_⟩
  constructor
  · intro h; cases hh : p.holds v
    · rfl
    · exact absurd (h2.mpr hh) (by omega)
  · intro h; by_contra hc
    have : p.holds v = true := h2.mp (by omega)
    rw [h] at this; exact Bool.noConfusion this

/-- the translator found the refusal test, the 64-bit delta and the i32 attribute parse -/
theorem prover_shape : Gen.proverRefusesNegativeDelta = true ∧ Gen.deltaRetTy = some .i64 ∧
    Gen.fourSquaresArgTy = some .i64 ∧ Gen.attrParseTy = some .i32 := ⟨rfl, rfl, rfl, rfl⟩

/-- **predicate proofs are bound to the credential**: if the verifier's pass over the
predicate proofs of a sub-proof succeeds, every predicate response `mj` is the equality
proof's response for the predicate's attribute — so a predicate cannot be proven about a value
other than the one signed in the credential of the same sub-proof (the extraction of `mj` and
of `m[attr]` is one and the same integer). Any number of predicates. -/
theorem ne_bound_to_eq {G : Type} (o : GroupOps G) (m : OvfMode) (pk : PubKey G) (c : Int)
    (eqM : List (String × Int)) : ∀ (ps : List (NeProof G)) (ts : List G),
      verifyNeAll o m pk c eqM ps = .ok ts →
      ∀ p ∈ ps, lookup p.pred.attr eqM = some p.mj := by
  intro ps
  induction ps with
  | nil => intro ts _ p hp; simp at hp
  | cons q qs ih =>
    intro ts h p hp
    simp only [verifyNeAll] at h
    cases hl : lookup q.pred.attr eqM with
    | none => simp [getOrErr, hl] at h
    | some mhat =>
      simp only [getOrErr, hl, Outcome.bind_ok] at h
      by_cases hne : mhat != q.mj
      · simp [hne] at h
      · simp only [hne, Bool.false_eq_true, if_false] at h
        have hm : mhat = q.mj := by simpa using hne
        cases hv : verifyNePredicate o m pk q c with
        | ok tl =>
          rw [hv] at h
          simp only [Outcome.bind_ok] at h
          cases hr : verifyNeAll o m pk c eqM qs with
          | ok rest =>
            simp only [List.mem_cons] at hp
            rcases hp with rfl | hp
            · rw [hl, hm]
            · exact ih rest hr p hp
          | err => rw [hr] at h; simp at h
          | panic => rw [hr] at h; simp at h
        | err => rw [hv] at h; simp at h
        | panic => rw [hv] at h; simp at h

/-- the cheating strategy "predicate on another value" (`mj` not the equality proof's
response) is rejected outright, whatever the rest of the predicate proof looks like -/
theorem pred_on_other_value_rejected {G : Type} (o : GroupOps G) (m : OvfMode) (pk : PubKey G)
    (c : Int) (eqM : List (String × Int)) (p : NeProof G) (ps : List (NeProof G)) (mhat : Int)
    (h1 : lookup p.pred.attr eqM = some mhat) (h2 : mhat ≠ p.mj) :
    verifyNeAll o m pk c eqM (p :: ps) = .err := by
  have : (mhat != p.mj) = true := by simpa using h2
  simp only [verifyNeAll, getOrErr, h1, Outcome.bind_ok, this, if_true]

/-! non-vacuity: the extremes of the range are covered -/
example : I32 2147483647 ∧ I32 (-2147483648) := by unfold I32; omega
example : getDelta .checked ⟨"a", .GE, -2147483648⟩ 2147483647 = .ok 4294967295 := by decide
example : getDeltaPrime .wrapping ⟨"a", .LT, -2147483648⟩ = .ok (-2147483649) := by decide

/-- **the link check is where the model has it**: in `_verify_primary_proof` the response
`eq_proof.m[predicate.attr_name]` is compared with `ne_proof.mj` inside the loop over the
predicate proofs, for each proof, before `_verify_ne_predicate` (recognised by the translator;
collecting the responses into a map first, or comparing after the loop, breaks it) -/
theorem mj_link_from_source : Gen.mjLinkInLoop = true := rfl

/-- **a predicate is proven about a hidden attribute only**: if the verifier's recomputation of a
sub-proof succeeds, every predicate's attribute is among the unrevealed attributes — the names whose
responses the verification equation consumes — so the response it is linked to (`ne_bound_to_eq`)
is a real exponent, not an entry added to `eq_proof.m` for an attribute the sub-proof reveals.
False of the pinned tree: "age ≥ 896" was accepted for a credential revealing age = 852
(repaired 643a1c8). -/
theorem predicate_attr_is_hidden {G : Type} (o : GroupOps G) (m : OvfMode) (pk : PubKey G)
    (eq : EqProof G) (ne : List (NeProof G)) (c : Int) (un : List String) (ts : List G)
    (h : verifyPrimaryProof o m pk eq ne c un = .ok ts) : ∀ p ∈ ne, p.pred.attr ∈ un := by
  unfold verifyPrimaryProof at h
  cases h1 : verifyEquality o pk eq c un with
  | ok t =>
    rw [h1] at h; simp only [Outcome.bind_ok] at h
    split at h
    · simp at h
    · rename_i hany
      intro p hp
      simp only [Bool.not_eq_true, List.any_eq_false] at hany
      have := hany p hp
      simpa using this
  | err => rw [h1] at h; simp at h
  | panic => rw [h1] at h; simp at h

/-- the source has that check where the model has it: inside the loop over the predicate proofs,
before the link check (recognised by the translator) -/
theorem predicate_hidden_guard_from_source : Gen.predicateOnRevealedRejected = true := rfl

end CL.C03
