import CLModel.Model.Basic
import CLModel.Model.Registry
