import Lean.Data.Json
import Driver.Util
import CLModel.Model.BigNum
/-! Driver ops for the big-number layer (C17, C18).

`bn_op`     in = {"backend": "rust|openssl|spec", "op": <name>, "args": [...]}
            out = {"status": "ok|err|panic", "val": <canonical>, "spec": {"status", "val"}}
            (`spec` is the same operation evaluated by `CL.BN.Spec`, so that one case line can be
            compared with the model of its back-end and with integer arithmetic)
`bn_random` in = {"mr": [decimal…], "cand": {"size","range","mode","values":[decimal…]}}
            out = {"mr": [{"p": bool, "h": bool}…], "cand": [bool…]}
            Miller–Rabin verdicts (a *test*, labelled as such) for `n` and `(n-1)/2`, and the
            fixed-point check `primeCandidate(bytes of v) = v` of the buffer construction.

Canonical values: big integers decimal strings, small integers (cmp, num_bits) JSON numbers,
bytes lower-case hex, text as is, booleans. -/
open Lean CL CL.BN

namespace Drv

inductive BnVal where
  | z (v : Int)
  | n (v : Int)
  | b (v : Bool)
  | s (t : List Char)
  | bytes (l : List Nat)

def lowerHexChar (d : Nat) : Char :=
  if d < 10 then Char.ofNat (48 + d) else Char.ofNat (87 + d)

def bytesToHex (l : List Nat) : String :=
  String.ofList (l.flatMap fun b => [lowerHexChar (b / 16), lowerHexChar (b % 16)])

def hexToBytes (s : String) : Except String (List Nat) :=
  let rec go : List Char → List Nat → Except String (List Nat)
    | [], acc => pure acc.reverse
    | [_], _ => throw "odd hex length"
    | a :: b :: t, acc =>
      match hexDigit a, hexDigit b with
      | some x, some y => go t ((x * 16 + y) :: acc)
      | _, _ => throw "bad hex"
  go s.toList []

def intStr (v : Int) : String := if v < 0 then "-" ++ toString v.natAbs else toString v.natAbs

def BnVal.toJson : BnVal → Json
  | .z v => Json.str (intStr v)
  | .n v => Json.num (JsonNumber.fromInt v)
  | .b v => Json.bool v
  | .s t => Json.str (String.ofList t)
  | .bytes l => Json.str (bytesToHex l)

def outJson (o : Outcome BnVal) : List (String × Json) :=
  match o with
  | .ok v => [("status", "ok"), ("val", v.toJson)]
  | .err => [("status", "err"), ("val", Json.null)]
  | .panic => [("status", "panic"), ("val", Json.null)]

inductive Backend where
  | rust | ossl | spec
deriving BEq

def argAt (a : Array Json) (i : Nat) : Except String Json :=
  match a[i]? with
  | some v => pure v
  | none => throw s!"missing argument {i}"

def argZ (a : Array Json) (i : Nat) : Except String Int := do
  match (← argAt a i) with
  | .str s => match parseDecInt s with
    | some v => pure v
    | none => throw s!"argument {i}: not an integer: {s}"
  | v => v.getInt?

def argNat (a : Array Json) (i : Nat) : Except String Nat := do
  match (← argAt a i) with
  | .str s => match s.toNat? with
    | some v => pure v
    | none => throw s!"argument {i}: not a natural: {s}"
  | v => v.getNat?

def argS (a : Array Json) (i : Nat) : Except String (List Char) := do
  pure (← (← argAt a i).getStr?).toList

def argBytes (a : Array Json) (i : Nat) : Except String (List Nat) := do
  hexToBytes (← (← argAt a i).getStr?)

def argBool (a : Array Json) (i : Nat) : Except String Bool := do
  (← argAt a i).getBool?

def pick {α : Type} (be : Backend) (r o s : α) : α :=
  match be with
  | .rust => r
  | .ossl => o
  | .spec => s

def opsOf (be : Backend) : Ops := pick be Rust.ops Ossl.ops Spec.ops

def zz (o : Outcome Int) : Outcome BnVal := o.map .z
def nn (o : Outcome Int) : Outcome BnVal := o.map .n
def bb (o : Outcome Bool) : Outcome BnVal := o.map .b
def ss (o : Outcome (List Char)) : Outcome BnVal := o.map .s
def by' (o : Outcome (List Nat)) : Outcome BnVal := o.map .bytes

def evalBn (be : Backend) (op : String) (a : Array Json) : Except String (Outcome BnVal) := do
  match op with
  | "from_dec" => let s ← argS a 0; pure (zz (pick be Rust.fromDec Ossl.fromDec Spec.fromDec s))
  | "from_hex" => let s ← argS a 0; pure (zz (pick be Rust.fromHex Ossl.fromHex Spec.fromHex s))
  | "from_bytes" => let b ← argBytes a 0; pure (zz (pick be Rust.fromBytes Ossl.fromBytes Spec.fromBytes b))
  | "to_dec" => let x ← argZ a 0; pure (ss (pick be Rust.toDec Ossl.toDec Spec.toDec x))
  | "to_hex" => let x ← argZ a 0; pure (ss (pick be Rust.toHex Ossl.toHex Spec.toHex x))
  | "to_bytes" => let x ← argZ a 0; pure (by' (pick be Rust.toBytes Ossl.toBytes Spec.toBytes x))
  | "from_u32" => let n ← argNat a 0; pure (zz (pick be Rust.fromU32 Ossl.fromU32 Spec.fromU32 n))
  | "cmp" => let x ← argZ a 0; let y ← argZ a 1; pure (nn (pick be Rust.cmp Ossl.cmp Spec.cmp x y))
  | "eq" => let x ← argZ a 0; let y ← argZ a 1; pure (bb (pick be Rust.eq Ossl.eq Spec.eq x y))
  | "is_negative" => let x ← argZ a 0; pure (bb (pick be Rust.isNegative Ossl.isNegative Spec.isNegative x))
  | "add" => let x ← argZ a 0; let y ← argZ a 1; pure (zz (pick be Rust.add Ossl.add Spec.add x y))
  | "sub" => let x ← argZ a 0; let y ← argZ a 1; pure (zz (pick be Rust.sub Ossl.sub Spec.sub x y))
  | "mul" => let x ← argZ a 0; let y ← argZ a 1; pure (zz (pick be Rust.mul Ossl.mul Spec.mul x y))
  | "sqr" => let x ← argZ a 0; pure (zz (pick be Rust.sqr Ossl.sqr Spec.sqr x))
  | "div" => let x ← argZ a 0; let y ← argZ a 1; pure (zz (pick be Rust.div Ossl.div Spec.div x y))
  | "modulus" => let x ← argZ a 0; let y ← argZ a 1; pure (zz (pick be Rust.modulus Ossl.modulus Spec.modulus x y))
  | "mod_mul" => let x ← argZ a 0; let y ← argZ a 1; let n ← argZ a 2
                 pure (zz (pick be Rust.modMul Ossl.modMul Spec.modMul x y n))
  | "mod_sub" => let x ← argZ a 0; let y ← argZ a 1; let n ← argZ a 2
                 pure (zz (pick be Rust.modSub Ossl.modSub Spec.modSub x y n))
  | "mod_div" => let x ← argZ a 0; let y ← argZ a 1; let n ← argZ a 2
                 pure (zz (pick be Rust.modDiv Ossl.modDiv Spec.modDiv x y n))
  | "exp" => let x ← argZ a 0; let y ← argZ a 1; pure (zz (pick be Rust.exp Ossl.exp Spec.expFast x y))
  | "mod_exp" => let x ← argZ a 0; let y ← argZ a 1; let n ← argZ a 2
                 pure (zz (pick be Rust.modExp Ossl.modExp Spec.modExpFast x y n))
  | "inverse" => let x ← argZ a 0; let n ← argZ a 1; pure (zz (pick be Rust.inverse Ossl.inverse Spec.inverse x n))
  | "gcd" => let x ← argZ a 0; let y ← argZ a 1; pure (zz (pick be Rust.gcd Ossl.gcd Spec.gcd x y))
  | "lshift1" => let x ← argZ a 0; pure (zz (pick be Rust.lshift1 Ossl.lshift1 Spec.lshift1 x))
  | "rshift1" => let x ← argZ a 0; pure (zz (pick be Rust.rshift1 Ossl.rshift1 Spec.rshift1 x))
  | "rshift" => let x ← argZ a 0; let n ← argNat a 1; pure (zz (pick be Rust.rshift Ossl.rshift Spec.rshiftFast x n))
  | "num_bits" => let x ← argZ a 0; pure (nn (pick be Rust.numBits Ossl.numBits Spec.numBits x))
  | "is_bit_set" => let x ← argZ a 0; let n ← argZ a 1; pure (bb (pick be Rust.isBitSet Ossl.isBitSet Spec.isBitSet x n))
  | "set_bit" => let x ← argZ a 0; let n ← argZ a 1; pure (zz (pick be Rust.setBit Ossl.setBit Spec.setBit x n))
  | "add_word" => let x ← argZ a 0; let w ← argNat a 1; pure (zz (pick be Rust.addWord Ossl.addWord Spec.addWord x w))
  | "sub_word" => let x ← argZ a 0; let w ← argNat a 1; pure (zz (pick be Rust.subWord Ossl.subWord Spec.subWord x w))
  | "mul_word" => let x ← argZ a 0; let w ← argNat a 1; pure (zz (pick be Rust.mulWord Ossl.mulWord Spec.mulWord x w))
  | "div_word" => let x ← argZ a 0; let w ← argNat a 1; pure (zz (pick be Rust.divWord Ossl.divWord Spec.divWord x w))
  | "increment" => let x ← argZ a 0; pure (zz (pick be Rust.increment Ossl.increment Spec.increment x))
  | "decrement" => let x ← argZ a 0; pure (zz (pick be Rust.decrement Ossl.decrement Spec.decrement x))
  | "set_negative" => let x ← argZ a 0; let n ← argBool a 1
                      pure (zz (pick be Rust.setNegative Ossl.setNegative Spec.setNegative x n))
  | "bitwise_or" => let x ← argZ a 0; let y ← argZ a 1
                    pure (zz (match be with
                      | .spec => Spec.bitwiseOr x y
                      | _ => bitwiseOr (opsOf be) x y))
  | "semiprime" => let g ← argZ a 0; let p ← argZ a 1; let q ← argZ a 2; let n ← argZ a 3
                   pure (bb (generatesSemiprimeSubgroup (opsOf be) g p q n))
  | _ => throw s!"unknown bn op {op}"

def parseBackend (s : String) : Except String Backend :=
  match s with
  | "rust" => pure .rust
  | "openssl" => pure .ossl
  | "spec" => pure .spec
  | _ => throw s!"unknown backend {s}"

def bnOp (inp : Json) : Except String Json := do
  let be ← parseBackend (← getStr inp "backend")
  let op ← getStr inp "op"
  let args ← getArr inp "args"
  let m ← evalBn be op args
  let sp ← evalBn .spec op args
  pure (Json.mkObj (outJson m ++ [("spec", Json.mkObj (outJson sp))]))

/-- bytes of the candidate that `rng.fill_bytes` would have had to produce: the last
`range/8 + 1` bytes of the `size/8 + 1`-byte big-endian encoding -/
def candFixed (size range : Nat) (v : Int) : Bool :=
  let sizeBytes := size / 8 + 1
  let rangeBytes := range / 8 + 1
  let ds := toDigits 256 v.natAbs
  if ds.length > sizeBytes then false
  else
    let full := List.replicate (sizeBytes - ds.length) 0 ++ ds
    let rnd := full.drop (sizeBytes - rangeBytes)
    match primeCandidate size range rnd with
    | .ok c => c == v
    | _ => false

def bnRandom (inp : Json) : Except String Json := do
  let mr := match optField inp "mr" with
    | some (.arr xs) => xs.toList
    | _ => []
  let mrOut ← mr.mapM fun j => do
    let s ← j.getStr?
    match parseDecInt s with
    | some v =>
      let n := v.toNat
      let p := decide (0 ≤ v) && millerRabin n
      let h := decide (0 ≤ v) && millerRabin ((n - 1) / 2)
      pure (Json.mkObj [("p", Json.bool p), ("h", Json.bool h)])
    | none => throw s!"bad integer {s}"
  let candOut ← match optField inp "cand" with
    | some c => do
      let size ← getNat c "size"
      let range ← getNat c "range"
      let vs ← getArr c "values"
      vs.toList.mapM fun j => do
        let s ← j.getStr?
        match parseDecInt s with
        | some v => pure (Json.bool (candFixed size range v))
        | none => throw s!"bad integer {s}"
    | none => pure []
  pure (Json.mkObj [("mr", Json.arr mrOut.toArray), ("cand", Json.arr candOut.toArray)])

def primeCandOp (inp : Json) : Except String Json := do
  let size ← getNat inp "size"
  let range ← getNat inp "range"
  let rnd ← hexToBytes (← getStr inp "rnd")
  pure (Json.mkObj (outJson ((primeCandidate size range rnd).map .z)))

def dispatchBn (op : String) (inp : Json) : Option (Except String Json) :=
  match op with
  | "bn_op" => some (bnOp inp)
  | "bn_random" => some (bnRandom inp)
  | "bn_prime_candidate" => some (primeCandOp inp)
  | _ => none

end Drv
