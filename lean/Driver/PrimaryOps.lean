import Driver.Util
import CLModel.Model.Primary
import CLModel.Model.Sha256
import CLModel.Model.Zn
/-! driver operations for the RSA side of the protocol (C01–C07, C11, C12) -/
open Lean CL CL.Pri

namespace Drv

/-! ## executable group: integers modulo `n` -/

/-! The group itself lives in `CLModel/Model/Zn.lean` (structural / well-founded recursion, so
    that its laws are theorems: `Proofs/Zn.lean`); the names below are the driver's aliases. -/

def modPowNat (b e m : Nat) : Nat := CL.Zn.modPowNat b e m

def modInv (a n : Int) : Outcome Int := CL.Zn.modInv a n

/-- `to_bytes`: big-endian magnitude, zero is the empty string on both backends (the pure-Rust
    backend used to emit `[0]`; repaired in /repo) -/
def encInt (_rustBackend : Bool) (x : Int) : ByteArray := CL.Zn.encInt x

def znOps (n : Int) (_rustBackend : Bool) : GroupOps Int := CL.Zn.znOps n

/-- `hash_list_to_bignum`: SHA-256 over the concatenation, read big-endian -/
def hashList (bs : List ByteArray) : Int :=
  let all := bs.foldl (fun acc b => acc ++ b) ByteArray.empty
  (Sha.bytesToNat (Sha.sha256 all) : Int)

/-! ## JSON of the library's messages -/

def getDec (j : Json) (k : String) : Except String Int := do
  let s ← getStr j k
  match parseDecInt s with
  | some v => pure v
  | none => throw s!"field {k}: not a decimal integer: {s}"

def decOf (j : Json) : Except String Int := do
  let s ← j.getStr?
  match parseDecInt s with
  | some v => pure v
  | none => throw s!"not a decimal integer: {s}"

def objPairs (j : Json) : Except String (List (String × Json)) := do
  let o ← j.getObj?
  pure (o.toList)

def decMap (j : Json) : Except String (List (String × Int)) := do
  let ps ← objPairs j
  ps.mapM fun (k, v) => do pure (k, ← decOf v)

def strList (j : Json) (k : String) : Except String (List String) := do
  (← getArr j k).toList.mapM (·.getStr?)

def parsePubKey (j : Json) : Except String (Int × PubKey Int) := do
  let n ← getDec j "n"
  pure (n, { s := ← getDec j "s", z := ← getDec j "z", rctxt := ← getDec j "rctxt",
             r := ← decMap (← j.getObjVal? "r") })

def parsePType (s : String) : Except String Gen.PType :=
  match s with
  | "GE" => pure .GE | "LE" => pure .LE | "GT" => pure .GT | "LT" => pure .LT
  | _ => throw s!"bad predicate type {s}"

def ptypeStr : Gen.PType → String
  | .GE => "GE" | .LE => "LE" | .GT => "GT" | .LT => "LT"

def parsePred (j : Json) : Except String Pred := do
  pure { attr := ← getStr j "attr_name", ptype := ← parsePType (← getStr j "p_type"),
         value := ← getInt j "value" }

def parseEqProof (j : Json) : Except String (EqProof Int) := do
  pure { revealed := ← decMap (← j.getObjVal? "revealed_attrs"), aPrime := ← getDec j "a_prime",
         e := ← getDec j "e", v := ← getDec j "v", m := ← decMap (← j.getObjVal? "m"),
         m2 := ← getDec j "m2" }

def parseNeProof (j : Json) : Except String (NeProof Int) := do
  pure { u := ← decMap (← j.getObjVal? "u"), r := ← decMap (← j.getObjVal? "r"),
         mj := ← getDec j "mj", alpha := ← getDec j "alpha", t := ← decMap (← j.getObjVal? "t"),
         pred := ← parsePred (← j.getObjVal? "predicate") }

def bytesOfJsonArr (j : Json) : Except String ByteArray := do
  let a ← j.getArr?
  let mut out := ByteArray.empty
  for x in a do
    out := out.push (← x.getNat?).toUInt8
  pure out

def itemJson : Item → Json
  | .bytes b => Json.mkObj [("bytes", Sha.hexOfBytes b)]
  | .g1 e => Json.mkObj [("g1", toHex e)]
  | .g2 e => Json.mkObj [("g2", toHex e)]
  | .gt e => Json.mkObj [("gt", toHex e)]

def outcomeJson {α : Type} (f : α → List (String × Json)) : Outcome α → Json
  | .ok a => Json.mkObj (("status", "ok") :: f a)
  | .err => Json.mkObj [("status", "err")]
  | .panic => Json.mkObj [("status", "panic")]

def decMapJson (m : List (String × Int)) : Json :=
  Json.mkObj (m.map fun (k, v) => (k, Json.str (toString v)))

/-! ## verify -/

/-- hook for the pairing side: `(sub-proof index, credential json, non_revoc_proof json,
    c_hash, m2 response) ↦ τ̂ items`; installed by `Driver/NonRevocOps` -/
abbrev NrHook := Nat → Json → Json → Int → Int → Outcome (List Item)

def noNrHook : NrHook := fun _ _ _ _ _ => .err

def verifyOp (nrHook : NrHook) (inp : Json) : Except String Json := do
  let m ← getMode inp
  let rustBackend := (← getStr inp "backend") == "rust"
  let common ← strList inp "common"
  let proofJ ← inp.getObjVal? "proof"
  let agg ← proofJ.getObjVal? "aggregated_proof"
  let cHash ← getDec agg "c_hash"
  let cList ← (← getArr agg "c_list").toList.mapM bytesOfJsonArr
  let nonce ← getDec inp "nonce"
  let credsJ ← getArr inp "creds"
  let subJ ← getArr proofJ "proofs"
  let mut creds : List (VerCred Int) := []
  for cj in credsJ do
    let (n, pk) ← parsePubKey (← cj.getObjVal? "pk")
    let reqJ ← cj.getObjVal? "req"
    let preds ← (← getArr reqJ "predicates").toList.mapM parsePred
    creds := creds ++ [{ o := znOps n rustBackend, pk := pk, schema := ← strList cj "schema", nonSchema := ← strList cj "non_schema",
                         req := { revealed := ← strList reqJ "revealed", predicates := preds },
                         hasRKey := ← getBool cj "has_rkey", hasRegistry := ← getBool cj "has_registry",
                         hasRegKey := ← getBool cj "has_regkey" }]
  let mut subs : List (SubProof Int) := []
  let mut idx := 0
  for sj in subJ do
    let pp ← sj.getObjVal? "primary_proof"
    let eq ← parseEqProof (← pp.getObjVal? "eq_proof")
    let ne ← (← getArr pp "ge_proofs").toList.mapM parseNeProof
    let nrJ := optField sj "non_revoc_proof"
    let credJ := credsJ.toList.getD idx Json.null
    let taus : Outcome (List Item) := match nrJ with
      | some nr => nrHook idx credJ nr cHash eq.m2
      | none => .ok []
    subs := subs ++ [{ eq := eq, ne := ne, hasNonRevoc := nrJ.isSome, nrTaus := taus }]
    idx := idx + 1
  let proof : Proof Int := { proofs := subs, cHash := cHash, cList := cList }
  let res := verifyTranscript m common creds proof (encInt rustBackend nonce)
  match res with
  | .ok items =>
    match allBytes items with
    | some bs =>
      let h := hashList bs
      return Json.mkObj [("status", "ok"), ("valid", h == cHash)]
    | none =>
      return Json.mkObj [("status", "ok"), ("transcript", Json.arr (items.map itemJson).toArray),
                         ("c_hash", Json.str (toString cHash))]
  | .err => return Json.mkObj [("status", "err")]
  | .panic => return Json.mkObj [("status", "panic")]

/-! ## predicate arithmetic (C03) -/

def predOp (inp : Json) : Except String Json := do
  let m ← getMode inp
  let p : Pred := { attr := "a", ptype := ← parsePType (← getStr inp "p_type"), value := ← getInt inp "threshold" }
  let v ← getInt inp "value"
  let d := getDelta m p v
  let dp := getDeltaPrime m p
  let decision : String := match d with
    | .ok x => if x < 0 then "refuse" else "build"
    | .err => "err"
    | .panic => "panic"
  let oj (o : Outcome Int) : Json := match o with
    | .ok x => Json.str (toString x) | .err => "err" | .panic => "panic"
  return Json.mkObj [("delta", oj d), ("delta_prime", oj dp), ("decision", decision),
                     ("holds", p.holds v), ("is_less", match isLess p with | .ok b => Json.bool b | _ => Json.null)]

def dispatchPrimary (nrHook : NrHook) (op : String) (inp : Json) : Option (Except String Json) :=
  match op with
  | "verify" => some (verifyOp nrHook inp)
  | "pred" => some (predOp inp)
  | _ => none

end Drv

