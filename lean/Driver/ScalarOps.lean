import Driver.Util
import CLModel.Model.Scalar
import CLModel.Model.FourSq
/-! driver operations for C19: group-order scalars and `four_squares` -/
open Lean CL

namespace Drv

def hexNib (d : Nat) : Char :=
  if d < 10 then Char.ofNat ('0'.toNat + d) else Char.ofNat ('a'.toNat + d - 10)

def bytesHex (bs : List UInt8) : String :=
  String.ofList (bs.foldr (fun b acc => hexNib (b.toNat / 16) :: hexNib (b.toNat % 16) :: acc) [])

def parseBytes (s : String) : Except String (List UInt8) :=
  let rec go : List Char → List UInt8 → Except String (List UInt8)
    | [], acc => pure acc.reverse
    | [_], _ => throw "odd number of hex digits"
    | a :: b :: rest, acc =>
      match hexDigit a, hexDigit b with
      | some x, some y => go rest (UInt8.ofNat (x * 16 + y) :: acc)
      | _, _ => throw "bad hex digit"
  go s.toList []

/-- canonical rendering of a scalar: what `to_bytes` returns -/
def scHex (a : Sc.Scalar) : String := bytesHex (Sc.toBytes a)

def scOut (a : Sc.Scalar) : Json := Json.mkObj [("status", "ok"), ("val", scHex a)]

def outcomeOut : Outcome Sc.Scalar → Json
  | .ok v => scOut v
  | x => Json.mkObj [("status", x.tag)]

def argStr (args : Array Json) (i : Nat) : Except String String :=
  match args[i]? with
  | some (.str s) => pure s
  | _ => throw s!"argument {i}: string expected"

/-- scalars travel as the 32-byte hex of the raw `BIG` -/
def argSc (args : Array Json) (i : Nat) : Except String Nat := do
  let s ← argStr args i
  let bs ← parseBytes s
  pure (Sc.beNat bs)

def scOp (inp : Json) : Except String Json := do
  let name ← getStr inp "op"
  let args ← getArr inp "args"
  match name with
  | "add" => pure (scOut (Sc.add (← argSc args 0) (← argSc args 1)))
  | "sub" => pure (scOut (Sc.sub (← argSc args 0) (← argSc args 1)))
  | "mul" => pure (scOut (Sc.mul (← argSc args 0) (← argSc args 1)))
  | "pow" => pure (scOut (Sc.pow (← argSc args 0) (← argSc args 1)))
  | "neg" => pure (scOut (Sc.neg (← argSc args 0)))
  | "inv" => pure (outcomeOut (Sc.inv (← argSc args 0)))
  | "to_bytes" => pure (scOut (← argSc args 0))
  | "to_string" => pure (Json.mkObj [("status", "ok"), ("str", Sc.toHex (← argSc args 0))])
  | "from_bytes" => pure (outcomeOut (Sc.fromBytes (← parseBytes (← argStr args 0))))
  | "from_string" => pure (outcomeOut (Sc.fromString (← argStr args 0)))
  | "new_u32" =>
    match args[0]? with
    | some v => do
      let n ← v.getNat?
      if n < 4294967296 then pure (scOut (Sc.newU32 (UInt32.ofNat n))) else throw "new_u32: not a u32"
    | none => throw "new_u32: argument missing"
  | "bignum_reduce" =>
    match parseDecInt (← argStr args 0), args[1]? with
    | some n, some (Json.bool zb) => pure (outcomeOut (Sc.bignumToGroupElementReduce zb n))
    | _, _ => throw "bignum_reduce: [decimal string, zero_byte] expected"
  | _ => throw s!"unknown scalar op {name}"

/-- scalars derived from `a`, `b` that the harness needs for its point/pairing oracles -/
def pairCase (inp : Json) : Except String Json := do
  let a ← do let bs ← parseBytes (← getStr inp "a"); pure (Sc.beNat bs)
  let b ← do let bs ← parseBytes (← getStr inp "b"); pure (Sc.beNat bs)
  pure (Json.mkObj [("ab", scHex (Sc.mul a b)), ("a_plus_b", scHex (Sc.add a b)),
                    ("a_minus_b", scHex (Sc.sub a b)), ("neg_a", scHex (Sc.neg a)),
                    ("r_minus_1", scHex (Sc.sub 0 1))])

def getUMode (inp : Json) : Except String FourSq.UMode := do
  match (← getStr inp "mode") with
  | "checked" => pure (.u64 .checked)
  | "wrapping" => pure (.u64 .wrapping)
  | "ideal" => pure .ideal
  | s => throw s!"bad mode {s}"

def fsOne (um : FourSq.UMode) (skip : List Int) (d : Int) : Json :=
  if skip.contains d then Json.str "skipped" else
  match FourSq.fourSquaresU um d with
  | .ok (a, b, c, e) => natArr [a, b, c, e]
  | .err => Json.str "err"
  | .panic => Json.str "panic"

/-- `{"delta": d}` → `{"status","roots"}`; `{"deltas": [..]}` or `{"lo": l, "n": n}` →
`{"results": [roots | "err" | "panic", ...]}` -/
def fourSquaresOp (inp : Json) : Except String Json := do
  let um ← getUMode inp
  -- deltas the harness did not run because four_squares would take too long on them
  let skip : List Int := match optField inp "skip" with
    | some (.arr a) => a.toList.filterMap fun v => v.getInt?.toOption
    | _ => []
  match optField inp "delta", optField inp "deltas", optField inp "lo" with
  | some _, _, _ =>
    let d ← getInt inp "delta"
    match FourSq.fourSquaresU um d with
    | .ok (a, b, c, e) => pure (Json.mkObj [("status", "ok"), ("roots", natArr [a, b, c, e])])
    | x => pure (Json.mkObj [("status", x.tag)])
  | _, some _, _ =>
    let ds ← getArr inp "deltas"
    let ints ← ds.toList.mapM fun v => match v with
      | .str s => match parseDecInt s with
        | some n => pure n
        | none => throw s!"not an integer: {s}"
      | _ => v.getInt?
    pure (Json.mkObj [("results", Json.arr (ints.map (fsOne um skip)).toArray)])
  | _, _, some _ =>
    let lo ← getNat inp "lo"
    let n ← getNat inp "n"
    pure (Json.mkObj [("results", Json.arr ((List.range n).map fun k => fsOne um skip ((lo + k : Nat) : Int)).toArray)])
  | _, _, _ => throw "four_squares: delta, deltas or lo/n expected"

def dispatchScalar (op : String) (inp : Json) : Option (Except String Json) :=
  match op with
  | "sc_op" => some (scOp inp)
  | "pair_case" => some (pairCase inp)
  | "four_squares" => some (fourSquaresOp inp)
  | _ => none

end Drv
