import Driver.ProveOps
import Driver.NonRevocOps
/-! reference prover for a presentation WITH a non-revocation part (C07, C10, C01).
Two phases, because the pairing-side values enter the hash as bytes only the pairing library
can write: without `c_hash` the operation returns the transcript (primary values as bytes,
pairing-side values as exponents to be materialised); with `c_hash` it returns the proof
(pairing-side c-list again as exponents). -/
open Lean CL CL.Pri CL.NR

namespace Drv

def scalarJson (x : Nat) : Json := Json.str (toHex x)

def proveNrOp (inp : Json) : Except String Json := do
  let m ← getMode inp
  let rustBackend := (← getStr inp "backend") == "rust"
  let (n, pk) ← parsePubKey (← inp.getObjVal? "pk")
  let sj ← inp.getObjVal? "sig"
  let sig : Signature Int := { m2 := ← getDec sj "m_2", a := ← getDec sj "a", e := ← getDec sj "e", v := ← getDec sj "v" }
  let vals ← decMap (← inp.getObjVal? "values")
  let schema ← strList inp "schema"
  let nonSchema ← strList inp "non_schema"
  let reqJ ← inp.getObjVal? "req"
  let revealed := sortStrings (← strList reqJ "revealed")
  let preds ← (← getArr reqJ "predicates").toList.mapM parsePred
  let common ← decMap (← inp.getObjVal? "common")
  let tj ← inp.getObjVal? "tape"
  let mtFresh ← decMap (← tj.getObjVal? "m_tilde")
  let tp : EqTape := { r := ← getDec tj "r", eTilde := ← getDec tj "e_tilde", vTilde := ← getDec tj "v_tilde",
                       mTilde := fun k => (lookup k mtFresh).getD 0 }
  let m2Tilde ← getDec tj "m2_tilde"
  let nonce ← getDec inp "nonce"
  let o := znOps n rustBackend
  let unrevealed := unrevealedOf schema nonSchema revealed
  let ptapes ← (← getArr tj "preds").toList.mapM fun pj => do
    pure ({ r := ← decMap (← pj.getObjVal? "r"), uTilde := ← decMap (← pj.getObjVal? "u_tilde"),
            rTilde := ← decMap (← pj.getObjVal? "r_tilde"), alphaTilde := ← getDec pj "alpha_tilde" } : NeTape)
  let enc := encInt rustBackend
  -- ---- pairing side, exponent form
  let nj ← inp.getObjVal? "nr"
  let cj0 ← nj.getObjVal? "ctx"
  let key ← parseRevKeyExp (← cj0.getObjVal? "key")
  let γ ← hexField cj0 "gamma"
  let L ← getNat cj0 "L"
  let valid ← getNatList cj0 "valid"
  let accU := valid.foldl (fun acc v => fr.add acc (fr.pow γ (L + 1 - v))) 0
  let acc := fr.mul key.gDash accU
  let x ← hexField cj0 "x"
  let sk ← hexField cj0 "sk"
  let cj ← cj0.getObjVal? "cred"
  let i ← getNat cj "i"
  let wvalid ← getNatList cj "witness_valid"
  let omegaU := (wvalid.filter (· != i)).foldl (fun a v => fr.add a (fr.pow γ (L + 1 - v + i))) 0
  let cr := issueCred fr frInv key x sk γ i (← hexField cj "m2") 0 (← hexField cj "vr2") (← hexField cj "c")
              (fr.mul key.gDash omegaU)
  let sc (arr : Array Json) (k : Nat) : Except String Nat := do
    match arr[k]? with
    | some (.str s) => match parseHex s with
      | some v => pure (v % rOrder)
      | none => throw "bad tape scalar"
    | _ => throw "short tape"
  let ct ← getArr nj "ctape"
  let ctape : CTape Nat := { rho := ← sc ct 0, r := ← sc ct 1, rPrime := ← sc ct 2, rPrime2 := ← sc ct 3,
                             rPrime3 := ← sc ct 4, o := ← sc ct 5, oPrime := ← sc ct 6 }
  let tt ← getArr nj "ttape"
  let masks : XList Nat := { rho := ← sc tt 0, r := ← sc tt 1, rPrime := ← sc tt 2, rPrime2 := ← sc tt 3,
                             rPrime3 := ← sc tt 4, o := ← sc tt 5, oPrime := ← sc tt 6, m := ← sc tt 7,
                             mPrime := ← sc tt 8, t := ← sc tt 9, tPrime := ← sc tt 10, m2 := none,
                             s := ← sc tt 11, c := ← sc tt 12 }
  let cp := cListParams fr cr ctape
  let cl := cListValues fr key cr cp
  let m2TildeF := (m2Tilde % (rOrder : Int)).toNat
  let tv := tauValues fr key acc masks cl m2TildeF
  let nrTauItems := tauItems id tv
  let nrCItems := cItems id cl
  match optField inp "c_hash" with
  | none =>
    -- phase 1: the transcript
    match (initEqProof o common pk sig unrevealed m2Tilde tp).bind fun eqInit =>
          (initPreds o m fourSq pk eqInit.mTilde vals (preds.zip ptapes)).map fun nis => (eqInit, nis) with
    | .ok (eqInit, nis) =>
      let taus := (proverTaus eqInit nis).map fun g => Item.bytes (o.enc g)
      let cs := (proverCList eqInit nis).map fun g => Item.bytes (o.enc g)
      let items := nrTauItems ++ taus ++ nrCItems ++ cs ++ [Item.bytes (enc nonce)]
      return Json.mkObj [("status", "ok"), ("phase", 1), ("transcript", Json.arr (items.map itemJson).toArray)]
    | .err => return Json.mkObj [("status", "err"), ("why", "model prover refused")]
    | .panic => return Json.mkObj [("status", "panic")]
  | some chJ =>
    let c ← match chJ with
      | .str s => match s.toInt? with
        | some v => pure v
        | none => throw "bad c_hash"
      | _ => throw "bad c_hash"
    let nrTauB ← (← getArr inp "nr_tau_bytes").toList.mapM fun j => match j with
      | .str s => match Sha.bytesOfHex s with
        | some b => pure b
        | none => throw "bad hex"
      | _ => throw "bad nr_tau_bytes"
    let nrCB ← (← getArr inp "nr_c_bytes").toList.mapM fun j => match j with
      | .str s => match Sha.bytesOfHex s with
        | some b => pure b
        | none => throw "bad hex"
      | _ => throw "bad nr_c_bytes"
    -- phase 2: the model prover with the challenge computed from the materialised transcript;
    -- the hash is re-computed by the model itself over the same item list and must agree
    match proveSingleWith o hashList m fourSq common pk sig unrevealed revealed (preds.zip ptapes) vals m2Tilde tp (enc nonce) nrTauB nrCB with
    | .ok prf =>
      if prf.cHash != c then return Json.mkObj [("status", "err"), ("why", s!"challenge differs: model hash {prf.cHash}")] else
      match prf.proofs with
      | [sp] =>
        let cH := (c % (rOrder : Int)).toNat
        match NR.finalize fr masks cp cl cH with
        | none => return Json.mkObj [("status", "err"), ("why", "x-list shape")]
        | some nrp =>
          let xl := nrp.x
          let xJ := Json.mkObj [("rho", scalarJson xl.rho), ("r", scalarJson xl.r), ("r_prime", scalarJson xl.rPrime),
            ("r_prime_prime", scalarJson xl.rPrime2), ("r_prime_prime_prime", scalarJson xl.rPrime3), ("o", scalarJson xl.o),
            ("o_prime", scalarJson xl.oPrime), ("m", scalarJson xl.m), ("m_prime", scalarJson xl.mPrime), ("t", scalarJson xl.t),
            ("t_prime", scalarJson xl.tPrime), ("s", scalarJson xl.s), ("c", scalarJson xl.c)]
          let clJ := Json.mkObj [("e", Json.mkObj [("g1", toHex cl.e)]), ("d", Json.mkObj [("g1", toHex cl.d)]),
            ("a", Json.mkObj [("g1", toHex cl.a)]), ("g", Json.mkObj [("g1", toHex cl.g)]),
            ("w", Json.mkObj [("g2", toHex cl.w)]), ("s", Json.mkObj [("g2", toHex cl.s)]), ("u", Json.mkObj [("g2", toHex cl.u)])]
          let eq := sp.eq
          let nes : List Json := sp.ne.map fun ne =>
            Json.mkObj [("u", decMapJson ne.u), ("r", decMapJson ne.r), ("mj", Json.str (toString ne.mj)),
              ("alpha", Json.str (toString ne.alpha)), ("t", decMapJson ne.t), ("predicate", predJson ne.pred)]
          let eqJ := Json.mkObj [("revealed_attrs", decMapJson eq.revealed), ("a_prime", Json.str (toString eq.aPrime)),
            ("e", Json.str (toString eq.e)), ("v", Json.str (toString eq.v)), ("m", decMapJson eq.m), ("m2", Json.str (toString eq.m2))]
          let proof := Json.mkObj [
            ("proofs", Json.arr #[Json.mkObj [("primary_proof", Json.mkObj [("eq_proof", eqJ), ("ge_proofs", Json.arr nes.toArray)]),
                                              ("non_revoc_proof", Json.mkObj [("x_list", xJ), ("c_list", clJ)])]]),
            ("aggregated_proof", Json.mkObj [("c_hash", Json.str (toString prf.cHash)), ("c_list", Json.arr (prf.cList.map bytesJson).toArray)])]
          return Json.mkObj [("status", "ok"), ("phase", 2), ("proof", proof)]
      | _ => return Json.mkObj [("status", "err"), ("why", "shape")]
    | .err => return Json.mkObj [("status", "err"), ("why", "model prover refused")]
    | .panic => return Json.mkObj [("status", "panic")]

def dispatchProveNr (op : String) (inp : Json) : Option (Except String Json) :=
  match op with
  | "prove_nr" => some (proveNrOp inp)
  | _ => none

end Drv
