import Driver.ProveOps
/-!
# adversarial provers (C02, C03): proofs whose Fiat–Shamir transcript is self-consistent

The model prover of `ProveOps` run by a cheating holder.  Every document produced here must be
REJECTED; the model verifier's verdict is returned next to the document, the harness asks the
real verifier.

* `unit_e`: no credential at all.  `A = Z / (Rctxt^{m2} · Π R_i^{m_i})` satisfies the signature
  equation with `e = 1, v = 0` for ANY claimed values; the honest protocol is then run on that
  "signature".  Only the range check on the response for `e` stands in the way; the size of
  the mask `ẽ` (tape) decides whether the response is negative (textbook) or positive and
  over-long.
* `unlinked`: a real credential; predicate number `j` is proven about a made-up value with a
  mask of its own, so its response `mj` is not the equality proof's response for the attribute.
-/
open Lean CL CL.Pri

namespace Drv

structure Cheat where
  /-- index of the predicate proven about a made-up value -/
  predIndex : Nat
  value : Int
  mTilde : Int
  /-- prove only the FIRST requested predicate and send its proof once per requested predicate
      (a repeated predicate proof standing in for the missing ones) -/
  dupFirst : Bool := false
  /-- split a hidden value: the equality proof is run on `value − d` for this attribute and an
      unrequested entry `(attr, d)` is added to `revealed_attrs` (the two parts recombine in the
      verification equation unless the revealed set is compared with the request) -/
  splitAttr : Option (String × Int) := none
  /-- the predicate's attribute is REVEALED by the sub-proof: add a dummy entry `(attr, mj)` to
      `eq_proof.m` so that the link check compares the predicate response with itself -/
  injectM : Bool := false
  /-- prove with `attr` hidden, then CLAIM a revealed value for it: `revealed_attrs[attr] := fake`,
      `m[attr] := m̂ − c·fake` (recombines if the verifier takes the hidden exponents from the keys of
      `eq_proof.m` instead of from its own request) -/
  fakeReveal : Option (String × Int) := none

def forgeCore (inp : Json) (sigOf : Int → PubKey Int → Values → Except String (Signature Int))
    (cheat : Option Cheat) : Except String Json := do
  let m ← getMode inp
  let rustBackend := (← getStr inp "backend") == "rust"
  let pkJ ← inp.getObjVal? "pk"
  let (n, pk) ← parsePubKey pkJ
  let vals ← decMap (← inp.getObjVal? "values")
  let sig ← sigOf n pk vals
  let schema ← strList inp "schema"
  let nonSchema ← strList inp "non_schema"
  let reqJ ← inp.getObjVal? "req"
  let revealed := sortStrings (← strList reqJ "revealed")
  let preds ← (← getArr reqJ "predicates").toList.mapM parsePred
  let common ← decMap (← inp.getObjVal? "common")
  let tj ← inp.getObjVal? "tape"
  let mtFresh ← decMap (← tj.getObjVal? "m_tilde")
  let tp : EqTape := { r := ← getDec tj "r", eTilde := ← getDec tj "e_tilde", vTilde := ← getDec tj "v_tilde",
                       mTilde := fun k => (lookup k mtFresh).getD 0 }
  let m2Tilde ← getDec tj "m2_tilde"
  let nonce ← getDec inp "nonce"
  let o := znOps n rustBackend
  let unrevealed := unrevealedOf schema nonSchema revealed
  let ptapes ← (← getArr tj "preds").toList.mapM fun pj => do
    pure ({ r := ← decMap (← pj.getObjVal? "r"), uTilde := ← decMap (← pj.getObjVal? "u_tilde"),
            rTilde := ← decMap (← pj.getObjVal? "r_tilde"), alphaTilde := ← getDec pj "alpha_tilde" } : NeTape)
  match initEqProof o common pk sig unrevealed m2Tilde tp with
  | .ok eqInit =>
    let mut neInits : List (NeInit Int) := []
    let mut j := 0
    let dup := match cheat with | some ch => ch.dupFirst | none => false
    let work := if dup then (preds.zip ptapes).take 1 else preds.zip ptapes
    for (p, t) in work do
      let (mt, vs) : List (String × Int) × Values := match cheat with
        | some ch => if !ch.dupFirst && ch.predIndex == j then ((p.attr, ch.mTilde) :: eqInit.mTilde, (p.attr, ch.value) :: vals)
                     else (eqInit.mTilde, vals)
        | none => (eqInit.mTilde, vals)
      match initNeProof o m fourSq pk mt vs p t with
      | .ok ni => neInits := neInits ++ [ni]
      | .err => return Json.mkObj [("status", "err"), ("why", "predicate refused")]
      | .panic => return Json.mkObj [("status", "panic")]
      j := j + 1
    if dup then neInits := (List.replicate preds.length neInits).flatten
    let tauList : List Int := eqInit.t :: neInits.flatMap (·.tauList)
    let cList : List Int := eqInit.aPrime :: neInits.flatMap (·.cList)
    let enc := encInt rustBackend
    let c := hashList (tauList.map enc ++ cList.map enc ++ [enc nonce])
    let valsEq : Values := match cheat with
      | some ch => match ch.splitAttr with
        | some (a, d) => (a, ((lookup a vals).getD 0) - d) :: vals
        | none => vals
      | none => vals
    match finalizeEqProof eqInit c unrevealed revealed valsEq with
    | .ok eq0 =>
      let eq1 : EqProof Int := match cheat with
        | some ch => match ch.splitAttr with
          | some (a, d) => { eq0 with revealed := eq0.revealed ++ [(a, d)] }
          | none => eq0
        | none => eq0
      let eq2 : EqProof Int := match cheat with
        | some ch => match ch.fakeReveal with
          | some (a, fake) =>
            { eq1 with revealed := eq1.revealed ++ [(a, fake)],
                       m := eq1.m.map fun (k, v) => if k == a then (k, v - c * fake) else (k, v) }
          | none => eq1
        | none => eq1
      let eq1 := eq2
      let eq : EqProof Int := match cheat with
        | some ch =>
          if ch.injectM then
            match preds[ch.predIndex]? with
            | some p => { eq1 with m := eq1.m ++ [(p.attr, c * ch.value + ch.mTilde)] }
            | none => eq1
          else eq1
        | none => eq1
      let mut nes : List Json := []
      let mut k := 0
      for ni in neInits do
        match finalizeNeProof c ni eq with
        | .ok ne =>
          let mj : Int := match cheat with
            | some ch => if !ch.dupFirst && ch.predIndex == k then c * ch.value + ch.mTilde else ne.mj
            | none => ne.mj
          nes := nes ++ [Json.mkObj [("u", decMapJson ne.u), ("r", decMapJson ne.r), ("mj", Json.str (toString mj)),
            ("alpha", Json.str (toString ne.alpha)), ("t", decMapJson ne.t), ("predicate", predJson ne.pred)]]
        | _ => return Json.mkObj [("status", "err"), ("why", "finalize predicate")]
        k := k + 1
      let eqJ := Json.mkObj [("revealed_attrs", decMapJson eq.revealed), ("a_prime", Json.str (toString eq.aPrime)),
        ("e", Json.str (toString eq.e)), ("v", Json.str (toString eq.v)), ("m", decMapJson eq.m), ("m2", Json.str (toString eq.m2))]
      let proof := Json.mkObj [
        ("proofs", Json.arr #[Json.mkObj [("primary_proof", Json.mkObj [("eq_proof", eqJ), ("ge_proofs", Json.arr nes.toArray)]),
                                          ("non_revoc_proof", Json.null)]]),
        ("aggregated_proof", Json.mkObj [("c_hash", Json.str (toString c)), ("c_list", Json.arr (cList.map (fun x => bytesJson (enc x))).toArray)])]
      -- the model verifier's verdict on the document
      let vin := Json.mkObj [("mode", ← inp.getObjVal? "mode"), ("backend", ← inp.getObjVal? "backend"),
        ("common", toJson (keys common)), ("proof", proof), ("nonce", Json.str (toString nonce)),
        ("creds", Json.arr #[Json.mkObj [("pk", pkJ), ("req", (optField inp "verifier_req").getD reqJ), ("schema", toJson schema), ("non_schema", toJson nonSchema),
                                         ("has_rkey", false), ("has_registry", false), ("has_regkey", false)]])]
      let mv ← verifyOp noNrHook vin
      return Json.mkObj [("status", "ok"), ("proof", proof), ("model_verdict", mv),
                         ("e_response", Json.str (toString eq.e)), ("e_bits", toJson (Nat.log2 eq.e.natAbs + 1))]
    | _ => return Json.mkObj [("status", "err"), ("why", "finalize eq")]
  | _ => return Json.mkObj [("status", "err"), ("why", "init eq")]

/-- `A = Z / (Rctxt^{m2} · Π R_i^{m_i})`, `e = 1`, `v = 0`: passes the signature equation for any values -/
def unitSignature (rustBackend : Bool) (m2 : Int) (n : Int) (pk : PubKey Int) (vals : Values) :
    Except String (Signature Int) :=
  let o := znOps n rustBackend
  match (o.pow pk.rctxt m2).bind fun rc => (mulPows o pk.r vals (keys pk.r) rc).bind fun rx => o.inv rx with
  | .ok rxi => .ok { m2 := m2, a := o.mul pk.z rxi, e := 1, v := 0 }
  | _ => .error "unit signature: group operation failed"

/-- no credential, `A' = 0` (or `n`): every factor of `T̂` that contains `A'` collapses; if the
    verifier does not insist on inverting `Z / (A'^{2^596} · Π R^m)` the recomputed `T̂` is 0, hashed as
    the empty string, and the challenge is computable from public data -/
def forgeZeroAPrime (inp : Json) (aPrime : Int) : Except String Json := do
  let rustBackend := (← getStr inp "backend") == "rust"
  let pkJ ← inp.getObjVal? "pk"
  let vals ← decMap (← inp.getObjVal? "values")
  let schema ← strList inp "schema"
  let nonSchema ← strList inp "non_schema"
  let reqJ ← inp.getObjVal? "req"
  let revealed := sortStrings (← strList reqJ "revealed")
  let tj ← inp.getObjVal? "tape"
  let mtFresh ← decMap (← tj.getObjVal? "m_tilde")
  let nonce ← getDec inp "nonce"
  let enc := encInt rustBackend
  let unrevealed := unrevealedOf schema nonSchema revealed
  let c := hashList ([enc 0] ++ [enc aPrime] ++ [enc nonce])
  let eqJ := Json.mkObj [("revealed_attrs", decMapJson (revealed.map fun k => (k, (lookup k vals).getD 0))),
    ("a_prime", Json.str (toString aPrime)), ("e", Json.str (toString (← getDec tj "e_tilde"))),
    ("v", Json.str (toString (← getDec tj "v_tilde"))),
    ("m", decMapJson (unrevealed.map fun k => (k, (lookup k mtFresh).getD 7))), ("m2", Json.str (toString (← getDec tj "m2_tilde")))]
  let proof := Json.mkObj [
    ("proofs", Json.arr #[Json.mkObj [("primary_proof", Json.mkObj [("eq_proof", eqJ), ("ge_proofs", Json.arr #[])]),
                                      ("non_revoc_proof", Json.null)]]),
    ("aggregated_proof", Json.mkObj [("c_hash", Json.str (toString c)), ("c_list", Json.arr #[bytesJson (enc aPrime)])])]
  let vin := Json.mkObj [("mode", ← inp.getObjVal? "mode"), ("backend", ← inp.getObjVal? "backend"),
    ("common", toJson ([] : List String)), ("proof", proof), ("nonce", Json.str (toString nonce)),
    ("creds", Json.arr #[Json.mkObj [("pk", pkJ), ("req", reqJ), ("schema", toJson schema), ("non_schema", toJson nonSchema),
                                     ("has_rkey", false), ("has_registry", false), ("has_regkey", false)]])]
  let mv ← verifyOp noNrHook vin
  return Json.mkObj [("status", "ok"), ("proof", proof), ("model_verdict", mv), ("e_bits", toJson (0 : Nat))]

def forgeOp (inp : Json) : Except String Json := do
  let rustBackend := (← getStr inp "backend") == "rust"
  let cj ← inp.getObjVal? "cheat"
  match ← getStr cj "kind" with
  | "unit_e" =>
    let m2 ← getDec cj "m2"
    forgeCore inp (unitSignature rustBackend m2) none
  | "unlinked" =>
    let sj ← inp.getObjVal? "sig"
    let sig : Signature Int := { m2 := ← getDec sj "m_2", a := ← getDec sj "a", e := ← getDec sj "e", v := ← getDec sj "v" }
    let ch : Cheat := { predIndex := (← getInt cj "pred_index").toNat, value := ← getInt cj "value", mTilde := ← getDec cj "m_tilde" }
    forgeCore inp (fun _ _ _ => .ok sig) (some ch)
  | "zero_a_prime" =>
    let (n, _) ← parsePubKey (← inp.getObjVal? "pk")
    forgeZeroAPrime inp (if (← getStr cj "which") == "n" then n else 0)
  | "duplicate_predicate" =>
    let sj ← inp.getObjVal? "sig"
    let sig : Signature Int := { m2 := ← getDec sj "m_2", a := ← getDec sj "a", e := ← getDec sj "e", v := ← getDec sj "v" }
    forgeCore inp (fun _ _ _ => .ok sig) (some { predIndex := 0, value := 0, mTilde := 0, dupFirst := true })
  | "revealed_predicate" =>
    let sj ← inp.getObjVal? "sig"
    let sig : Signature Int := { m2 := ← getDec sj "m_2", a := ← getDec sj "a", e := ← getDec sj "e", v := ← getDec sj "v" }
    let ch : Cheat := { predIndex := (← getInt cj "pred_index").toNat, value := ← getInt cj "value", mTilde := ← getDec cj "m_tilde", injectM := true }
    forgeCore inp (fun _ _ _ => .ok sig) (some ch)
  | "fake_revealed" =>
    let sj ← inp.getObjVal? "sig"
    let sig : Signature Int := { m2 := ← getDec sj "m_2", a := ← getDec sj "a", e := ← getDec sj "e", v := ← getDec sj "v" }
    forgeCore inp (fun _ _ _ => .ok sig)
      (some { predIndex := 1000000, value := 0, mTilde := 0, fakeReveal := some (← getStr cj "attr", ← getDec cj "fake") })
  | "split_hidden" =>
    let sj ← inp.getObjVal? "sig"
    let sig : Signature Int := { m2 := ← getDec sj "m_2", a := ← getDec sj "a", e := ← getDec sj "e", v := ← getDec sj "v" }
    forgeCore inp (fun _ _ _ => .ok sig)
      (some { predIndex := 1000000, value := 0, mTilde := 0, splitAttr := some (← getStr cj "attr", ← getDec cj "d") })
  | "honest" =>
    let sj ← inp.getObjVal? "sig"
    let sig : Signature Int := { m2 := ← getDec sj "m_2", a := ← getDec sj "a", e := ← getDec sj "e", v := ← getDec sj "v" }
    forgeCore inp (fun _ _ _ => .ok sig) none
  | k => .error s!"unknown cheat {k}"

def dispatchForge (op : String) (inp : Json) : Option (Except String Json) :=
  match op with
  | "forge" => some (forgeOp inp)
  | _ => none

end Drv
