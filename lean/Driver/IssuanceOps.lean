import Driver.PrimaryOps
import CLModel.Model.Issuance
/-! driver operations for the issuance handshake (C04, C05, C06, C07) -/
open Lean CL CL.Pri CL.Iss

namespace Drv

/-- Miller–Rabin with the first 24 primes as bases — a *test* (labelled as such in the
    evidence), used only to cross-check `e`, `p'`, `q'`, `2p'+1`, `2q'+1` of generated keys -/
def smallPrimes : List Nat := [2,3,5,7,11,13,17,19,23,29,31,37,41,43,47,53,59,61,67,71,73,79,83,89]

def millerRabin (n : Nat) : Bool := Id.run do
  if n < 2 then return false
  for p in smallPrimes do
    if n == p then return true
    if n % p == 0 then return false
  let mut d := n - 1
  let mut s := 0
  while d % 2 == 0 do
    d := d / 2
    s := s + 1
  for a in smallPrimes do
    let mut x := modPowNat a d n
    if x == 1 || x == n - 1 then continue
    let mut comp := true
    for _ in [0:s - 1] do
      x := x * x % n
      if x == n - 1 then
        comp := false
        break
    if comp then return false
  return true

def isPrimeInt (x : Int) : Bool := x > 0 && millerRabin x.toNat

def numBits (n : Nat) : Nat := Id.run do
  let mut k := 0
  let mut x := n
  while x > 0 do
    x := x / 2
    k := k + 1
  return k

def parseSignature (j : Json) : Except String (Signature Int) := do
  pure { m2 := ← getDec j "m_2", a := ← getDec j "a", e := ← getDec j "e", v := ← getDec j "v" }

def parseKValues (j : Json) : Except String KValues := do
  let ps ← objPairs (← j.getObjVal? "attrs_values")
  ps.mapM fun (k, v) => do
    match v.getObjVal? "Known", v.getObjVal? "Hidden", v.getObjVal? "Commitment" with
    | .ok x, _, _ => pure (k, Kind.known, ← getDec x "value")
    | _, .ok x, _ => pure (k, Kind.hidden, ← getDec x "value")
    | _, _, .ok x => pure (k, Kind.commitment, ← getDec x "value")
    | _, _, _ => throw s!"bad credential value for {k}"

def boolOutcome : Outcome Bool → Json
  | .ok b => Json.mkObj [("status", "ok"), ("valid", b)]
  | .err => Json.mkObj [("status", "err")]
  | .panic => Json.mkObj [("status", "panic")]

def hashH (bs : List ByteArray) : Int := hashList bs

def blindedCheckOp (inp : Json) : Except String Json := do
  let rustBackend := (← getStr inp "backend") == "rust"
  let (n, pk) ← parsePubKey (← inp.getObjVal? "pk")
  let bj ← inp.getObjVal? "blinded"
  let pj ← inp.getObjVal? "proof"
  let b : Blinded Int := { u := ← getDec bj "u", hidden := ← strList bj "hidden_attributes",
                           committed := ← decMap (← bj.getObjVal? "committed_attributes") }
  let p : BlindedProof := { c := ← getDec pj "c", vDashCap := ← getDec pj "v_dash_cap",
                            mCaps := ← decMap (← pj.getObjVal? "m_caps"), rCaps := ← decMap (← pj.getObjVal? "r_caps") }
  let nonce ← getDec inp "nonce"
  return boolOutcome (checkBlinded (znOps n rustBackend) hashH pk b p (encInt rustBackend nonce))

def keyProofCheckOp (inp : Json) : Except String Json := do
  let rustBackend := (← getStr inp "backend") == "rust"
  let (n, pk) ← parsePubKey (← inp.getObjVal? "pk")
  let pj ← inp.getObjVal? "proof"
  let xr ← (← getArr pj "xr_cap").toList.mapM fun e => do
    let a ← e.getArr?
    match a.toList with
    | [k, v] => pure ((← k.getStr?), (← decOf v))
    | _ => throw "bad xr_cap entry"
  let p : KeyProof := { c := ← getDec pj "c", xzCap := ← getDec pj "xz_cap", xrCap := xr }
  return boolOutcome (checkKeyProof (znOps n rustBackend) hashH pk p)

/-- reference issuer for the KEY proof: a key over the fixture's `(n, S)` built from harness-chosen
    exponents, and its correctness proof over the generators marked `covered` (C05, C06) -/
def keyProveOp (inp : Json) : Except String Json := do
  let rustBackend := (← getStr inp "backend") == "rust"
  let n ← getDec inp "n"
  let sB ← getDec inp "s"
  let xz ← getDec inp "xz"
  let xzTilde ← getDec inp "xz_tilde"
  let o := znOps n rustBackend
  let pw (b e : Int) : Except String Int := match o.pow b e with
    | .ok v => pure v
    | _ => throw "pow failed"
  let mut rmap : List (String × Int) := []
  let mut covered : List (String × Int × Int) := []
  for aj in (← getArr inp "attrs") do
    let name ← getStr aj "name"
    let xr ← getDec aj "xr"
    let rv ← match optField aj "r_override" with
      | some (.str t) => match parseDecInt t with
        | some v => pure v
        | none => throw "bad r_override"
      | _ => pw sB xr
    rmap := rmap ++ [(name, rv)]
    if (← getBool aj "covered") then covered := covered ++ [(name, xr, ← getDec aj "xr_tilde")]
    -- the same name once more in xr_cap (its own commitment): a proof with repeated names
    match optField aj "covered_again_xr_tilde" with
    | some (.str t) => match parseDecInt t with
      | some v => covered := covered ++ [(name, xr, v)]
      | none => throw "bad covered_again_xr_tilde"
    | _ => pure ()
  let zv ← match optField inp "z_override" with
    | some (.str t) => match parseDecInt t with
      | some v => pure v
      | none => throw "bad z_override"
    | _ => pw sB xz
  let pk : PubKey Int := { s := sB, z := zv, rctxt := ← pw sB (← getDec inp "xrctxt"), r := rmap }
  -- entries appended to xr_cap after the proof was computed (names the key may not have)
  let extra ← match optField inp "extra_proof_entries" with
    | some (.arr es) => es.toList.mapM fun e => do
        let a ← e.getArr?
        match a.toList with
        | [k, v] => pure ((← k.getStr?), (← decOf v))
        | _ => throw "bad extra entry"
    | _ => pure []
  match (newKeyProof o hashH pk xz xzTilde covered).map (fun p => { p with xrCap := p.xrCap ++ extra }) with
  | .ok p =>
    let pkJ := Json.mkObj [("n", Json.str (toString n)), ("s", Json.str (toString pk.s)), ("z", Json.str (toString pk.z)),
      ("rctxt", Json.str (toString pk.rctxt)), ("r", decMapJson pk.r)]
    let prJ := Json.mkObj [("c", Json.str (toString p.c)), ("xz_cap", Json.str (toString p.xzCap)),
      ("xr_cap", Json.arr (p.xrCap.map fun (k, v) => Json.arr #[Json.str k, Json.str (toString v)]).toArray)]
    return Json.mkObj [("status", "ok"), ("pk", pkJ), ("proof", prJ), ("model_verdict", boolOutcome (checkKeyProof o hashH pk p))]
  | _ => return Json.mkObj [("status", "err")]

/-- everything the model can say about an issued signature (C04) and the holder-side check (C05) -/
def sigCheckOp (inp : Json) : Except String Json := do
  let rustBackend := (← getStr inp "backend") == "rust"
  let (n, pk) ← parsePubKey (← inp.getObjVal? "pk")
  let sig ← parseSignature (← inp.getObjVal? "sig")
  let vals ← parseKValues (← inp.getObjVal? "values")
  let pj ← inp.getObjVal? "proof"
  let se ← getDec pj "se"
  let c ← getDec pj "c"
  let nonce ← getDec inp "nonce"
  let o := znOps n rustBackend
  let holder := checkSignatureCorrectness o hashH isPrimeInt pk sig vals se c (encInt rustBackend nonce)
  -- the CL equation, recomputed directly
  let used : List (String × Int) := (vals.filter fun (_, k, _) => k == .known || k == .hidden).map fun (a, _, v) => (a, v)
  let eqn := checkSignature o pk sig used
  let mut fields : List (String × Json) := [("holder", boolOutcome holder), ("equation", boolOutcome eqn),
    ("e_prime", isPrimeInt sig.e),
    ("e_in_range", decide ((2:Int) ^ Gen.LARGE_E_START ≤ sig.e ∧ sig.e < (2:Int) ^ Gen.LARGE_E_START + (2:Int) ^ Gen.LARGE_E_END_RANGE)),
    ("e_odd", sig.e % 2 == 1)]
  match optField inp "vpp" with
  | some (.str s) =>
    match parseDecInt s with
    | some vpp => fields := fields ++ [("vpp_bits", toJson (numBits vpp.toNat)), ("vpp_expected_bits", toJson Gen.LARGE_VPRIME_PRIME)]
    | none => pure ()
  | _ => pure ()
  match optField inp "prover_id" with
  | some (.str pid) =>
    let revIdx : Option Nat := match optField inp "rev_idx" with
      | some j => j.getNat?.toOption
      | none => none
    let m2 := genCredentialContext Sha.sha256 Sha.bytesToNat (fun x => encInt rustBackend (x : Int))
      (fun (i : Int) => toString i) pid revIdx
    fields := fields ++ [("m2_model", Json.str (toString m2)), ("m2_ok", (m2 : Int) == sig.m2)]
  | _ => pure ()
  return Json.mkObj fields

/-- model issuer: sign with harness-chosen `e`, `v''`, `r` and the private key (C05, C07) -/
def signOp (inp : Json) : Except String Json := do
  let rustBackend := (← getStr inp "backend") == "rust"
  let (n, pk) ← parsePubKey (← inp.getObjVal? "pk")
  let pp ← getDec inp "p"          -- p' and q' (the private key stores the Sophie Germain halves)
  let qq ← getDec inp "q"
  let u ← getDec inp "u"
  let m2 ← getDec inp "m2"
  let known ← decMap (← inp.getObjVal? "known")
  let e ← getDec inp "e"
  let vpp ← getDec inp "vpp"
  let r ← getDec inp "r"
  let nonce ← getDec inp "nonce"
  let rootShift ← (getDec inp "wrong_root").toOption.getD 0 |> pure
  let o := znOps n rustBackend
  let N := pp * qq
  match modInv e N with
  | .ok einv =>
    match signPrimary o pk (if u == 0 then none else some u) m2 known vpp einv with
    | .ok (a, q) =>
      let a' := if rootShift == 0 then a else (a * rootShift) % n
      match newSignatureCorrectness o hashH a' q einv r N (encInt rustBackend nonce) with
      | .ok (se, c) =>
        return Json.mkObj [("status", "ok"),
          ("signature", Json.mkObj [("m_2", Json.str (toString m2)), ("a", Json.str (toString a')),
                                    ("e", Json.str (toString e)), ("v", Json.str (toString vpp))]),
          ("proof", Json.mkObj [("se", Json.str (toString se)), ("c", Json.str (toString c))])]
      | _ => return Json.mkObj [("status", "err")]
    | _ => return Json.mkObj [("status", "err")]
  | _ => return Json.mkObj [("status", "err"), ("why", "e not invertible mod p'q'")]

/-- model holder: blind hidden attributes and prove it (C05, C07) -/
def blindProveOp (inp : Json) : Except String Json := do
  let rustBackend := (← getStr inp "backend") == "rust"
  let (n, pk) ← parsePubKey (← inp.getObjVal? "pk")
  let hidden ← decMap (← inp.getObjVal? "hidden")
  let vPrime ← getDec inp "v_prime"
  let vDashTilde ← getDec inp "v_dash_tilde"
  let mt ← decMap (← inp.getObjVal? "m_tilde")
  let nonce ← getDec inp "nonce"
  let o := znOps n rustBackend
  -- BTreeMap order: ascending by key
  let hiddenSorted := (sortStrings (keys hidden)).filterMap fun k => (lookup k hidden).map fun v => (k, v)
  let tp : BlindTape := { vDashTilde := vDashTilde, mTilde := fun k => (lookup k mt).getD 0 }
  match blindU o pk hiddenSorted vPrime with
  | .ok u =>
    match newBlindedProof o hashH pk u hiddenSorted vPrime tp (encInt rustBackend nonce) with
    | .ok p =>
      return Json.mkObj [("status", "ok"),
        ("blinded", Json.mkObj [("u", Json.str (toString u)), ("ur", Json.null),
           ("hidden_attributes", Json.arr ((keys hiddenSorted).map Json.str).toArray),
           ("committed_attributes", Json.mkObj [])]),
        ("proof", Json.mkObj [("c", Json.str (toString p.c)), ("v_dash_cap", Json.str (toString p.vDashCap)),
           ("m_caps", decMapJson p.mCaps), ("r_caps", Json.mkObj [])])]
    | _ => return Json.mkObj [("status", "err")]
  | _ => return Json.mkObj [("status", "err")]

/-- independent checks of a generated credential definition (C06) -/
def keyCheckOp (inp : Json) : Except String Json := do
  let (n, pk) ← parsePubKey (← inp.getObjVal? "pk")
  let pp ← getDec inp "p"
  let qq ← getDec inp "q"
  let o := znOps n false
  let pSafe := 2 * pp + 1
  let qSafe := 2 * qq + 1
  let powOk (g : Int) (e : Int) : Int := match o.pow g e with | .ok v => v | _ => -1
  -- Euler criterion for S modulo each prime factor
  let qrP := modPowNat (pk.s % pSafe).toNat pp.toNat pSafe.toNat == 1
  let qrQ := modPowNat (pk.s % qSafe).toNat qq.toNat qSafe.toNat == 1
  let inSpan (g : Int) : Bool := powOk g (pp * qq) == 1      -- element of the subgroup of order p'q'
  return Json.mkObj [
    ("p_prime", isPrimeInt pp), ("q_prime", isPrimeInt qq),
    ("p_safe_prime", isPrimeInt pSafe), ("q_safe_prime", isPrimeInt qSafe),
    ("distinct", pp != qq), ("n_is_product", n == pSafe * qSafe),
    ("p_bits", toJson (numBits pSafe.toNat)), ("q_bits", toJson (numBits qSafe.toNat)),
    ("large_prime", toJson Gen.LARGE_PRIME),
    ("s_is_qr", qrP && qrQ),
    ("s_generates", pk.s % n != 1 && powOk pk.s pp != 1 && powOk pk.s qq != 1 && inSpan pk.s),
    ("z_in_span", inSpan pk.z), ("rctxt_in_span", inSpan pk.rctxt),
    ("r_in_span", pk.r.all fun (_, g) => inSpan g),
    ("r_keys", Json.arr ((sortStrings (keys pk.r)).map Json.str).toArray)]

/-- `Issuer::_gen_credential_context` on a batch of (prover id, revocation index) pairs -/
def ctxOp (inp : Json) : Except String Json := do
  let rustBackend := (← getStr inp "backend") == "rust"
  let items ← getArr inp "items"
  let mut out : Array Json := #[]
  for it in items do
    let pid ← getStr it "prover_id"
    let revIdx : Option Nat := match optField it "rev_idx" with
      | some j => j.getNat?.toOption
      | none => none
    let m2 := genCredentialContext Sha.sha256 Sha.bytesToNat (fun x => encInt rustBackend (x : Int))
      (fun (i : Int) => toString i) pid revIdx
    out := out.push (Json.str (toString m2))
  return Json.mkObj [("m2", Json.arr out)]

def dispatchIssuance (op : String) (inp : Json) : Option (Except String Json) :=
  match op with
  | "ctx" => some (ctxOp inp)
  | "blinded_check" => some (blindedCheckOp inp)
  | "key_proof_check" => some (keyProofCheckOp inp)
  | "key_prove" => some (keyProveOp inp)
  | "sig_check" => some (sigCheckOp inp)
  | "sign" => some (signOp inp)
  | "blind_prove" => some (blindProveOp inp)
  | "key_check" => some (keyCheckOp inp)
  | _ => none

end Drv
