import Driver.PrimaryOps
import Driver.RegOps
import CLModel.Model.NonRevoc
/-! pairing side of `verify` in exponent form (C10, C07, C01) -/
open Lean CL CL.Pri CL.NR

namespace Drv

def frInv (a : Nat) : Nat := powMod a (rOrder - 2) rOrder

def hexField (j : Json) (k : String) : Except String Nat := do
  let n ← getHex j k
  pure (n % rOrder)

def parseRevKeyExp (j : Json) : Except String (RevKey Nat) := do
  pure { h := ← hexField j "h", h0 := ← hexField j "h0", h1 := ← hexField j "h1", h2 := ← hexField j "h2",
         htilde := ← hexField j "htilde", g := ← hexField j "g", gDash := ← hexField j "g_dash",
         hCap := ← hexField j "h_cap", u := ← hexField j "u", pk := ← hexField j "pk", y := ← hexField j "y" }

def parseXList (j : Json) : Except String (XList Nat) := do
  let m2 : Option Nat := match optField j "m2" with
    | some (.str s) => (parseHex s).map (· % rOrder)
    | _ => none
  pure { rho := ← hexField j "rho", r := ← hexField j "r", rPrime := ← hexField j "r_prime",
         rPrime2 := ← hexField j "r_prime_prime", rPrime3 := ← hexField j "r_prime_prime_prime",
         o := ← hexField j "o", oPrime := ← hexField j "o_prime", m := ← hexField j "m",
         mPrime := ← hexField j "m_prime", t := ← hexField j "t", tPrime := ← hexField j "t_prime",
         m2 := m2, s := ← hexField j "s", c := ← hexField j "c" }

structure NrCtx where
  key : RevKey Nat
  acc : Nat          -- exponent of the registry accumulator w.r.t. g2
  z : Nat            -- exponent of the registry key z w.r.t. e(g1,g2)
  clist : CList Nat
  legacy : Bool

/-- everything is recomputed by the model from scalars: registry state from `(γ, L, valid set)`,
    credential from the issuer's private scalars and the credential's visible scalars, c-list
    from the prover's seven recorded blinders -/
def parseNrCtx (j : Json) : Except String NrCtx := do
  let key ← parseRevKeyExp (← j.getObjVal? "key")
  let γ ← hexField j "gamma"
  let L ← getNat j "L"
  let valid ← getNatList j "valid"
  let accU := valid.foldl (fun acc v => fr.add acc (fr.pow γ (L + 1 - v))) 0
  let acc := fr.mul key.gDash accU
  let z := fr.mul (fr.mul key.g key.gDash) (fr.pow γ (L + 1))
  let clist ← match optField j "clist" with
    | some cj => do
      pure ({ e := ← hexField cj "e", d := ← hexField cj "d", a := ← hexField cj "a", g := ← hexField cj "g",
              w := ← hexField cj "w", s := ← hexField cj "s", u := ← hexField cj "u" } : CList Nat)
    | none => do
      let cj ← j.getObjVal? "cred"
      let i ← getNat cj "i"
      let x ← hexField j "x"
      let sk ← hexField j "sk"
      -- the witness the prover used: Σ over its own view of the valid set
      let wvalid ← getNatList cj "witness_valid"
      let omegaU := (wvalid.filter (· != i)).foldl (fun a v => fr.add a (fr.pow γ (L + 1 - v + i))) 0
      let cr := issueCred fr frInv key x sk γ i (← hexField cj "m2") 0 (← hexField cj "vr2") (← hexField cj "c")
                  (fr.mul key.gDash omegaU)
      let tp ← getArr j "ctape"
      let sc (k : Nat) : Except String Nat := do
        match tp[k]? with
        | some (.str s) => match parseHex s with
          | some v => pure (v % rOrder)
          | none => throw "bad ctape"
        | _ => throw "short ctape"
      let ctape : CTape Nat := { rho := ← sc 0, r := ← sc 1, rPrime := ← sc 2, rPrime2 := ← sc 3,
                                 rPrime3 := ← sc 4, o := ← sc 5, oPrime := ← sc 6 }
      pure (cListValues fr key cr (cListParams fr cr ctape))
  let legacy := (getBool j "accept_legacy").toOption.getD false
  pure { key := key, acc := acc, z := z, clist := clist, legacy := legacy }

def nrHook : NrHook := fun _ credJ nrJ cHash m2hat =>
  match (do
    let ctx ← parseNrCtx (← credJ.getObjVal? "nr_ctx")
    let x ← parseXList (← nrJ.getObjVal? "x_list")
    pure (ctx, x)) with
  | .ok (ctx, x) =>
    let cH := (cHash % (rOrder : Int)).toNat
    let m2 := (m2hat % (rOrder : Int)).toNat
    let t := NR.verify fr ctx.key ctx.acc ctx.z cH m2 ⟨x, ctx.clist⟩ ctx.legacy
    .ok (tauItems id t)
  | .error _ => .err

/-- materialisation checks the model asks for: its exponents of the c-list and of the
    accumulator against what the implementation put on the wire -/
def nrChecks (credJ : Json) : Json :=
  match (do
    let nj ← credJ.getObjVal? "nr_ctx"
    let ctx ← parseNrCtx nj
    pure (ctx, nj)) with
  | .ok (ctx, nj) =>
    let exp (j : Json) (k : String) : Json := (j.getObjVal? k).toOption.getD Json.null
    let cc := (nj.getObjVal? "clist_canon").toOption.getD Json.null
    Json.arr #[
      Json.mkObj [("what", "c_list.e"), ("group", "g1"), ("exp", toHex ctx.clist.e), ("expect", exp cc "e")],
      Json.mkObj [("what", "c_list.d"), ("group", "g1"), ("exp", toHex ctx.clist.d), ("expect", exp cc "d")],
      Json.mkObj [("what", "c_list.a"), ("group", "g1"), ("exp", toHex ctx.clist.a), ("expect", exp cc "a")],
      Json.mkObj [("what", "c_list.g"), ("group", "g1"), ("exp", toHex ctx.clist.g), ("expect", exp cc "g")],
      Json.mkObj [("what", "c_list.w"), ("group", "g2"), ("exp", toHex ctx.clist.w), ("expect", exp cc "w")],
      Json.mkObj [("what", "c_list.s"), ("group", "g2"), ("exp", toHex ctx.clist.s), ("expect", exp cc "s")],
      Json.mkObj [("what", "c_list.u"), ("group", "g2"), ("exp", toHex ctx.clist.u), ("expect", exp cc "u")],
      Json.mkObj [("what", "registry.accum"), ("group", "g2"), ("exp", toHex ctx.acc), ("expect", exp nj "accum_canon")],
      Json.mkObj [("what", "registry.z"), ("group", "gt"), ("exp", toHex ctx.z), ("expect", exp nj "z_canon")]]
  | .error e => Json.mkObj [("error", e)]

/-- `verify` with the pairing side enabled; adds `nr_checks` to the output -/
def verifyNrOp (inp : Json) : Except String Json := do
  let out ← verifyOp nrHook inp
  let credsJ ← getArr inp "creds"
  let checks := credsJ.toList.filterMap fun cj =>
    match optField cj "nr_ctx" with
    | some _ => some (nrChecks cj)
    | none => none
  match out with
  | .obj kvs => pure (Json.obj (kvs.insert "nr_checks" (Json.arr checks.toArray)))
  | j => pure j

/-- `Prover::process_credential_signature` with revocation key, registry and witness: the pairing
    side (`_test_witness_signature`) in exponent form.  The credential under test and the donor
    ("other session") are recomputed from scalars; `alter` lists field replacements. -/
def holderNrCheckOp (inp : Json) : Except String Json := do
  let j ← inp.getObjVal? "ctx"
  let key ← parseRevKeyExp (← j.getObjVal? "key")
  let γ ← hexField j "gamma"
  let L ← getNat j "L"
  let valid ← getNatList j "valid"
  let accU := valid.foldl (fun acc v => fr.add acc (fr.pow γ (L + 1 - v))) 0
  let acc := fr.mul key.gDash accU
  let z := fr.mul (fr.mul key.g key.gDash) (fr.pow γ (L + 1))
  let x ← hexField j "x"
  let sk ← hexField j "sk"
  let mk (cj : Json) : Except String (Cred Nat × Nat) := do
    let i ← getNat cj "i"
    let wvalid ← getNatList cj "witness_valid"
    let omegaU := (wvalid.filter (· != i)).foldl (fun a v => fr.add a (fr.pow γ (L + 1 - v + i))) 0
    let cr := issueCred fr frInv key x sk γ i (← hexField cj "m2") 0 (← hexField cj "vr2") (← hexField cj "c")
                (fr.mul key.gDash omegaU)
    pure (cr, fr.mul key.g (fr.pow γ i))
  let (cr0, wg0) ← mk (← j.getObjVal? "cred")
  let (ocr, owg) ← mk (← j.getObjVal? "other")
  let alts ← getArr inp "alter"
  let mut cr := cr0
  let mut wg := wg0
  for a in alts do
    let f ← getStr a "field"
    let m ← getStr a "mode"
    match f, m with
    | "gI", "other" => cr := { cr with gI := ocr.gI }
    | "sigma", "other" => cr := { cr with sigma := ocr.sigma }
    | "sigmaI", "other" => cr := { cr with sigmaI := ocr.sigmaI }
    | "uI", "other" => cr := { cr with uI := ocr.uI }
    | "wgI", "other" => wg := owg
    | "c", "other" => cr := { cr with c := ocr.c }
    | "m2", "other" => cr := { cr with m2 := ocr.m2 }
    | "vr2", "other" => cr := { cr with vr2 := ocr.vr2 }
    | "omega", "other" => cr := { cr with omega := ocr.omega }
    | "c", "plus1" => cr := { cr with c := fr.add cr.c 1 }
    | "m2", "plus1" => cr := { cr with m2 := fr.add cr.m2 1 }
    | "vr2", "plus1" => cr := { cr with vr2 := fr.add cr.vr2 1 }
    | "i", "plus1" => pure ()   -- the index takes part in no equation
    | _, _ => throw s!"unknown alteration {f}/{m}"
  let eqs := (witnessSigEqs fr key acc z wg cr).map fun p => decide (p.1 = p.2)
  pure (Json.mkObj [("accept", Json.bool (testWitnessSignature fr key acc z wg cr)),
                    ("eqs", Json.arr (eqs.map Json.bool).toArray)])

def dispatchNonRevoc (op : String) (inp : Json) : Option (Except String Json) :=
  match op with
  | "verify" => some (verifyNrOp inp)
  | "holder_nr_check" => some (holderNrCheckOp inp)
  | _ => none

end Drv
