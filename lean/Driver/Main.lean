import Driver.RegOps
import Driver.PrimaryOps
import Driver.IssuanceOps
import Driver.NonRevocOps
import Driver.ProveOps
import Driver.ForgeOps
import Driver.ProveNrOps
import Driver.BlindOps
import Driver.BnOps
import Driver.ScalarOps
import Driver.CodecOps
open Lean

namespace Drv

/-- every area contributes a partial dispatcher `String → Json → Option (Except String Json)`;
    add new areas to this list (one line each) -/
def dispatchers : List (String → Json → Option (Except String Json)) :=
  [ dispatchReg, dispatchNonRevoc, dispatchPrimary noNrHook, dispatchIssuance, dispatchProve, dispatchProveNr, dispatchForge, dispatchBlind, dispatchScalar, dispatchBn , dispatchCodec]

def dispatch (op : String) (inp : Json) : Except String Json :=
  match dispatchers.findSome? (fun d => d op inp) with
  | some r => r
  | none => .error s!"unknown op {op}"

def handleLine (line : String) : String :=
  match Json.parse line with
  | .error e => (Json.mkObj [("id", Json.null), ("error", s!"parse: {e}")]).compress
  | .ok j =>
    let id := (j.getObjVal? "id").toOption.getD Json.null
    match (do let op ← getStr j "op"; let inp ← j.getObjVal? "in"; dispatch op inp) with
    | .ok out => (Json.mkObj [("id", id), ("out", out)]).compress
    | .error e => (Json.mkObj [("id", id), ("error", e)]).compress

partial def loop (h : IO.FS.Stream) (out : IO.FS.Stream) : IO Unit := do
  let line ← h.getLine
  if line.isEmpty then return ()
  let t := line.trimAscii.toString
  if !t.isEmpty then
    out.putStrLn (handleLine t)
  loop h out

end Drv

def main : IO Unit := do
  let stdin ← IO.getStdin
  let stdout ← IO.getStdout
  Drv.loop stdin stdout
  stdout.flush
