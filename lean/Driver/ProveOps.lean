import Driver.PrimaryOps
import CLModel.Model.FourSq
import CLModel.Model.Prover
/-! model prover for primary proofs (C07: reference → library direction) -/
open Lean CL CL.Pri

namespace Drv

def fourSq (d : Int) : Outcome (List Int) :=
  match FourSq.fourSquares d with
  | .ok (a, b, c, e) => .ok [(a : Int), (b : Int), (c : Int), (e : Int)]
  | .err => .err
  | .panic => .panic

def bytesJson (b : ByteArray) : Json := Json.arr (b.toList.map fun x => toJson x.toNat).toArray

def predJson (p : Pred) : Json :=
  Json.mkObj [("attr_name", p.attr), ("p_type", ptypeStr p.ptype), ("value", toJson p.value)]

def proveOp (inp : Json) : Except String Json := do
  let m ← getMode inp
  let rustBackend := (← getStr inp "backend") == "rust"
  let (n, pk) ← parsePubKey (← inp.getObjVal? "pk")
  let sj ← inp.getObjVal? "sig"
  let sig : Signature Int := { m2 := ← getDec sj "m_2", a := ← getDec sj "a", e := ← getDec sj "e", v := ← getDec sj "v" }
  let vals ← decMap (← inp.getObjVal? "values")
  let schema ← strList inp "schema"
  let nonSchema ← strList inp "non_schema"
  let reqJ ← inp.getObjVal? "req"
  let revealed := sortStrings (← strList reqJ "revealed")
  let preds ← (← getArr reqJ "predicates").toList.mapM parsePred
  let common ← decMap (← inp.getObjVal? "common")
  let tj ← inp.getObjVal? "tape"
  let mtFresh ← decMap (← tj.getObjVal? "m_tilde")
  let tp : EqTape := { r := ← getDec tj "r", eTilde := ← getDec tj "e_tilde", vTilde := ← getDec tj "v_tilde",
                       mTilde := fun k => (lookup k mtFresh).getD 0 }
  let m2Tilde ← getDec tj "m2_tilde"
  let nonce ← getDec inp "nonce"
  let o := znOps n rustBackend
  let unrevealed := unrevealedOf schema nonSchema revealed
  let ptapes ← (← getArr tj "preds").toList.mapM fun pj => do
    pure ({ r := ← decMap (← pj.getObjVal? "r"), uTilde := ← decMap (← pj.getObjVal? "u_tilde"),
            rTilde := ← decMap (← pj.getObjVal? "r_tilde"), alphaTilde := ← getDec pj "alpha_tilde" } : NeTape)
  -- the orchestration is the model's `proveSingle` (Model/Prover.lean; C01.presentation_complete is about it)
  let enc := encInt rustBackend
  match proveSingle o hashList m fourSq common pk sig unrevealed revealed (preds.zip ptapes) vals m2Tilde tp (enc nonce) with
  | .ok prf =>
    match prf.proofs with
    | [sp] =>
      let eq := sp.eq
      let nes : List Json := sp.ne.map fun ne =>
        Json.mkObj [("u", decMapJson ne.u), ("r", decMapJson ne.r), ("mj", Json.str (toString ne.mj)),
          ("alpha", Json.str (toString ne.alpha)), ("t", decMapJson ne.t), ("predicate", predJson ne.pred)]
      let eqJ := Json.mkObj [("revealed_attrs", decMapJson eq.revealed), ("a_prime", Json.str (toString eq.aPrime)),
        ("e", Json.str (toString eq.e)), ("v", Json.str (toString eq.v)), ("m", decMapJson eq.m), ("m2", Json.str (toString eq.m2))]
      let proof := Json.mkObj [
        ("proofs", Json.arr #[Json.mkObj [("primary_proof", Json.mkObj [("eq_proof", eqJ), ("ge_proofs", Json.arr nes.toArray)]),
                                          ("non_revoc_proof", Json.null)]]),
        ("aggregated_proof", Json.mkObj [("c_hash", Json.str (toString prf.cHash)), ("c_list", Json.arr (prf.cList.map bytesJson).toArray)])]
      return Json.mkObj [("status", "ok"), ("proof", proof)]
    | _ => return Json.mkObj [("status", "err"), ("why", "shape")]
  | .err => return Json.mkObj [("status", "err"), ("why", "model prover refused")]
  | .panic => return Json.mkObj [("status", "panic")]

def subProofJson (sp : SubProof Int) : Json :=
  let eq := sp.eq
  let nes : List Json := sp.ne.map fun ne =>
    Json.mkObj [("u", decMapJson ne.u), ("r", decMapJson ne.r), ("mj", Json.str (toString ne.mj)),
      ("alpha", Json.str (toString ne.alpha)), ("t", decMapJson ne.t), ("predicate", predJson ne.pred)]
  let eqJ := Json.mkObj [("revealed_attrs", decMapJson eq.revealed), ("a_prime", Json.str (toString eq.aPrime)),
    ("e", Json.str (toString eq.e)), ("v", Json.str (toString eq.v)), ("m", decMapJson eq.m), ("m2", Json.str (toString eq.m2))]
  Json.mkObj [("primary_proof", Json.mkObj [("eq_proof", eqJ), ("ge_proofs", Json.arr nes.toArray)]),
              ("non_revoc_proof", Json.null)]

/-- several credentials, one challenge: the model's `proveMulti` (C01.multi_presentation_complete) -/
def proveMultiOp (inp : Json) : Except String Json := do
  let m ← getMode inp
  let rustBackend := (← getStr inp "backend") == "rust"
  let common ← decMap (← inp.getObjVal? "common")
  let nonce ← getDec inp "nonce"
  let mut creds : List (CredIn Int) := []
  for cj in (← getArr inp "creds") do
    let (n, pk) ← parsePubKey (← cj.getObjVal? "pk")
    let sj ← cj.getObjVal? "sig"
    let sig : Signature Int := { m2 := ← getDec sj "m_2", a := ← getDec sj "a", e := ← getDec sj "e", v := ← getDec sj "v" }
    let vals ← decMap (← cj.getObjVal? "values")
    let schema ← strList cj "schema"
    let nonSchema ← strList cj "non_schema"
    let reqJ ← cj.getObjVal? "req"
    let revealed := sortStrings (← strList reqJ "revealed")
    let preds ← (← getArr reqJ "predicates").toList.mapM parsePred
    let tj ← cj.getObjVal? "tape"
    let mtFresh ← decMap (← tj.getObjVal? "m_tilde")
    let tp : EqTape := { r := ← getDec tj "r", eTilde := ← getDec tj "e_tilde", vTilde := ← getDec tj "v_tilde",
                         mTilde := fun k => (lookup k mtFresh).getD 0 }
    let ptapes ← (← getArr tj "preds").toList.mapM fun pj => do
      pure ({ r := ← decMap (← pj.getObjVal? "r"), uTilde := ← decMap (← pj.getObjVal? "u_tilde"),
              rTilde := ← decMap (← pj.getObjVal? "r_tilde"), alphaTilde := ← getDec pj "alpha_tilde" } : NeTape)
    creds := creds ++ [{ o := znOps n rustBackend, pk := pk, sig := sig, unrevealed := unrevealedOf schema nonSchema revealed,
                         revealed := revealed, preds := preds.zip ptapes, vals := vals, m2Tilde := ← getDec tj "m2_tilde", tp := tp }]
  match proveMulti hashList m fourSq common creds (encInt rustBackend nonce) with
  | .ok prf =>
    let proof := Json.mkObj [
      ("proofs", Json.arr (prf.proofs.map subProofJson).toArray),
      ("aggregated_proof", Json.mkObj [("c_hash", Json.str (toString prf.cHash)), ("c_list", Json.arr (prf.cList.map bytesJson).toArray)])]
    return Json.mkObj [("status", "ok"), ("proof", proof)]
  | .err => return Json.mkObj [("status", "err"), ("why", "model prover refused")]
  | .panic => return Json.mkObj [("status", "panic")]

def dispatchProve (op : String) (inp : Json) : Option (Except String Json) :=
  match op with
  | "prove" => some (proveOp inp)
  | "prove_multi" => some (proveMultiOp inp)
  | _ => none

end Drv
