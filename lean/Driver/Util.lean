import Lean.Data.Json
import CLModel.Model.Basic
/-! JSON / hex helpers for the line-protocol driver (core only, no Mathlib) -/
open Lean

namespace Drv

/-- BN254 (amcl "bn254", Nogami) group order -/
def rOrder : Nat := 0x2523648240000001BA344D8000000007FF9F800000000010A10000000000000D

def hexDigit (c : Char) : Option Nat :=
  if '0' ≤ c ∧ c ≤ '9' then some (c.toNat - '0'.toNat)
  else if 'a' ≤ c ∧ c ≤ 'f' then some (c.toNat - 'a'.toNat + 10)
  else if 'A' ≤ c ∧ c ≤ 'F' then some (c.toNat - 'A'.toNat + 10)
  else none

def parseHex (s : String) : Option Nat :=
  if s.isEmpty then none else
  s.toList.foldl (fun acc c => match acc, hexDigit c with
    | some a, some d => some (a * 16 + d)
    | _, _ => none) (some 0)

def hexChar (d : Nat) : Char :=
  if d < 10 then Char.ofNat ('0'.toNat + d) else Char.ofNat ('A'.toNat + d - 10)

partial def toHexAux (n : Nat) (acc : List Char) : List Char :=
  if n == 0 then acc else toHexAux (n / 16) (hexChar (n % 16) :: acc)

def toHex (n : Nat) : String :=
  if n == 0 then "0" else String.ofList (toHexAux n [])

def parseDecInt (s : String) : Option Int :=
  match s.toList with
  | '-' :: rest => if rest.isEmpty then none else (String.ofList rest).toNat?.map fun n => -(n : Int)
  | _ => s.toNat?.map fun n => (n : Int)

def getStr (j : Json) (k : String) : Except String String := do
  (← j.getObjVal? k).getStr?

def getNat (j : Json) (k : String) : Except String Nat := do
  let v ← j.getObjVal? k
  match v with
  | .str s => match s.toNat? with
    | some n => pure n
    | none => throw s!"field {k}: not a natural number: {s}"
  | _ => v.getNat?

def getInt (j : Json) (k : String) : Except String Int := do
  let v ← j.getObjVal? k
  match v with
  | .str s => match parseDecInt s with
    | some n => pure n
    | none => throw s!"field {k}: not an integer: {s}"
  | _ => v.getInt?

def getBool (j : Json) (k : String) : Except String Bool := do
  (← j.getObjVal? k).getBool?

def getArr (j : Json) (k : String) : Except String (Array Json) := do
  (← j.getObjVal? k).getArr?

def getNatList (j : Json) (k : String) : Except String (List Nat) := do
  let a ← getArr j k
  a.toList.mapM fun v => match v with
    | .str s => match s.toNat? with
      | some n => pure n
      | none => throw s!"not a natural number: {s}"
    | _ => v.getNat?

def getHex (j : Json) (k : String) : Except String Nat := do
  let s ← getStr j k
  match parseHex s with
  | some n => pure n
  | none => throw s!"field {k}: bad hex"

def getMode (j : Json) : Except String CL.OvfMode := do
  match (← getStr j "mode") with
  | "checked" => pure .checked
  | "wrapping" => pure .wrapping
  | s => throw s!"bad mode {s}"

def optField (j : Json) (k : String) : Option Json :=
  match j.getObjVal? k with
  | .ok .null => none
  | .ok v => some v
  | .error _ => none

def natArr (l : List Nat) : Json := Json.arr (l.map fun (n : Nat) => (toJson n)).toArray

def sortNat (l : List Nat) : List Nat := (l.toArray.qsort (· < ·)).toList

def dedupSorted : List Nat → List Nat
  | [] => []
  | [x] => [x]
  | x :: y :: rest => if x == y then dedupSorted (y :: rest) else x :: dedupSorted (y :: rest)

/-- canonical form of a set of indices -/
def setJson (l : List Nat) : Json := natArr (dedupSorted (sortNat l))

end Drv
