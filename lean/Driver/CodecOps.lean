import Driver.Util
import CLModel.Model.BigNum
import CLModel.Model.Scalar
import CLModel.Model.Curve
import CLModel.Model.Codec
import CLModel.Model.Wire
/-! driver operations for C15 / C16: `decode` (one primitive, `impl*` and `spec*` decoders),
`wire_check` (a document of a public type against the layout table, leaves decoded),
`legacy_check` (legacy layout against the conversion of `Model/Wire`) -/
open Lean CL

namespace Drv.Codec

def nib (d : Nat) : Char := if d < 10 then Char.ofNat (48 + d) else Char.ofNat (87 + d)

def hexOfBytes (bs : List Nat) : String :=
  String.ofList (bs.foldr (fun b acc => nib (b / 16 % 16) :: nib (b % 16) :: acc) [])

def bytesOfHex (s : String) : Except String (List Nat) :=
  let rec go : List Char → List Nat → Except String (List Nat)
    | [], acc => pure acc.reverse
    | [_], _ => throw "odd number of hex digits"
    | a :: b :: rest, acc =>
      match Drv.hexDigit a, Drv.hexDigit b with
      | some x, some y => go rest ((x * 16 + y) :: acc)
      | _, _ => throw "bad hex digit"
  go s.toList []

def tagO {α : Type} : Outcome α → String
  | .ok _ => "ok" | .err => "err" | .panic => "panic"

def mk (impl spec : String) (extra : List (String × Json)) : Json :=
  Json.mkObj ([("impl", (impl : Json)), ("spec", (spec : Json))] ++ extra)

/-! ### integers -/

def bnFrom (backend form : String) (s : List Char) : Outcome Int :=
  Codec.implBnText (if backend = "rust" then .rust else .openssl) (if form = "hex" then 16 else 10) s

def bnText (backend form : String) (z : Int) : String :=
  let t := match backend, form with
    | "rust", "hex" => BN.Rust.toHex z
    | "rust", _ => BN.Rust.toDec z
    | _, "hex" => BN.Ossl.toHex z
    | _, _ => BN.Ossl.toDec z
  match t with
  | .ok cs => String.ofList cs
  | _ => "?"

def bnBytes (backend : String) (z : Int) : List Nat :=
  match (if backend = "rust" then BN.Rust.toBytes z else BN.Ossl.toBytes z) with
  | .ok b => b
  | _ => []

def decodeBn (backend form input : String) : Except String Json := do
  if form = "bytes" then
    let bs ← bytesOfHex input
    let z : Int := (BN.ofDigits 256 bs : Nat)
    -- every byte string denotes a natural number: the specification accepts all of them
    pure (mk "ok" "ok" [("canon", hexOfBytes (bnBytes backend z)), ("bytes", hexOfBytes (bnBytes backend z)),
      ("spec_bytes", hexOfBytes (bnBytes backend z))])
  else
    let s := input.toList
    let i := bnFrom backend form s
    let sp := if form = "hex" then BN.Spec.fromHex s else BN.Spec.fromDec s
    let extra := match i with
      | .ok z => [("canon", (bnText backend form z : Json)), ("bytes", (hexOfBytes (bnBytes backend z) : Json)), ("value", (toString z : Json))]
      | _ => []
    let extra2 := match sp with
      | .ok z => [("spec_bytes", (hexOfBytes (bnBytes backend z) : Json)), ("spec_value", (toString z : Json))]
      | _ => []
    pure (mk (tagO i) (tagO sp) (extra ++ extra2))

/-! ### scalars: the specification is the (repaired) decoder itself — hex digits only, 1..71 of
them, value reduced modulo `r`; at most 32 bytes, reduced -/

def u8s (bs : List Nat) : List UInt8 := bs.map UInt8.ofNat
def ofU8s (bs : List UInt8) : List Nat := bs.map (·.toNat)

def decodeSc (form input : String) : Except String Json := do
  let i ← (if form = "bytes" then do pure (Sc.fromBytes (u8s (← bytesOfHex input))) else pure (Sc.fromString input))
  let extra := match i with
    | .ok v =>
      let b := hexOfBytes (ofU8s (Sc.toBytes v))
      [("canon", (if form = "bytes" then b else Sc.toHex v : Json)), ("bytes", (b : Json)), ("spec_bytes", (b : Json))]
    | _ => []
  pure (mk (tagO i) (tagO i) extra)

/-! ### points and pairing values -/

open CL.Curve in
def decodePoint (ty form input : String) : Except String Json := do
  if form = "bytes" then
    let bs ← bytesOfHex input
    match ty with
    | "PointG1" =>
      let i := implG1Bytes bs
      let s := specG1Bytes bs
      let ex := match i with | .ok v => [("canon", (hexOfBytes v.g1Bytes : Json)), ("bytes", (hexOfBytes v.g1Bytes : Json)), ("inf", (toJson (v == AffPt.inf)))] | _ => []
      let ex2 := match s with | .ok v => [("spec_bytes", (hexOfBytes v.g1Bytes : Json)), ("spec_inf", toJson (v == AffPt.inf))] | _ => []
      pure (mk i.tag s.tag (ex ++ ex2))
    | "Pair" =>
      let i := implPairBytes bs
      let s := specPairBytes bs
      let ex := match i with | .ok v => [("canon", (hexOfBytes (f12Bytes v) : Json)), ("bytes", (hexOfBytes (f12Bytes v) : Json))] | _ => []
      let ex2 := match s with | .ok v => [("spec_bytes", (hexOfBytes (f12Bytes v) : Json))] | _ => []
      pure (mk i.tag s.tag (ex ++ ex2))
    | _ =>
      let i := if ty = "PointG2Inf" then implG2BytesInf bs else implG2Bytes bs
      let s := specG2Bytes (ty = "PointG2Inf") bs
      let ex := match i with | .ok v => [("canon", (hexOfBytes v.g2Bytes : Json)), ("bytes", (hexOfBytes v.g2Bytes : Json)), ("inf", (toJson (v == AffPt.inf)))] | _ => []
      let ex2 := match s with | .ok v => [("spec_bytes", (hexOfBytes v.g2Bytes : Json)), ("spec_inf", toJson (v == AffPt.inf))] | _ => []
      pure (mk i.tag s.tag (ex ++ ex2))
  else
    let cs := input.toList
    match ty with
    | "PointG1" =>
      let i := implG1Text false cs
      let s := specG1Text cs
      let ex := match i with | .ok t => [("canon", (String.ofList (rawText t.raw) : Json)), ("bytes", (hexOfBytes (g1TextBytes t) : Json))] | _ => []
      let ex2 := match s with | .ok t => [("spec_bytes", (hexOfBytes (specG1TextBytes t) : Json)), ("spec_inf", toJson (g1PtOfRaw t.raw).z.isZero)] | _ => []
      pure (mk i.tag s.tag (ex ++ ex2))
    | "Pair" =>
      let i := implPairText cs
      let s := specPairText cs
      let ex := match i with | .ok t => [("canon", (String.ofList (rawText t.raw) : Json)), ("bytes", (hexOfBytes (pairTextBytes t) : Json))] | _ => []
      let ex2 := match s with | .ok t => [("spec_bytes", (hexOfBytes (pairTextBytes t) : Json))] | _ => []
      pure (mk i.tag s.tag (ex ++ ex2))
    | _ =>
      let inf := ty = "PointG2Inf"
      let i := implG2Text inf cs
      let s := specG2Text inf cs
      let ex := match i with | .ok t => [("canon", (String.ofList (rawText t.raw) : Json)), ("bytes", (hexOfBytes (g2TextBytes t) : Json))] | _ => []
      let ex2 := match s with | .ok t => [("spec_bytes", (hexOfBytes (specG2TextBytes t) : Json)), ("spec_inf", toJson (g2PtOfRaw t.raw).z.isZero)] | _ => []
      pure (mk i.tag s.tag (ex ++ ex2))

/-! ### why the specification refuses (names the class of a finding) -/

open CL.Curve in
def whyPoint (ty form input : String) : String :=
  if form = "bytes" then
    match bytesOfHex input with
    | .error _ => "bad_case"
    | .ok bs =>
      if ty = "Pair" then
        if bs.length ≠ 512 then "length"
        else if ((List.range 12).map fun k => beNat (slice bs (32 * k) 32)).any (· ≥ p) then "coordinate_not_reduced"
        else if slice bs 384 128 ≠ List.replicate 128 0 then "padding_not_zero"
        else match implPairBytes bs with
          | .ok g => if g.isZero then "zero_element" else "not_of_order_r"
          | _ => "?"
      else if ty = "PointG1" then
        if bs.length ≠ 128 then "length"
        else if bs = g1IdBytes then "identity_not_allowed"
        else if bs.headD 0 ≠ 4 then "tag_not_04"
        else if beNat (slice bs 1 32) ≥ p ∨ beNat (slice bs 33 32) ≥ p then "coordinate_not_reduced"
        else if slice bs 65 63 ≠ List.replicate 63 0 then "padding_not_zero"
        else if !(onCurveAff B1 ⟨beNat (slice bs 1 32), 0⟩ ⟨beNat (slice bs 33 32), 0⟩) then "not_on_curve"
        else "not_in_subgroup"
      else
        if bs.length ≠ 128 then "length"
        else if ((List.range 4).map fun k => beNat (slice bs (32 * k) 32)).any (· ≥ p) then "coordinate_not_reduced"
        else if bs = g2IdBytes then "identity_not_allowed"
        else
          let x : F2 := ⟨beNat (slice bs 0 32), beNat (slice bs 32 32)⟩
          let y : F2 := ⟨beNat (slice bs 64 32), beNat (slice bs 96 32)⟩
          if !(onCurveAff B2 x y) then "not_on_curve" else "not_in_subgroup"
  else
    let n := if ty = "PointG1" then 3 else if ty = "Pair" then 12 else 6
    match parseComponents n (splitWs input.toList) with
    | none => "syntax"
    | some cs =>
      if !(cs.all specDomain) then "residue_too_long"
      else if ty = "Pair" then (if (f12OfRaw cs).isZero then "zero_element" else "not_of_order_r")
      else
        let P := if ty = "PointG1" then g1PtOfRaw cs else g2PtOfRaw cs
        let B := if ty = "PointG1" then B1 else B2
        if P.z.isZero then
          (if P.x.isZero then "identity_not_allowed" else "degenerate_projective_triple")
        else if !(onCurveProj B P) then "not_on_curve" else "not_in_subgroup"

def decodeOp (inp : Json) : Except String Json := do
  let ty ← getStr inp "type"
  let form ← getStr inp "form"
  let input ← getStr inp "input"
  let backend := (getStr inp "backend").toOption.getD "openssl"
  match ty with
  | "BigNumber" => decodeBn backend form input
  | "GroupOrderElement" => decodeSc form input
  | "PointG1" | "PointG2" | "PointG2Inf" | "Pair" => do
    let out ← decodePoint ty form input
    if (out.getObjValAs? String "spec").toOption = some "err" then
      pure (out.setObjVal! "spec_why" (whyPoint ty form input))
    else pure out
  | _ => throw s!"unknown primitive {ty}"

/-! ### wire_check -/

structure Acc where
  problems : Array String := #[]
  leaves : Nat := 0
  signLost : Nat := 0
  depLeaves : Nat := 0

def Acc.bad (a : Acc) (path what : String) : Acc :=
  if a.problems.size < 12 then { a with problems := a.problems.push s!"{path}: {what}" } else a

def jsonBytes (j : Json) : Option (List Nat) :=
  match j with
  | .arr xs => xs.toList.mapM fun x => match x.getNat? with
    | .ok n => if n < 256 then some n else none
    | _ => none
  | _ => none

def objKeys (j : Json) : Option (List String) :=
  match j.getObj? with
  | .ok o => some (o.toList.map (·.1))
  | _ => none

def sortStrs (l : List String) : List String := (l.toArray.qsort (· < ·)).toList

open CL.Curve in
/-- components of a point as WRITTEN (the serialiser prints the in-memory representation; the
decoder may normalise it) -/
def writtenRaw (n : Nat) (s : String) : TextPt :=
  ⟨((parseComponents n (splitWs s.toList)).getD []).map truncBig⟩

open CL.Curve in
/-- a primitive leaf: the text form must be accepted by the decoder as modelled AND by the
specification, and the binary form (when present) must be the bytes of the same value -/
def checkLeaf (a : Acc) (path : String) (k : Wire.Kind) (jt : Json) (jb : Option Json) : Acc :=
  let a := { a with leaves := a.leaves + 1 }
  let cmpBytes (a : Acc) (expect : List Nat) : Acc :=
    match jb with
    | none => a
    | some b => match jsonBytes b with
      | some bs => if bs = expect then a else a.bad path s!"binary form {hexOfBytes bs} is not the encoding {hexOfBytes expect} of the text form's value"
      | none => a.bad path "binary form is not a byte array"
  match k, jt with
  | .bn, .str s =>
    match BN.Spec.fromDec s.toList with
    | .ok z =>
      let a := if String.ofList (match BN.Spec.toDec z with | .ok t => t | _ => []) = s then a else a.bad path s!"decimal text {s} is not canonical"
      match jb with
      | none => a
      | some (.str s2) => if s2 = s then a else a.bad path "binary form (text) differs from the JSON text"
      | some b => match jsonBytes b with
        | some bs =>
          let n := BN.ofDigits 256 bs
          if (n : Int) = z then a
          else if z < 0 ∧ (n : Int) = -z then { a with signLost := a.signLost + 1 }
          else a.bad path s!"binary form denotes {n}, text form {z}"
        | none => a.bad path "binary form is neither text nor bytes"
    | _ => a.bad path s!"not a decimal numeral: {s}"
  | .sc, .str s =>
    match Sc.fromString s with
    | .ok v =>
      let a := if Sc.toHex v = s then a else a.bad path s!"scalar text {s} is not the canonical 64-digit form"
      cmpBytes a (ofU8s (Sc.toBytes v))
    | _ => a.bad path s!"scalar text refused: {s}"
  | .g1, .str s =>
    match implG1Text false s.toList, specG1Text s.toList with
    | .ok _, .ok _ => cmpBytes a (g1TextBytes (writtenRaw 3 s))
    | .dep, .ok t => cmpBytes { a with depLeaves := a.depLeaves + 1 } (specG1TextBytes t)
    | i, sp => a.bad path s!"PointG1 text: impl model {i.tag}, specification {sp.tag}"
  | .g2, .str s =>
    match implG2Text false s.toList, specG2Text false s.toList with
    | .ok _, .ok _ => cmpBytes a (g2TextBytes (writtenRaw 6 s))
    | .dep, .ok t => cmpBytes { a with depLeaves := a.depLeaves + 1 } (specG2TextBytes t)
    | i, sp => a.bad path s!"PointG2 text: impl model {i.tag}, specification {sp.tag}"
  | .g2inf, .str s =>
    match implG2Text true s.toList, specG2Text true s.toList with
    | .ok _, .ok _ => cmpBytes a (g2TextBytes (writtenRaw 6 s))
    | .dep, .ok t => cmpBytes { a with depLeaves := a.depLeaves + 1 } (specG2TextBytes t)
    | i, sp => a.bad path s!"PointG2Inf text: impl model {i.tag}, specification {sp.tag}"
  | .pair, .str s =>
    match implPairText s.toList, specPairText s.toList with
    | .ok t, .ok _ => cmpBytes a (pairTextBytes t)
    | .dep, .ok t => cmpBytes { a with depLeaves := a.depLeaves + 1 } (pairTextBytes t)
    | i, sp => a.bad path s!"Pair text: impl model {i.tag}, specification {sp.tag}"
  | .u32, j =>
    match j.getNat? with
    | .ok n => if n < 4294967296 then (match jb with | some b => if b == j then a else a.bad path "binary form differs" | none => a) else a.bad path "u32 out of range"
    | _ => a.bad path "u32 expected"
  | .i32, j =>
    match j.getInt? with
    | .ok n => if -2147483648 ≤ n ∧ n ≤ 2147483647 then (match jb with | some b => if b == j then a else a.bad path "binary form differs" | none => a) else a.bad path "i32 out of range"
    | _ => a.bad path "i32 expected"
  | .str, .str _ => (match jb with | some b => if b == jt then a else a.bad path "binary form differs" | none => a)
  | .u8vec, j =>
    match jsonBytes j with
    | some _ => (match jb with | some b => if b == j then a else a.bad path "binary form differs" | none => a)
    | none => a.bad path "byte array expected"
  | _, _ => a.bad path s!"leaf of kind {" ".intercalate k.render} has the wrong JSON type"

partial def checkKind (a : Acc) (path : String) (k : Wire.Kind) (jt : Json) (jb : Option Json) : Acc :=
  match k with
  | .ref ty => checkType a path ty jt jb
  | .opt k' =>
    if jt.isNull then (match jb with | some b => if b.isNull then a else a.bad path "binary form is not nil" | none => a)
    else checkKind a path k' jt jb
  | .vec k' =>
    match jt with
    | .arr xs =>
      let bs : Option (Array Json) := match jb with | some (.arr ys) => some ys | _ => none
      let a := match jb, bs with
        | some _, none => a.bad path "binary form is not an array"
        | _, some ys => if ys.size = xs.size then a else a.bad path "binary array has another length"
        | _, _ => a
      (List.range xs.size).foldl (fun a i =>
        checkKind a s!"{path}[{i}]" k' (xs.getD i Json.null) (bs.bind fun ys => if ys.size = xs.size then ys[i]? else none)) a
    | _ => a.bad path "array expected"
  | .mapStr k' =>
    match jt.getObj? with
    | .ok o =>
      let a := match jb with
        | some b => if (objKeys b).map sortStrs = some (sortStrs (o.toList.map (·.1))) then a else a.bad path "binary map has other keys"
        | none => a
      o.toList.foldl (fun a kv => checkKind a s!"{path}.{kv.1}" k' kv.2 (jb.bind fun b => (b.getObjVal? kv.1).toOption)) a
    | _ => a.bad path "map expected"
  | .setStr =>
    match jt with
    | .arr xs =>
      let strs := xs.toList.filterMap fun x => x.getStr?.toOption
      let a := if strs.length = xs.size then a else a.bad path "set of strings expected"
      let a := if sortStrs strs = strs then a else a.bad path "BTreeSet not written in order"
      match jb with
      | some (.arr ys) => if ys == xs then { a with leaves := a.leaves + 1 } else a.bad path "binary set differs"
      | some _ => a.bad path "binary form is not an array"
      | none => { a with leaves := a.leaves + 1 }
    | _ => a.bad path "array expected"
  | .setU32 =>
    match jt with
    | .arr xs =>
      let ns := xs.toList.filterMap fun x => x.getNat?.toOption
      let a := if ns.length = xs.size ∧ ns.all (· < 4294967296) then a else a.bad path "set of u32 expected"
      match jb with
      | some (.arr ys) =>
        let ms := ys.toList.filterMap fun x => x.getNat?.toOption
        if Drv.sortNat ms = Drv.sortNat ns then { a with leaves := a.leaves + 1 } else a.bad path "binary set differs"
      | some _ => a.bad path "binary form is not an array"
      | none => { a with leaves := a.leaves + 1 }
    | _ => a.bad path "array expected"
  | .pairStrBn =>
    match jt with
    | .arr #[.str _, v] =>
      let vb := match jb with | some (.arr #[_, w]) => some w | _ => none
      let a := match jb, vb with | some _, none => a.bad path "binary tuple expected" | _, _ => a
      checkLeaf a path .bn v vb
    | _ => a.bad path "tuple [name, number] expected"
  | leaf => checkLeaf a path leaf jt jb

where
  checkFields (a : Acc) (path : String) (fs : List Wire.Field) (jt : Json) (jb : Option Json) : Acc :=
    match jt.getObj? with
    | .ok o =>
      let keys := o.toList.map (·.1)
      let names := fs.map (·.name)
      let a := keys.foldl (fun a k => if names.contains k then a else a.bad path s!"unexpected field {k}") a
      -- binary formats carry every field (fields are omitted in human-readable formats only)
      let a := match jb with
        | some b => if (objKeys b).map sortStrs = some (sortStrs names) then a else a.bad path "binary document does not carry exactly the declared fields"
        | none => a
      fs.foldl (fun a f =>
        match o.get? f.name with
        | none =>
          if f.skip = .never then a.bad path s!"field {f.name} missing"
          else match f.skip, jb.bind fun b => (b.getObjVal? f.name).toOption with
            | _, none => a
            | .ifNone, some .null => a
            | .ifEmpty, some (.arr #[]) => a
            | _, some _ => a.bad path s!"field {f.name} omitted in JSON but the binary form carries a value"
        | some v =>
          let a := match f.skip, v with
            | .ifNone, .null => a.bad path s!"field {f.name} written although None"
            | .ifEmpty, .arr #[] => a.bad path s!"field {f.name} written although empty"
            | _, _ => a
          checkKind a s!"{path}.{f.name}" f.kind v (jb.bind fun b => (b.getObjVal? f.name).toOption)) a
    | _ => a.bad path "object expected"
  checkType (a : Acc) (path : String) (ty : String) (jt : Json) (jb : Option Json) : Acc :=
    match Wire.lookupLayout ty with
    | none => a.bad path s!"type {ty} is not in the layout table"
    | some (.transparent k) => checkKind a path k jt jb
    | some (.unitEnum vs) =>
      match jt with
      | .str s => if vs.contains s then (match jb with | some b => if b == jt then { a with leaves := a.leaves + 1 } else a.bad path "binary form differs" | none => { a with leaves := a.leaves + 1 }) else a.bad path s!"unknown variant {s}"
      | _ => a.bad path "variant name expected"
    | some (.structEnum vs) =>
      match jt.getObj? with
      | .ok o =>
        match o.toList with
        | [(v, body)] =>
          match vs.find? (·.1 = v) with
          | some e => checkFields a s!"{path}.{v}" e.2 body (jb.bind fun b => (b.getObjVal? v).toOption)
          | none => a.bad path s!"unknown variant {v}"
        | _ => a.bad path "single-variant object expected"
      | _ => a.bad path "object expected"
    | some (.struct fs _ _) => checkFields a path fs jt jb

def wireCheckOp (inp : Json) : Except String Json := do
  let ty ← getStr inp "type"
  let jt ← inp.getObjVal? "json"
  let jb := match inp.getObjVal? "bin" with
    | .ok .null => none
    | .ok b => some b
    | _ => none
  let a := checkKind {} ty (.ref ty) jt jb
  pure (Json.mkObj [("ok", toJson (a.problems.size == 0)), ("problems", toJson a.problems), ("leaves", toJson a.leaves),
    ("sign_lost", toJson a.signLost), ("dep_leaves", toJson a.depLeaves)])

/-! ### legacy_check -/

partial def toJ : Json → Wire.J
  | .null => .null
  | .bool b => .bool b
  | .num n => .num n.mantissa
  | .str s => .str s
  | .arr xs => .arr (xs.toList.map toJ)
  | .obj o => .obj (o.toList.map fun kv => (kv.1, toJ kv.2))

/-- documents as sets of paths (object key order is not part of a document) -/
partial def normJ : Wire.J → String
  | .null => "null"
  | .bool b => toString b
  | .num n => toString n
  | .str s => "\"" ++ s ++ "\""
  | .arr l => "[" ++ ",".intercalate (l.map normJ) ++ "]"
  | .obj kvs => "{" ++ ",".intercalate (sortStrs (kvs.map fun kv => kv.1 ++ ":" ++ normJ kv.2)) ++ "}"

def bnIsZero : Wire.J → Bool
  | .str s => match BN.Spec.fromDec s.toList with
    | .ok z => z == 0
    | _ => false
  | _ => false

def legacyCheckOp (inp : Json) : Except String Json := do
  let doc ← inp.getObjVal? "doc"
  if doc.isNull then return Json.mkObj [("skipped", true)]
  let ty ← getStr doc "type"
  let legacy := toJ (← doc.getObjVal? "legacy")
  let decoded := toJ (← doc.getObjVal? "decoded")
  let S := if ty = "PrimaryEqualProof" then Wire.eqProofSpec else Wire.keySpec
  let conv := Wire.convertLegacy S bnIsZero legacy
  let d1 := Wire.decodeLegacy S bnIsZero legacy
  let d2 := Wire.decodeLegacy S bnIsZero decoded
  let same := match d1, d2 with
    | some a, some b => normJ (Wire.encodeCurrent S a) == normJ (Wire.encodeCurrent S b)
    | _, _ => false
  let emits := match decoded with
    | .obj o => (Wire.getField S.legacyF o).isSome
    | _ => true
  let convSame := match Wire.decodeLegacy S bnIsZero conv, d2 with
    | some a, some b => normJ (Wire.encodeCurrent S a) == normJ (Wire.encodeCurrent S b)
    | _, _ => false
  pure (Json.mkObj [("model_decodes", toJson d1.isSome), ("equal", toJson same), ("converted_equal", toJson convSame), ("emits_legacy", toJson emits)])

end Drv.Codec

namespace Drv

def dispatchCodec (op : String) (inp : Json) : Option (Except String Json) :=
  match op with
  | "decode" => some (Codec.decodeOp inp)
  | "wire_check" => some (Codec.wireCheckOp inp)
  | "legacy_check" => some (Codec.legacyCheckOp inp)
  | "golden_scenario" => some (pure (Json.mkObj [("model", "not involved")]))
  | _ => none

end Drv
