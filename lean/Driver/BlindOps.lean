import Driver.Util
import CLModel.Model.Blinding
/-! driver op for C12: the prescribed `bn_rand` sizes per operation -/
open Lean CL CL.Blind

namespace Drv

def drawsOp (inp : Json) : Except String Json := do
  let kind ← getStr inp "kind"
  let n (k : String) : Nat := (getNat inp k).toOption.getD 0
  let l : List Nat ← match kind with
    | "link_secret" => pure drawsLinkSecret
    | "nonce" => pure drawsNonce
    | "blind" => pure (drawsBlind (n "n_hidden") (n "n_commit"))
    | "sign" => pure drawsSign
    | "common" => pure drawsCommon
    | "subproof" => pure (drawsSubProof (n "n_fresh") (n "n_pred"))
    | k => throw s!"unknown draw kind {k}"
  return Json.mkObj [("sizes", natArr (sortNat l)), ("scalar_draws_nonrevoc", toJson scalarDrawsNonRevoc),
    ("e_start", toJson Gen.LARGE_E_START), ("e_range", toJson Gen.LARGE_E_END_RANGE)]

def dispatchBlind (op : String) (inp : Json) : Option (Except String Json) :=
  match op with
  | "draws" => some (drawsOp inp)
  | _ => none

end Drv
