import Driver.Util
import CLModel.Model.Registry
/-! driver operations for the registry family (C08 C09 C13 C14) -/
open Lean CL

namespace Drv

/-- executable scalar field: `Nat` modulo the BN254 group order -/
def powMod (b e m : Nat) : Nat := Id.run do
  let mut result := 1 % m
  let mut base := b % m
  let mut ex := e
  while ex > 0 do
    if ex % 2 == 1 then result := result * base % m
    base := base * base % m
    ex := ex / 2
  return result

def fr : RingOps Nat :=
  { add := fun a b => (a + b) % rOrder
    sub := fun a b => (a + rOrder - b % rOrder) % rOrder
    mul := fun a b => a * b % rOrder
    zero := 0
    one := 1
    pow := fun a k => powMod a k rOrder }

def deltaJson (d : Reg.Delta Nat) : Json :=
  Json.mkObj [("prev", match d.prev with | some p => Json.str (toHex p) | none => Json.null),
              ("acc", Json.str (toHex d.acc)),
              ("issued", setJson d.issued), ("revoked", setJson d.revoked)]

structure HolderSt where
  idx : Nat
  upd : Outcome Nat

def outHex : Outcome Nat → Json
  | .ok a => Json.str (toHex a)
  | .err => Json.str "err"
  | .panic => Json.str "panic"

/-- run a history; on `err`/`panic` the registry is unchanged and the history goes on.
    For every index in `holders` (credentials handed out by an accepted `issue`), each later
    step reports the witness obtained by step-wise `Witness::update` of the issuance witness
    and the one computed from scratch by `Witness::new` from the merged cumulative delta. -/
def regHistory (inp : Json) : Except String Json := do
  let L ← getNat inp "L"
  let byDefault ← getBool inp "by_default"
  let γ ← getHex inp "gamma"
  let m ← getMode inp
  let ops ← getArr inp "ops"
  let holderIdx := (getNatList inp "holders").toOption.getD []
  let mut acc := Reg.initialState fr γ L byDefault
  let init := acc
  let mut outs : Array Json := #[]
  let mut holders : List HolderSt := []
  let mut cum : Option (Reg.Delta Nat) := none
  for op in ops do
    let kind ← getStr op "op"
    let mut status := "ok"
    let mut delta : Option (Reg.Delta Nat) := none
    let mut wit : Option Nat := none
    let mut newHolder : Option HolderSt := none
    let mop : Reg.Op ← match kind with
      | "issue" => do pure (Reg.Op.issue (← getNat op "i"))
      | "revoke" => do pure (Reg.Op.revoke (← getNat op "i"))
      | "unrevoke" => do pure (Reg.Op.unrevoke (← getNat op "i"))
      | "update" => do
        let iss ← getNatList op "issued"
        let rev ← getNatList op "revoked"
        pure (Reg.Op.update (dedupSorted (sortNat iss)) (dedupSorted (sortNat rev)))
      | k => throw s!"unknown registry op {k}"
    match Reg.step fr γ m L byDefault acc mop with
    | .ok so =>
      acc := so.acc; delta := so.delta; wit := so.witness
      match mop, so.witness with
      | .issue i, some w =>
        if holderIdx.contains i && !(holders.any (·.idx == i)) then
          newHolder := some ⟨i, .ok w⟩
      | _, _ => pure ()
    | .err => status := "err"
    | .panic => status := "panic"
    -- holders issued before this step consume the delta
    match delta with
    | some d =>
      holders := holders.map fun h =>
        match h.upd with
        | .ok ω => { h with upd := Reg.witnessUpdate fr γ m L h.idx ω d }
        | _ => h
      cum := match cum with
        | none => some d
        | some c => match Reg.merge (fun a b => a == b) c d with
          | .ok c' => some c'
          | _ => some c
    | none => pure ()
    match newHolder with
    | some h => holders := holders ++ [h]
    | none => pure ()
    let cumd : Reg.Delta Nat := cum.getD ⟨none, acc, [], []⟩
    let hj := holders.map fun h =>
      (toString h.idx, Json.mkObj [("upd", outHex h.upd),
        ("new", outHex (Reg.witnessNew fr γ m L byDefault h.idx cumd))])
    outs := outs.push (Json.mkObj [("status", status), ("acc", Json.str (toHex acc)),
      ("delta", match delta with | some d => deltaJson d | none => Json.null),
      ("witness", match wit with | some w => Json.str (toHex w) | none => Json.null),
      ("holders", Json.mkObj hj)])
  return Json.mkObj [("init", Json.str (toHex init)), ("steps", Json.arr outs)]

def forIssued (inp : Json) : Except String Json := do
  let L ← getNat inp "L"
  let γ ← getHex inp "gamma"
  let m ← getMode inp
  let iss ← getNatList inp "issued"
  match Reg.forIssued fr γ m L (dedupSorted (sortNat iss)) with
  | .ok a => return Json.mkObj [("status", "ok"), ("acc", Json.str (toHex a))]
  | .err => return Json.mkObj [("status", "err")]
  | .panic => return Json.mkObj [("status", "panic")]

def parseDelta (j : Json) : Except String (Reg.Delta Nat) := do
  let iss ← getNatList j "issued"
  let rev ← getNatList j "revoked"
  return ⟨none, 0, iss, rev⟩

def witnessNew (inp : Json) : Except String Json := do
  let L ← getNat inp "L"
  let byDefault ← getBool inp "by_default"
  let γ ← getHex inp "gamma"
  let m ← getMode inp
  let i ← getNat inp "i"
  let d ← parseDelta (← inp.getObjVal? "delta")
  match Reg.witnessNew fr γ m L byDefault i d with
  | .ok a => return Json.mkObj [("status", "ok"), ("omega", Json.str (toHex a))]
  | .err => return Json.mkObj [("status", "err")]
  | .panic => return Json.mkObj [("status", "panic")]

def witnessUpdate (inp : Json) : Except String Json := do
  let L ← getNat inp "L"
  let γ ← getHex inp "gamma"
  let m ← getMode inp
  let i ← getNat inp "i"
  let ω ← getHex inp "omega"
  let d ← parseDelta (← inp.getObjVal? "delta")
  match Reg.witnessUpdate fr γ m L i ω d with
  | .ok a => return Json.mkObj [("status", "ok"), ("omega", Json.str (toHex a))]
  | .err => return Json.mkObj [("status", "err")]
  | .panic => return Json.mkObj [("status", "panic")]

/-- merge on deltas whose accumulators are opaque strings -/
def mergeOp (inp : Json) : Except String Json := do
  let pd (j : Json) : Except String (Reg.Delta String) := do
    let iss ← getNatList j "issued"
    let rev ← getNatList j "revoked"
    let prev := match optField j "prev" with
      | some (.str s) => some s
      | _ => none
    let acc ← getStr j "acc"
    return ⟨prev, acc, iss, rev⟩
  let d1 ← pd (← inp.getObjVal? "d1")
  let d2 ← pd (← inp.getObjVal? "d2")
  match Reg.merge (fun a b => a == b) d1 d2 with
  | .ok d => return Json.mkObj [("status", "ok"),
      ("prev", match d.prev with | some p => Json.str p | none => Json.null),
      ("acc", d.acc), ("issued", setJson d.issued), ("revoked", setJson d.revoked)]
  | .err => return Json.mkObj [("status", "err")]
  | .panic => return Json.mkObj [("status", "panic")]

def tailsOp (inp : Json) : Except String Json := do
  let L ← getNat inp "L"
  let γ ← getHex inp "gamma"
  let m ← getMode inp
  let calls ← getNat inp "calls"
  match (Reg.TailsGen.new m L : Outcome (Reg.TailsGen Nat)) with
  | .ok g0 =>
    -- call try_next `calls` times, recording count() before each call and the output
    let mut g := g0
    let mut outs : Array Json := #[]
    let mut status := "ok"
    for _ in [0:calls] do
      let c := g.count
      match g.tryNext fr γ m with
      | .ok (g', some t) => g := g'; outs := outs.push (Json.mkObj [("count", c), ("tail", Json.str (toHex t))])
      | .ok (g', none) => g := g'; outs := outs.push (Json.mkObj [("count", c), ("tail", Json.null)])
      | .err => status := "err"
      | .panic => status := "panic"
    return Json.mkObj [("status", status), ("size", g0.size), ("outs", Json.arr outs)]
  | .err => return Json.mkObj [("status", "err")]
  | .panic => return Json.mkObj [("status", "panic")]

def dispatchReg (op : String) (inp : Json) : Option (Except String Json) :=
  match op with
  | "reg_history" => some (regHistory inp)
  | "for_issued" => some (forIssued inp)
  | "witness_new" => some (witnessNew inp)
  | "witness_update" => some (witnessUpdate inp)
  | "merge" => some (mergeOp inp)
  | "tails" => some (tailsOp inp)
  | _ => none

end Drv
