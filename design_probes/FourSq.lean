/-! import-free model of helpers.rs four_squares (nested descending loops with labelled break) -/
namespace FS

def searchK (d i j : Nat) : Nat → Option (Nat × Nat)
  | 0 => none
  | k+1 =>
    if d == i*i + j*j + (k+1)*(k+1) then some (k+1, 0) else
    let r3 := Nat.sqrt (d - i*i - j*j - (k+1)*(k+1))
    if d == i*i + j*j + (k+1)*(k+1) + r3*r3 then some (k+1, r3) else searchK d i j k

def searchJ (d i : Nat) : Nat → Option (Nat × Nat × Nat)
  | 0 => none
  | j+1 =>
    if d == i*i + (j+1)*(j+1) then some (j+1, 0, 0) else
    match searchK d i (j+1) (Nat.sqrt (d - i*i - (j+1)*(j+1))) with
    | some (k, l) => some (j+1, k, l)
    | none => searchJ d i j

def searchI (d : Nat) : Nat → Option (Nat × Nat × Nat × Nat)
  | 0 => none
  | i+1 =>
    if d == (i+1)*(i+1) then some (i+1, 0, 0, 0) else
    match searchJ d (i+1) (Nat.sqrt (d - (i+1)*(i+1))) with
    | some (j, k, l) => some (i+1, j, k, l)
    | none => searchI d i

/-- `none` = the Rust loops fell through without `break` (roots then hold stale values). -/
def fourSquares (d : Nat) : Option (Nat × Nat × Nat × Nat) :=
  if d == 0 then some (0,0,0,0) else searchI d (Nat.sqrt d)

end FS
