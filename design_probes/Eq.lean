/-! prototype: equality proof over an ops record; loops as structural recursion -/
namespace EQ

inductive Outcome (α : Type) | ok (a : α) | err | panic
deriving Repr

structure GroupOps (G : Type) where
  mul : G → G → G
  pow : G → Int → Outcome G
  inv : G → Outcome G
  one : G

def lookup {α} (k : String) : List (String × α) → Outcome α
  | [] => .err
  | (k', v) :: t => if k == k' then .ok v else lookup k t

structure PubKey (G : Type) where
  s : G
  z : G
  rctxt : G
  r : List (String × G)

variable {G : Type}

/-- acc * Π r[k]^m[k] over the given keys (HashSet iteration in Rust; order is a parameter) -/
def mulPows (o : GroupOps G) (r : List (String × G)) (m : List (String × Int)) (acc : G) :
    List String → Outcome G
  | [] => .ok acc
  | k :: ks =>
    match lookup k r with
    | .ok g => match lookup k m with
      | .ok x => match o.pow g x with
        | .ok p => mulPows o r m (o.mul p acc) ks
        | .err => .err | .panic => .panic
      | .err => .err | .panic => .panic
    | .err => .err | .panic => .panic

def calcTeq (o : GroupOps G) (pk : PubKey G) (a' : G) (e v : Int) (m : List (String × Int))
    (m2 : Int) (unrevealed : List String) : Outcome G :=
  match o.pow a' e with
  | .ok t0 => match mulPows o pk.r m t0 unrevealed with
    | .ok t1 => match o.pow pk.s v with
      | .ok sv => match o.pow pk.rctxt m2 with
        | .ok rm => .ok (o.mul rm (o.mul sv t1))
        | .err => .err | .panic => .panic
      | .err => .err | .panic => .panic
    | .err => .err | .panic => .panic
  | .err => .err | .panic => .panic

def verifyEquality (o : GroupOps G) (pk : PubKey G) (E0 : Int) (a' : G) (e v : Int)
    (m : List (String × Int)) (m2 : Int) (revealed : List (String × Int))
    (unrevealed : List String) (c : Int) : Outcome G :=
  match calcTeq o pk a' e v m m2 unrevealed with
  | .ok t1 => match o.pow a' E0 with
    | .ok r0 => match mulPows o pk.r revealed r0 (revealed.map (·.1)) with
      | .ok rar => match o.inv rar with
        | .ok rari => match o.inv (o.mul pk.z rari) with
          | .ok zri => match o.pow zri c with
            | .ok t2 => .ok (o.mul t1 t2)
            | .err => .err | .panic => .panic
          | .err => .err | .panic => .panic
        | .err => .err | .panic => .panic
      | .err => .err | .panic => .panic
    | .err => .err | .panic => .panic
  | .err => .err | .panic => .panic

end EQ
