import S.Eq
import Mathlib.Tactic.Module
import Mathlib.Algebra.BigOperators.Group.List.Basic

namespace EQ
variable {G : Type} [AddCommGroup G]

def addOps : GroupOps G := ⟨(· + ·), fun g k => .ok (k • g), fun g => .ok (-g), 0⟩

/-- value of attribute map as a total function once all keys are present -/
def Has {α} (m : List (String × α)) (k : String) (x : α) : Prop := lookup k m = .ok x

theorem mulPows_sum (r : List (String × G)) (m : List (String × Int)) :
    ∀ (ks : List String) (acc : G) (rf : String → G) (mf : String → Int),
      (∀ k ∈ ks, Has r k (rf k)) → (∀ k ∈ ks, Has m k (mf k)) →
      mulPows addOps r m acc ks = .ok (acc + (ks.map fun k => mf k • rf k).sum) := by
  intro ks
  induction ks with
  | nil => intro acc rf mf _ _; simp [mulPows]
  | cons k ks ih =>
    intro acc rf mf hr hm
    have h1 : lookup k r = .ok (rf k) := hr k (by simp)
    have h2 : lookup k m = .ok (mf k) := hm k (by simp)
    simp only [mulPows, h1, h2, addOps]
    have := ih (mf k • rf k + acc) rf mf (fun j hj => hr j (by simp [hj])) (fun j hj => hm j (by simp [hj]))
    simp only [addOps] at this
    rw [this]
    simp only [List.map_cons, List.sum_cons]
    congr 1; module

theorem sum_split (c : Int) (rf : String → G) (val mt : String → Int) (un : List String) :
    (un.map fun k => (c * val k + mt k) • rf k).sum
      = c • (un.map fun k => val k • rf k).sum + (un.map fun k => mt k • rf k).sum := by
  induction un with
  | nil => simp
  | cons k ks ih => simp only [List.map_cons, List.sum_cons]; rw [ih]; module

/-- C01 core: the verifier's recomputed T̂ equals the prover's T̃, any number of attributes. -/
theorem eq_complete (pk : PubKey G) (A : G) (e v m2 r et vt m2t c E0 : Int)
    (un rev : List String) (rf : String → G) (val mt : String → Int)
    (mhat : List (String × Int)) (revealed : List (String × Int))
    (hr : ∀ k ∈ un ++ rev, Has pk.r k (rf k))
    (hmhat : ∀ k ∈ un, Has mhat k (c * val k + mt k))
    (hrevk : revealed.map (·.1) = rev)
    (hrevv : ∀ k ∈ rev, Has revealed k (val k))
    (hsig : pk.z = e • A + v • pk.s + m2 • pk.rctxt + ((un ++ rev).map fun k => val k • rf k).sum) :
    let A' := A + r • pk.s
    let T := et • A' + vt • pk.s + m2t • pk.rctxt + (un.map fun k => mt k • rf k).sum
    verifyEquality addOps pk E0 A' (c * (e - E0) + et) (c * (v - e * r) + vt) mhat (c * m2 + m2t)
      revealed un c = .ok T := by
  intro A' T
  have hun : ∀ k ∈ un, Has pk.r k (rf k) := fun k hk => hr k (by simp [hk])
  have hrev : ∀ k ∈ rev, Has pk.r k (rf k) := fun k hk => hr k (by simp [hk])
  unfold verifyEquality calcTeq
  simp only [addOps]
  have e1 := mulPows_sum pk.r mhat un ((c * (e - E0) + et) • A') rf (fun k => c * val k + mt k) hun hmhat
  simp only [addOps] at e1
  rw [e1]
  have e2 := mulPows_sum pk.r revealed rev (E0 • A') rf val hrev hrevv
  simp only [addOps] at e2
  simp only [hrevk]
  rw [e2]
  simp only [Outcome.ok.injEq]
  rw [hsig]
  simp only [List.map_append, List.sum_append, T, A']
  have hs := sum_split c rf val mt un
  rw [hs]
  module

end EQ
#print axioms EQ.eq_complete
