/-! import-free registry model in exponent form (prototype) -/
namespace RG

structure RingOps (F : Type) where
  add : F → F → F
  sub : F → F → F
  mul : F → F → F
  zero : F
  pow : F → Nat → F

inductive Outcome (α : Type) | ok (a : α) | err | panic
deriving Repr

/-- u32 `max_cred_num + 1 - rev_idx` after the (repaired) range guard -/
def getIndex (L idx : Nat) : Nat := L + 1 - idx

inductive Op
  | issue (i : Nat) | revoke (i : Nat) | unrevoke (i : Nat)
  | update (iss rev : List Nat)

variable {F : Type}

/-- `_update_revocation_accumulator`: (idx, remove?) list -/
def updateAcc (o : RingOps F) (γ : F) (L : Nat) (acc : F) : List (Nat × Bool) → Outcome F
  | [] => .ok acc
  | (idx, remove) :: rest =>
    if idx == 0 || idx > L then .err else
    let t := o.pow γ (getIndex L idx)
    updateAcc o γ L (if remove then o.sub acc t else o.add acc t) rest

def step (o : RingOps F) (γ : F) (L : Nat) (onDemand : Bool) (acc : F) : Op → Outcome F
  | .issue i =>
    if i == 0 || i > L then .err
    else if onDemand then .ok (o.add acc (o.pow γ (getIndex L i))) else .ok acc
  | .revoke i => updateAcc o γ L acc [(i, true)]
  | .unrevoke i => updateAcc o γ L acc [(i, false)]
  | .update iss rev => updateAcc o γ L acc (iss.map (·, false) ++ rev.map (·, true))

def run (o : RingOps F) (γ : F) (L : Nat) (onDemand : Bool) (acc : F) : List Op → Outcome F
  | [] => .ok acc
  | op :: ops =>
    match step o γ L onDemand acc op with
    | .ok acc' => run o γ L onDemand acc' ops
    | .err => .err
    | .panic => .panic

end RG
