import S.Reg
import Mathlib.Algebra.BigOperators.Group.Finset.Basic
import Mathlib.Algebra.Ring.Basic
import Mathlib.Tactic.Ring
import Mathlib.Data.Finset.Basic

namespace RG
open Finset

variable {F : Type} [CommRing F]

def ringOps : RingOps F := ⟨(· + ·), (· - ·), (· * ·), 0, (· ^ ·)⟩

/-- set semantics of one operation -/
def validStep (V : Finset ℕ) : Op → Finset ℕ
  | .issue i => insert i V
  | .revoke i => V.erase i
  | .unrevoke i => insert i V
  | .update iss rev => (V ∪ iss.toFinset) \ rev.toFinset

def InRange (L i : ℕ) : Prop := 1 ≤ i ∧ i ≤ L

/-- protocol-respecting operation w.r.t. current valid set -/
def WfOp (L : ℕ) (onDemand : Bool) (V : Finset ℕ) : Op → Prop
  | .issue i => InRange L i ∧ (if onDemand then i ∉ V else i ∈ V)
  | .revoke i => InRange L i ∧ i ∈ V
  | .unrevoke i => InRange L i ∧ i ∉ V
  | .update iss rev => iss.Nodup ∧ rev.Nodup ∧ (∀ i ∈ iss, InRange L i ∧ i ∉ V ∧ i ∉ rev) ∧
      (∀ i ∈ rev, InRange L i ∧ i ∈ V)

def WfHist (L : ℕ) (onDemand : Bool) : Finset ℕ → List Op → Prop
  | _, [] => True
  | V, op :: ops => WfOp L onDemand V op ∧ WfHist L onDemand (validStep V op) ops

def validAfter (V : Finset ℕ) : List Op → Finset ℕ
  | [] => V
  | op :: ops => validAfter (validStep V op) ops

def accOf (γ : F) (L : ℕ) (V : Finset ℕ) : F := ∑ j ∈ V, γ ^ (L + 1 - j)

theorem updateAcc_mixed (γ : F) (L : ℕ) (a r : List ℕ)
    (ha : ∀ i ∈ a, InRange L i) (hr : ∀ i ∈ r, InRange L i) : ∀ acc : F,
    updateAcc ringOps γ L acc (a.map (·, false) ++ r.map (·, true)) =
      .ok (acc + (a.map fun i => γ ^ (L+1-i)).sum - (r.map fun i => γ ^ (L+1-i)).sum) := by
  induction a with
  | nil =>
    simp only [List.map_nil, List.nil_append, List.sum_nil, add_zero]
    induction r with
    | nil => intro acc; simp [updateAcc]
    | cons i l ih =>
      intro acc
      have hi := hr i (by simp)
      have : ¬ (i = 0 ∨ L < i) := by unfold InRange at hi; omega
      simp only [List.map_cons, updateAcc, Bool.or_eq_true, beq_iff_eq, decide_eq_true_eq, this,
        if_false, List.sum_cons]
      rw [ih (fun j hj => hr j (by simp [hj]))]
      simp [ringOps, getIndex]; ring
  | cons i l ih =>
    intro acc
    have hi := ha i (by simp)
    have : ¬ (i = 0 ∨ L < i) := by unfold InRange at hi; omega
    simp only [List.map_cons, List.cons_append, updateAcc, Bool.or_eq_true, beq_iff_eq,
      decide_eq_true_eq, this, if_false, List.sum_cons]
    rw [ih (fun j hj => ha j (by simp [hj]))]
    simp [ringOps, getIndex]; ring

theorem step_invariant (γ : F) (L : ℕ) (onDemand : Bool) (V : Finset ℕ) (op : Op)
    (hwf : WfOp L onDemand V op) :
    step ringOps γ L onDemand (accOf γ L V) op = .ok (accOf γ L (validStep V op)) := by
  cases op with
  | issue i =>
    obtain ⟨hr, hv⟩ := hwf
    have : ¬ (i = 0 ∨ L < i) := by unfold InRange at hr; omega
    cases onDemand with
    | true =>
      simp only [if_true] at hv
      simp [step, this, validStep, accOf, sum_insert hv, ringOps, getIndex, add_comm]
    | false =>
      simp at hv
      simp [step, this, validStep, Finset.insert_eq_of_mem hv]
  | revoke i =>
    obtain ⟨hr, hv⟩ := hwf
    have : ¬ (i = 0 ∨ L < i) := by unfold InRange at hr; omega
    have hs := Finset.sum_erase_add V (fun j => γ ^ (L+1-j)) hv
    simp only [step, updateAcc, Bool.or_eq_true, beq_iff_eq, decide_eq_true_eq, this, if_false,
      validStep, accOf, ringOps, getIndex, if_true]
    congr 1
    rw [← hs]; ring
  | unrevoke i =>
    obtain ⟨hr, hv⟩ := hwf
    have : ¬ (i = 0 ∨ L < i) := by unfold InRange at hr; omega
    simp [step, updateAcc, this, validStep, accOf, sum_insert hv, ringOps, getIndex, add_comm]
  | update iss rev =>
    obtain ⟨hin, hrn, hi, hr⟩ := hwf
    simp only [step]
    rw [updateAcc_mixed γ L iss rev (fun i h => (hi i h).1) (fun i h => (hr i h).1)]
    have hdisj : Disjoint V iss.toFinset := by
      rw [Finset.disjoint_right]; intro a ha; exact (hi a (by simpa using ha)).2.1
    have hsub : rev.toFinset ⊆ V ∪ iss.toFinset := by
      intro a ha; exact Finset.mem_union_left _ ((hr a (by simpa using ha)).2)
    have h1 : (iss.map fun i => γ ^ (L+1-i)).sum = ∑ j ∈ iss.toFinset, γ ^ (L+1-j) := by
      rw [List.sum_toFinset _ hin]
    have h2 : (rev.map fun i => γ ^ (L+1-i)).sum = ∑ j ∈ rev.toFinset, γ ^ (L+1-j) := by
      rw [List.sum_toFinset _ hrn]
    have h3 := Finset.sum_sdiff (f := fun j => γ ^ (L+1-j)) hsub
    have h4 := Finset.sum_union (f := fun j => γ ^ (L+1-j)) hdisj
    simp only [validStep, accOf]
    congr 1
    rw [h1, h2, ← h4, ← h3]; ring

/-- C08: for every well-formed history of any length, the accumulator is the defining sum. -/
theorem accum_invariant (γ : F) (L : ℕ) (onDemand : Bool) :
    ∀ (ops : List Op) (V : Finset ℕ), WfHist L onDemand V ops →
      run ringOps γ L onDemand (accOf γ L V) ops = .ok (accOf γ L (validAfter V ops)) := by
  intro ops
  induction ops with
  | nil => intro V _; simp [run, validAfter]
  | cons op ops ih =>
    intro V h
    obtain ⟨h1, h2⟩ := h
    simp only [run, step_invariant γ L onDemand V op h1, validAfter]
    exact ih _ h2

end RG
#print axioms RG.accum_invariant
