import S.FourSq
import Mathlib.NumberTheory.SumFourSquares
import Mathlib.Tactic.Ring
import Mathlib.Tactic.Linarith

namespace FS

theorem searchK_sound {d i j n k l} (h : searchK d i j n = some (k,l)) :
    d = i*i + j*j + k*k + l*l := by
  induction n with
  | zero => simp [searchK] at h
  | succ n ih =>
    unfold searchK at h
    split at h
    · rename_i h1; simp at h; obtain ⟨rfl, rfl⟩ := h; simpa using h1
    · simp only at h
      split at h
      · rename_i h2; simp at h; obtain ⟨rfl, rfl⟩ := h; simpa using h2
      · exact ih h

theorem searchJ_sound {d i n j k l} (h : searchJ d i n = some (j,k,l)) :
    d = i*i + j*j + k*k + l*l := by
  induction n with
  | zero => simp [searchJ] at h
  | succ n ih =>
    unfold searchJ at h
    split at h
    · rename_i h1; simp at h; obtain ⟨rfl, rfl, rfl⟩ := h; simpa using h1
    · split at h
      · rename_i k' l' hk; simp at h; obtain ⟨rfl, rfl, rfl⟩ := h; exact searchK_sound hk
      · exact ih h

theorem searchI_sound {d n i j k l} (h : searchI d n = some (i,j,k,l)) :
    d = i*i + j*j + k*k + l*l := by
  induction n with
  | zero => simp [searchI] at h
  | succ n ih =>
    unfold searchI at h
    split at h
    · rename_i h1; simp at h; obtain ⟨rfl, rfl, rfl, rfl⟩ := h; simpa using h1
    · split at h
      · rename_i j' k' l' hj; simp at h; obtain ⟨rfl, rfl, rfl, rfl⟩ := h; exact searchJ_sound hj
      · exact ih h

/-- completeness of the innermost loop: a representation with `1 ≤ c ≤ n` is in reach -/
theorem searchK_complete {d i j c e : Nat} (hc : 1 ≤ c) (hd : d = i*i + j*j + c*c + e*e) :
    ∀ n, c ≤ n → (searchK d i j n).isSome := by
  intro n
  induction n with
  | zero => intro h; omega
  | succ n ih =>
    intro hn
    unfold searchK
    split
    · simp
    · simp only
      split
      · simp
      · rename_i h1 h2
        rcases Nat.lt_or_ge n c with hlt | hge
        · have hcn : c = n + 1 := by omega
          subst hcn
          exfalso
          apply h2
          have : d - i*i - j*j - (n+1)*(n+1) = e*e := by omega
          rw [this, Nat.sqrt_eq]
          simp [hd]
        · exact ih hge

theorem le_sqrt_of_sq_le {x m : Nat} (h : x*x ≤ m) : x ≤ Nat.sqrt m := Nat.le_sqrt.mpr h

theorem searchJ_complete {d i b c e : Nat} (hb : 1 ≤ b) (hce : c = 0 → e = 0)
    (hd : d = i*i + b*b + c*c + e*e) :
    ∀ n, b ≤ n → (searchJ d i n).isSome := by
  intro n
  induction n with
  | zero => intro h; omega
  | succ n ih =>
    intro hn
    unfold searchJ
    split
    · simp
    · rename_i h1
      split
      · simp
      · rename_i hk
        rcases Nat.lt_or_ge n b with hlt | hge
        · have hbn : b = n + 1 := by omega
          subst hbn
          exfalso
          rcases Nat.eq_zero_or_pos c with hc0 | hcpos
          · have he0 := hce hc0
            subst hc0; subst he0
            apply h1; simp [hd]
          · have hle : c ≤ Nat.sqrt (d - i*i - (n+1)*(n+1)) := by
              apply le_sqrt_of_sq_le
              have : d - i*i - (n+1)*(n+1) = c*c + e*e := by omega
              rw [this]; exact Nat.le_add_right _ _
            have := searchK_complete (d := d) (i := i) (j := n+1) hcpos hd _ hle
            rw [hk] at this; simp at this
        · exact ih hge

theorem searchI_complete {d a b c e : Nat} (ha : 1 ≤ a) (hbc : b = 0 → c = 0) (hce : c = 0 → e = 0)
    (hd : d = a*a + b*b + c*c + e*e) :
    ∀ n, a ≤ n → (searchI d n).isSome := by
  intro n
  induction n with
  | zero => intro h; omega
  | succ n ih =>
    intro hn
    unfold searchI
    split
    · simp
    · rename_i h1
      split
      · simp
      · rename_i hj
        rcases Nat.lt_or_ge n a with hlt | hge
        · have han : a = n + 1 := by omega
          subst han
          exfalso
          rcases Nat.eq_zero_or_pos b with hb0 | hbpos
          · have hc0 := hbc hb0
            have he0 := hce hc0
            subst hb0; subst hc0; subst he0
            apply h1; simp [hd]
          · have hle : b ≤ Nat.sqrt (d - (n+1)*(n+1)) := by
              apply le_sqrt_of_sq_le
              have : d - (n+1)*(n+1) = b*b + c*c + e*e := by omega
              rw [this]; omega
            have := searchJ_complete (d := d) (i := n+1) hbpos hce hd _ hle
            rw [hj] at this; simp at this
        · exact ih hge

/-- zeros can be moved to the end of a four-square representation -/
theorem zeros_last (a b c e : Nat) : ∃ a' b' c' e' : Nat,
    a'*a' + b'*b' + c'*c' + e'*e' = a*a + b*b + c*c + e*e ∧
    (a' = 0 → b' = 0) ∧ (b' = 0 → c' = 0) ∧ (c' = 0 → e' = 0) := by
  rcases Nat.eq_zero_or_pos a with ha | ha <;> rcases Nat.eq_zero_or_pos b with hb | hb <;>
  rcases Nat.eq_zero_or_pos c with hc | hc <;> rcases Nat.eq_zero_or_pos e with he | he
  all_goals first
    | exact ⟨a, b, c, e, by ring, by omega, by omega, by omega⟩
    | exact ⟨a, b, e, c, by ring, by omega, by omega, by omega⟩
    | exact ⟨a, c, e, b, by ring, by omega, by omega, by omega⟩
    | exact ⟨a, c, b, e, by ring, by omega, by omega, by omega⟩
    | exact ⟨a, e, b, c, by ring, by omega, by omega, by omega⟩
    | exact ⟨b, c, e, a, by ring, by omega, by omega, by omega⟩
    | exact ⟨b, c, a, e, by ring, by omega, by omega, by omega⟩
    | exact ⟨b, e, a, c, by ring, by omega, by omega, by omega⟩
    | exact ⟨b, a, c, e, by ring, by omega, by omega, by omega⟩
    | exact ⟨c, e, a, b, by ring, by omega, by omega, by omega⟩
    | exact ⟨c, a, b, e, by ring, by omega, by omega, by omega⟩
    | exact ⟨e, a, b, c, by ring, by omega, by omega, by omega⟩

/-- C19/C03/C01: for EVERY natural `d` the search succeeds and the squares sum to `d`. -/
theorem four_squares_sum (d : Nat) :
    ∃ a b c e, fourSquares d = some (a,b,c,e) ∧ a*a + b*b + c*c + e*e = d := by
  unfold fourSquares
  by_cases h0 : d = 0
  · subst h0; exact ⟨0,0,0,0, by simp, by simp⟩
  · have hne : (d == 0) = false := by simpa using h0
    rw [if_neg (by simpa using h0)]
    obtain ⟨a0, b0, c0, e0, hsum⟩ := Nat.sum_four_squares d
    obtain ⟨a, b, c, e, hs, hab, hbc, hce⟩ := zeros_last a0 b0 c0 e0
    have hd : d = a*a + b*b + c*c + e*e := by rw [hs, ← hsum]; ring
    have ha : 1 ≤ a := by
      rcases Nat.eq_zero_or_pos a with h | h
      · have hb := hab h; have hc := hbc hb; have he := hce hc
        subst h; subst hb; subst hc; subst he; simp at hd; exact absurd hd h0
      · exact h
    have hle : a ≤ Nat.sqrt d := by
      apply le_sqrt_of_sq_le; rw [hd]; omega
    have hsome := searchI_complete ha hbc hce hd _ hle
    obtain ⟨⟨i, j, k, l⟩, hr⟩ := Option.isSome_iff_exists.mp hsome
    exact ⟨i, j, k, l, hr, (searchI_sound hr).symm⟩

end FS
#print axioms FS.four_squares_sum
