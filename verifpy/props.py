"""Per-property configuration: Lean module, harness streams per tier, comparators, notes."""
from . import cmp_reg

# stream spec: (stream name, {tier: [variants]})
PROPS = {
    "C08": {
        "title": "Accumulator equals the set of valid indices over every registry history",
        "streams": [("reg", {"quick": ["ossl-rel", "ossl-chk"], "thorough": ["ossl-rel", "ossl-chk", "rust-rel"]})],
        "ops": {"reg_history", "for_issued"},
        "level_text": "Theorems for every commutative ring, every gamma, every registry size with L+1 < 2^32, both overflow modes and histories of any length: accumulator invariant (induction over the operation list), path independence, agreement of for_issued and initial_state with the defining sum, delta contents, rejection of every out-of-range index, and the two incremental tail-sum loops. The u32 index expression and the range guards the theorems talk about are regenerated from the Rust source on every run; everything else is tied by running the real Issuer API and the model on the same histories and comparing accumulators, deltas and outcomes.",
        "level_note": "Model in exponent form (g'^a represented by a); equality of exponents implies equality of group elements. Trusted: Lean kernel, Mathlib, translate.py, the correspondence harness, amcl for materialising g'^a. Histories that violate the protocol (revoking a never-issued index) are outside WfHist.",
        "rule": "registry histories (corpus of boundary histories, then random well-formed histories with ~10% out-of-range and ~4% protocol-violating operations; thorough adds the exhaustive tree L<=3); non-trivial = at least one operation accepted; distinct = distinct (L, mode, op list)",
    },
    "C09": {
        "claimed": False,
        "title": "Witnesses are valid exactly for non-revoked indices",
        "streams": [("reg", {"quick": ["ossl-rel"], "thorough": ["ossl-rel", "ossl-chk", "rust-rel"]})],
        "ops": {"reg_history"},
        "rule": "registry histories with up to 4 holders; at every step each holder's witness is derived three ways on the implementation and two ways in the model; non-trivial = history with at least one holder and one accepted later operation",
    },
    "C13": {
        "claimed": False,
        "title": "Merged registry deltas equal sequential application",
        "streams": [("reg", {"quick": ["ossl-rel"], "thorough": ["ossl-rel", "rust-rel"]})],
        "ops": {"merge", "reg_history"},
        "rule": "all consecutive and sampled non-consecutive pairs of deltas recorded along registry histories; non-trivial = merge accepted; distinct = distinct (d1, d2) set contents",
    },
    "C14": {
        "claimed": False,
        "title": "Tails are correct and the secret tail is never published",
        "streams": [("tails", {"quick": ["ossl-rel", "ossl-chk"], "thorough": ["ossl-rel", "ossl-chk", "rust-rel"]})],
        "ops": {"tails"},
        "rule": "tails generators for L = 1..24 (quick) / 1..64 (thorough) plus sampled larger L, fresh registry keys each; every emitted position compared with g'^(gamma^k); non-trivial = generator drained; distinct = distinct L",
    },
}

COMPARATORS = {}
COMPARATORS.update(cmp_reg.COMPARATORS)
