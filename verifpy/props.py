"""Per-property configuration: Lean module, harness streams per tier, comparators, notes."""
from . import cmp_reg

# stream spec: (stream name, {tier: [variants]})
PROPS = {
    "C08": {
        "title": "Accumulator equals the set of valid indices over every registry history",
        "streams": [("reg", {"quick": ["ossl-rel", "ossl-chk"], "thorough": ["ossl-rel", "ossl-chk", "rust-rel"]})],
        "ops": {"reg_history", "for_issued"},
        "level_text": "Theorems for every commutative ring, every gamma, every registry size with L+1 < 2^32, both overflow modes and histories of any length: accumulator invariant (induction over the operation list), path independence, agreement of for_issued and initial_state with the defining sum, delta contents, rejection of every out-of-range index, and the two incremental tail-sum loops. The u32 index expression and the range guards the theorems talk about are regenerated from the Rust source on every run; everything else is tied by running the real Issuer API and the model on the same histories and comparing accumulators, deltas and outcomes.",
        "level_note": "Model in exponent form (g'^a represented by a); equality of exponents implies equality of group elements. Trusted: Lean kernel, Mathlib, translate.py, the correspondence harness, amcl for materialising g'^a. Histories that violate the protocol (revoking a never-issued index) are outside WfHist.",
        "rule": "registry histories (corpus of boundary histories, then random well-formed histories with ~10% out-of-range and ~4% protocol-violating operations; thorough adds the exhaustive tree L<=3); non-trivial = at least one operation accepted; distinct = distinct (L, mode, op list)",
    },
    "C09": {
        "level_text": "Theorems for every commutative ring, gamma, L with 2L+1 < 2^32, both overflow modes, index sets of any size: the accumulator check gamma^i*acc - omega equals gamma^(L+1) exactly when i is valid (witness_check_iff, revoked_fails_check, valid_passes_check); the issuer-side witness, Witness::new (both issuance modes) and Witness::update (any applicable batch delta) all produce the closed form witOf, hence agree (three_derivations_agree); every tail index read lies in [2,2L] and is never L+1. The u32 tail-index expressions and the guards are regenerated from the Rust source each run; the rest is tied by running real histories with up to 4 holders and comparing every witness (issuer, from scratch, step-wise updated) with the model, plus the pairing check and process_credential_signature evaluated on the real code.",
        "level_note": "Exponent form; the public pairing equation holds iff the exponent identity holds given e(g,g') != 1 and gamma^(L+1) != 0 (evaluated implicitly by the pairing oracle on every run). Trusted: Lean kernel, Mathlib, translate.py, harness, amcl for materialisation and pairings. Malformed deltas are C20's subject.",
        "title": "Witnesses are valid exactly for non-revoked indices",
        "streams": [("reg", {"quick": ["ossl-rel"], "thorough": ["ossl-rel", "ossl-chk", "rust-rel"]})],
        "ops": {"reg_history"},
        "rule": "registry histories with up to 4 holders; at every step each holder's witness is derived three ways on the implementation and two ways in the model; non-trivial = history with at least one holder and one accepted later operation",
    },
    "C13": {
        "level_text": "Theorems over index sets of any size about the merge body regenerated from the Rust source (Gen.mergeBody): per-index truth table of the merged issued/revoked sets (merge_pointwise), closed form (I1\\R2) u (I2\\R1) / (R1\\I2) u (R2\\I1) and cancellation for consecutive deltas, disjointness, endpoints prev/accum, refusal of non-consecutive deltas, and merge_update_equiv: for every holder, updating a witness with the merged delta equals updating with the two deltas in sequence (any ring, any gamma, 2L+1 < 2^32, both overflow modes). Correspondence: real merge on all consecutive and sampled non-consecutive delta pairs of real histories compared with the model; witness equivalence evaluated on the real code for every index.",
        "level_note": "Sets are lists read as sets (membership statements); accumulator equality is an abstract Boolean relation. Trusted: Lean kernel, Mathlib, translate.py (statement scanner of the merge body), harness.",
        "title": "Merged registry deltas equal sequential application",
        "streams": [("reg", {"quick": ["ossl-rel"], "thorough": ["ossl-rel", "rust-rel"]})],
        "ops": {"merge", "reg_history"},
        "rule": "all consecutive and sampled non-consecutive pairs of deltas recorded along registry histories; non-trivial = merge accepted; distinct = distinct (d1, d2) set contents",
    },
    "C14": {
        "level_text": "Theorems for every commutative ring, gamma, L with 2L+1 < 2^32, both overflow modes: the generator yields exactly 2L+1 tails then None, position k holding gamma^k for k != L+1 and g' at L+1 (tails_sequence, induction with invariant cur = gamma^(k-1)); count() is 2L+1-k; the regenerated suppressed index (size/2)+1 equals L+1; no emitted position equals gamma^(L+1) when gamma^d != 1 for 1 <= d <= L+1 (secret_never_emitted); determinism. size and the suppressed position are the u32 expressions regenerated from the Rust source each run. Correspondence: real generators for L=1..24 (quick) / 1..64 + sampled up to 10^4 (thorough) with fresh keys, every emitted tail compared with g'^(model exponent), count() at every call, re-created and deserialised generators, and a direct search for g'^(gamma^(L+1)) among the outputs.",
        "level_note": "Exponent form; inequality of group elements follows from inequality of exponents. The non-degeneracy hypothesis on gamma holds for all but a negligible fraction of keys and is checked by the direct oracle per generated key. Trusted: Lean kernel, Mathlib, translate.py, harness, amcl for materialisation.",
        "title": "Tails are correct and the secret tail is never published",
        "streams": [("tails", {"quick": ["ossl-rel", "ossl-chk"], "thorough": ["ossl-rel", "ossl-chk", "rust-rel"]})],
        "ops": {"tails"},
        "rule": "tails generators for L = 1..24 (quick) / 1..64 (thorough) plus sampled larger L, fresh registry keys each; every emitted position compared with g'^(gamma^k); non-trivial = generator drained; distinct = distinct L",
    },
}

COMPARATORS = {}
COMPARATORS.update(cmp_reg.COMPARATORS)
