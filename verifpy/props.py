"""Per-property configuration: Lean module, harness streams per tier, comparators, notes."""
from . import cmp_reg
from . import cmp_pres

# stream spec: (stream name, {tier: [variants]})
PROPS = {
    "C01": {
        "claimed": False,
        "title": "Honest presentations verify",
        "streams": [("pres", {"quick": ["ossl-rel", "rust-chk"], "thorough": ["ossl-rel", "ossl-chk", "rust-rel", "rust-chk"]}),
                    ("predgrid", {"quick": ["ossl-chk"], "thorough": ["ossl-rel", "ossl-chk"]})],
        "ops": {"verify", "pres_refused", "pred"},
        "rule": "honest presentation scenarios (1-3 credentials from the fixture credential definitions, values from {0,+-1,small,i32 extremes,256-bit,>256-bit,negative}, random revealed subsets, 0-6 predicates with thresholds at/around the value, 0 and +-2^31, common link secret) plus the predicate boundary grid; non-trivial = proof built and verified; distinct = distinct case input",
    },
    "C02": {
        "claimed": False,
        "title": "Verifier accepts only proofs of possession of a valid credential",
        "streams": [("tamper", {"quick": ["ossl-rel"], "thorough": ["ossl-rel", "rust-rel"]})],
        "ops": {"verify"},
        "rule": "every single-field alteration (+1, -1, 0, swap, remove, duplicate) of honest proofs incl. c_list, c_hash, nonce, sub-proof order; non-trivial = altered proof evaluated by both verifiers; distinct = distinct altered document",
    },
    "C03": {
        "claimed": False,
        "title": "Predicate proofs are sound and complete over the 32-bit range",
        "streams": [("predgrid", {"quick": ["ossl-rel", "ossl-chk"], "thorough": ["ossl-rel", "ossl-chk", "rust-rel"]}),
                    ("tamper", {"quick": ["ossl-rel"], "thorough": ["ossl-rel"]})],
        "ops": {"pred", "verify"},
        "rule": "boundary grid of (value, threshold, type) through the real prover; alterations of predicate proofs; non-trivial = decision build/refuse reached; distinct = distinct triple / altered document",
    },
    "C08": {
        "title": "Accumulator equals the set of valid indices over every registry history",
        "streams": [("reg", {"quick": ["ossl-rel", "ossl-chk"], "thorough": ["ossl-rel", "ossl-chk", "rust-rel"]})],
        "ops": {"reg_history", "for_issued"},
        "level_text": "Theorems for every commutative ring, every gamma, every registry size with L+1 < 2^32, both overflow modes and histories of any length: accumulator invariant (induction over the operation list), path independence, agreement of for_issued and initial_state with the defining sum, delta contents, rejection of every out-of-range index, and the two incremental tail-sum loops. The u32 index expression and the range guards the theorems talk about are regenerated from the Rust source on every run; everything else is tied by running the real Issuer API and the model on the same histories and comparing accumulators, deltas and outcomes.",
        "level_note": "Model in exponent form (g'^a represented by a); equality of exponents implies equality of group elements. Trusted: Lean kernel, Mathlib, translate.py, the correspondence harness, amcl for materialising g'^a. Histories that violate the protocol (revoking a never-issued index) are outside WfHist.",
        "rule": "registry histories (corpus of boundary histories, then random well-formed histories with ~10% out-of-range and ~4% protocol-violating operations; thorough adds the exhaustive tree L<=3); non-trivial = at least one operation accepted; distinct = distinct (L, mode, op list)",
    },
    "C09": {
        "level_text": "Theorems for every commutative ring, gamma, L with 2L+1 < 2^32, both overflow modes, index sets of any size: the accumulator check gamma^i*acc - omega equals gamma^(L+1) exactly when i is valid (witness_check_iff, revoked_fails_check, valid_passes_check); the issuer-side witness, Witness::new (both issuance modes) and Witness::update (any applicable batch delta) all produce the closed form witOf, hence agree (three_derivations_agree); every tail index read lies in [2,2L] and is never L+1. The u32 tail-index expressions and the guards are regenerated from the Rust source each run; the rest is tied by running real histories with up to 4 holders and comparing every witness (issuer, from scratch, step-wise updated) with the model, plus the pairing check and process_credential_signature evaluated on the real code.",
        "level_note": "Exponent form; the public pairing equation holds iff the exponent identity holds given e(g,g') != 1 and gamma^(L+1) != 0 (evaluated implicitly by the pairing oracle on every run). Trusted: Lean kernel, Mathlib, translate.py, harness, amcl for materialisation and pairings. Malformed deltas are C20's subject.",
        "title": "Witnesses are valid exactly for non-revoked indices",
        "streams": [("reg", {"quick": ["ossl-rel"], "thorough": ["ossl-rel", "ossl-chk", "rust-rel"]})],
        "ops": {"reg_history"},
        "rule": "registry histories with up to 4 holders; at every step each holder's witness is derived three ways on the implementation and two ways in the model; non-trivial = history with at least one holder and one accepted later operation",
    },
    "C13": {
        "level_text": "Theorems over index sets of any size about the merge body regenerated from the Rust source (Gen.mergeBody): per-index truth table of the merged issued/revoked sets (merge_pointwise), closed form (I1\\R2) u (I2\\R1) / (R1\\I2) u (R2\\I1) and cancellation for consecutive deltas, disjointness, endpoints prev/accum, refusal of non-consecutive deltas, and merge_update_equiv: for every holder, updating a witness with the merged delta equals updating with the two deltas in sequence (any ring, any gamma, 2L+1 < 2^32, both overflow modes). Correspondence: real merge on all consecutive and sampled non-consecutive delta pairs of real histories compared with the model; witness equivalence evaluated on the real code for every index.",
        "level_note": "Sets are lists read as sets (membership statements); accumulator equality is an abstract Boolean relation. Trusted: Lean kernel, Mathlib, translate.py (statement scanner of the merge body), harness.",
        "title": "Merged registry deltas equal sequential application",
        "streams": [("reg", {"quick": ["ossl-rel"], "thorough": ["ossl-rel", "rust-rel"]})],
        "ops": {"merge", "reg_history"},
        "rule": "all consecutive and sampled non-consecutive pairs of deltas recorded along registry histories; non-trivial = merge accepted; distinct = distinct (d1, d2) set contents",
    },
    "C14": {
        "level_text": "Theorems for every commutative ring, gamma, L with 2L+1 < 2^32, both overflow modes: the generator yields exactly 2L+1 tails then None, position k holding gamma^k for k != L+1 and g' at L+1 (tails_sequence, induction with invariant cur = gamma^(k-1)); count() is 2L+1-k; the regenerated suppressed index (size/2)+1 equals L+1; no emitted position equals gamma^(L+1) when gamma^d != 1 for 1 <= d <= L+1 (secret_never_emitted); determinism. size and the suppressed position are the u32 expressions regenerated from the Rust source each run. Correspondence: real generators for L=1..24 (quick) / 1..64 + sampled up to 10^4 (thorough) with fresh keys, every emitted tail compared with g'^(model exponent), count() at every call, re-created and deserialised generators, and a direct search for g'^(gamma^(L+1)) among the outputs.",
        "level_note": "Exponent form; inequality of group elements follows from inequality of exponents. The non-degeneracy hypothesis on gamma holds for all but a negligible fraction of keys and is checked by the direct oracle per generated key. Trusted: Lean kernel, Mathlib, translate.py, harness, amcl for materialisation.",
        "title": "Tails are correct and the secret tail is never published",
        "streams": [("tails", {"quick": ["ossl-rel", "ossl-chk"], "thorough": ["ossl-rel", "ossl-chk", "rust-rel"]})],
        "ops": {"tails"},
        "rule": "tails generators for L = 1..24 (quick) / 1..64 (thorough) plus sampled larger L, fresh registry keys each; every emitted position compared with g'^(gamma^k); non-trivial = generator drained; distinct = distinct L",
    },
}

COMPARATORS = {}
COMPARATORS.update(cmp_reg.COMPARATORS)
COMPARATORS.update(cmp_pres.COMPARATORS)

# ---- big-number layer (C17, C18): comparators in cmp_bn.py, findings in known_findings.bn.json
from . import cmp_bn
COMPARATORS.update(cmp_bn.COMPARATORS)
PROPS["C17"] = {
    "title": "BigNumber operations agree with integer arithmetic",
    "streams": [("bn", {"quick": ["ossl-rel", "rust-rel"], "thorough": ["ossl-rel", "rust-rel"]}),
                ("bn_random", {"quick": ["ossl-rel", "rust-rel", "ossl-chk"], "thorough": ["ossl-rel", "rust-rel", "ossl-chk", "rust-chk"]})],
    "ops": {"bn_op", "bn_random"},
    "post_compare": cmp_bn.post_compare,
    "level_text": "Lean 4 theorems for ALL integers (no size bound) about an executable model with three variants of every BigNumber operation (Spec = integer arithmetic, Rust = src/bn/rust.rs statement by statement, Ossl = src/bn/openssl.rs with each wrapped OpenSSL call stated as observed): per operation Rust.op = Spec.op and Ossl.op = Spec.op, errors included, on the stated domain. Proved in full: add sub mul sqr div cmp eq gcd word-ops lshift1 num_bits set_negative from_bytes; modulus sign handling (truncating % + fix-up = non-negative residue mod |n| for every sign, Err iff n = 0), mod_mul, mod_sub; Rust.inverse (own extended Euclid): loop invariant r = a*t (mod n) plus determinant/sign/bound invariants, termination within fuel |a|+1 (the model's panic branch is unreachable), result in [0,|n|) with a*t = 1, Err iff gcd != 1 - for operand >= 0 and modulus != -1; uniqueness of the inverse and correctness of Spec.inverse itself; mod_div; mod_exp for exponent >= 0 (every base, every non-zero modulus of either sign; square-and-multiply proved equal to a^e mod n) and for negative exponents as the power of the inverse; exp special cases against a^k for 0 <= k < 2^64 except 0^0; right shifts = floor division; is_bit_set/set_bit/bitwise_or_big_int (loop over bit positions = Nat lor) on non-negative values for both back-ends; bytes and text: to_bytes/from_bytes round trip, every numeral of the strict grammar -?[0-9]+ / -?[0-9a-fA-F]+ read with the same value by both parsers, print-then-parse identity in decimal and hexadecimal on both back-ends (incl. OpenSSL's padded hex); generates_semiprime_subgroup = the three conditions; prime_in_range_bounds: for all random bytes and all (size, range) passing the asserts with range % 8 != 0, both overflow modes, the candidate lies in [2^size, 2^size+2^range) and is odd, instantiated with the regenerated constants (596,119). Where the full statement is false the file holds X_partial plus a machine-checked witness X_finding (inverse(-3,5)=2, mod_exp zero modulus panic, exp(0,0)=0, OpenSSL increment(-5)=6, '5x', '+5', from_u32 truncation, range % 8 = 0 ...). Tie to the code: the harness calls the real BigNumber API of both builds on edge values crossed per arity, random operands of 1..4096 bits of both signs and malformed text (quick ~25 000 calls per build), and every result is compared (a) with the model of that back-end (correspondence) and (b) with Spec; Spec as evaluated by Lean is additionally compared with Python integers on every case.",
    "level_note": "Observed, not proved: num-bigint, num-integer, OpenSSL and glass_pumpkin primitives are stated in the model as what they were seen to do on the installed versions (num-bigint 0.4.6, OpenSSL 3.5, glass_pumpkin 1.7.0) and are tied only by the correspondence stream. rand, rand_range, is_prime, is_safe_prime, generate_prime, generate_safe_prime, generate_prime_in_range and random_qr are not modelled as functions: their contracts (range, both halves and the top bit of the range reached, all values of tiny ranges drawn, exact bit length, primality/safe-primality of outputs and verdicts against a 16-base Miller-Rabin implemented in the Lean driver - a test, not a proof - Euler criterion for random_qr with known factors, fixed point of the modelled buffer construction) are checked statistically over a few hundred draws in the quick tier. Specification choices: inverse modulo 0, +1, -1 is 'undefined' (both back-ends reject 1 on purpose); printing is compared by denotation (the exact text is C18's matter); bit operations and shifts are specified on non-negative values and indices only, exp on exponents < 2^64 (differences outside are counted, not failed). Deviations confirmed on the real code are listed in known_findings.bn.json and reported as KNOWN-FINDING; the model mirrors the code as it is.",
    "rule": "one BigNumber API call per case; edge values crossed per arity, random operands of 1..4096 bits of both signs, malformed text; non-trivial = the call returned Ok; distinct = distinct (back-end, operation, operands)",
}
PROPS["C18"] = {
    "title": "The two big-number backends are interchangeable",
    "streams": [("bn", {"quick": ["ossl-rel", "rust-rel"], "thorough": ["ossl-rel", "rust-rel"]})],
    "ops": {"bn_op"},
    "post_compare": cmp_bn.post_compare,
    "level_text": "Lean 4 theorems for ALL integers: backend_equiv_<op> : Rust.op = Ossl.op as corollaries of the two C17 refinement theorems - for all inputs for add sub mul sqr div gcd cmp eq is_negative num_bits lshift1 word-ops modulus (all signs) mod_mul mod_sub set_negative from_bytes to_dec, and on the C17 domain for to_bytes (a != 0), inverse/mod_div (operand >= 0, modulus != -1), mod_exp (non-zero modulus; negative exponents with base >= 0 and |n| >= 2), exp, increment/decrement (a >= 0), from_u32 (< 2^32), shifts and bit operations and bitwise_or_big_int (non-negative), generates_semiprime_subgroup; decimal text and bytes written by one back-end are read as the same number by the other (decimal_text_exchange, bytes_exchange); numerals of the strict grammar are read identically. For every operation where the back-ends differ a witness theorem with the concrete input: zero_bytes_differ ([0] vs []), hash_of_zero_differs (any hashed list containing 0 gets different byte input), to_hex_differs, dec_plus_sign_differs, dec_trailing_garbage_differs, dec_underscore_differs, dec_nul_differs, inverse_negative_differs, increment_negative_differs, exp_zero_zero_differs, mod_exp_zero_modulus_differs, from_u32_differs, bits_negative_differ ... Tie to the code: the same generated operation list (same seed; the generator is a function of the seed only) is executed by the OpenSSL build and by the pure-Rust build; each result is compared with the model of its back-end and the two implementations' results are compared with each other line by line.",
    "level_note": 'The OpenSSL and num-bigint primitives are observed, not verified (see C17). Differences outside the C17 domain (bit operations on negative values, exponents >= 2^64) are counted and reported in the evidence but are not failures. Random generators, primality tests and prime generation are compared only through their C17 contracts (glass_pumpkin refuses sizes below 128 bits and its is_prime accepts Carmichael numbers; OpenSSL generate_safe_prime returns size+1 bits). Every in-domain difference found on the real code is a known finding in known_findings.bn.json.',
    "rule": "the same generated operation list (same seed, back-end independent generator) executed by the OpenSSL build and the pure-Rust build and compared line by line; non-trivial = the call returned Ok; distinct = distinct (operation, operands)",
}


# ---- C19 (group-order scalars, point/pairing wrappers, four_squares)
from . import cmp_c19
COMPARATORS.update(cmp_c19.COMPARATORS)
PROPS["C19"] = {
    "title": "Group-scalar arithmetic, pairing wrappers and four-square helper are exact",
    "streams": [("c19", {"quick": ["ossl-rel", "ossl-chk"], "thorough": ["ossl-rel", "ossl-chk", "rust-rel"]})],
    "ops": {"sc_op", "pair_case", "four_squares"},
    "level_text": "Theorems for all inputs about the executable models CL.Sc (GroupOrderElement wrappers on the raw BIG value) and CL.FourSq (four_squares with its three labelled-break loops, the Legendre skip, the stale-roots exit and explicit 64-bit usize arithmetic in both profiles). Proved: the group order r is prime (Pratt certificate, kernel-evaluated); add_mod, sub_mod, mul_mod, mod_neg, pow_mod are the operations of ZMod r and return reduced values (pow_mod = a^e mod r by square-and-multiply); inverse(a) is the field inverse for every a not divisible by r (Fermat); from_bytes of at most 32 bytes is the big-endian integer mod r and longer input is Err; to_bytes/from_bytes round trip; from_string on 1..71 hex digits is the value mod r, empty/non-hex input panics; bignum_to_group_element_reduce(n) = n mod r for every integer n; four_squares returns for EVERY delta >= 0 (no bound) four naturals whose squares sum to delta (Lagrange's theorem from Mathlib plus the easy direction of Legendre's three-square theorem, proved here, for the skip), refuses every delta < 0, leaves through a break for delta >= 1, and for delta < 2^64 (in particular < 2^33) no pow/+ overflows and no - underflows in either profile. Two defects are stated as witness theorems with partial theorems beside them: mod_neg(0) = r (unreduced) and inverse(0) does not terminate. NOT proved: the group laws of the amcl points and the bilinearity of its pairing (a dependency): these are observed on the real wrappers by 60 named oracles per case (bilinearity, pair2, inverse, pow, add/sub/neg/mul incl. the identity), with the scalars a+b, ab, a-b, -a, r-1 compared with the model; their exponent-form counterparts are proved as ring identities of the scalar model.",
    "level_note": "Tie between model and code: every wrapper and four_squares are run in-process on edge and random inputs and compared value by value with the compiled Lean model (four_squares: exact roots, the model mirrors the search order), and independently with Python integers mod r. inverse is modelled by its function a^(r-2) (amcl's binary invmodp is a dependency); the f64 step largest_square_less_than is modelled by the integer square root: assumption = IEEE-754 sqrt correctly rounded and monotone; pinned by running four_squares on k^2 and k^2-1 for every k <= 65535 (all breakpoints below 2^32). from_string on 72+ hex digits is outside the modelled domain (amcl BIG overflow into the sign bit: wrong residue, unreduced value or non-termination were observed; reported to C16/C20). usize is modelled as 64 bits. Deltas whose search needs more than a budget of loop iterations are run on the real code only (counts in the class histogram), because the model is ~40x slower. Trusted: Lean kernel, Mathlib (Nat.sum_four_squares, lucas_primality, ZMod), the correspondence harness, amcl/OpenSSL/num-bigint as observed dependencies.",
    "rule": "scalars: all binary operations on a 17x17 grid of edge operands (0, 1, 2, 3, 2^32-1, 2^64, 2^127, r-1, r-2, r-3, (r+-1)/2, 2^253, the unreduced r returned by mod_neg(0), random) plus random pairs; unary operations on the same operands; from_bytes on every length 0..40 with zero/ff/random fillings, r+-k, multiples of r, random values >= r; from_string on malformed, 1..71-digit and over-long strings; bignum_reduce on signed integers up to 3000 bits. points/pairing: 25 edge pairs (a,b) from {0,1,2,r-1,(r+1)/2}^2 and random pairs, random base points incl. the identity in G1 or G2. four_squares: every delta 0..65536 (quick) / 0..2^22 (thorough), 10 negative values, 20 000 (quick) / 200 000 (thorough) stratified samples up to 2^32-1 in 8 strata (4^a(8b+7), k^2-1, k^2, k^2+1, powers of two and neighbours, uniform, log-uniform, top of range), a fixed list of hard values (2*4^k, 7*4^k, 15*4^k, ..., 2^31, 2^32-1), and k^2-1, k^2 for every k <= 65535; one four_squares case line carries up to 8192 deltas (numbers of deltas are in streams[].classes.count). non-trivial = the call returned Ok (four_squares: the line contains at least one decomposition); distinct = distinct inputs.",
    "assumptions": ["IEEE-754 binary64 sqrt is correctly rounded and monotone, and u64 -> f64 conversion is exact below 2^53 (largest_square_less_than = integer square root on the range of predicate deltas); pinned by the breakpoint stream", "usize is 64 bits wide"],
}
