"""Comparators for the registry family (C08 accumulator, C09 witnesses, C13 merge, C14 tails).

Each comparator is called twice per case (pass 1 collects materialisation requests, pass 2
compares).  It reports through `F` (Findings):
  F.oracle_failure(name, detail, case, variant)   property violated on the implementation
  F.mismatch(what, detail, case, variant, model)  model and implementation disagree
and returns True when the case is non-trivial (reached an accepting branch).
"""

R_ORDER = 0x2523648240000001BA344D8000000007FF9F800000000010A10000000000000D

ORACLES = {
    "C08": {"unchanged_on_reject", "out_of_range_rejected", "out_of_range_no_panic", "wellformed_accepted",
            "delta_records", "defining_sum", "for_issued_agrees"},
    "C09": {"witness_check_iff_valid", "three_derivations_agree", "process_accepts_iff_valid"},
    "C13": {"consecutive_merge", "refused_merge_leaves_target", "merge_update_equiv", "nonconsecutive_refused",
            "chain_endpoints"},
    "C14": {"generator_deterministic", "generator_serde_state", "secret_never_emitted"},
    "C20": {"out_of_range_no_panic"},
}


def op_indices(op):
    if op["op"] == "update":
        return list(op.get("issued", [])) + list(op.get("revoked", []))
    return [op["i"]]


def cmp_reg_history(prop, case, model, mat, F, variant, final):
    impl = case["impl"]
    L = case["in"]["L"]
    gd = impl["g_dash"]
    if final:
        for o in impl.get("oracles", []):
            if o["name"] in ORACLES.get(prop, ()):
                F.oracle_failure(o["name"], o["detail"], case, variant)
    if model is None or "error" in model:
        if final:
            F.mismatch("driver", "model driver failed: %s" % (model or {}).get("error"), case, variant)
        return False
    nontrivial = False
    if prop == "C08":
        got = mat.g2(gd, model["init"])
        if final and got != impl["init"]:
            F.mismatch("init", "initial accumulator: model g'^%s vs impl %s" % (model["init"][:16], impl["init"][:16]), case, variant)
    for k, (si, sm) in enumerate(zip(impl["steps"], model["steps"])):
        op = case["in"]["ops"][k]
        if si["status"] == "ok":
            nontrivial = True
        if prop in ("C08", "C20"):
            if final and si["status"] != sm["status"]:
                F.mismatch("status", "step %d %s: impl %s (%s) vs model %s" % (k, op, si["status"], si.get("msg", "")[:80], sm["status"]), case, variant, sm)
                continue
        if prop == "C08":
            got = mat.g2(gd, sm["acc"])
            if final and got != si["accum"]:
                F.mismatch("accum", "step %d %s: accumulator differs (model exponent %s)" % (k, op, sm["acc"][:16]), case, variant, sm)
            # model-level statement: an out-of-range index is an error
            if final and any(i < 1 or i > L for i in op_indices(op)) and sm["status"] != "err":
                F.oracle_failure("model_out_of_range_rejected", "model accepts/panics on %s with L=%d: %s" % (op, L, sm["status"]), case, variant)
            di, dm = si.get("delta"), sm.get("delta")
            if (di is None) != (dm is None):
                if final and si["status"] == sm["status"]:
                    F.mismatch("delta", "step %d: delta presence differs (impl %s, model %s)" % (k, di is not None, dm is not None), case, variant, sm)
            elif di is not None:
                if final and (di["issued"] != dm["issued"] or di["revoked"] != dm["revoked"]):
                    F.mismatch("delta", "step %d: delta sets differ impl %s/%s model %s/%s" % (k, di["issued"], di["revoked"], dm["issued"], dm["revoked"]), case, variant, sm)
                p = mat.g2(gd, dm["prev"]) if dm["prev"] is not None else None
                a = mat.g2(gd, dm["acc"])
                if final and (p != di["prev"] or a != di["acc"]):
                    F.mismatch("delta", "step %d: delta prev/accum differ" % k, case, variant, sm)
        if prop == "C09":
            if si.get("witness") is not None and sm.get("witness") is not None:
                w = mat.g2(gd, sm["witness"])
                if final and w != si["witness"]:
                    F.mismatch("issuer_witness", "step %d %s: issuance witness differs" % (k, op), case, variant, sm)
            for idx, hi in si.get("holders", {}).items():
                hm = sm.get("holders", {}).get(idx)
                if hm is None:
                    if final:
                        F.mismatch("holders", "step %d: model has no holder %s" % (k, idx), case, variant, sm)
                    continue
                for which in ("upd", "new"):
                    g = mat.g2(gd, hm[which])
                    if final and g != hi[which]:
                        F.mismatch("witness_" + which, "step %d index %s: witness (%s) differs: model %s impl %s" %
                                   (k, idx, which, str(g)[:16], hi[which][:16]), case, variant, hm)
    return nontrivial


def cmp_for_issued(prop, case, model, mat, F, variant, final):
    impl = case["impl"]
    if model is None or "error" in model:
        if final:
            F.mismatch("driver", "model driver failed: %s" % (model or {}).get("error"), case, variant)
        return False
    if model["status"] != impl["status"]:
        if final:
            F.mismatch("for_issued", "status impl %s model %s" % (impl["status"], model["status"]), case, variant, model)
        return False
    if model["status"] == "ok":
        g = mat.g2(impl["g_dash"], model["acc"])
        if final and g != impl["accum"]:
            F.mismatch("for_issued", "for_issued(%s) differs from the registry reached through the history" % case["in"]["issued"], case, variant, model)
        return True
    return False


def cmp_merge(prop, case, model, mat, F, variant, final):
    impl = case["impl"]
    if not final:
        return impl["status"] == "ok"
    if model is None or "error" in model:
        F.mismatch("driver", "model driver failed: %s" % (model or {}).get("error"), case, variant)
        return False
    if model["status"] != impl["status"]:
        F.mismatch("merge_status", "merge status impl %s model %s (d1=%s d2=%s)" % (impl["status"], model["status"], short_delta(case["in"]["d1"]), short_delta(case["in"]["d2"])), case, variant, model)
        return False
    if impl["status"] == "ok":
        r = impl["result"]
        if r["issued"] != model["issued"] or r["revoked"] != model["revoked"] or r["prev"] != model["prev"] or r["acc"] != model["acc"]:
            F.mismatch("merge_result", "merged delta differs: impl %s model issued=%s revoked=%s" % (short_delta(r), model["issued"], model["revoked"]), case, variant, model)
        return True
    return False


def short_delta(d):
    return {"issued": d.get("issued"), "revoked": d.get("revoked"), "prev": (d.get("prev") or "none")[:8], "acc": (d.get("acc") or "")[:8]}


def cmp_tails(prop, case, model, mat, F, variant, final):
    impl = case["impl"]
    L = case["in"]["L"]
    if final:
        for o in impl.get("oracles", []):
            if o["name"] in ORACLES.get(prop, ()):
                F.oracle_failure(o["name"], o["detail"], case, variant)
    if model is None or "error" in model:
        if final:
            F.mismatch("driver", "model driver failed: %s" % (model or {}).get("error"), case, variant)
        return False
    if model["status"] != impl["status"]:
        if final:
            F.mismatch("tails_status", "L=%d: impl %s model %s" % (L, impl["status"], model["status"]), case, variant)
        return False
    if impl["status"] != "ok":
        return False
    # model-level statement (search space when an obligation about Gen.Index broke)
    if final:
        gam = int(case["in"]["gamma"], 16)
        for k, om in enumerate(model["outs"]):
            if om["tail"] is None:
                continue
            v = int(om["tail"], 16)
            if v == pow(gam, L + 1, R_ORDER):
                F.oracle_failure("model_secret_never_emitted", "model: position %d for L=%d is gamma^(L+1)" % (k, L), case, variant)
            want = 1 if k == L + 1 else pow(gam, k, R_ORDER)
            if v != want:
                F.oracle_failure("model_tails_sequence", "model: position %d for L=%d is not %s" % (k, L, "g'" if k == L + 1 else "gamma^k"), case, variant)
    n_some = sum(1 for o in impl["outs"] if o["tail"] is not None)
    if final and n_some != 2 * L + 1:
        F.oracle_failure("tails_count", "generator for L=%d yields %d tails, expected %d" % (L, n_some, 2 * L + 1), case, variant)
    if final and len(impl["outs"]) != len(model["outs"]):
        F.mismatch("tails_len", "L=%d: number of recorded calls differs" % L, case, variant)
    for k, (oi, om) in enumerate(zip(impl["outs"], model["outs"])):
        if final and oi["count"] != om["count"]:
            F.mismatch("tails_count", "L=%d call %d: count() impl %s model %s" % (L, k, oi["count"], om["count"]), case, variant)
        if final and oi["count"] != max(2 * L + 1 - k, 0):
            F.oracle_failure("count_consistent", "L=%d: count() before call %d is %d, expected %d" % (L, k, oi["count"], max(2 * L + 1 - k, 0)), case, variant)
        if (oi["tail"] is None) != (om["tail"] is None):
            if final:
                F.mismatch("tails_end", "L=%d call %d: Some/None differs" % (L, k), case, variant)
            continue
        if oi["tail"] is not None:
            g = mat.g2(impl["g_dash"], om["tail"])
            if final and g != oi["tail"]:
                F.mismatch("tail_value", "L=%d position %d: tail differs from model g'^%s" % (L, k, om["tail"][:16]), case, variant)
    return True


COMPARATORS = {
    "reg_history": cmp_reg_history,
    "for_issued": cmp_for_issued,
    "merge": cmp_merge,
    "tails": cmp_tails,
}
